#!/bin/sh
# MANIFEST.hooks.baseline_off_cmd: the repository's own suite with the `verif` guard OFF (no -tags verif).
# Same modules and flags as /root/.vp/BASELINE.json; a module without Go packages (./assets) is not an error.
export GOFLAGS=-mod=mod GOPROXY=off GOSUMDB=off GOTOOLCHAIN=local
rc=0
for m in . ./assets ./exp ./zapgrpc/internal/test; do
  if [ -z "$(cd /repo/$m && go list ./... 2>/dev/null)" ]; then continue; fi
  (cd /repo/$m && go test -mod=mod -json -vet=off -count=1 -timeout 25m ./...) || rc=1
done
exit $rc
