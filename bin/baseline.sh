#!/bin/sh
# MANIFEST.hooks.baseline_off_cmd: the repository's own suite with the `verif` guard OFF (no -tags verif).
export GOFLAGS=-mod=mod GOPROXY=off GOSUMDB=off GOTOOLCHAIN=local
rc=0
for m in . ./assets ./exp ./zapgrpc/internal/test; do
  (cd /repo/$m && go test -mod=mod -json -vet=off -count=1 -timeout 25m ./...) || rc=1
done
exit $rc
