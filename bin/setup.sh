#!/bin/sh
# MANIFEST.setup_cmd: build the whole framework from files on disk only (offline).
set -e
cd "$(dirname "$0")/.."
export GOFLAGS=-mod=mod GOPROXY=off GOSUMDB=off GOTOOLCHAIN=local CARGO_NET_OFFLINE=true PIP_NO_INDEX=1
mkdir -p .work/bin evidence replays
python3 - <<'PY'
import sys, os
sys.path.insert(0, "lib")
import zv
ok, msg = zv.build_tools(race=True)
if not ok:
    print(msg); sys.exit(1)
ok, msg, rows = zv.regen()
print("gen tables:", rows)
if not ok:
    print(msg); sys.exit(1)
PY
bin/mkdrv
cd lean
lake build ZapVerif $(ls ZapVerif/Drv | sed -n 's/^\(C[0-9TR]*\)\.lean$/zvdrv-\1/p')
