package main

// Table `AddTo`: the `switch f.Type` of zapcore/field.go `Field.AddTo`, translated arm by arm into the Lean function
// `addToArm`, the error tail into `errTail`, plus `ifaceType` (what each arm expects to find in `f.Interface`).
//
// Accepted arm bodies (anything else is `gen:AddTo …`):
//
//	[err =] enc.AddX(f.Key, ARG)   |  enc.OpenNamespace(f.Key)  |  err = f.Interface.(ObjectMarshaler).MarshalLogObject(enc)
//	err = encodeStringer(f.Key, f.Interface, enc)  |  err = encodeError(f.Key, f.Interface.(error), enc)
//	if f.Interface != nil { ARM } else { ARM }     |  break     |  default: panic(…)
//
// ARG: f.Integer | f.String | f.Interface | f.Interface.(T) | intN(ARG) | uintN(ARG) | time.Duration(ARG) | ARG == n |
//
//	math.FloatNNfrombits(ARG) | time.Unix(0, ARG) | ARG.In(ARG)

import (
	"fmt"
	"go/ast"
	"go/token"
	"strconv"
	"strings"
)

func init() {
	tables = append(tables, table{"AddTo", genAddTo})
}

var addMethods = map[string]bool{"AddArray": true, "AddObject": true, "AddBinary": true, "AddByteString": true, "AddBool": true,
	"AddComplex128": true, "AddComplex64": true, "AddDuration": true, "AddFloat64": true, "AddFloat32": true, "AddInt": true,
	"AddInt64": true, "AddInt32": true, "AddInt16": true, "AddInt8": true, "AddString": true, "AddTime": true, "AddUint": true,
	"AddUint64": true, "AddUint32": true, "AddUint16": true, "AddUint8": true, "AddUintptr": true, "AddReflected": true}

// zcType normalises a type expression of package zapcore to the spelling used in package zap.
func zcType(e ast.Expr) string {
	switch t := e.(type) {
	case *ast.Ident:
		switch t.Name {
		case "error", "string", "bool", "byte", "complex128", "complex64", "any":
			return t.Name
		}
		if numGoT[t.Name] != "" {
			return t.Name
		}
		if t.IsExported() {
			return "zapcore." + t.Name
		}
		return t.Name
	case *ast.StarExpr:
		return "*" + zcType(t.X)
	case *ast.ArrayType:
		if t.Len == nil {
			return "[]" + zcType(t.Elt)
		}
	case *ast.SelectorExpr:
		return exprString(t)
	case *ast.InterfaceType:
		if t.Methods == nil || len(t.Methods.List) == 0 {
			return "any"
		}
	}
	bail("unsupported type expression %s", exprString(e))
	return ""
}

type addToX struct {
	recv, enc string
	binds     []string // `bindE (assert…) fun pN =>` prefixes of the arm being translated
	nbind     int
	iface     map[string]string // FieldType → what the arm expects in f.Interface
	cur       []string          // field types of the arm being translated
}

func (x *addToX) noteIface(t string) {
	for _, ft := range x.cur {
		if old, ok := x.iface[ft]; ok && old != t {
			bail("AddTo: case %sType uses f.Interface both as %s and as %s", ft, old, t)
		}
		x.iface[ft] = t
	}
}

func (x *addToX) arg(e ast.Expr) gval {
	switch t := e.(type) {
	case *ast.ParenExpr:
		return x.arg(t.X)
	case *ast.SelectorExpr:
		if exprString(t.X) == x.recv {
			switch t.Sel.Name {
			case "Key":
				return gval{"key", "string", "str"}
			case "Integer":
				return gval{"integer", "int64", "num"}
			case "String":
				return gval{"str", "string", "str"}
			case "Interface":
				x.noteIface("any")
				return gval{"iface", "any", "box"}
			}
		}
	case *ast.BasicLit:
		if t.Kind == token.INT {
			return gval{t.Value, "untyped int", "num"}
		}
	case *ast.BinaryExpr:
		if t.Op == token.EQL {
			a, b := x.arg(t.X), x.arg(t.Y)
			if a.kind == "num" && b.kind == "num" {
				return gval{"(decide (" + a.term + " = " + b.term + "))", "bool", "bool"}
			}
		}
	case *ast.TypeAssertExpr:
		if exprString(t.X) == x.recv+".Interface" && t.Type != nil {
			ty := zcType(t.Type)
			x.noteIface(ty)
			x.nbind++
			v := fmt.Sprintf("p%d", x.nbind)
			if ty == "time.Time" {
				x.binds = append(x.binds, fmt.Sprintf("bindE (assertTime iface) fun %s => ", v))
				return gval{v, ty, "time"}
			}
			x.binds = append(x.binds, fmt.Sprintf("bindE (assertT %s iface) fun %s => ", leanStr(ty), v))
			return gval{v, ty, "box"}
		}
	case *ast.CallExpr:
		fname := exprString(t.Fun)
		if se, ok := t.Fun.(*ast.SelectorExpr); ok && se.Sel.Name == "In" && len(t.Args) == 1 {
			tm := x.arg(se.X)
			l := x.arg(t.Args[0])
			if tm.kind == "time" && l.typ == "*time.Location" {
				return gval{"(timeIn " + tm.term + " " + l.term + ")", "time.Time", "time"}
			}
		}
		if fname == "time.Unix" && len(t.Args) == 2 && exprString(t.Args[0]) == "0" {
			n := x.arg(t.Args[1])
			if n.kind == "num" && n.typ == "int64" {
				return gval{"(timeUnix0 " + n.term + ")", "time.Time", "time"}
			}
		}
		if len(t.Args) == 1 {
			if fname == "math.Float64frombits" || fname == "math.Float32frombits" {
				bits := fname[len("math.Float") : len("math.Float")+2]
				a := x.arg(t.Args[0])
				if a.typ != "uint"+bits {
					bail("AddTo: %s applied to a %s (expected uint%s)", fname, a.typ, bits)
				}
				return gval{"(float" + bits + "frombits " + a.term + ")", "float" + bits, "num"}
			}
			if cv, ok := intConv[fname]; ok {
				a := x.arg(t.Args[0])
				if a.kind == "num" && isIntLike(a.typ) {
					return gval{"(" + cv + " " + a.term + ")", fname, "num"}
				}
			}
		}
	}
	bail("AddTo: case %s: unsupported expression `%s`", strings.Join(x.cur, ","), exprString(e))
	return gval{}
}

func cvalOf(v gval) string {
	switch v.kind {
	case "num":
		return ".int " + v.term
	case "bool":
		return ".bool " + v.term
	case "str":
		return ".str " + v.term
	case "time":
		return ".time " + v.term
	}
	return ".pay " + v.term
}

// arm translates the statements of one case into a Lean term of type ArmR.
func (x *addToX) arm(stmts []ast.Stmt) string {
	where := "AddTo: case " + strings.Join(x.cur, ",")
	if len(stmts) != 1 {
		bail("%s: %d statements, expected 1", where, len(stmts))
	}
	x.binds = nil
	wrap := func(body string) string { return strings.Join(x.binds, "") + body }
	switch s := stmts[0].(type) {
	case *ast.BranchStmt:
		if s.Tok == token.BREAK {
			return ".ok ([], none)"
		}
	case *ast.IfStmt:
		// if f.Interface != nil { A } else { B }
		if s.Init == nil && s.Else != nil && exprString(s.Cond) == x.recv+".Interface != nil" {
			eb, ok := s.Else.(*ast.BlockStmt)
			if ok {
				a := x.arm(s.Body.List)
				b := x.arm(eb.List)
				return "if iface ≠ Payload.nil then " + a + " else " + b
			}
		}
	case *ast.ExprStmt, *ast.AssignStmt:
		var call ast.Expr
		errRet := "none"
		if es, ok := s.(*ast.ExprStmt); ok {
			call = es.X
		} else {
			as := s.(*ast.AssignStmt)
			if as.Tok != token.ASSIGN || len(as.Lhs) != 1 || len(as.Rhs) != 1 || exprString(as.Lhs[0]) != "err" {
				bail("%s: assignment is not `err = …`", where)
			}
			call = as.Rhs[0]
			errRet = "r"
		}
		c, ok := call.(*ast.CallExpr)
		if !ok {
			bail("%s: not a call: %s", where, exprString(call))
		}
		fname := exprString(c.Fun)
		se, isSel := c.Fun.(*ast.SelectorExpr)
		switch {
		case isSel && exprString(se.X) == x.enc && se.Sel.Name == "OpenNamespace" && len(c.Args) == 1 && exprString(c.Args[0]) == x.recv+".Key" && errRet == "none":
			return ".ok ([⟨.OpenNamespace, key, .none⟩], none)"
		case isSel && exprString(se.X) == x.enc && addMethods[se.Sel.Name] && len(c.Args) == 2 && exprString(c.Args[0]) == x.recv+".Key":
			v := x.arg(c.Args[1])
			return wrap(fmt.Sprintf(".ok ([⟨.%s, key, %s⟩], %s)", se.Sel.Name, cvalOf(v), errRet))
		case isSel && se.Sel.Name == "MarshalLogObject" && len(c.Args) == 1 && exprString(c.Args[0]) == x.enc && errRet == "r":
			v := x.arg(se.X)
			if v.kind != "box" {
				bail("%s: receiver of MarshalLogObject is not f.Interface.(T)", where)
			}
			return wrap(fmt.Sprintf(".ok ([⟨.InlineObject, [], .pay %s⟩], r)", v.term))
		case fname == "encodeStringer" && len(c.Args) == 3 && exprString(c.Args[0]) == x.recv+".Key" && exprString(c.Args[1]) == x.recv+".Interface" && exprString(c.Args[2]) == x.enc && errRet == "r":
			x.noteIface("fmt.Stringer")
			return ".ok (encodeStringer key iface)"
		case fname == "encodeError" && len(c.Args) == 3 && exprString(c.Args[0]) == x.recv+".Key" && exprString(c.Args[2]) == x.enc && errRet == "r":
			v := x.arg(c.Args[1])
			if v.typ != "error" {
				bail("%s: second argument of encodeError is not f.Interface.(error)", where)
			}
			return wrap(fmt.Sprintf(".ok (encodeError key %s)", v.term))
		}
		bail("%s: unsupported call `%s`", where, exprString(call))
	}
	bail("%s: unsupported statement `%s`", where, exprString1(stmts[0]))
	return ""
}

func genAddTo() (lean string, rows int, err error) {
	defer func() {
		if e := recover(); e != nil {
			if g, ok := e.(gerr); ok {
				err = g
				return
			}
			panic(e)
		}
	}()
	_, f, perr := parseFile("zapcore/field.go")
	if perr != nil {
		return "", 0, perr
	}
	// 1. the FieldType const block must list exactly the constants the model knows
	var consts []string
	for _, d := range f.Decls {
		gd, ok := d.(*ast.GenDecl)
		if !ok || gd.Tok != token.CONST {
			continue
		}
		isFT := false
		for i, s := range gd.Specs {
			vs := s.(*ast.ValueSpec)
			if i == 0 && vs.Type != nil && exprString(vs.Type) == "FieldType" && len(vs.Values) == 1 && exprString(vs.Values[0]) == "iota" {
				isFT = true
			}
			if !isFT {
				break
			}
			if i > 0 && (vs.Type != nil || len(vs.Values) != 0) {
				bail("FieldType const block: %s has an explicit type or value", vs.Names[0].Name)
			}
			for _, n := range vs.Names {
				consts = append(consts, n.Name)
			}
		}
	}
	var want []string
	for _, n := range fieldTypeNames {
		want = append(want, n+"Type")
	}
	if strings.Join(consts, " ") != strings.Join(want, " ") {
		bail("FieldType constants differ from the model's FT: source has [%s]", strings.Join(consts, " "))
	}
	// 2. AddTo
	fd := findFunc(f, "Field", "AddTo")
	if fd == nil || len(fd.Recv.List[0].Names) != 1 {
		bail("func (f Field) AddTo not found")
	}
	x := &addToX{recv: fd.Recv.List[0].Names[0].Name, enc: paramName(fd, 0), iface: map[string]string{}}
	b := fd.Body.List
	if len(b) != 3 || exprString1(b[0]) != "var …" {
		bail("AddTo: body is not `var err error; switch f.Type {…}; if err != nil {…}`")
	}
	sw, ok := b[1].(*ast.SwitchStmt)
	if !ok || sw.Init != nil || exprString(sw.Tag) != x.recv+".Type" {
		bail("AddTo: second statement is not `switch f.Type`")
	}
	arms := map[string]string{}
	srcs := map[string]string{}
	sawDefault := false
	for _, cc := range sw.Body.List {
		c := cc.(*ast.CaseClause)
		if c.List == nil {
			sawDefault = true
			if len(c.Body) != 1 || !strings.HasPrefix(exprString1(c.Body[0]), "panic(") {
				bail("AddTo: default arm is not a single panic(…)")
			}
			continue
		}
		x.cur = nil
		for _, e := range c.List {
			name := exprString(e)
			if _, ok := ftOf(name); !ok {
				bail("AddTo: unknown case label %s", name)
			}
			x.cur = append(x.cur, strings.TrimSuffix(name, "Type"))
		}
		t := x.arm(c.Body)
		for _, n := range x.cur {
			if _, dup := arms[n]; dup {
				bail("AddTo: duplicate case %sType", n)
			}
			arms[n] = t
			srcs[n] = exprString1(c.Body[0])
			rows++
		}
	}
	if !sawDefault {
		bail("AddTo: no default arm")
	}
	// 3. the error tail
	is, ok := b[2].(*ast.IfStmt)
	if !ok || is.Init != nil || is.Else != nil || exprString(is.Cond) != "err != nil" || len(is.Body.List) != 1 {
		bail("AddTo: last statement is not `if err != nil { enc.AddString(…) }`")
	}
	tc, ok := is.Body.List[0].(*ast.ExprStmt)
	if !ok {
		bail("AddTo: error tail is not a call")
	}
	call, ok := tc.X.(*ast.CallExpr)
	if !ok || exprString(call.Fun) != x.enc+".AddString" || len(call.Args) != 2 || exprString(call.Args[1]) != "err.Error()" {
		bail("AddTo: error tail is not `enc.AddString(<key>, err.Error())`")
	}
	kc, ok := call.Args[0].(*ast.CallExpr)
	if !ok || exprString(kc.Fun) != "fmt.Sprintf" || len(kc.Args) != 2 || exprString(kc.Args[1]) != x.recv+".Key" {
		bail("AddTo: error key is not fmt.Sprintf(<format>, f.Key)")
	}
	fl, ok := kc.Args[0].(*ast.BasicLit)
	if !ok || fl.Kind != token.STRING {
		bail("AddTo: error key format is not a string literal")
	}
	format, _ := strconv.Unquote(fl.Value)
	if !strings.HasPrefix(format, "%s") || strings.Contains(format[2:], "%") {
		bail("AddTo: error key format %q is not \"%%s<suffix>\"", format)
	}
	suffix := format[2:]

	var sb strings.Builder
	sb.WriteString("import ZapVerif.Model.Field\n/-! `Field.AddTo` of zapcore/field.go, translated arm by arm. -/\nnamespace ZapVerif.Gen\nopen ZapVerif ZapVerif.Field\n\n")
	sb.WriteString("/-- the `switch f.Type` of `Field.AddTo`; `r` is the error returned by an `err = enc.AddX(…)` call (none = nil) -/\n")
	sb.WriteString("@[simp] def addToArm (key : Bytes) (integer : Int) (str : Bytes) (iface : Payload) (r : Option Bytes) : FT → ArmR\n")
	for _, n := range fieldTypeNames {
		ft, _ := ftOf(n + "Type")
		if t, ok := arms[n]; ok {
			fmt.Fprintf(&sb, "  -- %s\n  | %s => %s\n", srcs[n], ft, t)
		} else {
			fmt.Fprintf(&sb, "  -- default: panic\n  | %s => .error \"unknown field type\"\n", ft)
		}
	}
	fmt.Fprintf(&sb, "\n/-- `if err != nil { enc.AddString(fmt.Sprintf(%q, f.Key), err.Error()) }` -/\n", format)
	fmt.Fprintf(&sb, "@[simp] def errTail (key : Bytes) : Option Bytes → List Call\n  | none => []\n  | some e => [⟨.AddString, key ++ %s, .str e⟩]\n\n", leanBytesOfString(suffix))
	sb.WriteString("/-- `Field.AddTo`: the calls the encoder receives, or `.error` when it panics -/\n")
	sb.WriteString("@[simp] def addTo (f : Fld) (r : Option Bytes) : Except String (List Call) :=\n  bindE (addToArm f.key f.integer f.str f.iface r f.ty) fun ce => .ok (ce.1 ++ errTail f.key ce.2)\n\n")
	sb.WriteString("/-- what each arm expects in `f.Interface`: `none` = unused, `\"any\"` = passed on as it is, else the asserted type -/\n")
	sb.WriteString("def ifaceType : FT → Option String\n")
	for _, n := range fieldTypeNames {
		ft, _ := ftOf(n + "Type")
		if t, ok := x.iface[n]; ok {
			fmt.Fprintf(&sb, "  | %s => some %s\n", ft, leanStr(t))
		} else {
			fmt.Fprintf(&sb, "  | %s => none\n", ft)
		}
	}
	sb.WriteString("\nend ZapVerif.Gen\n")
	return sb.String(), rows, nil
}
