package main

// Table `Any`: the type switch of field.go `Any` as an ordered list (case type, type argument of anyFieldC, constructor),
// the default arm, and the shape of `anyFieldC[T].Any` (`v, _ := val.(T); return f(key, v)`).

import (
	"fmt"
	"go/ast"
	"go/token"
	"strings"
)

func init() {
	tables = append(tables, table{"Any", genAny})
}

func genAny() (lean string, rows int, err error) {
	defer func() {
		if e := recover(); e != nil {
			if g, ok := e.(gerr); ok {
				err = g
				return
			}
			panic(e)
		}
	}()
	_, f, perr := parseFile("field.go")
	if perr != nil {
		return "", 0, perr
	}
	// anyFieldC[T].Any
	am := findFunc(f, "anyFieldC", "Any")
	if am == nil || len(am.Recv.List[0].Names) != 1 || len(am.Body.List) != 2 {
		bail("func (f anyFieldC[T]) Any not found or not two statements")
	}
	fn := am.Recv.List[0].Names[0].Name
	kp, vp := paramName(am, 0), paramName(am, 1)
	if exprString1(am.Body.List[0]) != "v, _ := "+vp+".(T)" || exprString1(am.Body.List[1]) != "return "+fn+"("+kp+", v)" {
		bail("anyFieldC.Any is not `v, _ := val.(T); return f(key, v)` (found `%s; %s`)", exprString1(am.Body.List[0]), exprString1(am.Body.List[1]))
	}
	fd := findFunc(f, "", "Any")
	if fd == nil {
		bail("func Any not found")
	}
	kp, vp = paramName(fd, 0), paramName(fd, 1)
	b := fd.Body.List
	if len(b) != 3 {
		bail("Any: body is not `var c …; switch value.(type) {…}; return c.Any(key, value)`")
	}
	ds, ok := b[0].(*ast.DeclStmt)
	if !ok {
		bail("Any: first statement is not a var declaration")
	}
	cv := ds.Decl.(*ast.GenDecl).Specs[0].(*ast.ValueSpec).Names[0].Name
	ts, ok := b[1].(*ast.TypeSwitchStmt)
	if !ok || ts.Init != nil || exprString1(ts.Assign) != vp+".(type)" {
		bail("Any: second statement is not `switch %s.(type)`", vp)
	}
	if exprString1(b[2]) != "return "+cv+".Any("+kp+", "+vp+")" {
		bail("Any: last statement is not `return %s.Any(%s, %s)`", cv, kp, vp)
	}
	var ents []string
	def := ""
	for _, cc := range ts.Body.List {
		c := cc.(*ast.CaseClause)
		if len(c.Body) != 1 {
			bail("Any: a case arm has %d statements", len(c.Body))
		}
		as, ok := c.Body[0].(*ast.AssignStmt)
		if !ok || as.Tok != token.ASSIGN || len(as.Lhs) != 1 || len(as.Rhs) != 1 || exprString(as.Lhs[0]) != cv {
			bail("Any: case arm is not `%s = anyFieldC[T](Ctor)`", cv)
		}
		call, ok := as.Rhs[0].(*ast.CallExpr)
		if !ok || len(call.Args) != 1 {
			bail("Any: case arm is not `%s = anyFieldC[T](Ctor)`", cv)
		}
		ix, ok := call.Fun.(*ast.IndexExpr)
		if !ok || exprString(ix.X) != "anyFieldC" {
			bail("Any: case arm is not `%s = anyFieldC[T](Ctor)`", cv)
		}
		targ := normAny(typeText(ix.Index, nil))
		ctor, ok := call.Args[0].(*ast.Ident)
		if !ok {
			bail("Any: constructor argument %s is not an identifier", exprString(call.Args[0]))
		}
		if c.List == nil {
			if def != "" {
				bail("Any: two default arms")
			}
			def = fmt.Sprintf("(%s, %s)", leanStr(targ), leanStr(ctor.Name))
			continue
		}
		for _, te := range c.List {
			ents = append(ents, fmt.Sprintf("  (%s, %s, %s)", leanStr(normAny(typeText(te, nil))), leanStr(targ), leanStr(ctor.Name)))
			rows++
		}
	}
	if def == "" {
		bail("Any: no default arm")
	}
	rows++
	var sb strings.Builder
	sb.WriteString("/-! The type switch of `zap.Any` (field.go). -/\nnamespace ZapVerif.Gen\n\n")
	sb.WriteString("/-- (case type, type argument of `anyFieldC`, constructor) in source order; `anyFieldC[T](C).Any(key, val)` is\n    `v, _ := val.(T); C(key, v)` -/\n")
	sb.WriteString("def anySwitch : List (String × String × String) := [\n" + strings.Join(ents, ",\n") + "\n]\n\n")
	sb.WriteString("/-- the default arm: (type argument, constructor) -/\ndef anyDefault : String × String := " + def + "\n\nend ZapVerif.Gen\n")
	return sb.String(), rows, nil
}
