package main

// BwsFacts — the synchronisation skeleton of every method of zapcore.BufferedWriteSyncer
// (zapcore/buffered_write_syncer.go), read with go/parser + go/ast only: in source order, every lock / unlock /
// deferred unlock, channel close and receive, `go` statement, assignment to (or local copy of) a mutex / channel /
// flag field of the receiver, call of another method of the type, and the control structure around them (if / for / select with its
// cases / immediately invoked function literal / return). Conditions are kept only when they test one of the flags
// (or a local that holds the result of an immediately invoked function literal); an `if` with nothing relevant
// inside is dropped. Everything else (bufio calls, size defaults, …) is byte-level behaviour covered by the
// differential check, not by this table. Statement kinds the walker does not know are reported as `unknown <type>`,
// so that a rewrite cannot hide a synchronisation action from the table.
//
// The thread machine of C12 (lean/ZapVerif/Model/BwsConc.lean) is a transcription of this skeleton;
// `Props/C12.lean: Conc.skeleton_as_modelled` states the skeleton it was transcribed from.

import (
	"fmt"
	"go/ast"
	"go/token"
	"sort"
	"strings"
)

func init() {
	tables = append(tables, table{"BwsFacts", genBwsFacts})
}

func genBwsFacts() (string, int, error) {
	_, f, err := parseFile("zapcore/buffered_write_syncer.go")
	if err != nil {
		return "", 0, err
	}
	type method struct {
		name string
		evs  []string
	}
	var methods []method
	own := map[string]bool{}     // methods declared on the type
	syncFld := map[string]bool{} // its mutex / channel / flag fields
	for _, d := range f.Decls {
		if fd, ok := d.(*ast.FuncDecl); ok && fd.Recv != nil && len(fd.Recv.List) == 1 && typeName(fd.Recv.List[0].Type) == "BufferedWriteSyncer" {
			own[fd.Name.Name] = true
		}
	}
	fields := bwsFields(f)
	for _, fl := range fields {
		syncFld[strings.Fields(fl)[0]] = true
	}
	for _, d := range f.Decls {
		fd, ok := d.(*ast.FuncDecl)
		if !ok || fd.Recv == nil || len(fd.Recv.List) != 1 || typeName(fd.Recv.List[0].Type) != "BufferedWriteSyncer" {
			continue
		}
		if fd.Body == nil {
			continue
		}
		recv := "_"
		if len(fd.Recv.List[0].Names) == 1 {
			recv = fd.Recv.List[0].Names[0].Name
		}
		w := &bwsWalker{recv: recv, own: own, syncFld: syncFld, locals: map[string]bool{}}
		w.block(fd.Body.List)
		methods = append(methods, method{fd.Name.Name, bwsPrune(w.evs)})
	}
	if len(methods) == 0 {
		return "", 0, fmt.Errorf("no methods of BufferedWriteSyncer found")
	}
	sort.Slice(methods, func(i, j int) bool { return methods[i].name < methods[j].name })

	var sb strings.Builder
	rows := 0
	sb.WriteString("namespace ZapVerif.Gen\n\n")
	sb.WriteString("/-- mutexes, channels and flags of `zapcore.BufferedWriteSyncer`, in declaration order -/\ndef bwsSyncFields : List String := [")
	for i, fl := range fields {
		if i > 0 {
			sb.WriteString(", ")
		}
		fmt.Fprintf(&sb, "%q", fl)
		rows++
	}
	sb.WriteString("]\n\n")
	var names []string
	for _, m := range methods {
		fmt.Fprintf(&sb, "/-- synchronisation skeleton of `(*BufferedWriteSyncer).%s` in source order, as (kind, argument);\n    `if`/`else`/`for`/`select`/`func-call`/`func-value`/`defer`/`go-body`/`block` open a block that `end` closes -/\ndef bws_%s : List (String × String) := [", m.name, m.name)
		for i, e := range m.evs {
			if i > 0 {
				sb.WriteString(",")
			}
			k, a := bwsSplit(e)
			fmt.Fprintf(&sb, "\n  (%q, %q)", k, a)
			rows++
		}
		sb.WriteString("]\n\n")
		names = append(names, fmt.Sprintf("(%q, bws_%s)", m.name, m.name))
	}
	sb.WriteString("/-- all methods of the type, by name -/\ndef bwsSkeleton : List (String × List (String × String)) := [\n  " + strings.Join(names, ",\n  ") + "]\n\nend ZapVerif.Gen\n")
	return sb.String(), rows, nil
}

// bwsFields: the mutex / channel / flag fields of the struct, "name type", in declaration order
func bwsFields(f *ast.File) []string {
	var fields []string
	for _, d := range f.Decls {
		gd, ok := d.(*ast.GenDecl)
		if !ok || gd.Tok != token.TYPE {
			continue
		}
		for _, sp := range gd.Specs {
			ts := sp.(*ast.TypeSpec)
			st, ok := ts.Type.(*ast.StructType)
			if !ok || ts.Name.Name != "BufferedWriteSyncer" {
				continue
			}
			for _, fl := range st.Fields.List {
				t := exprString(fl.Type)
				if _, isChan := fl.Type.(*ast.ChanType); isChan {
					t = "chan"
				}
				switch t {
				case "sync.Mutex", "sync.RWMutex", "sync.Once", "sync.WaitGroup", "sync.Cond", "chan", "bool":
					for _, n := range fl.Names {
						if ast.IsExported(n.Name) {
							continue
						}
						fields = append(fields, n.Name+" "+t)
					}
				}
			}
		}
	}
	return fields
}

// bwsSplit turns a walker event into (kind, argument)
func bwsSplit(e string) (string, string) {
	switch {
	case e == "}":
		return "end", ""
	case e == "{":
		return "block", ""
	case strings.HasSuffix(e, "{"):
		body := strings.TrimSpace(strings.TrimSuffix(e, "{"))
		k, a, _ := strings.Cut(body, " ")
		return k, a
	case e == "default:":
		return "default", ""
	case strings.HasPrefix(e, "case ") && strings.HasSuffix(e, ":"):
		body := strings.TrimSuffix(strings.TrimPrefix(e, "case "), ":")
		k, a, _ := strings.Cut(body, " ")
		return "case-" + k, a
	case strings.HasPrefix(e, "defer "):
		k, a, _ := strings.Cut(strings.TrimPrefix(e, "defer "), " ")
		return "defer-" + k, a
	}
	k, a, _ := strings.Cut(e, " ")
	return k, a
}

// bwsPrune drops `if … {` `}` / `else {` `}` pairs with nothing in between, repeatedly
func bwsPrune(evs []string) []string {
	for {
		var out []string
		changed := false
		for i := 0; i < len(evs); i++ {
			if i+1 < len(evs) && evs[i+1] == "}" && (evs[i] == "if … {" || evs[i] == "else {") {
				i++
				changed = true
				continue
			}
			out = append(out, evs[i])
		}
		evs = out
		if !changed {
			return evs
		}
	}
}

type bwsWalker struct {
	recv    string
	own     map[string]bool
	syncFld map[string]bool
	locals  map[string]bool // locals assigned from an immediately invoked function literal
	evs     []string
}

// mentionsFlag: the condition reads a flag field of the receiver or a tracked local
func (w *bwsWalker) mentionsFlag(e ast.Expr) bool {
	found := false
	ast.Inspect(e, func(n ast.Node) bool {
		switch x := n.(type) {
		case *ast.SelectorExpr:
			if id, ok := x.X.(*ast.Ident); ok && id.Name == w.recv && w.syncFld[x.Sel.Name] {
				found = true
			}
		case *ast.Ident:
			if w.locals[x.Name] {
				found = true
			}
		}
		return !found
	})
	return found
}

func (w *bwsWalker) cond(e ast.Expr) string {
	if w.mentionsFlag(e) {
		return exprString(e)
	}
	return "…"
}

func (w *bwsWalker) emit(format string, a ...any) { w.evs = append(w.evs, fmt.Sprintf(format, a...)) }

// isRecvExpr: the expression is the receiver or a selector chain starting at it (s, s.mu, s.ticker.C …)
func (w *bwsWalker) isRecvExpr(e ast.Expr) bool {
	switch x := e.(type) {
	case *ast.Ident:
		return x.Name == w.recv
	case *ast.SelectorExpr:
		return w.isRecvExpr(x.X)
	}
	return false
}

// exprEvents emits, in evaluation order, the synchronisation actions inside an expression
func (w *bwsWalker) exprEvents(e ast.Expr) {
	switch x := e.(type) {
	case nil:
	case *ast.CallExpr:
		if fl, ok := x.Fun.(*ast.FuncLit); ok { // immediately invoked function literal
			for _, a := range x.Args {
				w.exprEvents(a)
			}
			w.emit("func-call {")
			w.block(fl.Body.List)
			w.emit("}")
			return
		}
		for _, a := range x.Args {
			w.exprEvents(a)
		}
		if id, ok := x.Fun.(*ast.Ident); ok && id.Name == "close" && len(x.Args) == 1 {
			w.emit("close %s", exprString(x.Args[0]))
			return
		}
		if sel, ok := x.Fun.(*ast.SelectorExpr); ok {
			w.exprEvents(sel.X)
			if w.isRecvExpr(sel.X) {
				switch sel.Sel.Name {
				case "Lock", "RLock":
					w.emit("lock %s", exprString(sel.X))
				case "Unlock", "RUnlock":
					w.emit("unlock %s", exprString(sel.X))
				default:
					if id, ok := sel.X.(*ast.Ident); ok && id.Name == w.recv && w.own[sel.Sel.Name] {
						w.emit("call %s", exprString(x.Fun))
					}
				}
			}
			return
		}
		w.exprEvents(x.Fun)
	case *ast.UnaryExpr:
		if x.Op == token.ARROW {
			w.emit("recv %s", exprString(x.X))
			return
		}
		w.exprEvents(x.X)
	case *ast.BinaryExpr:
		w.exprEvents(x.X)
		w.exprEvents(x.Y)
	case *ast.ParenExpr:
		w.exprEvents(x.X)
	case *ast.SelectorExpr:
		w.exprEvents(x.X)
	case *ast.StarExpr:
		w.exprEvents(x.X)
	case *ast.IndexExpr:
		w.exprEvents(x.X)
		w.exprEvents(x.Index)
	case *ast.SliceExpr:
		w.exprEvents(x.X)
	case *ast.TypeAssertExpr:
		w.exprEvents(x.X)
	case *ast.KeyValueExpr:
		w.exprEvents(x.Value)
	case *ast.CompositeLit:
		for _, el := range x.Elts {
			w.exprEvents(el)
		}
	case *ast.FuncLit: // a function value that is not called here: its body runs some other time
		w.emit("func-value {")
		w.block(x.Body.List)
		w.emit("}")
	case *ast.Ident, *ast.BasicLit, *ast.ChanType, *ast.ArrayType, *ast.MapType, *ast.StructType, *ast.InterfaceType, *ast.FuncType:
	default:
		w.emit("unknown-expr %T", e)
	}
}

func (w *bwsWalker) block(stmts []ast.Stmt) {
	for _, st := range stmts {
		w.stmt(st)
	}
}

func (w *bwsWalker) stmt(st ast.Stmt) {
	switch s := st.(type) {
	case *ast.ExprStmt:
		w.exprEvents(s.X)
	case *ast.AssignStmt:
		for _, r := range s.Rhs {
			w.exprEvents(r)
		}
		for i, l := range s.Lhs {
			if id, ok := l.(*ast.Ident); ok && len(s.Rhs) == len(s.Lhs) {
				if c, ok := s.Rhs[i].(*ast.CallExpr); ok {
					if _, ok := c.Fun.(*ast.FuncLit); ok {
						w.locals[id.Name] = true
					}
				}
				// a local copy of a mutex / channel / flag field: `flushed = s.flushed`
				if sel, ok := s.Rhs[i].(*ast.SelectorExpr); ok {
					if x, ok := sel.X.(*ast.Ident); ok && x.Name == w.recv && w.syncFld[sel.Sel.Name] {
						w.locals[id.Name] = true
						w.emit("read %s = %s", id.Name, exprString(sel))
					}
				}
			}
			if sel, isSel := l.(*ast.SelectorExpr); isSel {
				if id, ok := sel.X.(*ast.Ident); ok && id.Name == w.recv && w.syncFld[sel.Sel.Name] {
					rhs := "…"
					if len(s.Rhs) == len(s.Lhs) {
						switch r := s.Rhs[i].(type) {
						case *ast.Ident, *ast.BasicLit:
							rhs = exprString(r)
						case *ast.CallExpr:
							rhs = exprString(r.Fun) + "(…)"
						}
					}
					w.emit("set %s %s %s", exprString(l), s.Tok.String(), rhs)
				}
			}
		}
	case *ast.DeclStmt:
		if gd, ok := s.Decl.(*ast.GenDecl); ok {
			for _, sp := range gd.Specs {
				if vs, ok := sp.(*ast.ValueSpec); ok {
					for _, v := range vs.Values {
						w.exprEvents(v)
					}
				}
			}
		}
	case *ast.IncDecStmt:
		w.exprEvents(s.X)
	case *ast.DeferStmt:
		c := s.Call
		if id, ok := c.Fun.(*ast.Ident); ok && id.Name == "close" && len(c.Args) == 1 {
			w.emit("defer close %s", exprString(c.Args[0]))
			return
		}
		if sel, ok := c.Fun.(*ast.SelectorExpr); ok && w.isRecvExpr(sel.X) && (sel.Sel.Name == "Unlock" || sel.Sel.Name == "RUnlock") {
			w.emit("defer unlock %s", exprString(sel.X))
			return
		}
		w.emit("defer {")
		w.exprEvents(c)
		w.emit("}")
	case *ast.GoStmt:
		w.emit("go %s", exprString(s.Call.Fun))
		if fl, ok := s.Call.Fun.(*ast.FuncLit); ok {
			w.emit("go-body {")
			w.block(fl.Body.List)
			w.emit("}")
		}
	case *ast.ReturnStmt:
		for _, r := range s.Results {
			w.exprEvents(r)
		}
		w.emit("return")
	case *ast.IfStmt:
		if s.Init != nil {
			w.stmt(s.Init)
		}
		w.exprEvents(s.Cond)
		w.emit("if %s {", w.cond(s.Cond))
		w.block(s.Body.List)
		w.emit("}")
		switch e := s.Else.(type) {
		case nil:
		case *ast.BlockStmt:
			w.emit("else {")
			w.block(e.List)
			w.emit("}")
		default:
			w.emit("else {")
			w.stmt(e)
			w.emit("}")
		}
	case *ast.ForStmt:
		if s.Init != nil {
			w.stmt(s.Init)
		}
		c := ""
		if s.Cond != nil {
			c = w.cond(s.Cond) + " "
			w.exprEvents(s.Cond)
		}
		w.emit("for %s{", c)
		w.block(s.Body.List)
		if s.Post != nil {
			w.stmt(s.Post)
		}
		w.emit("}")
	case *ast.SelectStmt:
		w.emit("select {")
		for _, cc := range s.Body.List {
			c := cc.(*ast.CommClause)
			switch cm := c.Comm.(type) {
			case nil:
				w.emit("default:")
			case *ast.ExprStmt:
				if u, ok := cm.X.(*ast.UnaryExpr); ok && u.Op == token.ARROW {
					w.emit("case recv %s:", exprString(u.X))
				} else {
					w.emit("case unknown:")
				}
			case *ast.AssignStmt:
				if len(cm.Rhs) == 1 {
					if u, ok := cm.Rhs[0].(*ast.UnaryExpr); ok && u.Op == token.ARROW {
						w.emit("case recv %s:", exprString(u.X))
						break
					}
				}
				w.emit("case unknown:")
			case *ast.SendStmt:
				w.emit("case send %s:", exprString(cm.Chan))
			default:
				w.emit("case unknown:")
			}
			w.block(c.Body)
		}
		w.emit("}")
	case *ast.BlockStmt:
		w.emit("{")
		w.block(s.List)
		w.emit("}")
	case *ast.SendStmt:
		w.exprEvents(s.Value)
		w.emit("send %s", exprString(s.Chan))
	case *ast.BranchStmt:
		w.emit("%s", s.Tok.String())
	case *ast.EmptyStmt:
	default:
		w.emit("unknown %T", st)
	}
}
