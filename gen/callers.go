package main

import (
	"fmt"
	"go/ast"
	"go/token"
	"sort"
	"strconv"
	"strings"
)

// Table Callers (C14, C15): the call-depth and skip facts of the front ends, read syntactically.
//
//	logger.go    callerSkipOffset; the Capture(log.callerSkip+callerSkipOffset, …) call; Sugar `+= n`;
//	             every exported *Logger method that calls log.check DIRECTLY (not inside a func literal) and its level
//	sugar.go     Desugar `-= n`; every exported *SugaredLogger method whose body is the single call
//	             s.log(L, T, A, C) / s.logln(L, A, C) with the routing of its parameters; log/logln call s.base.Check
//	             directly; With/WithLazy call s.sweetenFields directly
//	options.go   AddCallerSkip: `log.callerSkip += skip`
//	global.go    _stdLogDefaultDepth, _loggerWriterDepth, the AddCallerSkip(…) argument of every std-log constructor,
//	             loggerWriter.Write calls l.logFunc directly
//	stack.go     slab size, runtime.Callers(skip+n, …) (all occurrences agree), growth factor, Take's Capture(skip+n, Full)
//	handler.go   stacktrace.Take(n + h.callerSkip), called directly from Handle
func init() {
	tables = append(tables, table{"Callers", genCallers})
}

// csCalls returns the calls in body that are not nested in a func literal (those run in another frame).
func csCalls(body ast.Node) []*ast.CallExpr {
	var out []*ast.CallExpr
	ast.Inspect(body, func(n ast.Node) bool {
		switch x := n.(type) {
		case *ast.FuncLit:
			return false
		case *ast.CallExpr:
			out = append(out, x)
		}
		return true
	})
	return out
}

func csCallsTo(body ast.Node, fun string) []*ast.CallExpr {
	var out []*ast.CallExpr
	for _, c := range csCalls(body) {
		if exprString(c.Fun) == fun {
			out = append(out, c)
		}
	}
	return out
}

func csIntLit(e ast.Expr) (int, bool) {
	bl, ok := e.(*ast.BasicLit)
	if !ok || bl.Kind != token.INT {
		return 0, false
	}
	n, err := strconv.Atoi(bl.Value)
	return n, err == nil
}

// csConst finds `const name = <int literal>` at file level or inside fn (when fn != nil).
func csConst(f *ast.File, fn *ast.FuncDecl, name string) (int, error) {
	var found *ast.ValueSpec
	visit := func(n ast.Node) bool {
		if gd, ok := n.(*ast.GenDecl); ok && gd.Tok == token.CONST {
			for _, s := range gd.Specs {
				vs := s.(*ast.ValueSpec)
				for i, id := range vs.Names {
					if id.Name == name && i < len(vs.Values) {
						found = &ast.ValueSpec{Names: []*ast.Ident{id}, Values: []ast.Expr{vs.Values[i]}}
					}
				}
			}
		}
		return true
	}
	if fn != nil {
		ast.Inspect(fn.Body, visit)
	} else {
		for _, d := range f.Decls {
			visit(d)
		}
	}
	if found == nil {
		return 0, fmt.Errorf("const %s not found", name)
	}
	n, ok := csIntLit(found.Values[0])
	if !ok {
		return 0, fmt.Errorf("const %s is not an integer literal (%s)", name, exprString(found.Values[0]))
	}
	return n, nil
}

// csCompound finds the single `<lhs> <op>= <int>` statement in fn and returns the int.
func csCompound(fn *ast.FuncDecl, lhs string, tok token.Token) (int, error) {
	var vals []int
	var bad error
	ast.Inspect(fn.Body, func(n ast.Node) bool {
		as, ok := n.(*ast.AssignStmt)
		if !ok || len(as.Lhs) != 1 || exprString(as.Lhs[0]) != lhs {
			return true
		}
		if as.Tok != tok {
			bad = fmt.Errorf("%s: `%s %s …` where `%s` was expected", fn.Name.Name, lhs, as.Tok, tok)
			return true
		}
		v, ok := csIntLit(as.Rhs[0])
		if !ok {
			bad = fmt.Errorf("%s: `%s %s %s` is not an integer literal", fn.Name.Name, lhs, tok, exprString(as.Rhs[0]))
			return true
		}
		vals = append(vals, v)
		return true
	})
	if bad != nil {
		return 0, bad
	}
	if len(vals) != 1 {
		return 0, fmt.Errorf("%s: expected exactly one `%s %s n`, found %d", fn.Name.Name, lhs, tok, len(vals))
	}
	return vals[0], nil
}

// csPlusConst reads `x + n` / `n + x` where x prints as one of want; returns n.
func csPlusConst(e ast.Expr, want ...string) (int, error) {
	be, ok := e.(*ast.BinaryExpr)
	if !ok || be.Op != token.ADD {
		return 0, fmt.Errorf("`%s` is not of the form x + n", exprString(e))
	}
	isWant := func(s string) bool {
		for _, w := range want {
			if s == w {
				return true
			}
		}
		return false
	}
	if n, ok := csIntLit(be.Y); ok && isWant(exprString(be.X)) {
		return n, nil
	}
	if n, ok := csIntLit(be.X); ok && isWant(exprString(be.Y)) {
		return n, nil
	}
	return 0, fmt.Errorf("`%s` is not %v + n", exprString(e), want)
}

func csRecvName(fd *ast.FuncDecl) string {
	if fd.Recv != nil && len(fd.Recv.List) == 1 && len(fd.Recv.List[0].Names) == 1 {
		return fd.Recv.List[0].Names[0].Name
	}
	return ""
}

func csMethods(f *ast.File, recv string) []*ast.FuncDecl {
	var out []*ast.FuncDecl
	for _, d := range f.Decls {
		fd, ok := d.(*ast.FuncDecl)
		if !ok || fd.Recv == nil || len(fd.Recv.List) != 1 || fd.Body == nil {
			continue
		}
		if typeName(fd.Recv.List[0].Type) == recv {
			out = append(out, fd)
		}
	}
	return out
}

func csLevel(e ast.Expr, params map[string]bool) (string, error) {
	s := exprString(e)
	s = strings.TrimPrefix(s, "zapcore.")
	if lv, ok := levelConst[s]; ok {
		return "some " + leanInt(lv), nil
	}
	if params[s] {
		return "none", nil
	}
	return "", fmt.Errorf("level argument `%s` is neither a level constant nor a parameter", s)
}

func csParams(fd *ast.FuncDecl) map[string]bool {
	m := map[string]bool{}
	for _, p := range fd.Type.Params.List {
		for _, n := range p.Names {
			m[n.Name] = true
		}
	}
	return m
}

// csRoute classifies an argument of s.log/s.logln: "nil", "empty" (the literal ""), or "param <index>".
func csRoute(e ast.Expr, fd *ast.FuncDecl) (string, error) {
	s := exprString(e)
	if s == "nil" {
		return ".none", nil
	}
	if s == `""` {
		return ".empty", nil
	}
	idx := 0
	for _, p := range fd.Type.Params.List {
		for _, n := range p.Names {
			if n.Name == s {
				return fmt.Sprintf("(.param %d)", idx), nil
			}
			idx++
		}
	}
	return "", fmt.Errorf("%s: argument `%s` is neither nil, \"\" nor a parameter", fd.Name.Name, s)
}

func genCallers() (string, int, error) {
	rows := 0
	var sb strings.Builder
	sb.WriteString("namespace ZapVerif.Gen.Callers\n\n")
	def := func(name string, v int, doc string) {
		fmt.Fprintf(&sb, "/-- %s -/\ndef %s : Nat := %d\n", doc, name, v)
		rows++
	}

	// ---- logger.go
	_, lf, err := parseFile("logger.go")
	if err != nil {
		return "", 0, err
	}
	check := findFunc(lf, "Logger", "check")
	if check == nil {
		return "", 0, fmt.Errorf("func (*Logger) check not found")
	}
	off, err := csConst(lf, check, "callerSkipOffset")
	if err != nil {
		return "", 0, err
	}
	def("callerSkipOffset", off, "logger.go: `const callerSkipOffset` in Logger.check")
	caps := csCallsTo(check.Body, "stacktrace.Capture")
	if len(caps) != 1 || len(caps[0].Args) != 2 {
		return "", 0, fmt.Errorf("Logger.check: expected exactly one direct stacktrace.Capture(skip, depth) call, found %d", len(caps))
	}
	recv := csRecvName(check)
	if a := exprString(caps[0].Args[0]); a != recv+".callerSkip + callerSkipOffset" && a != "callerSkipOffset + "+recv+".callerSkip" {
		return "", 0, fmt.Errorf("Logger.check: Capture skip argument is `%s`, expected `%s.callerSkip + callerSkipOffset`", a, recv)
	}
	sugar := findFunc(lf, "Logger", "Sugar")
	if sugar == nil {
		return "", 0, fmt.Errorf("func (*Logger) Sugar not found")
	}
	sd, err := csCompound(sugar, "core.callerSkip", token.ADD_ASSIGN)
	if err != nil {
		return "", 0, err
	}
	def("sugarDelta", sd, "logger.go: Sugar() does `callerSkip += n`")

	// exported Logger methods calling log.check directly
	type lm struct{ name, level string }
	var lms []lm
	for _, fd := range csMethods(lf, "Logger") {
		r := csRecvName(fd)
		cs := csCallsTo(fd.Body, r+".check")
		if len(cs) == 0 {
			continue
		}
		if !fd.Name.IsExported() {
			return "", 0, fmt.Errorf("unexported Logger.%s calls check: depth is no longer 1", fd.Name.Name)
		}
		if len(cs) != 1 || len(cs[0].Args) != 2 {
			return "", 0, fmt.Errorf("Logger.%s: expected exactly one direct %s.check(lvl, msg) call", fd.Name.Name, r)
		}
		lv, err := csLevel(cs[0].Args[0], csParams(fd))
		if err != nil {
			return "", 0, fmt.Errorf("Logger.%s: %v", fd.Name.Name, err)
		}
		lms = append(lms, lm{fd.Name.Name, lv})
	}
	// a check call hidden in a func literal of any Logger method would have a different depth
	for _, fd := range csMethods(lf, "Logger") {
		r := csRecvName(fd)
		n := 0
		ast.Inspect(fd.Body, func(x ast.Node) bool {
			if c, ok := x.(*ast.CallExpr); ok && exprString(c.Fun) == r+".check" {
				n++
			}
			return true
		})
		if n != len(csCallsTo(fd.Body, r+".check")) {
			return "", 0, fmt.Errorf("Logger.%s calls check inside a func literal", fd.Name.Name)
		}
	}
	sort.Slice(lms, func(i, j int) bool { return lms[i].name < lms[j].name })
	sb.WriteString("\n/-- exported `*Logger` methods that call `log.check` directly: (name, level constant or none = parameter) -/\n")
	sb.WriteString("def loggerMethods : List (String × Option Int) := [\n")
	for i, m := range lms {
		fmt.Fprintf(&sb, "  (%q, %s)%s\n", m.name, m.level, map[bool]string{true: ",", false: ""}[i < len(lms)-1])
		rows++
	}
	sb.WriteString("]\n")

	// ---- sugar.go
	_, sf, err := parseFile("sugar.go")
	if err != nil {
		return "", 0, err
	}
	desugar := findFunc(sf, "SugaredLogger", "Desugar")
	if desugar == nil {
		return "", 0, fmt.Errorf("func (*SugaredLogger) Desugar not found")
	}
	dd, err := csCompound(desugar, "base.callerSkip", token.SUB_ASSIGN)
	if err != nil {
		return "", 0, err
	}
	def("desugarDelta", dd, "sugar.go: Desugar() does `callerSkip -= n`")
	// sweetenFields: its diagnostics go through s.base.Error directly, or — when it takes a skip parameter —
	// through s.base.WithOptions(AddCallerSkip(<that parameter>)).Error
	sweeten := findFunc(sf, "SugaredLogger", "sweetenFields")
	if sweeten == nil {
		return "", 0, fmt.Errorf("func (*SugaredLogger) sweetenFields not found")
	}
	skipParam := ""
	{
		var names []string
		for _, p := range sweeten.Type.Params.List {
			for _, n := range p.Names {
				names = append(names, n.Name)
			}
		}
		switch len(names) {
		case 1:
		case 2:
			skipParam = names[1]
		default:
			return "", 0, fmt.Errorf("sweetenFields has %d parameters", len(names))
		}
		r := csRecvName(sweeten)
		nd := 0
		for _, c := range csCalls(sweeten.Body) {
			sel, ok := c.Fun.(*ast.SelectorExpr)
			if !ok || sel.Sel.Name != "Error" || !strings.HasPrefix(exprString(sel.X), r+".base") {
				continue
			}
			nd++
			x := exprString(sel.X)
			switch {
			case skipParam == "" && x == r+".base":
			case skipParam != "" && x == r+".base.WithOptions(AddCallerSkip("+skipParam+"))":
			default:
				return "", 0, fmt.Errorf("sweetenFields: diagnostic issued through `%s` (skip parameter %q)", x, skipParam)
			}
		}
		if nd != 3 {
			return "", 0, fmt.Errorf("sweetenFields: expected 3 diagnostic calls, found %d", nd)
		}
	}
	sweetenArg := func(fd *ast.FuncDecl) (int, error) {
		r := csRecvName(fd)
		cs := csCallsTo(fd.Body, r+".sweetenFields")
		if len(cs) != 1 {
			return 0, fmt.Errorf("SugaredLogger.%s: expected one direct %s.sweetenFields call, found %d", fd.Name.Name, r, len(cs))
		}
		switch {
		case skipParam == "" && len(cs[0].Args) == 1:
			return 0, nil
		case skipParam != "" && len(cs[0].Args) == 2:
			n, ok := csIntLit(cs[0].Args[1])
			if !ok {
				return 0, fmt.Errorf("SugaredLogger.%s: sweetenFields skip argument `%s` is not an integer literal", fd.Name.Name, exprString(cs[0].Args[1]))
			}
			return n, nil
		}
		return 0, fmt.Errorf("SugaredLogger.%s: sweetenFields called with %d arguments", fd.Name.Name, len(cs[0].Args))
	}
	// unexported log / logln: one direct s.base.Check(lvl, msg), one direct s.sweetenFields(context[, skip])
	skipLog := -1
	for _, nm := range []string{"log", "logln"} {
		fd := findFunc(sf, "SugaredLogger", nm)
		if fd == nil {
			return "", 0, fmt.Errorf("func (*SugaredLogger) %s not found", nm)
		}
		r := csRecvName(fd)
		if n := len(csCallsTo(fd.Body, r+".base.Check")); n != 1 {
			return "", 0, fmt.Errorf("SugaredLogger.%s: expected one direct %s.base.Check call, found %d", nm, r, n)
		}
		n, err := sweetenArg(fd)
		if err != nil {
			return "", 0, err
		}
		if skipLog >= 0 && n != skipLog {
			return "", 0, fmt.Errorf("log and logln pass different skips to sweetenFields (%d, %d)", skipLog, n)
		}
		skipLog = n
	}
	def("sweetenSkipLog", skipLog, "sugar.go: extra caller skip log/logln hand to sweetenFields for its diagnostics (0 when it takes none)")
	if lc := findFunc(lf, "Logger", "Check"); lc == nil || len(csCallsTo(lc.Body, csRecvName(lc)+".check")) != 1 {
		return "", 0, fmt.Errorf("Logger.Check does not call check directly")
	}
	def("sugarLogToCheck", 2, "sugar.go/logger.go: s.log and s.logln call s.base.Check directly, which calls log.check directly: 2 frames")
	type sm struct{ name, callee, level, tpl, fmtArgs, ctx string }
	var sms []sm
	var derive []string
	for _, fd := range csMethods(sf, "SugaredLogger") {
		if !fd.Name.IsExported() {
			continue
		}
		r := csRecvName(fd)
		var call *ast.CallExpr
		if len(fd.Body.List) == 1 {
			if es, ok := fd.Body.List[0].(*ast.ExprStmt); ok {
				if c, ok := es.X.(*ast.CallExpr); ok {
					call = c
				}
			}
		}
		var callee string
		if call != nil {
			switch exprString(call.Fun) {
			case r + ".log":
				callee = "log"
			case r + ".logln":
				callee = "logln"
			}
		}
		if callee == "" {
			// not a logging front end: must not reach log/logln/Check in any way
			for _, c := range csCalls(fd.Body) {
				switch exprString(c.Fun) {
				case r + ".log", r + ".logln", r + ".base.Check", r + ".base.check":
					return "", 0, fmt.Errorf("SugaredLogger.%s logs but is not a single delegating call", fd.Name.Name)
				}
			}
			derive = append(derive, fd.Name.Name)
			continue
		}
		params := csParams(fd)
		m := sm{name: fd.Name.Name, callee: callee}
		var a []ast.Expr = call.Args
		want := 4
		if callee == "logln" {
			want = 3
		}
		if len(a) != want || call.Ellipsis.IsValid() {
			return "", 0, fmt.Errorf("SugaredLogger.%s: %s called with %d arguments", fd.Name.Name, callee, len(a))
		}
		if m.level, err = csLevel(a[0], params); err != nil {
			return "", 0, fmt.Errorf("SugaredLogger.%s: %v", fd.Name.Name, err)
		}
		if callee == "log" {
			if m.tpl, err = csRoute(a[1], fd); err != nil {
				return "", 0, err
			}
			a = a[2:]
		} else {
			m.tpl = ".none"
			a = a[1:]
		}
		if m.fmtArgs, err = csRoute(a[0], fd); err != nil {
			return "", 0, err
		}
		if m.ctx, err = csRoute(a[1], fd); err != nil {
			return "", 0, err
		}
		sms = append(sms, m)
	}
	sort.Slice(sms, func(i, j int) bool { return sms[i].name < sms[j].name })
	sb.WriteString(`
/-- how a parameter of an exported SugaredLogger method reaches s.log / s.logln -/
inductive Route where
  | none            -- the literal nil (or, for the template of logln, no such parameter)
  | empty           -- the literal ""
  | param (i : Nat) -- the method's i-th parameter
deriving DecidableEq, Repr

structure SugarMethod where
  name : String
  ln : Bool               -- delegates to s.logln (else s.log)
  level : Option Int      -- level constant, or none = the method's level parameter
  template : Route
  fmtArgs : Route
  context : Route
deriving DecidableEq, Repr

/-- every exported *SugaredLogger method whose body is exactly one call of s.log / s.logln -/
def sugarMethods : List SugarMethod := [
`)
	for i, m := range sms {
		fmt.Fprintf(&sb, "  ⟨%q, %v, %s, %s, %s, %s⟩%s\n", m.name, m.callee == "logln", m.level, m.tpl, m.fmtArgs, m.ctx,
			map[bool]string{true: ",", false: ""}[i < len(sms)-1])
		rows++
	}
	sb.WriteString("]\n")
	// With / WithLazy call sweetenFields directly
	skipWith := -1
	for _, nm := range []string{"With", "WithLazy"} {
		fd := findFunc(sf, "SugaredLogger", nm)
		if fd == nil {
			return "", 0, fmt.Errorf("func (*SugaredLogger) %s not found", nm)
		}
		r := csRecvName(fd)
		n, err := sweetenArg(fd)
		if err != nil {
			return "", 0, err
		}
		if skipWith >= 0 && n != skipWith {
			return "", 0, fmt.Errorf("With and WithLazy pass different skips to sweetenFields (%d, %d)", skipWith, n)
		}
		skipWith = n
		if n := len(csCallsTo(fd.Body, r+".base."+nm)); n != 1 {
			return "", 0, fmt.Errorf("SugaredLogger.%s: expected one direct %s.base.%s call, found %d", nm, r, nm, n)
		}
	}
	sort.Strings(derive)
	sb.WriteString("\n/-- the other exported `*SugaredLogger` methods (none of them reaches log/logln/Check) -/\ndef sugarNonLogging : List String := [")
	for i, d := range derive {
		if i > 0 {
			sb.WriteString(", ")
		}
		fmt.Fprintf(&sb, "%q", d)
	}
	sb.WriteString("]\n\n")
	def("sweetenSkipWith", skipWith, "sugar.go: extra caller skip With/WithLazy hand to sweetenFields for its diagnostics (0 when it takes none)")

	// ---- options.go
	_, of, err := parseFile("options.go")
	if err != nil {
		return "", 0, err
	}
	acs := findFunc(of, "", "AddCallerSkip")
	if acs == nil {
		return "", 0, fmt.Errorf("func AddCallerSkip not found")
	}
	okAcs := false
	ast.Inspect(acs.Body, func(n ast.Node) bool {
		if as, ok := n.(*ast.AssignStmt); ok && len(as.Lhs) == 1 && exprString(as.Lhs[0]) == "log.callerSkip" {
			okAcs = as.Tok == token.ADD_ASSIGN && exprString(as.Rhs[0]) == "skip"
		}
		return true
	})
	if !okAcs {
		return "", 0, fmt.Errorf("AddCallerSkip is not `log.callerSkip += skip`")
	}

	// ---- global.go
	_, gf, err := parseFile("global.go")
	if err != nil {
		return "", 0, err
	}
	d1, err := csConst(gf, nil, "_stdLogDefaultDepth")
	if err != nil {
		return "", 0, err
	}
	d2, err := csConst(gf, nil, "_loggerWriterDepth")
	if err != nil {
		return "", 0, err
	}
	def("stdLogDefaultDepth", d1, "global.go: _stdLogDefaultDepth")
	def("loggerWriterDepth", d2, "global.go: _loggerWriterDepth")
	var users []string
	for _, d := range gf.Decls {
		fd, ok := d.(*ast.FuncDecl)
		if !ok || fd.Body == nil {
			continue
		}
		for _, c := range csCallsTo(fd.Body, "AddCallerSkip") {
			a := exprString(c.Args[0])
			if a != "_stdLogDefaultDepth + _loggerWriterDepth" && a != "_loggerWriterDepth + _stdLogDefaultDepth" {
				return "", 0, fmt.Errorf("%s: AddCallerSkip(%s) is not the sum of the two std-log depth constants", fd.Name.Name, a)
			}
			users = append(users, fd.Name.Name)
		}
	}
	sort.Strings(users)
	for _, w := range []string{"NewStdLog", "NewStdLogAt", "redirectStdLogAt"} {
		i := sort.SearchStrings(users, w)
		if i >= len(users) || users[i] != w {
			return "", 0, fmt.Errorf("%s does not apply AddCallerSkip(_stdLogDefaultDepth + _loggerWriterDepth)", w)
		}
	}
	sb.WriteString("/-- global.go functions that apply `AddCallerSkip(_stdLogDefaultDepth + _loggerWriterDepth)` -/\ndef stdLogConstructors : List String := [")
	for i, d := range users {
		if i > 0 {
			sb.WriteString(", ")
		}
		fmt.Fprintf(&sb, "%q", d)
		rows++
	}
	sb.WriteString("]\n")
	lw := findFunc(gf, "loggerWriter", "Write")
	if lw == nil || len(csCallsTo(lw.Body, csRecvName(lw)+".logFunc")) != 1 {
		return "", 0, fmt.Errorf("loggerWriter.Write does not call logFunc directly exactly once")
	}

	// ---- internal/stacktrace/stack.go
	_, stf, err := parseFile("internal/stacktrace/stack.go")
	if err != nil {
		return "", 0, err
	}
	capture := findFunc(stf, "", "Capture")
	take := findFunc(stf, "", "Take")
	if capture == nil || take == nil {
		return "", 0, fmt.Errorf("stacktrace.Capture / Take not found")
	}
	rc := csCallsTo(capture.Body, "runtime.Callers")
	if len(rc) == 0 {
		return "", 0, fmt.Errorf("Capture does not call runtime.Callers")
	}
	co := -1
	for _, c := range rc {
		n, err := csPlusConst(c.Args[0], "skip")
		if err != nil {
			return "", 0, fmt.Errorf("Capture: runtime.Callers: %v", err)
		}
		if co >= 0 && n != co {
			return "", 0, fmt.Errorf("Capture: the runtime.Callers calls use different offsets (%d, %d)", co, n)
		}
		co = n
	}
	def("captureCallersOffset", co, "stack.go: Capture calls runtime.Callers(skip+n, …) — all calls with the same n")
	slab, grow := -1, -1
	ast.Inspect(stf, func(n ast.Node) bool {
		c, ok := n.(*ast.CallExpr)
		if !ok || exprString(c.Fun) != "make" || len(c.Args) != 2 || exprString(c.Args[0]) != "[]uintptr" {
			return true
		}
		if v, ok := csIntLit(c.Args[1]); ok {
			slab = v
		} else if be, ok := c.Args[1].(*ast.BinaryExpr); ok && be.Op == token.MUL {
			if v, ok := csIntLit(be.Y); ok && exprString(be.X) == "len(pcs)" {
				grow = v
			} else if v, ok := csIntLit(be.X); ok && exprString(be.Y) == "len(pcs)" {
				grow = v
			}
		}
		return true
	})
	if slab < 0 || grow < 0 {
		return "", 0, fmt.Errorf("stack.go: pooled slab size / growth expression not recognised (slab=%d grow=%d)", slab, grow)
	}
	def("slabSize", slab, "stack.go: pooled storage `make([]uintptr, n)`")
	def("growFactor", grow, "stack.go: `make([]uintptr, len(pcs)*n)` in the Full loop")
	var loop *ast.ForStmt
	ast.Inspect(capture.Body, func(n ast.Node) bool {
		if fs, ok := n.(*ast.ForStmt); ok {
			loop = fs
		}
		return true
	})
	if loop == nil || loop.Init != nil || loop.Post != nil || exprString(loop.Cond) != "numFrames == len(pcs)" {
		return "", 0, fmt.Errorf("Capture: the growth loop is not `for numFrames == len(pcs) {…}`")
	}
	tc := csCallsTo(take.Body, "Capture")
	if len(tc) != 1 || exprString(tc[0].Args[1]) != "Full" {
		return "", 0, fmt.Errorf("Take does not call Capture(skip+n, Full) exactly once")
	}
	to, err := csPlusConst(tc[0].Args[0], "skip")
	if err != nil {
		return "", 0, fmt.Errorf("Take: %v", err)
	}
	def("takeOffset", to, "stack.go: Take(skip) calls Capture(skip+n, Full)")

	// ---- exp/zapslog/handler.go
	_, hf, err := parseFile("exp/zapslog/handler.go")
	if err != nil {
		return "", 0, err
	}
	handle := findFunc(hf, "Handler", "Handle")
	if handle == nil {
		return "", 0, fmt.Errorf("func (*Handler) Handle not found")
	}
	tk := csCallsTo(handle.Body, "stacktrace.Take")
	if len(tk) != 1 {
		return "", 0, fmt.Errorf("Handler.Handle: expected one direct stacktrace.Take call, found %d", len(tk))
	}
	hs, err := csPlusConst(tk[0].Args[0], csRecvName(handle)+".callerSkip")
	if err != nil {
		return "", 0, fmt.Errorf("Handler.Handle: %v", err)
	}
	def("slogTakeSkip", hs, "exp/zapslog/handler.go: stacktrace.Take(n + h.callerSkip) in Handle")

	sb.WriteString("\nend ZapVerif.Gen.Callers\n")
	return sb.String(), rows, nil
}
