package main

// Delegates — for the lock-protected wrapper types of zap (a mutex field that serialises access to a wrapped object which
// is itself NOT safe for concurrent use): every syntactic call `recv.<delegate>.<Method>(…)` in the methods of the type,
// with a flag saying whether the call happens while `recv.<mu>` is held.  Pure go/parser + go/ast.
//
// held-tracking (deliberately simple, over-approximating towards "not held"): statements of a method body are walked in
// source order; `recv.mu.Lock()` sets held; `defer recv.mu.Unlock()` keeps it to the end of the function; an explicit
// `recv.mu.Unlock()` anywhere (also in a nested block) clears it for everything that follows in source order; function
// literals (callbacks, `go func`) are not held.  An unexported helper method that never locks is "held by callers": it
// counts as guarded iff every call `recv.helper(…)` in the methods of the type happens while held (one level, which is all
// the current source needs; a deeper chain is reported as not guarded).
//
// Used by Props/C09.lean and Props/C13.lean: `delegate_calls_guarded` (all rows guarded), so releasing the mutex before
// calling into the wrapped WriteSyncer — or flushing from a goroutine that does not take it — fails `lake build`.

import (
	"fmt"
	"go/ast"
	"go/parser"
	"go/token"
	"os"
	"path/filepath"
	"sort"
	"strings"
)

func init() {
	tables = append(tables, table{"Delegates", genDelegates})
}

type dgSpec struct {
	dir       string
	typ       string
	mu        string
	delegates []string
}

var dgSpecs = []dgSpec{
	{"zapcore", "lockedWriteSyncer", "Mutex", []string{"ws"}},
	{"zapcore", "BufferedWriteSyncer", "mu", []string{"WS", "writer"}},
}

type dgRow struct {
	typ, method, field, call string
	guarded                 bool
	pos                     string
}

type dgMethod struct {
	name  string
	recv  string
	body  *ast.BlockStmt
	locks bool
}

func genDelegates() (string, int, error) {
	var rows []dgRow
	for _, sp := range dgSpecs {
		fset := token.NewFileSet()
		pkgs, err := parser.ParseDir(fset, filepath.Join(*repo, sp.dir), func(fi os.FileInfo) bool {
			return !strings.HasSuffix(fi.Name(), "_test.go")
		}, 0)
		if err != nil {
			return "", 0, err
		}
		var methods []*dgMethod
		foundType := false
		for _, p := range pkgs {
			for _, f := range p.Files {
				for _, d := range f.Decls {
					switch d := d.(type) {
					case *ast.GenDecl:
						for _, s := range d.Specs {
							if ts, ok := s.(*ast.TypeSpec); ok && ts.Name.Name == sp.typ {
								st, ok := ts.Type.(*ast.StructType)
								if !ok {
									return "", 0, fmt.Errorf("%s is not a struct", sp.typ)
								}
								have := map[string]bool{}
								for _, fl := range st.Fields.List {
									if len(fl.Names) == 0 { // embedded
										have[sfTypeStr(fl.Type)] = true
										if se, ok := fl.Type.(*ast.SelectorExpr); ok {
											have[se.Sel.Name] = true
										}
									}
									for _, n := range fl.Names {
										have[n.Name] = true
									}
								}
								for _, want := range append([]string{sp.mu}, sp.delegates...) {
									if !have[want] {
										return "", 0, fmt.Errorf("%s has no field %s", sp.typ, want)
									}
								}
								foundType = true
							}
						}
					case *ast.FuncDecl:
						if d.Recv == nil || len(d.Recv.List) != 1 || d.Body == nil {
							continue
						}
						rt := d.Recv.List[0].Type
						if s, ok := rt.(*ast.StarExpr); ok {
							rt = s.X
						}
						id, ok := rt.(*ast.Ident)
						if !ok || id.Name != sp.typ {
							continue
						}
						if len(d.Recv.List[0].Names) != 1 {
							return "", 0, fmt.Errorf("%s.%s: unnamed receiver", sp.typ, d.Name.Name)
						}
						methods = append(methods, &dgMethod{name: d.Name.Name, recv: d.Recv.List[0].Names[0].Name, body: d.Body})
					}
				}
			}
		}
		if !foundType {
			return "", 0, fmt.Errorf("type %s not found in %s", sp.typ, sp.dir)
		}
		sort.Slice(methods, func(i, j int) bool { return methods[i].name < methods[j].name })
		isDelegate := map[string]bool{}
		for _, d := range sp.delegates {
			isDelegate[d] = true
		}
		names := map[string]*dgMethod{}
		for _, m := range methods {
			names[m.name] = m
		}
		// per method: delegate calls with their held flag, and calls to sibling methods with their held flag
		type sib struct {
			callee string
			held   bool
		}
		calls := map[string][]dgRow{}
		sibs := map[string][]sib{}
		for _, m := range methods {
			held := false
			deferred := false
			var walk func(n ast.Node, inLit bool)
			// isMu: recv.mu.<method>()
			isMu := func(ce *ast.CallExpr, method string) bool {
				se, ok := ce.Fun.(*ast.SelectorExpr)
				if !ok || se.Sel.Name != method {
					return false
				}
				// recv.mu  or (embedded) recv
				switch x := se.X.(type) {
				case *ast.SelectorExpr:
					id, ok := x.X.(*ast.Ident)
					return ok && id.Name == m.recv && x.Sel.Name == sp.mu
				case *ast.Ident:
					return x.Name == m.recv && (sp.mu == "Mutex" || sp.mu == "RWMutex")
				}
				return false
			}
			walk = func(n ast.Node, inLit bool) {
				ast.Inspect(n, func(x ast.Node) bool {
					switch x := x.(type) {
					case *ast.FuncLit:
						if !inLit {
							walk(x.Body, true)
							return false
						}
					case *ast.DeferStmt:
						if isMu(x.Call, "Unlock") && !inLit {
							deferred = true
							return false
						}
					case *ast.CallExpr:
						if !inLit && isMu(x, "Lock") {
							m.locks = true
							held = true
							return false
						}
						if !inLit && isMu(x, "Unlock") {
							held = false
							return false
						}
						if se, ok := x.Fun.(*ast.SelectorExpr); ok {
							// recv.<delegate>.<M>(…)
							if inner, ok := se.X.(*ast.SelectorExpr); ok {
								if id, ok := inner.X.(*ast.Ident); ok && id.Name == m.recv && isDelegate[inner.Sel.Name] {
									p := fset.Position(x.Pos())
									calls[m.name] = append(calls[m.name], dgRow{typ: sp.typ, method: m.name, field: inner.Sel.Name, call: se.Sel.Name,
										guarded: held && !inLit, pos: fmt.Sprintf("%s:%d", filepath.Base(p.Filename), p.Line)})
								}
							}
							// recv.<sibling>(…)
							if id, ok := se.X.(*ast.Ident); ok && id.Name == m.recv {
								if _, ok := names[se.Sel.Name]; ok {
									sibs[m.name] = append(sibs[m.name], sib{se.Sel.Name, held && !inLit})
								}
							}
						}
					case *ast.SelectorExpr:
						// a delegate passed as a value / method value (e.g. `go s.WS.Sync`) is not a call we can track:
						// only the known constructor use `bufio.NewWriterSize(s.WS, …)` is expected; anything else is unguarded
					}
					return true
				})
			}
			walk(m.body, false)
			_ = deferred
		}
		// helpers that never lock: guarded iff all their callers hold the lock at the call
		for _, m := range methods {
			for _, r := range calls[m.name] {
				if !m.locks {
					ok := !ast.IsExported(m.name)
					n := 0
					for caller, ss := range sibs {
						for _, s := range ss {
							if s.callee == m.name {
								n++
								if !s.held || !names[caller].locks {
									ok = false
								}
							}
						}
					}
					if n == 0 {
						ok = false
					}
					r.guarded = ok
					r.method = m.name + " (held by callers)"
				}
				rows = append(rows, r)
			}
		}
		for _, d := range sp.delegates {
			n := 0
			for _, r := range rows {
				if r.typ == sp.typ && r.field == d {
					n++
				}
			}
			if n == 0 {
				return "", 0, fmt.Errorf("no call through %s.%s found: the extractor no longer understands the source", sp.typ, d)
			}
		}
	}
	var b strings.Builder
	b.WriteString("namespace ZapVerif.Gen.Delegates\n\n")
	b.WriteString("/-- (type, method, delegate field, method called on it, called while the wrapper's mutex is held, position) -/\n")
	b.WriteString("def rows : List (String × String × String × String × Bool × String) := [\n")
	for i, r := range rows {
		sep := ","
		if i == len(rows)-1 {
			sep = ""
		}
		fmt.Fprintf(&b, "  (%q, %q, %q, %q, %v, %q)%s\n", r.typ, r.method, r.field, r.call, r.guarded, r.pos, sep)
	}
	b.WriteString("]\n\nend ZapVerif.Gen.Delegates\n")
	return b.String(), len(rows), nil
}
