package main

import (
	"fmt"
	"go/ast"
	"strings"
)

func init() {
	tables = append(tables, table{"EntryMeta", genEntryMeta})
}

// genEntryMeta reads the guard structure of jsonEncoder.EncodeEntry and consoleEncoder.EncodeEntry: the ordered
// list of `if` conditions (nested ones indented with their depth) that decide which metadata parts are emitted.
// The Lean side (`Props/C02.lean`, `Props/C16.lean`) states the list the model's `metaCalls` / `columns` assume.
func genEntryMeta() (string, int, error) {
	var sb strings.Builder
	sb.WriteString("namespace ZapVerif.Gen\n\n")
	rows := 0
	for _, spec := range []struct{ file, recv, fn, name string }{
		{"zapcore/json_encoder.go", "jsonEncoder", "EncodeEntry", "jsonEntryGuards"},
		{"zapcore/console_encoder.go", "consoleEncoder", "EncodeEntry", "consoleEntryGuards"},
		{"zapcore/console_encoder.go", "consoleEncoder", "writeContext", "consoleContextGuards"},
	} {
		_, f, err := parseFile(spec.file)
		if err != nil {
			return "", 0, err
		}
		fd := findFunc(f, spec.recv, spec.fn)
		if fd == nil {
			return "", 0, fmt.Errorf("%s.%s not found", spec.recv, spec.fn)
		}
		var conds []string
		var walk func(stmts []ast.Stmt, depth int)
		walk = func(stmts []ast.Stmt, depth int) {
			for _, st := range stmts {
				switch s := st.(type) {
				case *ast.IfStmt:
					if s.Init != nil {
						conds = append(conds, fmt.Sprintf("%d:init %s", depth, stmtString(s.Init)))
					}
					conds = append(conds, fmt.Sprintf("%d:%s", depth, exprString(s.Cond)))
					walk(s.Body.List, depth+1)
					if s.Else != nil {
						conds = append(conds, fmt.Sprintf("%d:else", depth))
						if b, ok := s.Else.(*ast.BlockStmt); ok {
							walk(b.List, depth+1)
						}
					}
				case *ast.ForStmt:
					conds = append(conds, fmt.Sprintf("%d:for", depth))
					walk(s.Body.List, depth+1)
				case *ast.RangeStmt:
					conds = append(conds, fmt.Sprintf("%d:range %s", depth, exprString(s.X)))
					walk(s.Body.List, depth+1)
				}
			}
		}
		walk(fd.Body.List, 0)
		fmt.Fprintf(&sb, "/-- `if` structure of %s.%s in source order (depth:condition) -/\ndef %s : List String := [\n", spec.recv, spec.fn, spec.name)
		for i, c := range conds {
			sep := ","
			if i == len(conds)-1 {
				sep = ""
			}
			fmt.Fprintf(&sb, "  %q%s\n", c, sep)
			rows++
		}
		sb.WriteString("]\n\n")
	}
	sb.WriteString("end ZapVerif.Gen\n")
	return sb.String(), rows, nil
}

func stmtString(s ast.Stmt) string {
	switch x := s.(type) {
	case *ast.AssignStmt:
		var l, r []string
		for _, e := range x.Lhs {
			l = append(l, exprString(e))
		}
		for _, e := range x.Rhs {
			r = append(r, exprString(e))
		}
		return strings.Join(l, ", ") + " " + x.Tok.String() + " " + strings.Join(r, ", ")
	case *ast.ExprStmt:
		return exprString(x.X)
	}
	return fmt.Sprintf("<%T>", s)
}
