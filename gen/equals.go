package main

// Table `Equals`: zapcore/field.go `Field.Equals` — the two guards (`Type`, `Key`) and the arms of `switch f.Type`:
// `bytes.Equal(f.Interface.([]byte), other.Interface.([]byte))`, `reflect.DeepEqual(f.Interface, other.Interface)`,
// default `f == other` — as the Lean function `equalsArm : FT → EqArm`.

import (
	"fmt"
	"go/ast"
	"strings"
)

func init() {
	tables = append(tables, table{"Equals", genEquals})
}

func genEquals() (lean string, rows int, err error) {
	defer func() {
		if e := recover(); e != nil {
			if g, ok := e.(gerr); ok {
				err = g
				return
			}
			panic(e)
		}
	}()
	_, f, perr := parseFile("zapcore/field.go")
	if perr != nil {
		return "", 0, perr
	}
	fd := findFunc(f, "Field", "Equals")
	if fd == nil || len(fd.Recv.List[0].Names) != 1 {
		bail("func (f Field) Equals not found")
	}
	r, o := fd.Recv.List[0].Names[0].Name, paramName(fd, 0)
	b := fd.Body.List
	if len(b) != 3 {
		bail("Equals: body is not two guards and a switch")
	}
	for i, fld := range []string{"Type", "Key"} {
		is, ok := b[i].(*ast.IfStmt)
		if !ok || is.Init != nil || is.Else != nil || exprString(is.Cond) != fmt.Sprintf("%s.%s != %s.%s", r, fld, o, fld) ||
			len(is.Body.List) != 1 || exprString1(is.Body.List[0]) != "return false" {
			bail("Equals: statement %d is not `if %s.%s != %s.%s { return false }`", i+1, r, fld, o, fld)
		}
	}
	sw, ok := b[2].(*ast.SwitchStmt)
	if !ok || sw.Init != nil || exprString(sw.Tag) != r+".Type" {
		bail("Equals: third statement is not `switch %s.Type`", r)
	}
	shapes := map[string]string{
		fmt.Sprintf("return bytes.Equal(%s.Interface.([]byte), %s.Interface.([]byte))", r, o): ".bytesEqual",
		fmt.Sprintf("return reflect.DeepEqual(%s.Interface, %s.Interface)", r, o):             ".deepEqual",
		fmt.Sprintf("return %s == %s", r, o):                                                  ".structEq",
	}
	arms := map[string]string{}
	def := ""
	for _, cc := range sw.Body.List {
		c := cc.(*ast.CaseClause)
		if len(c.Body) != 1 {
			bail("Equals: an arm has %d statements", len(c.Body))
		}
		arm, ok := shapes[exprString1(c.Body[0])]
		if !ok {
			bail("Equals: unsupported arm `%s`", exprString1(c.Body[0]))
		}
		if c.List == nil {
			def = arm
			continue
		}
		for _, e := range c.List {
			n := exprString(e)
			if _, ok := ftOf(n); !ok {
				bail("Equals: unknown case label %s", n)
			}
			n = strings.TrimSuffix(n, "Type")
			if _, dup := arms[n]; dup {
				bail("Equals: duplicate case %sType", n)
			}
			arms[n] = arm
			rows++
		}
	}
	if def == "" {
		bail("Equals: no default arm")
	}
	rows++
	var sb strings.Builder
	sb.WriteString("import ZapVerif.Model.Field\n/-! The arms of `Field.Equals` (zapcore/field.go). -/\nnamespace ZapVerif.Gen\nopen ZapVerif.Field\n\n")
	sb.WriteString("/-- which comparison `Field.Equals` uses per field type (after the `Type` and `Key` guards) -/\ndef equalsArm : FT → EqArm\n")
	for _, n := range fieldTypeNames {
		ft, _ := ftOf(n + "Type")
		if a, ok := arms[n]; ok {
			fmt.Fprintf(&sb, "  | %s => %s\n", ft, a)
		} else {
			fmt.Fprintf(&sb, "  | %s => %s   -- default\n", ft, def)
		}
	}
	sb.WriteString("\nend ZapVerif.Gen\n")
	return sb.String(), rows, nil
}
