package main

// Table `Fields`: every function of field.go, array.go, error.go and exp/zapfield/zapfield.go that returns a Field
// (exported constructors plus the unexported helpers they delegate to) is translated, purely syntactically, into a Lean
// definition `pack_<Ctor>` over the vocabulary of lean/ZapVerif/Model/Field.lean; the slice wrapper types with their
// MarshalLogArray loops become `marshal_<type>` / `wrap_<type>`.
//
// Accepted function bodies (anything else is `gen:Fields …`, a broken tie):
//
//	[var X int64; if B { X = n }]                      (Bool)
//	{ if P == nil { return E } | if T.Before(G) || T.After(G') { return E } }
//	return E
//
// with E one of: a `Field{Key:, Type:, Integer:, String:, Interface:}` literal, a call of another constructor, and inside
// them: parameters, `*p` under a nil guard, integer conversions, `math.FloatNNbits`, `t.UnixNano()`, `t.Location()`,
// `string(x)`, conversions to a slice wrapper type, string/int literals, `nil`.

import (
	"fmt"
	"go/ast"
	"go/token"
	"sort"
	"strconv"
	"strings"
)

func init() {
	tables = append(tables, table{"Fields", genFields})
}

// ---------------------------------------------------------------- Go type vocabulary

var numGoT = map[string]string{
	"int": ".int", "int8": ".int8", "int16": ".int16", "int32": ".int32", "int64": ".int64",
	"uint": ".uint", "uint8": ".uint8", "uint16": ".uint16", "uint32": ".uint32", "uint64": ".uint64", "uintptr": ".uintptr",
	"float32": ".float32", "float64": ".float64", "time.Duration": ".duration",
}

// integer conversions T(x) on the Int model
var intConv = map[string]string{
	"int": "wrapS 64", "int8": "wrapS 8", "int16": "wrapS 16", "int32": "wrapS 32", "int64": "wrapS 64",
	"uint": "wrapU 64", "uint8": "wrapU 8", "uint16": "wrapU 16", "uint32": "wrapU 32", "uint64": "wrapU 64", "uintptr": "wrapU 64",
	"time.Duration": "wrapS 64", "byte": "wrapU 8", "rune": "wrapS 32",
}

func isIntLike(t string) bool {
	_, ok := intConv[t]
	return ok || t == "untyped int"
}

// kindOf: how a value of Go type t is modelled
func kindOf(t string) string {
	switch {
	case t == "bool":
		return "bool"
	case t == "string":
		return "str"
	case t == "time.Time":
		return "time"
	case numGoT[t] != "":
		return "num"
	}
	return "box"
}

func leanTypeOfKind(k string) string {
	switch k {
	case "num":
		return "Int"
	case "bool":
		return "Bool"
	case "str":
		return "Bytes"
	case "time":
		return "Time"
	case "box":
		return "Payload"
	}
	if strings.HasPrefix(k, "opt:") {
		return "Option " + leanTypeOfKind(k[4:])
	}
	if strings.HasPrefix(k, "list:") {
		return "List " + leanTypeOfKind(k[5:])
	}
	return "?"
}

func vkOf(kind, typ string) string {
	switch kind {
	case "num":
		return "(.num " + numGoT[typ] + ")"
	case "bool":
		return ".bool"
	case "str":
		return ".str"
	case "time":
		return ".time"
	}
	return ".box"
}

func leanStr(s string) string { return strconv.Quote(s) }

func leanBytesOfString(s string) string { return "(" + leanBytes([]byte(s)) + " : Bytes)" }

// ftOf maps "zapcore.BoolType"/"BoolType" to the Lean constructor ".bool".
func ftOf(name string) (string, bool) {
	name = strings.TrimPrefix(name, "zapcore.")
	if !strings.HasSuffix(name, "Type") {
		return "", false
	}
	n := strings.TrimSuffix(name, "Type")
	if n == "" {
		return "", false
	}
	for _, k := range fieldTypeNames {
		if k == n {
			return "." + strings.ToLower(n[:1]) + n[1:], true
		}
	}
	return "", false
}

// the FieldType constants the Lean model knows (Model/Field.lean `FT`), in declaration order
var fieldTypeNames = []string{"Unknown", "ArrayMarshaler", "ObjectMarshaler", "Binary", "Bool", "ByteString", "Complex128", "Complex64",
	"Duration", "Float64", "Float32", "Int64", "Int32", "Int16", "Int8", "String", "Time", "TimeFull", "Uint64", "Uint32", "Uint16",
	"Uint8", "Uintptr", "Reflect", "Namespace", "Stringer", "Error", "Skip", "InlineMarshaler"}

// ---------------------------------------------------------------- extraction state

type gval struct {
	term string // Lean term
	typ  string // Go type (normalised text)
	kind string // num|bool|str|time|box|opt:k|list:k|fld
}

type wrapperInfo struct {
	pkg, name string // zap, bools
	elemType  string
	elemKind  string
	isArray   bool // has MarshalLogArray (else: MarshalLogObject, modelled as a named conversion of an opaque slice)
	marshal   string
	src       string
}

func (w *wrapperInfo) lname() string { return w.pkg + "_" + w.name }

type ctorInfo struct {
	pkg, name string
	exported  bool
	fd        *ast.FuncDecl
	pos       string
	tparams   map[string]string // type parameter → constraint text
	keyParam  string
	valParam  string
	valType   string // normalised Go type of the value parameter ("" = none)
	shape     string // none|val|ptr|slice
	elemType  string
	elemKind  string
	opaque    bool
	def       string
	done      bool
	busy      bool
	sig       string
}

func (c *ctorInfo) lname() string {
	if c.pkg == "zap" {
		return "pack_" + c.name
	}
	return "pack_" + c.pkg + "_" + c.name
}

type fieldsX struct {
	ctors      map[string]*ctorInfo // "zap.Int32"
	order      []string             // emission order (dependencies first)
	wrappers   map[string]*wrapperInfo
	worder     []string
	globals    map[string]string // zap package-level vars usable in conditions: name → Lean def name
	gdefs      []string
	fsets      map[string]*token.FileSet
	funcs      map[string]*ast.FuncDecl // "zap.appendStringer": plain functions of the files read
	errElemOK  bool                     // errArrayElem.MarshalLogObject has the expected shape
	usesHolder bool
}

type gerr struct{ msg string }

func (e gerr) Error() string { return e.msg }

func bail(format string, a ...any) { panic(gerr{fmt.Sprintf(format, a...)}) }

// typeText renders a Go type expression in normalised form, resolving type parameters.
func typeText(e ast.Expr, tparams map[string]string) string {
	switch t := e.(type) {
	case *ast.Ident:
		if c, ok := tparams[t.Name]; ok {
			switch {
			case c == "~string":
				return "string"
			case strings.HasPrefix(c, "~[]"):
				inner := c[3:]
				if c2, ok := tparams[inner]; ok && c2 == "~string" {
					return "[]string"
				}
				return "[]" + inner
			}
			return "T:" + c
		}
		if t.Name == "byte" {
			return "byte"
		}
		return t.Name
	case *ast.StarExpr:
		return "*" + typeText(t.X, tparams)
	case *ast.ArrayType:
		if t.Len != nil {
			bail("array type with length")
		}
		return "[]" + typeText(t.Elt, tparams)
	case *ast.Ellipsis:
		return "..." + typeText(t.Elt, tparams)
	case *ast.SelectorExpr:
		return exprString(t.X) + "." + t.Sel.Name
	case *ast.InterfaceType:
		if t.Methods == nil || len(t.Methods.List) == 0 {
			return "any"
		}
		return "interface{…}"
	case *ast.UnaryExpr:
		if t.Op == token.TILDE {
			return "~" + typeText(t.X, tparams)
		}
	case *ast.IndexExpr:
		return typeText(t.X, tparams) + "[" + typeText(t.Index, tparams) + "]"
	}
	return exprString(e)
}

func normAny(t string) string {
	if t == "interface{}" {
		return "any"
	}
	return t
}

func tparamsOf(ft *ast.FuncType) map[string]string {
	m := map[string]string{}
	if ft.TypeParams == nil {
		return m
	}
	for _, f := range ft.TypeParams.List {
		c := normAny(typeText(f.Type, nil))
		for _, n := range f.Names {
			m[n.Name] = c
		}
	}
	return m
}

func returnsField(fd *ast.FuncDecl) bool {
	if fd.Recv != nil || fd.Type.Results == nil || len(fd.Type.Results.List) != 1 {
		return false
	}
	switch exprString(fd.Type.Results.List[0].Type) {
	case "Field", "zap.Field", "zapcore.Field":
		return true
	}
	return false
}

// ---------------------------------------------------------------- the table

func genFields() (lean string, rows int, err error) {
	defer func() {
		if e := recover(); e != nil {
			if g, ok := e.(gerr); ok {
				err = g
				return
			}
			panic(e)
		}
	}()
	x := &fieldsX{ctors: map[string]*ctorInfo{}, wrappers: map[string]*wrapperInfo{}, globals: map[string]string{}, fsets: map[string]*token.FileSet{},
		funcs: map[string]*ast.FuncDecl{}}
	files := []struct{ pkg, rel string }{{"zap", "field.go"}, {"zap", "array.go"}, {"zap", "error.go"}, {"zapfield", "exp/zapfield/zapfield.go"}}
	type parsed struct {
		pkg, rel string
		f        *ast.File
		fset     *token.FileSet
	}
	var ps []parsed
	for _, fl := range files {
		fset, f, perr := parseFile(fl.rel)
		if perr != nil {
			return "", 0, perr
		}
		ps = append(ps, parsed{fl.pkg, fl.rel, f, fset})
	}
	// 1. wrapper types and package-level time bounds
	for _, p := range ps {
		for _, d := range p.f.Decls {
			if fd, ok := d.(*ast.FuncDecl); ok && fd.Recv == nil && fd.Body != nil {
				x.funcs[p.pkg+"."+fd.Name.Name] = fd
			}
		}
	}
	for _, p := range ps {
		x.collectTypes(p.pkg, p.rel, p.f, p.fset)
	}
	for _, p := range ps {
		x.collectMarshalers(p.pkg, p.rel, p.f, p.fset)
	}
	for _, name := range x.worder {
		w := x.wrappers[name]
		if w.marshal == "" {
			bail("wrapper type %s has neither MarshalLogArray nor MarshalLogObject in the files read", name)
		}
	}
	if x.usesHolder && !x.errElemOK {
		bail("error.go: errArrayElem.MarshalLogObject is not `Error(e.error).AddTo(enc); return nil`")
	}
	// 2. constructors
	var names []string
	for _, p := range ps {
		for _, d := range p.f.Decls {
			fd, ok := d.(*ast.FuncDecl)
			if !ok || !returnsField(fd) {
				continue
			}
			if p.pkg == "zap" && fd.Name.Name == "Any" {
				continue // the dispatcher: table `Any`
			}
			c := &ctorInfo{pkg: p.pkg, name: fd.Name.Name, exported: fd.Name.IsExported(), fd: fd,
				pos: fmt.Sprintf("%s:%d", p.rel, p.fset.Position(fd.Pos()).Line), tparams: tparamsOf(fd.Type)}
			x.ctors[p.pkg+"."+c.name] = c
			names = append(names, p.pkg+"."+c.name)
		}
	}
	for _, n := range names {
		x.signature(x.ctors[n])
	}
	for _, n := range names {
		x.translate(x.ctors[n])
	}
	// 3. emit
	var sb strings.Builder
	sb.WriteString("import ZapVerif.Model.Field\n")
	sb.WriteString("/-! Constructors of package zap (field.go, array.go, error.go) and exp/zapfield as Lean definitions, translated from the source. -/\n")
	sb.WriteString("namespace ZapVerif.Gen\nopen ZapVerif ZapVerif.Field\n\n")
	for _, g := range x.gdefs {
		sb.WriteString(g + "\n")
	}
	sb.WriteString("\n/-! ### slice wrapper types and their marshalers -/\n\n")
	for _, name := range x.worder {
		w := x.wrappers[name]
		sb.WriteString(w.src)
		sb.WriteString(w.marshal + "\n")
	}
	sb.WriteString("/-! ### constructors -/\n\n")
	for _, n := range x.order {
		sb.WriteString(x.ctors[n].def + "\n")
	}
	sb.WriteString("/-- every function returning `Field` in the files read, in source order -/\ndef ctors : List Ctor := [\n")
	var rowsS []string
	for _, n := range names {
		c := x.ctors[n]
		rowsS = append(rowsS, "  "+x.row(c))
		rows++
	}
	sb.WriteString(strings.Join(rowsS, ",\n") + "\n]\n\n")
	sb.WriteString("/-- zap's slice wrapper types that implement ArrayMarshaler -/\ndef arrayWrappers : List ArrW := [\n")
	var wr []string
	for _, name := range x.worder {
		w := x.wrappers[name]
		if !w.isArray {
			continue
		}
		wr = append(wr, fmt.Sprintf("  ⟨%s, %s, %s, marshal_%s, wrap_%s⟩", leanStr(w.pkg+"."+w.name), leanStr(w.elemType), vkOf(w.elemKind, w.elemType), w.lname(), w.lname()))
		rows++
	}
	sb.WriteString(strings.Join(wr, ",\n") + "\n]\n\nend ZapVerif.Gen\n")
	return sb.String(), rows, nil
}

func (x *fieldsX) row(c *ctorInfo) string {
	fn := ".opaque"
	if !c.opaque {
		switch {
		case c.keyParam == "" && c.shape == "none":
			fn = ".k0 " + c.lname()
		case c.shape == "none":
			fn = ".k1 " + c.lname()
		case c.keyParam == "":
			if c.shape != "val" {
				bail("%s: constructor without key whose value is a %s", c.pos, c.shape)
			}
			fn = ".v1 " + vkOf(c.elemKind, c.elemType) + " " + c.lname()
		case c.shape == "val":
			fn = ".kv " + vkOf(c.elemKind, c.elemType) + " " + c.lname()
		case c.shape == "ptr":
			fn = ".kp " + vkOf(c.elemKind, c.elemType) + " " + c.lname()
		case c.shape == "slice":
			fn = ".ks " + vkOf(c.elemKind, c.elemType) + " " + c.lname()
		}
	}
	exp := "false"
	if c.exported {
		exp = "true"
	}
	return fmt.Sprintf("⟨%s, %s, %s, %s, %s, %s⟩", leanStr(c.name), leanStr(c.pkg), exp, leanStr(c.valType), leanStr(c.elemType), fn)
}

// ---------------------------------------------------------------- wrapper types

func (x *fieldsX) collectTypes(pkg, rel string, f *ast.File, fset *token.FileSet) {
	for _, d := range f.Decls {
		gd, ok := d.(*ast.GenDecl)
		if !ok {
			continue
		}
		switch gd.Tok {
		case token.TYPE:
			for _, s := range gd.Specs {
				ts := s.(*ast.TypeSpec)
				at, ok := ts.Type.(*ast.ArrayType)
				if !ok || at.Len != nil || ts.Assign != token.NoPos {
					continue
				}
				tp := map[string]string{}
				if ts.TypeParams != nil {
					for _, fl := range ts.TypeParams.List {
						c := normAny(typeText(fl.Type, nil))
						for _, n := range fl.Names {
							tp[n.Name] = c
						}
					}
				}
				et := normAny(typeText(at.Elt, tp))
				w := &wrapperInfo{pkg: pkg, name: ts.Name.Name, elemType: et, elemKind: kindOf(et)}
				w.src = fmt.Sprintf("-- %s:%d `type %s %s`\n", rel, fset.Position(ts.Pos()).Line, ts.Name.Name, exprString(ts.Type))
				x.wrappers[pkg+"."+ts.Name.Name] = w
				x.worder = append(x.worder, pkg+"."+ts.Name.Name)
			}
		case token.VAR:
			if pkg != "zap" {
				continue
			}
			for _, s := range gd.Specs {
				vs := s.(*ast.ValueSpec)
				if len(vs.Names) != 1 || len(vs.Values) != 1 {
					continue
				}
				// `_minTimeInt64 = time.Unix(0, math.MinInt64)`
				call, ok := vs.Values[0].(*ast.CallExpr)
				if !ok || exprString(call.Fun) != "time.Unix" || len(call.Args) != 2 || exprString(call.Args[0]) != "0" {
					continue
				}
				var val string
				switch a := exprString(call.Args[1]); a {
				case "math.MinInt64":
					val = "-9223372036854775808"
				case "math.MaxInt64":
					val = "9223372036854775807"
				default:
					if _, err := strconv.ParseInt(a, 10, 64); err != nil {
						bail("%s: time bound %s = %s: second argument of time.Unix is not math.MinInt64/MaxInt64/an integer literal", rel, vs.Names[0].Name, exprString(call))
					}
					val = a
				}
				ln := "g" + vs.Names[0].Name
				x.globals[vs.Names[0].Name] = ln
				x.gdefs = append(x.gdefs, fmt.Sprintf("/-- %s:%d `%s = %s` (nanoseconds since the epoch) -/\n@[simp] def %s : Int := %s",
					rel, fset.Position(vs.Pos()).Line, vs.Names[0].Name, exprString(call), ln, val))
			}
		}
	}
}

var appendMethods = map[string]bool{"AppendBool": true, "AppendByteString": true, "AppendComplex128": true, "AppendComplex64": true,
	"AppendFloat64": true, "AppendFloat32": true, "AppendInt": true, "AppendInt64": true, "AppendInt32": true, "AppendInt16": true,
	"AppendInt8": true, "AppendString": true, "AppendUint": true, "AppendUint64": true, "AppendUint32": true, "AppendUint16": true,
	"AppendUint8": true, "AppendUintptr": true, "AppendDuration": true, "AppendTime": true, "AppendArray": true, "AppendObject": true,
	"AppendReflected": true}

func (x *fieldsX) collectMarshalers(pkg, rel string, f *ast.File, fset *token.FileSet) {
	for _, d := range f.Decls {
		fd, ok := d.(*ast.FuncDecl)
		if !ok || fd.Recv == nil || len(fd.Recv.List) != 1 {
			continue
		}
		rt := fd.Recv.List[0].Type
		if il, ok := rt.(*ast.IndexListExpr); ok {
			rt = il.X
		}
		if pkg == "zap" && typeName(rt) == "errArrayElem" && fd.Name.Name == "MarshalLogObject" {
			// the element object of errArray: `Error(e.error).AddTo(enc); return nil`
			if len(fd.Body.List) == 2 && len(fd.Recv.List[0].Names) == 1 &&
				exprString1(fd.Body.List[0]) == "Error("+fd.Recv.List[0].Names[0].Name+".error).AddTo("+paramName(fd, 0)+")" {
				x.errElemOK = true
			}
			continue
		}
		w, ok := x.wrappers[pkg+"."+typeName(rt)]
		if !ok {
			continue
		}
		if _, isPtr := fd.Recv.List[0].Type.(*ast.StarExpr); isPtr || len(fd.Recv.List[0].Names) != 1 {
			continue
		}
		recv := fd.Recv.List[0].Names[0].Name
		where := fmt.Sprintf("%s:%d %s.%s", rel, fset.Position(fd.Pos()).Line, w.name, fd.Name.Name)
		switch fd.Name.Name {
		case "MarshalLogArray":
			w.isArray = true
			w.marshal = x.marshalArray(w, fd, recv, where)
		case "MarshalLogObject":
			// `for _, f := range d { f.AddTo(enc) }; return nil` — the fields of the slice, in order; the slice itself is
			// modelled as one opaque value, so only the shape is checked here
			if len(fd.Body.List) != 2 {
				bail("%s: body is not `for … { f.AddTo(enc) }; return nil`", where)
			}
			rs, ok := fd.Body.List[0].(*ast.RangeStmt)
			if !ok || exprString(rs.X) != recv || rs.Value == nil || len(rs.Body.List) != 1 ||
				exprString(rs.Body.List[0].(*ast.ExprStmt).X) != exprString(rs.Value)+".AddTo("+paramName(fd, 0)+")" {
				bail("%s: loop is not `for _, f := range %s { f.AddTo(enc) }`", where, recv)
			}
			mustReturnNil(fd.Body.List[1], where)
			w.marshal = fmt.Sprintf("/-- %s: every field of the slice is added in order -/\n@[simp] def wrap_%s (val : Payload) : Payload := convNamed %s [\"zapcore.ObjectMarshaler\"] val\n",
				where, w.lname(), leanStr(w.pkg+"."+w.name))
		}
	}
}

func paramName(fd *ast.FuncDecl, i int) string {
	n := 0
	for _, f := range fd.Type.Params.List {
		for _, nm := range f.Names {
			if n == i {
				return nm.Name
			}
			n++
		}
	}
	return "?"
}

func mustReturnNil(s ast.Stmt, where string) {
	rs, ok := s.(*ast.ReturnStmt)
	if !ok || len(rs.Results) != 1 || exprString(rs.Results[0]) != "nil" {
		bail("%s: does not end in `return nil`", where)
	}
}

// marshalArray reads `for i := range R { … arr.AppendX(elem) … }; return nil`.
func (x *fieldsX) marshalArray(w *wrapperInfo, fd *ast.FuncDecl, recv, where string) string {
	arr := paramName(fd, 0)
	if len(fd.Body.List) != 2 {
		bail("%s: body is not one range loop followed by `return nil`", where)
	}
	mustReturnNil(fd.Body.List[1], where)
	rs, ok := fd.Body.List[0].(*ast.RangeStmt)
	if !ok || exprString(rs.X) != recv || rs.Tok != token.DEFINE {
		bail("%s: first statement is not `for … := range %s`", where, recv)
	}
	// names of the element
	elemNames := map[string]bool{}
	switch {
	case rs.Value != nil && exprString(rs.Key) == "_":
		elemNames[exprString(rs.Value)] = true
	case rs.Value == nil && rs.Key != nil:
		elemNames[recv+"["+exprString(rs.Key)+"]"] = true
	default:
		bail("%s: range clause is neither `for i := range` nor `for _, v := range`", where)
	}
	body := rs.Body.List
	skipNil := false
	// errArray: if errs[i] == nil { continue }
	if len(body) > 0 {
		if is, ok := body[0].(*ast.IfStmt); ok && is.Init == nil && is.Else == nil && len(is.Body.List) == 1 {
			if be, ok := is.Cond.(*ast.BinaryExpr); ok && be.Op == token.EQL && elemNames[exprString(be.X)] && exprString(be.Y) == "nil" {
				if br, ok := is.Body.List[0].(*ast.BranchStmt); ok && br.Tok == token.CONTINUE {
					skipNil = true
					body = body[1:]
				}
			}
		}
	}
	// aliases of the element: `var p P = &os[i]`, and the pooled holder of errArray: `elem := pool.Get(); elem.error = errs[i]`
	var call *ast.CallExpr
	nCalls := 0
	helperNote := ""
	takeCall := func(e ast.Expr) bool {
		c, ok := e.(*ast.CallExpr)
		if !ok {
			return false
		}
		// a helper `h(arr, elem)` whose body is `[defer func(){…}()]; arr.AppendX(f(elem)); return nil`
		// (the deferred recover only matters when the element's method panics: C10)
		if id, ok := c.Fun.(*ast.Ident); ok && len(c.Args) == 2 && exprString(c.Args[0]) == arr && elemNames[exprString(c.Args[1])] {
			h := x.funcs[w.pkg+"."+id.Name]
			if h == nil || h.Recv != nil || len(h.Body.List) < 2 {
				return false
			}
			hb := h.Body.List
			if _, isDefer := hb[0].(*ast.DeferStmt); isDefer {
				hb = hb[1:]
			}
			if len(hb) != 2 {
				return false
			}
			es, ok := hb[0].(*ast.ExprStmt)
			if !ok {
				return false
			}
			if rs, ok := hb[1].(*ast.ReturnStmt); !ok || len(rs.Results) != 1 || exprString(rs.Results[0]) != "nil" {
				return false
			}
			hc, ok := es.X.(*ast.CallExpr)
			if !ok {
				return false
			}
			hse, ok := hc.Fun.(*ast.SelectorExpr)
			if !ok || exprString(hse.X) != paramName(h, 0) {
				return false
			}
			// continue with the helper's names
			elemNames = map[string]bool{paramName(h, 1): true}
			helperNote = fmt.Sprintf(" via %s(%s, %s)", id.Name, arr, exprString(c.Args[1]))
			call = hc
			nCalls++
			return true
		}
		se, ok := c.Fun.(*ast.SelectorExpr)
		if !ok || exprString(se.X) != arr {
			return false
		}
		call = c
		nCalls++
		return true
	}
	holder := "" // local whose field is set to the element
	errVar := ""
	for i, st := range body {
		switch s := st.(type) {
		case *ast.ExprStmt:
			if takeCall(s.X) {
				continue
			}
			// `_pool.Put(elem)`
			if c, ok := s.X.(*ast.CallExpr); ok && holder != "" && len(c.Args) == 1 && exprString(c.Args[0]) == holder && strings.HasSuffix(exprString(c.Fun), ".Put") {
				continue
			}
		case *ast.DeclStmt:
			// var p P = &os[i]
			gd := s.Decl.(*ast.GenDecl)
			if gd.Tok == token.VAR && len(gd.Specs) == 1 {
				vs := gd.Specs[0].(*ast.ValueSpec)
				if len(vs.Names) == 1 && len(vs.Values) == 1 {
					if ue, ok := vs.Values[0].(*ast.UnaryExpr); ok && ue.Op == token.AND && elemNames[exprString(ue.X)] {
						elemNames[vs.Names[0].Name] = true
						continue
					}
				}
			}
		case *ast.IfStmt:
			// if err := arr.AppendObject(o); err != nil { return err }
			if s.Init != nil && s.Else == nil {
				if as, ok := s.Init.(*ast.AssignStmt); ok && len(as.Lhs) == 1 && len(as.Rhs) == 1 && takeCall(as.Rhs[0]) &&
					exprString(s.Cond) == exprString(as.Lhs[0])+" != nil" && len(s.Body.List) == 1 && exprString1(s.Body.List[0]) == "return "+exprString(as.Lhs[0]) {
					continue
				}
			}
			// if err != nil { return err }
			if s.Init == nil && s.Else == nil && errVar != "" && exprString(s.Cond) == errVar+" != nil" && len(s.Body.List) == 1 && exprString1(s.Body.List[0]) == "return "+errVar {
				continue
			}
		case *ast.AssignStmt:
			if len(s.Lhs) == 1 && len(s.Rhs) == 1 {
				l, r := exprString(s.Lhs[0]), exprString(s.Rhs[0])
				switch {
				case s.Tok == token.DEFINE && strings.HasSuffix(r, ".Get()") && holder == "":
					holder = l // elem := _errArrayElemPool.Get()
					continue
				case holder != "" && strings.HasPrefix(l, holder+".") && elemNames[r]:
					elemNames[holder] = true // elem.error = errs[i]
					continue
				case holder != "" && strings.HasPrefix(l, holder+".") && r == "nil":
					continue // elem.error = nil (after the call)
				case s.Tok == token.DEFINE && takeCall(s.Rhs[0]):
					errVar = l // err := arr.AppendObject(elem)
					continue
				}
			}
		}
		bail("%s: statement %d of the loop body is not part of an accepted shape: %s", where, i+1, exprString1(st))
	}
	if holder != "" {
		x.usesHolder = true
	}
	if nCalls != 1 || call == nil {
		bail("%s: loop body makes %d encoder calls, expected exactly 1", where, nCalls)
	}
	meth := call.Fun.(*ast.SelectorExpr).Sel.Name
	if !appendMethods[meth] {
		bail("%s: unknown ArrayEncoder method %s", where, meth)
	}
	if len(call.Args) != 1 {
		bail("%s: %s called with %d arguments", where, meth, len(call.Args))
	}
	// the argument as a function of the element x
	var ev string
	a := call.Args[0]
	as := exprString(a)
	switch {
	case elemNames[as]:
		switch w.elemKind {
		case "num":
			ev = ".int x"
		case "bool":
			ev = ".bool x"
		case "str":
			ev = ".str x"
		case "time":
			ev = ".time x"
		default:
			ev = ".tok x.id"
		}
	default:
		c, ok := a.(*ast.CallExpr)
		switch {
		case ok && len(c.Args) == 1 && exprString(c.Fun) == "string" && elemNames[exprString(c.Args[0])] && w.elemKind == "str":
			ev = ".str x" // string(a[i]) on a ~string element
		case ok && len(c.Args) == 0 && strings.HasSuffix(exprString(c.Fun), ".String") && elemNames[strings.TrimSuffix(exprString(c.Fun), ".String")] && w.elemKind == "box":
			ev = ".str (textOf x)" // o.String()
		default:
			bail("%s: argument of %s is not the loop element (or string(elem), elem.String()): %s", where, meth, as)
		}
	}
	src := "xs"
	if skipNil {
		if w.elemKind != "box" {
			bail("%s: nil-skip on a non-interface element type", where)
		}
		src = "(xs.filter fun x => x != Payload.nil)"
	}
	lt := leanTypeOfKind(w.elemKind)
	var sb strings.Builder
	fmt.Fprintf(&sb, "/-- %s: `%s.%s(%s)`%s per element%s -/\n", where, arr, meth, as, helperNote, map[bool]string{true: ", nil elements skipped", false: ""}[skipNil])
	fmt.Fprintf(&sb, "@[simp] def marshal_%s (xs : List %s) : List ACall := %s.map fun x => ⟨.%s, %s⟩\n", w.lname(), lt, src, meth, ev)
	fmt.Fprintf(&sb, "@[simp] def wrap_%s (xs : List %s) : Payload :=\n  .box { dyn := %s, impl := [\"zapcore.ArrayMarshaler\"], cmp := false, elems := marshal_%s xs }\n",
		w.lname(), lt, leanStr(w.pkg+"."+w.name), w.lname())
	return sb.String()
}

func exprString1(s ast.Stmt) string {
	switch t := s.(type) {
	case *ast.ReturnStmt:
		var rs []string
		for _, r := range t.Results {
			rs = append(rs, exprString(r))
		}
		return strings.TrimSpace("return " + strings.Join(rs, ", "))
	case *ast.ExprStmt:
		return exprString(t.X)
	case *ast.AssignStmt:
		var l, r []string
		for _, e := range t.Lhs {
			l = append(l, exprString(e))
		}
		for _, e := range t.Rhs {
			r = append(r, exprString(e))
		}
		return strings.Join(l, ", ") + " " + t.Tok.String() + " " + strings.Join(r, ", ")
	case *ast.BranchStmt:
		return t.Tok.String()
	case *ast.IfStmt:
		return "if " + exprString(t.Cond) + " {…}"
	case *ast.DeclStmt:
		return "var …"
	case *ast.RangeStmt:
		return "for … range " + exprString(t.X) + " {…}"
	}
	return fmt.Sprintf("<%T>", s)
}

// ---------------------------------------------------------------- constructor signatures

func (x *fieldsX) signature(c *ctorInfo) {
	var ps []struct{ name, typ string }
	for _, f := range c.fd.Type.Params.List {
		t := normAny(typeText(f.Type, c.tparams))
		for _, n := range f.Names {
			ps = append(ps, struct{ name, typ string }{n.Name, t})
		}
	}
	var sig []string
	for _, p := range ps {
		sig = append(sig, p.name+" "+p.typ)
	}
	c.sig = "func " + c.name + "(" + strings.Join(sig, ", ") + ") Field"
	c.shape = "none"
	i := 0
	if len(ps) > 0 && ps[0].typ == "string" && (ps[0].name == "key" || ps[0].name == "k") {
		c.keyParam = ps[0].name
		i = 1
	}
	rest := ps[i:]
	switch len(rest) {
	case 0:
		return
	case 1:
	default:
		c.opaque = true // StackSkip(key, skip): more than one value parameter is not a value constructor
		c.valType = rest[0].typ
		return
	}
	c.valParam, c.valType = rest[0].name, rest[0].typ
	t := c.valType
	switch {
	case t == "[]byte" || t == "[]Field" || t == "...Field":
		c.shape, c.elemType, c.elemKind = "val", t, "box"
	case strings.HasPrefix(t, "*"):
		c.shape, c.elemType = "ptr", t[1:]
		c.elemKind = kindOf(c.elemType)
	case strings.HasPrefix(t, "[]"):
		c.shape, c.elemType = "slice", t[2:]
		c.elemKind = kindOf(c.elemType)
	case strings.HasPrefix(t, "..."):
		bail("%s: variadic parameter of type %s", c.pos, t)
	default:
		c.shape, c.elemType, c.elemKind = "val", t, kindOf(t)
	}
}

func (c *ctorInfo) valKind() string {
	switch c.shape {
	case "val":
		return c.elemKind
	case "ptr":
		return "opt:" + c.elemKind
	case "slice":
		return "list:" + c.elemKind
	}
	return ""
}

// ---------------------------------------------------------------- constructor bodies

type env map[string]gval

func (x *fieldsX) translate(c *ctorInfo) {
	if c.done {
		return
	}
	if c.busy {
		bail("%s: constructors delegate to each other in a cycle", c.pos)
	}
	c.busy = true
	defer func() { c.busy = false; c.done = true }()
	key := c.pkg + "." + c.name
	if c.opaque || mentions(c.fd.Body, "stacktrace") {
		c.opaque = true
		return
	}
	e := env{}
	var params []string
	if c.keyParam != "" {
		e[c.keyParam] = gval{c.keyParam, "string", "str"}
		params = append(params, fmt.Sprintf("(%s : Bytes)", c.keyParam))
	}
	if c.valParam != "" {
		e[c.valParam] = gval{c.valParam, c.valType, c.valKind()}
		params = append(params, fmt.Sprintf("(%s : %s)", c.valParam, leanTypeOfKind(c.valKind())))
	}
	body := x.block(c, c.fd.Body.List, e, "  ")
	if c.opaque {
		return
	}
	c.def = fmt.Sprintf("/-- %s `%s` -/\n@[simp] def %s %s : Fld :=\n%s\n", c.pos, c.sig, c.lname(), strings.Join(params, " "), body)
	x.order = append(x.order, key)
}

func mentions(n ast.Node, ident string) bool {
	found := false
	ast.Inspect(n, func(m ast.Node) bool {
		if id, ok := m.(*ast.Ident); ok && id.Name == ident {
			found = true
		}
		return !found
	})
	return found
}

// block translates a statement list ending in `return E` into a Lean term of type Fld.
func (x *fieldsX) block(c *ctorInfo, stmts []ast.Stmt, e env, ind string) string {
	if len(stmts) == 0 {
		bail("%s: control reaches the end of the body without a return", c.pos)
	}
	switch s := stmts[0].(type) {
	case *ast.ReturnStmt:
		if len(stmts) != 1 || len(s.Results) != 1 {
			bail("%s: statements after a return, or a return without exactly one result", c.pos)
		}
		return ind + x.fieldExpr(c, s.Results[0], e)
	case *ast.DeclStmt:
		// var ival int64 ; if val { ival = 1 }
		gd := s.Decl.(*ast.GenDecl)
		if gd.Tok == token.VAR && len(gd.Specs) == 1 && len(stmts) >= 3 {
			vs := gd.Specs[0].(*ast.ValueSpec)
			if len(vs.Names) == 1 && len(vs.Values) == 0 && vs.Type != nil && isIntLike(typeText(vs.Type, c.tparams)) {
				v := vs.Names[0].Name
				vt := typeText(vs.Type, c.tparams)
				if is, ok := stmts[1].(*ast.IfStmt); ok && is.Init == nil && is.Else == nil && len(is.Body.List) == 1 {
					if as, ok := is.Body.List[0].(*ast.AssignStmt); ok && as.Tok == token.ASSIGN && len(as.Lhs) == 1 && exprString(as.Lhs[0]) == v {
						cond := x.expr(c, is.Cond, e)
						lit, ok := as.Rhs[0].(*ast.BasicLit)
						if cond.kind == "bool" && ok && lit.Kind == token.INT {
							e2 := copyEnv(e)
							e2[v] = gval{fmt.Sprintf("(if %s then %s else 0)", cond.term, lit.Value), vt, "num"}
							return x.block(c, stmts[2:], e2, ind)
						}
					}
				}
			}
		}
		bail("%s: unsupported declaration `%s` (accepted: `var x int64; if b { x = n }`)", c.pos, exprString1(s))
	case *ast.IfStmt:
		if s.Init != nil || s.Else != nil {
			bail("%s: if statement with init or else", c.pos)
		}
		// pointer guard: if p == nil { return A } ; rest
		if be, ok := s.Cond.(*ast.BinaryExpr); ok && be.Op == token.EQL && exprString(be.Y) == "nil" {
			if id, ok := be.X.(*ast.Ident); ok {
				v, okv := e[id.Name]
				if !okv {
					bail("%s: nil test on %s, which is not a parameter", c.pos, id.Name)
				}
				thenT := x.block(c, s.Body.List, e, ind+"    ")
				if strings.HasPrefix(v.kind, "opt:") {
					e2 := copyEnv(e)
					e2["*"+id.Name] = gval{id.Name, strings.TrimPrefix(v.typ, "*"), v.kind[4:]}
					delete(e2, id.Name)
					elseT := x.block(c, stmts[1:], e2, ind+"    ")
					return fmt.Sprintf("%smatch %s with\n%s| none =>\n%s\n%s| some %s =>\n%s", ind, id.Name, ind, thenT, ind, id.Name, elseT)
				}
				if v.kind == "box" {
					elseT := x.block(c, stmts[1:], e, ind+"    ")
					return fmt.Sprintf("%sif %s = Payload.nil then\n%s\n%selse\n%s", ind, v.term, thenT, ind, elseT)
				}
				bail("%s: nil test on %s of type %s", c.pos, id.Name, v.typ)
			}
		}
		cond := x.cond(c, s.Cond, e)
		thenT := x.block(c, s.Body.List, e, ind+"    ")
		elseT := x.block(c, stmts[1:], e, ind+"    ")
		return fmt.Sprintf("%sif %s then\n%s\n%selse\n%s", ind, cond, thenT, ind, elseT)
	}
	bail("%s: unsupported statement `%s`", c.pos, exprString1(stmts[0]))
	return ""
}

func copyEnv(e env) env {
	n := env{}
	for k, v := range e {
		n[k] = v
	}
	return n
}

// cond translates a guard into a decidable Lean proposition.
func (x *fieldsX) cond(c *ctorInfo, ex ast.Expr, e env) string {
	switch t := ex.(type) {
	case *ast.ParenExpr:
		return "(" + x.cond(c, t.X, e) + ")"
	case *ast.BinaryExpr:
		if t.Op == token.LOR {
			return "(" + x.cond(c, t.X, e) + " ∨ " + x.cond(c, t.Y, e) + ")"
		}
		if t.Op == token.LAND {
			return "(" + x.cond(c, t.X, e) + " ∧ " + x.cond(c, t.Y, e) + ")"
		}
	case *ast.CallExpr:
		// val.Before(_minTimeInt64) / val.After(_maxTimeInt64)
		if se, ok := t.Fun.(*ast.SelectorExpr); ok && len(t.Args) == 1 && (se.Sel.Name == "Before" || se.Sel.Name == "After") {
			recv := x.expr(c, se.X, e)
			g, okg := x.globals[exprString(t.Args[0])]
			if recv.kind == "time" && okg {
				return fmt.Sprintf("time%s %s %s", se.Sel.Name, recv.term, g)
			}
		}
	}
	bail("%s: unsupported condition `%s`", c.pos, exprString(ex))
	return ""
}

// fieldExpr translates an expression of type Field.
func (x *fieldsX) fieldExpr(c *ctorInfo, ex ast.Expr, e env) string {
	switch t := ex.(type) {
	case *ast.CompositeLit:
		if tn := exprString(t.Type); tn != "Field" && tn != "zapcore.Field" && tn != "zap.Field" {
			bail("%s: composite literal of type %s", c.pos, tn)
		}
		var parts []string
		seen := map[string]bool{}
		for _, el := range t.Elts {
			kv, ok := el.(*ast.KeyValueExpr)
			if !ok {
				bail("%s: positional Field literal", c.pos)
			}
			k := exprString(kv.Key)
			if seen[k] {
				bail("%s: duplicate member %s", c.pos, k)
			}
			seen[k] = true
			switch k {
			case "Key":
				v := x.expr(c, kv.Value, e)
				if v.kind != "str" {
					bail("%s: Key is not a string expression", c.pos)
				}
				parts = append(parts, "key := "+v.term)
			case "Type":
				ft, ok := ftOf(exprString(kv.Value))
				if !ok {
					bail("%s: unknown field type %s", c.pos, exprString(kv.Value))
				}
				parts = append(parts, "ty := "+ft)
			case "Integer":
				v := x.expr(c, kv.Value, e)
				if v.kind != "num" || !(v.typ == "int64" || v.typ == "untyped int") {
					bail("%s: Integer: %s has type %s, expected int64", c.pos, exprString(kv.Value), v.typ)
				}
				parts = append(parts, "integer := "+v.term)
			case "String":
				v := x.expr(c, kv.Value, e)
				if v.kind != "str" {
					bail("%s: String: %s is not a string", c.pos, exprString(kv.Value))
				}
				parts = append(parts, "str := "+v.term)
			case "Interface":
				v := x.expr(c, kv.Value, e)
				parts = append(parts, "iface := "+x.asPayload(c, v, exprString(kv.Value)))
			default:
				bail("%s: unknown Field member %s", c.pos, k)
			}
		}
		return "{ " + strings.Join(parts, ", ") + " }"
	case *ast.CallExpr:
		name := exprString(t.Fun)
		var tgt *ctorInfo
		if strings.HasPrefix(name, "zap.") {
			tgt = x.ctors[name]
		} else {
			tgt = x.ctors[c.pkg+"."+name]
		}
		if tgt == nil {
			bail("%s: call of %s, which is not a function returning Field in the files read", c.pos, name)
		}
		x.translate(tgt)
		if tgt.opaque {
			c.opaque = true
			return ""
		}
		var want []string
		if tgt.keyParam != "" {
			want = append(want, "str")
		}
		if tgt.valParam != "" {
			want = append(want, tgt.valKind())
		}
		if len(want) != len(t.Args) || t.Ellipsis != token.NoPos {
			bail("%s: call of %s with %d arguments (or with …), expected %d", c.pos, name, len(t.Args), len(want))
		}
		args := []string{tgt.lname()}
		for i, a := range t.Args {
			v := x.expr(c, a, e)
			got := v.kind
			switch {
			case got == want[i]:
				args = append(args, v.term)
			case want[i] == "box":
				args = append(args, x.asPayload(c, v, exprString(a)))
			default:
				bail("%s: argument %d of %s: %s is modelled as %s, parameter as %s", c.pos, i+1, name, exprString(a), got, want[i])
			}
		}
		return strings.Join(args, " ")
	case *ast.ParenExpr:
		return x.fieldExpr(c, t.X, e)
	}
	bail("%s: unsupported Field expression `%s`", c.pos, exprString(ex))
	return ""
}

func (x *fieldsX) asPayload(c *ctorInfo, v gval, src string) string {
	switch v.kind {
	case "box":
		return v.term
	case "time":
		return "(Payload.time " + v.term + ")"
	}
	bail("%s: %s (a %s, modelled as %s) is stored in an interface: not supported by the model", c.pos, src, v.typ, v.kind)
	return ""
}

// expr translates a value expression.
func (x *fieldsX) expr(c *ctorInfo, ex ast.Expr, e env) gval {
	switch t := ex.(type) {
	case *ast.ParenExpr:
		return x.expr(c, t.X, e)
	case *ast.Ident:
		if t.Name == "nil" {
			return gval{"Payload.nil", "nil", "box"}
		}
		if v, ok := e[t.Name]; ok {
			return v
		}
		if _, ok := e["*"+t.Name]; ok {
			bail("%s: pointer %s used without dereference", c.pos, t.Name)
		}
		bail("%s: unknown identifier %s", c.pos, t.Name)
	case *ast.StarExpr:
		if id, ok := t.X.(*ast.Ident); ok {
			if v, ok := e["*"+id.Name]; ok {
				return v
			}
		}
		bail("%s: dereference `%s` outside a nil guard", c.pos, exprString(ex))
	case *ast.BasicLit:
		switch t.Kind {
		case token.STRING:
			s, err := strconv.Unquote(t.Value)
			if err != nil {
				bail("%s: %v", c.pos, err)
			}
			return gval{leanBytesOfString(s), "string", "str"}
		case token.INT:
			return gval{t.Value, "untyped int", "num"}
		}
	case *ast.CallExpr:
		fun := t.Fun
		// generic instantiation objects[T](…)
		switch ix := fun.(type) {
		case *ast.IndexExpr:
			fun = ix.X
		case *ast.IndexListExpr:
			fun = ix.X
		}
		fname := exprString(fun)
		// method calls on a time value
		if se, ok := fun.(*ast.SelectorExpr); ok {
			if _, isPkg := se.X.(*ast.Ident); !isPkg || e[exprString(se.X)].kind != "" {
				recv := x.expr(c, se.X, e)
				if recv.kind == "time" && len(t.Args) == 0 {
					switch se.Sel.Name {
					case "UnixNano":
						return gval{"(unixNano " + recv.term + ")", "int64", "num"}
					case "Location":
						return gval{"(location " + recv.term + ")", "*time.Location", "box"}
					}
				}
				bail("%s: unsupported method call `%s`", c.pos, exprString(ex))
			}
		}
		if len(t.Args) != 1 {
			bail("%s: unsupported call `%s`", c.pos, exprString(ex))
		}
		switch fname {
		case "math.Float64bits", "math.Float32bits":
			a := x.expr(c, t.Args[0], e)
			bits := fname[len("math.Float") : len("math.Float")+2]
			if a.typ != "float"+bits {
				bail("%s: %s applied to a %s", c.pos, fname, a.typ)
			}
			return gval{"(float" + bits + "bits " + a.term + ")", "uint" + bits, "num"}
		case "string":
			a := x.expr(c, t.Args[0], e)
			if a.kind != "str" {
				bail("%s: string(%s) on a non-string", c.pos, exprString(t.Args[0]))
			}
			return gval{a.term, "string", "str"}
		}
		if cv, ok := intConv[fname]; ok {
			a := x.expr(c, t.Args[0], e)
			if a.kind != "num" || !isIntLike(a.typ) {
				bail("%s: conversion %s(%s) from %s is not an integer conversion", c.pos, fname, exprString(t.Args[0]), a.typ)
			}
			return gval{"(" + cv + " " + a.term + ")", fname, "num"}
		}
		if w, ok := x.wrappers[c.pkg+"."+fname]; ok {
			a := x.expr(c, t.Args[0], e)
			if w.isArray {
				if a.kind != "list:"+w.elemKind {
					bail("%s: %s(%s): argument is modelled as %s, wrapper elements as %s", c.pos, fname, exprString(t.Args[0]), a.kind, w.elemKind)
				}
			} else if a.kind != "box" {
				bail("%s: %s(%s): argument is not an opaque slice", c.pos, fname, exprString(t.Args[0]))
			}
			return gval{"(wrap_" + w.lname() + " " + a.term + ")", w.pkg + "." + w.name, "box"}
		}
		bail("%s: unsupported call `%s`", c.pos, exprString(ex))
	}
	bail("%s: unsupported expression `%s`", c.pos, exprString(ex))
	return gval{}
}

var _ = sort.Strings
