package main

import (
	"fmt"
	"go/ast"
	"go/token"
	"sort"
	"strconv"
	"strings"
)

// FrontEnds: for every exported log method of zap.Logger, zap.SugaredLogger, zapgrpc.Logger and the std-log bridge:
// its level and the chain of calls down to Logger.check with every guard met on the way; plus the terminal-action
// switch of Logger.check, terminalHookOverride, the gRPC verbosity map and ioCore.Write's sync threshold.
//
// Accepted shapes (anything else is a broken tie `gen:FrontEnds`):
//   Logger.X        if ce := log.check(L, msg); ce != nil { ce.Write(fields...) }        | return log.check(lvl, msg)
//   Logger.check    any prefix of `if G { return nil }`, const/assign statements, then `ce := log.core.Check(ent, nil)`,
//                   `switch ent.Level { case L: [if log.development {] ce = ce.After(ent, terminalHookOverride(D, log.F)) [}] }`
//   Sugared.X       s.log(L, tmpl, args, ctx) | s.logln(L, args, ctx)
//   Sugared.log[ln] any prefix of `if G { return }`, then `if ce := s.base.Check(lvl, msg); ce != nil { ce.Write(…) }`
//   zapgrpc.X       l.delegate.M(…) | if G { l.delegate.M(…) } | l.<printer>.P(…)
//   printer.P       v.print(…) | v.printf(…) | if G { v.print(…) } | `if G { return }` then v.print(…)
//   printer configs logger.<field> = &printer{enab, level, print: logger.delegate.M, printf: logger.delegate.Mf}
//   levelToFunc     switch lvl { case L: return logger.M, nil }
//   G               built from !, &&, ||, X.Enabled(level), level < DPanicLevel, level >= DPanicLevel
func init() {
	tables = append(tables, table{"FrontEnds", genFrontEnds})
}

type gexpr struct {
	op   string // enabled | lt | ge | not | and | or
	a, b *gexpr
	lvl  string // for enabled: the argument as written ("" = the method's level variable)
}

func (g *gexpr) lean() string {
	switch g.op {
	case "enabled":
		return ".enabled"
	case "lt":
		return ".ltDPanic"
	case "ge":
		return ".geDPanic"
	case "not":
		return "(.not " + g.a.lean() + ")"
	case "and":
		return "(.and " + g.a.lean() + " " + g.b.lean() + ")"
	case "or":
		return "(.or " + g.a.lean() + " " + g.b.lean() + ")"
	}
	panic("gexpr")
}

func (g *gexpr) constLevels(out *[]string) {
	if g == nil {
		return
	}
	if g.op == "enabled" && g.lvl != "" {
		*out = append(*out, g.lvl)
	}
	g.a.constLevels(out)
	g.b.constLevels(out)
}

type guard struct {
	skipIf bool
	g      *gexpr
	src    string
}

func levelName(e ast.Expr) (string, bool) {
	s := exprString(e)
	s = strings.TrimPrefix(s, "zapcore.")
	s = strings.TrimPrefix(s, "zap.")
	if _, ok := levelConst[s]; !ok {
		return "", false
	}
	return s, true
}

// parseG reads a guard condition.
func parseG(e ast.Expr) (*gexpr, error) {
	switch x := e.(type) {
	case *ast.ParenExpr:
		return parseG(x.X)
	case *ast.UnaryExpr:
		if x.Op == token.NOT {
			a, err := parseG(x.X)
			if err != nil {
				return nil, err
			}
			return &gexpr{op: "not", a: a}, nil
		}
	case *ast.BinaryExpr:
		switch x.Op {
		case token.LAND, token.LOR:
			a, err := parseG(x.X)
			if err != nil {
				return nil, err
			}
			b, err := parseG(x.Y)
			if err != nil {
				return nil, err
			}
			op := "and"
			if x.Op == token.LOR {
				op = "or"
			}
			return &gexpr{op: op, a: a, b: b}, nil
		case token.LSS, token.GEQ:
			if n, ok := levelName(x.Y); ok && n == "DPanicLevel" {
				if _, isConst := levelName(x.X); !isConst {
					if x.Op == token.LSS {
						return &gexpr{op: "lt"}, nil
					}
					return &gexpr{op: "ge"}, nil
				}
			}
		}
	case *ast.CallExpr:
		if sel, ok := x.Fun.(*ast.SelectorExpr); ok && sel.Sel.Name == "Enabled" && len(x.Args) == 1 {
			if n, ok := levelName(x.Args[0]); ok {
				return &gexpr{op: "enabled", lvl: n}, nil
			}
			return &gexpr{op: "enabled"}, nil
		}
	}
	return nil, fmt.Errorf("unreadable guard condition `%s`", exprString(e))
}

func isReturnOnly(b *ast.BlockStmt) bool {
	if len(b.List) != 1 {
		return false
	}
	r, ok := b.List[0].(*ast.ReturnStmt)
	if !ok {
		return false
	}
	for _, res := range r.Results {
		if exprString(res) != "nil" {
			return false
		}
	}
	return true
}

// leadingGuards strips the `if G { return }` prefix of a body (const/plain assignments are skipped over).
func leadingGuards(where string, stmts []ast.Stmt) ([]guard, []ast.Stmt, error) {
	var gs []guard
	for i, st := range stmts {
		switch s := st.(type) {
		case *ast.DeclStmt:
			continue
		case *ast.IfStmt:
			if s.Init == nil && s.Else == nil && isReturnOnly(s.Body) {
				g, err := parseG(s.Cond)
				if err != nil {
					return nil, nil, fmt.Errorf("%s: %v", where, err)
				}
				gs = append(gs, guard{skipIf: true, g: g, src: where + ": if " + exprString(s.Cond) + " { return }"})
				continue
			}
			return gs, stmts[i:], nil
		default:
			return gs, stmts[i:], nil
		}
	}
	return gs, nil, nil
}

// ceWriteIf recognises `if ce := X.check(L, msg); ce != nil { ce.Write(...) }` and returns the callee and level arg.
func ceWriteIf(st ast.Stmt) (callee string, lvl ast.Expr, ok bool) {
	s, isIf := st.(*ast.IfStmt)
	if !isIf || s.Init == nil || s.Else != nil {
		return
	}
	as, isAs := s.Init.(*ast.AssignStmt)
	if !isAs || len(as.Lhs) != 1 || len(as.Rhs) != 1 || exprString(as.Lhs[0]) != "ce" {
		return
	}
	call, isCall := as.Rhs[0].(*ast.CallExpr)
	if !isCall || len(call.Args) != 2 || exprString(s.Cond) != "ce != nil" || len(s.Body.List) != 1 {
		return
	}
	es, isEs := s.Body.List[0].(*ast.ExprStmt)
	if !isEs {
		return
	}
	wc, isWc := es.X.(*ast.CallExpr)
	if !isWc || exprString(wc.Fun) != "ce.Write" {
		return
	}
	return exprString(call.Fun), call.Args[0], true
}

type feRow struct {
	recv, name string
	level      string // level constant name, "" = parameter
	guards     []guard
	chain      []string
}

type termRow struct {
	level, dflt, field string
	devOnly            bool
}

func methodsOf(f *ast.File, recv string) []*ast.FuncDecl {
	var out []*ast.FuncDecl
	for _, d := range f.Decls {
		fd, ok := d.(*ast.FuncDecl)
		if !ok || fd.Recv == nil || len(fd.Recv.List) != 1 || typeName(fd.Recv.List[0].Type) != recv || fd.Body == nil {
			continue
		}
		out = append(out, fd)
	}
	return out
}

func containsCall(n ast.Node, name string) bool {
	found := false
	ast.Inspect(n, func(x ast.Node) bool {
		if c, ok := x.(*ast.CallExpr); ok && exprString(c.Fun) == name {
			found = true
		}
		return !found
	})
	return found
}

func singleCall(st ast.Stmt) *ast.CallExpr {
	es, ok := st.(*ast.ExprStmt)
	if !ok {
		return nil
	}
	c, _ := es.X.(*ast.CallExpr)
	return c
}

func genFrontEnds() (string, int, error) {
	var rows []feRow

	// ---------------------------------------------------------------- logger.go
	_, lf, err := parseFile("logger.go")
	if err != nil {
		return "", 0, err
	}
	chk := findFunc(lf, "Logger", "check")
	if chk == nil {
		return "", 0, fmt.Errorf("func (*Logger) check not found")
	}
	checkGuards, rest, err := leadingGuards("Logger.check", chk.Body.List)
	if err != nil {
		return "", 0, err
	}
	// up to the core.Check call nothing but plain assignments may follow
	var terms []termRow
	sawCheck, sawSwitch := false, false
	for _, st := range rest {
		if !sawCheck {
			as, ok := st.(*ast.AssignStmt)
			if !ok {
				return "", 0, fmt.Errorf("Logger.check: unexpected %T before log.core.Check", st)
			}
			if len(as.Rhs) == 1 && exprString(as.Rhs[0]) == "log.core.Check(ent, nil)" && exprString(as.Lhs[0]) == "ce" {
				sawCheck = true
			}
			continue
		}
		if sw, ok := st.(*ast.SwitchStmt); ok && !sawSwitch {
			if exprString(sw.Tag) != "ent.Level" {
				return "", 0, fmt.Errorf("Logger.check: first switch after core.Check is not on ent.Level")
			}
			sawSwitch = true
			for _, cc := range sw.Body.List {
				c := cc.(*ast.CaseClause)
				if len(c.List) != 1 || len(c.Body) != 1 {
					return "", 0, fmt.Errorf("Logger.check: terminal switch arm is not `case L: <one statement>`")
				}
				ln, ok := levelName(c.List[0])
				if !ok {
					return "", 0, fmt.Errorf("Logger.check: terminal switch label %s", exprString(c.List[0]))
				}
				body := c.Body[0]
				dev := false
				if ifs, ok := body.(*ast.IfStmt); ok {
					if exprString(ifs.Cond) != "log.development" || ifs.Else != nil || len(ifs.Body.List) != 1 {
						return "", 0, fmt.Errorf("Logger.check: terminal arm %s: unexpected condition %s", ln, exprString(ifs.Cond))
					}
					dev = true
					body = ifs.Body.List[0]
				}
				as, ok := body.(*ast.AssignStmt)
				if !ok || len(as.Rhs) != 1 || exprString(as.Lhs[0]) != "ce" {
					return "", 0, fmt.Errorf("Logger.check: terminal arm %s is not `ce = ce.After(...)`", ln)
				}
				call, ok := as.Rhs[0].(*ast.CallExpr)
				if !ok || exprString(call.Fun) != "ce.After" || len(call.Args) != 2 {
					return "", 0, fmt.Errorf("Logger.check: terminal arm %s is not `ce = ce.After(ent, hook)`", ln)
				}
				ov, ok := call.Args[1].(*ast.CallExpr)
				if !ok || exprString(ov.Fun) != "terminalHookOverride" || len(ov.Args) != 2 {
					return "", 0, fmt.Errorf("Logger.check: terminal arm %s does not use terminalHookOverride", ln)
				}
				d := strings.TrimPrefix(exprString(ov.Args[0]), "zapcore.")
				fld := strings.TrimPrefix(exprString(ov.Args[1]), "log.")
				terms = append(terms, termRow{level: ln, dflt: d, field: fld, devOnly: dev})
			}
			continue
		}
	}
	if !sawCheck || !sawSwitch {
		return "", 0, fmt.Errorf("Logger.check: core.Check call / terminal switch not found")
	}
	// the terminal switch must come before the `if !willWrite { return ce }` exit
	{
		posSwitch, posExit := token.NoPos, token.NoPos
		for _, st := range rest {
			if sw, ok := st.(*ast.SwitchStmt); ok && posSwitch == token.NoPos {
				posSwitch = sw.Pos()
			}
			if ifs, ok := st.(*ast.IfStmt); ok && posExit == token.NoPos && exprString(ifs.Cond) == "!willWrite" {
				posExit = ifs.Pos()
			}
		}
		if posExit != token.NoPos && posExit < posSwitch {
			return "", 0, fmt.Errorf("Logger.check: returns for !willWrite before attaching the terminal action")
		}
	}
	// terminalHookOverride
	tho := findFunc(lf, "", "terminalHookOverride")
	if tho == nil || len(tho.Body.List) != 2 {
		return "", 0, fmt.Errorf("terminalHookOverride: not `if … { return defaultHook }; return override`")
	}
	var overrideDefaults []string
	{
		ifs, ok := tho.Body.List[0].(*ast.IfStmt)
		ret, ok2 := tho.Body.List[1].(*ast.ReturnStmt)
		if !ok || !ok2 || len(ifs.Body.List) != 1 || len(ret.Results) != 1 || exprString(ret.Results[0]) != "override" {
			return "", 0, fmt.Errorf("terminalHookOverride: unexpected shape")
		}
		if r, ok := ifs.Body.List[0].(*ast.ReturnStmt); !ok || len(r.Results) != 1 || exprString(r.Results[0]) != "defaultHook" {
			return "", 0, fmt.Errorf("terminalHookOverride: the if-arm does not return defaultHook")
		}
		var collect func(e ast.Expr) error
		collect = func(e ast.Expr) error {
			if b, ok := e.(*ast.BinaryExpr); ok {
				if b.Op == token.LOR {
					if err := collect(b.X); err != nil {
						return err
					}
					return collect(b.Y)
				}
				if b.Op == token.EQL && exprString(b.X) == "override" {
					overrideDefaults = append(overrideDefaults, strings.TrimPrefix(exprString(b.Y), "zapcore."))
					return nil
				}
			}
			return fmt.Errorf("terminalHookOverride: condition `%s`", exprString(e))
		}
		if err := collect(ifs.Cond); err != nil {
			return "", 0, err
		}
	}
	for _, fd := range methodsOf(lf, "Logger") {
		if !fd.Name.IsExported() || !containsCall(fd.Body, "log.check") {
			continue
		}
		name := "Logger." + fd.Name.Name
		if len(fd.Body.List) != 1 {
			return "", 0, fmt.Errorf("%s: body is not a single statement", name)
		}
		var lvl ast.Expr
		if callee, l, ok := ceWriteIf(fd.Body.List[0]); ok && callee == "log.check" {
			lvl = l
		} else if r, ok := fd.Body.List[0].(*ast.ReturnStmt); ok && len(r.Results) == 1 {
			c, ok := r.Results[0].(*ast.CallExpr)
			if !ok || exprString(c.Fun) != "log.check" || len(c.Args) != 2 {
				return "", 0, fmt.Errorf("%s: unexpected return", name)
			}
			lvl = c.Args[0]
		} else {
			return "", 0, fmt.Errorf("%s: not `if ce := log.check(L, msg); ce != nil { ce.Write(...) }`", name)
		}
		ln, _ := levelName(lvl)
		rows = append(rows, feRow{recv: "Logger", name: fd.Name.Name, level: ln, guards: checkGuards, chain: []string{name, "Logger.check"}})
	}
	loggerLevel := map[string]string{}
	for _, r := range rows {
		loggerLevel[r.name] = r.level
	}

	// ---------------------------------------------------------------- sugar.go
	_, sf, err := parseFile("sugar.go")
	if err != nil {
		return "", 0, err
	}
	sugarInner := map[string][]guard{}
	for _, inner := range []string{"log", "logln"} {
		fd := findFunc(sf, "SugaredLogger", inner)
		if fd == nil {
			return "", 0, fmt.Errorf("SugaredLogger.%s not found", inner)
		}
		gs, rest, err := leadingGuards("SugaredLogger."+inner, fd.Body.List)
		if err != nil {
			return "", 0, err
		}
		okTail := false
		for _, st := range rest {
			if callee, l, ok := ceWriteIf(st); ok {
				if callee != "s.base.Check" || exprString(l) != "lvl" {
					return "", 0, fmt.Errorf("SugaredLogger.%s: writes through %s(%s)", inner, callee, exprString(l))
				}
				okTail = true
				continue
			}
			if _, ok := st.(*ast.AssignStmt); ok && !okTail {
				continue
			}
			return "", 0, fmt.Errorf("SugaredLogger.%s: unexpected statement %T", inner, st)
		}
		if !okTail {
			return "", 0, fmt.Errorf("SugaredLogger.%s: no `if ce := s.base.Check(lvl, msg)`", inner)
		}
		sugarInner[inner] = gs
	}
	if _, ok := loggerLevel["Check"]; !ok {
		return "", 0, fmt.Errorf("Logger.Check not found")
	}
	sugarLevel := map[string]string{}
	sugarRow := map[string]feRow{}
	for _, fd := range methodsOf(sf, "SugaredLogger") {
		if !fd.Name.IsExported() || !(containsCall(fd.Body, "s.log") || containsCall(fd.Body, "s.logln")) {
			continue
		}
		name := "SugaredLogger." + fd.Name.Name
		if len(fd.Body.List) != 1 {
			return "", 0, fmt.Errorf("%s: body is not a single delegating call", name)
		}
		c := singleCall(fd.Body.List[0])
		if c == nil || len(c.Args) < 1 {
			return "", 0, fmt.Errorf("%s: body is not a single delegating call", name)
		}
		inner := strings.TrimPrefix(exprString(c.Fun), "s.")
		gs, ok := sugarInner[inner]
		if !ok {
			return "", 0, fmt.Errorf("%s: delegates to %s", name, exprString(c.Fun))
		}
		ln, _ := levelName(c.Args[0])
		if ln == "" && exprString(c.Args[0]) != "lvl" {
			return "", 0, fmt.Errorf("%s: level argument %s", name, exprString(c.Args[0]))
		}
		r := feRow{recv: "SugaredLogger", name: fd.Name.Name, level: ln,
			guards: append(append([]guard{}, gs...), checkGuards...),
			chain:  []string{name, "SugaredLogger." + inner, "Logger.Check", "Logger.check"}}
		rows = append(rows, r)
		sugarLevel[fd.Name.Name] = ln
		sugarRow[fd.Name.Name] = r
	}

	// ---------------------------------------------------------------- zapgrpc/zapgrpc.go
	_, gf, err := parseFile("zapgrpc/zapgrpc.go")
	if err != nil {
		return "", 0, err
	}
	// printer methods
	type pm struct {
		guards []guard
		target string // print | printf
	}
	printerMethods := map[string]pm{}
	for _, fd := range methodsOf(gf, "printer") {
		gs, rest, err := leadingGuards("printer."+fd.Name.Name, fd.Body.List)
		if err != nil {
			return "", 0, err
		}
		if len(rest) != 1 {
			return "", 0, fmt.Errorf("printer.%s: unexpected body", fd.Name.Name)
		}
		st := rest[0]
		if ifs, ok := st.(*ast.IfStmt); ok {
			if ifs.Init != nil || ifs.Else != nil || len(ifs.Body.List) != 1 {
				return "", 0, fmt.Errorf("printer.%s: unexpected if shape", fd.Name.Name)
			}
			g, err := parseG(ifs.Cond)
			if err != nil {
				return "", 0, fmt.Errorf("printer.%s: %v", fd.Name.Name, err)
			}
			gs = append(gs, guard{skipIf: false, g: g, src: "printer." + fd.Name.Name + ": if " + exprString(ifs.Cond) + " { … }"})
			st = ifs.Body.List[0]
		}
		c := singleCall(st)
		if c == nil || (exprString(c.Fun) != "v.print" && exprString(c.Fun) != "v.printf") {
			return "", 0, fmt.Errorf("printer.%s: does not end in v.print/v.printf", fd.Name.Name)
		}
		printerMethods[fd.Name.Name] = pm{guards: gs, target: strings.TrimPrefix(exprString(c.Fun), "v.")}
	}
	// printer configs: logger.<field> = &printer{…} anywhere in the file
	type pcfg struct{ field, level, print, printf, src string }
	var cfgs []pcfg
	for _, d := range gf.Decls {
		fd, ok := d.(*ast.FuncDecl)
		if !ok || fd.Body == nil {
			continue
		}
		var ierr error
		ast.Inspect(fd.Body, func(n ast.Node) bool {
			as, ok := n.(*ast.AssignStmt)
			if !ok || len(as.Lhs) != 1 || len(as.Rhs) != 1 {
				return true
			}
			un, ok := as.Rhs[0].(*ast.UnaryExpr)
			if !ok || un.Op != token.AND {
				return true
			}
			cl, ok := un.X.(*ast.CompositeLit)
			if !ok || exprString(cl.Type) != "printer" {
				return true
			}
			lhs := exprString(as.Lhs[0])
			if !strings.HasPrefix(lhs, "logger.") {
				ierr = fmt.Errorf("%s: printer assigned to %s", fd.Name.Name, lhs)
				return false
			}
			c := pcfg{field: strings.TrimPrefix(lhs, "logger."), src: fd.Name.Name}
			for _, el := range cl.Elts {
				kv, ok := el.(*ast.KeyValueExpr)
				if !ok {
					ierr = fmt.Errorf("%s: printer literal without keys", fd.Name.Name)
					return false
				}
				v := exprString(kv.Value)
				switch exprString(kv.Key) {
				case "level":
					c.level, _ = levelName(kv.Value)
				case "print":
					c.print = strings.TrimPrefix(v, "logger.delegate.")
				case "printf":
					c.printf = strings.TrimPrefix(v, "logger.delegate.")
				case "enab":
					if v != "logger.levelEnabler" {
						ierr = fmt.Errorf("%s: printer.enab = %s", fd.Name.Name, v)
						return false
					}
				}
			}
			if c.level == "" || c.print == "" || c.printf == "" {
				ierr = fmt.Errorf("%s: incomplete printer literal", fd.Name.Name)
				return false
			}
			cfgs = append(cfgs, c)
			return true
		})
		if ierr != nil {
			return "", 0, ierr
		}
	}
	// levelEnabler must be the delegate's core
	if nl := findFunc(gf, "", "NewLogger"); nl == nil || !strings.Contains(nodeText(nl), "levelEnabler: l.Core()") ||
		!strings.Contains(nodeText(nl), "delegate: l.Sugar()") {
		return "", 0, fmt.Errorf("zapgrpc.NewLogger: delegate/levelEnabler are not l.Sugar()/l.Core()")
	}
	mkSugar := func(recvName, method string, pre []guard, chainHead []string) (feRow, error) {
		sr, ok := sugarRow[method]
		if !ok {
			return feRow{}, fmt.Errorf("%s: delegates to unknown SugaredLogger.%s", recvName, method)
		}
		return feRow{recv: "zapgrpc.Logger", name: recvName, level: sr.level,
			guards: append(append([]guard{}, pre...), sr.guards...), chain: append(chainHead, sr.chain...)}, nil
	}
	for _, fd := range methodsOf(gf, "Logger") {
		if !fd.Name.IsExported() || fd.Name.Name == "V" {
			continue
		}
		name := fd.Name.Name
		if len(fd.Body.List) != 1 {
			return "", 0, fmt.Errorf("zapgrpc.Logger.%s: body is not a single statement", name)
		}
		st := fd.Body.List[0]
		var pre []guard
		if ifs, ok := st.(*ast.IfStmt); ok {
			if ifs.Init != nil || ifs.Else != nil || len(ifs.Body.List) != 1 {
				return "", 0, fmt.Errorf("zapgrpc.Logger.%s: unexpected if shape", name)
			}
			g, err := parseG(ifs.Cond)
			if err != nil {
				return "", 0, fmt.Errorf("zapgrpc.Logger.%s: %v", name, err)
			}
			pre = append(pre, guard{skipIf: false, g: g, src: "zapgrpc.Logger." + name + ": if " + exprString(ifs.Cond) + " { … }"})
			st = ifs.Body.List[0]
		}
		c := singleCall(st)
		if c == nil {
			return "", 0, fmt.Errorf("zapgrpc.Logger.%s: not a delegating call", name)
		}
		fun := exprString(c.Fun)
		switch {
		case strings.HasPrefix(fun, "l.delegate."):
			r, err := mkSugar(name, strings.TrimPrefix(fun, "l.delegate."), pre, []string{"zapgrpc.Logger." + name})
			if err != nil {
				return "", 0, err
			}
			rows = append(rows, r)
		case strings.HasPrefix(fun, "l."):
			parts := strings.Split(strings.TrimPrefix(fun, "l."), ".")
			if len(parts) != 2 {
				return "", 0, fmt.Errorf("zapgrpc.Logger.%s: delegates to %s", name, fun)
			}
			field, pmName := parts[0], parts[1]
			p, ok := printerMethods[pmName]
			if !ok {
				return "", 0, fmt.Errorf("zapgrpc.Logger.%s: unknown printer method %s", name, pmName)
			}
			n := 0
			for _, cfg := range cfgs {
				if cfg.field != field {
					continue
				}
				n++
				target := cfg.print
				if p.target == "printf" {
					target = cfg.printf
				}
				rn := name
				if cfg.src != "NewLogger" {
					rn = name + "[" + cfg.src + "]"
				}
				// `v.level` in the printer's guards is the configured level
				var pg []guard
				for _, g := range append(append([]guard{}, pre...), p.guards...) {
					pg = append(pg, guard{skipIf: g.skipIf, g: substLevel(g.g, cfg.level), src: g.src})
				}
				r, err := mkSugar(rn, target, pg, []string{"zapgrpc.Logger." + name, "printer." + pmName + "@" + cfg.src})
				if err != nil {
					return "", 0, err
				}
				rows = append(rows, r)
			}
			if n == 0 {
				return "", 0, fmt.Errorf("zapgrpc.Logger.%s: no printer configuration for field %s", name, field)
			}
		default:
			return "", 0, fmt.Errorf("zapgrpc.Logger.%s: delegates to %s", name, fun)
		}
	}
	// gRPC verbosity map
	var grpcLevels [][2]string
	{
		consts := map[string]int{}
		for _, d := range gf.Decls {
			gd, ok := d.(*ast.GenDecl)
			if !ok {
				continue
			}
			if gd.Tok == token.CONST {
				for i, sp := range gd.Specs {
					vs := sp.(*ast.ValueSpec)
					for _, n := range vs.Names {
						if strings.HasPrefix(n.Name, "grpcLvl") {
							consts[n.Name] = i // iota block
						}
					}
				}
			}
			if gd.Tok == token.VAR {
				for _, sp := range gd.Specs {
					vs := sp.(*ast.ValueSpec)
					if len(vs.Names) == 1 && vs.Names[0].Name == "_grpcToZapLevel" && len(vs.Values) == 1 {
						cl, ok := vs.Values[0].(*ast.CompositeLit)
						if !ok {
							return "", 0, fmt.Errorf("_grpcToZapLevel is not a map literal")
						}
						for _, el := range cl.Elts {
							kv := el.(*ast.KeyValueExpr)
							k, ok := consts[exprString(kv.Key)]
							ln, ok2 := levelName(kv.Value)
							if !ok || !ok2 {
								return "", 0, fmt.Errorf("_grpcToZapLevel entry %s", exprString(kv))
							}
							grpcLevels = append(grpcLevels, [2]string{strconv.Itoa(k), leanInt(levelConst[ln])})
						}
					}
				}
			}
		}
		v := findFunc(gf, "Logger", "V")
		if v == nil || len(grpcLevels) == 0 || !strings.Contains(nodeText(v), "l.levelEnabler.Enabled(_grpcToZapLevel[level])") {
			return "", 0, fmt.Errorf("zapgrpc.Logger.V: not `l.levelEnabler.Enabled(_grpcToZapLevel[level])`")
		}
	}

	// ---------------------------------------------------------------- global.go (std-log bridge)
	_, glf, err := parseFile("global.go")
	if err != nil {
		return "", 0, err
	}
	{
		lw := findFunc(glf, "loggerWriter", "Write")
		if lw == nil {
			return "", 0, fmt.Errorf("loggerWriter.Write not found")
		}
		calls := 0
		for _, st := range lw.Body.List {
			switch s := st.(type) {
			case *ast.AssignStmt, *ast.ReturnStmt:
			case *ast.ExprStmt:
				if c := singleCall(s); c != nil && exprString(c.Fun) == "l.logFunc" {
					calls++
				} else {
					return "", 0, fmt.Errorf("loggerWriter.Write: unexpected call %s", exprString(s.X))
				}
			default:
				return "", 0, fmt.Errorf("loggerWriter.Write: unexpected statement %T (a guard?)", st)
			}
		}
		if calls != 1 {
			return "", 0, fmt.Errorf("loggerWriter.Write: l.logFunc is called %d times", calls)
		}
		ltf := findFunc(glf, "", "levelToFunc")
		if ltf == nil {
			return "", 0, fmt.Errorf("levelToFunc not found")
		}
		var sw *ast.SwitchStmt
		for _, st := range ltf.Body.List {
			if s, ok := st.(*ast.SwitchStmt); ok {
				sw = s
			}
		}
		if sw == nil || exprString(sw.Tag) != "lvl" {
			return "", 0, fmt.Errorf("levelToFunc: no `switch lvl`")
		}
		for _, cc := range sw.Body.List {
			c := cc.(*ast.CaseClause)
			if len(c.List) != 1 || len(c.Body) != 1 {
				return "", 0, fmt.Errorf("levelToFunc: unexpected case arm")
			}
			ln, ok := levelName(c.List[0])
			r, ok2 := c.Body[0].(*ast.ReturnStmt)
			if !ok || !ok2 || len(r.Results) != 2 {
				return "", 0, fmt.Errorf("levelToFunc: unexpected case arm %s", exprString(c.List[0]))
			}
			m := strings.TrimPrefix(exprString(r.Results[0]), "logger.")
			ml, ok := loggerLevel[m]
			if !ok {
				return "", 0, fmt.Errorf("levelToFunc: %s returns unknown method %s", ln, m)
			}
			if ml != ln {
				return "", 0, fmt.Errorf("levelToFunc: case %s returns logger.%s which logs at %s", ln, m, ml)
			}
			rows = append(rows, feRow{recv: "stdlog", name: "NewStdLogAt(" + ln + ")", level: ml, guards: checkGuards,
				chain: []string{"log.Logger.Output", "loggerWriter.Write", "Logger." + m, "Logger.check"}})
		}
		nsl := findFunc(glf, "", "NewStdLog")
		if nsl == nil || !strings.Contains(nodeText(nsl), "f := logger.Info") {
			return "", 0, fmt.Errorf("NewStdLog: not `f := logger.Info`")
		}
		rows = append(rows, feRow{recv: "stdlog", name: "NewStdLog", level: loggerLevel["Info"], guards: checkGuards,
			chain: []string{"log.Logger.Output", "loggerWriter.Write", "Logger.Info", "Logger.check"}})
	}

	// ---------------------------------------------------------------- zapcore/core.go: sync threshold
	_, cf, err := parseFile("zapcore/core.go")
	if err != nil {
		return "", 0, err
	}
	syncAbove := ""
	if w := findFunc(cf, "ioCore", "Write"); w != nil {
		for _, st := range w.Body.List {
			if ifs, ok := st.(*ast.IfStmt); ok {
				if b, ok := ifs.Cond.(*ast.BinaryExpr); ok && b.Op == token.GTR && exprString(b.X) == "ent.Level" && containsCall(ifs.Body, "c.Sync") {
					syncAbove, _ = levelName(b.Y)
				}
			}
		}
		// the sync must come after the write
		txt := nodeText(w)
		if i, j := strings.Index(txt, "c.out.Write("), strings.Index(txt, "c.Sync()"); i < 0 || j < i {
			syncAbove = ""
		}
	}
	if syncAbove == "" {
		return "", 0, fmt.Errorf("ioCore.Write: `if ent.Level > L { c.Sync() }` after c.out.Write not found")
	}

	// a guard that names a level constant must name the level the row logs at
	for _, r := range rows {
		for _, g := range r.guards {
			var cs []string
			g.g.constLevels(&cs)
			for _, c := range cs {
				if c != r.level {
					return "", 0, fmt.Errorf("%s.%s logs at %q but is guarded by Enabled(%s) [%s]", r.recv, r.name, r.level, c, g.src)
				}
			}
		}
	}

	// ---------------------------------------------------------------- emit
	sort.SliceStable(rows, func(i, j int) bool {
		if rows[i].recv != rows[j].recv {
			return rows[i].recv < rows[j].recv
		}
		return rows[i].name < rows[j].name
	})
	var sb strings.Builder
	sb.WriteString("import ZapVerif.Model.Core\nnamespace ZapVerif.Gen\nopen ZapVerif.Cores\n\n")
	var names []string
	for i, r := range rows {
		lv := "none"
		if r.level != "" {
			lv = "some " + leanInt(levelConst[r.level])
		}
		var gs, ch []string
		for _, g := range r.guards {
			gs = append(gs, fmt.Sprintf("⟨%v, %s⟩", g.skipIf, g.g.lean()))
		}
		for _, c := range r.chain {
			ch = append(ch, strconv.Quote(c))
		}
		fmt.Fprintf(&sb, "def fe%d : FrontEnd :=\n  { recv := %q, name := %q, level := %s,\n    guards := [%s],\n    chain := [%s] }\n",
			i, r.recv, r.name, lv, strings.Join(gs, ", "), strings.Join(ch, ", "))
		names = append(names, fmt.Sprintf("fe%d", i))
	}
	sb.WriteString("\n/-- every exported log method with its level and the guards on its chain down to Logger.check -/\n")
	sb.WriteString("def frontEnds : List FrontEnd := [\n  " + strings.Join(names, ", ") + "]\n\n")
	sb.WriteString("/-- the `switch ent.Level` of Logger.check: (level, default action, only in development, override field) -/\n")
	sb.WriteString("def terminalRows : List (Int × String × Bool × String) := [\n")
	for i, t := range terms {
		sep := ","
		if i == len(terms)-1 {
			sep = ""
		}
		fmt.Fprintf(&sb, "  (%s, %q, %v, %q)%s\n", leanInt(levelConst[t.level]), t.dflt, t.devOnly, t.field, sep)
	}
	sb.WriteString("]\n\n/-- terminalHookOverride returns the default for exactly these override values -/\n")
	var od []string
	for _, o := range overrideDefaults {
		od = append(od, strconv.Quote(o))
	}
	sb.WriteString("def overrideDefaults : List String := [" + strings.Join(od, ", ") + "]\n\n")
	sb.WriteString("/-- zapgrpc `_grpcToZapLevel` (a missing key yields the zero value, InfoLevel) -/\ndef grpcLevels : List (Int × Int) := [")
	for i, g := range grpcLevels {
		if i > 0 {
			sb.WriteString(", ")
		}
		fmt.Fprintf(&sb, "(%s, %s)", g[0], g[1])
	}
	sb.WriteString("]\n\n/-- ioCore.Write syncs its sink after writing entries above this level -/\n")
	fmt.Fprintf(&sb, "def ioSyncAbove : Int := %s\n\nend ZapVerif.Gen\n", leanInt(levelConst[syncAbove]))
	return sb.String(), len(rows) + len(terms) + len(grpcLevels) + 2, nil
}

func substLevel(g *gexpr, lvl string) *gexpr {
	if g == nil {
		return nil
	}
	c := *g
	if c.op == "enabled" && c.lvl == "" {
		c.lvl = lvl
	}
	c.a, c.b = substLevel(g.a, lvl), substLevel(g.b, lvl)
	return &c
}

// nodeText renders a declaration compactly (used for substring shape checks).
func nodeText(n ast.Node) string {
	var sb strings.Builder
	ast.Inspect(n, func(x ast.Node) bool {
		switch e := x.(type) {
		case *ast.AssignStmt:
			for i := range e.Lhs {
				if i < len(e.Rhs) {
					sb.WriteString(exprString(e.Lhs[i]) + " " + e.Tok.String() + " " + exprString(e.Rhs[i]) + "\n")
				}
			}
		case *ast.KeyValueExpr:
			sb.WriteString(exprString(e.Key) + ": " + exprString(e.Value) + "\n")
		case *ast.ExprStmt:
			sb.WriteString(exprString(e.X) + "\n")
		case *ast.ReturnStmt:
			for _, r := range e.Results {
				sb.WriteString("return " + exprString(r) + "\n")
			}
		}
		return true
	})
	return sb.String()
}
