module zvgen

go 1.21
