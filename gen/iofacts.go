package main

// IoFacts — the statement skeletons of the few functions the C04 machine (lean/ZapVerif/Model/TeeBws.lean) mirrors:
// what `ioCore.Write` does with the pooled buffer and the sink, how `lockedWriteSyncer` and `BufferedWriteSyncer`
// bracket their sink operations with the mutex, that `multiCore.Write` / `CheckedEntry.Write` / `multiWriteSyncer.Write`
// visit every member, that `CombineWriteSyncers` (hence `zap.Open`) locks, and that the encoder and the buffer pool hand
// out a per-call buffer that is reset on Get. Pure go/parser + go/ast; every statement of the listed functions is
// rendered (depth:text) in source order, so ANY change of these bodies regenerates a different table and
// `Props/C04.lean: io_facts_as_modelled` stops compiling.

import (
	"fmt"
	"go/ast"
	"strings"
)

func init() {
	tables = append(tables, table{"IoFacts", genIoFacts})
}

type ioSpec struct {
	file, recv, fn, name, doc string
	keep                      []string // when non-empty: only statements containing one of these substrings
}

var ioSpecs = []ioSpec{
	{"zapcore/core.go", "ioCore", "Write", "ioCoreWrite", "ioCore.Write", nil},
	{"zapcore/core.go", "ioCore", "Sync", "ioCoreSync", "ioCore.Sync", nil},
	{"zapcore/write_syncer.go", "lockedWriteSyncer", "Write", "lockedWrite", "lockedWriteSyncer.Write", nil},
	{"zapcore/write_syncer.go", "lockedWriteSyncer", "Sync", "lockedSync", "lockedWriteSyncer.Sync", nil},
	{"zapcore/write_syncer.go", "multiWriteSyncer", "Write", "multiWsWrite", "multiWriteSyncer.Write", nil},
	{"zapcore/write_syncer.go", "multiWriteSyncer", "Sync", "multiWsSync", "multiWriteSyncer.Sync", nil},
	{"zapcore/buffered_write_syncer.go", "BufferedWriteSyncer", "Write", "bwsWrite", "BufferedWriteSyncer.Write", nil},
	{"zapcore/buffered_write_syncer.go", "BufferedWriteSyncer", "Sync", "bwsSync", "BufferedWriteSyncer.Sync", nil},
	{"zapcore/buffered_write_syncer.go", "BufferedWriteSyncer", "flushLoop", "bwsFlushLoop", "BufferedWriteSyncer.flushLoop", nil},
	{"zapcore/tee.go", "multiCore", "Write", "multiCoreWrite", "multiCore.Write", nil},
	{"zapcore/tee.go", "multiCore", "Check", "multiCoreCheck", "multiCore.Check", nil},
	{"zapcore/tee.go", "multiCore", "Sync", "multiCoreSync", "multiCore.Sync", nil},
	{"zapcore/entry.go", "CheckedEntry", "Write", "checkedEntryWriteLoop", "CheckedEntry.Write (the statements that mention ce.cores)", []string{"ce.cores"}},
	{"writer.go", "", "CombineWriteSyncers", "combineWriteSyncers", "zap.CombineWriteSyncers", nil},
	{"writer.go", "", "Open", "zapOpen", "zap.Open (the statements that build the returned writer)", []string{"writer"}},
	{"zapcore/json_encoder.go", "jsonEncoder", "clone", "jsonClone", "jsonEncoder.clone", nil},
	{"zapcore/json_encoder.go", "jsonEncoder", "EncodeEntry", "jsonEncodeEntryFrame", "jsonEncoder.EncodeEntry (clone, returned buffer)", []string{"clone()", "ret", "putJSONEncoder"}},
	{"buffer/pool.go", "Pool", "Get", "bufPoolGet", "buffer.Pool.Get", nil},
	{"buffer/buffer.go", "Buffer", "Free", "bufFree", "buffer.Buffer.Free", nil},
}

func ioRender(stmts []ast.Stmt, depth int, out *[]string) {
	add := func(s string) { *out = append(*out, fmt.Sprintf("%d:%s", depth, s)) }
	for _, st := range stmts {
		switch s := st.(type) {
		case *ast.IfStmt:
			if s.Init != nil {
				add("if " + ioStmt(s.Init) + "; " + exprString(s.Cond))
			} else {
				add("if " + exprString(s.Cond))
			}
			ioRender(s.Body.List, depth+1, out)
			switch e := s.Else.(type) {
			case *ast.BlockStmt:
				add("else")
				ioRender(e.List, depth+1, out)
			case *ast.IfStmt:
				add("else")
				ioRender([]ast.Stmt{e}, depth+1, out)
			}
		case *ast.ForStmt:
			h := "for"
			if s.Init != nil || s.Cond != nil || s.Post != nil {
				h = "for " + ioStmt(s.Init) + "; " + exprString(s.Cond) + "; " + ioStmt(s.Post)
			}
			add(h)
			ioRender(s.Body.List, depth+1, out)
		case *ast.RangeStmt:
			k, v := exprString(s.Key), exprString(s.Value)
			lhs := k
			if v != "" {
				lhs = k + ", " + v
			}
			add("for " + lhs + " " + s.Tok.String() + " range " + exprString(s.X))
			ioRender(s.Body.List, depth+1, out)
		case *ast.SelectStmt:
			add("select")
			for _, c := range s.Body.List {
				cc := c.(*ast.CommClause)
				if cc.Comm == nil {
					*out = append(*out, fmt.Sprintf("%d:default", depth+1))
				} else {
					*out = append(*out, fmt.Sprintf("%d:case %s", depth+1, ioStmt(cc.Comm)))
				}
				ioRender(cc.Body, depth+2, out)
			}
		case *ast.SwitchStmt:
			add("switch " + exprString(s.Tag))
			for _, c := range s.Body.List {
				cc := c.(*ast.CaseClause)
				var es []string
				for _, e := range cc.List {
					es = append(es, exprString(e))
				}
				*out = append(*out, fmt.Sprintf("%d:case %s", depth+1, strings.Join(es, ", ")))
				ioRender(cc.Body, depth+2, out)
			}
		case *ast.BlockStmt:
			add("{")
			ioRender(s.List, depth+1, out)
		default:
			add(ioStmt(st))
		}
	}
}

func ioStmt(st ast.Stmt) string {
	switch s := st.(type) {
	case nil:
		return ""
	case *ast.DeferStmt:
		return "defer " + exprString(s.Call)
	case *ast.GoStmt:
		return "go " + exprString(s.Call)
	case *ast.ReturnStmt:
		var rs []string
		for _, r := range s.Results {
			rs = append(rs, exprString(r))
		}
		return strings.TrimSpace("return " + strings.Join(rs, ", "))
	case *ast.DeclStmt:
		if gd, ok := s.Decl.(*ast.GenDecl); ok {
			var parts []string
			for _, sp := range gd.Specs {
				if vs, ok := sp.(*ast.ValueSpec); ok {
					var ns []string
					for _, n := range vs.Names {
						ns = append(ns, n.Name)
					}
					p := strings.Join(ns, ", ") + " " + exprString(vs.Type)
					if len(vs.Values) > 0 {
						var vals []string
						for _, v := range vs.Values {
							vals = append(vals, exprString(v))
						}
						p += " = " + strings.Join(vals, ", ")
					}
					parts = append(parts, strings.TrimSpace(p))
				}
			}
			return gd.Tok.String() + " " + strings.Join(parts, "; ")
		}
		return "decl"
	case *ast.IncDecStmt:
		return exprString(s.X) + s.Tok.String()
	case *ast.BranchStmt:
		return s.Tok.String()
	case *ast.SendStmt:
		return exprString(s.Chan) + " <- " + exprString(s.Value)
	case *ast.AssignStmt, *ast.ExprStmt:
		return stmtString(st)
	}
	return fmt.Sprintf("<%T>", st)
}

func genIoFacts() (string, int, error) {
	var sb strings.Builder
	sb.WriteString("namespace ZapVerif.Gen\n\n")
	rows := 0
	for _, spec := range ioSpecs {
		_, f, err := parseFile(spec.file)
		if err != nil {
			return "", 0, err
		}
		fd := findFunc(f, spec.recv, spec.fn)
		if fd == nil || fd.Body == nil {
			return "", 0, fmt.Errorf("%s: func %s.%s not found", spec.file, spec.recv, spec.fn)
		}
		var all []string
		ioRender(fd.Body.List, 0, &all)
		var lines []string
		for _, l := range all {
			if strings.Contains(l, "<*ast.") {
				return "", 0, fmt.Errorf("%s.%s: statement shape not understood: %s", spec.recv, spec.fn, l)
			}
			if len(spec.keep) == 0 {
				lines = append(lines, l)
				continue
			}
			for _, k := range spec.keep {
				if strings.Contains(l, k) {
					lines = append(lines, l)
					break
				}
			}
		}
		fmt.Fprintf(&sb, "/-- statements of %s in source order (depth:text) -/\ndef %s : List String := [\n", spec.doc, spec.name)
		for i, c := range lines {
			sep := ","
			if i == len(lines)-1 {
				sep = ""
			}
			fmt.Fprintf(&sb, "  %q%s\n", c, sep)
			rows++
		}
		sb.WriteString("]\n\n")
	}
	sb.WriteString("end ZapVerif.Gen\n")
	return sb.String(), rows, nil
}
