package main

import (
	"fmt"
	"go/ast"
	"sort"
	"strings"
)

func init() {
	tables = append(tables, table{"JsonAdd", genJsonAdd})
}

// genJsonAdd reads every `func (enc *jsonEncoder) AddX(key, val)` of zapcore/json_encoder.go and classifies its body:
//
//	keyAppend X   : enc.addKey(key); [return] enc.AppendX(val)          (the model's `OC.prim k v` / obj / arr)
//	widen Y conv  : enc.AddY(k, conv(v))                                  (AddInt → AddInt64 …)
//	binary        : enc.AddString(key, base64.StdEncoding.EncodeToString(val))
//	reflected     : encode first, return the error before addKey, then addKey + buf.Write   (a failed reflection writes nothing)
//	namespace     : enc.addKey(key); enc.buf.AppendByte('{'); enc.openNamespaces++
//
// and likewise `AppendX(v)` one-liners that widen to AppendInt64 / AppendUint64 / appendFloat / appendComplex.
// Any other shape is a broken tie.
func genJsonAdd() (string, int, error) {
	_, f, err := parseFile("zapcore/json_encoder.go")
	if err != nil {
		return "", 0, err
	}
	type row struct{ name, kind, target, conv string }
	var rows []row
	call := func(e ast.Expr) (recvSel string, args []ast.Expr, ok bool) {
		c, ok := e.(*ast.CallExpr)
		if !ok {
			return "", nil, false
		}
		return exprString(c.Fun), c.Args, true
	}
	stmtCall := func(s ast.Stmt) (string, []ast.Expr, bool) {
		switch x := s.(type) {
		case *ast.ExprStmt:
			return call(x.X)
		case *ast.ReturnStmt:
			if len(x.Results) == 1 {
				return call(x.Results[0])
			}
		}
		return "", nil, false
	}
	for _, d := range f.Decls {
		fd, ok := d.(*ast.FuncDecl)
		if !ok || fd.Recv == nil || typeName(fd.Recv.List[0].Type) != "jsonEncoder" || fd.Body == nil {
			continue
		}
		name := fd.Name.Name
		isAdd := (strings.HasPrefix(name, "Add") && name != "AddTo") || name == "OpenNamespace"
		isApp := strings.HasPrefix(name, "Append")
		if !isAdd && !isApp {
			continue
		}
		body := fd.Body.List
		var params []string
		for _, p := range fd.Type.Params.List {
			for _, n := range p.Names {
				params = append(params, n.Name)
			}
		}
		bad := func(why string) (string, int, error) {
			return "", 0, fmt.Errorf("jsonEncoder.%s: unrecognised shape (%s)", name, why)
		}
		if isAdd {
			switch {
			case name == "AddReflected":
				// valueBytes, err := enc.encodeReflected(obj); if err != nil { return err }; enc.addKey(key); _, err = enc.buf.Write(valueBytes); return err
				if len(body) != 5 {
					return bad("AddReflected must be 5 statements")
				}
				as, ok := body[0].(*ast.AssignStmt)
				if !ok || len(as.Rhs) != 1 || !strings.HasPrefix(exprString(as.Rhs[0]), "enc.encodeReflected(") {
					return bad("first statement is not the encodeReflected call")
				}
				ifs, ok := body[1].(*ast.IfStmt)
				if !ok || exprString(ifs.Cond) != "err != nil" || len(ifs.Body.List) != 1 {
					return bad("error check does not directly follow encodeReflected")
				}
				if fn, args, ok := stmtCall(body[2]); !ok || fn != "enc.addKey" || len(args) != 1 || exprString(args[0]) != params[0] {
					return bad("addKey does not follow the error check")
				}
				rows = append(rows, row{name, "reflected", "", ""})
			case name == "OpenNamespace":
				if len(body) != 3 {
					return bad("OpenNamespace must be 3 statements")
				}
				fn0, a0, ok0 := stmtCall(body[0])
				fn1, a1, ok1 := stmtCall(body[1])
				inc, ok2 := body[2].(*ast.IncDecStmt)
				if !ok0 || fn0 != "enc.addKey" || len(a0) != 1 || !ok1 || fn1 != "enc.buf.AppendByte" || len(a1) != 1 || exprString(a1[0]) != "'{'" || !ok2 || exprString(inc.X) != "enc.openNamespaces" {
					return bad("not addKey; AppendByte('{'); openNamespaces++")
				}
				rows = append(rows, row{name, "namespace", "", ""})
			case len(body) == 2:
				fn0, a0, ok0 := stmtCall(body[0])
				fn1, a1, ok1 := stmtCall(body[1])
				if !ok0 || fn0 != "enc.addKey" || len(a0) != 1 || exprString(a0[0]) != params[0] {
					return bad("first statement is not enc.addKey(key)")
				}
				if !ok1 || !strings.HasPrefix(fn1, "enc.Append") || len(a1) != 1 || exprString(a1[0]) != params[1] {
					return bad("second statement is not enc.AppendX(val)")
				}
				if strings.TrimPrefix(fn1, "enc.Append") != strings.TrimPrefix(name, "Add") {
					return bad("AddX appends through " + fn1)
				}
				rows = append(rows, row{name, "keyAppend", strings.TrimPrefix(fn1, "enc."), ""})
			case len(body) == 1:
				fn, args, ok := stmtCall(body[0])
				if !ok || !strings.HasPrefix(fn, "enc.Add") || len(args) != 2 || exprString(args[0]) != params[0] {
					return bad("one-liner is not enc.AddY(key, …)")
				}
				conv := exprString(args[1])
				if name == "AddBinary" {
					if fn != "enc.AddString" || conv != "base64.StdEncoding.EncodeToString("+params[1]+")" {
						return bad("AddBinary is not AddString(key, base64.StdEncoding.EncodeToString(val))")
					}
					rows = append(rows, row{name, "binary", "AddString", ""})
				} else {
					c, ok := args[1].(*ast.CallExpr)
					if !ok || len(c.Args) != 1 || exprString(c.Args[0]) != params[1] {
						return bad("widening argument is not conv(val)")
					}
					rows = append(rows, row{name, "widen", strings.TrimPrefix(fn, "enc."), exprString(c.Fun)})
				}
			default:
				return bad(fmt.Sprintf("%d statements", len(body)))
			}
		} else if len(body) == 1 {
			// AppendX one-liners: widening to AppendInt64/AppendUint64/appendFloat/appendComplex
			fn, args, ok := stmtCall(body[0])
			if ok && (strings.HasPrefix(fn, "enc.Append") || fn == "enc.appendFloat" || fn == "enc.appendComplex") && len(args) >= 1 {
				conv := exprString(args[0])
				extra := ""
				if len(args) == 2 {
					extra = exprString(args[1])
				}
				rows = append(rows, row{name, "appendWiden", strings.TrimPrefix(fn, "enc."), conv + ";" + extra})
			}
		}
	}
	sort.Slice(rows, func(i, j int) bool { return rows[i].name < rows[j].name })
	var sb strings.Builder
	sb.WriteString("namespace ZapVerif.Gen\n\n")
	sb.WriteString("/-- how each `jsonEncoder.AddX` / one-line `AppendX` is implemented (read from zapcore/json_encoder.go):\n    (method, kind, target method, conversion) -/\n")
	sb.WriteString("def jsonAdd : List (String × String × String × String) := [\n")
	for i, r := range rows {
		sep := ","
		if i == len(rows)-1 {
			sep = ""
		}
		fmt.Fprintf(&sb, "  (%q, %q, %q, %q)%s\n", r.name, r.kind, r.target, r.conv, sep)
	}
	sb.WriteString("]\n\nend ZapVerif.Gen\n")
	return sb.String(), len(rows), nil
}
