package main

import (
	"encoding/hex"
	"fmt"
	"go/ast"
	"go/token"
	"strconv"
	"strings"
)

func init() {
	tables = append(tables, table{"LevelText", genLevelText})
}

var levelConst = map[string]int{"DebugLevel": -1, "InfoLevel": 0, "WarnLevel": 1, "ErrorLevel": 2, "DPanicLevel": 3, "PanicLevel": 4, "FatalLevel": 5}

// genLevelText: (dynamic) String/CapitalString/MarshalText of all 256 level values, and
// (static) the `unmarshalText` switch of zapcore/level.go: case "name", …: *l = XLevel ; default: return false.
func genLevelText() (string, int, error) {
	d, err := dump("LevelText")
	if err != nil {
		return "", 0, err
	}
	var sb strings.Builder
	sb.WriteString("namespace ZapVerif.Gen\n\n")
	sb.WriteString("/-- (level, String, CapitalString, MarshalText or none on error) for all 256 values of zapcore.Level -/\n")
	rows := 0
	lines := strings.Split(strings.TrimSpace(d), "\n")
	var names []string
	for i, ln := range lines {
		var l int
		var s, c, m string
		if _, err := fmt.Sscanf(ln, "%d %s %s %s", &l, &s, &c, &m); err != nil {
			return "", 0, fmt.Errorf("bad dump line %q", ln)
		}
		unh := func(x string) []byte {
			if x == "-" {
				return nil
			}
			b, _ := hex.DecodeString(x)
			return b
		}
		ms := "none"
		if m != "!" {
			ms = "some " + leanBytes(unh(m))
		}
		// one small def per row: a single 256-row literal exhausts the elaborator's heartbeats
		fmt.Fprintf(&sb, "def lt%d : Int × List Nat × List Nat × Option (List Nat) := (%s, %s, %s, %s)\n", i, leanInt(l), leanBytes(unh(s)), leanBytes(unh(c)), ms)
		names = append(names, fmt.Sprintf("lt%d", i))
		rows++
	}
	sb.WriteString("\ndef levelTextN : List (Int × List Nat × List Nat × Option (List Nat)) := [\n  " + strings.Join(names, ", ") + "]\n")
	sb.WriteString("\ndef levelText : List (Int × List UInt8 × List UInt8 × Option (List UInt8)) :=\n  levelTextN.map fun (l, s, c, m) => (l, s.map UInt8.ofNat, c.map UInt8.ofNat, m.map (·.map UInt8.ofNat))\n\n")

	_, f, err := parseFile("zapcore/level.go")
	if err != nil {
		return "", 0, err
	}
	fd := findFunc(f, "Level", "unmarshalText")
	if fd == nil {
		return "", 0, fmt.Errorf("func (*Level) unmarshalText not found")
	}
	var sw *ast.SwitchStmt
	for _, st := range fd.Body.List {
		if s, ok := st.(*ast.SwitchStmt); ok {
			sw = s
		}
	}
	if sw == nil {
		return "", 0, fmt.Errorf("unmarshalText: no switch statement")
	}
	sb.WriteString("/-- the `unmarshalText` switch: exact text ↦ level; anything else is rejected (`default: return false`) -/\n")
	sb.WriteString("def levelNamesN : List (List Nat × Int) := [\n")
	var ents []string
	sawDefault := false
	for _, cc := range sw.Body.List {
		c := cc.(*ast.CaseClause)
		if c.List == nil {
			sawDefault = true
			if len(c.Body) != 1 {
				return "", 0, fmt.Errorf("unmarshalText: default arm is not a single `return false`")
			}
			rs, ok := c.Body[0].(*ast.ReturnStmt)
			if !ok || len(rs.Results) != 1 || exprString(rs.Results[0]) != "false" {
				return "", 0, fmt.Errorf("unmarshalText: default arm is not `return false`")
			}
			continue
		}
		if len(c.Body) != 1 {
			return "", 0, fmt.Errorf("unmarshalText: case arm is not a single assignment")
		}
		as, ok := c.Body[0].(*ast.AssignStmt)
		if !ok || len(as.Lhs) != 1 || len(as.Rhs) != 1 || exprString(as.Lhs[0]) != "*l" || as.Tok != token.ASSIGN {
			return "", 0, fmt.Errorf("unmarshalText: case arm is not `*l = XLevel`")
		}
		lv, ok := levelConst[exprString(as.Rhs[0])]
		if !ok {
			return "", 0, fmt.Errorf("unmarshalText: unknown level constant %s", exprString(as.Rhs[0]))
		}
		for _, e := range c.List {
			bl, ok := e.(*ast.BasicLit)
			if !ok || bl.Kind != token.STRING {
				return "", 0, fmt.Errorf("unmarshalText: case label is not a string literal")
			}
			s, err := strconv.Unquote(bl.Value)
			if err != nil {
				return "", 0, err
			}
			ents = append(ents, fmt.Sprintf("  (%s, %s)", leanBytes([]byte(s)), leanInt(lv)))
			rows++
		}
	}
	if !sawDefault {
		return "", 0, fmt.Errorf("unmarshalText: no default arm")
	}
	sb.WriteString(strings.Join(ents, ",\n"))
	sb.WriteString("\n]\n\ndef levelNames : List (List UInt8 × Int) := levelNamesN.map fun (t, l) => (t.map UInt8.ofNat, l)\n\nend ZapVerif.Gen\n")
	return sb.String(), rows, nil
}

func exprString(e ast.Expr) string {
	switch x := e.(type) {
	case *ast.Ident:
		return x.Name
	case *ast.StarExpr:
		return "*" + exprString(x.X)
	case *ast.SelectorExpr:
		return exprString(x.X) + "." + x.Sel.Name
	case *ast.BasicLit:
		return x.Value
	case *ast.CallExpr:
		var as []string
		for _, a := range x.Args {
			as = append(as, exprString(a))
		}
		return exprString(x.Fun) + "(" + strings.Join(as, ", ") + ")"
	case *ast.ParenExpr:
		return "(" + exprString(x.X) + ")"
	case *ast.UnaryExpr:
		return x.Op.String() + exprString(x.X)
	case *ast.BinaryExpr:
		return exprString(x.X) + " " + x.Op.String() + " " + exprString(x.Y)
	case *ast.IndexExpr:
		return exprString(x.X) + "[" + exprString(x.Index) + "]"
	case *ast.TypeAssertExpr:
		if x.Type == nil {
			return exprString(x.X) + ".(type)"
		}
		return exprString(x.X) + ".(" + exprString(x.Type) + ")"
	case *ast.ArrayType:
		return "[]" + exprString(x.Elt)
	case *ast.InterfaceType:
		return "interface{}"
	case *ast.CompositeLit:
		return exprString(x.Type) + "{…}"
	case *ast.FuncLit:
		return "func{…}"
	case *ast.SliceExpr:
		return exprString(x.X) + "[:]"
	case *ast.KeyValueExpr:
		return exprString(x.Key) + ": " + exprString(x.Value)
	case *ast.MapType:
		return "map[" + exprString(x.Key) + "]" + exprString(x.Value)
	case *ast.Ellipsis:
		return "..." + exprString(x.Elt)
	case *ast.FuncType:
		return "func"
	case nil:
		return ""
	}
	return fmt.Sprintf("<%T>", e)
}
