package main

import (
	"fmt"
	"go/ast"
	"go/token"
	"strconv"
	"strings"
)

func init() {
	tables = append(tables, table{"LevelColor", genLevelColor})
}

// genLevelColor (static): everything the colour level encoders depend on.
//
//	internal/color/color.go   const block `Black Color = iota + 30 …`  → colorValues
//	                          func (c Color) Add(s string) string { return fmt.Sprintf("<pre>%d<mid>%s<suf>", uint8(c), s) }
//	                                                                  → colorAddPre / colorAddMid / colorAddSuf
//	zapcore/level_strings.go  _levelToColor = map[Level]color.Color{…} → levelToColor (level value ↦ colour value)
//	                          _unknownLevelColor = color.X            → unknownLevelColor
//	                          init(): for level, color := range _levelToColor { M[level] = color.Add(level.F()) … }
//	                                                                  → levelColorInit (map name ↦ text method)
//
// Any other source shape is an error: the table is removed and the tie is reported broken.
func genLevelColor() (string, int, error) {
	rows := 0
	// ---- internal/color/color.go
	_, cf, err := parseFile("internal/color/color.go")
	if err != nil {
		return "", 0, err
	}
	colorVal := map[string]int{}
	var colorOrder []string
	for _, d := range cf.Decls {
		gd, ok := d.(*ast.GenDecl)
		if !ok || gd.Tok != token.CONST {
			continue
		}
		base := -1
		for i, sp := range gd.Specs {
			vs := sp.(*ast.ValueSpec)
			if i == 0 {
				if len(vs.Names) != 1 || len(vs.Values) != 1 || typeName(vs.Type) != "Color" {
					return "", 0, fmt.Errorf("color.go: first constant is not `X Color = iota + N`")
				}
				be, ok := vs.Values[0].(*ast.BinaryExpr)
				if !ok || be.Op != token.ADD || exprString(be.X) != "iota" {
					return "", 0, fmt.Errorf("color.go: first constant is not `iota + N` (got %s)", exprString(vs.Values[0]))
				}
				bl, ok := be.Y.(*ast.BasicLit)
				if !ok || bl.Kind != token.INT {
					return "", 0, fmt.Errorf("color.go: iota offset is not an integer literal")
				}
				base, err = strconv.Atoi(bl.Value)
				if err != nil {
					return "", 0, err
				}
			} else if len(vs.Values) != 0 || vs.Type != nil || len(vs.Names) != 1 {
				return "", 0, fmt.Errorf("color.go: constant %d of the block is not an implicit repetition", i)
			}
			colorVal[vs.Names[0].Name] = base + i
			colorOrder = append(colorOrder, vs.Names[0].Name)
		}
	}
	if len(colorOrder) == 0 {
		return "", 0, fmt.Errorf("color.go: no colour constants found")
	}
	for _, n := range colorOrder {
		if colorVal[n] < 0 || colorVal[n] > 255 {
			return "", 0, fmt.Errorf("color.go: %s = %d does not fit uint8", n, colorVal[n])
		}
	}
	add := findFunc(cf, "Color", "Add")
	if add == nil || len(add.Body.List) != 1 {
		return "", 0, fmt.Errorf("color.go: func (Color) Add is not a single return")
	}
	rs, ok := add.Body.List[0].(*ast.ReturnStmt)
	if !ok || len(rs.Results) != 1 {
		return "", 0, fmt.Errorf("color.go: Add does not return one value")
	}
	call, ok := rs.Results[0].(*ast.CallExpr)
	if !ok || exprString(call.Fun) != "fmt.Sprintf" || len(call.Args) != 3 {
		return "", 0, fmt.Errorf("color.go: Add is not fmt.Sprintf(format, a, b)")
	}
	recvName := add.Recv.List[0].Names[0].Name
	argName := add.Type.Params.List[0].Names[0].Name
	if exprString(call.Args[1]) != "uint8("+recvName+")" || exprString(call.Args[2]) != argName {
		return "", 0, fmt.Errorf("color.go: Add's Sprintf arguments are not (uint8(%s), %s): %s, %s", recvName, argName, exprString(call.Args[1]), exprString(call.Args[2]))
	}
	fl, ok := call.Args[0].(*ast.BasicLit)
	if !ok || fl.Kind != token.STRING {
		return "", 0, fmt.Errorf("color.go: Add's format is not a string literal")
	}
	format, err := strconv.Unquote(fl.Value)
	if err != nil {
		return "", 0, err
	}
	if strings.Count(format, "%") != 2 {
		return "", 0, fmt.Errorf("color.go: Add's format %q does not have exactly two verbs", format)
	}
	i1 := strings.Index(format, "%d")
	i2 := strings.Index(format, "%s")
	if i1 < 0 || i2 < 0 || i1 > i2 {
		return "", 0, fmt.Errorf("color.go: Add's format %q is not <pre>%%d<mid>%%s<suf>", format)
	}
	pre, mid, suf := format[:i1], format[i1+2:i2], format[i2+2:]

	// ---- zapcore/level_strings.go
	_, lf, err := parseFile("zapcore/level_strings.go")
	if err != nil {
		return "", 0, err
	}
	colorOf := func(e ast.Expr) (int, string, error) {
		se, ok := e.(*ast.SelectorExpr)
		if !ok || exprString(se.X) != "color" {
			return 0, "", fmt.Errorf("level_strings.go: %s is not a color.X constant", exprString(e))
		}
		v, ok := colorVal[se.Sel.Name]
		if !ok {
			return 0, "", fmt.Errorf("level_strings.go: unknown colour color.%s", se.Sel.Name)
		}
		return v, se.Sel.Name, nil
	}
	type lc struct {
		lvl   int
		color int
		names string
	}
	var l2c []lc
	unknown, unknownName := -1, ""
	for _, d := range lf.Decls {
		gd, ok := d.(*ast.GenDecl)
		if !ok || gd.Tok != token.VAR {
			continue
		}
		for _, sp := range gd.Specs {
			vs := sp.(*ast.ValueSpec)
			for i, n := range vs.Names {
				if i >= len(vs.Values) {
					continue
				}
				switch n.Name {
				case "_levelToColor":
					cl, ok := vs.Values[i].(*ast.CompositeLit)
					if !ok || exprString(cl.Type) != "map[Level]color.Color" {
						return "", 0, fmt.Errorf("level_strings.go: _levelToColor is not a map[Level]color.Color literal")
					}
					for _, el := range cl.Elts {
						kv, ok := el.(*ast.KeyValueExpr)
						if !ok {
							return "", 0, fmt.Errorf("level_strings.go: _levelToColor element is not key: value")
						}
						lv, ok := levelConst[exprString(kv.Key)]
						if !ok {
							return "", 0, fmt.Errorf("level_strings.go: unknown level constant %s", exprString(kv.Key))
						}
						cv, cn, err := colorOf(kv.Value)
						if err != nil {
							return "", 0, err
						}
						l2c = append(l2c, lc{lv, cv, exprString(kv.Key) + ":" + cn})
					}
				case "_unknownLevelColor":
					cv, cn, err := colorOf(vs.Values[i])
					if err != nil {
						return "", 0, err
					}
					unknown, unknownName = cv, cn
				}
			}
		}
	}
	if len(l2c) == 0 || unknown < 0 {
		return "", 0, fmt.Errorf("level_strings.go: _levelToColor / _unknownLevelColor not found")
	}
	seen := map[int]bool{}
	for _, x := range l2c {
		if seen[x.lvl] {
			return "", 0, fmt.Errorf("level_strings.go: duplicate level %d in _levelToColor", x.lvl)
		}
		seen[x.lvl] = true
	}
	ini := findFunc(lf, "", "init")
	if ini == nil || len(ini.Body.List) != 1 {
		return "", 0, fmt.Errorf("level_strings.go: init is not a single range loop")
	}
	rg, ok := ini.Body.List[0].(*ast.RangeStmt)
	if !ok || exprString(rg.X) != "_levelToColor" || exprString(rg.Key) != "level" || exprString(rg.Value) != "color" {
		return "", 0, fmt.Errorf("level_strings.go: init does not range `level, color` over _levelToColor")
	}
	var inits [][2]string
	for _, st := range rg.Body.List {
		as, ok := st.(*ast.AssignStmt)
		if !ok || as.Tok != token.ASSIGN || len(as.Lhs) != 1 || len(as.Rhs) != 1 {
			return "", 0, fmt.Errorf("level_strings.go: init loop statement is not an assignment")
		}
		ix, ok := as.Lhs[0].(*ast.IndexExpr)
		if !ok || exprString(ix.Index) != "level" {
			return "", 0, fmt.Errorf("level_strings.go: init assigns to %s, not M[level]", exprString(as.Lhs[0]))
		}
		rhs := exprString(as.Rhs[0])
		var method string
		switch rhs {
		case "color.Add(level.String())":
			method = "String"
		case "color.Add(level.CapitalString())":
			method = "CapitalString"
		default:
			return "", 0, fmt.Errorf("level_strings.go: init stores %s, not color.Add(level.String()/CapitalString())", rhs)
		}
		inits = append(inits, [2]string{exprString(ix.X), method})
	}

	var sb strings.Builder
	sb.WriteString("namespace ZapVerif.Gen\n\n")
	sb.WriteString("/-- internal/color: the colour constants (`iota + N` block) -/\n")
	sb.WriteString("def colorValues : List (String × Nat) := [")
	for i, n := range colorOrder {
		if i > 0 {
			sb.WriteString(", ")
		}
		fmt.Fprintf(&sb, "(%q, %d)", n, colorVal[n])
		rows++
	}
	sb.WriteString("]\n\n")
	sb.WriteString("/-- `Color.Add(s)` = fmt.Sprintf(pre ++ \"%d\" ++ mid ++ \"%s\" ++ suf, uint8(c), s) -/\n")
	fmt.Fprintf(&sb, "def colorAddPreN : List Nat := %s\ndef colorAddMidN : List Nat := %s\ndef colorAddSufN : List Nat := %s\n", leanBytes([]byte(pre)), leanBytes([]byte(mid)), leanBytes([]byte(suf)))
	sb.WriteString("def colorAddPre : List UInt8 := colorAddPreN.map UInt8.ofNat\ndef colorAddMid : List UInt8 := colorAddMidN.map UInt8.ofNat\ndef colorAddSuf : List UInt8 := colorAddSufN.map UInt8.ofNat\n\n")
	rows += 3
	sb.WriteString("/-- zapcore `_levelToColor`: level value ↦ colour value (source order) -/\n")
	sb.WriteString("def levelToColor : List (Int × Nat) := [")
	for i, x := range l2c {
		if i > 0 {
			sb.WriteString(", ")
		}
		fmt.Fprintf(&sb, "(%s, %d)", leanInt(x.lvl), x.color)
		rows++
	}
	sb.WriteString("]\n")
	sb.WriteString("def levelToColorNames : List String := [")
	for i, x := range l2c {
		if i > 0 {
			sb.WriteString(", ")
		}
		fmt.Fprintf(&sb, "%q", x.names)
	}
	sb.WriteString("]\n\n")
	fmt.Fprintf(&sb, "/-- zapcore `_unknownLevelColor` (color.%s) -/\ndef unknownLevelColor : Nat := %d\ndef unknownLevelColorName : String := %q\n\n", unknownName, unknown, unknownName)
	rows++
	sb.WriteString("/-- zapcore level_strings.go init(): for every entry of `_levelToColor`, map ↦ the Level method whose text is coloured -/\n")
	sb.WriteString("def levelColorInit : List (String × String) := [")
	for i, x := range inits {
		if i > 0 {
			sb.WriteString(", ")
		}
		fmt.Fprintf(&sb, "(%q, %q)", x[0], x[1])
		rows++
	}
	sb.WriteString("]\n\nend ZapVerif.Gen\n")
	return sb.String(), rows, nil
}
