// zvmut — enumerate first-order mutants of Go source files (go/parser + go/ast only; no type information).
//
//	zvmut -repo /repo file.go [file.go …]      → one JSON object per mutant on stdout, deterministic order
//
// A mutant is a byte-range replacement in ONE file: {file, start, end, repl, line, col, kind, desc, func, n}.
// The driver (bin/mutsweep) applies it textually, so the rest of the file keeps its formatting and the unified
// diff is minimal. Mutants that do not compile are expected and are discarded by the driver.
//
// Kinds: cmp (< ↔ <=, > ↔ >=, == ↔ !=), logic (&& ↔ ||), neg (negated if/for condition), const (integer literal
// ±1, 0↔1), arith (+ ↔ -, += ↔ -=, ++ ↔ --), rmstmt (removed assignment / call / defer / inc-dec), reterr
// (`return …, err` → `return …, nil`), swapargs (two neighbouring arguments whose parameters have the same declared
// type, callee declared in the same package), rmbranch (break / continue removed), slice (x[a:b] → x[a+1:b],
// x[a:b-1]).
//
// Skipped: generated files, func init, import/type declarations, struct tags, arguments of panic(…),
// capacity arguments of make, label-only statements.
package main

import (
	"encoding/json"
	"flag"
	"fmt"
	"go/ast"
	"go/parser"
	"go/token"
	"os"
	"path/filepath"
	"sort"
	"strconv"
	"strings"
)

type Mutant struct {
	File  string `json:"file"`
	N     int    `json:"n"` // index within the file (stable as long as the file is unchanged)
	Start int    `json:"start"`
	End   int    `json:"end"`
	Repl  string `json:"repl"`
	Orig  string `json:"orig"`
	Line  int    `json:"line"`
	Col   int    `json:"col"`
	Kind  string `json:"kind"`
	Desc  string `json:"desc"`
	Func  string `json:"func"`
	seq   int
}

type ctx struct {
	fset *token.FileSet
	src  []byte
	file string
	out  []Mutant
	fn   string
	// name → positions (0-based) i such that parameters i and i+1 have the same declared type in EVERY
	// declaration of that name in the package
	sameTyped map[string]map[int]bool
	funcType  *ast.FuncType // enclosing function type (for reterr)
}

func (c *ctx) off(p token.Pos) int { return c.fset.Position(p).Offset }
func (c *ctx) text(n ast.Node) string {
	return string(c.src[c.off(n.Pos()):c.off(n.End())])
}

func oneLine(s string) string {
	s = strings.Join(strings.Fields(s), " ")
	if len(s) > 70 {
		s = s[:67] + "..."
	}
	return s
}

func (c *ctx) add(kind string, start, end token.Pos, repl, desc string) {
	p := c.fset.Position(start)
	c.out = append(c.out, Mutant{File: c.file, Start: p.Offset, End: c.off(end), Repl: repl,
		Orig: string(c.src[p.Offset:c.off(end)]), Line: p.Line, Col: p.Column, Kind: kind, Desc: desc, Func: c.fn, seq: len(c.out)})
}

var cmpFlip = map[token.Token]token.Token{token.LSS: token.LEQ, token.LEQ: token.LSS, token.GTR: token.GEQ, token.GEQ: token.GTR,
	token.EQL: token.NEQ, token.NEQ: token.EQL}

func isCall(e ast.Expr, name string) bool {
	ce, ok := e.(*ast.CallExpr)
	if !ok {
		return false
	}
	id, ok := ce.Fun.(*ast.Ident)
	return ok && id.Name == name
}

func calleeName(ce *ast.CallExpr) string {
	switch f := ce.Fun.(type) {
	case *ast.Ident:
		return f.Name
	case *ast.SelectorExpr:
		return f.Sel.Name
	}
	return ""
}

// statement list walker: removal mutants need to know the statement is a member of a block / case body
func (c *ctx) stmts(list []ast.Stmt) {
	for _, s := range list {
		switch st := s.(type) {
		case *ast.ExprStmt:
			// (removing a panic call is a legitimate mutant; only its arguments are never touched)
			c.add("rmstmt", st.Pos(), st.End(), "", "remove call `"+oneLine(c.text(st))+"`")
		case *ast.AssignStmt:
			if st.Tok != token.DEFINE {
				c.add("rmstmt", st.Pos(), st.End(), "", "remove assignment `"+oneLine(c.text(st))+"`")
			}
		case *ast.IncDecStmt:
			c.add("rmstmt", st.Pos(), st.End(), "", "remove `"+oneLine(c.text(st))+"`")
		case *ast.DeferStmt:
			c.add("rmstmt", st.Pos(), st.End(), "", "remove `"+oneLine(c.text(st))+"`")
		case *ast.BranchStmt:
			if st.Tok == token.BREAK || st.Tok == token.CONTINUE {
				c.add("rmbranch", st.Pos(), st.End(), "", "remove `"+c.text(st)+"`")
			}
		case *ast.ReturnStmt:
			c.reterr(st)
		}
	}
}

func (c *ctx) reterr(st *ast.ReturnStmt) {
	ft := c.funcType
	if ft == nil || ft.Results == nil || len(st.Results) == 0 {
		return
	}
	rs := ft.Results.List
	last := rs[len(rs)-1]
	if id, ok := last.Type.(*ast.Ident); !ok || id.Name != "error" {
		return
	}
	nres := 0
	for _, f := range rs {
		if len(f.Names) == 0 {
			nres++
		} else {
			nres += len(f.Names)
		}
	}
	if len(st.Results) != nres {
		return // return f() forwarding several results
	}
	e := st.Results[len(st.Results)-1]
	if id, ok := e.(*ast.Ident); ok && id.Name == "nil" {
		return
	}
	c.add("reterr", e.Pos(), e.End(), "nil", "return nil instead of error `"+oneLine(c.text(e))+"`")
}

func (c *ctx) visit(n ast.Node) bool {
	switch x := n.(type) {
	case *ast.GenDecl:
		if x.Tok == token.IMPORT || x.Tok == token.TYPE {
			return false
		}
	case *ast.FuncDecl:
		if x.Name.Name == "init" && x.Recv == nil {
			return false
		}
		if x.Body == nil {
			return false
		}
		prevFn, prevFt := c.fn, c.funcType
		c.fn = x.Name.Name
		if x.Recv != nil && len(x.Recv.List) == 1 {
			c.fn = recvName(x.Recv.List[0].Type) + "." + x.Name.Name
		}
		c.funcType = x.Type
		ast.Inspect(x.Body, c.visit)
		c.fn, c.funcType = prevFn, prevFt
		return false
	case *ast.FuncLit:
		prevFt := c.funcType
		c.funcType = x.Type
		ast.Inspect(x.Body, c.visit)
		c.funcType = prevFt
		return false
	case *ast.BlockStmt:
		c.stmts(x.List)
	case *ast.CaseClause:
		c.stmts(x.Body)
	case *ast.CommClause:
		c.stmts(x.Body)
	case *ast.StructType, *ast.InterfaceType, *ast.ArrayType:
		return false // array lengths, field tags and method sets carry no mutable code
	case *ast.IfStmt:
		c.neg(x.Cond)
	case *ast.ForStmt:
		if x.Cond != nil {
			c.neg(x.Cond)
		}
	case *ast.BinaryExpr:
		if to, ok := cmpFlip[x.Op]; ok {
			c.add("cmp", x.OpPos, x.OpPos+token.Pos(len(x.Op.String())), to.String(),
				fmt.Sprintf("`%s` → `%s` in `%s`", x.Op, to, oneLine(c.text(x))))
		}
		switch x.Op {
		case token.LAND:
			c.add("logic", x.OpPos, x.OpPos+2, "||", "`&&` → `||` in `"+oneLine(c.text(x))+"`")
		case token.LOR:
			c.add("logic", x.OpPos, x.OpPos+2, "&&", "`||` → `&&` in `"+oneLine(c.text(x))+"`")
		case token.ADD:
			if !stringy(x.X) && !stringy(x.Y) {
				c.add("arith", x.OpPos, x.OpPos+1, "-", "`+` → `-` in `"+oneLine(c.text(x))+"`")
			}
		case token.SUB:
			c.add("arith", x.OpPos, x.OpPos+1, "+", "`-` → `+` in `"+oneLine(c.text(x))+"`")
		}
	case *ast.AssignStmt:
		switch x.Tok {
		case token.ADD_ASSIGN:
			if len(x.Rhs) == 1 && !stringy(x.Rhs[0]) {
				c.add("arith", x.TokPos, x.TokPos+2, "-=", "`+=` → `-=` in `"+oneLine(c.text(x))+"`")
			}
		case token.SUB_ASSIGN:
			c.add("arith", x.TokPos, x.TokPos+2, "+=", "`-=` → `+=` in `"+oneLine(c.text(x))+"`")
		}
	case *ast.IncDecStmt:
		if x.Tok == token.INC {
			c.add("arith", x.TokPos, x.TokPos+2, "--", "`++` → `--` in `"+oneLine(c.text(x))+"`")
		} else {
			c.add("arith", x.TokPos, x.TokPos+2, "++", "`--` → `++` in `"+oneLine(c.text(x))+"`")
		}
	case *ast.BasicLit:
		if x.Kind == token.INT {
			c.intLit(x)
		}
	case *ast.CallExpr:
		if isCall(x, "panic") {
			return false
		}
		if isCall(x, "make") && len(x.Args) == 3 {
			// visit everything but the capacity
			ast.Inspect(x.Args[1], c.visit)
			return false
		}
		c.swapArgs(x)
	case *ast.SliceExpr:
		c.slice(x)
	}
	return true
}

func stringy(e ast.Expr) bool {
	switch x := e.(type) {
	case *ast.BasicLit:
		return x.Kind == token.STRING
	case *ast.BinaryExpr:
		return x.Op == token.ADD && (stringy(x.X) || stringy(x.Y))
	case *ast.ParenExpr:
		return stringy(x.X)
	case *ast.CallExpr:
		if id, ok := x.Fun.(*ast.Ident); ok && id.Name == "string" {
			return true
		}
	}
	return false
}

func (c *ctx) neg(cond ast.Expr) {
	if be, ok := cond.(*ast.BinaryExpr); ok && (be.Op == token.EQL || be.Op == token.NEQ) {
		return // identical to the cmp flip
	}
	if ue, ok := cond.(*ast.UnaryExpr); ok && ue.Op == token.NOT {
		c.add("neg", ue.Pos(), ue.End(), c.text(ue.X), "negate condition `"+oneLine(c.text(cond))+"`")
		return
	}
	c.add("neg", cond.Pos(), cond.End(), "!("+c.text(cond)+")", "negate condition `"+oneLine(c.text(cond))+"`")
}

func (c *ctx) intLit(x *ast.BasicLit) {
	v, err := strconv.ParseInt(strings.ReplaceAll(x.Value, "_", ""), 0, 64)
	if err != nil {
		return
	}
	var alts []int64
	switch v {
	case 0:
		alts = []int64{1}
	case 1:
		alts = []int64{0, 2}
	default:
		alts = []int64{v + 1, v - 1}
	}
	for _, a := range alts {
		r := strconv.FormatInt(a, 10)
		if strings.HasPrefix(x.Value, "0x") || strings.HasPrefix(x.Value, "0X") {
			r = "0x" + strconv.FormatInt(a, 16)
		}
		c.add("const", x.Pos(), x.End(), r, fmt.Sprintf("integer constant %s → %s", x.Value, r))
	}
}

func (c *ctx) swapArgs(ce *ast.CallExpr) {
	if ce.Ellipsis != token.NoPos {
		return
	}
	name := calleeName(ce)
	st := c.sameTyped[name]
	if st == nil {
		return
	}
	for i := 0; i+1 < len(ce.Args); i++ {
		if !st[i] {
			continue
		}
		a, b := c.text(ce.Args[i]), c.text(ce.Args[i+1])
		if a == b {
			continue
		}
		c.add("swapargs", ce.Args[i].Pos(), ce.Args[i+1].End(), b+", "+a,
			fmt.Sprintf("swap arguments %d and %d of `%s`", i+1, i+2, oneLine(c.text(ce))))
	}
}

func (c *ctx) slice(x *ast.SliceExpr) {
	if x.Slice3 {
		return
	}
	xs := oneLine(c.text(x))
	if x.Low != nil {
		c.add("slice", x.Low.Pos(), x.Low.End(), "("+c.text(x.Low)+")+1", "slice low bound +1 in `"+xs+"`")
	} else {
		c.add("slice", x.Lbrack+1, x.Lbrack+1, "1", "slice low bound 0 → 1 in `"+xs+"`")
	}
	if x.High != nil {
		c.add("slice", x.High.Pos(), x.High.End(), "("+c.text(x.High)+")-1", "slice high bound -1 in `"+xs+"`")
	} else {
		switch x.X.(type) {
		case *ast.Ident, *ast.SelectorExpr:
			c.add("slice", x.Rbrack, x.Rbrack, "len("+c.text(x.X)+")-1", "slice high bound len → len-1 in `"+xs+"`")
		}
	}
}

func recvName(e ast.Expr) string {
	switch x := e.(type) {
	case *ast.StarExpr:
		return recvName(x.X)
	case *ast.Ident:
		return x.Name
	case *ast.IndexExpr:
		return recvName(x.X)
	case *ast.IndexListExpr:
		return recvName(x.X)
	}
	return "?"
}

func typeText(fset *token.FileSet, src []byte, e ast.Expr) string {
	return strings.Join(strings.Fields(string(src[fset.Position(e.Pos()).Offset:fset.Position(e.End()).Offset])), "")
}

// sameTypedParams scans every non-test file of the directory.
func sameTypedParams(dir string) map[string]map[int]bool {
	res := map[string]map[int]bool{}
	seen := map[string]int{}
	ents, _ := os.ReadDir(dir)
	for _, e := range ents {
		nm := e.Name()
		if !strings.HasSuffix(nm, ".go") || strings.HasSuffix(nm, "_test.go") {
			continue
		}
		p := filepath.Join(dir, nm)
		src, err := os.ReadFile(p)
		if err != nil {
			continue
		}
		fset := token.NewFileSet()
		f, err := parser.ParseFile(fset, p, src, parser.SkipObjectResolution)
		if err != nil {
			continue
		}
		record := func(name string, ft *ast.FuncType) {
			var types []string
			variadic := false
			for _, fl := range ft.Params.List {
				if _, ok := fl.Type.(*ast.Ellipsis); ok {
					variadic = true
				}
				t := typeText(fset, src, fl.Type)
				k := len(fl.Names)
				if k == 0 {
					k = 1
				}
				for j := 0; j < k; j++ {
					types = append(types, t)
				}
			}
			cur := map[int]bool{}
			for i := 0; i+1 < len(types); i++ {
				if types[i] == types[i+1] && !(variadic && i+1 == len(types)-1) && types[i] != "interface{}" && types[i] != "any" {
					cur[i] = true
				}
			}
			if seen[name] == 0 {
				res[name] = cur
			} else {
				for i := range res[name] {
					if !cur[i] {
						delete(res[name], i)
					}
				}
			}
			seen[name]++
		}
		for _, d := range f.Decls {
			switch x := d.(type) {
			case *ast.FuncDecl:
				record(x.Name.Name, x.Type)
			case *ast.GenDecl:
				for _, sp := range x.Specs {
					ts, ok := sp.(*ast.TypeSpec)
					if !ok {
						continue
					}
					if it, ok := ts.Type.(*ast.InterfaceType); ok {
						for _, m := range it.Methods.List {
							if ft, ok := m.Type.(*ast.FuncType); ok && len(m.Names) == 1 {
								record(m.Names[0].Name, ft)
							}
						}
					}
				}
			}
		}
	}
	return res
}

func main() {
	repo := flag.String("repo", "/repo", "root of the tree to read")
	flag.Parse()
	enc := json.NewEncoder(os.Stdout)
	enc.SetEscapeHTML(false)
	for _, rel := range flag.Args() {
		p := filepath.Join(*repo, rel)
		src, err := os.ReadFile(p)
		if err != nil {
			fmt.Fprintln(os.Stderr, "zvmut:", err)
			os.Exit(2)
		}
		head := src
		if len(head) > 400 {
			head = head[:400]
		}
		if strings.Contains(string(head), "Code generated") {
			fmt.Fprintln(os.Stderr, "zvmut: skipping generated file", rel)
			continue
		}
		fset := token.NewFileSet()
		f, err := parser.ParseFile(fset, p, src, parser.SkipObjectResolution)
		if err != nil {
			fmt.Fprintln(os.Stderr, "zvmut:", err)
			os.Exit(2)
		}
		c := &ctx{fset: fset, src: src, file: rel, sameTyped: sameTypedParams(filepath.Dir(p))}
		for _, d := range f.Decls {
			ast.Inspect(d, c.visit)
		}
		sort.SliceStable(c.out, func(i, j int) bool {
			a, b := c.out[i], c.out[j]
			if a.Start != b.Start {
				return a.Start < b.Start
			}
			if a.End != b.End {
				return a.End < b.End
			}
			if a.Kind != b.Kind {
				return a.Kind < b.Kind
			}
			return a.seq < b.seq
		})
		// drop exact duplicates (same range, same replacement)
		var prev *Mutant
		n := 0
		for i := range c.out {
			m := c.out[i]
			if prev != nil && prev.Start == m.Start && prev.End == m.End && prev.Repl == m.Repl {
				continue
			}
			n++
			m.N = n
			enc.Encode(m)
			prev = &c.out[i]
		}
	}
}
