package main

import (
	"bytes"
	"fmt"
	"go/ast"
	"go/parser"
	"go/printer"
	"go/token"
	"os"
	"path/filepath"
	"sort"
	"strings"
)

// Pools — C08.  Reads every object pool of zap (`pool.New(func() *T {…})`, the only way the tree makes a sync.Pool)
// and, per pool: the fields of T, the fields set by the constructor literal, the assignments made to the object on
// the get path (functions calling `<pool>.Get()`, with `v.m()` on the pooled variable inlined one level) and on the
// put path (before `<pool>.Put(v)`), and every call site of the put functions.  Every `x.Free()` / `x.put()` call of
// the tree must resolve (syntactically: parameter/receiver types, result types of the called function, struct field
// types) to one of the pooled types; otherwise — or when a Get/Put is written in a shape that is not understood —
// the table is removed and the tie `gen:Pools` is broken.
//
// Pure go/parser + go/ast (no type checker).

func init() {
	tables = append(tables, table{"Pools", genPools})
}

const plModule = "go.uber.org/zap"

type plPkg struct {
	dir     string // "." | "zapcore" | "internal/stacktrace" …
	name    string // display: "zap" for "."
	fset    *token.FileSet
	files   []*ast.File
	structs map[string]*ast.StructType
	funcs   []*ast.FuncDecl
	imports map[*ast.File]map[string]string // alias → dir
	vars    map[string]ast.Expr             // package-level `var x = expr`
	ifaces  map[string]*ast.InterfaceType
}

type plType struct{ dir, name string } // a named type of the tree ("" dir = not of this tree)

type plPool struct {
	pkg      *plPkg
	id       string
	varName  string // package-level variable, or "" for a wrapper field
	wrapType string // wrapper: the struct holding the pool …
	wrapFld  string // … in this field
	elem     string
	newSets  []string
	getFns   []string
	getSets  []plAsg
	putFns   []string
	putSets  []plAsg
	putCalls []string
	putSites []string
	putDecls []*ast.FuncDecl
}

type plAsg struct {
	field, rhs string
	always     bool
}

type plFree struct {
	fn, recv, origin string
	deferred         bool
	usesAfter        int
	ty               plType
	method           string
}

type plState struct {
	pkgs  map[string]*plPkg
	order []string
}

func plDisplay(dir string) string {
	if dir == "." {
		return "zap"
	}
	return dir
}

func (st *plState) load() error {
	st.pkgs = map[string]*plPkg{}
	skip := map[string]bool{".git": true, "benchmarks": true, "tools": true, "assets": true, "testdata": true}
	err := filepath.Walk(*repo, func(path string, info os.FileInfo, err error) error {
		if err != nil {
			return err
		}
		rel, _ := filepath.Rel(*repo, path)
		if info.IsDir() {
			if skip[info.Name()] || rel == "zapgrpc/internal/test" {
				return filepath.SkipDir
			}
			return nil
		}
		if !strings.HasSuffix(path, ".go") || strings.HasSuffix(path, "_test.go") {
			return nil
		}
		dir := filepath.Dir(rel)
		p := st.pkgs[dir]
		if p == nil {
			p = &plPkg{dir: dir, name: plDisplay(dir), fset: token.NewFileSet(), structs: map[string]*ast.StructType{},
				imports: map[*ast.File]map[string]string{}, vars: map[string]ast.Expr{}, ifaces: map[string]*ast.InterfaceType{}}
			st.pkgs[dir] = p
			st.order = append(st.order, dir)
		}
		f, err := parser.ParseFile(p.fset, path, nil, parser.ParseComments)
		if err != nil {
			return err
		}
		if f.Name.Name == "main" {
			return nil
		}
		p.files = append(p.files, f)
		imp := map[string]string{}
		for _, is := range f.Imports {
			ip := strings.Trim(is.Path.Value, `"`)
			if ip != plModule && !strings.HasPrefix(ip, plModule+"/") {
				continue
			}
			d := strings.TrimPrefix(strings.TrimPrefix(ip, plModule), "/")
			if d == "" {
				d = "."
			}
			alias := filepath.Base(ip)
			if is.Name != nil {
				alias = is.Name.Name
			}
			imp[alias] = d
		}
		p.imports[f] = imp
		for _, d := range f.Decls {
			switch x := d.(type) {
			case *ast.FuncDecl:
				p.funcs = append(p.funcs, x)
			case *ast.GenDecl:
				for _, s := range x.Specs {
					switch sp := s.(type) {
					case *ast.TypeSpec:
						switch t := sp.Type.(type) {
						case *ast.StructType:
							p.structs[sp.Name.Name] = t
						case *ast.InterfaceType:
							p.ifaces[sp.Name.Name] = t
						}
					case *ast.ValueSpec:
						if x.Tok == token.VAR && len(sp.Values) == len(sp.Names) {
							for i, n := range sp.Names {
								p.vars[n.Name] = sp.Values[i]
							}
						}
					}
				}
			}
		}
		return nil
	})
	sort.Strings(st.order)
	return err
}

func (p *plPkg) src(n ast.Node) string {
	var b bytes.Buffer
	_ = printer.Fprint(&b, p.fset, n)
	return strings.Join(strings.Fields(b.String()), " ")
}

func (p *plPkg) fileOf(n ast.Node) *ast.File {
	for _, f := range p.files {
		if f.Pos() <= n.Pos() && n.Pos() <= f.End() {
			return f
		}
	}
	return nil
}

func (p *plPkg) fnName(fd *ast.FuncDecl) string {
	if fd.Recv != nil && len(fd.Recv.List) == 1 {
		return fmt.Sprintf("%s.(%s).%s", p.name, typeName(fd.Recv.List[0].Type), fd.Name.Name)
	}
	return p.name + "." + fd.Name.Name
}

func recvName(fd *ast.FuncDecl) string {
	if fd.Recv != nil && len(fd.Recv.List) == 1 && len(fd.Recv.List[0].Names) == 1 {
		return fd.Recv.List[0].Names[0].Name
	}
	return ""
}

func recvType(fd *ast.FuncDecl) string {
	if fd.Recv != nil && len(fd.Recv.List) == 1 {
		return typeName(fd.Recv.List[0].Type)
	}
	return ""
}

func (p *plPkg) method(ty, name string) *ast.FuncDecl {
	for _, fd := range p.funcs {
		if fd.Name.Name == name && recvType(fd) == ty {
			return fd
		}
	}
	return nil
}

func isPoolNew(ce *ast.CallExpr) bool {
	f := ce.Fun
	if ix, ok := f.(*ast.IndexExpr); ok {
		f = ix.X
	}
	se, ok := f.(*ast.SelectorExpr)
	if !ok || se.Sel.Name != "New" {
		return false
	}
	id, ok := se.X.(*ast.Ident)
	return ok && id.Name == "pool"
}

// poolCtor reads `pool.New(func() *T { return &T{k: v, …} })`.
func poolCtor(ce *ast.CallExpr) (elem string, sets []string, err error) {
	if len(ce.Args) != 1 {
		return "", nil, fmt.Errorf("pool.New with %d arguments", len(ce.Args))
	}
	fl, ok := ce.Args[0].(*ast.FuncLit)
	if !ok || fl.Type.Results == nil || len(fl.Type.Results.List) != 1 {
		return "", nil, fmt.Errorf("pool.New argument is not a func literal with one result")
	}
	star, ok := fl.Type.Results.List[0].Type.(*ast.StarExpr)
	if !ok {
		return "", nil, fmt.Errorf("pool.New constructor does not return a pointer")
	}
	elem = typeName(star.X)
	var ret *ast.ReturnStmt
	for _, s := range fl.Body.List {
		switch x := s.(type) {
		case *ast.ReturnStmt:
			ret = x
		default:
			return "", nil, fmt.Errorf("pool.New constructor of %s has a statement other than return", elem)
		}
	}
	if ret == nil || len(ret.Results) != 1 {
		return "", nil, fmt.Errorf("pool.New constructor of %s: no single return", elem)
	}
	un, ok := ret.Results[0].(*ast.UnaryExpr)
	if !ok || un.Op != token.AND {
		return "", nil, fmt.Errorf("pool.New constructor of %s does not return &T{…}", elem)
	}
	cl, ok := un.X.(*ast.CompositeLit)
	if !ok || typeName(cl.Type) != elem {
		return "", nil, fmt.Errorf("pool.New constructor of %s does not return &%s{…}", elem, elem)
	}
	for _, e := range cl.Elts {
		kv, ok := e.(*ast.KeyValueExpr)
		if !ok {
			return "", nil, fmt.Errorf("pool.New constructor of %s uses positional fields", elem)
		}
		sets = append(sets, exprString(kv.Key))
	}
	return elem, sets, nil
}

func structFields(st *ast.StructType) []string {
	var out []string
	for _, f := range st.Fields.List {
		if len(f.Names) == 0 {
			n := typeName(f.Type)
			if i := strings.LastIndex(n, "."); i >= 0 {
				n = n[i+1:]
			}
			out = append(out, n)
			continue
		}
		for _, n := range f.Names {
			out = append(out, n.Name)
		}
	}
	return out
}

// isPoolCall matches `<pool>.<method>(…)` for this pool inside fd.
func (pl *plPool) isPoolCall(ce *ast.CallExpr, fd *ast.FuncDecl, method string) bool {
	se, ok := ce.Fun.(*ast.SelectorExpr)
	if !ok || se.Sel.Name != method {
		return false
	}
	if pl.varName != "" {
		id, ok := se.X.(*ast.Ident)
		return ok && id.Name == pl.varName
	}
	inner, ok := se.X.(*ast.SelectorExpr)
	if !ok || inner.Sel.Name != pl.wrapFld {
		return false
	}
	id, ok := inner.X.(*ast.Ident)
	return ok && recvType(fd) == pl.wrapType && id.Name == recvName(fd)
}

// fieldOfVar returns f when e is `v.f`.
func fieldOfVar(e ast.Expr, v string) string {
	se, ok := e.(*ast.SelectorExpr)
	if !ok {
		return ""
	}
	id, ok := se.X.(*ast.Ident)
	if !ok || id.Name != v {
		return ""
	}
	return se.Sel.Name
}

type plAcc struct {
	order []string
	rhs   map[string][]string
}

func (a *plAcc) add(f, rhs string) {
	if a.rhs == nil {
		a.rhs = map[string][]string{}
	}
	if _, ok := a.rhs[f]; !ok {
		a.order = append(a.order, f)
	}
	for _, r := range a.rhs[f] {
		if r == rhs {
			return
		}
	}
	a.rhs[f] = append(a.rhs[f], rhs)
}

// assignsIn collects, for the statements given, the fields of variable v assigned on every path (`always`) and on
// some path (`some`, a superset).  A statement `v.m()` is inlined when m is a method of the pooled type (depth 1).
func (p *plPkg) assignsIn(stmts []ast.Stmt, v, elem string, depth int, always map[string]bool, some *plAcc) {
	for _, s := range stmts {
		p.assignsStmt(s, v, elem, depth, always, some)
	}
}

func intersect(sets []map[string]bool) map[string]bool {
	out := map[string]bool{}
	if len(sets) == 0 {
		return out
	}
	for k := range sets[0] {
		in := true
		for _, s := range sets[1:] {
			if !s[k] {
				in = false
			}
		}
		if in {
			out[k] = true
		}
	}
	return out
}

func (p *plPkg) assignsStmt(s ast.Stmt, v, elem string, depth int, always map[string]bool, some *plAcc) {
	switch x := s.(type) {
	case *ast.AssignStmt:
		for i, l := range x.Lhs {
			if f := fieldOfVar(l, v); f != "" {
				rhs := "?"
				if len(x.Rhs) == len(x.Lhs) {
					rhs = p.src(x.Rhs[i])
				}
				if x.Tok != token.ASSIGN {
					rhs = x.Tok.String() + " " + rhs
				}
				always[f] = true
				some.add(f, rhs)
			}
		}
	case *ast.IncDecStmt:
		if f := fieldOfVar(x.X, v); f != "" {
			always[f] = true
			some.add(f, x.Tok.String())
		}
	case *ast.ExprStmt:
		ce, ok := x.X.(*ast.CallExpr)
		if !ok {
			return
		}
		se, ok := ce.Fun.(*ast.SelectorExpr)
		if !ok {
			return
		}
		if id, ok := se.X.(*ast.Ident); ok && id.Name == v && depth > 0 {
			if m := p.method(elem, se.Sel.Name); m != nil && m.Body != nil {
				p.assignsIn(m.Body.List, recvName(m), elem, depth-1, always, some)
			}
		}
	case *ast.BlockStmt:
		p.assignsIn(x.List, v, elem, depth, always, some)
	case *ast.IfStmt:
		var branches []map[string]bool
		complete := false
		var cur ast.Stmt = x
		for cur != nil {
			switch b := cur.(type) {
			case *ast.IfStmt:
				a := map[string]bool{}
				p.assignsIn(b.Body.List, v, elem, depth, a, some)
				branches = append(branches, a)
				cur = b.Else
			case *ast.BlockStmt:
				a := map[string]bool{}
				p.assignsIn(b.List, v, elem, depth, a, some)
				branches = append(branches, a)
				complete = true
				cur = nil
			default:
				cur = nil
			}
		}
		if complete {
			for k := range intersect(branches) {
				always[k] = true
			}
		}
	case *ast.SwitchStmt:
		var branches []map[string]bool
		hasDefault := false
		for _, c := range x.Body.List {
			cc := c.(*ast.CaseClause)
			if cc.List == nil {
				hasDefault = true
			}
			a := map[string]bool{}
			p.assignsIn(cc.Body, v, elem, depth, a, some)
			branches = append(branches, a)
		}
		if hasDefault {
			for k := range intersect(branches) {
				always[k] = true
			}
		}
	case *ast.ForStmt:
		p.assignsIn(x.Body.List, v, elem, depth, map[string]bool{}, some)
	case *ast.RangeStmt:
		p.assignsIn(x.Body.List, v, elem, depth, map[string]bool{}, some)
	case *ast.DeferStmt, *ast.ReturnStmt, *ast.DeclStmt, *ast.GoStmt, *ast.BranchStmt, *ast.EmptyStmt, *ast.LabeledStmt,
		*ast.TypeSwitchStmt, *ast.SelectStmt, *ast.SendStmt:
	}
}

func mkAsgs(always map[string]bool, some *plAcc) []plAsg {
	var out []plAsg
	for _, f := range some.order {
		out = append(out, plAsg{f, strings.Join(some.rhs[f], " | "), always[f]})
	}
	sort.Slice(out, func(i, j int) bool { return out[i].field < out[j].field })
	return out
}

// mentions reports whether identifier v occurs in n other than as the base of an assigned selector `v.f = …`.
func mentionsUse(n ast.Node, v string) bool {
	found := false
	var lhs map[ast.Expr]bool
	ast.Inspect(n, func(x ast.Node) bool {
		if as, ok := x.(*ast.AssignStmt); ok {
			if lhs == nil {
				lhs = map[ast.Expr]bool{}
			}
			for _, l := range as.Lhs {
				if fieldOfVar(l, v) != "" {
					lhs[l.(*ast.SelectorExpr).X] = true
				}
			}
		}
		if id, ok := x.(*ast.Ident); ok && id.Name == v && !lhs[id] {
			found = true
		}
		return true
	})
	return found
}

// blockOf finds the statement list that directly contains the statement holding position pos.
func blockOf(body *ast.BlockStmt, pos token.Pos) (list []ast.Stmt, idx int) {
	list, idx = body.List, -1
	for {
		next := -1
		for i, s := range list {
			if s.Pos() <= pos && pos < s.End() {
				next = i
			}
		}
		if next < 0 {
			return list, idx
		}
		idx = next
		var inner []ast.Stmt
		found := false
		switch x := list[next].(type) {
		case *ast.BlockStmt:
			inner, found = x.List, true
		case *ast.IfStmt:
			if x.Body.Pos() <= pos && pos < x.Body.End() {
				inner, found = x.Body.List, true
			} else if x.Else != nil && x.Else.Pos() <= pos && pos < x.Else.End() {
				if b, ok := x.Else.(*ast.BlockStmt); ok {
					inner, found = b.List, true
				} else {
					inner, found = []ast.Stmt{x.Else}, true
				}
			}
		case *ast.ForStmt:
			if x.Body.Pos() <= pos && pos < x.Body.End() {
				inner, found = x.Body.List, true
			}
		case *ast.RangeStmt:
			if x.Body.Pos() <= pos && pos < x.Body.End() {
				inner, found = x.Body.List, true
			}
		case *ast.SwitchStmt:
			for _, c := range x.Body.List {
				if c.Pos() <= pos && pos < c.End() {
					inner, found = c.(*ast.CaseClause).Body, true
				}
			}
		}
		if !found {
			return list, idx
		}
		// is pos inside one of inner's statements?
		in := false
		for _, s := range inner {
			if s.Pos() <= pos && pos < s.End() {
				in = true
			}
		}
		if !in {
			return list, idx
		}
		list = inner
	}
}

func (st *plState) findPools() ([]*plPool, error) {
	var pools []*plPool
	for _, dir := range st.order {
		p := st.pkgs[dir]
		for _, f := range p.files {
			total := 0
			ast.Inspect(f, func(n ast.Node) bool {
				if ce, ok := n.(*ast.CallExpr); ok && isPoolNew(ce) {
					total++
				}
				return true
			})
			recognised := 0
			var err error
			for _, d := range f.Decls {
				switch x := d.(type) {
				case *ast.GenDecl:
					for _, s := range x.Specs {
						vs, ok := s.(*ast.ValueSpec)
						if !ok {
							continue
						}
						for i, val := range vs.Values {
							ce, ok := val.(*ast.CallExpr)
							if !ok || !isPoolNew(ce) || i >= len(vs.Names) {
								continue
							}
							elem, sets, e := poolCtor(ce)
							if e != nil {
								err = e
								continue
							}
							pools = append(pools, &plPool{pkg: p, id: p.name + "." + vs.Names[i].Name, varName: vs.Names[i].Name, elem: elem, newSets: sets})
							recognised++
						}
					}
				case *ast.FuncDecl:
					if x.Body == nil {
						continue
					}
					ast.Inspect(x.Body, func(n ast.Node) bool {
						cl, ok := n.(*ast.CompositeLit)
						if !ok {
							return true
						}
						for _, e := range cl.Elts {
							kv, ok := e.(*ast.KeyValueExpr)
							if !ok {
								continue
							}
							ce, ok := kv.Value.(*ast.CallExpr)
							if !ok || !isPoolNew(ce) {
								continue
							}
							elem, sets, e2 := poolCtor(ce)
							if e2 != nil {
								err = e2
								continue
							}
							wt := typeName(cl.Type)
							pools = append(pools, &plPool{pkg: p, id: p.name + "." + wt + "." + exprString(kv.Key), wrapType: wt, wrapFld: exprString(kv.Key), elem: elem, newSets: sets})
							recognised++
						}
						return true
					})
				}
			}
			if err != nil {
				return nil, fmt.Errorf("%s: %v", p.fset.Position(f.Pos()).Filename, err)
			}
			if recognised != total {
				return nil, fmt.Errorf("%s: %d pool.New calls, %d in a readable position (package-level var or struct-literal field)", p.fset.Position(f.Pos()).Filename, total, recognised)
			}
			// raw sync.Pool is only allowed in the generic wrapper
			if dir != "internal/pool" {
				bad := false
				ast.Inspect(f, func(n ast.Node) bool {
					if se, ok := n.(*ast.SelectorExpr); ok && se.Sel.Name == "Pool" {
						if id, ok := se.X.(*ast.Ident); ok && id.Name == "sync" {
							bad = true
						}
					}
					return true
				})
				if bad {
					return nil, fmt.Errorf("%s uses sync.Pool directly (only internal/pool is expected to)", p.fset.Position(f.Pos()).Filename)
				}
			}
		}
	}
	return pools, nil
}

func (st *plState) analysePool(pl *plPool) error {
	p := pl.pkg
	stt, ok := p.structs[pl.elem]
	if !ok {
		return fmt.Errorf("%s: struct %s not found in %s", pl.id, pl.elem, p.dir)
	}
	_ = stt
	getAlways, putAlways := map[string]bool{}, map[string]bool{}
	getSome, putSome := &plAcc{}, &plAcc{}
	firstGet, firstPut := true, true
	mergeAlways := func(dst map[string]bool, src map[string]bool, first *bool) {
		if *first {
			for k := range src {
				dst[k] = true
			}
			*first = false
			return
		}
		for k := range dst {
			if !src[k] {
				delete(dst, k)
			}
		}
	}
	passthrough := map[string]bool{}
	for _, fd := range p.funcs {
		if fd.Body == nil {
			continue
		}
		var gets, puts []*ast.CallExpr
		ast.Inspect(fd.Body, func(n ast.Node) bool {
			if ce, ok := n.(*ast.CallExpr); ok {
				if pl.isPoolCall(ce, fd, "Get") {
					gets = append(gets, ce)
				}
				if pl.isPoolCall(ce, fd, "Put") {
					puts = append(puts, ce)
				}
			}
			return true
		})
		if len(gets) > 1 || len(puts) > 1 {
			return fmt.Errorf("%s: %s calls Get/Put more than once", pl.id, p.fnName(fd))
		}
		var gv string
		var gList []ast.Stmt
		gIdx := -1
		if len(gets) == 1 {
			pl.getFns = append(pl.getFns, p.fnName(fd))
			list, idx := blockOf(fd.Body, gets[0].Pos())
			if idx < 0 {
				return fmt.Errorf("%s: Get in %s is not inside a statement", pl.id, p.fnName(fd))
			}
			switch s := list[idx].(type) {
			case *ast.AssignStmt:
				if len(s.Lhs) != 1 || len(s.Rhs) != 1 || s.Rhs[0] != ast.Expr(gets[0]) {
					return fmt.Errorf("%s: Get in %s is not `v := pool.Get()`", pl.id, p.fnName(fd))
				}
				id, ok := s.Lhs[0].(*ast.Ident)
				if !ok {
					return fmt.Errorf("%s: Get in %s assigns to a non-identifier", pl.id, p.fnName(fd))
				}
				gv, gList, gIdx = id.Name, list, idx
			case *ast.ReturnStmt:
				if len(s.Results) != 1 || s.Results[0] != ast.Expr(gets[0]) || fd.Recv != nil {
					return fmt.Errorf("%s: Get in %s is returned in an unreadable way", pl.id, p.fnName(fd))
				}
				passthrough[fd.Name.Name] = true
				a := map[string]bool{}
				mergeAlways(getAlways, a, &firstGet)
			default:
				return fmt.Errorf("%s: Get in %s is neither assigned nor returned", pl.id, p.fnName(fd))
			}
		}
		if len(puts) == 1 {
			pl.putFns = append(pl.putFns, p.fnName(fd))
			pl.putDecls = append(pl.putDecls, fd)
			if len(puts[0].Args) != 1 {
				return fmt.Errorf("%s: Put in %s has %d arguments", pl.id, p.fnName(fd), len(puts[0].Args))
			}
			id, ok := puts[0].Args[0].(*ast.Ident)
			if !ok {
				return fmt.Errorf("%s: Put in %s is given a non-identifier", pl.id, p.fnName(fd))
			}
			pv := id.Name
			list, idx := blockOf(fd.Body, puts[0].Pos())
			if idx < 0 {
				return fmt.Errorf("%s: Put in %s is not inside a statement", pl.id, p.fnName(fd))
			}
			if _, ok := list[idx].(*ast.ExprStmt); !ok {
				return fmt.Errorf("%s: Put in %s is not a plain statement", pl.id, p.fnName(fd))
			}
			from := 0
			if gv != "" {
				// get and put in one function: both must sit in the same block; the statements between are split at the
				// first one that uses the object (anything but `v.f = …`)
				if pv != gv || len(list) == 0 || len(gList) == 0 || &list[0] != &gList[0] || idx <= gIdx {
					return fmt.Errorf("%s: %s gets and puts in a shape that is not understood", pl.id, p.fnName(fd))
				}
				use := -1
				for i := gIdx + 1; i < idx; i++ {
					if _, isAsg := list[i].(*ast.AssignStmt); isAsg && !mentionsUse(list[i], gv) {
						continue
					}
					if mentionsUse(list[i], gv) {
						use = i
						break
					}
				}
				if use < 0 {
					return fmt.Errorf("%s: %s never uses the pooled object between Get and Put", pl.id, p.fnName(fd))
				}
				a := map[string]bool{}
				p.assignsIn(list[gIdx+1:use], gv, pl.elem, 1, a, getSome)
				mergeAlways(getAlways, a, &firstGet)
				from = use + 1
				gv = ""
			} else if &list[0] != &fd.Body.List[0] {
				return fmt.Errorf("%s: Put in %s is nested inside another statement", pl.id, p.fnName(fd))
			}
			a := map[string]bool{}
			p.assignsIn(list[from:idx], pv, pl.elem, 1, a, putSome)
			mergeAlways(putAlways, a, &firstPut)
			for _, s := range list[from:idx] {
				ast.Inspect(s, func(n ast.Node) bool {
					ce, ok := n.(*ast.CallExpr)
					if !ok {
						return true
					}
					se, ok := ce.Fun.(*ast.SelectorExpr)
					if !ok {
						return true
					}
					if f := fieldOfVar(se.X, pv); f != "" {
						pl.putCalls = append(pl.putCalls, f+"."+se.Sel.Name)
					}
					return true
				})
			}
			for _, s := range list[idx+1:] {
				if mentionsUse(s, pv) {
					return fmt.Errorf("%s: %s uses the object after Put", pl.id, p.fnName(fd))
				}
			}
		}
		if gv != "" {
			a := map[string]bool{}
			p.assignsIn(gList[gIdx+1:], gv, pl.elem, 1, a, getSome)
			mergeAlways(getAlways, a, &firstGet)
		}
	}
	// callers of pass-through getters (`func getX() *T { return pool.Get() }`) are get sites too
	for _, fd := range p.funcs {
		if fd.Body == nil {
			continue
		}
		var calls []*ast.CallExpr
		ast.Inspect(fd.Body, func(n ast.Node) bool {
			if ce, ok := n.(*ast.CallExpr); ok {
				if id, ok := ce.Fun.(*ast.Ident); ok && passthrough[id.Name] {
					calls = append(calls, ce)
				}
			}
			return true
		})
		for _, c := range calls {
			list, idx := blockOf(fd.Body, c.Pos())
			as, ok := list[idx].(*ast.AssignStmt)
			if idx < 0 || !ok || len(as.Lhs) != 1 || len(as.Rhs) != 1 || as.Rhs[0] != ast.Expr(c) {
				return fmt.Errorf("%s: %s calls %s in an unreadable way", pl.id, p.fnName(fd), exprString(c.Fun))
			}
			id, ok := as.Lhs[0].(*ast.Ident)
			if !ok {
				return fmt.Errorf("%s: %s assigns %s to a non-identifier", pl.id, p.fnName(fd), exprString(c.Fun))
			}
			pl.getFns = append(pl.getFns, p.fnName(fd)+" via "+exprString(c.Fun))
			a := map[string]bool{}
			p.assignsIn(list[idx+1:], id.Name, pl.elem, 1, a, getSome)
			// a pass-through getter was merged as "sets nothing" already; its callers can only add conditional facts
			for k := range a {
				_ = k
			}
		}
	}
	if len(pl.getFns) == 0 || len(pl.putFns) == 0 {
		return fmt.Errorf("%s: no Get or no Put found (%d/%d)", pl.id, len(pl.getFns), len(pl.putFns))
	}
	pl.getSets = mkAsgs(getAlways, getSome)
	pl.putSets = mkAsgs(putAlways, putSome)
	sort.Strings(pl.getFns)
	sort.Strings(pl.putFns)
	sort.Strings(pl.putCalls)
	return nil
}

// ---- a small syntactic type resolver for receivers of .Free() / .put() ---------------------------------------

func (st *plState) resolveTypeExpr(p *plPkg, f *ast.File, e ast.Expr) plType {
	switch t := e.(type) {
	case *ast.StarExpr:
		return st.resolveTypeExpr(p, f, t.X)
	case *ast.Ident:
		return plType{p.dir, t.Name}
	case *ast.SelectorExpr:
		if id, ok := t.X.(*ast.Ident); ok {
			if d, ok := p.imports[f][id.Name]; ok {
				return plType{d, t.Sel.Name}
			}
		}
	}
	return plType{}
}

// resultOfName: the first result type shared by every function, method and interface method called `name`.
func (st *plState) resultOfName(name string) plType {
	var got []plType
	for _, dir := range st.order {
		p := st.pkgs[dir]
		for _, fd := range p.funcs {
			if fd.Name.Name == name && fd.Type.Results != nil && len(fd.Type.Results.List) > 0 {
				got = append(got, st.resolveTypeExpr(p, p.fileOf(fd), fd.Type.Results.List[0].Type))
			}
		}
		for _, it := range p.ifaces {
			for _, m := range it.Methods.List {
				ft, ok := m.Type.(*ast.FuncType)
				if !ok || len(m.Names) != 1 || m.Names[0].Name != name || ft.Results == nil || len(ft.Results.List) == 0 {
					continue
				}
				var file *ast.File
				for _, f := range p.files {
					if f.Pos() <= it.Pos() && it.Pos() <= f.End() {
						file = f
					}
				}
				got = append(got, st.resolveTypeExpr(p, file, ft.Results.List[0].Type))
			}
		}
	}
	if len(got) == 0 {
		return plType{}
	}
	for _, g := range got[1:] {
		if g != got[0] {
			return plType{}
		}
	}
	return got[0]
}

func (st *plState) typeOfCall(p *plPkg, f *ast.File, ce *ast.CallExpr) plType {
	switch fun := ce.Fun.(type) {
	case *ast.Ident:
		for _, fd := range p.funcs {
			if fd.Recv == nil && fd.Name.Name == fun.Name && fd.Type.Results != nil && len(fd.Type.Results.List) > 0 {
				return st.resolveTypeExpr(p, p.fileOf(fd), fd.Type.Results.List[0].Type)
			}
		}
	case *ast.SelectorExpr:
		if id, ok := fun.X.(*ast.Ident); ok {
			if d, ok := p.imports[f][id.Name]; ok {
				q := st.pkgs[d]
				if q == nil {
					return plType{}
				}
				for _, fd := range q.funcs {
					if fd.Recv == nil && fd.Name.Name == fun.Sel.Name && fd.Type.Results != nil && len(fd.Type.Results.List) > 0 {
						return st.resolveTypeExpr(q, q.fileOf(fd), fd.Type.Results.List[0].Type)
					}
				}
				// package-level variable holding a method value: `Get = _pool.Get`
				if v, ok := q.vars[fun.Sel.Name]; ok {
					if se, ok := v.(*ast.SelectorExpr); ok {
						// the base is another package-level variable initialised by a call: `_pool = buffer.NewPool()`
						if base, ok := se.X.(*ast.Ident); ok {
							if init, ok := q.vars[base.Name].(*ast.CallExpr); ok {
								var file *ast.File
								for _, ff := range q.files {
									if ff.Pos() <= init.Pos() && init.Pos() <= ff.End() {
										file = ff
									}
								}
								bt := st.typeOfCall(q, file, init)
								if r := st.pkgs[bt.dir]; r != nil {
									if m := r.method(bt.name, se.Sel.Name); m != nil && m.Type.Results != nil && len(m.Type.Results.List) > 0 {
										return st.resolveTypeExpr(r, r.fileOf(m), m.Type.Results.List[0].Type)
									}
								}
							}
						}
						return st.resultOfName(se.Sel.Name)
					}
				}
				return plType{}
			}
		}
		return st.resultOfName(fun.Sel.Name)
	}
	return plType{}
}

func (st *plState) fieldType(t plType, field string) plType {
	p := st.pkgs[t.dir]
	if p == nil {
		return plType{}
	}
	s, ok := p.structs[t.name]
	if !ok {
		return plType{}
	}
	for _, f := range s.Fields.List {
		for _, n := range f.Names {
			if n.Name == field {
				var file *ast.File
				for _, ff := range p.files {
					if ff.Pos() <= s.Pos() && s.Pos() <= ff.End() {
						file = ff
					}
				}
				return st.resolveTypeExpr(p, file, f.Type)
			}
		}
	}
	// promoted through an embedded struct of the same package
	for _, f := range s.Fields.List {
		if len(f.Names) == 0 {
			et := st.resolveTypeExpr(p, p.fileOf(s), f.Type)
			if r := st.fieldType(et, field); r.name != "" {
				return r
			}
		}
	}
	return plType{}
}

// typeOfExpr resolves identifiers (receiver, parameters, `x := call`, `x, err := call`) and field selections.
func (st *plState) typeOfExpr(p *plPkg, fd *ast.FuncDecl, e ast.Expr) (plType, string) {
	f := p.fileOf(fd)
	switch x := e.(type) {
	case *ast.Ident:
		if fd.Recv != nil && recvName(fd) == x.Name {
			return st.resolveTypeExpr(p, f, fd.Recv.List[0].Type), "receiver"
		}
		for _, prm := range fd.Type.Params.List {
			for _, n := range prm.Names {
				if n.Name == x.Name {
					return st.resolveTypeExpr(p, f, prm.Type), "param"
				}
			}
		}
		var ty plType
		origin := ""
		ast.Inspect(fd.Body, func(n ast.Node) bool {
			as, ok := n.(*ast.AssignStmt)
			if !ok || as.Tok != token.DEFINE || origin != "" {
				return true
			}
			for i, l := range as.Lhs {
				id, ok := l.(*ast.Ident)
				if !ok || id.Name != x.Name {
					continue
				}
				var rhs ast.Expr
				if len(as.Rhs) == len(as.Lhs) {
					rhs = as.Rhs[i]
				} else if len(as.Rhs) == 1 && i == 0 {
					rhs = as.Rhs[0]
				}
				if rhs == nil {
					continue
				}
				origin = p.src(as)
				switch r := rhs.(type) {
				case *ast.CallExpr:
					ty = st.typeOfCall(p, f, r)
				case *ast.TypeAssertExpr:
					ty = st.resolveTypeExpr(p, f, r.Type)
				default:
					ty, _ = st.typeOfExpr(p, fd, r)
				}
			}
			return true
		})
		return ty, origin
	case *ast.SelectorExpr:
		bt, _ := st.typeOfExpr(p, fd, x.X)
		if bt.name == "" {
			return plType{}, ""
		}
		return st.fieldType(bt, x.Sel.Name), "field"
	}
	return plType{}, ""
}

func (st *plState) freeSites(pools []*plPool) ([]plFree, error) {
	putMethods := map[string]bool{}
	for _, pl := range pools {
		for _, fd := range pl.putDecls {
			inline := false
			for _, g := range pl.getFns {
				if g == pl.pkg.fnName(fd) {
					inline = true
				}
			}
			if fd.Recv != nil && !inline {
				putMethods[fd.Name.Name] = true
			}
		}
	}
	var out []plFree
	for _, dir := range st.order {
		p := st.pkgs[dir]
		for _, fd := range p.funcs {
			if fd.Body == nil {
				continue
			}
			var walk func(list []ast.Stmt, deferred bool) error
			var scanExpr func(n ast.Node, list []ast.Stmt, i int, deferred, direct bool) error
			scanExpr = func(n ast.Node, list []ast.Stmt, i int, deferred, direct bool) error {
				var err error
				ast.Inspect(n, func(x ast.Node) bool {
					if fl, ok := x.(*ast.FuncLit); ok {
						if e := walk(fl.Body.List, deferred); e != nil {
							err = e
						}
						return false
					}
					ce, ok := x.(*ast.CallExpr)
					if !ok {
						return true
					}
					se, ok := ce.Fun.(*ast.SelectorExpr)
					if !ok || !putMethods[se.Sel.Name] || len(ce.Args) != 0 && se.Sel.Name == "Free" {
						return true
					}
					ty, origin := st.typeOfExpr(p, fd, se.X)
					if ty.name == "" {
						err = fmt.Errorf("cannot resolve the type of `%s` in %s (call of .%s)", p.src(se.X), p.fnName(fd), se.Sel.Name)
						return true
					}
					recv := p.src(se.X)
					uses := 0
					if !direct {
						// names bound earlier in the block to something read out of the object (`bs := buf.Bytes()`) alias its
						// storage; `x := recv.String()` copies and is not an alias
						aliases := []string{recv}
						for _, s := range list[:i] {
							as, ok := s.(*ast.AssignStmt)
							if !ok || len(as.Rhs) != 1 || countReads(p, &ast.ExprStmt{X: as.Rhs[0]}, recv) == 0 || p.src(as.Rhs[0]) == recv+".String()" {
								continue
							}
							for _, l := range as.Lhs {
								if id, ok := l.(*ast.Ident); ok && id.Name != "_" && id.Name != "err" {
									aliases = append(aliases, id.Name)
								}
							}
						}
						for _, s := range list[i+1:] {
							for _, a := range aliases {
								uses += countReads(p, s, a)
							}
						}
					}
					out = append(out, plFree{fn: p.fnName(fd), recv: recv, origin: origin, deferred: deferred, usesAfter: uses, ty: ty, method: se.Sel.Name})
					return true
				})
				return err
			}
			walk = func(list []ast.Stmt, deferred bool) error {
				for i, s := range list {
					switch x := s.(type) {
					case *ast.DeferStmt:
						if fl, ok := x.Call.Fun.(*ast.FuncLit); ok {
							if err := walk(fl.Body.List, true); err != nil {
								return err
							}
						} else if err := scanExpr(x.Call, list, i, true, true); err != nil {
							return err
						}
					case *ast.BlockStmt:
						if err := walk(x.List, deferred); err != nil {
							return err
						}
					case *ast.IfStmt:
						if x.Init != nil {
							if err := scanExpr(x.Init, list, i, deferred, false); err != nil {
								return err
							}
						}
						if err := scanExpr(x.Cond, list, i, deferred, false); err != nil {
							return err
						}
						if err := walk(x.Body.List, deferred); err != nil {
							return err
						}
						if x.Else != nil {
							if err := walk([]ast.Stmt{x.Else}, deferred); err != nil {
								return err
							}
						}
					case *ast.ForStmt:
						if err := walk(x.Body.List, deferred); err != nil {
							return err
						}
					case *ast.RangeStmt:
						if err := walk(x.Body.List, deferred); err != nil {
							return err
						}
					case *ast.SwitchStmt:
						for _, c := range x.Body.List {
							if err := walk(c.(*ast.CaseClause).Body, deferred); err != nil {
								return err
							}
						}
					case *ast.TypeSwitchStmt:
						for _, c := range x.Body.List {
							if err := walk(c.(*ast.CaseClause).Body, deferred); err != nil {
								return err
							}
						}
					default:
						if err := scanExpr(s, list, i, deferred, false); err != nil {
							return err
						}
					}
				}
				return nil
			}
			if err := walk(fd.Body.List, false); err != nil {
				return nil, err
			}
		}
	}
	return out, nil
}

// putUses: every call of a plain put function (`putCheckedEntry(ce)`, `putJSONEncoder(final)`, `putSliceEncoder(arr)`) with
// the number of reads of its argument that follow the call on the way to the end of the enclosing function (the rest of the
// block and of every enclosing block; a call inside a deferred function literal or `defer put(x)` itself has none).  Once an
// object is back in its pool the next Get may hand it to somebody else: a later read sees that somebody's data.
func (st *plState) putUses(pools []*plPool) ([]plFree, error) {
	var out []plFree
	for _, pl := range pools {
		p := pl.pkg
		names := map[string]bool{}
		for _, fd := range pl.putDecls {
			inline := false
			for _, g := range pl.getFns {
				if g == p.fnName(fd) {
					inline = true
				}
			}
			if fd.Recv == nil && !inline {
				names[fd.Name.Name] = true
			}
		}
		if len(names) == 0 {
			continue
		}
		for _, fd := range p.funcs {
			if fd.Body == nil {
				continue
			}
			var walk func(list []ast.Stmt, deferred bool, outer []ast.Stmt) error
			record := func(ce *ast.CallExpr, deferred bool, rest []ast.Stmt) error {
				id, ok := ce.Fun.(*ast.Ident)
				if !ok || !names[id.Name] {
					return nil
				}
				if len(ce.Args) != 1 {
					return fmt.Errorf("%s: %s called with %d arguments in %s", pl.id, id.Name, len(ce.Args), p.fnName(fd))
				}
				arg, ok := ce.Args[0].(*ast.Ident)
				if !ok {
					return fmt.Errorf("%s: %s is given a non-identifier in %s", pl.id, id.Name, p.fnName(fd))
				}
				uses := 0
				for _, s := range rest {
					uses += countReads(p, s, arg.Name)
				}
				out = append(out, plFree{fn: p.fnName(fd), recv: p.src(ce), deferred: deferred, usesAfter: uses})
				return nil
			}
			walk = func(list []ast.Stmt, deferred bool, outer []ast.Stmt) error {
				for i, s := range list {
					rest := append(append([]ast.Stmt{}, list[i+1:]...), outer...)
					var err error
					switch x := s.(type) {
					case *ast.ExprStmt:
						if ce, ok := x.X.(*ast.CallExpr); ok {
							err = record(ce, deferred, rest)
						}
					case *ast.DeferStmt:
						if fl, ok := x.Call.Fun.(*ast.FuncLit); ok {
							err = walk(fl.Body.List, true, nil)
						} else {
							err = record(x.Call, true, nil)
						}
					case *ast.BlockStmt:
						err = walk(x.List, deferred, rest)
					case *ast.IfStmt:
						err = walk(x.Body.List, deferred, rest)
						if err == nil && x.Else != nil {
							err = walk([]ast.Stmt{x.Else}, deferred, rest)
						}
					case *ast.ForStmt:
						err = walk(x.Body.List, deferred, rest)
					case *ast.RangeStmt:
						err = walk(x.Body.List, deferred, rest)
					case *ast.SwitchStmt:
						for _, c := range x.Body.List {
							if err == nil {
								err = walk(c.(*ast.CaseClause).Body, deferred, rest)
							}
						}
					default:
						// a put call buried in any other statement shape is unreadable
						bad := false
						ast.Inspect(s, func(n ast.Node) bool {
							if ce, ok := n.(*ast.CallExpr); ok {
								if id, ok := ce.Fun.(*ast.Ident); ok && names[id.Name] {
									bad = true
								}
							}
							return true
						})
						if bad {
							err = fmt.Errorf("%s: a put function is called inside `%s` in %s", pl.id, p.src(s), p.fnName(fd))
						}
					}
					if err != nil {
						return err
					}
				}
				return nil
			}
			if err := walk(fd.Body.List, false, nil); err != nil {
				return nil, err
			}
		}
	}
	return out, nil
}

// recvMutations: the clone discipline of the encoders.  An ioCore holds one long-lived encoder; `EncodeEntry`, `Clone`,
// `With`, `Write` must work on clones (`final`, `context`, `clone`) and never change the receiver.  A method of jsonEncoder /
// consoleEncoder is *mutating* when it assigns to a field of its receiver, calls anything but Len/Cap/Bytes/String on the
// receiver's buffers, hands the receiver itself to another function, or calls a mutating method on the receiver (fixpoint;
// consoleEncoder's embedded *jsonEncoder promotes its methods).  For each entry point the table lists every such operation
// applied to the receiver (for ioCore: to `c.enc`, where only EncodeEntry and Clone — the entry points themselves — may be
// called).  All lists are expected to be empty.
func (st *plState) recvMutations() ([][2]string, []string, error) {
	p := st.pkgs["zapcore"]
	if p == nil {
		return nil, nil, fmt.Errorf("package zapcore not found")
	}
	readOnlyBuf := map[string]bool{"Len": true, "Cap": true, "Bytes": true, "String": true}
	bufFields := map[string]bool{"buf": true, "reflectBuf": true}
	encTypes := map[string]bool{"jsonEncoder": true, "consoleEncoder": true}
	methods := map[string]*ast.FuncDecl{} // "Type.method"
	for _, fd := range p.funcs {
		if t := recvType(fd); encTypes[t] && fd.Body != nil {
			methods[t+"."+fd.Name.Name] = fd
		}
	}
	lookup := func(t, m string) string { // method resolution incl. promotion through the embedded *jsonEncoder
		if _, ok := methods[t+"."+m]; ok {
			return t + "." + m
		}
		if t == "consoleEncoder" {
			if _, ok := methods["jsonEncoder."+m]; ok {
				return "jsonEncoder." + m
			}
		}
		return ""
	}
	// is e the receiver itself (`enc`, `c`) or its embedded encoder (`c.jsonEncoder`)?
	isSelf := func(e ast.Expr, rn string) bool {
		switch x := e.(type) {
		case *ast.Ident:
			return x.Name == rn
		case *ast.SelectorExpr:
			id, ok := x.X.(*ast.Ident)
			return ok && id.Name == rn && x.Sel.Name == "jsonEncoder"
		}
		return false
	}
	mut := map[string]bool{}
	// ops(fd): the mutating operations fd applies to its receiver, given the current `mut`
	ops := func(key string, fd *ast.FuncDecl) []string {
		t, rn := recvType(fd), recvName(fd)
		var out []string
		if rn == "" {
			return nil
		}
		ast.Inspect(fd.Body, func(n ast.Node) bool {
			switch x := n.(type) {
			case *ast.AssignStmt:
				for _, l := range x.Lhs {
					if se, ok := l.(*ast.SelectorExpr); ok && isSelf(se.X, rn) {
						out = append(out, p.src(x))
					}
				}
			case *ast.IncDecStmt:
				if se, ok := x.X.(*ast.SelectorExpr); ok && isSelf(se.X, rn) {
					out = append(out, p.src(x))
				}
			case *ast.CallExpr:
				for _, a := range x.Args {
					if isSelf(a, rn) {
						out = append(out, p.src(x))
					}
				}
				se, ok := x.Fun.(*ast.SelectorExpr)
				if !ok {
					return true
				}
				if isSelf(se.X, rn) { // recv.m(…)
					if k := lookup(t, se.Sel.Name); k != "" && mut[k] {
						out = append(out, p.src(x))
					}
					return true
				}
				if inner, ok := se.X.(*ast.SelectorExpr); ok && isSelf(inner.X, rn) { // recv.buf.F(…), recv.reflectEnc.Encode(…)
					if bufFields[inner.Sel.Name] && !readOnlyBuf[se.Sel.Name] || inner.Sel.Name == "reflectEnc" {
						out = append(out, p.src(x))
					}
				}
			}
			return true
		})
		return out
	}
	for changed := true; changed; {
		changed = false
		for k, fd := range methods {
			if !mut[k] && len(ops(k, fd)) > 0 {
				mut[k], changed = true, true
			}
		}
	}
	var rows [][2]string
	for _, ep := range []string{"jsonEncoder.EncodeEntry", "jsonEncoder.Clone", "jsonEncoder.clone", "consoleEncoder.EncodeEntry",
		"consoleEncoder.writeContext", "consoleEncoder.Clone", "consoleEncoder.addSeparatorIfNecessary"} {
		fd, ok := methods[ep]
		if !ok {
			return nil, nil, fmt.Errorf("encoder entry point %s not found", ep)
		}
		rows = append(rows, [2]string{"zapcore." + ep, strings.Join(ops(ep, fd), " ; ")})
	}
	for _, m := range []string{"With", "Check", "Write", "Sync", "clone"} {
		fd := p.method("ioCore", m)
		if fd == nil || fd.Body == nil {
			return nil, nil, fmt.Errorf("ioCore.%s not found", m)
		}
		rn := recvName(fd)
		isEnc := func(e ast.Expr) bool {
			se, ok := e.(*ast.SelectorExpr)
			if !ok || se.Sel.Name != "enc" {
				return false
			}
			id, ok := se.X.(*ast.Ident)
			return ok && id.Name == rn
		}
		var out []string
		ast.Inspect(fd.Body, func(n ast.Node) bool {
			switch x := n.(type) {
			case *ast.AssignStmt:
				for _, l := range x.Lhs {
					if isEnc(l) {
						out = append(out, p.src(x))
					}
				}
			case *ast.CallExpr:
				for _, a := range x.Args {
					if isEnc(a) {
						out = append(out, p.src(x))
					}
				}
				if se, ok := x.Fun.(*ast.SelectorExpr); ok && isEnc(se.X) && se.Sel.Name != "EncodeEntry" && se.Sel.Name != "Clone" {
					out = append(out, p.src(x))
				}
			}
			return true
		})
		rows = append(rows, [2]string{"zapcore.ioCore." + m, strings.Join(out, " ; ")})
	}
	var muts []string
	for k := range mut {
		muts = append(muts, k)
	}
	sort.Strings(muts)
	return rows, muts, nil
}

// countReads counts occurrences of the expression text `recv` in s that are not the whole left-hand side of an assignment.
func countReads(p *plPkg, s ast.Stmt, recv string) int {
	n := 0
	lhs := map[ast.Node]bool{}
	ast.Inspect(s, func(x ast.Node) bool {
		if as, ok := x.(*ast.AssignStmt); ok {
			for _, l := range as.Lhs {
				lhs[l] = true
			}
		}
		switch e := x.(type) {
		case *ast.Ident, *ast.SelectorExpr:
			if !lhs[x] && p.src(e.(ast.Expr)) == recv {
				n++
				return false
			}
		}
		return true
	})
	return n
}

func leanStrList(xs []string) string {
	q := make([]string, len(xs))
	for i, x := range xs {
		q[i] = leanStr(x)
	}
	return "[" + strings.Join(q, ", ") + "]"
}

func leanAsgs(as []plAsg) string {
	if len(as) == 0 {
		return "[]"
	}
	var q []string
	for _, a := range as {
		q = append(q, fmt.Sprintf("⟨%s, %s, %v⟩", leanStr(a.field), leanStr(a.rhs), a.always))
	}
	return "[\n      " + strings.Join(q, ",\n      ") + "]"
}

func genPools() (string, int, error) {
	st := &plState{}
	if err := st.load(); err != nil {
		return "", 0, err
	}
	pools, err := st.findPools()
	if err != nil {
		return "", 0, err
	}
	if len(pools) == 0 {
		return "", 0, fmt.Errorf("no pool.New call found")
	}
	for _, pl := range pools {
		if err := st.analysePool(pl); err != nil {
			return "", 0, err
		}
	}
	frees, err := st.freeSites(pools)
	if err != nil {
		return "", 0, err
	}
	// put sites: plain put functions by name inside their package; method put functions through the resolved Free sites
	byType := map[plType]*plPool{}
	for _, pl := range pools {
		byType[plType{pl.pkg.dir, pl.elem}] = pl
	}
	for _, pl := range pools {
		for _, fd := range pl.putDecls {
			hasGet := false
			for _, g := range pl.getFns {
				if g == pl.pkg.fnName(fd) {
					hasGet = true
				}
			}
			if fd.Recv != nil && !hasGet {
				continue
			}
			if hasGet {
				pl.putSites = append(pl.putSites, pl.pkg.fnName(fd)+" (inline)")
				continue
			}
			for _, caller := range pl.pkg.funcs {
				if caller.Body == nil {
					continue
				}
				ast.Inspect(caller.Body, func(n ast.Node) bool {
					if ce, ok := n.(*ast.CallExpr); ok {
						if id, ok := ce.Fun.(*ast.Ident); ok && id.Name == fd.Name.Name {
							pl.putSites = append(pl.putSites, pl.pkg.fnName(caller))
						}
					}
					return true
				})
			}
		}
	}
	for _, fs := range frees {
		// which pool does this call feed? the method must be a put function of the receiver's type, or — for the buffer —
		// Free, which forwards to the wrapper's put
		pl := byType[fs.ty]
		if pl == nil {
			// the wrapper type itself (`b.pool.put(b)`)
			found := false
			for _, q := range pools {
				if q.wrapType == fs.ty.name && q.pkg.dir == fs.ty.dir {
					found = true
				}
			}
			if found {
				continue
			}
			return "", 0, fmt.Errorf("`%s.%s()` in %s resolves to %s.%s, which is not a pooled type", fs.recv, fs.method, fs.fn, fs.ty.dir, fs.ty.name)
		}
		pl.putSites = append(pl.putSites, fs.fn)
	}
	var sb strings.Builder
	sb.WriteString("import ZapVerif.Model.PoolFacts\nnamespace ZapVerif.Gen.Pools\nopen ZapVerif.PoolFacts\n\n")
	rows := 0
	var names []string
	for i, pl := range pools {
		s, _ := pl.pkg.structs[pl.elem]
		sort.Strings(pl.putSites)
		name := fmt.Sprintf("pool%d", i)
		names = append(names, name)
		fmt.Fprintf(&sb, "def %s : Pool := {\n  id := %s, elem := %s,\n  fields := %s,\n  newSets := %s,\n  getFns := %s,\n  getSets := %s,\n  putFns := %s,\n  putSets := %s,\n  putCalls := %s,\n  putSites := %s }\n\n",
			name, leanStr(pl.id), leanStr(pl.elem), leanStrList(structFields(s)), leanStrList(pl.newSets), leanStrList(pl.getFns),
			leanAsgs(pl.getSets), leanStrList(pl.putFns), leanAsgs(pl.putSets), leanStrList(pl.putCalls), leanStrList(pl.putSites))
		rows += 1 + len(structFields(s))
	}
	fmt.Fprintf(&sb, "def table : List Pool := [%s]\n\n", strings.Join(names, ", "))
	sb.WriteString("/-- every `.Free()` / `.put()` call of the tree whose receiver is a pooled type -/\ndef freeSites : List FreeSite := [\n")
	for i, fs := range frees {
		sep := ","
		if i == len(frees)-1 {
			sep = ""
		}
		fmt.Fprintf(&sb, "  ⟨%s, %s, %s, %v, %d⟩%s\n", leanStr(fs.fn), leanStr(fs.recv+"."+fs.method), leanStr(fs.origin), fs.deferred, fs.usesAfter, sep)
		rows++
	}
	sb.WriteString("]\n\n")
	puts, err := st.putUses(pools)
	if err != nil {
		return "", 0, err
	}
	sb.WriteString("/-- every call of a plain put function, with the reads of its argument that follow it in the caller -/\ndef putUses : List FreeSite := [\n")
	for i, fs := range puts {
		sep := ","
		if i == len(puts)-1 {
			sep = ""
		}
		fmt.Fprintf(&sb, "  ⟨%s, %s, %s, %v, %d⟩%s\n", leanStr(fs.fn), leanStr(fs.recv), leanStr(""), fs.deferred, fs.usesAfter, sep)
		rows++
	}
	sb.WriteString("]\n\n")
	rm, muts, err := st.recvMutations()
	if err != nil {
		return "", 0, err
	}
	sb.WriteString("/-- the clone discipline: per entry point, the mutating operations applied to the RECEIVER encoder (expected: none) -/\ndef recvMutations : List (String × String) := [\n")
	for i, r := range rm {
		sep := ","
		if i == len(rm)-1 {
			sep = ""
		}
		fmt.Fprintf(&sb, "  (%s, %s)%s\n", leanStr(r[0]), leanStr(r[1]), sep)
		rows++
	}
	fmt.Fprintf(&sb, "]\n\n/-- encoder methods classified as mutating their receiver -/\ndef mutatingEncoderMethods : List String := %s\n\n", leanStrList(muts))
	// constructors of buffer pools (`buffer.NewPool()`): who owns one
	var owners []string
	for _, dir := range st.order {
		p := st.pkgs[dir]
		for _, f := range p.files {
			ast.Inspect(f, func(n ast.Node) bool {
				ce, ok := n.(*ast.CallExpr)
				if !ok {
					return true
				}
				switch fun := ce.Fun.(type) {
				case *ast.SelectorExpr:
					if fun.Sel.Name == "NewPool" {
						owners = append(owners, p.name+": "+p.src(ce))
					}
				}
				return true
			})
		}
	}
	fmt.Fprintf(&sb, "/-- call sites of `buffer.NewPool()` outside tests -/\ndef bufferPoolOwners : List String := %s\n\nend ZapVerif.Gen.Pools\n", leanStrList(owners))
	return sb.String(), rows, nil
}
