package main

// SliceOwn — every place in zap's non-test sources where a slice may end up SHARED between two owners, the classic source of
// "sibling loggers see each other's fields" defects. Pure go/parser + go/ast (types are read syntactically). Three patterns:
//
//	A  append(X, …) whose result is NOT assigned back to X, where X is a field (x.f) or a slice parameter: the new slice
//	   may share X's backing array (spare capacity) with the old owner
//	F  X[:0] / X[:0:…] where X is a field or a slice parameter: in-place filtering rewrites the caller's / owner's elements
//	K  a slice parameter stored as it is into a struct (composite literal `f: p`, assignment `x.f = p`, or conversion
//	   `T(p)` returned): the callee keeps the caller's slice
//
// Each occurrence is a row (file, function, pattern, normalised expression). Props/C07.lean states that the rows are exactly
// the reviewed ones (`slice_ownership_as_reviewed`): a new sharing site in the source fails `lake build` until it is reviewed.

import (
	"fmt"
	"go/ast"
	"go/parser"
	"go/token"
	"os"
	"path/filepath"
	"sort"
	"strings"
)

func init() {
	tables = append(tables, table{"SliceOwn", genSliceOwn})
}

var soDirs = []string{".", "zapcore", "zapio", "zapgrpc", "zaptest", "zaptest/observer", "exp/zapslog", "exp/zapfield", "buffer",
	"internal", "internal/bufferpool", "internal/color", "internal/exit", "internal/pool", "internal/stacktrace"}

type soRow struct{ file, fn, pat, expr string }

func soIsSliceType(e ast.Expr) bool {
	switch t := e.(type) {
	case *ast.ArrayType:
		return t.Len == nil
	case *ast.Ellipsis:
		return true
	}
	return false
}

func genSliceOwn() (string, int, error) {
	var rows []soRow
	seenDir := 0
	for _, dir := range soDirs {
		full := filepath.Join(*repo, dir)
		if _, err := os.Stat(full); err != nil {
			continue
		}
		fset := token.NewFileSet()
		pkgs, err := parser.ParseDir(fset, full, func(fi os.FileInfo) bool { return !strings.HasSuffix(fi.Name(), "_test.go") }, 0)
		if err != nil {
			return "", 0, err
		}
		seenDir++
		for _, p := range pkgs {
			var fnames []string
			for fn := range p.Files {
				fnames = append(fnames, fn)
			}
			sort.Strings(fnames)
			for _, fn := range fnames {
				rel, _ := filepath.Rel(*repo, fn)
				for _, d := range p.Files[fn].Decls {
					fd, ok := d.(*ast.FuncDecl)
					if !ok || fd.Body == nil {
						continue
					}
					name := fd.Name.Name
					if fd.Recv != nil && len(fd.Recv.List) == 1 {
						name = sfTypeStr(fd.Recv.List[0].Type) + "." + name
					}
					params := map[string]bool{}
					if fd.Type.Params != nil {
						for _, f := range fd.Type.Params.List {
							if soIsSliceType(f.Type) {
								for _, n := range f.Names {
									params[n.Name] = true
								}
							}
						}
					}
					shared := func(e ast.Expr) bool { // a field x.f (any depth) or a slice parameter
						switch x := e.(type) {
						case *ast.SelectorExpr:
							return true
						case *ast.Ident:
							return params[x.Name]
						}
						return false
					}
					add := func(pat string, e ast.Node) {
						rows = append(rows, soRow{rel, name, pat, sfExprStr(e.(ast.Expr))})
					}
					// appends assigned back to their own first argument are fine
					okAppend := map[*ast.CallExpr]bool{}
					ast.Inspect(fd.Body, func(n ast.Node) bool {
						as, ok := n.(*ast.AssignStmt)
						if !ok || len(as.Lhs) != len(as.Rhs) {
							return true
						}
						for i, r := range as.Rhs {
							if ce, ok := r.(*ast.CallExpr); ok {
								if id, ok := ce.Fun.(*ast.Ident); ok && id.Name == "append" && len(ce.Args) > 0 {
									if sfExprStr(as.Lhs[i]) == sfExprStr(ce.Args[0]) {
										okAppend[ce] = true
									}
								}
							}
						}
						return true
					})
					ast.Inspect(fd.Body, func(n ast.Node) bool {
						switch x := n.(type) {
						case *ast.CallExpr:
							if id, ok := x.Fun.(*ast.Ident); ok && id.Name == "append" && len(x.Args) > 0 && !okAppend[x] && shared(x.Args[0]) {
								add("A", x)
							}
							// conversion of a slice parameter to a named type (kept by the result)
							if len(x.Args) == 1 {
								if id, ok := x.Args[0].(*ast.Ident); ok && params[id.Name] {
									if fid, ok := x.Fun.(*ast.Ident); ok && fid.Obj != nil && fid.Obj.Kind == ast.Typ {
										add("K", x)
									}
								}
							}
						case *ast.SliceExpr:
							if x.Low == nil && x.High != nil {
								if bl, ok := x.High.(*ast.BasicLit); ok && bl.Value == "0" && shared(x.X) {
									rows = append(rows, soRow{rel, name, "F", sfExprStr(x.X) + "[:0]"})
								}
							}
						case *ast.KeyValueExpr:
							if id, ok := x.Value.(*ast.Ident); ok && params[id.Name] {
								add("K", x.Value)
								rows[len(rows)-1].expr = sfExprStr(x.Key) + ": " + id.Name
							}
						case *ast.AssignStmt:
							for i, r := range x.Rhs {
								if id, ok := r.(*ast.Ident); ok && params[id.Name] && i < len(x.Lhs) {
									if _, ok := x.Lhs[i].(*ast.SelectorExpr); ok {
										rows = append(rows, soRow{rel, name, "K", sfExprStr(x.Lhs[i]) + " = " + id.Name})
									}
								}
							}
						}
						return true
					})
				}
			}
		}
	}
	if seenDir < 8 {
		return "", 0, fmt.Errorf("only %d of the package directories could be read", seenDir)
	}
	sort.SliceStable(rows, func(i, j int) bool {
		a, b := rows[i], rows[j]
		if a.file != b.file {
			return a.file < b.file
		}
		if a.fn != b.fn {
			return a.fn < b.fn
		}
		if a.pat != b.pat {
			return a.pat < b.pat
		}
		return a.expr < b.expr
	})
	var b strings.Builder
	b.WriteString("namespace ZapVerif.Gen.SliceOwn\n\n")
	b.WriteString("/-- (file, function, pattern A|F|K, expression) — see gen/sliceown.go -/\n")
	b.WriteString("def rows : List (String × String × String × String) := [\n")
	for i, r := range rows {
		sep := ","
		if i == len(rows)-1 {
			sep = ""
		}
		fmt.Fprintf(&b, "  (%q, %q, %q, %q)%s\n", r.file, r.fn, r.pat, r.expr, sep)
	}
	b.WriteString("]\n\nend ZapVerif.Gen.SliceOwn\n")
	return b.String(), len(rows), nil
}
