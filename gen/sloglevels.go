package main

import (
	"fmt"
	"strings"
)

func init() {
	tables = append(tables, table{"SlogLevels", genSlogLevels})
}

// genSlogLevels: (dynamic) exp/zapslog convertSlogLevel observed at every slog level in −12…12
// (`zvh dump SlogLevels`: the level an all-enabled core sees for a record of that slog level).
func genSlogLevels() (string, int, error) {
	d, err := dump("SlogLevels")
	if err != nil {
		return "", 0, err
	}
	var rows []string
	seen := map[int]bool{}
	prev, first := 0, true
	for _, ln := range strings.Split(strings.TrimSpace(d), "\n") {
		var l, z int
		if _, err := fmt.Sscanf(ln, "%d %d", &l, &z); err != nil {
			return "", 0, fmt.Errorf("bad dump line %q", ln)
		}
		if !first && l <= prev {
			return "", 0, fmt.Errorf("dump line %q: slog levels must be strictly ascending", ln)
		}
		prev, first = l, false
		seen[l] = true
		rows = append(rows, fmt.Sprintf("(%s, %s)", leanInt(l), leanInt(z)))
	}
	for l := -12; l <= 12; l++ {
		if !seen[l] {
			return "", 0, fmt.Errorf("dump does not cover slog level %d", l)
		}
	}
	var sb strings.Builder
	sb.WriteString("namespace ZapVerif.Gen\n\n")
	sb.WriteString("/-- (slog level, zap level `convertSlogLevel` maps it to) for every level in −12…12 and far-out sample points on both sides, ascending -/\n")
	sb.WriteString("def slogLevels : List (Int × Int) := [\n  " + strings.Join(rows, ", ") + "]\n\n")
	sb.WriteString("end ZapVerif.Gen\n")
	return sb.String(), len(rows), nil
}
