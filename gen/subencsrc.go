package main

import (
	"bytes"
	"fmt"
	"go/ast"
	"go/printer"
	"go/token"
	"strconv"
	"strings"
)

// srcText prints a node exactly as gofmt would, on one line.
func srcText(n ast.Node) string {
	var b bytes.Buffer
	if err := printer.Fprint(&b, token.NewFileSet(), n); err != nil {
		return "<unprintable>"
	}
	return strings.Join(strings.Fields(b.String()), " ")
}

func init() {
	tables = append(tables, table{"SubEncSrc", genSubEncSrc})
}

// genSubEncSrc (static): the source text the sub-encoder model (`Model/SubEnc.lean`) mirrors.
//
//	subEncBodies      every built-in level/time/duration/caller/name encoder function of zapcore/encoder.go and the
//	                  EntryCaller methods of zapcore/entry.go they call: name ↦ flattened statements ("<depth>:<stmt>")
//	encoderTextTables the `UnmarshalText` switch of each encoder kind: kind ↦ (case text ↦ function, default function)
//
// The Lean side states the bodies the model assumes (`Props/C02.lean: subenc_sources_as_modelled`).
func genSubEncSrc() (string, int, error) {
	rows := 0
	var sb strings.Builder
	sb.WriteString("namespace ZapVerif.Gen\n\n")

	_, ef, err := parseFile("zapcore/encoder.go")
	if err != nil {
		return "", 0, err
	}
	_, nf, err := parseFile("zapcore/entry.go")
	if err != nil {
		return "", 0, err
	}
	type spec struct {
		file *ast.File
		recv string
		name string
	}
	specs := []spec{
		{ef, "", "LowercaseLevelEncoder"}, {ef, "", "LowercaseColorLevelEncoder"}, {ef, "", "CapitalLevelEncoder"}, {ef, "", "CapitalColorLevelEncoder"},
		{ef, "", "EpochTimeEncoder"}, {ef, "", "EpochMillisTimeEncoder"}, {ef, "", "EpochNanosTimeEncoder"}, {ef, "", "encodeTimeLayout"},
		{ef, "", "ISO8601TimeEncoder"}, {ef, "", "RFC3339TimeEncoder"}, {ef, "", "RFC3339NanoTimeEncoder"}, {ef, "", "TimeEncoderOfLayout"},
		{ef, "", "SecondsDurationEncoder"}, {ef, "", "NanosDurationEncoder"}, {ef, "", "MillisDurationEncoder"}, {ef, "", "StringDurationEncoder"},
		{ef, "", "FullCallerEncoder"}, {ef, "", "ShortCallerEncoder"}, {ef, "", "FullNameEncoder"},
		{nf, "EntryCaller", "String"}, {nf, "EntryCaller", "FullPath"}, {nf, "EntryCaller", "TrimmedPath"},
	}
	sb.WriteString("/-- built-in sub-encoder functions (zapcore/encoder.go) and the EntryCaller methods they call (zapcore/entry.go):\n    (name, parameters, flattened body) -/\n")
	var names []string
	for i, sp := range specs {
		fd := findFunc(sp.file, sp.recv, sp.name)
		if fd == nil || fd.Body == nil {
			return "", 0, fmt.Errorf("func %s %s not found", sp.recv, sp.name)
		}
		var out []string
		if err := flatStmts(fd.Body.List, 0, &out); err != nil {
			return "", 0, fmt.Errorf("%s: %v", sp.name, err)
		}
		var params []string
		if fd.Recv != nil {
			for _, p := range fd.Recv.List {
				for _, n := range p.Names {
					params = append(params, n.Name+" "+exprString(p.Type))
				}
			}
		}
		for _, p := range fd.Type.Params.List {
			for _, n := range p.Names {
				params = append(params, n.Name+" "+exprString(p.Type))
			}
		}
		qn := sp.name
		if sp.recv != "" {
			qn = sp.recv + "." + sp.name
		}
		var qs []string
		for _, s := range out {
			qs = append(qs, leanStrEsc(s))
		}
		fmt.Fprintf(&sb, "def seb%d : String × String × List String := (%s, %s, [%s])\n", i, leanStrEsc(qn), leanStrEsc(strings.Join(params, ", ")), strings.Join(qs, ", "))
		names = append(names, fmt.Sprintf("seb%d", i))
		rows++
	}
	sb.WriteString("\ndef subEncBodies : List (String × String × List String) := [" + strings.Join(names, ", ") + "]\n\n")

	sb.WriteString("/-- `(*XEncoder).UnmarshalText`: (kind, [(text, function)], default function) -/\n")
	sb.WriteString("def encoderTextTables : List (String × List (String × String) × String) := [\n")
	kinds := []string{"LevelEncoder", "TimeEncoder", "DurationEncoder", "CallerEncoder", "NameEncoder"}
	for ki, kind := range kinds {
		fd := findFunc(ef, kind, "UnmarshalText")
		if fd == nil {
			return "", 0, fmt.Errorf("func (*%s) UnmarshalText not found", kind)
		}
		if len(fd.Body.List) != 2 {
			return "", 0, fmt.Errorf("(*%s).UnmarshalText is not `switch …; return nil`", kind)
		}
		sw, ok := fd.Body.List[0].(*ast.SwitchStmt)
		if !ok || sw.Init != nil || exprString(sw.Tag) != "string(text)" {
			return "", 0, fmt.Errorf("(*%s).UnmarshalText does not switch on string(text)", kind)
		}
		if rs, ok := fd.Body.List[1].(*ast.ReturnStmt); !ok || len(rs.Results) != 1 || exprString(rs.Results[0]) != "nil" {
			return "", 0, fmt.Errorf("(*%s).UnmarshalText does not end with `return nil`", kind)
		}
		var cases []string
		def := ""
		for _, cc := range sw.Body.List {
			c := cc.(*ast.CaseClause)
			if len(c.Body) != 1 {
				return "", 0, fmt.Errorf("(*%s).UnmarshalText: arm is not a single assignment", kind)
			}
			as, ok := c.Body[0].(*ast.AssignStmt)
			if !ok || as.Tok != token.ASSIGN || len(as.Lhs) != 1 || len(as.Rhs) != 1 || exprString(as.Lhs[0]) != "*e" {
				return "", 0, fmt.Errorf("(*%s).UnmarshalText: arm is not `*e = F`", kind)
			}
			fn, ok := as.Rhs[0].(*ast.Ident)
			if !ok {
				return "", 0, fmt.Errorf("(*%s).UnmarshalText: arm assigns %s, not a function name", kind, exprString(as.Rhs[0]))
			}
			if c.List == nil {
				def = fn.Name
				continue
			}
			for _, e := range c.List {
				bl, ok := e.(*ast.BasicLit)
				if !ok || bl.Kind != token.STRING {
					return "", 0, fmt.Errorf("(*%s).UnmarshalText: case label is not a string literal", kind)
				}
				s, err := strconv.Unquote(bl.Value)
				if err != nil {
					return "", 0, err
				}
				cases = append(cases, fmt.Sprintf("(%s, %s)", leanStrEsc(s), leanStrEsc(fn.Name)))
				rows++
			}
		}
		if def == "" {
			return "", 0, fmt.Errorf("(*%s).UnmarshalText: no default arm", kind)
		}
		sep := ","
		if ki == len(kinds)-1 {
			sep = ""
		}
		fmt.Fprintf(&sb, "  (%s, [%s], %s)%s\n", leanStrEsc(kind), strings.Join(cases, ", "), leanStrEsc(def), sep)
	}
	sb.WriteString("]\n\nend ZapVerif.Gen\n")
	return sb.String(), rows, nil
}

// leanStrEsc renders a Go string as a Lean string literal (ASCII printable kept, the rest as \xNN / \uNNNN escapes).
func leanStrEsc(s string) string {
	var sb strings.Builder
	sb.WriteByte('"')
	for _, r := range s {
		switch {
		case r == '"':
			sb.WriteString("\\\"")
		case r == '\\':
			sb.WriteString("\\\\")
		case r == '\n':
			sb.WriteString("\\n")
		case r == '\t':
			sb.WriteString("\\t")
		case r >= 0x20 && r < 0x7f:
			sb.WriteRune(r)
		case r < 0x100:
			fmt.Fprintf(&sb, "\\x%02x", r)
		default:
			fmt.Fprintf(&sb, "\\u%04x", r)
		}
	}
	sb.WriteByte('"')
	return sb.String()
}

// flatStmts flattens a statement list into "<depth>:<text>" lines; an unknown statement form is an error.
func flatStmts(stmts []ast.Stmt, depth int, out *[]string) error {
	add := func(s string) { *out = append(*out, fmt.Sprintf("%d:%s", depth, s)) }
	for _, st := range stmts {
		switch s := st.(type) {
		case *ast.AssignStmt, *ast.ExprStmt:
			add(srcText(s))
		case *ast.ReturnStmt:
			var rs []string
			var lits []*ast.FuncLit
			for _, r := range s.Results {
				if fl, ok := r.(*ast.FuncLit); ok {
					lits = append(lits, fl)
					var ps []string
					for _, p := range fl.Type.Params.List {
						for _, n := range p.Names {
							ps = append(ps, n.Name+" "+exprString(p.Type))
						}
					}
					rs = append(rs, "func("+strings.Join(ps, ", ")+")")
				} else {
					rs = append(rs, srcText(r))
				}
			}
			add(strings.TrimSpace("return " + strings.Join(rs, ", ")))
			for _, fl := range lits {
				if err := flatStmts(fl.Body.List, depth+1, out); err != nil {
					return err
				}
			}
		case *ast.IfStmt:
			h := "if "
			if s.Init != nil {
				h += srcText(s.Init) + "; "
			}
			add(h + srcText(s.Cond))
			if err := flatStmts(s.Body.List, depth+1, out); err != nil {
				return err
			}
			if s.Else != nil {
				add("else")
				b, ok := s.Else.(*ast.BlockStmt)
				if !ok {
					return fmt.Errorf("else-if chains are not supported")
				}
				if err := flatStmts(b.List, depth+1, out); err != nil {
					return err
				}
			}
		case *ast.DeclStmt:
			gd, ok := s.Decl.(*ast.GenDecl)
			if !ok {
				return fmt.Errorf("unsupported declaration")
			}
			for _, sp := range gd.Specs {
				switch x := sp.(type) {
				case *ast.TypeSpec:
					it, ok := x.Type.(*ast.InterfaceType)
					if !ok {
						return fmt.Errorf("unsupported local type %s", x.Name.Name)
					}
					var ms []string
					for _, m := range it.Methods.List {
						for _, n := range m.Names {
							ft := m.Type.(*ast.FuncType)
							var ps []string
							for _, p := range ft.Params.List {
								ps = append(ps, exprString(p.Type))
							}
							ms = append(ms, n.Name+"("+strings.Join(ps, ", ")+")")
						}
					}
					add("type " + x.Name.Name + " interface{" + strings.Join(ms, "; ") + "}")
				case *ast.ValueSpec:
					var ns []string
					for _, n := range x.Names {
						ns = append(ns, n.Name)
					}
					add(gd.Tok.String() + " " + strings.Join(ns, ", ") + " " + exprString(x.Type))
				default:
					return fmt.Errorf("unsupported declaration spec %T", sp)
				}
			}
		default:
			return fmt.Errorf("unsupported statement %T", st)
		}
	}
	return nil
}
