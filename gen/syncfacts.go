package main

// SyncFacts — for every field of the shared (concurrently used) types of zap: every syntactic read/write site
// after construction together with the syntactic guard under which it happens. Pure go/parser + go/ast, no type
// checker: deliberately approximate, and over-approximating — what cannot be recognised is reported as an
// unguarded access (Guard.none) or an unknown call inside a critical section, never silently dropped.
//
// Recognised guards (see lean/ZapVerif/Model/SyncFacts.lean): a dominating `x.mu.Lock()` / `RLock()` in the same
// statement list (released by a later Unlock or a deferred one), methods of sync/atomic values, the function literal
// of `Once.Do`, statements after a call to the once-wrapper method, objects that are fresh in the function
// (`x.clone()`, `&T{…}`, `c := *h`), option closures (converted to a named func type; their `apply` sites are
// checked to receive fresh objects), `if x.f == nil { x.f = … }`, unexported helpers only ever called under the lock,
// methods only ever started with `go`, and statements after a critical section in the same function.
// Promoted methods of embedded interfaces that the type does not override count as UNGUARDED reads of the
// embedded field (this is what exposes lazyWithCore.Core).

import (
	"fmt"
	"go/ast"
	"go/parser"
	"go/token"
	"os"
	"path/filepath"
	"sort"
	"strings"
)

func init() {
	tables = append(tables, table{"SyncFacts", genSyncFacts})
}

type sfSpec struct {
	dir     string
	pkg     string
	types   []string
	globals []string // package-level variables treated as fields of the pseudo type "globals"
}

var sfSpecs = []sfSpec{
	{".", "zap", []string{"Logger", "SugaredLogger", "AtomicLevel", "loggerWriter"}, []string{"_globalMu", "_globalL", "_globalS"}},
	{"zapcore", "zapcore", []string{"lazyWithCore", "sampler", "counter", "hooked", "ioCore", "levelFilterCore", "lockedWriteSyncer", "writerWrapper", "BufferedWriteSyncer"}, nil},
	{"zaptest/observer", "observer", []string{"ObservedLogs", "contextObserver"}, nil},
	{"exp/zapslog", "zapslog", []string{"Handler"}, nil},
}

// method sets of embedded types that are not declared in the parsed packages
var sfBuiltinMethods = map[string][]string{
	"sync.Mutex":   {"Lock", "Unlock", "TryLock"},
	"sync.RWMutex": {"Lock", "Unlock", "RLock", "RUnlock", "TryLock", "TryRLock", "RLocker"},
	"sync.Once":    {"Do"},
	"io.Writer":    {"Write"},
}

// calls that may appear inside a critical section and are known not to block / take zap locks
var sfCSAllow = map[string]bool{
	"bufio.NewWriterSize": true, "multierr.Append": true, "Logger.Sugar": true,
}

var sfBuiltinFuncs = map[string]bool{"len": true, "cap": true, "append": true, "copy": true, "make": true, "new": true,
	"close": true, "panic": true, "delete": true, "min": true, "max": true, "string": true, "int": true, "int32": true,
	"int64": true, "uint64": true, "uint32": true, "int8": true, "bool": true, "byte": true}

type sfField struct {
	id       int // global id
	typ      *sfType
	name     string
	embedded bool
	kind     string // plain | mutex | rwmutex | once | atomic | patomic
	target   string // name of a target type in the same package this field points to / holds
	typeStr  string
}

type sfType struct {
	id      int
	pkg     *sfPkg
	name    string
	fields  []*sfField
	byName  map[string]*sfField
	methods map[string]*ast.FuncDecl
}

type sfPkg struct {
	spec      sfSpec
	files     []*ast.File
	types     map[string]*sfType
	funcTypes map[string]bool
	funcs     map[string]*ast.FuncDecl
	onceWrap  map[string]*sfField // "T.m" → once field
}

type sfSite struct {
	f       *sfField
	fn      string
	write   bool
	guard   string // none fresh optfn mu rmu atomic syncop onceBody afterOnce forked afterCS
	gid     int    // mutex / once field id for mu rmu onceBody afterOnce afterCS
	nilinit bool
	fnKey   string // "T.m" of the enclosing method ("" for plain functions / literals)
	pos     string
}

type sfCall struct {
	mu    int // mutex field id, -1 when no lock held (may be upgraded through helper inheritance)
	fnKey string
	fn    string
	what  string
	kind  int // 0 call on a field of the receiver, 1 harmless, 2 blocking op, 3 other lock, 4 unknown, 5 own exported method
}

type sfCallSite struct {
	held  map[int]int
	viaGo bool
	fn    string
}

type sfVar struct {
	typ   string
	fresh bool
	optfn bool
}

type sfCtx struct {
	deferred  map[int]bool // mutexes released by a deferred Unlock
	held      map[int]int // mutex field id → 1 exclusive, 2 shared
	onceBody  int         // once field id or -1
	afterOnce map[int]bool
	afterCS   map[int]bool
	nilinit   map[string]bool // "var.field" while inside `if var.field == nil {…}`
	env       map[string]sfVar
	fn        string
	fnKey     string
}

func (c *sfCtx) clone() *sfCtx {
	n := &sfCtx{deferred: map[int]bool{}, held: map[int]int{}, onceBody: c.onceBody, afterOnce: map[int]bool{}, afterCS: map[int]bool{},
		nilinit: map[string]bool{}, env: map[string]sfVar{}, fn: c.fn, fnKey: c.fnKey}
	for k, v := range c.held {
		n.held[k] = v
	}
	for k, v := range c.deferred {
		n.deferred[k] = v
	}
	for k, v := range c.afterOnce {
		n.afterOnce[k] = v
	}
	for k, v := range c.afterCS {
		n.afterCS[k] = v
	}
	for k, v := range c.nilinit {
		n.nilinit[k] = v
	}
	for k, v := range c.env {
		n.env[k] = v
	}
	return n
}

// fresh context for a function literal that runs at an unknown time (callback, returned closure, goroutine)
func (c *sfCtx) detached(suffix string) *sfCtx {
	n := c.clone()
	n.held = map[int]int{}
	n.deferred = map[int]bool{}
	n.onceBody = -1
	n.afterOnce = map[int]bool{}
	n.afterCS = map[int]bool{}
	n.nilinit = map[string]bool{}
	n.fn = c.fn + suffix
	n.fnKey = ""
	// captured variables keep their type but a captured fresh object may have been published meanwhile
	for k, v := range n.env {
		v.fresh = false
		v.optfn = false
		n.env[k] = v
	}
	return n
}

type sfState struct {
	fset      *token.FileSet
	pkgs      []*sfPkg
	ifaces    map[string][]string // interface name (bare and pkg-qualified) → methods
	fields    []*sfField
	sites     []*sfSite
	calls     []*sfCall
	callSites map[string][]sfCallSite // "T.m" → call sites
	applies   []sfApply
	cur       *sfPkg
	errs      []string
}

type sfApply struct {
	fn    string
	arg   string
	fresh bool
}

func genSyncFacts() (string, int, error) {
	st := &sfState{fset: token.NewFileSet(), ifaces: map[string][]string{}, callSites: map[string][]sfCallSite{}}
	for k, v := range sfBuiltinMethods {
		st.ifaces[k] = v
	}
	// parse
	for _, sp := range sfSpecs {
		p := &sfPkg{spec: sp, types: map[string]*sfType{}, funcTypes: map[string]bool{}, funcs: map[string]*ast.FuncDecl{}, onceWrap: map[string]*sfField{}}
		ents, err := os.ReadDir(filepath.Join(*repo, sp.dir))
		if err != nil {
			return "", 0, err
		}
		for _, e := range ents {
			n := e.Name()
			if e.IsDir() || !strings.HasSuffix(n, ".go") || strings.HasSuffix(n, "_test.go") {
				continue
			}
			f, err := parser.ParseFile(st.fset, filepath.Join(*repo, sp.dir, n), nil, 0)
			if err != nil {
				return "", 0, err
			}
			p.files = append(p.files, f)
		}
		st.pkgs = append(st.pkgs, p)
	}
	// interfaces (method sets), named func types, functions
	for _, p := range st.pkgs {
		for _, f := range p.files {
			for _, d := range f.Decls {
				switch d := d.(type) {
				case *ast.GenDecl:
					for _, s := range d.Specs {
						ts, ok := s.(*ast.TypeSpec)
						if !ok {
							continue
						}
						switch t := ts.Type.(type) {
						case *ast.InterfaceType:
							var ms []string
							for _, m := range t.Methods.List {
								if len(m.Names) > 0 {
									for _, n := range m.Names {
										ms = append(ms, n.Name)
									}
								} else {
									ms = append(ms, "embed:"+sfTypeStr(m.Type))
								}
							}
							st.ifaces[ts.Name.Name] = ms
							st.ifaces[p.spec.pkg+"."+ts.Name.Name] = ms
						case *ast.FuncType:
							p.funcTypes[ts.Name.Name] = true
						}
					}
				case *ast.FuncDecl:
					if d.Recv == nil {
						p.funcs[d.Name.Name] = d
					}
				}
			}
		}
	}
	// target types
	tid := 0
	for _, p := range st.pkgs {
		for _, tn := range p.spec.types {
			var spec *ast.TypeSpec
			for _, f := range p.files {
				for _, d := range f.Decls {
					if gd, ok := d.(*ast.GenDecl); ok {
						for _, s := range gd.Specs {
							if ts, ok := s.(*ast.TypeSpec); ok && ts.Name.Name == tn {
								spec = ts
							}
						}
					}
				}
			}
			if spec == nil {
				return "", 0, fmt.Errorf("type %s.%s not found", p.spec.pkg, tn)
			}
			stt, ok := spec.Type.(*ast.StructType)
			if !ok {
				return "", 0, fmt.Errorf("type %s.%s is no longer a struct", p.spec.pkg, tn)
			}
			t := &sfType{id: tid, pkg: p, name: tn, byName: map[string]*sfField{}, methods: map[string]*ast.FuncDecl{}}
			tid++
			for _, fl := range stt.Fields.List {
				ts := sfTypeStr(fl.Type)
				names := []string{}
				emb := false
				if len(fl.Names) == 0 {
					emb = true
					b := ts
					b = strings.TrimPrefix(b, "*")
					if i := strings.LastIndex(b, "."); i >= 0 {
						b = b[i+1:]
					}
					names = append(names, b)
				}
				for _, n := range fl.Names {
					names = append(names, n.Name)
				}
				for _, n := range names {
					fd := &sfField{id: len(st.fields), typ: t, name: n, embedded: emb, kind: sfKind(ts), typeStr: ts}
					st.fields = append(st.fields, fd)
					t.fields = append(t.fields, fd)
					t.byName[n] = fd
				}
			}
			p.types[tn] = t
		}
		if len(p.spec.globals) > 0 {
			t := &sfType{id: tid, pkg: p, name: "globals", byName: map[string]*sfField{}, methods: map[string]*ast.FuncDecl{}}
			tid++
			for _, g := range p.spec.globals {
				ts := ""
				for _, f := range p.files {
					for _, d := range f.Decls {
						if gd, ok := d.(*ast.GenDecl); ok && gd.Tok == token.VAR {
							for _, s := range gd.Specs {
								vs := s.(*ast.ValueSpec)
								for _, n := range vs.Names {
									if n.Name == g && vs.Type != nil {
										ts = sfTypeStr(vs.Type)
									}
								}
							}
						}
					}
				}
				fd := &sfField{id: len(st.fields), typ: t, name: g, kind: sfKind(ts), typeStr: ts}
				st.fields = append(st.fields, fd)
				t.fields = append(t.fields, fd)
				t.byName[g] = fd
			}
			p.types["globals"] = t
		}
		// field → target type links, methods
		for _, t := range p.types {
			for _, fd := range t.fields {
				b := strings.TrimPrefix(fd.typeStr, "*")
				if _, ok := p.types[b]; ok {
					fd.target = b
				}
			}
		}
		for _, f := range p.files {
			for _, d := range f.Decls {
				if fd, ok := d.(*ast.FuncDecl); ok && fd.Recv != nil && len(fd.Recv.List) == 1 {
					if t, ok := p.types[typeName(fd.Recv.List[0].Type)]; ok {
						t.methods[fd.Name.Name] = fd
					}
				}
			}
		}
	}
	// once wrappers: a method whose body is exactly `recv.<Once>.Do(func(){…})`
	for _, p := range st.pkgs {
		st.cur = p
		for _, t := range p.types {
			for mn, md := range t.methods {
				if md.Body == nil || len(md.Body.List) != 1 || len(md.Recv.List[0].Names) != 1 {
					continue
				}
				es, ok := md.Body.List[0].(*ast.ExprStmt)
				if !ok {
					continue
				}
				ce, ok := es.X.(*ast.CallExpr)
				if !ok {
					continue
				}
				env := map[string]sfVar{md.Recv.List[0].Names[0].Name: {typ: t.name}}
				if of := st.onceDo(ce, env); of != nil {
					p.onceWrap[t.name+"."+mn] = of
				}
			}
		}
	}
	// walk every function of every package
	for _, p := range st.pkgs {
		st.cur = p
		for _, f := range p.files {
			for _, d := range f.Decls {
				fd, ok := d.(*ast.FuncDecl)
				if !ok || fd.Body == nil {
					continue
				}
				ctx := &sfCtx{deferred: map[int]bool{}, held: map[int]int{}, onceBody: -1, afterOnce: map[int]bool{}, afterCS: map[int]bool{}, nilinit: map[string]bool{}, env: map[string]sfVar{}}
				ctx.fn = p.spec.pkg + "." + fd.Name.Name
				if fd.Recv != nil && len(fd.Recv.List) == 1 {
					rt := typeName(fd.Recv.List[0].Type)
					ctx.fn = p.spec.pkg + ".(" + rt + ")." + fd.Name.Name
					if _, ok := p.types[rt]; ok {
						ctx.fnKey = rt + "." + fd.Name.Name
						if len(fd.Recv.List[0].Names) == 1 {
							ctx.env[fd.Recv.List[0].Names[0].Name] = sfVar{typ: rt}
						}
					}
				}
				st.bindParams(fd.Type, ctx, false)
				st.walkStmts(fd.Body.List, ctx)
				st.checkReleased(ctx, fd.Body.Rbrace)
			}
		}
	}
	// promoted methods of embedded interfaces: unguarded reads of the embedded field
	for _, p := range st.pkgs {
		for _, tn := range sortedKeys(p.types) {
			t := p.types[tn]
			for _, fd := range t.fields {
				if !fd.embedded || fd.kind != "plain" {
					continue
				}
				ms := st.methodSet(fd.typeStr, 0)
				if ms == nil {
					if _, isTarget := p.types[strings.TrimPrefix(fd.typeStr, "*")]; !isTarget {
						st.errs = append(st.errs, fmt.Sprintf("embedded field %s.%s: unknown method set of %s", t.name, fd.name, fd.typeStr))
					}
					continue
				}
				for _, m := range ms {
					if _, own := t.methods[m]; own {
						continue
					}
					st.sites = append(st.sites, &sfSite{f: fd, fn: p.spec.pkg + ".(" + t.name + ")." + m + " [promoted from " + fd.typeStr + "]", guard: "none", gid: -1, pos: "-"})
				}
			}
		}
	}
	// helper inheritance: unexported methods only called under a lock / only started with `go`
	for key, css := range st.callSites {
		mname := key[strings.Index(key, ".")+1:]
		if ast.IsExported(mname) || len(css) == 0 {
			continue
		}
		allGo := true
		common := map[int]bool{}
		first := true
		for _, cs := range css {
			if !cs.viaGo {
				allGo = false
			}
			cur := map[int]bool{}
			for m, mode := range cs.held {
				if mode == 1 {
					cur[m] = true
				}
			}
			if first {
				common = cur
				first = false
			} else {
				for m := range common {
					if !cur[m] {
						delete(common, m)
					}
				}
			}
		}
		mu := -1
		for m := range common {
			if mu == -1 || m < mu {
				mu = m
			}
		}
		for _, s := range st.sites {
			if s.fnKey != key || s.guard != "none" {
				continue
			}
			if allGo {
				s.guard = "forked"
			} else if mu >= 0 {
				s.guard, s.gid = "mu", mu
			}
		}
		if mu >= 0 && !allGo {
			for _, c := range st.calls {
				if c.fnKey == key && c.mu < 0 {
					c.mu = mu
				}
			}
		}
	}
	for _, s := range st.sites {
		if s.guard == "none" && s.nilinit {
			s.guard = "nilinit"
		}
	}
	if len(st.errs) > 0 {
		sort.Strings(st.errs)
		return "", 0, fmt.Errorf("unsupported source shape: %s", strings.Join(st.errs, "; "))
	}
	return st.render()
}

func sortedKeys[V any](m map[string]V) []string {
	var ks []string
	for k := range m {
		ks = append(ks, k)
	}
	sort.Strings(ks)
	return ks
}

func sfTypeStr(e ast.Expr) string {
	switch t := e.(type) {
	case *ast.Ident:
		return t.Name
	case *ast.StarExpr:
		return "*" + sfTypeStr(t.X)
	case *ast.SelectorExpr:
		return sfTypeStr(t.X) + "." + t.Sel.Name
	case *ast.ArrayType:
		return "[]" + sfTypeStr(t.Elt)
	case *ast.ChanType:
		return "chan " + sfTypeStr(t.Value)
	case *ast.FuncType:
		return "func"
	case *ast.MapType:
		return "map"
	case *ast.InterfaceType:
		return "interface"
	case *ast.StructType:
		return "struct{}"
	case *ast.IndexExpr:
		return sfTypeStr(t.X)
	}
	return "?"
}

func sfKind(ts string) string {
	switch {
	case ts == "sync.Mutex":
		return "mutex"
	case ts == "sync.RWMutex":
		return "rwmutex"
	case ts == "sync.Once":
		return "once"
	case strings.HasPrefix(ts, "atomic."):
		return "atomic"
	case strings.HasPrefix(ts, "*atomic."):
		return "patomic"
	}
	return "plain"
}

func (st *sfState) methodSet(ts string, depth int) []string {
	if depth > 4 {
		return nil
	}
	ms, ok := st.ifaces[ts]
	if !ok {
		if i := strings.LastIndex(ts, "."); i >= 0 {
			ms, ok = st.ifaces[ts[i+1:]]
		}
	}
	if !ok {
		return nil
	}
	var out []string
	for _, m := range ms {
		if strings.HasPrefix(m, "embed:") {
			sub := st.methodSet(strings.TrimPrefix(m, "embed:"), depth+1)
			if sub == nil {
				return nil
			}
			out = append(out, sub...)
		} else {
			out = append(out, m)
		}
	}
	return out
}

func (st *sfState) pos(n ast.Node) string {
	p := st.fset.Position(n.Pos())
	rel, _ := filepath.Rel(*repo, p.Filename)
	return fmt.Sprintf("%s:%d", rel, p.Line)
}

func (st *sfState) bindParams(ft *ast.FuncType, ctx *sfCtx, optfn bool) {
	if ft.Params == nil {
		return
	}
	for _, fl := range ft.Params.List {
		tn := strings.TrimPrefix(sfTypeStr(fl.Type), "*")
		for _, n := range fl.Names {
			if _, ok := st.cur.types[tn]; ok {
				ctx.env[n.Name] = sfVar{typ: tn, optfn: optfn}
			} else {
				delete(ctx.env, n.Name)
			}
		}
	}
}

// typeOf resolves an expression to a target type of the current package (best effort).
func (st *sfState) typeOf(e ast.Expr, ctx *sfCtx) (sfVar, bool) {
	switch x := e.(type) {
	case *ast.Ident:
		v, ok := ctx.env[x.Name]
		return v, ok
	case *ast.ParenExpr:
		return st.typeOf(x.X, ctx)
	case *ast.StarExpr:
		v, ok := st.typeOf(x.X, ctx)
		if ok {
			v.fresh, v.optfn = true, false // a copy
		}
		return v, ok
	case *ast.UnaryExpr:
		if x.Op == token.AND {
			if cl, ok := x.X.(*ast.CompositeLit); ok {
				return st.typeOf(cl, ctx)
			}
		}
	case *ast.CompositeLit:
		tn := sfTypeStr(x.Type)
		if _, ok := st.cur.types[tn]; ok {
			return sfVar{typ: tn, fresh: true}, true
		}
	case *ast.SelectorExpr:
		if bv, ok := st.typeOf(x.X, ctx); ok {
			if fd := st.cur.types[bv.typ].byName[x.Sel.Name]; fd != nil && fd.target != "" {
				return sfVar{typ: fd.target, fresh: bv.fresh}, true
			}
		}
	case *ast.CallExpr:
		switch f := x.Fun.(type) {
		case *ast.SelectorExpr:
			if bv, ok := st.typeOf(f.X, ctx); ok {
				if md := st.cur.types[bv.typ].methods[f.Sel.Name]; md != nil {
					if rt := st.resultType(md.Type); rt != "" {
						return sfVar{typ: rt, fresh: f.Sel.Name == "clone"}, true
					}
				}
			}
		case *ast.Ident:
			if fd := st.cur.funcs[f.Name]; fd != nil {
				if rt := st.resultType(fd.Type); rt != "" {
					return sfVar{typ: rt, fresh: strings.HasPrefix(f.Name, "New") || strings.HasPrefix(f.Name, "new")}, true
				}
			}
		}
	}
	return sfVar{}, false
}

func (st *sfState) resultType(ft *ast.FuncType) string {
	if ft.Results == nil || len(ft.Results.List) == 0 {
		return ""
	}
	tn := strings.TrimPrefix(sfTypeStr(ft.Results.List[0].Type), "*")
	if _, ok := st.cur.types[tn]; ok {
		return tn
	}
	return ""
}

// fieldOf resolves `X.f` / a global identifier to a target field.
func (st *sfState) fieldOf(e ast.Expr, ctx *sfCtx) (*sfField, sfVar, string) {
	switch x := e.(type) {
	case *ast.SelectorExpr:
		if bv, ok := st.typeOf(x.X, ctx); ok {
			if fd := st.cur.types[bv.typ].byName[x.Sel.Name]; fd != nil {
				return fd, bv, sfExprStr(x.X) + "." + x.Sel.Name
			}
		}
	case *ast.Ident:
		if g, ok := st.cur.types["globals"]; ok {
			if _, shadow := ctx.env[x.Name]; !shadow {
				if fd := g.byName[x.Name]; fd != nil {
					return fd, sfVar{typ: "globals"}, x.Name
				}
			}
		}
	}
	return nil, sfVar{}, ""
}

func sfExprStr(e ast.Expr) string {
	switch x := e.(type) {
	case *ast.Ident:
		return x.Name
	case *ast.SelectorExpr:
		return sfExprStr(x.X) + "." + x.Sel.Name
	case *ast.ParenExpr:
		return sfExprStr(x.X)
	case *ast.StarExpr:
		return "*" + sfExprStr(x.X)
	case *ast.CallExpr:
		return sfExprStr(x.Fun) + "()"
	case *ast.IndexExpr:
		return sfExprStr(x.X) + "[]"
	}
	return "?"
}

func (st *sfState) record(fd *sfField, bv sfVar, write bool, ctx *sfCtx, forced string, n ast.Node, key string) {
	s := &sfSite{f: fd, fn: ctx.fn, write: write, guard: "none", gid: -1, fnKey: ctx.fnKey, pos: st.pos(n)}
	pick := func(m map[int]bool) int {
		best := -1
		for k := range m {
			if best == -1 || k < best {
				best = k
			}
		}
		return best
	}
	switch {
	case forced != "":
		s.guard = forced
	case bv.fresh:
		s.guard = "fresh"
	case bv.optfn:
		s.guard = "optfn"
	case len(ctx.held) > 0:
		// prefer a mutex of the same type as the field (the one that is meant to guard it)
		best, mode := -1, 0
		for k, md := range ctx.held {
			same := st.fields[k].typ == fd.typ
			if best == -1 || (same && st.fields[best].typ != fd.typ) || (same == (st.fields[best].typ == fd.typ) && k < best) {
				best, mode = k, md
			}
		}
		s.gid = best
		if mode == 1 {
			s.guard = "mu"
		} else {
			s.guard = "rmu"
		}
	case ctx.onceBody >= 0:
		s.guard, s.gid = "onceBody", ctx.onceBody
	case len(ctx.afterOnce) > 0:
		s.guard, s.gid = "afterOnce", pick(ctx.afterOnce)
	case len(ctx.afterCS) > 0:
		s.guard, s.gid = "afterCS", pick(ctx.afterCS)
	}
	if write && ctx.nilinit[key] {
		s.nilinit = true
	}
	st.sites = append(st.sites, s)
}

// mutexOf: is `e` (the receiver of a Lock/Unlock call) a mutex field of a target?
func (st *sfState) mutexOf(e ast.Expr, method string, ctx *sfCtx) *sfField {
	if fd, _, _ := st.fieldOf(e, ctx); fd != nil && (fd.kind == "mutex" || fd.kind == "rwmutex") {
		return fd
	}
	// promoted through an embedded mutex: s.Lock()
	if bv, ok := st.typeOf(e, ctx); ok {
		t := st.cur.types[bv.typ]
		if _, own := t.methods[method]; !own {
			for _, fd := range t.fields {
				if fd.embedded && (fd.kind == "mutex" || fd.kind == "rwmutex") {
					return fd
				}
			}
		}
	}
	return nil
}

// onceDo: is the call `X.<once>.Do(f)` / `X.Do(f)` on a target's Once? returns the once field
func (st *sfState) onceDo(ce *ast.CallExpr, env map[string]sfVar) *sfField {
	sel, ok := ce.Fun.(*ast.SelectorExpr)
	if !ok || sel.Sel.Name != "Do" || len(ce.Args) != 1 {
		return nil
	}
	ctx := &sfCtx{env: env}
	if fd, _, _ := st.fieldOf(sel.X, ctx); fd != nil && fd.kind == "once" {
		return fd
	}
	if bv, ok := st.typeOf(sel.X, ctx); ok {
		t := st.cur.types[bv.typ]
		if _, own := t.methods["Do"]; !own {
			for _, fd := range t.fields {
				if fd.embedded && fd.kind == "once" {
					return fd
				}
			}
		}
	}
	return nil
}

func (st *sfState) addCall(ctx *sfCtx, what string, kind int) {
	mu := -1
	for k, md := range ctx.held {
		if md == 1 || md == 2 {
			if mu == -1 || k < mu {
				mu = k
			}
		}
	}
	st.calls = append(st.calls, &sfCall{mu: mu, fnKey: ctx.fnKey, fn: ctx.fn, what: what, kind: kind})
}

// checkReleased: leaving a function while a lock taken by an explicit Lock() has no (deferred) Unlock
func (st *sfState) checkReleased(ctx *sfCtx, p token.Pos) {
	for m := range ctx.held {
		if !ctx.deferred[m] {
			pp := st.fset.Position(p)
			rel, _ := filepath.Rel(*repo, pp.Filename)
			st.errs = append(st.errs, fmt.Sprintf("%s:%d: %s returns with %s.%s still locked", rel, pp.Line, ctx.fn, st.fields[m].typ.name, st.fields[m].name))
		}
	}
}

// walkStmts walks a statement list in order, threading lock state; returns the mutexes for which a critical section
// was opened inside (used for afterCS of the caller when the list is the body of an immediately invoked literal).
func (st *sfState) walkStmts(list []ast.Stmt, ctx *sfCtx) map[int]bool {
	opened := map[int]bool{}
	for _, s := range list {
		st.walkStmt(s, ctx, opened)
	}
	return opened
}

func (st *sfState) lockCall(s ast.Stmt, ctx *sfCtx) (fd *sfField, method string, ok bool) {
	var ce *ast.CallExpr
	switch x := s.(type) {
	case *ast.ExprStmt:
		ce, _ = x.X.(*ast.CallExpr)
	case *ast.DeferStmt:
		ce = x.Call
	}
	if ce == nil {
		return nil, "", false
	}
	sel, isSel := ce.Fun.(*ast.SelectorExpr)
	if !isSel {
		return nil, "", false
	}
	switch sel.Sel.Name {
	case "Lock", "Unlock", "RLock", "RUnlock":
		if m := st.mutexOf(sel.X, sel.Sel.Name, ctx); m != nil {
			return m, sel.Sel.Name, true
		}
	}
	return nil, "", false
}

func (st *sfState) walkStmt(s ast.Stmt, ctx *sfCtx, opened map[int]bool) {
	if s == nil {
		return
	}
	if m, method, ok := st.lockCall(s, ctx); ok {
		st.sites = append(st.sites, &sfSite{f: m, fn: ctx.fn, guard: "syncop", gid: -1, fnKey: ctx.fnKey, pos: st.pos(s)})
		if _, isDefer := s.(*ast.DeferStmt); isDefer {
			ctx.deferred[m.id] = true
			return // held until the function returns
		}
		switch method {
		case "Lock":
			if len(ctx.held) > 0 {
				st.addCall(ctx, "Lock of "+m.typ.name+"."+m.name, 3)
			}
			ctx.held[m.id] = 1
			opened[m.id] = true
		case "RLock":
			if len(ctx.held) > 0 {
				st.addCall(ctx, "RLock of "+m.typ.name+"."+m.name, 3)
			}
			ctx.held[m.id] = 2
			opened[m.id] = true
		default:
			delete(ctx.held, m.id)
			ctx.afterCS[m.id] = true
		}
		return
	}
	switch x := s.(type) {
	case *ast.ExprStmt:
		st.visit(x.X, false, ctx, opened)
		// once wrapper / direct Once.Do: later statements are "after once"
		if ce, ok := x.X.(*ast.CallExpr); ok {
			if of := st.onceDo(ce, ctx.env); of != nil {
				ctx.afterOnce[of.id] = true
			} else if sel, ok := ce.Fun.(*ast.SelectorExpr); ok {
				if bv, ok := st.typeOf(sel.X, ctx); ok {
					if of := st.cur.onceWrap[bv.typ+"."+sel.Sel.Name]; of != nil {
						ctx.afterOnce[of.id] = true
					}
				}
			}
		}
	case *ast.AssignStmt:
		for _, r := range x.Rhs {
			st.visit(r, false, ctx, opened)
		}
		for i, l := range x.Lhs {
			if id, ok := l.(*ast.Ident); ok {
				if fd, bv, key := st.fieldOf(id, ctx); fd != nil && x.Tok != token.DEFINE {
					st.record(fd, bv, true, ctx, "", l, key)
					continue
				}
				// bind local
				if len(x.Lhs) == len(x.Rhs) {
					if v, ok := st.typeOf(x.Rhs[i], ctx); ok {
						ctx.env[id.Name] = v
					} else if x.Tok == token.DEFINE {
						delete(ctx.env, id.Name)
					}
				} else if x.Tok == token.DEFINE {
					delete(ctx.env, id.Name)
				}
				continue
			}
			st.visit(l, true, ctx, opened)
		}
	case *ast.IncDecStmt:
		st.visit(x.X, true, ctx, opened)
	case *ast.DeclStmt:
		if gd, ok := x.Decl.(*ast.GenDecl); ok {
			for _, sp := range gd.Specs {
				if vs, ok := sp.(*ast.ValueSpec); ok {
					for _, v := range vs.Values {
						st.visit(v, false, ctx, opened)
					}
					for i, n := range vs.Names {
						delete(ctx.env, n.Name)
						if i < len(vs.Values) {
							if v, ok := st.typeOf(vs.Values[i], ctx); ok {
								ctx.env[n.Name] = v
							}
						} else if vs.Type != nil {
							tn := strings.TrimPrefix(sfTypeStr(vs.Type), "*")
							if _, ok := st.cur.types[tn]; ok {
								ctx.env[n.Name] = sfVar{typ: tn, fresh: !strings.HasPrefix(sfTypeStr(vs.Type), "*")}
							}
						}
					}
				}
			}
		}
	case *ast.ReturnStmt:
		for _, r := range x.Results {
			st.visit(r, false, ctx, opened)
		}
		st.checkReleased(ctx, x.Pos())
	case *ast.DeferStmt:
		// a deferred call runs at function exit: locks held by defer-unlock are still held, explicit ones are not known
		st.visit(x.Call, false, ctx, opened)
	case *ast.GoStmt:
		st.visitCall(x.Call, ctx, opened, true)
	case *ast.BlockStmt:
		st.nested(x.List, ctx, opened)
	case *ast.IfStmt:
		c := ctx.clone()
		if x.Init != nil {
			st.walkStmt(x.Init, c, opened)
		}
		st.visit(x.Cond, false, c, opened)
		body := c.clone()
		// `if v.f == nil { v.f = … }`
		if be, ok := x.Cond.(*ast.BinaryExpr); ok && be.Op == token.EQL {
			if id, ok := be.Y.(*ast.Ident); ok && id.Name == "nil" {
				if fd, _, key := st.fieldOf(be.X, c); fd != nil {
					body.nilinit[key] = true
				}
			}
		}
		st.nested(x.Body.List, body, opened)
		if x.Else != nil {
			st.walkStmt(x.Else, c.clone(), opened)
		}
	case *ast.ForStmt:
		c := ctx.clone()
		if x.Init != nil {
			st.walkStmt(x.Init, c, opened)
		}
		if x.Cond != nil {
			st.visit(x.Cond, false, c, opened)
		}
		if x.Post != nil {
			st.walkStmt(x.Post, c, opened)
		}
		st.nested(x.Body.List, c, opened)
	case *ast.RangeStmt:
		c := ctx.clone()
		st.visit(x.X, false, c, opened)
		for _, kv := range []ast.Expr{x.Key, x.Value} {
			if id, ok := kv.(*ast.Ident); ok {
				delete(c.env, id.Name)
			}
		}
		st.nested(x.Body.List, c, opened)
	case *ast.SwitchStmt:
		c := ctx.clone()
		if x.Init != nil {
			st.walkStmt(x.Init, c, opened)
		}
		if x.Tag != nil {
			st.visit(x.Tag, false, c, opened)
		}
		for _, cc := range x.Body.List {
			cl := cc.(*ast.CaseClause)
			for _, e := range cl.List {
				st.visit(e, false, c, opened)
			}
			st.nested(cl.Body, c.clone(), opened)
		}
	case *ast.TypeSwitchStmt:
		c := ctx.clone()
		if x.Init != nil {
			st.walkStmt(x.Init, c, opened)
		}
		st.walkStmt(x.Assign, c, opened)
		for _, cc := range x.Body.List {
			st.nested(cc.(*ast.CaseClause).Body, c.clone(), opened)
		}
	case *ast.SelectStmt:
		if len(ctx.held) > 0 {
			st.addCall(ctx, "select", 2)
		}
		for _, cc := range x.Body.List {
			cl := cc.(*ast.CommClause)
			c := ctx.clone()
			if cl.Comm != nil {
				st.walkStmt(cl.Comm, c, opened)
			}
			st.nested(cl.Body, c, opened)
		}
	case *ast.SendStmt:
		if len(ctx.held) > 0 {
			st.addCall(ctx, "channel send", 2)
		}
		st.visit(x.Chan, false, ctx, opened)
		st.visit(x.Value, false, ctx, opened)
	case *ast.LabeledStmt:
		st.walkStmt(x.Stmt, ctx, opened)
	case *ast.BranchStmt, *ast.EmptyStmt:
	default:
		st.errs = append(st.errs, fmt.Sprintf("%s: statement %T", st.pos(s), s))
	}
}

// nested blocks get a copy of the lock state; a nested block that changes it must end in return (else unsupported)
func (st *sfState) nested(list []ast.Stmt, ctx *sfCtx, opened map[int]bool) {
	c := ctx.clone()
	before := fmt.Sprint(c.held)
	st.walkStmts(list, c)
	for k := range c.afterCS {
		_ = k
	}
	if fmt.Sprint(c.held) != before && len(list) > 0 {
		if _, ok := list[len(list)-1].(*ast.ReturnStmt); !ok {
			st.errs = append(st.errs, fmt.Sprintf("%s: lock state changes inside a nested block that does not return", st.pos(list[0])))
		}
	}
	// variables bound in the block do not escape; once/CS progress inside a conditional block is not assumed afterwards
}

func (st *sfState) visit(e ast.Expr, write bool, ctx *sfCtx, opened map[int]bool) {
	switch x := e.(type) {
	case nil:
	case *ast.Ident:
		if fd, bv, key := st.fieldOf(x, ctx); fd != nil {
			st.record(fd, bv, write, ctx, "", x, key)
		}
	case *ast.SelectorExpr:
		if fd, bv, key := st.fieldOf(x, ctx); fd != nil {
			st.record(fd, bv, write, ctx, "", x, key)
		}
		st.visit(x.X, false, ctx, opened)
	case *ast.CallExpr:
		st.visitCall(x, ctx, opened, false)
	case *ast.FuncLit:
		c := ctx.detached(" [func literal]")
		st.bindParams(x.Type, c, false)
		st.walkStmts(x.Body.List, c)
		st.checkReleased(c, x.Body.Rbrace)
	case *ast.StarExpr:
		if bv, ok := st.typeOf(x.X, ctx); ok {
			// whole-struct copy: reads every field
			for _, fd := range st.cur.types[bv.typ].fields {
				if fd.kind == "plain" || fd.kind == "patomic" {
					st.record(fd, bv, write, ctx, "", x, "")
				}
			}
		}
		st.visit(x.X, false, ctx, opened)
	case *ast.UnaryExpr:
		if x.Op == token.ARROW && len(ctx.held) > 0 {
			st.addCall(ctx, "channel receive", 2)
		}
		st.visit(x.X, false, ctx, opened)
	case *ast.BinaryExpr:
		st.visit(x.X, false, ctx, opened)
		st.visit(x.Y, false, ctx, opened)
	case *ast.ParenExpr:
		st.visit(x.X, write, ctx, opened)
	case *ast.IndexExpr:
		st.visit(x.X, write, ctx, opened)
		st.visit(x.Index, false, ctx, opened)
	case *ast.SliceExpr:
		st.visit(x.X, false, ctx, opened)
		st.visit(x.Low, false, ctx, opened)
		st.visit(x.High, false, ctx, opened)
		st.visit(x.Max, false, ctx, opened)
	case *ast.TypeAssertExpr:
		st.visit(x.X, false, ctx, opened)
	case *ast.IndexListExpr:
		st.visit(x.X, false, ctx, opened)
	case *ast.CompositeLit:
		for _, el := range x.Elts {
			if kv, ok := el.(*ast.KeyValueExpr); ok {
				st.visit(kv.Value, false, ctx, opened)
			} else {
				st.visit(el, false, ctx, opened)
			}
		}
	case *ast.KeyValueExpr:
		st.visit(x.Value, false, ctx, opened)
	case *ast.BasicLit, *ast.ArrayType, *ast.MapType, *ast.FuncType, *ast.InterfaceType, *ast.StructType, *ast.ChanType, *ast.Ellipsis:
	default:
		st.errs = append(st.errs, fmt.Sprintf("%s: expression %T", st.pos(e), e))
	}
}

func (st *sfState) visitCall(ce *ast.CallExpr, ctx *sfCtx, opened map[int]bool, viaGo bool) {
	inCS := len(ctx.held) > 0 || ctx.fnKey != ""
	// immediately invoked function literal: runs inline
	if fl, ok := ce.Fun.(*ast.FuncLit); ok {
		for _, a := range ce.Args {
			st.visit(a, false, ctx, opened)
		}
		if viaGo {
			c := ctx.detached(" [go func]")
			st.bindParams(fl.Type, c, false)
			st.walkStmts(fl.Body.List, c)
			return
		}
		c := ctx.clone()
		c.fn = ctx.fn + " [inline func]"
		for m := range ctx.held { // the literal runs inline: the caller's locks stay held inside and are the caller's to release
			c.deferred[m] = true
		}
		st.bindParams(fl.Type, c, false)
		op := st.walkStmts(fl.Body.List, c)
		st.checkReleased(c, fl.Body.Rbrace)
		for m := range op {
			if _, still := ctx.held[m]; !still {
				ctx.afterCS[m] = true
			}
		}
		return
	}
	// conversion of a literal to a named func type: an option closure
	if id, ok := ce.Fun.(*ast.Ident); ok && st.cur.funcTypes[id.Name] && len(ce.Args) == 1 {
		if fl, ok := ce.Args[0].(*ast.FuncLit); ok {
			c := ctx.detached(" [" + id.Name + " literal]")
			st.bindParams(fl.Type, c, true)
			st.walkStmts(fl.Body.List, c)
			return
		}
	}
	// Once.Do(func(){…})
	if of := st.onceDo(ce, ctx.env); of != nil {
		st.sites = append(st.sites, &sfSite{f: of, fn: ctx.fn, guard: "syncop", gid: -1, fnKey: ctx.fnKey, pos: st.pos(ce)})
		if fl, ok := ce.Args[0].(*ast.FuncLit); ok {
			c := ctx.clone()
			c.onceBody = of.id
			c.held = map[int]int{}
			c.fn = ctx.fn + " [Once.Do literal]"
			st.walkStmts(fl.Body.List, c)
		} else {
			st.visit(ce.Args[0], false, ctx, opened)
		}
		if sel, ok := ce.Fun.(*ast.SelectorExpr); ok {
			if s2, ok := sel.X.(*ast.SelectorExpr); ok {
				st.visit(s2.X, false, ctx, opened)
			}
		}
		return
	}
	for _, a := range ce.Args {
		st.visit(a, false, ctx, opened)
	}
	switch f := ce.Fun.(type) {
	case *ast.Ident:
		if fd, bv, key := st.fieldOf(f, ctx); fd != nil { // calling a global func value
			st.record(fd, bv, false, ctx, "", f, key)
		}
		if inCS && !sfBuiltinFuncs[f.Name] && !st.cur.funcTypes[f.Name] {
			kind := 4
			if _, local := st.cur.funcs[f.Name]; local && (f.Name == "addFields") {
				kind = 1
			}
			if _, local := st.cur.funcs[f.Name]; !local {
				if _, isType := st.cur.types[f.Name]; !isType {
					kind = 6 // a function value (parameter / local): user callback
				}
			}
			st.noteCall(ctx, f.Name, kind)
		}
	case *ast.SelectorExpr:
		// calling a func-valued field (s.hook(…), l.logFunc(…)): a read of that field
		if fd, bv, key := st.fieldOf(f, ctx); fd != nil {
			st.record(fd, bv, false, ctx, "", f, key)
			st.noteCall(ctx, sfExprStr(f), 4)
			st.visit(f.X, false, ctx, opened)
			return
		}
		// method of an atomic field
		if fd, bv, key := st.fieldOf(f.X, ctx); fd != nil && (fd.kind == "atomic" || fd.kind == "patomic") {
			w := f.Sel.Name != "Load"
			if fd.kind == "atomic" {
				st.record(fd, bv, w, ctx, "atomic", f, key)
			} else {
				st.record(fd, bv, false, ctx, "", f, key) // the pointer itself is read plainly; the pointee atomically
			}
			if s2, ok := f.X.(*ast.SelectorExpr); ok {
				st.visit(s2.X, false, ctx, opened)
			}
			return
		}
		// apply(x): option application
		if f.Sel.Name == "apply" && len(ce.Args) == 1 {
			if v, ok := st.typeOf(ce.Args[0], ctx); ok {
				st.applies = append(st.applies, sfApply{fn: ctx.fn, arg: sfExprStr(ce.Args[0]), fresh: v.fresh})
			}
		}
		if bv, ok := st.typeOf(f.X, ctx); ok {
			t := st.cur.types[bv.typ]
			if _, own := t.methods[f.Sel.Name]; own {
				held := map[int]int{}
				for k, v := range ctx.held {
					held[k] = v
				}
				st.callSites[bv.typ+"."+f.Sel.Name] = append(st.callSites[bv.typ+"."+f.Sel.Name], sfCallSite{held: held, viaGo: viaGo, fn: ctx.fn})
				kind := 1
				if ast.IsExported(f.Sel.Name) && !viaGo {
					kind = 4
					if sfCSAllow[bv.typ+"."+f.Sel.Name] {
						kind = 1
					}
					for k := range ctx.held {
						if st.fields[k].typ == t {
							kind = 5 // re-entering the own object while holding its lock
						}
					}
				}
				st.noteCall(ctx, sfExprStr(f.X)+"."+f.Sel.Name, kind)
				st.visit(f.X, false, ctx, opened)
				return
			}
			if t.byName[f.Sel.Name] == nil {
				// promoted method through an embedded field: a read of that field
				var via *sfField
				for _, fd := range t.fields {
					if !fd.embedded {
						continue
					}
					for _, m := range st.methodSet(fd.typeStr, 0) {
						if m == f.Sel.Name {
							via = fd
						}
					}
				}
				if via == nil {
					for _, fd := range t.fields {
						if fd.embedded && fd.kind == "plain" && via == nil {
							via = fd
						}
					}
				}
				if via != nil {
					if via.kind == "plain" {
						st.record(via, bv, false, ctx, "", f, "")
						st.noteCall(ctx, sfExprStr(f.X)+"."+via.name+"."+f.Sel.Name, 0)
					}
					st.visit(f.X, false, ctx, opened)
					return
				}
			}
		}
		// call on a field of a target (the wrapped object) or anything else
		if fd, _, _ := st.fieldOf(f.X, ctx); fd != nil {
			kind := 0
			if f.Sel.Name == "Wait" {
				kind = 2
			}
			st.noteCall(ctx, sfExprStr(f.X)+"."+f.Sel.Name, kind)
		} else {
			name := sfExprStr(f.X) + "." + f.Sel.Name
			kind := 4
			if sfCSAllow[name] {
				kind = 1
			}
			if f.Sel.Name == "Wait" || name == "time.Sleep" {
				kind = 2
			}
			st.noteCall(ctx, name, kind)
		}
		st.visit(f.X, false, ctx, opened)
	default:
		st.visit(ce.Fun, false, ctx, opened)
	}
}

// noteCall records a call for the critical-section table (only calls made while a lock is held, or inside a method that
// may turn out to be a lock-inheriting helper, are kept; the latter are dropped at render time when not upgraded).
func (st *sfState) noteCall(ctx *sfCtx, what string, kind int) {
	if len(ctx.held) > 0 || ctx.fnKey != "" {
		st.addCall(ctx, what, kind)
	}
}

func (st *sfState) render() (string, int, error) {
	var sb strings.Builder
	sb.WriteString("import ZapVerif.Model.SyncFacts\nnamespace ZapVerif.Gen.SyncFacts\nopen ZapVerif.SyncFacts\n\n")
	// function-name table
	fnIdx := map[string]int{}
	var fns []string
	for _, s := range st.sites {
		if _, ok := fnIdx[s.fn]; !ok {
			fnIdx[s.fn] = len(fns)
			fns = append(fns, s.fn)
		}
	}
	sb.WriteString("/-! functions (index → name)\n")
	for i, f := range fns {
		fmt.Fprintf(&sb, "  %d  %s\n", i, f)
	}
	sb.WriteString("-/\n\n")
	guard := func(s *sfSite) string {
		switch s.guard {
		case "mu", "rmu", "onceBody", "afterOnce", "afterCS":
			return fmt.Sprintf("(.%s %d)", s.guard, s.gid)
		}
		return "." + s.guard
	}
	rows := 0
	var rowNames []string
	for _, fd := range st.fields {
		var ss []*sfSite
		for _, s := range st.sites {
			if s.f == fd {
				ss = append(ss, s)
			}
		}
		fmt.Fprintf(&sb, "/-- %s.%s.%s : %s (field id %d) -/\n", fd.typ.pkg.spec.pkg, fd.typ.name, fd.name, fd.typeStr, fd.id)
		fmt.Fprintf(&sb, "def f%d : List Site := [", fd.id)
		for i, s := range ss {
			if i > 0 {
				sb.WriteString(",")
			}
			rw := "false"
			if s.write {
				rw = "true"
			}
			fmt.Fprintf(&sb, "\n  ⟨%d, %s, %s⟩  /- %s %s -/", fnIdx[s.fn], rw, guard(s), s.pos, map[bool]string{true: "write", false: "read"}[s.write])
			rows++
		}
		sb.WriteString("]\n\n")
		rowNames = append(rowNames, fmt.Sprintf("(%d, %d, f%d)", fd.typ.id, fd.id, fd.id))
	}
	sb.WriteString("/-- (type id, field id, sites) for every field of every shared type -/\n")
	sb.WriteString("def table : List Row := [\n  " + strings.Join(rowNames, ",\n  ") + "]\n\n")
	var names []string
	for _, fd := range st.fields {
		names = append(names, fmt.Sprintf("%q", fd.typ.pkg.spec.pkg+"."+fd.typ.name+"."+fd.name))
	}
	sb.WriteString("/-- field id → name (for reports only) -/\ndef fieldNames : List String := [\n  " + strings.Join(names, ",\n  ") + "]\n\n")
	// apply sites
	sb.WriteString("/-- every `opt.apply(x)` site: is x a fresh (unshared) object? -/\ndef applySites : List Bool := [")
	for i, a := range st.applies {
		if i > 0 {
			sb.WriteString(", ")
		}
		fmt.Fprintf(&sb, "%v /- %s: apply(%s) -/", a.fresh, a.fn, a.arg)
	}
	sb.WriteString("]\n\n")
	// calls inside critical sections
	sb.WriteString("/-- calls and blocking operations inside critical sections: (mutex field id, kind)\n    kind 0 = method of a field of the receiver (the wrapped object), 1 = known non-blocking / own unexported helper,\n    2 = blocking operation (channel op, select, Wait, Sleep), 3 = acquisition of another lock, 4 = unknown target,\n    5 = own exported method (re-entrancy), 6 = function value (callback parameter) -/\ndef csCalls : List (Nat × Nat) := [")
	n := 0
	for _, c := range st.calls {
		if c.mu < 0 {
			continue
		}
		if n > 0 {
			sb.WriteString(",")
		}
		fmt.Fprintf(&sb, "\n  (%d, %d)  /- %s: %s -/", c.mu, c.kind, c.fn, c.what)
		n++
	}
	sb.WriteString("]\n\nend ZapVerif.Gen.SyncFacts\n")
	return sb.String(), rows, nil
}
