package main

// trans.go — a mechanical translator from a small subset of Go to the GoMini deep embedding
// (lean/ZapVerif/Model/GoMini.lean).  go/parser + go/ast + go/constant only.
//
// The translator is generic over the subset; what it knows about a particular function is its whitelist entry
// (trans_specs.go): the file, the function, how receiver fields map to GoMini fields, the meaning of named types
// and constants, and the list of calls the function may make (shims).  Anything else — an unknown statement or
// expression kind, a call without a shim, a type it cannot determine, shadowed control flow (labels, goto,
// fallthrough, go, closures, defer other than a top-level `defer recv.M()` of a recorded intrinsic), an element assignment, an `append` that is not `x = append(x, …)` — makes
// the whole table FAIL (the table is removed and reported as `gen:Trans<Name> <reason>`); nothing is skipped or
// approximated.  See docs/TRANSLATOR.md.

import (
	"regexp"
	"fmt"
	"go/ast"
	"go/constant"
	"go/parser"
	"go/printer"
	"go/token"
	"path/filepath"
	"sort"
	"strconv"
	"strings"
)

// ---------------------------------------------------------------- whitelist entry types

// shim says what a call means in GoMini.
//
//	kind "builtin"/"ext": expression  f(recv?, args…)            (one result; recv is passed first for methods)
//	kind "len":           expression  len(recv)
//	kind "self":          expression  recv                        (Buffer.Bytes(), Buffer.String())
//	kind "lit":           expression  the literal f (a GoMini value), of static type res[0]   (bufferpool.Get() = empty buffer)
//	kind "nop":           statement   nothing                     (buf.Free(): returning a buffer to its pool has no meaning here)
//	kind "mut":           statement   recv = f(recv, args…)       (recv must be assignable)
//	kind "set":           statement   recv = <zero value / args[0]>  (Reset(), Store(v))
//	kind "addret":        statement   recv = recv + arg (at width f); lhs = recv          (atomic Add, sequential meaning)
//	kind "cas":           statement   if recv == old { recv = new; lhs = true } else { lhs = false }   (CompareAndSwap)
//	kind "fresh":         statement   recv = f()  where recv is the (pointer) receiver variable itself: the receiver now
//	                                  denotes a FRESH zeroed object — every field listed in flds gets its zero value and
//	                                  the nil-ness pseudo-field becomes false (getCheckedEntry(): pool Get + reset)
//	kind "extstmt":       statement   lhs… = f(recv?, args…)      (several results, external intrinsic)
//	kind "mutext":        statement   recv, lhs… = f(recv, args…) (external intrinsic that also updates its receiver)
//	kind "funOn":         statement   lhs… = translated function f(args…) called on a HANDLE (a local of a named type):
//	                                  the whitelist entry declares that the handle designates the object whose fields
//	                                  are part of this function's field environment
//	kind "fun":           statement   lhs… = translated function f(args…) on the same receiver
//	kind "object":        statement   v := f()  at the top level of a plain function: v IS the object of the field environment
//	kind "mutarg:N":      statement   args[N], lhs… = f(args…)    (external intrinsic writing through its N-th argument)
type shim struct {
	kind string
	f    string   // intrinsic / function name in GoMini
	res  []string // static result types
	flds []string // kind "extfld": receiver fields passed first and assigned first
	// with (kinds "extfld", "ext", "extstmt", "primary"): fields passed read-only after flds (for "primary": fields of the
	// OTHER object handed to the intrinsic that makes the new primary object)
	with []string
	// xargs (text-keyed calls, whose own arguments are part of the key): Go expressions evaluated and passed
	xargs []string
	// trace (kind "extstmt"): name of a mapped pseudo-field; before the call, the tuple of the call's arguments
	// (receiver first) is appended to it — a record of what the callee was handed
	trace string
	// vari (kind "fun"): the callee's variadic parameter, 1-based; the call's arguments from there on are collected into ONE slice
	vari int
}

type fieldSpec struct {
	lean string // GoMini field name
	typ  string // static type
}

type transFunc struct {
	file    string
	recv    string // receiver type name, "" for a plain function
	name    string
	lean    string                 // name in the generated funs table
	fields  map[string]fieldSpec   // receiver field → GoMini field
	types   map[string]string      // Go type text → static type (named types of zap and the std lib)
	consts  map[string]string      // named constants: Go text → integer literal (decimal) or "bool:true"
	tail    *tailSpec              // the end of the body is NOT translated but replaced by one recorded intrinsic
	inout   []string               // pointer parameters the function mutates: their final values are returned after the declared results
	recvNil string                 // pointer receiver that may be nil: GoMini (bool) field holding `recv == nil`
	recvAs  *fieldSpec             // the receiver VALUE itself (a slice type such as multiWriteSyncer) as a field
	structs map[string][]fieldSpec // struct types passed by value: static type "struct:<name>" is a list of these fields
	calls   map[string]shim        // "<static type or package>.<Name>" → meaning
	// a SECOND object of the receiver's type (a clone the function makes, or — after a "primary" statement — the
	// original receiver): its Go fields map to these GoMini fields; otherAs is the object value itself
	other   map[string]fieldSpec
	otherAs *fieldSpec
	// a pointer PARAMETER that is the object of the field environment (plain functions such as putJSONEncoder(enc))
	objParam string
	// zero values of opaque named types (GoMini literals), for `T{}` fields the literal omits
	zeros map[string]string
	// opaque named types whose values Go compares with == / != (structural equality of the GoMini values)
	comparable []string
	// `append` to a slice field of the receiver (or of a struct copy of it) is REFUSED: in Go it may write into a backing
	// array shared with other objects, which value slices cannot express; such code must use the clone idiom (make + copy)
	noFieldAppend bool
	// concrete static types that implement a nil-able interface type ("ptr:struct:IoCore" → "opt:Core"): where such a value
	// is returned / assigned as the interface it becomes the non-nil interface value [v]
	implements map[string]string
}

// tailSpec: from the first top-level statement whose source text is `from` on, the body is replaced by
// `res = f(args…); return res` (or `f(args…); return` when res is empty).  The cut is explicit in the generated
// file; what follows it is outside the theorem.
type tailSpec struct {
	from  string
	f     string
	args  []string // locals / parameters handed to the intrinsic
	res   string
	trace string
}

type transSpec struct {
	table string
	funcs []transFunc
}

// ---------------------------------------------------------------- static types

var intTypes = map[string]string{"u8": ".u8", "u32": ".u32", "u64": ".u64", "int": ".int", "i64": ".i64", "i8": ".i8", "i32": ".i32"}

var intBounds = map[string][2]string{
	"u8": {"0", "255"}, "u32": {"0", "4294967295"}, "u64": {"0", "18446744073709551615"},
	"int": {"-9223372036854775808", "9223372036854775807"}, "i64": {"-9223372036854775808", "9223372036854775807"},
	"i8": {"-128", "127"}, "i32": {"-2147483648", "2147483647"},
}

func isInt(t string) bool      { _, ok := intTypes[t]; return ok }
func isUnsigned(t string) bool { return t == "u8" || t == "u32" || t == "u64" }

var goBasic = map[string]string{
	"int": "int", "int64": "i64", "int8": "i8", "int32": "i32", "uint8": "u8", "byte": "u8", "uint32": "u32", "uint64": "u64",
	"bool": "bool", "string": "string", "error": "error", "rune": "i32",
}

// ---------------------------------------------------------------- translator state

type tvar struct {
	lean string
	typ  string
}

type xl struct {
	fn          *transFunc
	fd          *ast.FuncDecl
	file        *ast.File // the parsed source file (package-level constants and struct declarations are read from it)
	recvVar     string
	otherVar    string // the second object (fields through fn.other)
	closures    map[string]*closureInfo // named local closures `name := func() {…}` (no parameters, no results)
	fresh       map[string]bool // locals (lean names) holding a slice this function made itself (x := make(…)): no aliasing
	scopes      []map[string]tvar
	consts      map[string]constant.Value // local const declarations
	nloc        int
	named       []tvar   // named results (in order)
	results     []string // result types
	legend      []string
	loops       []string
	inouts      []tvar               // in-out parameters, in the order of fn.inout
	subst       map[*ast.CallExpr]tx // calls hoisted out of an expression
	defers      []string             // deferred calls registered so far (top level only), in source order
	depth       int                  // block nesting: 1 = the function body
	hoistLeaves int                  // operands seen so far while walking an expression in evaluation order
	hoistFields int                  // … of which field reads, constants and calls left in place
	stmts_      int
	addrOf      *ast.Ident // the local whose address is being handed to a mutarg intrinsic (`&v` in that argument only)
}

// closureInfo: a local procedure.  A call `name()` is the body, inlined (a Go closure sees its captured variables by
// reference, so running the body where the call stands IS its meaning).  As a VALUE (returned, stored) it is the record
// [source text, captured locals at that moment]: whoever calls it later sees the snapshot — sound when the capturing
// function does not run any more, which is the case for a returned closure.
type closureInfo struct {
	lit      *ast.FuncLit
	captured []tvar
	// a local FUNCTION `name := func(p T, …) R { return e }`: a call `name(a, …)` with local variables as arguments is
	// the expression e with the parameters standing for those variables
	retExpr ast.Expr
	ptypes  []string
	pnames  []string
	rtype   string
}

type xerr struct{ msg string }

func (x *xl) fail(n ast.Node, format string, a ...any) {
	pos := ""
	if n != nil && x.fd != nil {
		pos = fmt.Sprintf(" (%s.%s +%d)", x.fn.recv, x.fn.name, int(n.Pos()-x.fd.Pos()))
	}
	panic(xerr{fmt.Sprintf(format, a...) + pos})
}

func (x *xl) push() { x.scopes = append(x.scopes, map[string]tvar{}); x.depth = len(x.scopes) - 1 }
func (x *xl) pop()  { x.scopes = x.scopes[:len(x.scopes)-1]; x.depth = len(x.scopes) - 1 }

func (x *xl) lookup(name string) (tvar, bool) {
	for i := len(x.scopes) - 1; i >= 0; i-- {
		if v, ok := x.scopes[i][name]; ok {
			return v, true
		}
	}
	return tvar{}, false
}

func (x *xl) declare(n ast.Node, name, typ string) tvar {
	if name == "_" {
		x.fail(n, "declaration of _")
	}
	v := tvar{fmt.Sprintf("l%d", x.nloc), typ}
	x.nloc++
	x.legend = append(x.legend, v.lean+" = "+name+" "+typ)
	x.scopes[len(x.scopes)-1][name] = v
	return v
}

// goType maps a Go type expression to a static type.
// transTypeText renders a type expression as the key the whitelist entries use (function types included).
func transTypeText(e ast.Expr) string {
	if el, ok := e.(*ast.Ellipsis); ok { // variadic parameter ...T: a []T inside the function
		return "[]" + transTypeText(el.Elt)
	}
	ft, ok := e.(*ast.FuncType)
	if !ok {
		return exprString(e)
	}
	list := func(fl *ast.FieldList) []string {
		var out []string
		if fl == nil {
			return out
		}
		for _, f := range fl.List {
			n := len(f.Names)
			if n == 0 {
				n = 1
			}
			for i := 0; i < n; i++ {
				out = append(out, transTypeText(f.Type))
			}
		}
		return out
	}
	s := "func(" + strings.Join(list(ft.Params), ", ") + ")"
	switch rs := list(ft.Results); len(rs) {
	case 0:
	case 1:
		s += " " + rs[0]
	default:
		s += " (" + strings.Join(rs, ", ") + ")"
	}
	return s
}

// structKey: an anonymous `struct{ A T; B U }` is named in the whitelist entry by its field names: "struct{A,B}"
func structKey(st *ast.StructType) string {
	var names []string
	for _, f := range st.Fields.List {
		for _, n := range f.Names {
			names = append(names, n.Name)
		}
	}
	return "struct{" + strings.Join(names, ",") + "}"
}

// checkStructDecl: the fields of a struct type written in the function are exactly the fields the entry declares
func (x *xl) checkStructDecl(n ast.Node, st *ast.StructType, typ string) {
	if !strings.HasPrefix(typ, "struct:") {
		x.fail(n, "struct type mapped to %s", typ)
	}
	decl := x.fn.structs[typ[7:]]
	var names []string
	for _, f := range st.Fields.List {
		if len(f.Names) == 0 {
			x.fail(n, "embedded field in a local struct type")
		}
		for _, nm := range f.Names {
			names = append(names, nm.Name)
		}
	}
	if len(names) != len(decl) {
		x.fail(n, "struct type %s has %d fields in the source, %d in the whitelist entry", typ, len(names), len(decl))
	}
	for i := range names {
		if names[i] != decl[i].lean {
			x.fail(n, "struct type %s: field %d is %s in the source, %s in the whitelist entry", typ, i, names[i], decl[i].lean)
		}
	}
}

// zeroLit: the zero value of a static type as a GoMini literal (structs: the tuple of their fields' zero values)
func (x *xl) zeroLit(n ast.Node, typ string) string {
	if z, ok := zeroOf(typ); ok {
		return z
	}
	if z, ok := x.fn.zeros[typ]; ok {
		return z
	}
	if strings.HasPrefix(typ, "struct:") {
		var parts []string
		for _, f := range x.fn.structs[typ[7:]] {
			parts = append(parts, x.zeroLit(n, f.typ))
		}
		if len(parts) > 0 {
			return ".list [" + strings.Join(parts, ", ") + "]"
		}
	}
	x.fail(n, "zero value of %s", typ)
	return ""
}

func (x *xl) goType(e ast.Expr) string {
	if st, ok := e.(*ast.StructType); ok {
		t, has := x.fn.types[structKey(st)]
		if !has {
			x.fail(e, "anonymous struct type (key %q) is not declared in the whitelist entry", structKey(st))
		}
		x.checkStructDecl(e, st, t)
		return t
	}
	txt := transTypeText(e)
	if t, ok := x.fn.types[txt]; ok {
		return t
	}
	if t, ok := goBasic[txt]; ok {
		return t
	}
	if el, ok := e.(*ast.Ellipsis); ok {
		elt := x.goType(el.Elt)
		if elt == "u8" {
			return "bytes"
		}
		return "[]" + elt
	}
	if a, ok := e.(*ast.ArrayType); ok && a.Len == nil {
		el := x.goType(a.Elt)
		if el == "u8" {
			return "bytes"
		}
		return "[]" + el
	}
	x.fail(e, "type %s is not in the subset and not declared in the whitelist entry", txt)
	return ""
}

func zeroOf(t string) (string, bool) {
	switch {
	case isInt(t):
		return ".int 0", true
	case t == "bool":
		return ".bool false", true
	case t == "string" || t == "bytes":
		return ".bytes []", true
	case t == "error" || strings.HasPrefix(t, "[]") || isNilable(t):
		return ".list []", true
	}
	return "", false
}

// isNilable: interface / pointer values that may be nil.  "opt:T" is nil = [] or [v]; "ptr:struct:T" is nil = [] or
// the list of the declared fields of T (at least one field is declared, so the two cannot be confused).
func isNilable(t string) bool {
	return strings.HasPrefix(t, "opt:") || strings.HasPrefix(t, "ptr:struct:")
}

// ---------------------------------------------------------------- expressions

// tx is a translated expression: Lean text, static type; for untyped constants typ == "untyped" and val is set.
type tx struct {
	lean string
	typ  string
	val  constant.Value
}

func leanIntLit(v constant.Value) string {
	s := v.ExactString()
	if strings.HasPrefix(s, "-") {
		return "(.lit (.int (" + s + ")))"
	}
	return "(.lit (.int " + s + "))"
}

// conv gives an untyped constant the type t (checking that it is representable, as the Go compiler does).
func (x *xl) constTo(n ast.Node, e tx, t string) tx {
	if e.typ != "untyped" {
		return e
	}
	if e.val.Kind() == constant.Bool {
		if t != "bool" {
			x.fail(n, "boolean constant used as %s", t)
		}
		return tx{lean: "(.lit (.bool " + strconv.FormatBool(constant.BoolVal(e.val)) + "))", typ: "bool"}
	}
	if e.val.Kind() == constant.String {
		if t != "string" {
			x.fail(n, "string constant used as %s", t)
		}
		return tx{lean: "(.lit (.bytes " + leanBytes([]byte(constant.StringVal(e.val))) + "))", typ: "string"}
	}
	if !isInt(t) {
		x.fail(n, "integer constant %s used as %s", e.val.ExactString(), t)
	}
	b := intBounds[t]
	lo, hi := constant.MakeFromLiteral(b[0], token.INT, 0), constant.MakeFromLiteral(b[1], token.INT, 0)
	if constant.Compare(e.val, token.LSS, lo) || constant.Compare(e.val, token.GTR, hi) {
		x.fail(n, "constant %s overflows %s", e.val.ExactString(), t)
	}
	return tx{lean: leanIntLit(e.val), typ: t}
}

// defaultType: an untyped constant on its own is an int (rune constants too: they are integers here).
func (x *xl) defaulted(n ast.Node, e tx) tx {
	if e.typ == "nil" { // a bare nil (argument position): every nil-able representation is the empty list
		return tx{lean: "(.lit (.list []))", typ: "nil"}
	}
	if e.typ != "untyped" {
		return e
	}
	switch e.val.Kind() {
	case constant.Bool:
		return x.constTo(n, e, "bool")
	case constant.String:
		return x.constTo(n, e, "string")
	}
	return x.constTo(n, e, "int")
}

func (x *xl) namedConst(n ast.Node, txt string) (tx, bool) {
	if v, ok := x.consts[txt]; ok {
		return tx{typ: "untyped", val: v}, true
	}
	if s, ok := x.fn.consts[txt]; ok {
		if strings.HasPrefix(s, "src:") { // a constant declared in ANOTHER file of the package ("src:zapcore/level.go"): read there
			_, f, err := parseTransFile(s[4:])
			if err != nil {
				x.fail(n, "constant %s: %v", txt, err)
			}
			name := txt
			if i := strings.LastIndex(name, "."); i >= 0 {
				name = name[i+1:]
			}
			saved := x.file
			x.file = f
			v, typ, ok := x.srcConstTyped(name)
			x.file = saved
			if !ok {
				x.fail(n, "constant %s: no package-level constant declaration in %s", txt, s[4:])
			}
			if typ != "" {
				return x.constTo(n, tx{typ: "untyped", val: v}, typ), true
			}
			return tx{typ: "untyped", val: v}, true
		}
		if s == "src" { // a package-level constant of the same file with a literal value: READ from the source
			if v, typ, ok := x.srcConstTyped(txt); ok {
				if typ != "" {
					return x.constTo(n, tx{typ: "untyped", val: v}, typ), true
				}
				return tx{typ: "untyped", val: v}, true
			}
			if b, ok := x.srcVarBytes(txt); ok { // var name = []byte("literal"): a byte-string value
				return tx{lean: "(.lit (.bytes " + leanBytes(b) + "))", typ: "bytes"}, true
			}
			x.fail(n, "constant %s: no package-level declaration with a literal value in %s", txt, x.fn.file)
		}
		if strings.HasPrefix(s, "bool:") {
			return tx{typ: "untyped", val: constant.MakeBool(s == "bool:true")}, true
		}
		if strings.HasPrefix(s, "str:") {
			return tx{typ: "untyped", val: constant.MakeString(s[4:])}, true
		}
		if strings.HasPrefix(s, "val:") { // a constant of a declared (nil-able) type: "val:<type>|<GoMini literal>"
			if i := strings.Index(s, "|"); i > 0 {
				return tx{lean: "(.lit (" + s[i+1:] + "))", typ: s[4:i]}, true
			}
			x.fail(n, "bad constant %q in whitelist entry", s)
		}
		if i := strings.Index(s, ":"); i > 0 { // typed constant "u8:128"
			v := intConst(s[i+1:])
			if v.Kind() == constant.Unknown {
				x.fail(n, "bad constant %q in whitelist entry", s)
			}
			return x.constTo(n, tx{typ: "untyped", val: v}, s[:i]), true
		}
		v := intConst(s)
		if v.Kind() == constant.Unknown {
			x.fail(n, "bad constant %q in whitelist entry", s)
		}
		return tx{typ: "untyped", val: v}, true
	}
	return tx{}, false
}

// srcConst finds `const name = <constant expression>` at package level of the translated file.  The expression may be a
// literal, `iota`, another constant of the same file, and `+ - *`, unary minus, parentheses and `T(…)` conversions
// over these; a spec without values repeats the last expression list of its block with its own `iota` (Go's rule).
func (x *xl) srcConst(name string) (constant.Value, bool) {
	v, _, ok := x.srcConstDepth(name, 0)
	return v, ok
}

// srcConstTyped also gives the static type of a TYPED constant (`DebugLevel Level = iota - 1`, `_minLevel = DebugLevel`)
// when the entry maps the Go type to an integer type; "" for an untyped constant.
func (x *xl) srcConstTyped(name string) (constant.Value, string, bool) {
	v, tn, ok := x.srcConstDepth(name, 0)
	if !ok || tn == "" {
		return v, "", ok
	}
	if t, has := x.fn.types[tn]; has && isInt(t) {
		return v, t, true
	}
	if t, has := goBasic[tn]; has && isInt(t) {
		return v, t, true
	}
	return nil, "", false // a typed constant whose type the entry does not declare
}

func (x *xl) srcConstDepth(name string, depth int) (constant.Value, string, bool) {
	if x.file == nil || depth > 8 {
		return nil, "", false
	}
	for _, d := range x.file.Decls {
		gd, ok := d.(*ast.GenDecl)
		if !ok || gd.Tok != token.CONST {
			continue
		}
		var last []ast.Expr
		lastType := ""
		for si, sp := range gd.Specs {
			vs := sp.(*ast.ValueSpec)
			if len(vs.Values) != 0 {
				last = vs.Values
				lastType = ""
				if vs.Type != nil {
					lastType = exprString(vs.Type)
				}
			}
			for i, id := range vs.Names {
				if id.Name != name {
					continue
				}
				if i >= len(last) {
					return nil, "", false
				}
				v, tn, ok := x.srcConstExpr(last[i], int64(si), depth)
				if lastType != "" {
					tn = lastType
				}
				return v, tn, ok
			}
		}
	}
	return nil, "", false
}

func (x *xl) srcConstExpr(e ast.Expr, iota int64, depth int) (constant.Value, string, bool) {
	switch t := e.(type) {
	case *ast.ParenExpr:
		return x.srcConstExpr(t.X, iota, depth)
	case *ast.BasicLit:
		if t.Kind == token.STRING || t.Kind == token.INT || t.Kind == token.CHAR {
			v := constant.MakeFromLiteral(t.Value, t.Kind, 0)
			if t.Kind != token.STRING {
				v = constant.ToInt(v)
			}
			return v, "", true
		}
	case *ast.Ident:
		if t.Name == "iota" {
			return constant.MakeInt64(iota), "", true
		}
		return x.srcConstDepth(t.Name, depth+1)
	case *ast.UnaryExpr:
		if t.Op == token.SUB {
			if v, tn, ok := x.srcConstExpr(t.X, iota, depth); ok && v.Kind() == constant.Int {
				return constant.UnaryOp(token.SUB, v, 0), tn, true
			}
		}
	case *ast.BinaryExpr:
		if t.Op == token.ADD || t.Op == token.SUB || t.Op == token.MUL {
			a, ta, ok1 := x.srcConstExpr(t.X, iota, depth)
			b, tb, ok2 := x.srcConstExpr(t.Y, iota, depth)
			if ok1 && ok2 && a.Kind() == constant.Int && b.Kind() == constant.Int {
				if ta == "" {
					ta = tb
				}
				return constant.BinaryOp(a, t.Op, b), ta, true
			}
		}
	case *ast.CallExpr: // a conversion T(c) to a named integer type of the same file
		if id, ok := t.Fun.(*ast.Ident); ok && len(t.Args) == 1 && id.Obj != nil && id.Obj.Kind == ast.Typ {
			v, _, ok := x.srcConstExpr(t.Args[0], iota, depth)
			return v, id.Name, ok
		}
	}
	return nil, "", false
}

// srcVarBytes finds `var name = []byte("literal")` at package level of the translated file (a variable the whitelist
// entry declares to be constant, e.g. nullLiteralBytes).
func (x *xl) srcVarBytes(name string) ([]byte, bool) {
	if x.file == nil {
		return nil, false
	}
	for _, d := range x.file.Decls {
		gd, ok := d.(*ast.GenDecl)
		if !ok || gd.Tok != token.VAR {
			continue
		}
		for _, sp := range gd.Specs {
			vs := sp.(*ast.ValueSpec)
			for i, id := range vs.Names {
				if id.Name != name || i >= len(vs.Values) {
					continue
				}
				c, ok := vs.Values[i].(*ast.CallExpr)
				if !ok || len(c.Args) != 1 {
					return nil, false
				}
				at, ok := c.Fun.(*ast.ArrayType)
				if !ok || at.Len != nil || exprString(at.Elt) != "byte" {
					return nil, false
				}
				lit, ok := c.Args[0].(*ast.BasicLit)
				if !ok || lit.Kind != token.STRING {
					return nil, false
				}
				v := constant.MakeFromLiteral(lit.Value, lit.Kind, 0)
				return []byte(constant.StringVal(v)), true
			}
		}
	}
	return nil, false
}

// srcStructFields: the field names of `type name struct {…}` declared in the translated file, in order.
func (x *xl) srcStructFields(name string) ([]string, bool) {
	if x.file == nil {
		return nil, false
	}
	for _, d := range x.file.Decls {
		gd, ok := d.(*ast.GenDecl)
		if !ok || gd.Tok != token.TYPE {
			continue
		}
		for _, sp := range gd.Specs {
			ts := sp.(*ast.TypeSpec)
			st, ok := ts.Type.(*ast.StructType)
			if ts.Name.Name != name || !ok {
				continue
			}
			var out []string
			for _, f := range st.Fields.List {
				if len(f.Names) == 0 { // embedded field: its name is the type's name (io.Writer → Writer, *T → T)
					t := f.Type
					if st, ok := t.(*ast.StarExpr); ok {
						t = st.X
					}
					switch tt := t.(type) {
					case *ast.Ident:
						out = append(out, tt.Name)
					case *ast.SelectorExpr:
						out = append(out, tt.Sel.Name)
					default:
						return nil, false
					}
					continue
				}
				for _, n := range f.Names {
					out = append(out, n.Name)
				}
			}
			return out, true
		}
	}
	return nil, false
}

func intConst(s string) constant.Value {
	if strings.HasPrefix(s, "-") {
		return constant.UnaryOp(token.SUB, constant.MakeFromLiteral(s[1:], token.INT, 0), 0)
	}
	return constant.MakeFromLiteral(s, token.INT, 0)
}

// place resolves an expression that denotes a variable: local or receiver field.
func (x *xl) place(e ast.Expr) (lv string, rd string, typ string, ok bool) {
	switch t := e.(type) {
	case *ast.ParenExpr:
		return x.place(t.X)
	case *ast.StarExpr:
		// *recv of a POINTER receiver whose pointee the entry maps (recvAs): the pointee is that field.  (`*l = DebugLevel`)
		if id, ok := t.X.(*ast.Ident); ok && id.Name == x.recvVar && x.recvVar != "" && x.fn.recvAs != nil && x.recvIsPointer() {
			if _, shadow := x.lookupNonRecv(id.Name); !shadow {
				f := x.fn.recvAs
				return "(.fld " + leanStr(f.lean) + ")", "(.fld " + leanStr(f.lean) + ")", f.typ, true
			}
		}
	case *ast.Ident:
		if v, ok := x.lookup(t.Name); ok {
			return "(.loc " + leanStr(v.lean) + ")", "(.loc " + leanStr(v.lean) + ")", v.typ, true
		}
		if t.Name == x.recvVar && x.recvVar != "" && x.fn.recvAs != nil {
			f := x.fn.recvAs
			return "(.fld " + leanStr(f.lean) + ")", "(.fld " + leanStr(f.lean) + ")", f.typ, true
		}
		if t.Name == x.otherVar && x.otherVar != "" && x.fn.otherAs != nil {
			f := x.fn.otherAs
			return "(.fld " + leanStr(f.lean) + ")", "(.fld " + leanStr(f.lean) + ")", f.typ, true
		}
	case *ast.SelectorExpr:
		if id, ok := t.X.(*ast.Ident); ok && id.Name == x.otherVar && x.otherVar != "" {
			if _, shadow := x.lookupNonRecv(id.Name); shadow {
				return "", "", "", false
			}
			if f, ok := x.fn.other[t.Sel.Name]; ok {
				return "(.fld " + leanStr(f.lean) + ")", "(.fld " + leanStr(f.lean) + ")", f.typ, true
			}
			x.fail(e, "field %s of the second object %s is not mapped in the whitelist entry", t.Sel.Name, id.Name)
		}
		if id, ok := t.X.(*ast.Ident); ok && id.Name == x.recvVar && x.recvVar != "" {
			if _, shadow := x.lookupNonRecv(id.Name); shadow {
				return "", "", "", false
			}
			if f, ok := x.fn.fields[t.Sel.Name]; ok {
				return "(.fld " + leanStr(f.lean) + ")", "(.fld " + leanStr(f.lean) + ")", f.typ, true
			}
			x.fail(e, "receiver field %s is not mapped in the whitelist entry", t.Sel.Name)
		}
	}
	return "", "", "", false
}

// recvIsPointer: the method is declared on *T
func (x *xl) recvIsPointer() bool {
	if x.fd == nil || x.fd.Recv == nil || len(x.fd.Recv.List) != 1 {
		return false
	}
	_, ok := x.fd.Recv.List[0].Type.(*ast.StarExpr)
	return ok
}

// lookupNonRecv: is the receiver name shadowed by a local?
func (x *xl) lookupNonRecv(name string) (tvar, bool) { return x.lookup(name) }

func (x *xl) expr(e ast.Expr) tx {
	switch t := e.(type) {
	case *ast.ParenExpr:
		return x.expr(t.X)
	case *ast.BasicLit:
		switch t.Kind {
		case token.INT, token.CHAR:
			return tx{typ: "untyped", val: constant.ToInt(constant.MakeFromLiteral(t.Value, t.Kind, 0))}
		case token.STRING:
			return tx{typ: "untyped", val: constant.MakeFromLiteral(t.Value, t.Kind, 0)}
		}
		x.fail(e, "literal %s is outside the subset", t.Value)
	case *ast.FuncLit:
		return x.closureValue(t, x.capturedLocals(t))
	case *ast.Ident:
		if _, rd, typ, ok := x.place(e); ok {
			return tx{lean: rd, typ: typ}
		}
		if ci, ok := x.closures[t.Name]; ok {
			return x.closureValue(ci.lit, ci.captured)
		}
		switch t.Name {
		case "true", "false":
			return tx{typ: "untyped", val: constant.MakeBool(t.Name == "true")}
		case "nil":
			return tx{typ: "nil"}
		}
		if c, ok := x.namedConst(e, t.Name); ok {
			return c
		}
		x.fail(e, "identifier %s is neither a local, a receiver field nor a declared constant", t.Name)
	case *ast.SelectorExpr:
		if _, rd, typ, ok := x.place(e); ok {
			return tx{lean: rd, typ: typ}
		}
		if c, ok := x.namedConst(e, exprString(e)); ok {
			return c
		}
		if id, ok := t.X.(*ast.Ident); ok {
			if v, ok := x.lookup(id.Name); ok && (strings.HasPrefix(v.typ, "struct:") || strings.HasPrefix(v.typ, "ptr:struct:")) {
				for i, f := range x.fn.structs[v.typ[strings.Index(v.typ, "struct:")+7:]] {
					if f.lean == t.Sel.Name {
						return tx{lean: fmt.Sprintf("(.index (.loc %s) (.lit (.int %d)))", leanStr(v.lean), i), typ: f.typ}
					}
				}
				x.fail(e, "field %s of %s is not declared in the whitelist entry", t.Sel.Name, v.typ)
			}
		}
		// a field of a struct-valued expression (ent.Caller.Defined): the inner expression must itself be in the subset
		if inner, isSel := t.X.(*ast.SelectorExpr); isSel {
			if v, ok := x.tryExpr(inner); ok && strings.HasPrefix(v.typ, "struct:") {
				for i, f := range x.fn.structs[v.typ[7:]] {
					if f.lean == t.Sel.Name {
						return tx{lean: fmt.Sprintf("(.index %s (.lit (.int %d)))", v.lean, i), typ: f.typ}
					}
				}
				x.fail(e, "field %s of %s is not declared in the whitelist entry", t.Sel.Name, v.typ)
			}
		}
		x.fail(e, "selector %s is neither a mapped receiver field nor a declared constant", exprString(e))
	case *ast.StarExpr:
		if _, rd, typ, ok := x.place(e); ok {
			return tx{lean: rd, typ: typ}
		}
		// *p where p is a nil-able pointer to an integer ("opt:<int>" = [] / [v]): the element; nil panics (as in Go)
		if p, ok := x.tryExpr(t.X); ok && strings.HasPrefix(p.typ, "opt:") && isInt(p.typ[4:]) {
			return tx{lean: "(.index " + p.lean + " (.lit (.int 0)))", typ: p.typ[4:]}
		}
		x.fail(e, "dereference %s: only *recv of a pointer receiver with a mapped pointee and *p of an opt:<int> are in the subset", exprString(e))
	case *ast.UnaryExpr:
		if t.Op == token.AND { // &T{a, b}: a constructor the entry gives a meaning to (shim "&T")
			if cl, ok := t.X.(*ast.CompositeLit); ok {
				key := "&" + exprString(cl.Type)
				sh, has := x.fn.calls[key]
				if !has {
					// &T{…} of a struct the entry declares: the record itself, as a non-nil pointer value
					if typ, ok := x.tryType(cl.Type); ok && strings.HasPrefix(typ, "struct:") {
						v := x.expr(cl)
						return tx{lean: v.lean, typ: "ptr:" + typ}
					}
				}
				if !has || sh.kind != "ext" || len(sh.res) != 1 {
					x.fail(e, "%s{…} needs a shim %q of kind ext", key, key)
				}
				var args []string
				for _, el := range cl.Elts {
					if kv, ok := el.(*ast.KeyValueExpr); ok {
						el = kv.Value
					}
					args = append(args, x.defaulted(el, x.expr(el)).lean)
				}
				return tx{lean: "(.call " + leanStr(sh.f) + " [" + strings.Join(args, ", ") + "])", typ: sh.res[0]}
			}
		}
		if t.Op == token.AND && x.addrOf != nil && t.X == ast.Expr(x.addrOf) { // &v handed to a mutarg intrinsic: v's value
			v, _ := x.lookup(x.addrOf.Name)
			return tx{lean: "(.loc " + leanStr(v.lean) + ")", typ: v.typ}
		}
		if t.Op == token.AND { // &v where v is the second object: the object value itself
			if id, ok := t.X.(*ast.Ident); ok && id.Name == x.otherVar && x.otherVar != "" && x.fn.otherAs != nil {
				f := x.fn.otherAs
				return tx{lean: "(.fld " + leanStr(f.lean) + ")", typ: f.typ}
			}
		}
		a := x.expr(t.X)
		switch t.Op {
		case token.NOT:
			if a.typ == "untyped" && a.val.Kind() == constant.Bool {
				return tx{typ: "untyped", val: constant.MakeBool(!constant.BoolVal(a.val))}
			}
			if a.typ != "bool" {
				x.fail(e, "! applied to %s", a.typ)
			}
			return tx{lean: "(.un .not " + a.lean + ")", typ: "bool"}
		case token.SUB:
			if a.typ == "untyped" && a.val.Kind() == constant.Int {
				return tx{typ: "untyped", val: constant.UnaryOp(token.SUB, a.val, 0)}
			}
			if !isInt(a.typ) {
				x.fail(e, "unary - applied to %s", a.typ)
			}
			return tx{lean: "(.un (.neg " + intTypes[a.typ] + ") " + a.lean + ")", typ: a.typ}
		case token.ADD:
			if a.typ == "untyped" || isInt(a.typ) {
				return a
			}
		}
		x.fail(e, "unary operator %s is outside the subset", t.Op)
	case *ast.BinaryExpr:
		return x.binary(t)
	case *ast.CallExpr:
		if v, ok := x.subst[t]; ok {
			return v
		}
		r, isStmt := x.callExpr(t)
		if isStmt {
			x.fail(e, "call %s has no single value here", exprString(t.Fun))
		}
		return r
	case *ast.IndexExpr:
		if _, rd, typ, isPlace := x.place(t.X); isPlace && strings.HasPrefix(typ, "map:") {
			// m[k] as a value: the entry gives it a meaning (shim "<map type>[k]": one result)
			sh, has := x.fn.calls[typ+"[k]"]
			if !has || sh.kind != "ext" || len(sh.res) != 1 {
				x.fail(e, "map index on %s needs a shim %q of kind ext with one result", typ, typ+"[k]")
			}
			k := x.defaulted(t.Index, x.expr(t.Index))
			return tx{lean: "(.call " + leanStr(sh.f) + " [" + rd + ", " + k.lean + "])", typ: sh.res[0]}
		}
		a, i := x.expr(t.X), x.expr(t.Index)
		if a.typ == "untyped" {
			a = x.defaulted(t.X, a)
		}
		i = x.asIndex(t.Index, i)
		switch {
		case a.typ == "string" || a.typ == "bytes":
			return tx{lean: "(.index " + a.lean + " " + i.lean + ")", typ: "u8"}
		case strings.HasPrefix(a.typ, "[]"):
			return tx{lean: "(.index " + a.lean + " " + i.lean + ")", typ: a.typ[2:]}
		}
		x.fail(e, "indexing a value of type %s", a.typ)
	case *ast.CompositeLit:
		// T{Field: v, …} for a struct type the entry declares: the list of the DECLARED fields in declared order; a
		// key the entry does not declare is refused, a declared field that is not given takes its zero value
		if c, ok := x.namedConst(e, transNodeText(e)); ok { // a literal the entry names as a constant (nopCloserSink{os.Stdout})
			return c
		}
		typ, ok := x.tryType(t.Type)
		if ok && strings.HasPrefix(typ, "[]") {
			// []T{a, b, …}: the list of the elements (no keys)
			var parts []string
			for _, el := range t.Elts {
				if _, keyed := el.(*ast.KeyValueExpr); keyed {
					x.fail(e, "keyed slice literal is outside the subset")
				}
				parts = append(parts, x.coerce(el, x.expr(el), typ[2:]).lean)
			}
			return tx{lean: "(.call \"tuple\" [" + strings.Join(parts, ", ") + "])", typ: typ}
		}
		if !ok || !strings.HasPrefix(typ, "struct:") {
			x.fail(e, "composite literal of %s is outside the subset", exprString(t.Type))
		}
		decl := x.fn.structs[typ[7:]]
		given := map[string]string{}
		if len(t.Elts) > 0 {
			if _, keyed := t.Elts[0].(*ast.KeyValueExpr); !keyed {
				// positional literal T{a, b, c}: only for a struct declared IN THE TRANSLATED FILE whose field list is
				// exactly the list the whitelist entry declares (so that positions mean the declared fields)
				src, ok := x.srcStructFields(exprString(t.Type))
				if !ok || len(src) != len(decl) || len(t.Elts) != len(decl) {
					x.fail(e, "positional composite literal of %s: the struct is not declared in this file with the %d fields of the whitelist entry", exprString(t.Type), len(decl))
				}
				var parts []string
				for i, f := range decl {
					if src[i] != f.lean {
						x.fail(e, "positional composite literal of %s: field %d is %s in the source, %s in the whitelist entry", exprString(t.Type), i, src[i], f.lean)
					}
					if _, keyed := t.Elts[i].(*ast.KeyValueExpr); keyed {
						x.fail(e, "mixed composite literal")
					}
					parts = append(parts, x.coerce(t.Elts[i], x.expr(t.Elts[i]), f.typ).lean)
				}
				return tx{lean: "(.call \"tuple\" [" + strings.Join(parts, ", ") + "])", typ: typ}
			}
		}
		for _, el := range t.Elts {
			kv, ok := el.(*ast.KeyValueExpr)
			if !ok {
				x.fail(e, "mixed composite literal")
			}
			k := exprString(kv.Key)
			var ft string
			for _, f := range decl {
				if f.lean == k {
					ft = f.typ
				}
			}
			if ft == "" {
				x.fail(e, "field %s of %s is not declared in the whitelist entry", k, typ)
			}
			given[k] = x.coerce(kv.Value, x.expr(kv.Value), ft).lean
		}
		var parts []string
		for _, f := range decl {
			if v, ok := given[f.lean]; ok {
				parts = append(parts, v)
				continue
			}
			z, ok := zeroOf(f.typ)
			if !ok {
				z, ok = x.fn.zeros[f.typ]
			}
			if !ok {
				x.fail(e, "no zero value for field %s of %s", f.lean, typ)
			}
			parts = append(parts, "(.lit ("+z+"))")
		}
		return tx{lean: "(.call \"tuple\" [" + strings.Join(parts, ", ") + "])", typ: typ}
	case *ast.SliceExpr:
		if t.Slice3 {
			// the full-capacity idiom x[:len(x):len(x)] — the VALUE x with no spare capacity, so that an append to it cannot write
			// into x's backing array — is the only 3-index slice in the subset (value slices have no capacity)
			if !isCappedSlice(t) {
				x.fail(e, "3-index slice is in the subset only as x[:len(x):len(x)]")
			}
			a := x.expr(t.X)
			if !(a.typ == "bytes" || strings.HasPrefix(a.typ, "[]")) {
				x.fail(e, "slicing a value of type %s", a.typ)
			}
			return a
		}
		a := x.expr(t.X)
		if !(a.typ == "string" || a.typ == "bytes" || strings.HasPrefix(a.typ, "[]")) {
			x.fail(e, "slicing a value of type %s", a.typ)
		}
		opt := func(b ast.Expr) string {
			if b == nil {
				return "none"
			}
			return "(some " + x.asIndex(b, x.expr(b)).lean + ")"
		}
		return tx{lean: "(.slice " + a.lean + " " + opt(t.Low) + " " + opt(t.High) + ")", typ: a.typ}
	}
	x.fail(e, "expression kind %T is outside the subset", e)
	return tx{}
}

// asIndex: index and slice bounds are ints (constants must be non-negative, other integer types are widened
// by Go without a conversion; the subset insists on int to keep one meaning).
func (x *xl) asIndex(n ast.Node, i tx) tx {
	i = x.defaulted(n, i)
	if i.typ == "int" {
		return i
	}
	if isUnsigned(i.typ) && i.typ != "u64" {
		// Go accepts an index of any integer type; a uint8/uint32 value is the same number as an int
		return tx{lean: "(.conv .int " + i.lean + ")", typ: "int"}
	}
	x.fail(n, "index of type %s (the subset wants int or a narrower unsigned type)", i.typ)
	return i
}

var arithOps = map[token.Token]string{token.ADD: "add", token.SUB: "sub", token.MUL: "mul", token.QUO: "div", token.REM: "rem"}
var bitOps = map[token.Token]string{token.AND: "band", token.OR: "bor", token.XOR: "bxor"}
var cmpOps = map[token.Token]string{token.EQL: "eq", token.NEQ: "ne", token.LSS: "lt", token.LEQ: "le", token.GTR: "gt", token.GEQ: "ge"}

func (x *xl) binary(t *ast.BinaryExpr) tx {
	if t.Op == token.LAND || t.Op == token.LOR {
		a, b := x.defaulted(t.X, x.expr(t.X)), x.defaulted(t.Y, x.expr(t.Y))
		if a.typ != "bool" || b.typ != "bool" {
			x.fail(t, "%s applied to %s, %s", t.Op, a.typ, b.typ)
		}
		op := ".and"
		if t.Op == token.LOR {
			op = ".or"
		}
		return tx{lean: "(" + op + " " + a.lean + " " + b.lean + ")", typ: "bool"}
	}
	// `recv == nil` for a pointer receiver: its nil-ness is a boolean pseudo-field the whitelist entry names
	if x.fn.recvNil != "" && (t.Op == token.EQL || t.Op == token.NEQ) {
		isRecv := func(e ast.Expr) bool {
			id, ok := e.(*ast.Ident)
			if !ok || id.Name != x.recvVar || x.recvVar == "" {
				return false
			}
			_, shadow := x.lookup(id.Name)
			return !shadow
		}
		isNil := func(e ast.Expr) bool { id, ok := e.(*ast.Ident); return ok && id.Name == "nil" }
		if (isRecv(t.X) && isNil(t.Y)) || (isNil(t.X) && isRecv(t.Y)) {
			f := "(.fld " + leanStr(x.fn.recvNil) + ")"
			if t.Op == token.NEQ {
				f = "(.un .not " + f + ")"
			}
			return tx{lean: f, typ: "bool"}
		}
	}
	a, b := x.expr(t.X), x.expr(t.Y)
	// nil comparisons: only for error / non-byte slices / nilable named values, where nil is the empty list
	if a.typ == "nil" || b.typ == "nil" {
		o := a
		if a.typ == "nil" {
			o = b
		}
		if (t.Op == token.EQL || t.Op == token.NEQ) && (o.typ == "error" || strings.HasPrefix(o.typ, "[]") || isNilable(o.typ)) {
			return tx{lean: "(.bin ." + cmpOps[t.Op] + " (.len " + o.lean + ") (.lit (.int 0)))", typ: "bool"}
		}
		x.fail(t, "comparison of %s with nil is outside the subset", o.typ)
	}
	// shifts: the count is any unsigned integer or a non-negative constant
	if t.Op == token.SHL || t.Op == token.SHR {
		if a.typ == "untyped" && b.typ == "untyped" {
			n, ok := constant.Uint64Val(b.val)
			if !ok {
				x.fail(t, "shift count")
			}
			return tx{typ: "untyped", val: constant.Shift(a.val, t.Op, uint(n))}
		}
		if a.typ == "untyped" {
			x.fail(t, "shift of an untyped constant by a variable is outside the subset")
		}
		if !isUnsigned(a.typ) {
			x.fail(t, "shift of %s: the subset has shifts of unsigned integers only", a.typ)
		}
		if b.typ == "untyped" {
			if constant.Sign(b.val) < 0 {
				x.fail(t, "negative shift count")
			}
			b = tx{lean: leanIntLit(b.val), typ: "u64"}
		} else if !isUnsigned(b.typ) {
			x.fail(t, "shift count of type %s", b.typ)
		}
		if t.Op == token.SHR {
			return tx{lean: "(.bin .shr " + a.lean + " " + b.lean + ")", typ: a.typ}
		}
		return tx{lean: "(.bin (.shl " + intTypes[a.typ] + ") " + a.lean + " " + b.lean + ")", typ: a.typ}
	}
	if a.typ == "untyped" && b.typ == "untyped" {
		if _, ok := cmpOps[t.Op]; ok {
			return tx{typ: "untyped", val: constant.MakeBool(constant.Compare(a.val, t.Op, b.val))}
		}
		if t.Op == token.QUO && a.val.Kind() == constant.Int {
			if constant.Sign(b.val) == 0 {
				x.fail(t, "constant division by zero")
			}
			return tx{typ: "untyped", val: constant.BinaryOp(a.val, token.QUO_ASSIGN, b.val)}
		}
		return tx{typ: "untyped", val: constant.BinaryOp(a.val, t.Op, b.val)}
	}
	if a.typ == "untyped" {
		a = x.constTo(t.X, a, b.typ)
	}
	if b.typ == "untyped" {
		b = x.constTo(t.Y, b, a.typ)
	}
	if a.typ != b.typ {
		x.fail(t, "operands of %s have different types %s and %s", t.Op, a.typ, b.typ)
	}
	if op, ok := arithOps[t.Op]; ok {
		if !isInt(a.typ) {
			x.fail(t, "%s applied to %s (string concatenation and floats are outside the subset)", t.Op, a.typ)
		}
		return tx{lean: "(.bin (." + op + " " + intTypes[a.typ] + ") " + a.lean + " " + b.lean + ")", typ: a.typ}
	}
	if op, ok := bitOps[t.Op]; ok {
		if !isUnsigned(a.typ) {
			x.fail(t, "%s applied to %s: the subset has bit operations on unsigned integers only", t.Op, a.typ)
		}
		return tx{lean: "(.bin ." + op + " " + a.lean + " " + b.lean + ")", typ: a.typ}
	}
	if op, ok := cmpOps[t.Op]; ok {
		okT := isInt(a.typ)
		if t.Op == token.EQL || t.Op == token.NEQ {
			okT = okT || a.typ == "bool" || a.typ == "string" || strings.HasPrefix(a.typ, "opt:")
			if a.typ == b.typ {
				for _, ct := range x.fn.comparable {
					okT = okT || a.typ == ct
				}
			}
		}
		if !okT {
			x.fail(t, "%s applied to %s", t.Op, a.typ)
		}
		return tx{lean: "(.bin ." + op + " " + a.lean + " " + b.lean + ")", typ: "bool"}
	}
	x.fail(t, "binary operator %s is outside the subset", t.Op)
	return tx{}
}

// ---------------------------------------------------------------- calls

// tcall is a call that can only be a statement: lhs… = f(args…)
type tcall struct {
	ctor string // "callX" or "call" or "mut"/"set" (assignment to target)
	f    string
	args []string
	res  []string
	// for mut/set:
	targetLV  string
	value     string
	pre       []string // extfld: places assigned before the declared results
	post      []string // places assigned AFTER the declared results (in-out parameters of a translated callee)
	traceStmt string   // extstmt with a trace: executed before the call
	pureTrace bool     // the call touches nothing Go code can read (only the trace and its own results)
	pureFun   bool     // kind "funpure": a translated callee claimed (and checked) to assign no field
	recvRd    string   // addret / cas: the receiver as an expression
	before    []string // kind "funaddr": statements copying the addressed local into the callee's pointee field
	after     []string // … and back
	old, new  string   // cas
}

var pendingCall *tcall

// pureClaims: (callee, caller) pairs of "funpure" shims seen while translating the current table
var pureClaims [][2]string

var fieldTargetRe = regexp.MustCompile(`\.(assign|callX|call) \[[^\]]*\(\.fld `)
var funCallRe = regexp.MustCompile(`\(\.call \[`)

// checkPure: a translated body that assigns no field and calls no translated function
func checkPure(body string) error {
	if fieldTargetRe.MatchString(body) {
		return fmt.Errorf("it assigns a field")
	}
	if funCallRe.MatchString(body) {
		return fmt.Errorf("it calls a translated function")
	}
	return nil
}

// callExpr translates a call.  If the call has exactly one value it is returned as an expression; calls that
// are statements (several results, mutation of the receiver, translated functions) set pendingCall.
func (x *xl) callExpr(c *ast.CallExpr) (tx, bool) {
	// f(xs...): the slice is handed over as ONE value (only shims and translated functions with a variadic
	// parameter can be callees: everything else fails below for lack of a shim)
	// a call of a local procedure `name := func() {…}`: its body, inlined
	if id, ok := c.Fun.(*ast.Ident); ok {
		if ci, isCl := x.closures[id.Name]; isCl {
			if _, isVar := x.lookup(id.Name); !isVar && ci.retExpr != nil {
				if len(c.Args) != len(ci.pnames) {
					x.fail(c, "local function %s: arity", id.Name)
				}
				x.push()
				for i, a := range c.Args {
					aid, isId := a.(*ast.Ident)
					if !isId {
						x.pop()
						x.fail(c, "local function %s: only local variables are in the subset as arguments", id.Name)
					}
					v, isLoc := x.lookup(aid.Name)
					if !isLoc || v.typ != ci.ptypes[i] {
						x.pop()
						x.fail(c, "local function %s: argument %s is not a local variable of type %s", id.Name, aid.Name, ci.ptypes[i])
					}
					x.scopes[len(x.scopes)-1][ci.pnames[i]] = v
				}
				r := x.coerce(ci.retExpr, x.expr(ci.retExpr), ci.rtype)
				x.pop()
				return r, false
			}
			if _, isVar := x.lookup(id.Name); !isVar && len(c.Args) == 0 && ci.retExpr == nil {
				pendingCall = &tcall{ctor: "stmt", value: x.scoped(ci.lit.Body)}
				return tx{}, true
			}
		}
	}
	// conversions and builtins
	if id, ok := c.Fun.(*ast.Ident); ok {
		if _, isVar := x.lookup(id.Name); !isVar {
			switch id.Name {
			case "len":
				if len(c.Args) != 1 {
					x.fail(c, "len arity")
				}
				a := x.expr(c.Args[0])
				if a.typ == "untyped" && a.val.Kind() == constant.String {
					return tx{typ: "untyped", val: constant.MakeInt64(int64(len(constant.StringVal(a.val))))}, false
				}
				if !(a.typ == "string" || a.typ == "bytes" || a.typ == "error" || strings.HasPrefix(a.typ, "[]") || strings.HasPrefix(a.typ, "map:")) {
					x.fail(c, "len of %s", a.typ)
				}
				if a.typ == "error" {
					x.fail(c, "len of error")
				}
				return tx{lean: "(.len " + a.lean + ")", typ: "int"}, false
			case "min", "max":
				if len(c.Args) != 2 {
					x.fail(c, "%s with %d arguments is outside the subset", id.Name, len(c.Args))
				}
				a, b := x.expr(c.Args[0]), x.expr(c.Args[1])
				if a.typ == "untyped" && b.typ == "untyped" {
					x.fail(c, "%s of constants", id.Name)
				}
				if a.typ == "untyped" {
					a = x.constTo(c, a, b.typ)
				}
				if b.typ == "untyped" {
					b = x.constTo(c, b, a.typ)
				}
				if a.typ != b.typ || !isInt(a.typ) {
					x.fail(c, "%s of %s, %s", id.Name, a.typ, b.typ)
				}
				return tx{lean: "(.call " + leanStr(id.Name) + " [" + a.lean + ", " + b.lean + "])", typ: a.typ}, false
			case "append":
				return x.appendCall(c), false
			case "make":
				// make([]T, 0, n): the empty slice (slices are values; capacity has no meaning — see `cap` in the docs)
				if len(c.Args) == 2 {
					// make([]T, n): what a fresh slice of n elements is, is the entry's shim "make" (an intrinsic)
					t, ok := x.tryType(c.Args[0])
					sh, has := x.fn.calls["make"]
					if !ok || !strings.HasPrefix(t, "[]") || !has || sh.kind != "ext" || len(sh.res) != 1 || sh.res[0] != t {
						x.fail(c, "make(%s, n) needs a shim \"make\" of kind ext with this result type", exprString(c.Args[0]))
					}
					n := x.expr(c.Args[1])
					if n.typ == "untyped" {
						n = x.constTo(c, n, "int")
					}
					if !isInt(n.typ) {
						x.fail(c, "make length of type %s", n.typ)
					}
					return tx{lean: "(.call " + leanStr(sh.f) + " [" + n.lean + "])", typ: t}, false
				}
				if len(c.Args) != 3 {
					x.fail(c, "make is in the subset only as make([]T, 0, n) and make([]T, n)")
				}
				t, ok := x.tryType(c.Args[0])
				if !ok || !strings.HasPrefix(t, "[]") {
					x.fail(c, "make of %s", exprString(c.Args[0]))
				}
				if l := x.expr(c.Args[1]); l.typ != "untyped" || l.val.Kind() != constant.Int || constant.Sign(l.val) != 0 {
					x.fail(c, "make with a length other than the constant 0")
				}
				if n := x.expr(c.Args[2]); n.typ != "untyped" && !isInt(n.typ) {
					x.fail(c, "make capacity of type %s", n.typ)
				}
				return tx{lean: "(.lit (.list []))", typ: t}, false
			}
			if _, isConst := x.namedConst(c, id.Name); !isConst {
				if t, ok := x.tryType(c.Fun); ok {
					return x.conversion(c, t), false
				}
			}
		}
	}
	if t, ok := x.tryType(c.Fun); ok {
		if _, isArr := c.Fun.(*ast.ArrayType); isArr {
			return x.conversion(c, t), false
		}
		if _, isSel := c.Fun.(*ast.SelectorExpr); isSel {
			return x.conversion(c, t), false
		}
	}
	// a function-typed local (parameter): its static type names the shim
	if id, ok := c.Fun.(*ast.Ident); ok {
		if v, isVar := x.lookup(id.Name); isVar {
			sh, ok := x.fn.calls[v.typ+"()"]
			if !ok {
				x.fail(c, "call of the function value %s (key %q) is not in the whitelist entry of %s", id.Name, v.typ+"()", x.fn.name)
			}
			var args []string
			for _, a := range c.Args {
				args = append(args, x.defaulted(a, x.expr(a)).lean)
			}
			switch sh.kind {
			case "mutarg0": // statement  args[0] = f(args…)   (args[0] must be assignable: e.g. appendTo(buf, x))
				if len(c.Args) == 0 {
					x.fail(c, "shim mutarg0 without arguments")
				}
				lv, _ := x.lvalue(c.Args[0])
				pendingCall = &tcall{ctor: "mut", targetLV: lv, value: "(.call " + leanStr(sh.f) + " [" + strings.Join(args, ", ") + "])"}
				return tx{}, true
			case "extstmt":
				pendingCall = &tcall{ctor: "callX", f: sh.f, args: args, res: sh.res}
				return tx{}, true
			case "extstmtfn": // statement  lhs… = f(fnValue, args…): the function value scripts its own outcome; recorded
				all := append([]string{"(.loc " + leanStr(v.lean) + ")"}, args...)
				pendingCall = &tcall{ctor: "callX", f: sh.f, args: all, res: sh.res}
				x.addTrace(c, sh, v.typ+"()", all)
				return tx{}, true
			case "mutarg:0", "mutarg:1", "mutarg:2": // statement  args[N], lhs… = f(fnValue, args…)
				idx, _ := strconv.Atoi(sh.kind[7:])
				if idx >= len(c.Args) {
					x.fail(c, "shim %s on a function value with %d arguments", sh.kind, len(c.Args))
				}
				lv, _ := x.lvalue(c.Args[idx])
				all := append([]string{"(.loc " + leanStr(v.lean) + ")"}, args...)
				pendingCall = &tcall{ctor: "callX", f: sh.f, args: all, res: sh.res, pre: []string{lv}}
				return tx{}, true
			case "extfld": // statement  flds… = f(flds…, fnValue, args…): the function value is handed the object
				var lvs, all []string
				for _, fl := range sh.flds {
					fs, ok := x.fn.fields[fl]
					if !ok {
						x.fail(c, "shim %s names the unmapped field %s", v.typ+"()", fl)
					}
					all = append(all, "(.fld "+leanStr(fs.lean)+")")
					lvs = append(lvs, "(.fld "+leanStr(fs.lean)+")")
				}
				all = append(all, "(.loc "+leanStr(v.lean)+")")
				all = append(all, args...)
				pendingCall = &tcall{ctor: "callX", f: sh.f, args: all, res: sh.res, pre: lvs}
				return tx{}, true
			case "ext", "builtin":
				if len(sh.res) != 1 {
					x.fail(c, "shim %s needs one result type", v.typ+"()")
				}
				return tx{lean: "(.call " + leanStr(sh.f) + " [" + strings.Join(args, ", ") + "])", typ: sh.res[0]}, false
			}
			x.fail(c, "shim kind %q is not applicable to a function value", sh.kind)
		}
	}
	// a computed function value, e.g. h.funcs[i](ent): the static type of the callee names the shim; the function
	// VALUE is passed first (it scripts its own outcome)
	if _, isId := c.Fun.(*ast.Ident); !isId {
		if _, isSel := c.Fun.(*ast.SelectorExpr); !isSel {
			fv, ok := x.tryExpr(c.Fun)
			if !ok {
				x.fail(c, "call of %s is outside the subset", exprString(c.Fun))
			}
			sh, ok := x.fn.calls[fv.typ+"()"]
			if !ok {
				x.fail(c, "call of a function value of type %s (key %q) is not in the whitelist entry of %s", fv.typ, fv.typ+"()", x.fn.name)
			}
			args := []string{fv.lean}
			for _, a := range c.Args {
				args = append(args, x.defaulted(a, x.expr(a)).lean)
			}
			switch sh.kind {
			case "extstmt":
				pendingCall = &tcall{ctor: "callX", f: sh.f, args: args, res: sh.res}
				x.addTrace(c, sh, fv.typ+"()", args)
				return tx{}, true
			case "ext":
				if len(sh.res) != 1 {
					x.fail(c, "shim %s needs one result type", fv.typ+"()")
				}
				return tx{lean: "(.call " + leanStr(sh.f) + " [" + strings.Join(args, ", ") + "])", typ: sh.res[0]}, false
			}
			x.fail(c, "shim kind %q is not applicable to a function value", sh.kind)
		}
	}
	// method or package call
	var key string
	var recvLean, recvLV string
	hasRecv := false
	isSelf := false
	var sel *ast.SelectorExpr
	isPkgFn := false
	if id, ok := c.Fun.(*ast.Ident); ok {
		key, isPkgFn = id.Name, true // a package-level function of the same package, called by name
		sel = &ast.SelectorExpr{X: id, Sel: id}
	} else {
		sel = c.Fun.(*ast.SelectorExpr)
	}
	if id, ok := sel.X.(*ast.Ident); key == "" && ok && id.Name == x.recvVar && x.recvVar != "" {
		if _, shadow := x.lookup(id.Name); !shadow {
			key, isSelf = "recv."+sel.Sel.Name, true
		}
	}
	isOther := false
	if id, ok := sel.X.(*ast.Ident); key == "" && ok && id.Name == x.otherVar && x.otherVar != "" {
		if _, shadow := x.lookup(id.Name); !shadow {
			// a method of the SECOND object: only translated functions (they run on the same flat field environment)
			key, isOther = "other."+sel.Sel.Name, true
		}
	}
	if key == "" {
		if lv, rd, typ, ok := x.place(sel.X); ok {
			key, recvLean, recvLV, hasRecv = typ+"."+sel.Sel.Name, rd, lv, true
		} else if id, ok := sel.X.(*ast.Ident); ok {
			key = id.Name + "." + sel.Sel.Name // package function
		} else if rv, ok := x.tryExpr(sel.X); ok && rv.typ != "untyped" && rv.typ != "nil" {
			// method on a computed value that is itself inside the subset, e.g. ce.cores[i].Write(…): its static type
			// names the shim; the value is the (non-assignable) receiver
			key, recvLean, hasRecv = rv.typ+"."+sel.Sel.Name, rv.lean, true
		} else {
			// method on any other computed value, e.g. w.Log.Core().Enabled(…): key on the source text of the receiver
			key = exprString(sel.X) + "." + sel.Sel.Name
			if id0 := rootIdent(sel.X); id0 == x.recvVar && x.recvVar != "" {
				key = "recv" + strings.TrimPrefix(key, x.recvVar)
			}
		}
	}
	sh, ok := x.fn.calls[key]
	if !ok {
		x.fail(c, "call %s (key %q) is not in the whitelist entry of %s", exprString(c.Fun), key, x.fn.name)
	}
	var args []string
	addArgs := func() {
		for _, a := range c.Args {
			args = append(args, x.defaulted(a, x.expr(a)).lean)
		}
	}
	if strings.HasPrefix(sh.kind, "funarg:") {
		// statement  args[N], lhs… = translated function f(args…) whose N-th parameter is declared in-out by ITS entry
		// (a *buffer.Buffer the callee appends to): the callee returns the final value after its results
		idx, err := strconv.Atoi(sh.kind[7:])
		if err != nil || idx < 0 || idx >= len(c.Args) || !(isSelf || isOther || isPkgFn) {
			x.fail(c, "shim %s on %s", sh.kind, key)
		}
		addArgs()
		lv, _ := x.lvalue(c.Args[idx])
		pendingCall = &tcall{ctor: "call", f: sh.f, args: args, res: sh.res, post: []string{lv}}
		return tx{}, true
	}
	if strings.HasPrefix(sh.kind, "mutarg:") {
		// statement  args[N], lhs… = f(args…): an external intrinsic that writes through its N-th argument (a slice the
		// callee fills, e.g. runtime.Callers(skip, pcs)); the argument must be assignable
		idx, err := strconv.Atoi(sh.kind[7:])
		if err != nil || idx < 0 || idx >= len(c.Args) || hasRecv {
			x.fail(c, "shim %s on %s", sh.kind, key)
		}
		args = append(args, x.withArgs(c, sh, key)...)
		// the written argument may be `&v` for a local v (json Decode(&pld)): the intrinsic is handed v and returns its new value
		target := c.Args[idx]
		if u, ok := target.(*ast.UnaryExpr); ok && u.Op == token.AND {
			if id, isId := u.X.(*ast.Ident); isId {
				if _, isLoc := x.lookup(id.Name); isLoc {
					target = id
					x.addrOf = id
				}
			}
		}
		addArgs()
		x.addrOf = nil
		// the written argument may be a field of a LOCAL record (addFields(clone.enc, fields)): the intrinsic's result goes
		// to a fresh local and the record is rebuilt with that field replaced
		if tsel, ok := target.(*ast.SelectorExpr); ok {
			if id, ok := tsel.X.(*ast.Ident); ok {
				if v, ok := x.lookup(id.Name); ok && (strings.HasPrefix(v.typ, "struct:") || strings.HasPrefix(v.typ, "ptr:struct:")) {
					decl := x.fn.structs[v.typ[strings.Index(v.typ, "struct:")+7:]]
					tmp := fmt.Sprintf("l%d", x.nloc)
					x.nloc++
					x.legend = append(x.legend, tmp+" = (new value of "+exprString(target)+")")
					var parts []string
					found := false
					for i, f := range decl {
						if f.lean == tsel.Sel.Name {
							found = true
							parts = append(parts, "(.loc "+leanStr(tmp)+")")
						} else {
							parts = append(parts, fmt.Sprintf("(.index (.loc %s) (.lit (.int %d)))", leanStr(v.lean), i))
						}
					}
					if !found {
						x.fail(c, "field %s of %s is not declared in the whitelist entry", tsel.Sel.Name, v.typ)
					}
					pc := &tcall{ctor: "callX", f: sh.f, args: args, res: sh.res, pre: []string{"(.loc " + leanStr(tmp) + ")"}}
					pc.after = []string{"(.assign [(.loc " + leanStr(v.lean) + ")] [(.call \"tuple\" [" + strings.Join(parts, ", ") + "])])"}
					pendingCall = pc
					x.addTrace(c, sh, key, args)
					pendingCall.pureTrace = false
					return tx{}, true
				}
			}
		}
		lv, _ := x.lvalue(target)
		pendingCall = &tcall{ctor: "callX", f: sh.f, args: args, res: sh.res, pre: []string{lv}}
		x.addTrace(c, sh, key, args)
		pendingCall.pureTrace = false
		return tx{}, true
	}
	switch sh.kind {
	case "len":
		if !hasRecv || len(c.Args) != 0 {
			x.fail(c, "shim len on %s", key)
		}
		return tx{lean: "(.len " + recvLean + ")", typ: "int"}, false
	case "self":
		if !hasRecv || len(c.Args) != 0 || len(sh.res) != 1 {
			x.fail(c, "shim self on %s", key)
		}
		return tx{lean: recvLean, typ: sh.res[0]}, false
	case "lit":
		if len(sh.res) != 1 || len(c.Args) != 0 {
			x.fail(c, "shim lit on %s", key)
		}
		return tx{lean: "(.lit (" + sh.f + "))", typ: sh.res[0]}, false
	case "nop":
		for _, a := range c.Args {
			_ = x.expr(a) // the arguments must still be inside the subset
		}
		pendingCall = &tcall{ctor: "nop"}
		return tx{}, true
	case "builtin", "ext":
		if len(sh.res) != 1 {
			x.fail(c, "shim %s needs one result type", key)
		}
		args = append(args, x.withArgs(c, sh, key)...)
		if hasRecv {
			args = append(args, recvLean)
		}
		addArgs()
		return tx{lean: "(.call " + leanStr(sh.f) + " [" + strings.Join(args, ", ") + "])", typ: sh.res[0]}, false
	case "mut":
		if !hasRecv || recvLV == "" {
			x.fail(c, "shim mut on %s needs an assignable receiver", key)
		}
		args = append(args, recvLean)
		addArgs()
		pendingCall = &tcall{ctor: "mut", targetLV: recvLV, value: "(.call " + leanStr(sh.f) + " [" + strings.Join(args, ", ") + "])"}
		return tx{}, true
	case "set":
		if !hasRecv || recvLV == "" {
			x.fail(c, "shim set on %s needs an assignable receiver", key)
		}
		var v string
		switch len(c.Args) {
		case 0:
			v = "(.lit (" + sh.f + "))"
		case 1:
			v = x.defaulted(c.Args[0], x.expr(c.Args[0])).lean
		default:
			x.fail(c, "shim set on %s", key)
		}
		pendingCall = &tcall{ctor: "mut", targetLV: recvLV, value: v}
		return tx{}, true
	case "addret":
		if !hasRecv || recvLV == "" || len(c.Args) != 1 || !isInt(sh.f) {
			x.fail(c, "shim addret on %s", key)
		}
		d := x.constTo(c.Args[0], x.expr(c.Args[0]), sh.f)
		if d.typ != sh.f {
			x.fail(c, "%s: argument of type %s, receiver holds %s", key, d.typ, sh.f)
		}
		pendingCall = &tcall{ctor: "addret", targetLV: recvLV, recvRd: recvLean, res: []string{sh.f},
			value: "(.bin (.add " + intTypes[sh.f] + ") " + recvLean + " " + d.lean + ")"}
		return tx{}, true
	case "cas":
		if !hasRecv || recvLV == "" || len(c.Args) != 2 || !isInt(sh.f) {
			x.fail(c, "shim cas on %s", key)
		}
		o := x.constTo(c.Args[0], x.expr(c.Args[0]), sh.f)
		n := x.constTo(c.Args[1], x.expr(c.Args[1]), sh.f)
		if o.typ != sh.f || n.typ != sh.f {
			x.fail(c, "%s: arguments of type %s, %s, receiver holds %s", key, o.typ, n.typ, sh.f)
		}
		pendingCall = &tcall{ctor: "cas", targetLV: recvLV, recvRd: recvLean, old: o.lean, new: n.lean, res: []string{"bool"}}
		return tx{}, true
	case "extstmt":
		args = append(args, x.withArgs(c, sh, key)...)
		if hasRecv {
			args = append(args, recvLean)
		}
		addArgs()
		pendingCall = &tcall{ctor: "callX", f: sh.f, args: args, res: sh.res}
		x.addTrace(c, sh, key, args)
		return tx{}, true
	case "extfld":
		// statement  flds…, lhs… = f(flds…, with…, recv?, args…): an intrinsic that reads and writes the listed fields of
		// the (primary) object — an untranslated method of the receiver, a function the object is handed to
		// (addFields(final, …)), a marshaler or sub-encoder called back with the object
		var lvs []string
		for _, fl := range sh.flds {
			fs, ok := x.fn.fields[fl]
			if !ok {
				x.fail(c, "shim %s names the unmapped field %s", key, fl)
			}
			args = append(args, "(.fld "+leanStr(fs.lean)+")")
			lvs = append(lvs, "(.fld "+leanStr(fs.lean)+")")
		}
		args = append(args, x.withArgs(c, sh, key)...)
		if hasRecv {
			args = append(args, recvLean)
		}
		addArgs()
		pendingCall = &tcall{ctor: "callX", f: sh.f, args: args, res: sh.res, pre: lvs}
		x.addTrace(c, sh, key, args)
		pendingCall.pureTrace = false
		return tx{}, true
	case "mutext":
		if !hasRecv || recvLV == "" {
			x.fail(c, "shim mutext on %s needs an assignable receiver", key)
		}
		args = append(args, recvLean)
		addArgs()
		pendingCall = &tcall{ctor: "callX", f: sh.f, args: args, res: sh.res, pre: []string{recvLV}}
		x.addTrace(c, sh, key, args)
		pendingCall.pureTrace = false
		return tx{}, true
	case "funOn":
		if !hasRecv {
			x.fail(c, "shim funOn on %s needs a handle", key)
		}
		addArgs()
		pendingCall = &tcall{ctor: "call", f: sh.f, args: args, res: sh.res}
		return tx{}, true
	case "funaddr":
		// statement  lhs… = translated METHOD f with a pointer receiver, called on an addressable LOCAL v (Go takes &v):
		// the callee's pointee field (flds[0], a GoMini field name of the CALLEE's entry) is loaded from v before the call
		// and v is reloaded from it afterwards; the callee's nil-receiver flag (with[0], optional) is false.  Sound because
		// nothing else can hold &v while the call runs (the subset has no other way to take an address).
		if !hasRecv || !strings.HasPrefix(recvLV, "(.loc ") || len(sh.flds) != 1 {
			x.fail(c, "shim funaddr on %s needs an addressable local and the callee's pointee field", key)
		}
		addArgs()
		pc := &tcall{ctor: "call", f: sh.f, args: args, res: sh.res}
		pc.before = append(pc.before, "(.assign [(.fld "+leanStr(sh.flds[0])+")] ["+recvLean+"])")
		if len(sh.with) == 1 {
			pc.before = append(pc.before, "(.assign [(.fld "+leanStr(sh.with[0])+")] [(.lit (.bool false))])")
		}
		pc.after = append(pc.after, "(.assign ["+recvLV+"] [(.fld "+leanStr(sh.flds[0])+")])")
		pendingCall = pc
		return tx{}, true
	case "fun", "funpure":
		if !isSelf && !isPkgFn && !isOther {
			x.fail(c, "translated function %s must be called on the receiver itself", key)
		}
		addArgs()
		// a callee with a variadic parameter (shim.vari = its 1-based position): the arguments from there on ARE the slice
		// (unless the call spreads one: f(xs...))
		if sh.vari > 0 && !c.Ellipsis.IsValid() {
			if len(args) < sh.vari-1 {
				x.fail(c, "too few arguments for the variadic callee %s", key)
			}
			args = append(append([]string{}, args[:sh.vari-1]...), "(.call \"tuple\" ["+strings.Join(args[sh.vari-1:], ", ")+"])")
		}
		pendingCall = &tcall{ctor: "call", f: sh.f, args: args, res: sh.res, pureFun: sh.kind == "funpure"}
		if sh.kind == "funpure" {
			// the claim is checked on the callee's generated body when the table is assembled
			pureClaims = append(pureClaims, [2]string{sh.f, x.fn.name})
		}
		return tx{}, true
	}
	x.fail(c, "unknown shim kind %q for %s", sh.kind, key)
	return tx{}, false
}

// addTrace: a traced intrinsic records (name, arguments…) in the trace pseudo-field before it is called
// withArgs: the read-only fields of the primary object a shim passes to its intrinsic
func (x *xl) withArgs(c *ast.CallExpr, sh shim, key string) []string {
	var out []string
	for _, fl := range sh.with {
		fs, ok := x.fn.fields[fl]
		if !ok {
			x.fail(c, "shim %s names the unmapped field %s", key, fl)
		}
		out = append(out, "(.fld "+leanStr(fs.lean)+")")
	}
	for _, src := range sh.xargs {
		e, err := parser.ParseExpr(src)
		if err != nil {
			x.fail(c, "shim %s: bad xargs expression %q", key, src)
		}
		out = append(out, x.defaulted(c, x.expr(e)).lean)
	}
	return out
}

// capturedLocals: the locals (in scope now) a function literal mentions, in order of first mention
func (x *xl) capturedLocals(fl *ast.FuncLit) []tvar {
	var out []tvar
	seen := map[string]bool{}
	ast.Inspect(fl.Body, func(n ast.Node) bool {
		if id, ok := n.(*ast.Ident); ok {
			if v, ok := x.lookup(id.Name); ok && !seen[v.lean] {
				seen[v.lean] = true
				out = append(out, v)
			}
		}
		return true
	})
	return out
}

// closureValue: a function literal as a value: [its source text, the captured locals]
func (x *xl) closureValue(fl *ast.FuncLit, captured []tvar) tx {
	parts := []string{"(.lit (.bytes " + leanBytes([]byte(transNodeText(fl))) + ") /- closure: its source text -/)"}
	for _, v := range captured {
		parts = append(parts, "(.loc "+leanStr(v.lean)+")")
	}
	// the receiver fields the literal mentions are part of the value too (in order of first mention); a mention of an
	// unmapped field, or of the receiver as a whole without a recvAs mapping, is refused
	if x.recvVar != "" {
		seen := map[string]bool{}
		inSel := map[*ast.Ident]bool{}
		ast.Inspect(fl.Body, func(n ast.Node) bool {
			switch t := n.(type) {
			case *ast.SelectorExpr:
				if id, ok := t.X.(*ast.Ident); ok && id.Name == x.recvVar {
					if _, shadow := x.lookup(id.Name); shadow {
						return true
					}
					inSel[id] = true
					f, ok := x.fn.fields[t.Sel.Name]
					if !ok {
						x.fail(fl, "the function literal reads receiver field %s, which is not mapped in the whitelist entry", t.Sel.Name)
					}
					if !seen[f.lean] {
						seen[f.lean] = true
						parts = append(parts, "(.fld "+leanStr(f.lean)+")")
					}
				}
			case *ast.Ident:
				if t.Name == x.recvVar && !inSel[t] {
					if _, shadow := x.lookup(t.Name); shadow {
						return true
					}
					if x.fn.recvAs == nil {
						x.fail(fl, "the function literal mentions the receiver as a whole, which the whitelist entry does not map")
					}
					if !seen[x.fn.recvAs.lean] {
						seen[x.fn.recvAs.lean] = true
						parts = append(parts, "(.fld "+leanStr(x.fn.recvAs.lean)+")")
					}
				}
			}
			return true
		})
	}
	return tx{lean: "(.call \"tuple\" [" + strings.Join(parts, ", ") + "])", typ: "opt:Closure"}
}

func (x *xl) addTrace(c *ast.CallExpr, sh shim, key string, args []string) {
	if sh.trace == "" {
		return
	}
	fs, ok := x.fn.fields[sh.trace]
	if !ok {
		x.fail(c, "shim %s names the unmapped trace field %s", key, sh.trace)
	}
	rec := append([]string{"(.lit (.bytes " + leanBytes([]byte(sh.f)) + ") /- " + strings.NewReplacer("-/", "- /", "/-", "/ -").Replace(sh.f) + " -/)"}, args...)
	pendingCall.traceStmt = "(.assign [(.fld " + leanStr(fs.lean) + ")] [(.call \"append\" [(.fld " + leanStr(fs.lean) +
		"), (.call \"tuple\" [" + strings.Join(rec, ", ") + "])])])"
	pendingCall.pureTrace = true
}

// tryExpr translates an expression, reporting failure instead of aborting the table
func (x *xl) tryExpr(e ast.Expr) (t tx, ok bool) {
	defer func() {
		if r := recover(); r != nil {
			if _, is := r.(xerr); is {
				t, ok = tx{}, false
				return
			}
			panic(r)
		}
	}()
	return x.expr(e), true
}

func rootIdent(e ast.Expr) string {
	for {
		switch t := e.(type) {
		case *ast.Ident:
			return t.Name
		case *ast.SelectorExpr:
			e = t.X
		case *ast.CallExpr:
			e = t.Fun
		case *ast.ParenExpr:
			e = t.X
		default:
			return ""
		}
	}
}

func (x *xl) tryType(e ast.Expr) (t string, ok bool) {
	defer func() {
		if r := recover(); r != nil {
			if _, is := r.(xerr); is {
				t, ok = "", false
				return
			}
			panic(r)
		}
	}()
	switch e.(type) {
	case *ast.Ident, *ast.ArrayType, *ast.SelectorExpr, *ast.ParenExpr:
		return x.goType(e), true
	}
	return "", false
}

func (x *xl) conversion(c *ast.CallExpr, to string) tx {
	if len(c.Args) != 1 {
		x.fail(c, "conversion arity")
	}
	a := x.expr(c.Args[0])
	switch {
	case isInt(to):
		if a.typ == "untyped" {
			return x.constTo(c, a, to)
		}
		if !isInt(a.typ) {
			x.fail(c, "conversion of %s to %s", a.typ, to)
		}
		if a.typ == to {
			return a
		}
		return tx{lean: "(.conv " + intTypes[to] + " " + a.lean + ")", typ: to}
	case to == "string" || to == "bytes":
		a = x.defaulted(c, a)
		if a.typ == "string" || a.typ == "bytes" {
			return tx{lean: a.lean, typ: to} // same bytes; no aliasing is observable in the subset
		}
	case a.typ == to:
		return a // a named type over the same representation (groupObject(attrs)): the value itself
	}
	x.fail(c, "conversion of %s to %s is outside the subset", a.typ, to)
	return tx{}
}

// appendCall: append(s, x) / append(s, t...) as a value; the statement translator insists on `s = append(s, …)`.
func (x *xl) appendCall(c *ast.CallExpr) tx {
	if len(c.Args) != 2 {
		x.fail(c, "append with %d arguments is outside the subset", len(c.Args))
	}
	s := x.expr(c.Args[0])
	if x.fn.noFieldAppend {
		// the slice appended to, under any re-slicing: a field of the receiver (or of a struct copy of it) may share its
		// backing array with other objects — unless the outermost form is the full-capacity idiom f[:len(f):len(f)]
		base := unparen(c.Args[0])
		capped := false
		if se, ok := base.(*ast.SliceExpr); ok && isCappedSlice(se) {
			capped = true
		}
		for {
			se, ok := base.(*ast.SliceExpr)
			if !ok {
				break
			}
			base = unparen(se.X)
		}
		if sel, ok := base.(*ast.SelectorExpr); ok && !capped {
			if id, ok := sel.X.(*ast.Ident); ok && (id.Name == x.recvVar || id.Name == x.otherVar) {
				x.fail(c, "append to %s: a slice field of the receiver (or of a struct copy of it) may share its backing array with other objects; use make + copy or cap it (f[:len(f):len(f)])", exprString(c.Args[0]))
			}
		}
	}
	if c.Ellipsis != token.NoPos {
		t := x.defaulted(c.Args[1], x.expr(c.Args[1]))
		okT := t.typ == s.typ || (s.typ == "bytes" && t.typ == "string")
		if !okT || !(s.typ == "bytes" || strings.HasPrefix(s.typ, "[]")) {
			x.fail(c, "append(%s, %s...)", s.typ, t.typ)
		}
		return tx{lean: "(.call \"append...\" [" + s.lean + ", " + t.lean + "])", typ: s.typ}
	}
	var el string
	switch {
	case s.typ == "bytes":
		el = "u8"
	case strings.HasPrefix(s.typ, "[]"):
		el = s.typ[2:]
	default:
		x.fail(c, "append to %s", s.typ)
	}
	v := x.expr(c.Args[1])
	if v.typ == "untyped" {
		v = x.constTo(c, v, el)
	}
	if v.typ != el {
		x.fail(c, "append(%s, %s)", s.typ, v.typ)
	}
	return tx{lean: "(.call \"append\" [" + s.lean + ", " + v.lean + "])", typ: s.typ}
}

// Hoisting.  A call with a statement-level meaning (several results, a translated function, a traced intrinsic) may
// stand INSIDE an expression of an `if` condition, an assignment, a `return` or a call statement.  It is executed
// before the statement into a fresh local, which replaces it in the expression, when that preserves Go's meaning:
//
//   - an external intrinsic (`extstmt`) reads and writes nothing the Go code can see (its trace pseudo-field apart), so
//     it may move in front of every PURE evaluation that precedes it; it is hoisted from any position that is
//     evaluated unconditionally, i.e. not from the right operand of && / || (several such calls keep their order);
//   - any other statement-level call (mutation, compare-and-swap, translated function) is hoisted only when everything
//     the expression evaluates before it is a local variable or a literal (a callee cannot change the caller's locals).
//
// Loop conditions are never hoisted from (they are re-evaluated).  Anything else is outside the subset.
func (x *xl) hoistWalk(e ast.Expr, conditional bool, out *[]string) {
	switch t := e.(type) {
	case *ast.ParenExpr:
		x.hoistWalk(t.X, conditional, out)
	case *ast.UnaryExpr:
		x.hoistWalk(t.X, conditional, out)
	case *ast.BinaryExpr:
		x.hoistWalk(t.X, conditional, out)
		x.hoistWalk(t.Y, conditional || t.Op == token.LAND || t.Op == token.LOR, out)
	case *ast.IndexExpr:
		x.hoistWalk(t.X, conditional, out)
		x.hoistWalk(t.Index, conditional, out)
	case *ast.SliceExpr:
		x.hoistWalk(t.X, conditional, out)
		for _, b := range []ast.Expr{t.Low, t.High} {
			if b != nil {
				x.hoistWalk(b, conditional, out)
			}
		}
	case *ast.CompositeLit:
		for _, el := range t.Elts {
			if kv, ok := el.(*ast.KeyValueExpr); ok {
				x.hoistWalk(kv.Value, conditional, out)
			}
		}
	case *ast.SelectorExpr:
		x.hoistWalk(t.X, conditional, out)
		x.hoistLeaves++
		x.hoistFields++
	case *ast.Ident, *ast.BasicLit:
		x.hoistLeaves++
	case *ast.CallExpr:
		before := x.hoistFields
		x.hoistArgs(t, conditional, out)
		x.hoistCall(t, conditional, before == 0, out)
		x.hoistLeaves++
		if _, hoisted := x.subst[t]; !hoisted {
			x.hoistFields++ // a call left in place may read anything
		}
	}
}

func (x *xl) hoistArgs(c *ast.CallExpr, conditional bool, out *[]string) {
	if sel, ok := c.Fun.(*ast.SelectorExpr); ok {
		x.hoistWalk(sel.X, conditional, out)
	} else if _, ok := c.Fun.(*ast.Ident); !ok {
		x.hoistWalk(c.Fun, conditional, out)
	}
	for _, a := range c.Args {
		x.hoistWalk(a, conditional, out)
	}
}

func (x *xl) hoistCall(t *ast.CallExpr, conditional, first bool, out *[]string) {
	if _, done := x.subst[t]; done {
		return
	}
	// a call that cannot be translated on its own (e.g. the receiver part of a text-keyed shim such as
	// w.Log.Core().Enabled) is left to the statement translator, which accepts or rejects the whole expression
	isStmt, ok := func() (st bool, ok bool) {
		defer func() {
			if r := recover(); r != nil {
				if _, is := r.(xerr); is {
					st, ok = false, false
					return
				}
				panic(r)
			}
		}()
		_, st = x.callExpr(t)
		return st, true
	}()
	if !ok || !isStmt {
		pendingCall = nil
		return
	}
	pc := pendingCall
	pendingCall = nil
	if pc.ctor == "mut" || pc.ctor == "nop" || len(pc.res) != 1 {
		x.fail(t, "call %s has no single value here", exprString(t.Fun))
	}
	if conditional {
		x.fail(t, "call %s is evaluated conditionally (right operand of && or ||): it cannot be executed before the statement", exprString(t.Fun))
	}
	pure := (pc.ctor == "callX" && len(pc.pre) == 0) || pc.pureFun
	if !pure && !first {
		x.fail(t, "call %s changes state and is evaluated after a field read or another call", exprString(t.Fun))
	}
	tmp := tvar{fmt.Sprintf("l%d", x.nloc), pc.res[0]}
	x.nloc++
	x.legend = append(x.legend, tmp.lean+" = (value of "+exprString(t.Fun)+"(…) inside an expression) "+tmp.typ)
	if x.subst == nil {
		x.subst = map[*ast.CallExpr]tx{}
	}
	x.subst[t] = tx{lean: "(.loc " + leanStr(tmp.lean) + ")", typ: tmp.typ}
	*out = append(*out, x.emitCall(t, pc, []string{"(.loc " + leanStr(tmp.lean) + ")"}, []string{tmp.typ}))
}

// isCappedSlice: x[:len(x):len(x)]
func isCappedSlice(t *ast.SliceExpr) bool {
	if !t.Slice3 || t.Low != nil || t.High == nil || t.Max == nil {
		return false
	}
	want := "len(" + exprString(t.X) + ")"
	return exprString(t.High) == want && exprString(t.Max) == want
}

func unparen(e ast.Expr) ast.Expr {
	for {
		p, ok := e.(*ast.ParenExpr)
		if !ok {
			return e
		}
		e = p.X
	}
}

// containsStmtCall: does evaluating e make a call that is a STATEMENT in GoMini (translated function, recorded intrinsic)?
func (x *xl) containsStmtCall(e ast.Expr) bool {
	found := false
	ast.Inspect(e, func(n ast.Node) bool {
		if c, ok := n.(*ast.CallExpr); ok && !found {
			func() {
				defer func() {
					if r := recover(); r != nil {
						if _, is := r.(xerr); !is {
							panic(r)
						}
					}
				}()
				if _, st := x.callExpr(c); st {
					found = true
				}
			}()
			pendingCall = nil
		}
		return !found
	})
	return found
}

// hoist prepares expression e; when root is true and e is itself a call, only its arguments are prepared (the
// statement translator deals with the call itself).
func (x *xl) hoist(e ast.Expr, root bool) []string {
	var out []string
	x.hoistLeaves, x.hoistFields = 0, 0
	if c, ok := e.(*ast.CallExpr); ok && root {
		x.hoistArgs(c, false, &out)
		return out
	}
	x.hoistWalk(e, false, &out)
	return out
}

// hoistStmt prepares the expressions a simple statement evaluates.
func (x *xl) hoistStmt(s ast.Stmt) []string {
	var out []string
	switch t := s.(type) {
	case *ast.ExprStmt:
		out = append(out, x.hoist(t.X, true)...)
	case *ast.AssignStmt:
		for _, r := range t.Rhs {
			out = append(out, x.hoist(r, len(t.Rhs) == 1)...)
		}
	case *ast.ReturnStmt:
		for _, r := range t.Results {
			out = append(out, x.hoist(r, len(t.Results) == 1)...)
		}
	}
	return out
}

// ---------------------------------------------------------------- statements

func indent(s string, n int) string {
	pad := strings.Repeat(" ", n)
	return strings.ReplaceAll(s, "\n", "\n"+pad)
}

func block(ss []string) string {
	switch len(ss) {
	case 0:
		return ".skip"
	case 1:
		return ss[0]
	}
	return "(.seq " + indent(ss[0], 2) + "\n" + block(ss[1:]) + ")"
}

func (x *xl) stmts(list []ast.Stmt) string {
	var out []string
	for _, s := range list {
		out = append(out, x.stmt(s))
	}
	return block(out)
}

func (x *xl) scoped(b *ast.BlockStmt) string {
	x.push()
	defer x.pop()
	return x.stmts(b.List)
}

func (x *xl) lvalue(e ast.Expr) (string, string) {
	if id, ok := e.(*ast.Ident); ok && id.Name == "_" {
		return ".blank", "_"
	}
	if lv, _, typ, ok := x.place(e); ok {
		return lv, typ
	}
	x.fail(e, "assignment to %s (only locals and mapped receiver fields are assignable in the subset)", exprString(e))
	return "", ""
}

// assignTo coerces a translated right-hand side to the static type of the place it is assigned to.
func (x *xl) coerce(n ast.Node, v tx, typ string) tx {
	if typ == "_" {
		return x.defaulted(n, v)
	}
	if v.typ == "nil" {
		z, ok := zeroOf(typ)
		if !ok || isInt(typ) || typ == "bool" || typ == "string" {
			x.fail(n, "nil used as %s", typ)
		}
		return tx{lean: "(.lit (" + z + "))", typ: typ}
	}
	v = x.constTo(n, v, typ)
	if v.typ != typ {
		// a concrete value used as an interface the entry says it implements: the non-nil interface value [v]
		if to, ok := x.fn.implements[v.typ]; ok && to == typ && strings.HasPrefix(typ, "opt:") {
			return tx{lean: "(.call \"tuple\" [" + v.lean + "])", typ: typ}
		}
		x.fail(n, "value of type %s assigned to %s", v.typ, typ)
	}
	return v
}

func (x *xl) stmt(s ast.Stmt) string {
	pre := x.hoistStmt(s)
	return block(append(pre, x.stmt1(s)))
}

func (x *xl) stmt1(s ast.Stmt) string {
	x.stmts_++
	switch t := s.(type) {
	case *ast.EmptyStmt:
		return ".skip"
	case *ast.BlockStmt:
		return x.scoped(t)
	case *ast.ExprStmt:
		c, ok := t.X.(*ast.CallExpr)
		if !ok {
			x.fail(s, "expression statement %s", exprString(t.X))
		}
		if r, ok := x.onceDo(c); ok {
			return r
		}
		_, isStmt := x.callExpr(c)
		if !isStmt {
			// a pure call whose value is dropped has no effect in GoMini; refuse instead of dropping it silently
			x.fail(s, "call %s is used as a statement but its shim is a pure expression", exprString(c.Fun))
		}
		pc := pendingCall
		pendingCall = nil
		return x.emitCall(s, pc, nil, nil)
	case *ast.IncDecStmt:
		lv, typ := x.lvalue(t.X)
		if !isInt(typ) {
			x.fail(s, "++/-- on %s", typ)
		}
		op := "add"
		if t.Tok == token.DEC {
			op = "sub"
		}
		rd := x.expr(t.X)
		return "(.assign [" + lv + "] [(.bin (." + op + " " + intTypes[typ] + ") " + rd.lean + " (.lit (.int 1)))])"
	case *ast.AssignStmt:
		return x.assign(t)
	case *ast.DeclStmt:
		return x.decl(t)
	case *ast.ReturnStmt:
		return x.ret(t)
	case *ast.DeferStmt:
		return x.deferStmt(t)
	case *ast.BranchStmt:
		if t.Label != nil {
			x.fail(s, "labelled %s is outside the subset", t.Tok)
		}
		switch t.Tok {
		case token.BREAK:
			return ".brk"
		case token.CONTINUE:
			return ".cont"
		}
		x.fail(s, "%s is outside the subset", t.Tok)
	case *ast.IfStmt:
		// `if A && B { S }` (no else) whose right operand makes a statement-level call (a translated function, a recorded
		// intrinsic): it IS `if A { if B { S } }`, and each condition then starts with its call, which can be hoisted
		if be, ok := unparen(t.Cond).(*ast.BinaryExpr); ok && be.Op == token.LAND && t.Else == nil && x.containsStmtCall(be.Y) {
			inner := &ast.IfStmt{If: be.Y.Pos(), Cond: be.Y, Body: t.Body}
			outer := &ast.IfStmt{If: t.If, Init: t.Init, Cond: be.X,
				Body: &ast.BlockStmt{Lbrace: t.Body.Lbrace, List: []ast.Stmt{inner}, Rbrace: t.Body.Rbrace}}
			return x.stmt1(outer)
		}
		x.push()
		defer x.pop()
		var pre []string
		if t.Init != nil {
			pre = append(pre, x.stmt(t.Init))
		}
		pre = append(pre, x.hoist(t.Cond, false)...)
		c := x.defaulted(t.Cond, x.expr(t.Cond))
		if c.typ != "bool" {
			x.fail(t.Cond, "if condition of type %s", c.typ)
		}
		th := x.scoped(t.Body)
		el := ".skip"
		switch e := t.Else.(type) {
		case nil:
		case *ast.BlockStmt:
			el = x.scoped(e)
		case *ast.IfStmt:
			el = x.stmt(e)
		default:
			x.fail(s, "else branch %T", e)
		}
		r := "(.ite " + c.lean + "\n  " + indent(th, 2) + "\n  " + indent(el, 2) + ")"
		return block(append(pre, r))
	case *ast.SwitchStmt:
		return x.switchStmt(t)
	case *ast.TypeSwitchStmt:
		return x.typeSwitchStmt(t)
	case *ast.ForStmt:
		x.push()
		defer x.pop()
		var pre []string
		if t.Init != nil {
			pre = append(pre, x.stmt(t.Init))
		}
		cond := "(.lit (.bool true))"
		if t.Cond != nil {
			c := x.defaulted(t.Cond, x.expr(t.Cond))
			if c.typ != "bool" {
				x.fail(t.Cond, "loop condition of type %s", c.typ)
			}
			cond = c.lean
		}
		post := ".skip"
		if t.Post != nil {
			post = x.stmt(t.Post)
		}
		body := x.scoped(t.Body)
		r := x.namedLoop("(.loop " + cond + "\n  " + indent(post, 2) + "\n  " + indent(body, 2) + ")")
		return block(append(pre, r))
	case *ast.RangeStmt:
		return x.rangeStmt(t)
	}
	x.fail(s, "statement kind %T is outside the subset", s)
	return ""
}

// onceDo: `recv.Once.Do(func() { … })` (shim kind "once", flds[0] = the mapped boolean field "the Once has fired"):
// if it has not fired, the body runs — inlined, it sees the receiver like the method does — and the flag is set; otherwise
// nothing happens.  (sync.Once also serialises concurrent callers; the sequential meaning is what is translated.)
func (x *xl) onceDo(c *ast.CallExpr) (string, bool) {
	sel, ok := c.Fun.(*ast.SelectorExpr)
	if !ok || len(c.Args) != 1 {
		return "", false
	}
	key := exprString(c.Fun)
	if id0 := rootIdent(sel.X); id0 == x.recvVar && x.recvVar != "" {
		key = "recv" + strings.TrimPrefix(key, x.recvVar)
	} else {
		return "", false
	}
	sh, has := x.fn.calls[key]
	if !has || sh.kind != "once" {
		return "", false
	}
	fl, isLit := c.Args[0].(*ast.FuncLit)
	if !isLit || len(fl.Type.Params.List) != 0 || (fl.Type.Results != nil && len(fl.Type.Results.List) != 0) || len(sh.flds) != 1 {
		x.fail(c, "shim once: %s must be handed a literal func() { … }", key)
	}
	fs, ok := x.fn.fields[sh.flds[0]]
	if !ok || fs.typ != "bool" {
		x.fail(c, "shim once names the unmapped (or non-boolean) field %s", sh.flds[0])
	}
	for _, st := range fl.Body.List {
		ast.Inspect(st, func(n ast.Node) bool {
			if _, isRet := n.(*ast.ReturnStmt); isRet {
				x.fail(c, "return inside a Once body is outside the subset")
			}
			return true
		})
	}
	body := x.scoped(fl.Body)
	return "(.ite (.un .not (.fld " + leanStr(fs.lean) + "))\n  " + indent(block([]string{body, "(.assign [(.fld " + leanStr(fs.lean) + ")] [(.lit (.bool true))])"}), 2) + "\n  .skip)", true
}

func (x *xl) emitCall(n ast.Node, pc *tcall, lvs []string, ltyps []string) string {
	switch pc.ctor {
	case "stmt":
		if len(lvs) != 0 {
			x.fail(n, "a local procedure has no value")
		}
		return pc.value
	case "nop":
		if len(lvs) != 0 {
			x.fail(n, "a call without meaning has no value")
		}
		return ".skip"
	case "mut":
		if len(lvs) != 0 {
			x.fail(n, "a receiver-mutating call has no value")
		}
		return "(.assign [" + pc.targetLV + "] [" + pc.value + "])"
	case "addret", "cas":
		if len(lvs) > 1 {
			x.fail(n, "one result, %d assigned", len(lvs))
		}
		if len(lvs) == 0 {
			lvs = []string{".blank"}
		}
		if len(ltyps) == 1 && ltyps[0] != "_" && ltyps[0] != pc.res[0] {
			x.fail(n, "result has type %s, assigned to %s", pc.res[0], ltyps[0])
		}
		if pc.ctor == "addret" {
			return block([]string{"(.assign [" + pc.targetLV + "] [" + pc.value + "])", "(.assign [" + lvs[0] + "] [" + pc.recvRd + "])"})
		}
		return "(.ite (.bin .eq " + pc.recvRd + " " + pc.old + ")\n  (.assign [" + pc.targetLV + ", " + lvs[0] + "] [" + pc.new + ", (.lit (.bool true))])\n  (.assign [" + lvs[0] + "] [(.lit (.bool false))]))"
	case "callX", "call":
		if len(lvs) != 0 && len(lvs) != len(pc.res) {
			x.fail(n, "%s has %d results, %d assigned", pc.f, len(pc.res), len(lvs))
		}
		if len(lvs) == 0 {
			for range pc.res {
				lvs = append(lvs, ".blank")
			}
		}
		for i := range ltyps {
			if ltyps[i] != "_" && ltyps[i] != pc.res[i] {
				x.fail(n, "result %d of %s has type %s, assigned to %s", i, pc.f, pc.res[i], ltyps[i])
			}
		}
		lvs = append(append([]string{}, pc.pre...), lvs...)
		lvs = append(lvs, pc.post...)
		if pc.traceStmt != "" {
			return block([]string{pc.traceStmt, "(." + pc.ctor + " [" + strings.Join(lvs, ", ") + "] " + leanStr(pc.f) + " [" + strings.Join(pc.args, ", ") + "])"})
		}
		if len(pc.before)+len(pc.after) != 0 {
			ss := append([]string{}, pc.before...)
			ss = append(ss, "(."+pc.ctor+" ["+strings.Join(lvs, ", ")+"] "+leanStr(pc.f)+" ["+strings.Join(pc.args, ", ")+"])")
			return block(append(ss, pc.after...))
		}
		return "(." + pc.ctor + " [" + strings.Join(lvs, ", ") + "] " + leanStr(pc.f) + " [" + strings.Join(pc.args, ", ") + "])"
	}
	x.fail(n, "internal: call ctor %q", pc.ctor)
	return ""
}

func (x *xl) assign(t *ast.AssignStmt) string {
	// op-assignment
	if t.Tok != token.ASSIGN && t.Tok != token.DEFINE {
		if len(t.Lhs) != 1 || len(t.Rhs) != 1 {
			x.fail(t, "op-assignment arity")
		}
		var op token.Token
		switch t.Tok {
		case token.ADD_ASSIGN:
			op = token.ADD
		case token.SUB_ASSIGN:
			op = token.SUB
		case token.MUL_ASSIGN:
			op = token.MUL
		case token.QUO_ASSIGN:
			op = token.QUO
		case token.REM_ASSIGN:
			op = token.REM
		case token.AND_ASSIGN:
			op = token.AND
		case token.OR_ASSIGN:
			op = token.OR
		case token.XOR_ASSIGN:
			op = token.XOR
		case token.SHL_ASSIGN:
			op = token.SHL
		case token.SHR_ASSIGN:
			op = token.SHR
		default:
			x.fail(t, "assignment operator %s is outside the subset", t.Tok)
		}
		lv, typ := x.lvalue(t.Lhs[0])
		v := x.binary(&ast.BinaryExpr{X: t.Lhs[0], OpPos: t.TokPos, Op: op, Y: t.Rhs[0]})
		if v.typ != typ {
			x.fail(t, "op-assignment changes the type %s to %s", typ, v.typ)
		}
		return "(.assign [" + lv + "] [" + v.lean + "])"
	}
	// `name := func() {…}`: a local procedure (no parameters, no results)
	if len(t.Lhs) == 1 && len(t.Rhs) == 1 && t.Tok == token.DEFINE {
		if fl, ok := t.Rhs[0].(*ast.FuncLit); ok {
			id, isId := t.Lhs[0].(*ast.Ident)
			if x.closures == nil {
				x.closures = map[string]*closureInfo{}
			}
			if isId && fl.Type.Results != nil && len(fl.Type.Results.List) == 1 && len(fl.Type.Results.List[0].Names) == 0 &&
				len(fl.Body.List) == 1 {
				// `name := func(p T, …) R { return e }`: a local function given by ONE expression
				if rs, ok := fl.Body.List[0].(*ast.ReturnStmt); ok && len(rs.Results) == 1 {
					ci := &closureInfo{lit: fl, captured: x.capturedLocals(fl), retExpr: rs.Results[0], rtype: x.goType(fl.Type.Results.List[0].Type)}
					if fl.Type.Params != nil {
						for _, f := range fl.Type.Params.List {
							pt := x.goType(f.Type)
							for _, n := range f.Names {
								ci.pnames = append(ci.pnames, n.Name)
								ci.ptypes = append(ci.ptypes, pt)
							}
						}
					}
					x.closures[id.Name] = ci
					x.legend = append(x.legend, id.Name+" = a local function given by one expression: calls on local variables are that expression")
					return ".skip"
				}
			}
			if !isId || (fl.Type.Params != nil && len(fl.Type.Params.List) != 0) || fl.Type.Results != nil {
				x.fail(t, "local function literals are in the subset only as `name := func() {…}` (no parameters, no results) or `name := func(…) T { return e }`")
			}
			x.closures[id.Name] = &closureInfo{lit: fl, captured: x.capturedLocals(fl)}
			x.legend = append(x.legend, id.Name+" = a local procedure: calls are its body inlined; as a value it is [source text, captured locals]")
			return ".skip"
		}
	}
	// `v, ok := m[k]` on a map the entry gives a meaning to (shim "<map type>[]": value and presence)
	if len(t.Lhs) == 2 && len(t.Rhs) == 1 {
		if ix, ok := t.Rhs[0].(*ast.IndexExpr); ok {
			if _, rd, typ, isPlace := x.place(ix.X); isPlace && strings.HasPrefix(typ, "map:") {
				sh, has := x.fn.calls[typ+"[]"]
				if !has || sh.kind != "extstmt" || len(sh.res) != 2 {
					x.fail(t, "map lookup on %s needs a shim %q of kind extstmt with two results", typ, typ+"[]")
				}
				k := x.defaulted(ix.Index, x.expr(ix.Index))
				lvs, typs := x.targets(t, sh.res)
				return x.emitCall(t, &tcall{ctor: "callX", f: sh.f, args: []string{rd, k.lean}, res: sh.res}, lvs, typs)
			}
		}
	}
	if len(t.Lhs) == 1 && len(t.Rhs) == 1 {
		// `cloned := *h`: a struct copy of the receiver into the SECOND object: every field the `other` map shares with
		// `fields` (by Go name) is copied.  Slice fields are copied as values (in Go: the header — they SHARE a backing array)
		if st, ok := t.Rhs[0].(*ast.StarExpr); ok && t.Tok == token.DEFINE {
			if rid, ok := st.X.(*ast.Ident); ok && rid.Name == x.recvVar && x.recvVar != "" && x.fn.other != nil && x.otherVar == "" {
				id, isId := t.Lhs[0].(*ast.Ident)
				if !isId || x.depth != 1 {
					x.fail(t, "struct copy of the receiver: only `v := *recv` at the top level")
				}
				x.otherVar = id.Name
				x.legend = append(x.legend, id.Name+" = the SECOND object, a struct copy of the receiver")
				var names []string
				for n := range x.fn.other {
					if _, ok := x.fn.fields[n]; ok {
						names = append(names, n)
					}
				}
				sort.Strings(names)
				var parts []string
				for _, n := range names {
					parts = append(parts, "(.assign [(.fld "+leanStr(x.fn.other[n].lean)+")] [(.fld "+leanStr(x.fn.fields[n].lean)+")])")
				}
				return block(parts)
			}
		}
		if t.Tok == token.ASSIGN {
			// `x.f = v` on a local of a declared struct type: the record with that field replaced
			if sel, ok := t.Lhs[0].(*ast.SelectorExpr); ok {
				if id, ok := sel.X.(*ast.Ident); ok {
					if v, ok := x.lookup(id.Name); ok && (strings.HasPrefix(v.typ, "struct:") || strings.HasPrefix(v.typ, "ptr:struct:")) {
						decl := x.fn.structs[v.typ[strings.Index(v.typ, "struct:")+7:]]
						var parts []string
						found := false
						for i, f := range decl {
							if f.lean == sel.Sel.Name {
								found = true
								pre := x.hoist(t.Rhs[0], true)
								if len(pre) != 0 {
									x.fail(t, "statement-level call on the right of a struct field assignment")
								}
								parts = append(parts, x.coerce(t.Rhs[0], x.expr(t.Rhs[0]), f.typ).lean)
							} else {
								parts = append(parts, fmt.Sprintf("(.index (.loc %s) (.lit (.int %d)))", leanStr(v.lean), i))
							}
						}
						if !found {
							x.fail(t, "field %s of %s is not declared in the whitelist entry", sel.Sel.Name, v.typ)
						}
						return "(.assign [(.loc " + leanStr(v.lean) + ")] [(.call \"tuple\" [" + strings.Join(parts, ", ") + "])])"
					}
				}
			}
			// `x[i] = v` on a local slice this function made itself: the entry's intrinsic "slice.set"
			if ix, ok := t.Lhs[0].(*ast.IndexExpr); ok {
				if id, ok := ix.X.(*ast.Ident); ok {
					if v, ok := x.lookup(id.Name); ok && x.fresh[v.lean] && strings.HasPrefix(v.typ, "[]") {
						sh, has := x.fn.calls["slice.set"]
						if !has || sh.kind != "ext" {
							x.fail(t, "element assignment needs a shim \"slice.set\" of kind ext")
						}
						i := x.asIndex(ix.Index, x.expr(ix.Index))
						val := x.coerce(t.Rhs[0], x.expr(t.Rhs[0]), v.typ[2:])
						return "(.assign [(.loc " + leanStr(v.lean) + ")] [(.call " + leanStr(sh.f) + " [(.loc " + leanStr(v.lean) + "), " + i.lean + ", " + val.lean + "])])"
					}
					x.fail(t, "element assignment %s: only on a local slice made by this function (x := make(…))", exprString(t.Lhs[0]))
				}
			}
		}
	}
	// `v := pool.Get()` with a shim of kind "object": in a plain function v IS the object whose fields the entry maps
	// (the field environment at entry describes what Get returns); in a METHOD v is the SECOND object (fields through
	// `other`).  `v := recv.f()` with kind "objectfun": the translated function f is called and v is the second object
	// it filled.  `v := recv.f()` with kind "primary": an intrinsic makes a new object from the receiver; from here on
	// v is the PRIMARY object (fields through `fields`, method calls are self calls) and the receiver is the second one.
	if len(t.Lhs) == 1 && len(t.Rhs) == 1 && t.Tok == token.DEFINE {
		rhs := t.Rhs[0]
		if ta, isTA := rhs.(*ast.TypeAssertExpr); isTA && ta.Type != nil {
			rhs = ta.X // `f().(*T)`: the whitelist entry vouches for the dynamic type
		}
		if c, isCall := rhs.(*ast.CallExpr); isCall && len(c.Args) == 0 {
			key := exprString(c.Fun)
			if id0 := rootIdent(c.Fun); id0 == x.recvVar && x.recvVar != "" {
				key = "recv" + strings.TrimPrefix(key, x.recvVar)
			}
			if rhs != t.Rhs[0] {
				key += ".(" + exprString(t.Rhs[0].(*ast.TypeAssertExpr).Type) + ")"
			}
			if sh, ok := x.fn.calls[key]; ok && (sh.kind == "object" || sh.kind == "objectfun" || sh.kind == "primary") {
				id, isId := t.Lhs[0].(*ast.Ident)
				if !isId || x.depth != 1 || x.otherVar != "" {
					x.fail(t, "shim %s: only `v := f()` at the top level, once", sh.kind)
				}
				switch {
				case sh.kind == "object" && x.recvVar == "":
					x.recvVar = id.Name
					x.legend = append(x.legend, id.Name+" = THE object of the field environment (from "+exprString(c.Fun)+"())")
					return ".skip"
				case sh.kind == "object":
					if x.fn.other == nil {
						x.fail(t, "shim object in a method needs an `other` field map")
					}
					x.otherVar = id.Name
					x.legend = append(x.legend, id.Name+" = the SECOND object (from "+exprString(c.Fun)+"())")
					if sh.f == "" {
						return ".skip"
					}
					pc := &tcall{ctor: "callX", f: sh.f, res: nil}
					pendingCall = pc
					x.addTrace(c, sh, key, nil)
					pendingCall = nil
					return x.emitCall(t, pc, nil, nil)
				case sh.kind == "objectfun":
					if x.fn.other == nil {
						x.fail(t, "shim objectfun needs an `other` field map")
					}
					x.otherVar = id.Name
					x.legend = append(x.legend, id.Name+" = the SECOND object, filled by the translated "+sh.f)
					return "(.call [.blank] " + leanStr(sh.f) + " [])"
				default: // primary
					if x.fn.other == nil || x.recvVar == "" {
						x.fail(t, "shim primary needs a receiver and an `other` field map")
					}
					var lvs, args []string
					for _, fl := range sh.flds {
						fs, ok := x.fn.fields[fl]
						if !ok {
							x.fail(t, "shim %s names the unmapped field %s", key, fl)
						}
						lvs = append(lvs, "(.fld "+leanStr(fs.lean)+")")
					}
					for _, fl := range sh.with {
						fs, ok := x.fn.other[fl]
						if !ok {
							x.fail(t, "shim %s names the unmapped field %s of the receiver", key, fl)
						}
						args = append(args, "(.fld "+leanStr(fs.lean)+")")
					}
					x.legend = append(x.legend, id.Name+" = the PRIMARY object from here on (made by "+sh.f+"); "+x.recvVar+" = the second object")
					x.otherVar = x.recvVar
					x.recvVar = id.Name
					pc := &tcall{ctor: "callX", f: sh.f, args: args, res: nil, pre: lvs}
					pendingCall = pc
					x.addTrace(c, sh, key, args)
					pendingCall = nil
					return x.emitCall(t, pc, nil, nil)
				}
			}
		}
	}
	// `recv = fresh()`: the receiver variable is re-pointed to a fresh zeroed object
	if len(t.Lhs) == 1 && len(t.Rhs) == 1 && t.Tok == token.ASSIGN {
		if id, ok := t.Lhs[0].(*ast.Ident); ok && id.Name == x.recvVar && x.recvVar != "" {
			if _, shadow := x.lookup(id.Name); !shadow {
				c, isCall := t.Rhs[0].(*ast.CallExpr)
				var sh shim
				found := false
				if isCall && len(c.Args) == 0 {
					if fid, ok := c.Fun.(*ast.Ident); ok {
						sh, found = x.fn.calls[fid.Name]
					}
				}
				if !found || sh.kind != "fresh" || x.fn.recvNil == "" {
					x.fail(t, "assignment to the receiver variable is only supported as recv = <fresh object>() with a nil-able receiver")
				}
				lvs := []string{"(.fld " + leanStr(x.fn.recvNil) + ")"}
				vals := []string{"(.lit (.bool false))"}
				for _, fl := range sh.flds {
					fs, ok := x.fn.fields[fl]
					if !ok {
						x.fail(t, "shim fresh names the unmapped field %s", fl)
					}
					z, ok := zeroOf(fs.typ)
					if !ok {
						x.fail(t, "shim fresh: no zero value for field %s of type %s", fl, fs.typ)
					}
					lvs = append(lvs, "(.fld "+leanStr(fs.lean)+")")
					vals = append(vals, "(.lit ("+z+"))")
				}
				return "(.assign [" + strings.Join(lvs, ", ") + "] [" + strings.Join(vals, ", ") + "])"
			}
		}
	}
	// a single call on the right with a statement-level meaning
	if len(t.Rhs) == 1 {
		if c, ok := t.Rhs[0].(*ast.CallExpr); ok {
			r, isStmt := x.callExpr(c)
			if isStmt {
				pc := pendingCall
				pendingCall = nil
				if pc.ctor == "mut" {
					x.fail(t, "a receiver-mutating call has no value")
				}
				if len(t.Lhs) != len(pc.res) {
					x.fail(t, "%s has %d results, %d assigned", pc.f, len(pc.res), len(t.Lhs))
				}
				lvs, typs := x.targets(t, pc.res)
				return x.emitCall(t, pc, lvs, typs)
			}
			return x.assignValues(t, []tx{r})
		}
		if ta, ok := t.Rhs[0].(*ast.TypeAssertExpr); ok && len(t.Lhs) == 2 && ta.Type != nil {
			key := ".(" + exprString(ta.Type) + ")"
			sh, ok := x.fn.calls[key]
			if !ok || sh.kind != "extstmt" || len(sh.res) != 2 {
				x.fail(t, "type assertion %s is not in the whitelist entry of %s", key, x.fn.name)
			}
			v := x.expr(ta.X)
			lvs, typs := x.targets(t, sh.res)
			return x.emitCall(t, &tcall{ctor: "callX", f: sh.f, args: []string{v.lean}, res: sh.res}, lvs, typs)
		}
	}
	if len(t.Lhs) != len(t.Rhs) {
		x.fail(t, "assignment of %d values to %d places", len(t.Rhs), len(t.Lhs))
	}
	var vs []tx
	for _, r := range t.Rhs {
		vs = append(vs, x.expr(r))
	}
	out := x.assignValues(t, vs)
	if t.Tok == token.DEFINE {
		for i, r := range t.Rhs {
			c, ok := r.(*ast.CallExpr)
			if !ok {
				continue
			}
			if fid, ok := c.Fun.(*ast.Ident); ok && fid.Name == "make" {
				if id, ok := t.Lhs[i].(*ast.Ident); ok {
					if v, ok := x.lookup(id.Name); ok {
						if x.fresh == nil {
							x.fresh = map[string]bool{}
						}
						x.fresh[v.lean] = true
					}
				}
			}
		}
	}
	return out
}

// targets resolves (declaring, for :=) the left-hand sides given the static types of the values.
func (x *xl) targets(t *ast.AssignStmt, vtyps []string) (lvs, typs []string) {
	for i, l := range t.Lhs {
		id, isId := l.(*ast.Ident)
		if isId && id.Name == "_" {
			lvs, typs = append(lvs, ".blank"), append(typs, "_")
			continue
		}
		if t.Tok == token.DEFINE {
			if !isId {
				x.fail(t, ":= to a non-identifier")
			}
			if _, here := x.scopes[len(x.scopes)-1][id.Name]; !here {
				v := x.declare(t, id.Name, vtyps[i])
				lvs, typs = append(lvs, "(.loc "+leanStr(v.lean)+")"), append(typs, v.typ)
				continue
			}
		}
		lv, typ := x.lvalue(l)
		lvs, typs = append(lvs, lv), append(typs, typ)
	}
	return
}

func (x *xl) assignValues(t *ast.AssignStmt, vs []tx) string {
	// `x = append(x, …)` is the only form of append in the subset (slices are values in GoMini)
	for i, r := range t.Rhs {
		if c, ok := r.(*ast.CallExpr); ok {
			if id, ok := c.Fun.(*ast.Ident); ok && id.Name == "append" {
				if _, isVar := x.lookup("append"); !isVar {
					capped := false
					if se, ok := unparen(c.Args[0]).(*ast.SliceExpr); ok && isCappedSlice(se) {
						capped = true // y := append(x[:len(x):len(x)], …) copies: x is not written, y is a slice of its own
					}
					if !capped && (exprString(t.Lhs[i]) != exprString(c.Args[0]) || t.Tok == token.DEFINE) {
						x.fail(t, "append must have the form x = append(x, …)")
					}
				}
			}
		}
	}
	var vtyps []string
	for i := range vs {
		if t.Tok == token.DEFINE {
			vs[i] = x.defaulted(t.Rhs[i], vs[i])
			if vs[i].typ == "nil" {
				x.fail(t, ":= nil")
			}
		}
		vtyps = append(vtyps, vs[i].typ)
	}
	// evaluate the right-hand sides in the scope BEFORE the new names exist
	lvs, typs := x.targets(t, vtyps)
	var rs []string
	for i := range vs {
		rs = append(rs, x.coerce(t.Rhs[i], vs[i], typs[i]).lean)
	}
	if t.Tok == token.DEFINE { // x := make(…): x holds a slice of this function's own
		for i, r := range t.Rhs {
			if c, ok := r.(*ast.CallExpr); ok {
				if fid, ok := c.Fun.(*ast.Ident); ok && fid.Name == "make" {
					if id, ok := t.Lhs[i].(*ast.Ident); ok {
						if v, ok := x.lookup(id.Name); ok {
							if x.fresh == nil {
								x.fresh = map[string]bool{}
							}
							x.fresh[v.lean] = true
						}
					}
				}
			}
		}
	}
	return "(.assign [" + strings.Join(lvs, ", ") + "] [" + strings.Join(rs, ", ") + "])"
}

func (x *xl) decl(t *ast.DeclStmt) string {
	gd, ok := t.Decl.(*ast.GenDecl)
	if !ok {
		x.fail(t, "declaration kind")
	}
	var out []string
	switch gd.Tok {
	case token.CONST:
		for _, sp := range gd.Specs {
			vs := sp.(*ast.ValueSpec)
			if len(vs.Values) != len(vs.Names) {
				x.fail(t, "const without explicit value (iota) is outside the subset")
			}
			for i, n := range vs.Names {
				v := x.expr(vs.Values[i])
				if v.typ != "untyped" {
					x.fail(t, "typed constant %s", n.Name)
				}
				if vs.Type != nil {
					x.fail(t, "typed constant %s", n.Name)
				}
				if _, isVar := x.lookup(n.Name); isVar {
					x.fail(t, "constant %s shadows a variable", n.Name)
				}
				x.consts[n.Name] = v.val
			}
		}
		return ".skip"
	case token.VAR:
		for _, sp := range gd.Specs {
			vs := sp.(*ast.ValueSpec)
			if len(vs.Values) != 0 && len(vs.Values) != len(vs.Names) {
				x.fail(t, "var with a multi-value initialiser")
			}
			var vals []tx
			for i := range vs.Values {
				vals = append(vals, x.expr(vs.Values[i]))
			}
			for i, n := range vs.Names {
				var typ string
				var val string
				if vs.Type != nil {
					typ = x.goType(vs.Type)
				}
				if len(vals) > 0 {
					v := vals[i]
					if typ == "" {
						v = x.defaulted(vs, v)
						typ = v.typ
					}
					val = x.coerce(vs, v, typ).lean
				} else {
					val = "(.lit (" + x.zeroLit(t, typ) + "))"
				}
				if n.Name == "_" {
					continue
				}
				v := x.declare(t, n.Name, typ)
				out = append(out, "(.assign [(.loc "+leanStr(v.lean)+")] ["+val+"])")
			}
		}
		return block(out)
	}
	if gd.Tok == token.TYPE {
		// a local `type T struct {…}`: the entry declares T (types + structs); the field list is checked against it
		for _, sp := range gd.Specs {
			ts := sp.(*ast.TypeSpec)
			st, isStruct := ts.Type.(*ast.StructType)
			typ, has := x.fn.types[ts.Name.Name]
			if !isStruct || !has || ts.TypeParams != nil {
				x.fail(t, "local type %s: only struct types the whitelist entry declares are in the subset", ts.Name.Name)
			}
			x.checkStructDecl(t, st, typ)
		}
		return ".skip"
	}
	x.fail(t, "declaration %s is outside the subset", gd.Tok)
	return ""
}

// ret translates `return …`.  With deferred calls pending (see deferStmt) the results are evaluated first, then the
// deferred calls run, last registered first, then the function returns — Go's order.
func (x *xl) ret(t *ast.ReturnStmt) string {
	pre, vals := x.retParts(t)
	if len(x.defers) == 0 {
		return block(append(pre, "(.ret ["+strings.Join(vals, ", ")+"])"))
	}
	// results → fresh locals (unless they already are plain locals), deferred calls, return
	var tmps []string
	var lvs []string
	for i, v := range vals {
		typ := "?"
		if i < len(x.results) {
			typ = x.results[i]
		}
		tmp := fmt.Sprintf("l%d", x.nloc)
		x.nloc++
		x.legend = append(x.legend, tmp+" = (result "+strconv.Itoa(i)+" held while the deferred calls run) "+typ)
		lvs = append(lvs, "(.loc "+leanStr(tmp)+")")
		tmps = append(tmps, "(.loc "+leanStr(tmp)+")")
		_ = v
	}
	out := append([]string{}, pre...)
	if len(vals) > 0 {
		out = append(out, "(.assign ["+strings.Join(lvs, ", ")+"] ["+strings.Join(vals, ", ")+"])")
	}
	for k := len(x.defers) - 1; k >= 0; k-- {
		out = append(out, x.defers[k])
	}
	out = append(out, "(.ret ["+strings.Join(tmps, ", ")+"])")
	return block(out)
}

// retParts: statements to run first, and the result expressions
func (x *xl) retParts(t *ast.ReturnStmt) ([]string, []string) {
	if len(x.inouts) > 0 {
		if len(x.results) != 0 {
			x.fail(t, "in-out parameters are supported for functions without declared results only")
		}
		var rs []string
		for _, v := range x.inouts {
			rs = append(rs, "(.loc "+leanStr(v.lean)+")")
		}
		return nil, rs
	}
	if len(t.Results) == 0 {
		var rs []string
		for _, n := range x.named {
			rs = append(rs, "(.loc "+leanStr(n.lean)+")")
		}
		if len(x.results) != len(x.named) {
			x.fail(t, "bare return in a function with unnamed results")
		}
		return nil, rs
	}
	// `return f(...)` with a statement-level call, possibly forwarding several results
	if len(t.Results) == 1 {
		if c, ok := t.Results[0].(*ast.CallExpr); ok {
			r, isStmt := x.callExpr(c)
			if isStmt {
				pc := pendingCall
				pendingCall = nil
				if pc.ctor == "mut" || pc.ctor == "nop" || len(pc.res) != len(x.results) {
					x.fail(t, "return of call %s", exprString(c.Fun))
				}
				var lvs, typs, rs []string
				for i, rt := range pc.res {
					if rt != x.results[i] {
						x.fail(t, "result %d of %s has type %s, the function returns %s", i, exprString(c.Fun), rt, x.results[i])
					}
					tmp := tvar{fmt.Sprintf("l%d", x.nloc), rt}
					x.nloc++
					x.legend = append(x.legend, tmp.lean+" = (value of the returned call) "+tmp.typ)
					lvs, typs, rs = append(lvs, "(.loc "+leanStr(tmp.lean)+")"), append(typs, rt), append(rs, "(.loc "+leanStr(tmp.lean)+")")
				}
				return []string{x.emitCall(t, pc, lvs, typs)}, rs
			}
			if len(x.results) != 1 {
				x.fail(t, "return arity")
			}
			return nil, []string{x.coerce(t, r, x.results[0]).lean}
		}
	}
	if len(t.Results) != len(x.results) {
		x.fail(t, "return arity")
	}
	var rs []string
	for i, r := range t.Results {
		rs = append(rs, x.coerce(r, x.expr(r), x.results[i]).lean)
	}
	return nil, rs
}

// deferStmt: `defer recv.M()` — only at the top level of the function body (so it is registered unconditionally and
// once), only a call WITHOUT arguments whose shim is a recorded external intrinsic.  The call is executed by every
// later `return` (and at the end of a body without results), after the results have been evaluated.  A panic would
// also run it; GoMini's panic outcome carries no state, and the theorems show there is no panic.
func (x *xl) deferStmt(t *ast.DeferStmt) string {
	if x.depth != 1 {
		x.fail(t, "defer below the top level of the function body is outside the subset")
	}
	if len(t.Call.Args) != 0 {
		x.fail(t, "defer of a call with arguments is outside the subset")
	}
	// `defer func() { a(); b() }()`: a closure without parameters whose body is a list of call statements; they run (in
	// source order) where a deferred call runs
	if fl, ok := t.Call.Fun.(*ast.FuncLit); ok {
		if fl.Type.Params != nil && len(fl.Type.Params.List) != 0 || fl.Type.Results != nil {
			x.fail(t, "deferred closure with parameters or results")
		}
		var parts []string
		for _, st := range fl.Body.List {
			es, ok := st.(*ast.ExprStmt)
			if !ok {
				x.fail(st, "deferred closure: only call statements are in the subset")
			}
			ce, ok := es.X.(*ast.CallExpr)
			if !ok {
				x.fail(st, "deferred closure: only call statements are in the subset")
			}
			_, isStmt := x.callExpr(ce)
			if !isStmt {
				x.fail(st, "deferred closure: %s must be a statement-level intrinsic", exprString(ce.Fun))
			}
			pc := pendingCall
			pendingCall = nil
			if pc.ctor != "callX" {
				x.fail(st, "deferred closure: %s must be an external intrinsic", exprString(ce.Fun))
			}
			parts = append(parts, x.emitCall(st, pc, nil, nil))
		}
		x.defers = append(x.defers, block(parts))
		return ".skip"
	}
	_, isStmt := x.callExpr(t.Call)
	if !isStmt {
		x.fail(t, "deferred call %s must be a recorded intrinsic", exprString(t.Call.Fun))
	}
	pc := pendingCall
	pendingCall = nil
	if pc.ctor != "callX" || len(pc.pre) != 0 {
		x.fail(t, "deferred call %s must be a recorded external intrinsic", exprString(t.Call.Fun))
	}
	x.defers = append(x.defers, x.emitCall(t, pc, nil, nil))
	return ".skip"
}

func (x *xl) switchStmt(t *ast.SwitchStmt) string {
	x.push()
	defer x.pop()
	var pre []string
	if t.Init != nil {
		pre = append(pre, x.stmt(t.Init))
	}
	var tag tx
	if t.Tag == nil {
		// `switch { case c1: … }`: the first case whose condition holds — a switch on `true` (conditions are evaluated
		// in source order, one at a time)
		tag = tx{lean: "(.lit (.bool true))", typ: "bool"}
	} else {
		tag = x.defaulted(t.Tag, x.expr(t.Tag))
	}
	if !(isInt(tag.typ) || tag.typ == "bool" || tag.typ == "string") {
		x.fail(t, "switch on %s", tag.typ)
	}
	type cl struct {
		vals string
		body string
	}
	var cases []cl
	def := ".skip"
	seenDef := false
	for _, cc := range t.Body.List {
		c := cc.(*ast.CaseClause)
		for _, st := range c.Body {
			if b, ok := st.(*ast.BranchStmt); ok && b.Tok == token.FALLTHROUGH {
				x.fail(st, "fallthrough is outside the subset")
			}
		}
		x.push()
		body := x.stmts(c.Body)
		x.pop()
		if c.List == nil {
			if seenDef {
				x.fail(c, "two default clauses")
			}
			seenDef, def = true, body
			continue
		}
		var vals []string
		for _, e := range c.List {
			v := x.coerce(e, x.expr(e), tag.typ)
			vals = append(vals, v.lean)
		}
		cases = append(cases, cl{"[" + strings.Join(vals, ", ") + "]", body})
	}
	// `default` may appear anywhere in Go; without fallthrough its position has no meaning: it is tried last
	r := "(.default " + indent(def, 2) + ")"
	for i := len(cases) - 1; i >= 0; i-- {
		r = "(.case " + cases[i].vals + "\n  " + indent(cases[i].body, 2) + "\n" + r + ")"
	}
	return block(append(pre, "(.switch "+tag.lean+"\n  "+indent(r, 2)+")"))
}

// typeSwitchStmt: `switch v := y.(type) { case T1: …; case T2: …; default: … }` with ONE type per case, each of which has a
// comma-ok shim ".(T)" (an external intrinsic answering (value, ok)): the cases are tried in source order — the first
// assertion that holds runs its body with v bound to the asserted value; `default` (wherever written) runs when none holds,
// with v bound to y itself.  No `fallthrough` (Go forbids it here); `break` is outside the subset in this form.
func (x *xl) typeSwitchStmt(t *ast.TypeSwitchStmt) string {
	if t.Init != nil {
		x.fail(t, "type switch with an init statement is outside the subset")
	}
	var bind string
	var subject ast.Expr
	switch a := t.Assign.(type) {
	case *ast.AssignStmt:
		if len(a.Lhs) != 1 || len(a.Rhs) != 1 || a.Tok != token.DEFINE {
			x.fail(t, "type switch header")
		}
		bind = a.Lhs[0].(*ast.Ident).Name
		subject = a.Rhs[0].(*ast.TypeAssertExpr).X
	case *ast.ExprStmt:
		subject = a.X.(*ast.TypeAssertExpr).X
	default:
		x.fail(t, "type switch header")
	}
	x.push()
	defer x.pop()
	subj := x.defaulted(subject, x.expr(subject))
	var deflt *ast.CaseClause
	type arm struct {
		cc *ast.CaseClause
		sh shim
	}
	var arms []arm
	for _, c := range t.Body.List {
		cc := c.(*ast.CaseClause)
		if cc.List == nil {
			deflt = cc
			continue
		}
		if len(cc.List) != 1 {
			x.fail(cc, "a type-switch case with several types is outside the subset")
		}
		key := ".(" + exprString(cc.List[0]) + ")"
		sh, ok := x.fn.calls[key]
		if !ok || sh.kind != "extstmt" || len(sh.res) != 2 || sh.res[1] != "bool" {
			x.fail(cc, "type-switch case %s: no comma-ok shim %q in the whitelist entry of %s", exprString(cc.List[0]), key, x.fn.name)
		}
		arms = append(arms, arm{cc, sh})
	}
	body := func(cc *ast.CaseClause, val string, typ string) string {
		x.push()
		defer x.pop()
		if bind != "" && bind != "_" {
			v := x.declare(cc, bind, typ)
			return block([]string{"(.assign [(.loc " + leanStr(v.lean) + ")] [" + val + "])", x.stmts(cc.Body)})
		}
		return x.stmts(cc.Body)
	}
	out := ".skip"
	if deflt != nil {
		out = body(deflt, subj.lean, subj.typ)
	}
	for i := len(arms) - 1; i >= 0; i-- {
		a := arms[i]
		tv := tvar{fmt.Sprintf("l%d", x.nloc), a.sh.res[0]}
		x.nloc++
		tok := tvar{fmt.Sprintf("l%d", x.nloc), "bool"}
		x.nloc++
		x.legend = append(x.legend, tv.lean+", "+tok.lean+" = (value, ok) of the type-switch case "+exprString(a.cc.List[0]))
		th := body(a.cc, "(.loc "+leanStr(tv.lean)+")", a.sh.res[0])
		out = block([]string{
			"(.callX [(.loc " + leanStr(tv.lean) + "), (.loc " + leanStr(tok.lean) + ")] " + leanStr(a.sh.f) + " [" + subj.lean + "])",
			"(.ite (.loc " + leanStr(tok.lean) + ")\n  " + indent(th, 2) + "\n  " + indent(out, 2) + ")"})
	}
	return out
}

func (x *xl) rangeStmt(t *ast.RangeStmt) string {
	x.push()
	defer x.pop()
	xs := x.expr(t.X)
	var el string
	if strings.HasPrefix(xs.typ, "map:") {
		// `for k := range m`: the keys in the order the entry's intrinsic "<map type>.keys" gives them (an arbitrary
		// parameter: Go's order is unspecified); only the key form is in the subset
		sh, has := x.fn.calls[xs.typ+".keys"]
		if !has || sh.kind != "ext" || len(sh.res) != 1 || !strings.HasPrefix(sh.res[0], "[]") {
			x.fail(t, "range over %s needs a shim %q of kind ext with one slice result", xs.typ, xs.typ+".keys")
		}
		if t.Value != nil {
			x.fail(t, "range over a map with a value variable is outside the subset")
		}
		kid, ok := t.Key.(*ast.Ident)
		if !ok || t.Tok != token.DEFINE || kid.Name == "_" {
			x.fail(t, "range over a map: only `for k := range m`")
		}
		v := x.declare(t, kid.Name, sh.res[0][2:])
		body := x.scoped(t.Body)
		return x.namedLoop("(.range .blank (.loc " + leanStr(v.lean) + ") (.call " + leanStr(sh.f) + " [" + xs.lean + "])\n  " + indent(body, 2) + ")")
	}
	switch {
	case xs.typ == "bytes":
		el = "u8"
	case strings.HasPrefix(xs.typ, "[]"):
		el = xs.typ[2:]
	default:
		x.fail(t, "range over %s is outside the subset (strings range over runes, maps and channels are excluded)", xs.typ)
	}
	bind := func(e ast.Expr, typ string) string {
		if e == nil {
			return ".blank"
		}
		id, ok := e.(*ast.Ident)
		if !ok {
			x.fail(t, "range variable %s", exprString(e))
		}
		if id.Name == "_" {
			return ".blank"
		}
		if t.Tok == token.DEFINE {
			v := x.declare(t, id.Name, typ)
			return "(.loc " + leanStr(v.lean) + ")"
		}
		lv, ltyp := x.lvalue(e)
		if ltyp != typ {
			x.fail(t, "range variable %s has type %s, element type %s", id.Name, ltyp, typ)
		}
		return lv
	}
	k := bind(t.Key, "int")
	v := bind(t.Value, el)
	body := x.scoped(t.Body)
	return x.namedLoop("(.range " + k + " " + v + " " + xs.lean + "\n  " + indent(body, 2) + ")")
}

// cutBody translates the top-level statements before the cut and ends with the tail intrinsic.
func (x *xl) cutBody(fd *ast.FuncDecl) string {
	tl := x.fn.tail
	x.push()
	defer x.pop()
	var out []string
	found := false
	for _, st := range fd.Body.List {
		if strings.Join(strings.Fields(transNodeText(st)), " ") == strings.Join(strings.Fields(tl.from), " ") {
			found = true
			break
		}
		out = append(out, x.stmt(st))
	}
	if !found {
		x.fail(fd, "the statement %q that starts the untranslated tail was not found at top level", tl.from)
	}
	var args []string
	for _, a := range tl.args {
		v, ok := x.lookup(a)
		if !ok {
			x.fail(fd, "tail argument %s is not a local", a)
		}
		args = append(args, "(.loc "+leanStr(v.lean)+")")
	}
	x.legend = append(x.legend, "CUT: everything from `"+tl.from+"` on is the recorded intrinsic "+tl.f)
	if tl.trace != "" {
		fs, ok := x.fn.fields[tl.trace]
		if !ok {
			x.fail(fd, "tail names the unmapped trace field %s", tl.trace)
		}
		rec := append([]string{"(.lit (.bytes " + leanBytes([]byte(tl.f)) + ") /- " + tl.f + " -/)"}, args...)
		out = append(out, "(.assign [(.fld "+leanStr(fs.lean)+")] [(.call \"append\" [(.fld "+leanStr(fs.lean)+"), (.call \"tuple\" ["+strings.Join(rec, ", ")+"])])])")
	}
	if tl.res == "" {
		if len(x.results) != 0 {
			x.fail(fd, "tail without result in a function with results")
		}
		out = append(out, "(.callX [] "+leanStr(tl.f)+" ["+strings.Join(args, ", ")+"])", "(.ret [])")
		return block(out)
	}
	if len(x.results) != 1 || x.results[0] != tl.res {
		x.fail(fd, "tail result type %s does not match the function's results", tl.res)
	}
	tmp := fmt.Sprintf("l%d", x.nloc)
	x.nloc++
	x.legend = append(x.legend, tmp+" = (result of the tail intrinsic) "+tl.res)
	out = append(out, "(.callX [(.loc "+leanStr(tmp)+")] "+leanStr(tl.f)+" ["+strings.Join(args, ", ")+"])", "(.ret [(.loc "+leanStr(tmp)+")])")
	return block(out)
}

// nodeText renders a statement with go/printer (whitespace is normalised by the caller)
func transNodeText(n ast.Node) string {
	var sb strings.Builder
	_ = printer.Fprint(&sb, token.NewFileSet(), n)
	return sb.String()
}

func (x *xl) inoutVals() string {
	var rs []string
	for _, v := range x.inouts {
		rs = append(rs, "(.loc "+leanStr(v.lean)+")")
	}
	return strings.Join(rs, ", ")
}

// namedLoop emits a loop as its own definition `<fn>_loop<k>` (numbered in source order of their ends): symbolic
// execution stops at the name, and the loop lemma of the proof is stated about it.
func (x *xl) namedLoop(term string) string {
	name := fmt.Sprintf("%s_loop%d", x.fn.lean, len(x.loops))
	x.loops = append(x.loops, "def "+name+" : Stmt :=\n  "+indent(term, 2)+"\n\n")
	return name
}

// ---------------------------------------------------------------- functions and tables

func (x *xl) function() (lean string, err error) {
	defer func() {
		if r := recover(); r != nil {
			if xe, ok := r.(xerr); ok {
				err = fmt.Errorf("%s", xe.msg)
				return
			}
			panic(r)
		}
	}()
	fd := x.fd
	if fd.Body == nil {
		x.fail(fd, "no body")
	}
	if fd.Type.TypeParams != nil {
		for _, tp := range fd.Type.TypeParams.List {
			for _, n := range tp.Names {
				if _, ok := x.fn.types[n.Name]; !ok {
					x.fail(fd, "type parameter %s: generic functions are translated at ONE instance, which the whitelist entry must name", n.Name)
				}
			}
		}
	}
	x.push()
	if fd.Recv != nil && len(fd.Recv.List) == 1 && len(fd.Recv.List[0].Names) == 1 {
		x.recvVar = fd.Recv.List[0].Names[0].Name
	}
	var params []string
	np := 0
	for _, f := range fd.Type.Params.List {
		typ := x.goType(f.Type)
		if len(f.Names) == 0 {
			x.fail(f, "unnamed parameter")
		}
		for _, n := range f.Names {
			if x.fn.objParam != "" && n.Name == x.fn.objParam {
				if x.recvVar != "" {
					x.fail(f, "objParam in a method")
				}
				x.recvVar = n.Name
				x.legend = append(x.legend, n.Name+" = THE object of the field environment (parameter)")
				continue
			}
			p := tvar{fmt.Sprintf("p%d", np), typ}
			np++
			params = append(params, leanStr(p.lean))
			x.legend = append(x.legend, p.lean+" = "+n.Name+" "+typ)
			if n.Name != "_" {
				x.scopes[0][n.Name] = p
			}
		}
	}
	var named []string
	if fd.Type.Results != nil {
		nr := 0
		for _, f := range fd.Type.Results.List {
			typ := x.goType(f.Type)
			if len(f.Names) == 0 {
				x.results = append(x.results, typ)
				continue
			}
			for _, n := range f.Names {
				x.results = append(x.results, typ)
				r := tvar{fmt.Sprintf("r%d", nr), typ}
				nr++
				z, ok := zeroOf(typ)
				if !ok {
					x.fail(f, "zero value of %s", typ)
				}
				named = append(named, "("+leanStr(r.lean)+", "+z+")")
				x.named = append(x.named, r)
				x.legend = append(x.legend, r.lean+" = "+n.Name+" "+typ+" (named result)")
				if n.Name != "_" {
					x.scopes[0][n.Name] = r
				}
			}
		}
		if len(x.named) != 0 && len(x.named) != len(x.results) {
			x.fail(fd, "mixed named and unnamed results")
		}
	}
	for _, n := range x.fn.inout {
		v, ok := x.scopes[0][n]
		if !ok {
			x.fail(fd, "in-out parameter %s not found", n)
		}
		x.inouts = append(x.inouts, v)
		x.legend = append(x.legend, v.lean+" is in-out: its final value is returned")
	}
	var body string
	if x.fn.tail == nil {
		body = x.scoped(fd.Body)
	} else {
		body = x.cutBody(fd)
	}
	if len(x.inouts) > 0 {
		end := []string{body}
		for k := len(x.defers) - 1; k >= 0; k-- {
			end = append(end, x.defers[k])
		}
		body = block(append(end, "(.ret ["+x.inoutVals()+"])"))
	} else if len(x.defers) > 0 && len(x.results) == 0 {
		end := []string{body}
		for k := len(x.defers) - 1; k >= 0; k-- {
			end = append(end, x.defers[k])
		}
		body = block(end)
	}
	var sb strings.Builder
	recv := ""
	if x.fn.recv != "" {
		recv = "(" + x.fn.recv + ") "
	}
	fmt.Fprintf(&sb, "/-- %s: func %s%s\n", x.fn.file, recv, x.fn.name)
	for _, l := range x.legend {
		sb.WriteString("    " + l + "\n")
	}
	var fl []string
	for k, f := range x.fn.fields {
		fl = append(fl, "field "+k+" ↦ "+f.lean+" "+f.typ)
	}
	if x.fn.recvAs != nil {
		fl = append(fl, "receiver value ↦ "+x.fn.recvAs.lean+" "+x.fn.recvAs.typ)
	}
	sort.Strings(fl)
	for _, l := range fl {
		sb.WriteString("    " + l + "\n")
	}
	sb.WriteString("-/\n")
	for _, l := range x.loops {
		sb.WriteString(l)
	}
	fmt.Fprintf(&sb, "def %s_body : Stmt :=\n  %s\n\n", x.fn.lean, indent(body, 2))
	fmt.Fprintf(&sb, "@[reducible] def %s_params : List String := [%s]\n", x.fn.lean, strings.Join(params, ", "))
	fmt.Fprintf(&sb, "@[reducible] def %s_named : List (String × Val) := [%s]\n", x.fn.lean, strings.Join(named, ", "))
	fmt.Fprintf(&sb, "def %s : Fun := { params := %s_params, named := %s_named, body := %s_body }\n\n",
		x.fn.lean, x.fn.lean, x.fn.lean, x.fn.lean)
	return sb.String(), nil
}

// parseTransFile: whitelisted files live in /repo; the probe functions of the CTR self-test ("@verif/…") live in
// the framework itself (the root is three levels above -out).
func parseTransFile(rel string) (*token.FileSet, *ast.File, error) {
	if strings.HasPrefix(rel, "@verif/") {
		fset := token.NewFileSet()
		f, err := parser.ParseFile(fset, filepath.Join(*outDir, "..", "..", "..", strings.TrimPrefix(rel, "@verif/")), nil, parser.ParseComments)
		return fset, f, err
	}
	return parseFile(rel)
}

// genTrans wraps translate: when a function of the table cannot be translated, the tie is reported broken
// (`gen:<table> <reason>`, exit status 1) exactly like a table that cannot be read, but instead of leaving NO file a
// STUB is written (`funs` knows no function, no `_body` definitions): the theorems about the table then fail to
// build — as they must — while modules that merely link the table (the CTR driver inside zvdrv) keep compiling, so
// one untranslatable function does not take the correspondence checks of every other property down with it.
func genTrans(spec transSpec) func() (string, int, error) {
	tr := translate(spec)
	return func() (string, int, error) {
		lean, rows, err := tr()
		if err == nil {
			return lean, rows, nil
		}
		fail(spec.table, err)
		reason := strings.NewReplacer("-/", "- /", "/-", "/ -", "\n", " ").Replace(err.Error())
		stub := "import ZapVerif.Model.GoMini\n/-! STUB: the translation of this table FAILED on the current source: " + reason + " -/\n" +
			"namespace ZapVerif.Gen." + spec.table + "\nopen ZapVerif.GoMini\n\ndef funs : String → Option Fun := fun _ => none\n\nend ZapVerif.Gen." + spec.table + "\n"
		return stub, 0, nil
	}
}

func translate(spec transSpec) func() (string, int, error) {
	return func() (string, int, error) {
		var sb strings.Builder
		sb.WriteString("import ZapVerif.Model.GoMini\n")
		sb.WriteString("/-! Mechanical translation (gen/trans.go) of whitelisted Go functions to GoMini terms. -/\n")
		sb.WriteString("namespace ZapVerif.Gen." + spec.table + "\nopen ZapVerif.GoMini\n\n")
		rows := 0
		var names []string
		pureClaims = nil
		bodies := map[string]string{}
		for i := range spec.funcs {
			fn := &spec.funcs[i]
			_, f, err := parseTransFile(fn.file)
			if err != nil {
				return "", 0, err
			}
			fd := findFunc(f, fn.recv, fn.name)
			if fd == nil {
				return "", 0, fmt.Errorf("func (%s) %s not found in %s", fn.recv, fn.name, fn.file)
			}
			x := &xl{fn: fn, fd: fd, file: f, consts: map[string]constant.Value{}}
			pendingCall = nil
			lean, err := x.function()
			if err != nil {
				return "", 0, fmt.Errorf("%s: %v", fn.name, err)
			}
			sb.WriteString(lean)
			bodies[fn.lean] = lean
			rows += x.stmts_
			names = append(names, fn.lean)
		}
		for _, cl := range pureClaims {
			body, ok := bodies[cl[0]]
			if !ok {
				return "", 0, fmt.Errorf("%s: funpure callee %s is not in this table", cl[1], cl[0])
			}
			if err := checkPure(body); err != nil {
				return "", 0, fmt.Errorf("%s: the call of %s is placed as if it changed nothing, but %v", cl[1], cl[0], err)
			}
		}
		sb.WriteString("/-- the translated functions of this table by name -/\ndef funs : String → Option Fun\n")
		for _, n := range names {
			fmt.Fprintf(&sb, "  | %s => some %s\n", leanStr(n), n)
		}
		sb.WriteString("  | _ => none\n\n")
		sb.WriteString("/-! lookup facts (all by `rfl`) for symbolic execution -/\n")
		for _, n := range names {
			fmt.Fprintf(&sb, "@[simp] theorem funs_%s : funs %s = some %s := rfl\n", n, leanStr(n), n)
			fmt.Fprintf(&sb, "@[simp] theorem %s_params_eq : %s.params = %s_params := rfl\n", n, n, n)
			fmt.Fprintf(&sb, "@[simp] theorem %s_named_eq : %s.named = %s_named := rfl\n", n, n, n)
			fmt.Fprintf(&sb, "@[simp] theorem %s_body_eq : %s.body = %s_body := rfl\n", n, n, n)
		}
		sb.WriteString("\n")
		sb.WriteString("end ZapVerif.Gen." + spec.table + "\n")
		return sb.String(), rows, nil
	}
}
