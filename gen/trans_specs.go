package main

// trans_specs.go — the whitelist of the Go→GoMini translator: which functions are translated, how receiver fields
// map to GoMini fields, what named types and constants mean, and which calls each function may make.

func init() {
	for _, s := range transSpecs {
		tables = append(tables, table{s.table, genTrans(s)})
	}
}

// *buffer.Buffer is a byte string; its methods are the obvious list operations.
var bufferCalls = map[string]shim{
	"Buffer.Len":          {kind: "len"},
	"Buffer.Bytes":        {kind: "self", res: []string{"bytes"}},
	"Buffer.String":       {kind: "self", res: []string{"string"}},
	"Buffer.AppendByte":   {kind: "mut", f: "append"},
	"Buffer.AppendString": {kind: "mut", f: "append..."},
	"Buffer.AppendBytes":  {kind: "mut", f: "append..."},
	"Buffer.Write":        {kind: "mut", f: "append..."},
	"Buffer.Reset":        {kind: "set", f: ".bytes []"},
}

func merge(ms ...map[string]shim) map[string]shim {
	out := map[string]shim{}
	for _, m := range ms {
		for k, v := range m {
			out[k] = v
		}
	}
	return out
}

// sync/atomic values by their SEQUENTIAL meaning (one goroutine): a plain integer variable.  The concurrent claim of
// C11 is the separate atomic-step machine of Model/SamplerConc.lean.
var atomicCalls = map[string]shim{
	"AtomicInt64.Load":            {kind: "self", res: []string{"i64"}},
	"AtomicInt64.Store":           {kind: "set"},
	"AtomicInt64.CompareAndSwap":  {kind: "cas", f: "i64"},
	"AtomicUint64.Load":           {kind: "self", res: []string{"u64"}},
	"AtomicUint64.Store":          {kind: "set"},
	"AtomicUint64.Add":            {kind: "addret", f: "u64"},
	"AtomicUint64.CompareAndSwap": {kind: "cas", f: "u64"},
}

// time.Time is represented by its UnixNano (int64), time.Duration by its Nanoseconds (int64)
var timeTypes = map[string]string{"time.Time": "Time", "time.Duration": "Duration"}
var timeCalls = map[string]shim{
	"Time.UnixNano":        {kind: "self", res: []string{"i64"}},
	"Duration.Nanoseconds": {kind: "self", res: []string{"i64"}},
}

// bytes.Buffer (a value field of zapio.Writer) is a byte string
var bytesBufferCalls = map[string]shim{
	"BytesBuffer.Len":   {kind: "len"},
	"BytesBuffer.Bytes": {kind: "self", res: []string{"bytes"}},
	"BytesBuffer.Write": {kind: "mut", f: "append..."},
	"BytesBuffer.Reset": {kind: "set", f: ".bytes []"},
}

var zioFields = map[string]fieldSpec{
	"buff":  {"buff", "BytesBuffer"},
	"Level": {"level", "i8"},
	"#out":  {"out", "[]Msg"}, // pseudo-field: the messages handed to w.log, in order
}

func zioFunc(name string, extra map[string]shim) transFunc {
	return transFunc{file: "zapio/writer.go", recv: "Writer", name: name, lean: name, fields: zioFields,
		calls: merge(bytesBufferCalls, stdCalls, map[string]shim{
			// w.Log.Core().Enabled(w.Level): the level check of the wrapped logger's core
			"recv.Log.Core().Enabled": {kind: "ext", f: "Enabled", res: []string{"bool"}},
			// w.log(b): Check + Write on the logger — the message reaches the core iff the level is enabled
			"recv.log": {kind: "extfld", f: "log", flds: []string{"#out"}},
		}, extra)}
}

var callerFields = map[string]fieldSpec{"Defined": {"defined", "bool"}, "File": {"file", "string"}, "Line": {"line", "int"}}

// a pooled *buffer.Buffer local: Get() is the empty buffer, Free() means nothing, AppendInt is strconv (external)
var pooledBufferCalls = merge(bufferCalls, map[string]shim{
	"bufferpool.Get":   {kind: "lit", f: ".bytes []", res: []string{"Buffer"}},
	"Buffer.Free":      {kind: "nop"},
	"Buffer.AppendInt": {kind: "mut", f: "Buffer.AppendInt"},
})

// *CheckedEntry: nil-ness, the dirty flag, ErrorOutput and the terminal hook (nil-able), the cores, and the trace of
// every call Write makes to the outside (cores, ErrorOutput, hook, pool) in order
var ceFields = map[string]fieldSpec{
	"dirty": {"dirty", "bool"}, "ErrorOutput": {"eo", "opt:WriteSyncer"}, "after": {"after", "opt:Hook"},
	"cores": {"cores", "[]Core"}, "Time": {"time", "Time"}, "Entry": {"entry", "Entry"}, "#ev": {"ev", "[]Event"},
}

var jsonEncFields = map[string]fieldSpec{
	"buf":            {"buf", "Buffer"},
	"spaced":         {"spaced", "bool"},
	"openNamespaces": {"openNs", "int"},
}

var stdCalls = map[string]shim{
	"bytes.IndexByte":       {kind: "builtin", f: "bytes.IndexByte", res: []string{"int"}},
	"strings.IndexByte":     {kind: "builtin", f: "strings.IndexByte", res: []string{"int"}},
	"strings.LastIndexByte": {kind: "builtin", f: "strings.LastIndexByte", res: []string{"int"}},
}

func probeFuncs() []transFunc {
	var out []transFunc
	for _, n := range []string{"probeU32", "probeU8", "probeU64", "probeInt", "probeI64", "probeDiv", "probeDivU", "probeConv",
		"probeSlice", "probeSliceLo", "probeSliceHi", "probeIndex", "probeShort", "probeSwap", "probeLoop", "probeSwitch",
		"probeRange", "probeMinMax", "probeNamed", "probeAppend", "probeIndexByte", "probeShadow", "probeWhile"} {
		out = append(out, transFunc{file: "@verif/harness/cmd/zvh/trans_probe.go", name: n, lean: n, calls: stdCalls})
	}
	return out
}

var transSpecs = []transSpec{
	// the CTR self-test: probe functions of the harness, translated like any whitelisted function
	{table: "TransProbe", funcs: probeFuncs()},
	{table: "TransSampler", funcs: []transFunc{
		{file: "zapcore/sampler.go", name: "fnv32a", lean: "fnv32a"},
		{file: "zapcore/sampler.go", recv: "counter", name: "IncCheckReset", lean: "IncCheckReset",
			fields: map[string]fieldSpec{"resetAt": {"resetAt", "AtomicInt64"}, "counter": {"counter", "AtomicUint64"}},
			types:  timeTypes, calls: merge(atomicCalls, timeCalls)},
		{file: "zapcore/sampler.go", recv: "sampler", name: "Check", lean: "Check",
			fields: map[string]fieldSpec{
				"first": {"first", "u64"}, "thereafter": {"thereafter", "u64"}, "tick": {"tick", "Duration"},
				"counts": {"counts", "Counters"}, // opaque: only passed to counts.get
				"hook":   {"hooks", "HookTrace"}, // the decisions the hook was called with, in order
				"Core":   {"core", "Core"},       // the wrapped core: the entries forwarded to it, in order
			},
			types:   map[string]string{"Entry": "struct:Entry", "*CheckedEntry": "CheckedEntry", "time.Time": "Time", "time.Duration": "Duration"},
			structs: map[string][]fieldSpec{"Entry": {{"Level", "i8"}, {"Message", "string"}, {"Time", "Time"}}},
			consts:  map[string]string{"_minLevel": "i8:-1", "_maxLevel": "i8:5", "LogDropped": "u32:1", "LogSampled": "u32:2"},
			calls: map[string]shim{
				"recv.Enabled": {kind: "ext", f: "Enabled", res: []string{"bool"}},
				// counts.get(level, message) returns a handle to THE cell whose fields (resetAt, counter) are in the env
				"Counters.get":          {kind: "ext", f: "counts.get", res: []string{"Counter"}},
				"Counter.IncCheckReset": {kind: "funOn", f: "IncCheckReset", res: []string{"u64"}},
				"recv.hook":             {kind: "extfld", f: "hook", flds: []string{"hook"}},
				"Core.Check":            {kind: "mutext", f: "Core.Check", res: []string{"CheckedEntry"}},
			}},
	}},
	{table: "TransMultiWS", funcs: []transFunc{
		{file: "zapcore/write_syncer.go", recv: "multiWriteSyncer", name: "Write", lean: "Write",
			recvAs: &fieldSpec{"ws", "[]WriteSyncer"},
			fields: map[string]fieldSpec{"#writes": {"writes", "[]Call"}}, // pseudo-field: what each sink's Write was handed
			calls: map[string]shim{
				// a sink is a value that scripts its own outcome: Write(p) returns (n, err) read off the sink
				"WriteSyncer.Write": {kind: "extstmt", f: "sink.Write", res: []string{"int", "error"}, trace: "#writes"},
				// multierr.Append keeps every non-nil error in order: errors are lists, Append is concatenation
				"multierr.Append": {kind: "builtin", f: "append...", res: []string{"error"}},
			}},
		{file: "zapcore/write_syncer.go", recv: "multiWriteSyncer", name: "Sync", lean: "Sync",
			recvAs: &fieldSpec{"ws", "[]WriteSyncer"},
			calls: map[string]shim{
				"WriteSyncer.Sync": {kind: "ext", f: "sink.Sync", res: []string{"error"}},
				"multierr.Append":  {kind: "builtin", f: "append...", res: []string{"error"}},
			}},
	}},
	{table: "TransZio", funcs: []transFunc{
		zioFunc("flush", nil),
		zioFunc("writeLine", map[string]shim{"recv.flush": {kind: "fun", f: "flush"}}),
		zioFunc("Write", map[string]shim{"recv.writeLine": {kind: "fun", f: "writeLine", res: []string{"bytes"}}}),
		zioFunc("Sync", map[string]shim{"recv.flush": {kind: "fun", f: "flush"}}),
	}},
	{table: "TransCaller", funcs: []transFunc{
		{file: "zapcore/entry.go", recv: "EntryCaller", name: "FullPath", lean: "FullPath", fields: callerFields,
			calls: pooledBufferCalls},
		{file: "zapcore/entry.go", recv: "EntryCaller", name: "TrimmedPath", lean: "TrimmedPath", fields: callerFields,
			calls: merge(pooledBufferCalls, stdCalls, map[string]shim{"recv.FullPath": {kind: "fun", f: "FullPath", res: []string{"string"}}})},
	}},
	{table: "TransEscape", funcs: []transFunc{
		// the generic safeAppendStringLike at its instance S = string (safeAddString); the []byte instance
		// (safeAddByteString) is the same text with the same meaning of every operation used
		{file: "zapcore/json_encoder.go", name: "safeAppendStringLike", lean: "safeAppendStringLike",
			types: map[string]string{"S": "string", "*buffer.Buffer": "Buffer",
				"func(*buffer.Buffer, S)": "AppendFn", "func(S) (rune, int)": "DecodeFn"},
			consts: map[string]string{"utf8.RuneSelf": "128", "utf8.RuneError": "65533", "_hex": "str:0123456789abcdef"},
			inout:  []string{"buf"},
			calls: merge(bufferCalls, map[string]shim{
				// appendTo(buf, x) is (*buffer.Buffer).AppendString / AppendBytes: buf = buf ++ x
				"AppendFn()": {kind: "mutarg0", f: "append..."},
				// decodeRune(x) is utf8.DecodeRuneInString / DecodeRune: (rune, size), modelled by Esc.validLen
				"DecodeFn()": {kind: "extstmt", f: "decodeRune", res: []string{"i32", "int"}},
			})},
	}},
	{table: "TransCE", funcs: []transFunc{
		{file: "zapcore/entry.go", recv: "CheckedEntry", name: "Write", lean: "Write",
			fields: ceFields, recvNil: "isnil", recvAs: &fieldSpec{"self", "CE"},
			types: map[string]string{"Field": "Field"},
			calls: map[string]shim{
				// every call out of Write is an external intrinsic that is RECORDED: what is proved is their order and count
				"Core.Write":           {kind: "extstmt", f: "Core.Write", res: []string{"error"}, trace: "#ev"},
				"fmt.Fprintf":          {kind: "extstmt", f: "fmt.Fprintf", res: []string{"int", "error"}, trace: "#ev"},
				"opt:WriteSyncer.Sync": {kind: "extstmt", f: "ErrorOutput.Sync", res: []string{"error"}, trace: "#ev"},
				"opt:Hook.OnWrite":     {kind: "extstmt", f: "hook.OnWrite", trace: "#ev"},
				"putCheckedEntry":      {kind: "extstmt", f: "putCheckedEntry", trace: "#ev"},
				"multierr.Append":      {kind: "builtin", f: "append...", res: []string{"error"}},
			}},
	}},
	{table: "TransJsonSep", funcs: []transFunc{
		{file: "zapcore/json_encoder.go", recv: "jsonEncoder", name: "addElementSeparator", lean: "addElementSeparator",
			fields: jsonEncFields, calls: bufferCalls},
		{file: "zapcore/json_encoder.go", recv: "jsonEncoder", name: "addKey", lean: "addKey",
			fields: jsonEncFields,
			calls: merge(bufferCalls, map[string]shim{
				"recv.addElementSeparator": {kind: "fun", f: "addElementSeparator"},
				// safeAddString(s) appends the escaped form of s to enc.buf (Model/Esc.lean; tied separately)
				"recv.safeAddString": {kind: "extfld", f: "safeAddString", flds: []string{"buf"}},
			})},
		{file: "zapcore/json_encoder.go", recv: "jsonEncoder", name: "closeOpenNamespaces", lean: "closeOpenNamespaces",
			fields: jsonEncFields, calls: bufferCalls},
	}},
}
