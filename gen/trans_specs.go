package main

// trans_specs.go — the whitelist of the Go→GoMini translator: which functions are translated, how receiver fields
// map to GoMini fields, what named types and constants mean, and which calls each function may make.

func init() {
	for _, s := range transSpecs {
		tables = append(tables, table{s.table, genTrans(s)})
	}
}

// *buffer.Buffer is a byte string; its methods are the obvious list operations.
var bufferCalls = map[string]shim{
	"Buffer.Len":          {kind: "len"},
	"Buffer.Bytes":        {kind: "self", res: []string{"bytes"}},
	"Buffer.String":       {kind: "self", res: []string{"string"}},
	"Buffer.AppendByte":   {kind: "mut", f: "append"},
	"Buffer.AppendString": {kind: "mut", f: "append..."},
	"Buffer.AppendBytes":  {kind: "mut", f: "append..."},
	"Buffer.Write":        {kind: "mut", f: "append..."},
	"Buffer.Reset":        {kind: "set", f: ".bytes []"},
}

func merge(ms ...map[string]shim) map[string]shim {
	out := map[string]shim{}
	for _, m := range ms {
		for k, v := range m {
			out[k] = v
		}
	}
	return out
}

// sync/atomic values by their SEQUENTIAL meaning (one goroutine): a plain integer variable.  The concurrent claim of
// C11 is the separate atomic-step machine of Model/SamplerConc.lean.
var atomicCalls = map[string]shim{
	"AtomicInt64.Load":            {kind: "self", res: []string{"i64"}},
	"AtomicInt64.Store":           {kind: "set"},
	"AtomicInt64.CompareAndSwap":  {kind: "cas", f: "i64"},
	"AtomicUint64.Load":           {kind: "self", res: []string{"u64"}},
	"AtomicUint64.Store":          {kind: "set"},
	"AtomicUint64.Add":            {kind: "addret", f: "u64"},
	"AtomicUint64.CompareAndSwap": {kind: "cas", f: "u64"},
}

// time.Time is represented by its UnixNano (int64), time.Duration by its Nanoseconds (int64)
var timeTypes = map[string]string{"time.Time": "Time", "time.Duration": "Duration"}
var timeCalls = map[string]shim{
	"Time.UnixNano":        {kind: "self", res: []string{"i64"}},
	"Duration.Nanoseconds": {kind: "self", res: []string{"i64"}},
}

// bytes.Buffer (a value field of zapio.Writer) is a byte string
var bytesBufferCalls = map[string]shim{
	"BytesBuffer.Len":   {kind: "len"},
	"BytesBuffer.Bytes": {kind: "self", res: []string{"bytes"}},
	"BytesBuffer.Write": {kind: "mut", f: "append..."},
	"BytesBuffer.Reset": {kind: "set", f: ".bytes []"},
}

var zioFields = map[string]fieldSpec{
	"buff":  {"buff", "BytesBuffer"},
	"Level": {"level", "i8"},
	"#out":  {"out", "[]Msg"}, // pseudo-field: the messages handed to w.log, in order
}

func zioFunc(name string, extra map[string]shim) transFunc {
	return transFunc{file: "zapio/writer.go", recv: "Writer", name: name, lean: name, fields: zioFields,
		calls: merge(bytesBufferCalls, stdCalls, map[string]shim{
			// w.Log.Core().Enabled(w.Level): the level check of the wrapped logger's core
			"recv.Log.Core().Enabled": {kind: "ext", f: "Enabled", res: []string{"bool"}},
			// w.log(b): Check + Write on the logger — the message reaches the core iff the level is enabled
			"recv.log": {kind: "extfld", f: "log", flds: []string{"#out"}},
		}, extra)}
}

var callerFields = map[string]fieldSpec{"Defined": {"defined", "bool"}, "File": {"file", "string"}, "Line": {"line", "int"}}

// a pooled *buffer.Buffer local: Get() is the empty buffer, Free() means nothing, AppendInt is strconv (external)
var pooledBufferCalls = merge(bufferCalls, map[string]shim{
	"bufferpool.Get":   {kind: "lit", f: ".bytes []", res: []string{"Buffer"}},
	"Buffer.Free":      {kind: "nop"},
	"Buffer.AppendInt": {kind: "mut", f: "Buffer.AppendInt"},
})

// *CheckedEntry: nil-ness, the dirty flag, ErrorOutput and the terminal hook (nil-able), the cores, and the trace of
// every call Write makes to the outside (cores, ErrorOutput, hook, pool) in order
var ceFields = map[string]fieldSpec{
	"dirty": {"dirty", "bool"}, "ErrorOutput": {"eo", "opt:WriteSyncer"}, "after": {"after", "opt:Hook"},
	"cores": {"cores", "[]Core"}, "Time": {"time", "Time"}, "Entry": {"entry", "Entry"}, "#ev": {"ev", "[]Event"},
}

// AddCore / After / Should: a nil receiver is replaced by a fresh entry from the pool (getCheckedEntry = Get + reset)
func ceAddFunc(name string, extra map[string]shim) transFunc {
	return transFunc{file: "zapcore/entry.go", recv: "CheckedEntry", name: name, lean: name,
		fields: map[string]fieldSpec{"dirty": {"dirty", "bool"}, "ErrorOutput": {"eo", "opt:WriteSyncer"}, "after": {"after", "opt:Hook"},
			"cores": {"cores", "[]Core"}, "Entry": {"entry", "Entry"}},
		recvNil: "isnil", recvAs: &fieldSpec{"self", "CE"},
		types: map[string]string{"Entry": "Entry", "Core": "Core", "*CheckedEntry": "CE", "CheckWriteHook": "opt:Hook", "CheckWriteAction": "opt:Hook"},
		calls: merge(map[string]shim{
			"getCheckedEntry": {kind: "fresh", flds: []string{"dirty", "ErrorOutput", "after", "cores"}},
		}, extra)}
}

// ---- the core algebra (zapcore/core.go, tee.go, hook.go, increase_level.go)
//
// A *CheckedEntry parameter is the nil-able record [cores]; entries are the record [Level]; sub-cores, encoders,
// sinks and hook functions are opaque values handed to external intrinsics, which are recorded ("#ev") when the
// call has an effect (Write, Sync, EncodeEntry, a hook function) and pure when it has none (Enabled, Check, AddCore).
var coreTypes = map[string]string{"Entry": "struct:Entry", "*CheckedEntry": "ptr:struct:CE", "Field": "Field", "Core": "Core", "Level": "i8"}
var coreStructs = map[string][]fieldSpec{"Entry": {{"Level", "i8"}}, "CE": {{"cores", "[]Core"}}}
var coreConsts = map[string]string{"ErrorLevel": "i8:2"}
var coreCalls = map[string]shim{
	"Core.Write":            {kind: "extstmt", f: "Core.Write", res: []string{"error"}, trace: "#ev"},
	"Core.Sync":             {kind: "extstmt", f: "Core.Sync", res: []string{"error"}, trace: "#ev"},
	"Core.Check":            {kind: "ext", f: "Core.Check", res: []string{"ptr:struct:CE"}},
	"Core.Enabled":          {kind: "ext", f: "Core.Enabled", res: []string{"bool"}},
	"ptr:struct:CE.AddCore": {kind: "ext", f: "CE.AddCore", res: []string{"ptr:struct:CE"}}, // proved separately: TransCEAdd
	"multierr.Append":       {kind: "builtin", f: "append...", res: []string{"error"}},
}

func coreFunc(file, recv, name string, fields map[string]fieldSpec, recvAs *fieldSpec, extra map[string]shim) transFunc {
	fl := map[string]fieldSpec{"#ev": {"ev", "[]Event"}}
	for k, v := range fields {
		fl[k] = v
	}
	return transFunc{file: file, recv: recv, name: name, lean: recv + "_" + name, fields: fl, recvAs: recvAs,
		types: coreTypes, structs: coreStructs, consts: coreConsts, calls: merge(coreCalls, extra)}
}

var ioCoreFields = map[string]fieldSpec{"enc": {"enc", "Encoder"}, "out": {"out", "WriteSyncer"}}
var ioCoreCalls = map[string]shim{
	"recv.Enabled":        {kind: "ext", f: "LevelEnabler.Enabled", res: []string{"bool"}}, // the embedded LevelEnabler
	"Encoder.EncodeEntry": {kind: "extstmt", f: "Encoder.EncodeEntry", res: []string{"Buffer", "error"}, trace: "#ev"},
	"WriteSyncer.Write":   {kind: "extstmt", f: "WriteSyncer.Write", res: []string{"int", "error"}, trace: "#ev"},
	"WriteSyncer.Sync":    {kind: "extstmt", f: "WriteSyncer.Sync", res: []string{"error"}, trace: "#ev"},
	"Buffer.Bytes":        {kind: "self", res: []string{"bytes"}},
	"Buffer.Free":         {kind: "nop"},
	"recv.Sync":           {kind: "fun", f: "ioCore_Sync", res: []string{"error"}},
}
var selfCore = &fieldSpec{"self", "Core"}
var hookedFields = map[string]fieldSpec{"Core": {"core", "Core"}, "funcs": {"funcs", "[]HookFn"}}
var lfcFields = map[string]fieldSpec{"core": {"core", "Core"}, "level": {"level", "LevelEnabler"}}

// ---- logger.go: Logger.check (up to the early return for entries nobody writes), terminalHookOverride, and the
// level guards of SugaredLogger.log / logln.  Hooks are nil-able values [code]: WriteThenNoop 0, Goexit 1, Panic 2,
// Fatal 3, anything else a custom hook.
var hookConsts = map[string]string{
	"zapcore.WriteThenNoop": "val:opt:Hook|.list [.int 0]", "zapcore.WriteThenGoexit": "val:opt:Hook|.list [.int 1]",
	"zapcore.WriteThenPanic": "val:opt:Hook|.list [.int 2]", "zapcore.WriteThenFatal": "val:opt:Hook|.list [.int 3]",
	"zapcore.DPanicLevel": "i8:3", "zapcore.PanicLevel": "i8:4", "zapcore.FatalLevel": "i8:5", "DPanicLevel": "i8:3",
}
var loggerTypes = map[string]string{"zapcore.Level": "i8", "zapcore.CheckWriteHook": "opt:Hook", "*zapcore.CheckedEntry": "ptr:struct:CE",
	"zapcore.Entry": "struct:Entry"}
var loggerStructs = map[string][]fieldSpec{
	"Entry": {{"LoggerName", "string"}, {"Time", "Time"}, {"Level", "i8"}, {"Message", "string"}},
	"CE":    {{"cores", "[]Core"}, {"after", "opt:Hook"}},
}

// SugaredLogger.log / logln: the level guard is translated; formatting, Check, sweetenFields and Write are the tail
func sugarGuard(name, from string) transFunc {
	return transFunc{file: "sugar.go", recv: "SugaredLogger", name: name, lean: "Sugar_" + name,
		fields: map[string]fieldSpec{"#ev": {"ev", "[]Event"}},
		types:  map[string]string{"zapcore.Level": "i8", "interface{}": "Any"}, consts: hookConsts,
		tail: &tailSpec{from: from, f: "Sugar.formatCheckWrite", args: []string{"lvl"}, trace: "#ev"},
		calls: map[string]shim{
			// s.base.Core().Enabled(lvl): the base logger's core
			"recv.base.Core().Enabled": {kind: "ext", f: "Core.Enabled", res: []string{"bool"}},
		}}
}

// ---- the lock-protected wrappers: sync.Mutex Lock/Unlock, the wrapped WriteSyncer and the bufio.Writer are recorded
// intrinsics; what is proved is the ORDER: everything happens between Lock and Unlock, Unlock always last.
func lockedFunc(recv, name, file string) transFunc {
	return transFunc{file: file, recv: recv, name: name, lean: recv + "_" + name,
		fields: map[string]fieldSpec{"ws": {"ws", "WriteSyncer"}, "#ev": {"ev", "[]Event"}},
		calls: map[string]shim{
			"recv.Lock":         {kind: "extstmt", f: "Mutex.Lock", trace: "#ev"}, // the embedded sync.Mutex
			"recv.Unlock":       {kind: "extstmt", f: "Mutex.Unlock", trace: "#ev"},
			"WriteSyncer.Write": {kind: "extstmt", f: "WriteSyncer.Write", res: []string{"int", "error"}, trace: "#ev"},
			"WriteSyncer.Sync":  {kind: "extstmt", f: "WriteSyncer.Sync", res: []string{"error"}, trace: "#ev"},
		}}
}

// BufferedWriteSyncer: the bufio.Writer is a VALUE that Flush / Write replace (and record); Available / Buffered read it.
// initialize() (ticker, goroutine, bufio.NewWriterSize) is an intrinsic on the fields it sets.
func bwsFunc(name string) transFunc {
	return transFunc{file: "zapcore/buffered_write_syncer.go", recv: "BufferedWriteSyncer", name: name, lean: "BufferedWriteSyncer_" + name,
		fields: map[string]fieldSpec{"mu": {"mu", "Mutex"}, "initialized": {"initialized", "bool"}, "writer": {"writer", "BufioWriter"},
			"WS": {"ws", "WriteSyncer"}, "Size": {"size", "int"}, "#ev": {"ev", "[]Event"}},
		calls: map[string]shim{
			"Mutex.Lock":            {kind: "extstmt", f: "Mutex.Lock", trace: "#ev"},
			"Mutex.Unlock":          {kind: "extstmt", f: "Mutex.Unlock", trace: "#ev"},
			"recv.initialize":       {kind: "extfld", f: "BufferedWriteSyncer.initialize", flds: []string{"initialized", "writer", "WS", "Size"}},
			"BufioWriter.Available": {kind: "ext", f: "bufio.Available", res: []string{"int"}},
			"BufioWriter.Buffered":  {kind: "ext", f: "bufio.Buffered", res: []string{"int"}},
			"BufioWriter.Flush":     {kind: "mutext", f: "bufio.Flush", res: []string{"error"}, trace: "#ev"},
			"BufioWriter.Write":     {kind: "mutext", f: "bufio.Write", res: []string{"int", "error"}, trace: "#ev"},
			"WriteSyncer.Sync":      {kind: "extstmt", f: "WriteSyncer.Sync", res: []string{"error"}, trace: "#ev"},
			"multierr.Append":       {kind: "builtin", f: "append...", res: []string{"error"}},
		}}
}

var jsonEncFields = map[string]fieldSpec{
	"buf":            {"buf", "Buffer"},
	"spaced":         {"spaced", "bool"},
	"openNamespaces": {"openNs", "int"},
}

// ---- the structural methods of the JSON encoder (zapcore/json_encoder.go).  addElementSeparator / addKey /
// closeOpenNamespaces are intrinsics HERE: they are `Enc.sep`, `Enc.addKey` and the closing braces, which the table
// TransJsonSep proves about the source.  Marshalers, the reflected encoder and the buffer pool are intrinsics handed
// the fields they may touch; reflectBuf is a nil-able *buffer.Buffer.
var jeFields = map[string]fieldSpec{
	"buf": {"buf", "Buffer"}, "spaced": {"spaced", "bool"}, "openNamespaces": {"openNs", "int"},
	"reflectBuf": {"rbuf", "opt:Buffer"}, "reflectEnc": {"renc", "opt:ReflEnc"}, "NewReflectedEncoder": {"newRefl", "ReflCtor"},
	"EncoderConfig": {"cfg", "opt:Config"}, "#ev": {"ev", "[]Event"},
}

// the second *jsonEncoder of clone / Clone (the clone being made) and of EncodeEntry (the receiver, once `final` is primary)
var jeOther = map[string]fieldSpec{
	"buf": {"o.buf", "Buffer"}, "spaced": {"o.spaced", "bool"}, "openNamespaces": {"o.openNs", "int"},
	"EncoderConfig": {"o.cfg", "opt:Config"}, "MessageKey": {"messageKey", "string"},
}
var jeOtherSelf = &fieldSpec{"o.self", "JE"}

// EncodeEntry: `final` (the clone) is the primary object; the promoted EncoderConfig fields are shared with the receiver
var jeEntryFields = merge2(jeFields, map[string]fieldSpec{
	"LevelKey": {"levelKey", "string"}, "TimeKey": {"timeKey", "string"}, "NameKey": {"nameKey", "string"},
	"CallerKey": {"callerKey", "string"}, "FunctionKey": {"functionKey", "string"}, "MessageKey": {"messageKey", "string"},
	"StacktraceKey": {"stacktraceKey", "string"}, "LineEnding": {"lineEnding", "string"},
	"EncodeLevel": {"encLevel", "opt:LevelEncoder"}, "EncodeName": {"encName", "opt:NameEncoder"},
	"EncodeCaller": {"encCaller", "opt:CallerEncoder"}, "EncodeTime": {"encTime", "opt:TimeEncoder"},
})

func merge1(ms ...map[string]string) map[string]string {
	out := map[string]string{}
	for _, m := range ms {
		for k, v := range m {
			out[k] = v
		}
	}
	return out
}

func merge2(ms ...map[string]fieldSpec) map[string]fieldSpec {
	out := map[string]fieldSpec{}
	for _, m := range ms {
		for k, v := range m {
			out[k] = v
		}
	}
	return out
}
var jeSelf = &fieldSpec{"self", "JE"}
var jeTypes = map[string]string{"ObjectMarshaler": "ObjM", "ArrayMarshaler": "ArrM", "interface{}": "opt:Any",
	"*buffer.Buffer": "Buffer", "*jsonEncoder": "JE", "Encoder": "JE"}
var jeState = []string{"buf", "openNamespaces", "reflectBuf", "reflectEnc"} // what a callee handed the encoder may change
var jeCalls = merge(bufferCalls, map[string]shim{
	"recv.addElementSeparator": {kind: "extfld", f: "addElementSeparator", flds: []string{"buf"}, with: []string{"spaced"}},
	"recv.addKey":              {kind: "extfld", f: "addKey", flds: []string{"buf"}, with: []string{"spaced"}},
	"recv.closeOpenNamespaces": {kind: "extfld", f: "closeOpenNamespaces", flds: []string{"buf", "openNamespaces"}},
	// the marshaler is handed the encoder: it may append to buf, open namespaces, use the reflection scratch
	"ObjM.MarshalLogObject": {kind: "extfld", f: "MarshalLogObject", flds: jeState, with: []string{"spaced"}, res: []string{"error"}},
	"ArrM.MarshalLogArray":  {kind: "extfld", f: "MarshalLogArray", flds: jeState, with: []string{"spaced"}, res: []string{"error"}},
	"Buffer.Write":          {kind: "mutext", f: "Buffer.Write", res: []string{"int", "error"}},
	// reflection scratch: pooled buffer, user-configurable encoder writing into it
	"bufferpool.Get":           {kind: "extstmt", f: "bufferpool.GetPtr", res: []string{"opt:Buffer"}, trace: "#ev"},
	"recv.NewReflectedEncoder": {kind: "ext", f: "NewReflectedEncoder", with: []string{"NewReflectedEncoder"}, res: []string{"opt:ReflEnc"}},
	"opt:Buffer.Reset":         {kind: "set", f: ".list [.bytes []]"},
	"opt:Buffer.TrimNewline":   {kind: "mut", f: "Buffer.TrimNewline"},
	"opt:Buffer.Bytes":         {kind: "ext", f: "optBuffer.Bytes", res: []string{"bytes"}},
	"opt:Buffer.Free":          {kind: "extstmt", f: "Buffer.Free", trace: "#ev"},
	"opt:ReflEnc.Encode":       {kind: "extfld", f: "ReflEnc.Encode", flds: []string{"reflectBuf"}, res: []string{"error"}},
})

func jeFunc(name string, extra map[string]shim) transFunc {
	return transFunc{file: "zapcore/json_encoder.go", recv: "jsonEncoder", name: name, lean: name, fields: jeFields, recvAs: jeSelf,
		types: jeTypes, consts: map[string]string{"nullLiteralBytes": "src"}, calls: merge(jeCalls, extra)}
}

// ---- the console encoder (zapcore/console_encoder.go): `c` is a VALUE embedding the logger's *jsonEncoder (the context);
// the metadata columns go through a pooled sliceArrayEncoder (a record [elems] of printed texts), the context through
// a clone of the JSON encoder (`context`, the primary object of writeContext)
var conFields = map[string]fieldSpec{
	"TimeKey": {"timeKey", "string"}, "LevelKey": {"levelKey", "string"}, "NameKey": {"nameKey", "string"},
	"CallerKey": {"callerKey", "string"}, "FunctionKey": {"functionKey", "string"}, "MessageKey": {"messageKey", "string"},
	"StacktraceKey": {"stacktraceKey", "string"}, "LineEnding": {"lineEnding", "string"}, "ConsoleSeparator": {"consoleSep", "string"},
	"EncodeTime": {"encTime", "opt:TimeEncoder"}, "EncodeLevel": {"encLevel", "opt:LevelEncoder"},
	"EncodeName": {"encName", "opt:NameEncoder"}, "EncodeCaller": {"encCaller", "opt:CallerEncoder"}, "#ev": {"ev", "[]Event"},
}
var conTypes = map[string]string{"*buffer.Buffer": "Buffer", "Entry": "struct:Entry", "Field": "Field", "Level": "i8",
	"time.Time": "Time", "EntryCaller": "struct:EntryCaller", "*jsonEncoder": "JE"}
var conStructs = map[string][]fieldSpec{
	"Entry": {{"Level", "i8"}, {"Time", "Time"}, {"LoggerName", "string"}, {"Message", "string"},
		{"Caller", "struct:EntryCaller"}, {"Stack", "string"}},
	"EntryCaller": {{"Defined", "bool"}, {"Function", "string"}, {"Rest", "CallerRest"}},
	"SliceEnc":    {{"elems", "[]Col"}},
}

// ---- exp/zapslog/handler.go.  slog values are opaque (`SlogValue`): their kind, their resolution, their group members
// and their scalar payloads are intrinsics; zap field constructors are free constructors.  A Handler is the primary
// object; `cloned := *h` is the second one.  `append` to a slice field is refused here (noFieldAppend): derived
// handlers must not share the backing array of `groups`.
var slogFields = map[string]fieldSpec{
	"core": {"core", "Core"}, "name": {"name", "string"}, "addCaller": {"addCaller", "bool"}, "addStackAt": {"addStackAt", "int"},
	"callerSkip": {"callerSkip", "int"}, "groups": {"groups", "[]string"}, "#ev": {"ev", "[]Event"},
}
var slogOther = map[string]fieldSpec{
	"core": {"o.core", "Core"}, "name": {"o.name", "string"}, "addCaller": {"o.addCaller", "bool"}, "addStackAt": {"o.addStackAt", "int"},
	"callerSkip": {"o.callerSkip", "int"}, "groups": {"o.groups", "[]string"},
}
var slogTypes = map[string]string{"slog.Level": "int", "zapcore.Level": "i8", "slog.Attr": "struct:SlogAttr", "zapcore.Field": "Field",
	"slog.Handler": "Handler", "slog.Record": "struct:SlogRecord", "context.Context": "Ctx", "groupObject": "[]struct:SlogAttr",
	"zapcore.Entry": "struct:Entry", "zapcore.EntryCaller": "struct:EntryCaller", "time.Time": "Time", "uintptr": "u64"}
var slogStructs = map[string][]fieldSpec{
	"SlogAttr":    {{"Key", "string"}, {"Value", "SlogValue"}},
	"SlogRecord":  {{"Level", "int"}, {"Time", "Time"}, {"Message", "string"}, {"PC", "u64"}, {"Attrs", "RecordAttrs"}},
	"Entry":       {{"Level", "i8"}, {"Time", "Time"}, {"Message", "string"}, {"LoggerName", "string"}},
	"EntryCaller": {{"Defined", "bool"}, {"PC", "u64"}, {"File", "string"}, {"Line", "int"}, {"Function", "string"}},
	"Frame":       {{"PC", "u64"}, {"File", "string"}, {"Line", "int"}, {"Function", "string"}},
	"CE":          {{"Caller", "struct:EntryCaller"}, {"Stack", "string"}, {"Rest", "CERest"}},
}
var slogConsts = map[string]string{
	"slog.LevelError": "8", "slog.LevelWarn": "4", "slog.LevelInfo": "0",
	"zapcore.ErrorLevel": "i8:2", "zapcore.WarnLevel": "i8:1", "zapcore.InfoLevel": "i8:0", "zapcore.DebugLevel": "i8:-1",
	"slog.KindAny": "0", "slog.KindBool": "1", "slog.KindDuration": "2", "slog.KindFloat64": "3", "slog.KindInt64": "4",
	"slog.KindString": "5", "slog.KindTime": "6", "slog.KindUint64": "7", "slog.KindGroup": "8", "slog.KindLogValuer": "9",
}
var slogCalls = map[string]shim{
	"SlogValue.Resolve":     {kind: "ext", f: "Value.Resolve", res: []string{"SlogValue"}},
	"SlogValue.Kind":        {kind: "ext", f: "Value.Kind", res: []string{"int"}},
	"SlogValue.Group":       {kind: "ext", f: "Value.Group", res: []string{"[]struct:SlogAttr"}},
	"struct:SlogAttr.Equal": {kind: "ext", f: "Attr.Equal", res: []string{"bool"}},
	"SlogValue.Bool":        {kind: "ext", f: "Value.Payload", res: []string{"Payload"}},
	"SlogValue.Duration":    {kind: "ext", f: "Value.Payload", res: []string{"Payload"}},
	"SlogValue.Float64":     {kind: "ext", f: "Value.Payload", res: []string{"Payload"}},
	"SlogValue.Int64":       {kind: "ext", f: "Value.Payload", res: []string{"Payload"}},
	"SlogValue.String":      {kind: "ext", f: "Value.Payload", res: []string{"Payload"}},
	"SlogValue.Time":        {kind: "ext", f: "Value.Payload", res: []string{"Payload"}},
	"SlogValue.Uint64":      {kind: "ext", f: "Value.Payload", res: []string{"Payload"}},
	"SlogValue.Any":         {kind: "ext", f: "Value.Payload", res: []string{"Payload"}},
	"zap.Skip":              {kind: "ext", f: "zap.Skip", res: []string{"Field"}},
	"zap.Bool":              {kind: "ext", f: "zap.Bool", res: []string{"Field"}},
	"zap.Duration":          {kind: "ext", f: "zap.Duration", res: []string{"Field"}},
	"zap.Float64":           {kind: "ext", f: "zap.Float64", res: []string{"Field"}},
	"zap.Int64":             {kind: "ext", f: "zap.Int64", res: []string{"Field"}},
	"zap.String":            {kind: "ext", f: "zap.String", res: []string{"Field"}},
	"zap.Time":              {kind: "ext", f: "zap.Time", res: []string{"Field"}},
	"zap.Uint64":            {kind: "ext", f: "zap.Uint64", res: []string{"Field"}},
	"zap.Any":               {kind: "ext", f: "zap.Any", res: []string{"Field"}},
	"zap.Inline":            {kind: "ext", f: "zap.Inline", res: []string{"Field"}},
	"zap.Object":            {kind: "ext", f: "zap.Object", res: []string{"Field"}},
	"zap.Namespace":         {kind: "ext", f: "zap.Namespace", res: []string{"Field"}},
	"hasContent":            {kind: "fun", f: "hasContent", res: []string{"bool"}},
	"convertAttrToField":    {kind: "fun", f: "convertAttrToField", res: []string{"Field"}},
	"convertSlogLevel":      {kind: "fun", f: "convertSlogLevel", res: []string{"i8"}},
	"recv.appendGroups":     {kind: "fun", f: "appendGroups", res: []string{"[]Field"}},
	"Core.With":             {kind: "ext", f: "Core.With", res: []string{"Core"}},
	"make":                  {kind: "ext", f: "make.strings", res: []string{"[]string"}},
	"copy":                  {kind: "mutarg:0", f: "copy", res: []string{"int"}},
	"slice.set":             {kind: "ext", f: "slice.set"},
}

func slogFunc(recv, name string, extra map[string]shim) transFunc {
	return transFunc{file: "exp/zapslog/handler.go", recv: recv, name: name, lean: name, fields: slogFields, recvAs: &fieldSpec{"self", "Handler"},
		other: slogOther, otherAs: &fieldSpec{"o.self", "Handler"}, types: slogTypes, structs: slogStructs, consts: slogConsts,
		zeros: map[string]string{"SlogValue": ".list []"}, comparable: []string{"Field"}, noFieldAppend: true,
		calls: merge(slogCalls, extra)}
}

// ---- opening and building (writer.go, config.go, sink.go, global.go): call-order / cleanup skeletons.  url.Parse, the
// sink registry, the OS opener, Close, the closures handed back and the standard logger's state are recorded intrinsics
// or pseudo-fields; what is proved is WHICH of them are called, in what order, on which path.
var openTypes = map[string]string{"zapcore.WriteSyncer": "opt:Sink", "io.Closer": "opt:Sink", "Sink": "opt:Sink", "func()": "opt:Closure",
	"*url.URL": "ptr:struct:URL", "*Logger": "Logger", "zapcore.Level": "i8", "zapcore.Encoder": "opt:Encoder", "Option": "Option", "Field": "Field"}

// Build returns a nil *Logger on its error paths
func buildTypes(f transFunc) transFunc {
	f.types = merge1(f.types, map[string]string{"*Logger": "opt:Logger"})
	f.comparable = []string{"AtomicLevel"} // a struct holding one pointer: == is pointer equality
	return f
}
var openStructs = map[string][]fieldSpec{
	"URL": {{"Scheme", "string"}, {"User", "opt:Userinfo"}, {"Fragment", "string"}, {"RawQuery", "string"}, {"Path", "string"},
		{"Rest", "URLRest"}},
	"SamplingConfig": {{"Initial", "int"}, {"Thereafter", "int"}, {"Hook", "opt:SamplerHook"}},
}
var openFields = map[string]fieldSpec{"#ev": {"ev", "[]Event"}}
var openCalls = map[string]shim{
	"fmt.Errorf":      {kind: "ext", f: "fmt.Errorf", res: []string{"error"}},
	"errors.New":      {kind: "ext", f: "errors.New", res: []string{"error"}},
	"multierr.Append": {kind: "builtin", f: "append...", res: []string{"error"}},
}

func openFunc(file, recv, name string, fields map[string]fieldSpec, consts map[string]string, extra map[string]shim) transFunc {
	lean := name
	if name == "open" { // a Lean keyword
		lean = "openAll"
	}
	return transFunc{file: file, recv: recv, name: name, lean: lean, fields: merge2(openFields, fields), types: openTypes,
		structs: openStructs, consts: consts, calls: merge(openCalls, extra)}
}

var stdCalls = map[string]shim{
	"bytes.IndexByte":       {kind: "builtin", f: "bytes.IndexByte", res: []string{"int"}},
	"strings.IndexByte":     {kind: "builtin", f: "strings.IndexByte", res: []string{"int"}},
	"strings.LastIndexByte": {kind: "builtin", f: "strings.LastIndexByte", res: []string{"int"}},
}

func probeFuncs() []transFunc {
	var out []transFunc
	for _, n := range []string{"probeU32", "probeU8", "probeU64", "probeInt", "probeI64", "probeDiv", "probeDivU", "probeConv",
		"probeSlice", "probeSliceLo", "probeSliceHi", "probeIndex", "probeShort", "probeSwap", "probeLoop", "probeSwitch",
		"probeRange", "probeMinMax", "probeNamed", "probeAppend", "probeIndexByte", "probeShadow", "probeWhile"} {
		out = append(out, transFunc{file: "@verif/harness/cmd/zvh/trans_probe.go", name: n, lean: n, calls: stdCalls})
	}
	// round 2: struct values, forwarded results, variadic parameters; and on a receiver with recorded intrinsics:
	// defer, recorded calls in argument position, nil-able values and their equality, calls through function values
	pf := "@verif/harness/cmd/zvh/trans_probe.go"
	pairT := map[string]string{"probePair": "struct:probePair"}
	pairS := map[string][]fieldSpec{"probePair": {{"a", "int"}, {"b", "bytes"}}}
	out = append(out,
		transFunc{file: pf, name: "probeTwo", lean: "probeTwo"},
		transFunc{file: pf, name: "probeStruct", lean: "probeStruct", types: pairT, structs: pairS},
		transFunc{file: pf, name: "probeForward", lean: "probeForward",
			calls: map[string]shim{"probeTwo": {kind: "fun", f: "probeTwo", res: []string{"int", "int"}}}},
		transFunc{file: pf, name: "probeVariadic", lean: "probeVariadic"})
	recFields := map[string]fieldSpec{"n": {"n", "int"}, "link": {"link", "opt:Tag"}, "other": {"other", "opt:Tag"},
		"sub": {"sub", "ptr:struct:probePair"}, "fns": {"fns", "[]ProbeFn"}, "#ev": {"ev", "[]Event"}}
	recCalls := merge(stdCalls, map[string]shim{
		"recv.note": {kind: "extstmt", f: "probe.note", res: []string{"int"}, trace: "#ev"},
		"recv.done": {kind: "extstmt", f: "probe.done", trace: "#ev"},
		"ProbeFn()": {kind: "extstmt", f: "ProbeFn", res: []string{"int"}, trace: "#ev"},
	})
	for _, n := range []string{"probeDefer", "probeNilable", "probeFnValues"} {
		out = append(out, transFunc{file: pf, recv: "probeRec", name: n, lean: n, fields: recFields, types: pairT, structs: pairS, calls: recCalls})
	}
	// round 4: see harness/cmd/zvh/trans_probe4.go
	p4 := "@verif/harness/cmd/zvh/trans_probe4.go"
	lvlConsts := map[string]string{"probeLo": "src", "probeMid": "src", "probeHi": "src", "probeMin": "src", "probeMax": "src", "probeInv": "src"}
	lvlT := map[string]string{"probeLvl": "i8"}
	lvlSelf := &fieldSpec{"lvl", "i8"}
	toLower := shim{kind: "ext", f: "bytes.ToLower", res: []string{"bytes"}}
	out = append(out,
		transFunc{file: p4, recv: "probeLvl", name: "set", lean: "probeSet", recvAs: lvlSelf, types: lvlT, consts: lvlConsts},
		transFunc{file: p4, recv: "probeLvl", name: "setFolded", lean: "probeSetFolded", recvAs: lvlSelf, recvNil: "isnil", types: lvlT, consts: lvlConsts,
			calls: map[string]shim{"recv.set": {kind: "fun", f: "probeSet", res: []string{"bool"}}, "bytes.ToLower": toLower}},
		transFunc{file: p4, name: "probeParse", lean: "probeParse", types: lvlT, consts: lvlConsts,
			calls: map[string]shim{"i8.setFolded": {kind: "funaddr", f: "probeSetFolded", res: []string{"int"}, flds: []string{"lvl"}, with: []string{"isnil"}}}},
		transFunc{file: p4, name: "probeScan", lean: "probeScan", types: lvlT, consts: lvlConsts},
		transFunc{file: p4, name: "probeDecode", lean: "probeDecode",
			types:   map[string]string{"struct{L}": "struct:probePld", "out": "struct:probeOut"},
			structs: map[string][]fieldSpec{"probePld": {{"L", "opt:int"}}, "probeOut": {{"V", "int"}, {"OK", "bool"}}},
			calls:   map[string]shim{"probeFill": {kind: "mutarg:1", f: "probe.fill", res: []string{"bool"}}}},
		transFunc{file: p4, name: "probeCallVariadic", lean: "probeCallVariadic",
			calls: map[string]shim{"probeVariadic": {kind: "fun", f: "probeVariadic", res: []string{"int"}, vari: 2}}},
		transFunc{file: p4, name: "probeCapped", lean: "probeCapped", noFieldAppend: true},
		transFunc{file: p4, recv: "probeOnceT", name: "get", lean: "probeOnceGet",
			fields: map[string]fieldSpec{"once": {"done", "bool"}, "v": {"v", "int"}},
			calls:  map[string]shim{"recv.once.Do": {kind: "once", flds: []string{"once"}}}},
		transFunc{file: p4, recv: "probeOnceT", name: "getTwice", lean: "probeOnceTwice",
			fields: map[string]fieldSpec{"once": {"done", "bool"}, "v": {"v", "int"}},
			calls:  map[string]shim{"recv.get": {kind: "fun", f: "probeOnceGet", res: []string{"int"}}}},
		transFunc{file: p4, name: "probeTypeSwitch", lean: "probeTypeSwitch", types: map[string]string{"interface{}": "Any"},
			calls: map[string]shim{".(int)": {kind: "extstmt", f: "probe.asInt", res: []string{"int", "bool"}},
				".(string)": {kind: "extstmt", f: "probe.asString", res: []string{"string", "bool"}}}},
		transFunc{file: p4, name: "probeBoxed", lean: "probeBoxed",
			types:   map[string]string{"probeBox": "struct:probeBox"},
			structs: map[string][]fieldSpec{"probeBox": {{"buf", "Buffer"}, {"n", "int"}}},
			calls: merge(bufferCalls, map[string]shim{"probeNewBuf": {kind: "lit", f: ".bytes []", res: []string{"Buffer"}},
				"probeWrite": {kind: "mutarg:0", f: "probe.write"}})},
	)
	return out
}

// ---- round 4: zapcore/level.go.  The Level behind a pointer receiver is the field "lvl"; the level constants are READ
// from the source (iota expressions); bytes.ToLower, fmt.Sprintf / Errorf are parameters / free constructors.
var levelConsts = map[string]string{"DebugLevel": "src", "InfoLevel": "src", "WarnLevel": "src", "ErrorLevel": "src", "DPanicLevel": "src",
	"PanicLevel": "src", "FatalLevel": "src", "_minLevel": "src", "_maxLevel": "src", "InvalidLevel": "src"}
var levelSelf = &fieldSpec{"lvl", "i8"}

func levelFunc(recv, name string, extra map[string]shim) transFunc {
	f := transFunc{file: "zapcore/level.go", recv: recv, name: name, lean: name, consts: levelConsts,
		types: map[string]string{"Level": "i8", "LevelEnabler": "LevelEnabler"},
		calls: merge(map[string]shim{
			"fmt.Sprintf":   {kind: "ext", f: "fmt.Sprintf", res: []string{"string"}},
			"fmt.Errorf":    {kind: "ext", f: "fmt.Errorf", res: []string{"error"}},
			"bytes.ToLower": {kind: "ext", f: "bytes.ToLower", res: []string{"bytes"}},
		}, extra)}
	if recv != "" {
		f.recvAs = levelSelf
	}
	if name == "String" || name == "CapitalString" || name == "Enabled" || name == "MarshalText" || name == "Set" { // `String`, `Set` are Lean names
		f.lean = "Level" + name
	}
	return f
}

// level.UnmarshalText(…) on an addressable local Level: the callee's pointee field is "lvl", its nil flag "isnil"
var levelUnmarshalOnLocal = map[string]shim{"i8.UnmarshalText": {kind: "funaddr", f: "UnmarshalText", res: []string{"error"},
	flds: []string{"lvl"}, with: []string{"isnil"}}}

// ---- http_handler.go: the decision structure of the level endpoint.  The request is the record [Method, Header, Body];
// net/http (FormValue, Header.Get, WriteHeader), encoding/json (Decode, Encode) are parameters / recorded intrinsics; the
// AtomicLevel's current level is the pseudo-field "#level".
func httpFunc(recv, name string, extra map[string]shim) transFunc {
	return transFunc{file: "http_handler.go", recv: recv, name: name, lean: name,
		fields: map[string]fieldSpec{"#level": {"level", "i8"}, "#ev": {"ev", "[]Event"}},
		types: map[string]string{"zapcore.Level": "i8", "*http.Request": "ptr:struct:Request", "http.ResponseWriter": "ResponseWriter",
			"io.Reader": "Reader", "struct{Level}": "struct:putPayload", "payload": "struct:payload", "errorResponse": "struct:errorResponse"},
		structs: map[string][]fieldSpec{
			"Request":       {{"Method", "string"}, {"Header", "Header"}, {"Body", "Reader"}, {"Rest", "RequestRest"}},
			"putPayload":    {{"Level", "opt:i8"}},
			"payload":       {{"Level", "i8"}},
			"errorResponse": {{"Error", "string"}},
		},
		consts: map[string]string{"http.MethodGet": "str:GET", "http.MethodPut": "str:PUT",
			"http.StatusBadRequest": "400", "http.StatusMethodNotAllowed": "405"},
		calls: merge(map[string]shim{
			"errors.New": {kind: "ext", f: "errors.New", res: []string{"error"}},
			"fmt.Errorf": {kind: "ext", f: "fmt.Errorf", res: []string{"error"}},
		}, extra)}
}

// ---- round 4, C07: deriving loggers (logger.go) and the cores' With methods.  A *Logger is the object of the field
// environment (all ten fields, opaque except `name`); the clone is the second object.  Options are opaque values whose
// `apply` is an intrinsic on the clone's fields; Core.With is a parameter.
var lgNames = []string{"core", "development", "addCaller", "onPanic", "onFatal", "name", "errorOutput", "addStack", "callerSkip", "clock"}

func lgFieldMap(prefix string) map[string]fieldSpec {
	m := map[string]fieldSpec{}
	for _, n := range lgNames {
		t := "Lg" + n
		if n == "name" {
			t = "string"
		}
		if n == "core" {
			t = "Core"
		}
		m[n] = fieldSpec{prefix + n, t}
	}
	return m
}

func loggerFunc(name string, extra map[string]shim) transFunc {
	return transFunc{file: "logger.go", recv: "Logger", name: name, lean: "Logger_" + name,
		fields: merge2(lgFieldMap(""), map[string]fieldSpec{"#ev": {"ev", "[]Event"}}), recvAs: &fieldSpec{"self", "Logger"},
		other: lgFieldMap("o."), otherAs: &fieldSpec{"o.self", "Logger"},
		types: map[string]string{"*Logger": "Logger", "Field": "Field", "Option": "Option", "zapcore.Core": "Core"},
		calls: merge(map[string]shim{
			"Core.With":    {kind: "ext", f: "Core.With", res: []string{"Core"}},
			"strings.Join": {kind: "ext", f: "strings.Join", res: []string{"string"}},
		}, extra)}
}

// the cores' With methods: sub-cores, encoders, sinks, enablers are opaque nil-able values; a derived core is the RECORD
// of the struct the method builds (so a dropped or swapped field shows); Core.With of a sub-core (`Core.With`),
// Encoder.Clone (`Encoder.Clone`) and addFields (`addFields`: the fields added to the encoder it is handed) are parameters
var withTypes = map[string]string{"Core": "opt:Core", "Field": "Field", "zapcore.Field": "Field", "zapcore.Core": "opt:Core",
	"Entry": "struct:Entry", "*CheckedEntry": "opt:CE", "Level": "i8",
	"ioCore": "struct:IoCore", "*ioCore": "ptr:struct:IoCore", "multiCore": "[]opt:Core", "sampler": "struct:Sampler", "hooked": "struct:Hooked",
	"levelFilterCore": "struct:LevelFilter", "contextObserver": "struct:CtxObserver"}
var withStructs = map[string][]fieldSpec{
	"Entry":       {{"Level", "i8"}, {"Rest", "opt:EntryRest"}},
	"IoCore":      {{"LevelEnabler", "opt:LevelEnabler"}, {"enc", "opt:Encoder"}, {"out", "opt:WriteSyncer"}},
	"Sampler":     {{"Core", "opt:Core"}, {"counts", "opt:Counters"}, {"tick", "opt:Tick"}, {"first", "opt:U64"}, {"thereafter", "opt:U64"}, {"hook", "opt:SamplerHook"}},
	"Hooked":      {{"Core", "opt:Core"}, {"funcs", "opt:HookFns"}},
	"LevelFilter": {{"core", "opt:Core"}, {"level", "opt:LevelEnabler"}},
	"CtxObserver": {{"LevelEnabler", "opt:LevelEnabler"}, {"logs", "opt:ObservedLogs"}, {"context", "[]Field"}},
}
var withCalls = map[string]shim{
	"opt:Core.With":      {kind: "ext", f: "Core.With", res: []string{"opt:Core"}},
	"opt:Encoder.Clone":  {kind: "ext", f: "Encoder.Clone", res: []string{"opt:Encoder"}},
	"addFields":          {kind: "mutarg:0", f: "addFields"},
	"make":               {kind: "ext", f: "make.cores", res: []string{"[]opt:Core"}},
	"slice.set":          {kind: "ext", f: "slice.set"},
	"opt:Core.Enabled":   {kind: "ext", f: "Core.Enabled", res: []string{"bool"}},
	"opt:Core.Check":     {kind: "ext", f: "Core.Check", res: []string{"opt:CE"}},
	"opt:Core.Write":     {kind: "extstmt", f: "Core.Write", res: []string{"error"}, trace: "#ev"},
	"opt:Core.Sync":      {kind: "extstmt", f: "Core.Sync", res: []string{"error"}, trace: "#ev"},
}

func withFunc(file, recv, name string, fields map[string]fieldSpec, recvAs *fieldSpec, extra map[string]shim) transFunc {
	return transFunc{file: file, recv: recv, name: name, lean: recv + "_" + name, fields: merge2(map[string]fieldSpec{"#ev": {"ev", "[]Event"}}, fields),
		recvAs: recvAs, types: withTypes, structs: withStructs, calls: merge(withCalls, extra), noFieldAppend: true,
		implements: map[string]string{"ptr:struct:IoCore": "opt:Core", "[]opt:Core": "opt:Core", "ptr:struct:Sampler": "opt:Core",
			"ptr:struct:Hooked": "opt:Core", "ptr:struct:LevelFilter": "opt:Core", "ptr:struct:CtxObserver": "opt:Core"}}
}

var ioWithFields = map[string]fieldSpec{"LevelEnabler": {"en", "opt:LevelEnabler"}, "enc": {"enc", "opt:Encoder"}, "out": {"out", "opt:WriteSyncer"}}
var samplerWithFields = map[string]fieldSpec{"Core": {"core", "opt:Core"}, "counts": {"counts", "opt:Counters"}, "tick": {"tick", "opt:Tick"},
	"first": {"first", "opt:U64"}, "thereafter": {"thereafter", "opt:U64"}, "hook": {"hook", "opt:SamplerHook"}}
var lazyFields = map[string]fieldSpec{"core": {"core", "opt:Core"}, "originalCore": {"orig", "opt:Core"}, "Once": {"done", "bool"}, "fields": {"fields", "[]Field"}}
var lazyInit = map[string]shim{"recv.initOnce": {kind: "fun", f: "lazyWithCore_initOnce"}}

// ---- round 4, C14: sugar.go getMessage / getMessageln and the WHOLE of log / logln (TransLogger translates only their
// guards).  fmt.Sprint / Sprintf / Sprintln and the `.(string)` assertion are parameters; the base logger's Check, the
// sweetening of the context (proved about the source in TransSweeten) and ce.Write are recorded intrinsics.
func sugarMsgFunc(recv, name string, extra map[string]shim) transFunc {
	lean := name
	if recv != "" {
		lean = "Sugar_" + name
	}
	return transFunc{file: "sugar.go", recv: recv, name: name, lean: lean,
		fields: map[string]fieldSpec{"#ev": {"ev", "[]Event"}, "base": {"base", "Logger"}},
		types:  map[string]string{"interface{}": "Any", "zapcore.Level": "i8"},
		consts: map[string]string{"DPanicLevel": "i8:3"},
		calls: merge(map[string]shim{
			"fmt.Sprintf":  {kind: "ext", f: "fmt.Sprintf", res: []string{"string"}},
			"fmt.Sprint":   {kind: "ext", f: "fmt.Sprint", res: []string{"string"}},
			"fmt.Sprintln": {kind: "ext", f: "fmt.Sprintln", res: []string{"string"}},
			".(string)":    {kind: "extstmt", f: "assert.string", res: []string{"string", "bool"}},
		}, extra)}
}

var sugarLogCalls = map[string]shim{
	"recv.base.Core().Enabled": {kind: "ext", f: "Core.Enabled", res: []string{"bool"}},
	"getMessage":               {kind: "fun", f: "getMessage", res: []string{"string"}},
	"getMessageln":             {kind: "fun", f: "getMessageln", res: []string{"string"}},
	"Logger.Check":             {kind: "extstmt", f: "Logger.Check", res: []string{"opt:CE"}, trace: "#ev"},
	"recv.sweetenFields":       {kind: "extstmt", f: "Sugar.sweetenFields", res: []string{"[]Field"}, trace: "#ev"},
	"opt:CE.Write":             {kind: "extstmt", f: "CE.Write", trace: "#ev"},
}

// ---- round 4, C05: the constructors that decide what a core tree IS: NewIncreaseLevelCore (the validation scan over
// the levels, highest first), NewTee (0 / 1 / n), and the Level() methods.  Enabled of a core / an enabler and LevelOf are
// parameters; the level bounds are read from zapcore/level.go.
var ctorConsts = map[string]string{"_maxLevel": "src:zapcore/level.go", "_minLevel": "src:zapcore/level.go", "InvalidLevel": "src:zapcore/level.go"}
var ctorTypes = map[string]string{"Core": "opt:Core", "LevelEnabler": "opt:LevelEnabler", "Level": "i8", "levelFilterCore": "struct:LevelFilter",
	"multiCore": "[]opt:Core"}

func ctorFunc(file, recv, name string, fields map[string]fieldSpec, recvAs *fieldSpec) transFunc {
	lean := name
	if recv != "" {
		lean = recv + "_" + name
	}
	return transFunc{file: file, recv: recv, name: name, lean: lean, fields: fields, recvAs: recvAs, consts: ctorConsts, types: ctorTypes,
		structs:    map[string][]fieldSpec{"LevelFilter": {{"core", "opt:Core"}, {"level", "opt:LevelEnabler"}}},
		implements: map[string]string{"ptr:struct:LevelFilter": "opt:Core", "[]opt:Core": "opt:Core"},
		calls: map[string]shim{
			"opt:Core.Enabled":         {kind: "ext", f: "Core.Enabled", res: []string{"bool"}},
			"opt:LevelEnabler.Enabled": {kind: "ext", f: "LevelEnabler.Enabled", res: []string{"bool"}},
			"fmt.Errorf":               {kind: "ext", f: "fmt.Errorf", res: []string{"error"}},
			"NewNopCore":               {kind: "ext", f: "NewNopCore", res: []string{"opt:Core"}},
			"LevelOf":                  {kind: "ext", f: "LevelOf", res: []string{"i8"}},
		}}
}

// ---- round 4, C13: the small writers.  global.go (*loggerWriter).Write (the standard-library log bridge), zaptest
// TestingWriter.Write, zapcore AddSync / writerWrapper.Sync / Lock / NewMultiWriteSyncer.  The log function, testing.TB,
// bytes.TrimSpace / TrimRight and the type assertions are parameters / recorded intrinsics.
func writerFunc(file, recv, name string, fields map[string]fieldSpec, recvAs *fieldSpec, extra map[string]shim) transFunc {
	lean := name
	if recv != "" {
		lean = recv + "_" + name
	}
	return transFunc{file: file, recv: recv, name: name, lean: lean, fields: merge2(map[string]fieldSpec{"#ev": {"ev", "[]Event"}}, fields), recvAs: recvAs,
		types: map[string]string{"io.Writer": "opt:Writer", "WriteSyncer": "opt:WriteSyncer", "writerWrapper": "struct:WriterWrapper",
			"lockedWriteSyncer": "struct:LockedWS", "multiWriteSyncer": "[]opt:WriteSyncer"},
		structs: map[string][]fieldSpec{"WriterWrapper": {{"Writer", "opt:Writer"}}, "LockedWS": {{"Mutex", "opt:Mutex"}, {"ws", "opt:WriteSyncer"}}},
		implements: map[string]string{"struct:WriterWrapper": "opt:WriteSyncer", "ptr:struct:LockedWS": "opt:WriteSyncer",
			"[]opt:WriteSyncer": "opt:WriteSyncer"},
		calls: merge(map[string]shim{
			"bytes.TrimSpace": {kind: "ext", f: "bytes.TrimSpace", res: []string{"bytes"}},
			"bytes.TrimRight": {kind: "ext", f: "bytes.TrimRight", res: []string{"bytes"}},
		}, extra)}
}

// ---- round 4, C15: the stack formatter (internal/stacktrace).  The *Stack handed to FormatStack is the ITERATOR value
// (the frames not yet returned); `Next` is an intrinsic on it (runtime.Frames.Next: the next frame and whether more follow).
func stackFmtFunc(name string, extra map[string]shim) transFunc {
	return transFunc{file: "internal/stacktrace/stack.go", recv: "Formatter", name: name, lean: name,
		fields:  map[string]fieldSpec{"b": {"b", "Buffer"}, "nonEmpty": {"nonEmpty", "bool"}},
		types:   map[string]string{"runtime.Frame": "struct:Frame", "*Stack": "StackIter"},
		structs: map[string][]fieldSpec{"Frame": {{"Function", "string"}, {"File", "string"}, {"Line", "int"}}},
		calls: merge(bufferCalls, map[string]shim{
			"Buffer.AppendInt": {kind: "mut", f: "Buffer.AppendInt"},
			"StackIter.Next":   {kind: "mutext", f: "Frames.Next", res: []string{"struct:Frame", "bool"}},
		}, extra)}
}

// ---- round 4, C06: the gRPC adapter's printers (zapgrpc/zapgrpc.go).  The delegate's methods (function values held by the
// printer, methods of the sugared logger) are recorded; Enabled is a parameter; fmt.Sprintln a parameter.
func grpcFunc(recv, name string, fields map[string]fieldSpec, extra map[string]shim) transFunc {
	lean := name
	if recv != "" {
		lean = recv + "_" + name
	}
	return transFunc{file: "zapgrpc/zapgrpc.go", recv: recv, name: name, lean: lean,
		fields: merge2(map[string]fieldSpec{"#ev": {"ev", "[]Event"}}, fields),
		types:  map[string]string{"interface{}": "Any", "zapcore.Level": "i8"},
		consts: map[string]string{"zapcore.DPanicLevel": "i8:3", "zapcore.InfoLevel": "i8:0", "zapcore.WarnLevel": "i8:1", "zapcore.ErrorLevel": "i8:2"},
		calls: merge(map[string]shim{
			"fmt.Sprintln":         {kind: "ext", f: "fmt.Sprintln", res: []string{"string"}},
			"sprintln":             {kind: "funpure", f: "sprintln", res: []string{"string"}},
			"LevelEnabler.Enabled": {kind: "ext", f: "LevelEnabler.Enabled", res: []string{"bool"}},
		}, extra)}
}

var printerFields = map[string]fieldSpec{"enab": {"enab", "LevelEnabler"}, "level": {"level", "i8"}, "print": {"print", "PrintFn"}, "printf": {"printf", "PrintfFn"}}
var printerCalls = map[string]shim{
	"recv.print":  {kind: "extstmt", f: "PrintFn.call", with: []string{"print"}, trace: "#ev"},
	"recv.printf": {kind: "extstmt", f: "PrintfFn.call", with: []string{"printf"}, trace: "#ev"},
}
var grpcLoggerFields = map[string]fieldSpec{"delegate": {"delegate", "Sugar"}, "levelEnabler": {"levelEnabler", "LevelEnabler"}}
var grpcLoggerCalls = map[string]shim{
	"Sugar.Info":  {kind: "extstmt", f: "Sugar.Info", trace: "#ev"},
	"Sugar.Warn":  {kind: "extstmt", f: "Sugar.Warn", trace: "#ev"},
	"Sugar.Error": {kind: "extstmt", f: "Sugar.Error", trace: "#ev"},
}

var transSpecs = []transSpec{
	{table: "TransGrpc", funcs: []transFunc{
		grpcFunc("", "sprintln", nil, nil),
		grpcFunc("printer", "Print", printerFields, printerCalls),
		grpcFunc("printer", "Printf", printerFields, printerCalls),
		grpcFunc("printer", "Println", printerFields, printerCalls),
		grpcFunc("Logger", "Infoln", grpcLoggerFields, grpcLoggerCalls),
		grpcFunc("Logger", "Warningln", grpcLoggerFields, grpcLoggerCalls),
		grpcFunc("Logger", "Errorln", grpcLoggerFields, grpcLoggerCalls),
	}},
	{table: "TransStackFmt", funcs: []transFunc{
		stackFmtFunc("FormatFrame", nil),
		stackFmtFunc("FormatStack", map[string]shim{"recv.FormatFrame": {kind: "fun", f: "FormatFrame"}}),
	}},
	{table: "TransWriters", funcs: []transFunc{
		writerFunc("global.go", "loggerWriter", "Write", map[string]fieldSpec{"logFunc": {"logFunc", "LogFunc"}}, nil, map[string]shim{
			// l.logFunc(msg): the call of the function value held by the receiver — recorded, handed that value and the message
			"recv.logFunc": {kind: "extstmt", f: "LogFunc.call", with: []string{"logFunc"}, trace: "#ev"}}),
		writerFunc("zaptest/logger.go", "TestingWriter", "Write",
			map[string]fieldSpec{"t": {"t", "TB"}, "markFailed": {"markFailed", "bool"}}, nil, map[string]shim{
				"TB.Logf": {kind: "extstmt", f: "TB.Logf", trace: "#ev"},
				"TB.Fail": {kind: "extstmt", f: "TB.Fail", trace: "#ev"}}),
		writerFunc("zapcore/write_syncer.go", "", "AddSync", nil, nil, map[string]shim{
			".(WriteSyncer)": {kind: "extstmt", f: "assert.WriteSyncer", res: []string{"opt:WriteSyncer", "bool"}}}),
		writerFunc("zapcore/write_syncer.go", "writerWrapper", "Sync", map[string]fieldSpec{"Writer": {"w", "opt:Writer"}}, nil, nil),
		writerFunc("zapcore/write_syncer.go", "", "Lock", nil, nil, map[string]shim{
			".(*lockedWriteSyncer)": {kind: "extstmt", f: "assert.lockedWriteSyncer", res: []string{"opt:LockedWS", "bool"}}}),
		writerFunc("zapcore/write_syncer.go", "", "NewMultiWriteSyncer", nil, nil, nil),
	}},
	{table: "TransCtor", funcs: []transFunc{
		ctorFunc("zapcore/increase_level.go", "", "NewIncreaseLevelCore", nil, nil),
		ctorFunc("zapcore/increase_level.go", "levelFilterCore", "Level",
			map[string]fieldSpec{"core": {"core", "opt:Core"}, "level": {"level", "opt:LevelEnabler"}}, nil),
		ctorFunc("zapcore/tee.go", "", "NewTee", nil, nil),
		ctorFunc("zapcore/tee.go", "multiCore", "Level", nil, &fieldSpec{"mc", "[]opt:Core"}),
	}},
	{table: "TransMessage", funcs: []transFunc{
		sugarMsgFunc("", "getMessage", nil),
		sugarMsgFunc("", "getMessageln", nil),
		sugarMsgFunc("SugaredLogger", "log", sugarLogCalls),
		sugarMsgFunc("SugaredLogger", "logln", sugarLogCalls),
	}},
	{table: "TransDerive", funcs: []transFunc{
		loggerFunc("clone", nil),
		loggerFunc("Named", map[string]shim{"recv.clone": {kind: "objectfun", f: "Logger_clone"}}),
		loggerFunc("With", map[string]shim{"recv.clone": {kind: "objectfun", f: "Logger_clone"}}),
		loggerFunc("WithOptions", map[string]shim{
			// c := log.clone(): proved about the source as Logger_clone_matches_source — the copy of every field; from here on
			// `c` is the primary object.  opt.apply(c) may change any field of the clone (and nothing else)
			"recv.clone":   {kind: "primary", f: "Logger.clone", flds: lgNames, with: lgNames},
			"Option.apply": {kind: "extfld", f: "Option.apply", flds: lgNames},
		}),
		loggerFunc("WithLazy", map[string]shim{
			// proved about the source as Logger_WithOptions_matches_source (there the receiver is read through the SECOND
			// object, so the two terms do not compose on one environment): here an intrinsic on the receiver's fields
			"recv.WithOptions": {kind: "ext", f: "Logger.WithOptions", with: lgNames, res: []string{"Logger"}},
			"WrapCore":         {kind: "ext", f: "WrapCore", res: []string{"Option"}},
		}),
		withFunc("zapcore/core.go", "ioCore", "clone", ioWithFields, nil, nil),
		withFunc("zapcore/core.go", "ioCore", "With", ioWithFields, nil, map[string]shim{
			"recv.clone": {kind: "fun", f: "ioCore_clone", res: []string{"ptr:struct:IoCore"}}}),
		withFunc("zapcore/tee.go", "multiCore", "With", nil, &fieldSpec{"mc", "[]opt:Core"}, nil),
		withFunc("zapcore/sampler.go", "sampler", "With", samplerWithFields, nil, nil),
		withFunc("zapcore/hook.go", "hooked", "With", map[string]fieldSpec{"Core": {"core", "opt:Core"}, "funcs": {"funcs", "opt:HookFns"}}, nil, nil),
		withFunc("zapcore/increase_level.go", "levelFilterCore", "With",
			map[string]fieldSpec{"core": {"core", "opt:Core"}, "level": {"level", "opt:LevelEnabler"}}, nil, nil),
		withFunc("zaptest/observer/observer.go", "contextObserver", "With",
			map[string]fieldSpec{"LevelEnabler": {"en", "opt:LevelEnabler"}, "logs": {"logs", "opt:ObservedLogs"}, "context": {"context", "[]Field"}}, nil, nil),
		withFunc("zapcore/lazy_with.go", "lazyWithCore", "initOnce", lazyFields, nil, map[string]shim{"recv.Once.Do": {kind: "once", flds: []string{"Once"}}}),
		withFunc("zapcore/lazy_with.go", "lazyWithCore", "With", lazyFields, nil, lazyInit),
		withFunc("zapcore/lazy_with.go", "lazyWithCore", "Check", lazyFields, nil, lazyInit),
		withFunc("zapcore/lazy_with.go", "lazyWithCore", "Enabled", lazyFields, nil, lazyInit),
		withFunc("zapcore/lazy_with.go", "lazyWithCore", "Write", lazyFields, nil, lazyInit),
		withFunc("zapcore/lazy_with.go", "lazyWithCore", "Sync", lazyFields, nil, lazyInit),
	}},
	{table: "TransLevel", funcs: []transFunc{
		levelFunc("Level", "unmarshalText", nil),
		levelFunc("Level", "String", nil),
		levelFunc("Level", "CapitalString", nil),
		func() transFunc {
			f := levelFunc("Level", "UnmarshalText", map[string]shim{"recv.unmarshalText": {kind: "fun", f: "unmarshalText", res: []string{"bool"}}})
			f.recvNil = "isnil"
			f.consts = merge1(levelConsts, map[string]string{"errUnmarshalNilLevel": "val:error|.list [.int 0]"})
			return f
		}(),
		levelFunc("", "ParseLevel", levelUnmarshalOnLocal),
		levelFunc("Level", "Enabled", nil),
		levelFunc("Level", "MarshalText", map[string]shim{"recv.String": {kind: "fun", f: "LevelString", res: []string{"string"}}}),
		func() transFunc {
			f := levelFunc("Level", "Set", map[string]shim{"recv.UnmarshalText": {kind: "fun", f: "UnmarshalText", res: []string{"error"}}})
			f.recvNil = "isnil"
			return f
		}(),
		levelFunc("", "LevelOf", map[string]shim{
			".(leveledEnabler)":    {kind: "extstmt", f: "assert.leveledEnabler", res: []string{"LeveledEnabler", "bool"}},
			"LeveledEnabler.Level": {kind: "ext", f: "LeveledEnabler.Level", res: []string{"i8"}},
			"LevelEnabler.Enabled": {kind: "ext", f: "LevelEnabler.Enabled", res: []string{"bool"}},
		}),
		httpFunc("", "decodePutURL", merge(levelUnmarshalOnLocal, map[string]shim{
			"ptr:struct:Request.FormValue": {kind: "ext", f: "Request.FormValue", res: []string{"string"}},
		})),
		httpFunc("", "decodePutJSON", map[string]shim{
			// json.NewDecoder(body).Decode(&pld): what the decoder leaves in pld.Level (nil / a level) and its error
			"json.NewDecoder(body).Decode": {kind: "mutarg:0", f: "json.Decode", xargs: []string{"body"}, res: []string{"error"}},
		}),
		httpFunc("", "decodePutRequest", map[string]shim{
			"decodePutURL":  {kind: "fun", f: "decodePutURL", res: []string{"i8", "error"}},
			"decodePutJSON": {kind: "fun", f: "decodePutJSON", res: []string{"i8", "error"}},
		}),
		httpFunc("AtomicLevel", "serveHTTP", map[string]shim{
			"json.NewEncoder":            {kind: "ext", f: "json.NewEncoder", res: []string{"JsonEncoder"}},
			"JsonEncoder.Encode":         {kind: "extstmt", f: "json.Encode", res: []string{"error"}, trace: "#ev"},
			"ResponseWriter.WriteHeader": {kind: "extstmt", f: "ResponseWriter.WriteHeader", trace: "#ev"},
			"Header.Get":                 {kind: "ext", f: "Header.Get", res: []string{"string"}},
			"error.Error":                {kind: "ext", f: "error.Error", res: []string{"string"}},
			"recv.Level":                 {kind: "ext", f: "id", with: []string{"#level"}, res: []string{"i8"}},
			"recv.SetLevel":              {kind: "extfld", f: "set", flds: []string{"#level"}},
			"decodePutRequest":           {kind: "fun", f: "decodePutRequest", res: []string{"i8", "error"}},
		}),
	}},
	// the CTR self-test: probe functions of the harness, translated like any whitelisted function
	{table: "TransProbe", funcs: probeFuncs()},
	{table: "TransSampler", funcs: []transFunc{
		{file: "zapcore/sampler.go", name: "fnv32a", lean: "fnv32a"},
		{file: "zapcore/sampler.go", recv: "counter", name: "IncCheckReset", lean: "IncCheckReset",
			fields: map[string]fieldSpec{"resetAt": {"resetAt", "AtomicInt64"}, "counter": {"counter", "AtomicUint64"}},
			types:  timeTypes, calls: merge(atomicCalls, timeCalls)},
		{file: "zapcore/sampler.go", recv: "sampler", name: "Check", lean: "Check",
			fields: map[string]fieldSpec{
				"first": {"first", "u64"}, "thereafter": {"thereafter", "u64"}, "tick": {"tick", "Duration"},
				"counts": {"counts", "Counters"}, // opaque: only passed to counts.get
				"hook":   {"hooks", "HookTrace"}, // the decisions the hook was called with, in order
				"Core":   {"core", "Core"},       // the wrapped core: the entries forwarded to it, in order
			},
			types:   map[string]string{"Entry": "struct:Entry", "*CheckedEntry": "CheckedEntry", "time.Time": "Time", "time.Duration": "Duration"},
			structs: map[string][]fieldSpec{"Entry": {{"Level", "i8"}, {"Message", "string"}, {"Time", "Time"}}},
			consts:  map[string]string{"_minLevel": "i8:-1", "_maxLevel": "i8:5", "LogDropped": "u32:1", "LogSampled": "u32:2"},
			calls: map[string]shim{
				"recv.Enabled": {kind: "ext", f: "Enabled", res: []string{"bool"}},
				// counts.get(level, message) returns a handle to THE cell whose fields (resetAt, counter) are in the env
				"Counters.get":          {kind: "ext", f: "counts.get", res: []string{"Counter"}},
				"Counter.IncCheckReset": {kind: "funOn", f: "IncCheckReset", res: []string{"u64"}},
				"recv.hook":             {kind: "extfld", f: "hook", flds: []string{"hook"}},
				"Core.Check":            {kind: "mutext", f: "Core.Check", res: []string{"CheckedEntry"}},
			}},
	}},
	{table: "TransMultiWS", funcs: []transFunc{
		{file: "zapcore/write_syncer.go", recv: "multiWriteSyncer", name: "Write", lean: "Write",
			recvAs: &fieldSpec{"ws", "[]WriteSyncer"},
			fields: map[string]fieldSpec{"#writes": {"writes", "[]Call"}}, // pseudo-field: what each sink's Write was handed
			calls: map[string]shim{
				// a sink is a value that scripts its own outcome: Write(p) returns (n, err) read off the sink
				"WriteSyncer.Write": {kind: "extstmt", f: "sink.Write", res: []string{"int", "error"}, trace: "#writes"},
				// multierr.Append keeps every non-nil error in order: errors are lists, Append is concatenation
				"multierr.Append": {kind: "builtin", f: "append...", res: []string{"error"}},
			}},
		{file: "zapcore/write_syncer.go", recv: "multiWriteSyncer", name: "Sync", lean: "Sync",
			recvAs: &fieldSpec{"ws", "[]WriteSyncer"},
			calls: map[string]shim{
				"WriteSyncer.Sync": {kind: "ext", f: "sink.Sync", res: []string{"error"}},
				"multierr.Append":  {kind: "builtin", f: "append...", res: []string{"error"}},
			}},
	}},
	{table: "TransZio", funcs: []transFunc{
		zioFunc("flush", nil),
		zioFunc("writeLine", map[string]shim{"recv.flush": {kind: "fun", f: "flush"}}),
		zioFunc("Write", map[string]shim{"recv.writeLine": {kind: "fun", f: "writeLine", res: []string{"bytes"}}}),
		zioFunc("Sync", map[string]shim{"recv.flush": {kind: "fun", f: "flush"}}),
	}},
	{table: "TransCaller", funcs: []transFunc{
		{file: "zapcore/entry.go", recv: "EntryCaller", name: "FullPath", lean: "FullPath", fields: callerFields,
			calls: pooledBufferCalls},
		{file: "zapcore/entry.go", recv: "EntryCaller", name: "TrimmedPath", lean: "TrimmedPath", fields: callerFields,
			calls: merge(pooledBufferCalls, stdCalls, map[string]shim{"recv.FullPath": {kind: "fun", f: "FullPath", res: []string{"string"}}})},
	}},
	{table: "TransEscape", funcs: []transFunc{
		// the generic safeAppendStringLike at its instance S = string (safeAddString); the []byte instance
		// (safeAddByteString) is the same text with the same meaning of every operation used
		{file: "zapcore/json_encoder.go", name: "safeAppendStringLike", lean: "safeAppendStringLike",
			types: map[string]string{"S": "string", "*buffer.Buffer": "Buffer",
				"func(*buffer.Buffer, S)": "AppendFn", "func(S) (rune, int)": "DecodeFn"},
			consts: map[string]string{"utf8.RuneSelf": "128", "utf8.RuneError": "65533", "_hex": "str:0123456789abcdef"},
			inout:  []string{"buf"},
			calls: merge(bufferCalls, map[string]shim{
				// appendTo(buf, x) is (*buffer.Buffer).AppendString / AppendBytes: buf = buf ++ x
				"AppendFn()": {kind: "mutarg0", f: "append..."},
				// decodeRune(x) is utf8.DecodeRuneInString / DecodeRune: (rune, size), modelled by Esc.validLen
				"DecodeFn()": {kind: "extstmt", f: "decodeRune", res: []string{"i32", "int"}},
			})},
	}},
	{table: "TransLocked", funcs: []transFunc{
		lockedFunc("lockedWriteSyncer", "Write", "zapcore/write_syncer.go"),
		lockedFunc("lockedWriteSyncer", "Sync", "zapcore/write_syncer.go"),
		bwsFunc("Write"),
		bwsFunc("Sync"),
	}},
	// sugar.go sweetenFields: the arguments are opaque values; what kind each is (Field / error / string / other) is
	// asked through the comma-ok type assertions; the field constructors and the diagnostic logger are intrinsics
	{table: "TransSweeten", funcs: []transFunc{
		{file: "sugar.go", recv: "SugaredLogger", name: "sweetenFields", lean: "sweetenFields",
			fields: map[string]fieldSpec{"#ev": {"ev", "[]Event"}},
			types: map[string]string{"interface{}": "Any", "Field": "Field", "invalidPairs": "[]struct:invalidPair",
				"invalidPair": "struct:invalidPair"},
			structs: map[string][]fieldSpec{"invalidPair": {{"position", "int"}, {"key", "Any"}, {"value", "Any"}}},
			consts:  map[string]string{"_multipleErrMsg": "src", "_oddNumberErrMsg": "src", "_nonStringKeyErrMsg": "src"},
			calls: map[string]shim{
				".(Field)":  {kind: "extstmt", f: "assert.Field", res: []string{"Field", "bool"}},
				".(error)":  {kind: "extstmt", f: "assert.error", res: []string{"ErrVal", "bool"}},
				".(string)": {kind: "extstmt", f: "assert.string", res: []string{"string", "bool"}},
				"Error":     {kind: "ext", f: "zap.Error", res: []string{"Field"}},
				"Any":       {kind: "ext", f: "zap.Any", res: []string{"Field"}},
				"Array":     {kind: "ext", f: "zap.Array", res: []string{"Field"}},
				// cap(s) is a parameter of the context about which only len(s) ≤ cap(s) is assumed
				"cap": {kind: "ext", f: "cap", res: []string{"int"}},
				// the diagnostics go to the base logger at Error level with skip extra frames: recorded
				"recv.base.WithOptions(AddCallerSkip(skip)).Error": {kind: "extstmt", f: "diag.Error", trace: "#ev"},
			}},
	}},
	// internal/stacktrace Capture: the pooled *Stack is THE object of the field environment; runtime.Callers fills the
	// slice it is handed and returns the count; slices are values (pcs and storage alias in Go: only their lengths and
	// the final contents of pcs matter, see docs/TRANSLATOR.md)
	{table: "TransCapture", funcs: []transFunc{
		{file: "internal/stacktrace/stack.go", name: "Capture", lean: "Capture",
			fields: map[string]fieldSpec{"pcs": {"pcs", "[]u64"}, "storage": {"storage", "[]u64"}, "frames": {"frames", "Frames"}},
			recvAs: &fieldSpec{"self", "Stack"},
			types:  map[string]string{"Depth": "int", "*Stack": "Stack", "uintptr": "u64"},
			consts: map[string]string{"First": "src", "Full": "src"},
			calls: map[string]shim{
				"_stackPool.Get":        {kind: "object"},
				"runtime.Callers":       {kind: "mutarg:1", f: "runtime.Callers", res: []string{"int"}},
				"runtime.CallersFrames": {kind: "ext", f: "runtime.CallersFrames", res: []string{"Frames"}},
				"make":                  {kind: "ext", f: "make.zeros", res: []string{"[]u64"}},
			}},
	}},
	{table: "TransJsonEnc", funcs: []transFunc{
		jeFunc("AppendObject", nil),
		jeFunc("AppendArray", nil),
		jeFunc("AddObject", map[string]shim{"recv.AppendObject": {kind: "fun", f: "AppendObject", res: []string{"error"}}}),
		jeFunc("AddArray", map[string]shim{"recv.AppendArray": {kind: "fun", f: "AppendArray", res: []string{"error"}}}),
		jeFunc("OpenNamespace", nil),
		jeFunc("resetReflectBuf", nil),
		jeFunc("encodeReflected", map[string]shim{"recv.resetReflectBuf": {kind: "fun", f: "resetReflectBuf"}}),
		jeFunc("AppendReflected", map[string]shim{"recv.encodeReflected": {kind: "fun", f: "encodeReflected", res: []string{"bytes", "error"}}}),
		jeFunc("AddReflected", map[string]shim{"recv.encodeReflected": {kind: "fun", f: "encodeReflected", res: []string{"bytes", "error"}}}),
		jeFunc("truncate", nil),
		{file: "zapcore/json_encoder.go", recv: "jsonEncoder", name: "clone", lean: "clone", fields: jeFields, recvAs: jeSelf,
			other: jeOther, otherAs: jeOtherSelf, types: jeTypes,
			calls: merge(bufferCalls, map[string]shim{
				// the pooled encoder: its fields at entry are whatever the pool held (reset by putJSONEncoder)
				"_jsonPool.Get":  {kind: "object", f: "jsonPool.Get", trace: "#ev"},
				"bufferpool.Get": {kind: "extstmt", f: "bufferpool.Get", res: []string{"Buffer"}, trace: "#ev"},
			})},
		{file: "zapcore/json_encoder.go", recv: "jsonEncoder", name: "Clone", lean: "Clone", fields: jeFields, recvAs: jeSelf,
			other: jeOther, otherAs: jeOtherSelf, types: jeTypes,
			calls: merge(bufferCalls, map[string]shim{
				"recv.clone":   {kind: "objectfun", f: "clone"},
				"Buffer.Write": {kind: "mutext", f: "Buffer.Write", res: []string{"int", "error"}},
			})},
		{file: "zapcore/json_encoder.go", name: "putJSONEncoder", lean: "putJSONEncoder", recvAs: jeSelf,
			// here buf is the POINTER (it is set to nil), not the bytes behind it
			fields: merge2(jeFields, map[string]fieldSpec{"buf": {"buf", "opt:Buffer"}}),
			objParam: "enc", types: jeTypes,
			calls: map[string]shim{
				"opt:Buffer.Free": {kind: "extstmt", f: "Buffer.Free", trace: "#ev"},
				"_jsonPool.Put":   {kind: "extstmt", f: "jsonPool.Put", trace: "#ev"},
			}},
		{file: "zapcore/json_encoder.go", recv: "jsonEncoder", name: "EncodeEntry", lean: "EncodeEntry", fields: jeEntryFields,
			recvAs: jeSelf, other: jeOther, otherAs: jeOtherSelf,
			types: merge1(jeTypes, map[string]string{"Entry": "struct:Entry", "Field": "Field", "Level": "i8", "time.Time": "Time",
				"EntryCaller": "struct:EntryCaller"}),
			structs: map[string][]fieldSpec{
				"Entry": {{"Level", "i8"}, {"Time", "Time"}, {"LoggerName", "string"}, {"Message", "string"},
					{"Caller", "struct:EntryCaller"}, {"Stack", "string"}},
				"EntryCaller": {{"Defined", "bool"}, {"Function", "string"}, {"Rest", "CallerRest"}},
			},
			consts: map[string]string{"FullNameEncoder": "val:opt:NameEncoder|.list [.int 0]"},
			calls: merge(bufferCalls, map[string]shim{
				// final := enc.clone(): proved about the source as clone_matches_source; from here on `final` is primary
				"recv.clone": {kind: "primary", f: "jsonEncoder.clone", flds: []string{"buf", "spaced", "openNamespaces", "reflectBuf", "reflectEnc"},
					with: []string{"spaced", "openNamespaces"}, trace: "#ev"},
				"recv.addElementSeparator": {kind: "extfld", f: "addElementSeparator", flds: []string{"buf"}, with: []string{"spaced"}},
				"recv.addKey":              {kind: "extfld", f: "addKey", flds: []string{"buf"}, with: []string{"spaced"}},
				"recv.closeOpenNamespaces": {kind: "extfld", f: "closeOpenNamespaces", flds: []string{"buf", "openNamespaces"}},
				// leaf encoders of the same type (not structural): AppendString = separator + quoted escaped string, …
				"recv.AppendString": {kind: "extfld", f: "AppendString", flds: []string{"buf"}, with: []string{"spaced"}},
				"recv.AddString":    {kind: "extfld", f: "AddString", flds: []string{"buf"}, with: []string{"spaced"}},
				"recv.AddTime":      {kind: "extfld", f: "AddTime", flds: []string{"buf"}, with: []string{"spaced", "EncodeTime"}},
				// the configured sub-encoders are handed the encoder
				"recv.EncodeLevel":      {kind: "extfld", f: "LevelEncoder", flds: []string{"buf"}, with: []string{"spaced", "EncodeLevel"}},
				"recv.EncodeCaller":     {kind: "extfld", f: "CallerEncoder", flds: []string{"buf"}, with: []string{"spaced", "EncodeCaller"}},
				"opt:NameEncoder()":     {kind: "extfld", f: "NameEncoder", flds: []string{"buf"}},
				"addFields":             {kind: "extfld", f: "addFields", flds: jeState, with: []string{"spaced"}},
				"putJSONEncoder":        {kind: "extstmt", f: "putJSONEncoder", with: []string{"reflectBuf"}, trace: "#ev"},
				"Time.IsZero":           {kind: "ext", f: "Time.IsZero", res: []string{"bool"}},
				"i8.String":             {kind: "ext", f: "Level.String", res: []string{"string"}},
				"struct:EntryCaller.String": {kind: "ext", f: "EntryCaller.String", res: []string{"string"}},
			})},
	}},
	{table: "TransConsole", funcs: []transFunc{
		{file: "zapcore/console_encoder.go", recv: "consoleEncoder", name: "addSeparatorIfNecessary", lean: "addSeparatorIfNecessary",
			fields: conFields, types: conTypes, inout: []string{"line"}, calls: bufferCalls},
		{file: "zapcore/console_encoder.go", recv: "consoleEncoder", name: "writeContext", lean: "writeContext",
			// `context` (the clone) is the primary object from the first statement on; `c` is the second one
			fields: jeFields, recvAs: jeSelf, types: conTypes, inout: []string{"line"},
			other: map[string]fieldSpec{"buf": {"o.buf", "Buffer"}, "spaced": {"o.spaced", "bool"}, "openNamespaces": {"o.openNs", "int"},
				"ConsoleSeparator": {"consoleSep", "string"}},
			calls: merge(bufferCalls, map[string]shim{
				// Clone: proved about the source as Clone_matches_source (C08) — a copy of the context bytes in a fresh buffer
				"recv.jsonEncoder.Clone.(*jsonEncoder)": {kind: "primary", f: "jsonEncoder.Clone",
					flds: []string{"buf", "spaced", "openNamespaces", "reflectBuf", "reflectEnc"},
					with: []string{"buf", "spaced", "openNamespaces"}, trace: "#ev"},
				"Buffer.Free":              {kind: "extstmt", f: "Buffer.Free", trace: "#ev"},
				"putJSONEncoder":           {kind: "extstmt", f: "putJSONEncoder", with: []string{"reflectBuf"}, trace: "#ev"},
				"addFields":                {kind: "extfld", f: "addFields", flds: jeState, with: []string{"spaced"}},
				"recv.closeOpenNamespaces": {kind: "extfld", f: "closeOpenNamespaces", flds: []string{"buf", "openNamespaces"}},
				"other.addSeparatorIfNecessary": {kind: "funarg:0", f: "addSeparatorIfNecessary"},
			})},
		{file: "zapcore/console_encoder.go", recv: "consoleEncoder", name: "EncodeEntry", lean: "EncodeEntry",
			fields: conFields, types: conTypes, structs: conStructs,
			consts: map[string]string{"FullNameEncoder": "val:opt:NameEncoder|.list [.int 0]"},
			calls: merge(bufferCalls, map[string]shim{
				"bufferpool.Get":   {kind: "extstmt", f: "bufferpool.Get", res: []string{"Buffer"}, trace: "#ev"},
				"getSliceEncoder":  {kind: "extstmt", f: "getSliceEncoder", res: []string{"struct:SliceEnc"}, trace: "#ev"},
				"putSliceEncoder":  {kind: "extstmt", f: "putSliceEncoder", trace: "#ev"},
				// the configured sub-encoders append to the slice encoder they are handed
				"recv.EncodeTime":   {kind: "mutarg:1", f: "TimeEncoder.col", with: []string{"EncodeTime"}},
				"recv.EncodeLevel":  {kind: "mutarg:1", f: "LevelEncoder.col", with: []string{"EncodeLevel"}},
				"recv.EncodeCaller": {kind: "mutarg:1", f: "CallerEncoder.col", with: []string{"EncodeCaller"}},
				"opt:NameEncoder()": {kind: "mutarg:1", f: "NameEncoder.col"},
				"struct:SliceEnc.AppendString": {kind: "mut", f: "SliceEnc.AppendString"},
				// fmt.Fprint(line, elem): the printed text of one column
				"fmt.Fprint": {kind: "mutarg:0", f: "fmt.Fprint", res: []string{"int", "error"}},
				"Time.IsZero": {kind: "ext", f: "Time.IsZero", res: []string{"bool"}},
				"recv.addSeparatorIfNecessary": {kind: "funarg:0", f: "addSeparatorIfNecessary"},
				"recv.writeContext":            {kind: "funarg:0", f: "writeContext"},
			})},
	}},
	{table: "TransSlog", funcs: []transFunc{
		slogFunc("", "convertSlogLevel", nil),
		slogFunc("", "hasContent", nil),
		slogFunc("", "convertAttrToField", nil),
		slogFunc("Handler", "appendGroups", nil),
		slogFunc("Handler", "WithGroup", nil),
		slogFunc("Handler", "WithAttrs", nil),
		func() transFunc {
			f := slogFunc("Handler", "Handle", map[string]shim{
				"Core.Check": {kind: "ext", f: "Core.Check", res: []string{"ptr:struct:CE"}},
				"runtime.CallersFrames([]uintptr{…}).Next": {kind: "extstmt", f: "runtime.frameOf", res: []string{"struct:Frame", "bool"},
					xargs: []string{"record.PC"}},
				"stacktrace.Take": {kind: "ext", f: "stacktrace.Take", res: []string{"string"}},
			})
			// the attribute iteration (record.Attrs with a closure: the same insertion loop as WithAttrs) and ce.Write are
			// ONE recorded intrinsic; what precedes it — level mapping, the Check gate, caller and stack — is translated
			f.tail = &tailSpec{from: "fields := make([]zapcore.Field, 0, record.NumAttrs()+len(h.groups))", f: "Handler.convertAndWrite",
				args: []string{"ce", "record"}, res: "error", trace: "#ev"}
			return f
		}(),
	}},
	{table: "TransOpen", funcs: []transFunc{
		openFunc("writer.go", "", "open", nil, nil, map[string]shim{
			"_sinkRegistry.newSink": {kind: "extstmt", f: "sinkRegistry.newSink", res: []string{"opt:Sink", "error"}, trace: "#ev"},
			"opt:Sink.Close":            {kind: "extstmt", f: "Sink.Close", res: []string{"error"}, trace: "#ev"},
		}),
		openFunc("writer.go", "", "CombineWriteSyncers", nil, map[string]string{"io.Discard": "val:Writer|.list [.int 0]"},
			map[string]shim{
				"zapcore.AddSync":             {kind: "ext", f: "zapcore.AddSync", res: []string{"opt:Sink"}},
				"zapcore.Lock":                {kind: "ext", f: "zapcore.Lock", res: []string{"opt:Sink"}},
				"zapcore.NewMultiWriteSyncer": {kind: "ext", f: "zapcore.NewMultiWriteSyncer", res: []string{"opt:Sink"}},
			}),
		openFunc("writer.go", "", "Open", nil, nil, map[string]shim{
			"open":                {kind: "fun", f: "openAll", res: []string{"[]opt:Sink", "opt:Closure", "error"}},
			"CombineWriteSyncers": {kind: "fun", f: "CombineWriteSyncers", res: []string{"opt:Sink"}},
		}),
		openFunc("config.go", "Config", "buildEncoder",
			map[string]fieldSpec{"Encoding": {"encoding", "string"}, "EncoderConfig": {"encoderConfig", "EncoderConfig"}}, nil,
			map[string]shim{"newEncoder": {kind: "extstmt", f: "newEncoder", res: []string{"opt:Encoder", "error"}, trace: "#ev"}}),
		openFunc("config.go", "Config", "buildOptions",
			map[string]fieldSpec{"Development": {"development", "bool"}, "DisableCaller": {"disableCaller", "bool"},
				"DisableStacktrace": {"disableStacktrace", "bool"}, "Sampling": {"sampling", "ptr:struct:SamplingConfig"},
				"InitialFields": {"initialFields", "map:string:any"}},
			map[string]string{"ErrorLevel": "val:i8|.int 2", "WarnLevel": "val:i8|.int 1"},
			map[string]shim{
				"ErrorOutput":   {kind: "ext", f: "ErrorOutput", res: []string{"Option"}},
				"Development":   {kind: "ext", f: "Development", res: []string{"Option"}},
				"AddCaller":     {kind: "ext", f: "AddCaller", res: []string{"Option"}},
				"AddStacktrace": {kind: "ext", f: "AddStacktrace", res: []string{"Option"}},
				"WrapCore":      {kind: "ext", f: "WrapCore", res: []string{"Option"}},
				"Fields":        {kind: "ext", f: "Fields", res: []string{"Option"}},
				"Any":           {kind: "ext", f: "Any", res: []string{"Field"}},
				"sort.Strings":  {kind: "mutarg:0", f: "sort.Strings"},
				"map:string:any.keys": {kind: "ext", f: "InitialFields.keys", res: []string{"[]string"}},
				"map:string:any[k]":   {kind: "ext", f: "InitialFields.get", res: []string{"any"}},
			}),
		buildTypes(openFunc("config.go", "Config", "Build",
			map[string]fieldSpec{"Encoding": {"encoding", "string"}, "EncoderConfig": {"encoderConfig", "EncoderConfig"},
				"OutputPaths": {"outputPaths", "[]string"}, "ErrorOutputPaths": {"errorOutputPaths", "[]string"},
				"Level": {"level", "AtomicLevel"},
				// read by buildOptions
				"Development": {"development", "bool"}, "DisableCaller": {"disableCaller", "bool"},
				"DisableStacktrace": {"disableStacktrace", "bool"}, "Sampling": {"sampling", "ptr:struct:SamplingConfig"},
				"InitialFields": {"initialFields", "map:string:any"}},
			map[string]string{"AtomicLevel{}": "val:AtomicLevel|.list []"},
			map[string]shim{
				"recv.buildEncoder": {kind: "fun", f: "buildEncoder", res: []string{"opt:Encoder", "error"}},
				"recv.openSinks":    {kind: "fun", f: "openSinks", res: []string{"opt:Sink", "opt:Sink", "error"}},
				"recv.buildOptions": {kind: "funpure", f: "buildOptions", res: []string{"[]Option"}},
				"zapcore.NewCore":   {kind: "ext", f: "zapcore.NewCore", res: []string{"Core"}},
				"New":               {kind: "ext", f: "zap.New", res: []string{"opt:Logger"}},
				"opt:Logger.WithOptions": {kind: "ext", f: "Logger.WithOptions", res: []string{"opt:Logger"}},
			})),
		openFunc("config.go", "Config", "openSinks",
			map[string]fieldSpec{"OutputPaths": {"outputPaths", "[]string"}, "ErrorOutputPaths": {"errorOutputPaths", "[]string"}}, nil,
			map[string]shim{
				"Open":          {kind: "fun", f: "Open", res: []string{"opt:Sink", "opt:Closure", "error"}},
				"opt:Closure()": {kind: "extstmtfn", f: "Closure.call", trace: "#ev"},
			}),
		openFunc("sink.go", "sinkRegistry", "newFileSinkFromPath", nil,
			map[string]string{"nopCloserSink{os.Stdout}": "val:opt:Sink|.list [.int 1]", "nopCloserSink{os.Stderr}": "val:opt:Sink|.list [.int 2]",
				"os.O_WRONLY": "1", "os.O_APPEND": "1024", "os.O_CREATE": "64"},
			map[string]shim{"recv.openFile": {kind: "extstmt", f: "sinkRegistry.openFile", res: []string{"opt:Sink", "error"}, trace: "#ev"}}),
		openFunc("sink.go", "sinkRegistry", "newFileSinkFromURL", nil, nil, map[string]shim{
			"ptr:struct:URL.Port":       {kind: "ext", f: "URL.Port", res: []string{"string"}},
			"ptr:struct:URL.Hostname":   {kind: "ext", f: "URL.Hostname", res: []string{"string"}},
			"recv.newFileSinkFromPath":  {kind: "fun", f: "newFileSinkFromPath", res: []string{"opt:Sink", "error"}},
		}),
		openFunc("sink.go", "sinkRegistry", "newSink",
			map[string]fieldSpec{"mu": {"mu", "Mutex"}, "factories": {"factories", "map:string:SinkFactory"}},
			map[string]string{"schemeFile": "src"},
			map[string]shim{
				"filepath.IsAbs":             {kind: "ext", f: "filepath.IsAbs", res: []string{"bool"}},
				"url.Parse":                  {kind: "extstmt", f: "url.Parse", res: []string{"ptr:struct:URL", "error"}},
				"Mutex.Lock":                 {kind: "extstmt", f: "Mutex.Lock", trace: "#ev"},
				"Mutex.Unlock":               {kind: "extstmt", f: "Mutex.Unlock", trace: "#ev"},
				"map:string:SinkFactory[]":   {kind: "extstmt", f: "factories.get", res: []string{"SinkFactory", "bool"}},
				"SinkFactory()":              {kind: "extstmtfn", f: "SinkFactory.call", res: []string{"opt:Sink", "error"}, trace: "#ev"},
				"&errSinkNotFound":           {kind: "ext", f: "errSinkNotFound", res: []string{"error"}},
				"recv.newFileSinkFromPath":   {kind: "fun", f: "newFileSinkFromPath", res: []string{"opt:Sink", "error"}},
			}),
		openFunc("sink.go", "", "normalizeScheme", nil, nil, map[string]shim{
			"strings.ToLower": {kind: "ext", f: "strings.ToLower", res: []string{"string"}},
		}),
		openFunc("global.go", "", "redirectStdLogAt",
			map[string]fieldSpec{"#std.flags": {"std.flags", "int"}, "#std.prefix": {"std.prefix", "string"}, "#std.out": {"std.out", "Writer"}},
			map[string]string{"_stdLogDefaultDepth": "src", "_loggerWriterDepth": "src"},
			map[string]shim{
				"Logger.WithOptions": {kind: "ext", f: "Logger.WithOptions", res: []string{"Logger"}},
				"AddCallerSkip":      {kind: "ext", f: "AddCallerSkip", res: []string{"Option"}},
				"levelToFunc":        {kind: "extstmt", f: "levelToFunc", res: []string{"LogFunc", "error"}},
				"log.Flags":          {kind: "ext", f: "id", with: []string{"#std.flags"}, res: []string{"int"}},
				"log.Prefix":         {kind: "ext", f: "id", with: []string{"#std.prefix"}, res: []string{"string"}},
				"log.SetFlags":       {kind: "extfld", f: "set", flds: []string{"#std.flags"}},
				"log.SetPrefix":      {kind: "extfld", f: "set", flds: []string{"#std.prefix"}},
				"log.SetOutput":      {kind: "extfld", f: "set", flds: []string{"#std.out"}},
				"&loggerWriter":      {kind: "ext", f: "loggerWriter", res: []string{"Writer"}},
			}),
	}},
	{table: "TransLogger", funcs: []transFunc{
		{file: "logger.go", name: "terminalHookOverride", lean: "terminalHookOverride", types: loggerTypes, consts: hookConsts},
		{file: "logger.go", recv: "Logger", name: "check", lean: "Logger_check",
			fields: map[string]fieldSpec{"core": {"core", "Core"}, "name": {"name", "string"}, "clock": {"clock", "Clock"},
				"development": {"dev", "bool"}, "onPanic": {"onPanic", "opt:Hook"}, "onFatal": {"onFatal", "opt:Hook"}, "#ev": {"ev", "[]Event"}},
			types: loggerTypes, consts: hookConsts, structs: loggerStructs,
			tail: &tailSpec{from: "ce.ErrorOutput = log.errorOutput", f: "Logger.annotate", args: []string{"ce", "ent"}, res: "ptr:struct:CE", trace: "#ev"},
			calls: map[string]shim{
				"Core.Enabled":         {kind: "ext", f: "Core.Enabled", res: []string{"bool"}},
				"Core.Check":           {kind: "extstmt", f: "Core.Check", res: []string{"ptr:struct:CE"}, trace: "#ev"},
				"Clock.Now":            {kind: "extstmt", f: "Clock.Now", res: []string{"Time"}, trace: "#ev"},
				"ptr:struct:CE.After":  {kind: "ext", f: "CE.After", res: []string{"ptr:struct:CE"}}, // proved separately: TransCEAdd
				"terminalHookOverride": {kind: "fun", f: "terminalHookOverride", res: []string{"opt:Hook"}},
			}},
		sugarGuard("log", "msg := getMessage(template, fmtArgs)"),
		sugarGuard("logln", "msg := getMessageln(fmtArgs)"),
	}},
	{table: "TransCores", funcs: []transFunc{
		coreFunc("zapcore/core.go", "ioCore", "Sync", ioCoreFields, selfCore, ioCoreCalls),
		coreFunc("zapcore/core.go", "ioCore", "Write", ioCoreFields, selfCore, ioCoreCalls),
		coreFunc("zapcore/core.go", "ioCore", "Check", ioCoreFields, selfCore, ioCoreCalls),
		coreFunc("zapcore/tee.go", "multiCore", "Write", nil, &fieldSpec{"mc", "[]Core"}, nil),
		coreFunc("zapcore/tee.go", "multiCore", "Sync", nil, &fieldSpec{"mc", "[]Core"}, nil),
		coreFunc("zapcore/tee.go", "multiCore", "Check", nil, &fieldSpec{"mc", "[]Core"}, nil),
		coreFunc("zapcore/tee.go", "multiCore", "Enabled", nil, &fieldSpec{"mc", "[]Core"}, nil),
		coreFunc("zapcore/hook.go", "hooked", "Check", hookedFields, selfCore, nil),
		coreFunc("zapcore/hook.go", "hooked", "Write", hookedFields, selfCore, map[string]shim{
			"HookFn()": {kind: "extstmt", f: "HookFn", res: []string{"error"}, trace: "#ev"}}),
		coreFunc("zapcore/increase_level.go", "levelFilterCore", "Enabled", lfcFields, selfCore, map[string]shim{
			"LevelEnabler.Enabled": {kind: "ext", f: "LevelEnabler.Enabled", res: []string{"bool"}}}),
		coreFunc("zapcore/increase_level.go", "levelFilterCore", "Check", lfcFields, selfCore, map[string]shim{
			"recv.Enabled": {kind: "fun", f: "levelFilterCore_Enabled", res: []string{"bool"}}}),
	}},
	{table: "TransCEAdd", funcs: []transFunc{
		ceAddFunc("AddCore", nil),
		ceAddFunc("After", nil),
		ceAddFunc("Should", map[string]shim{"recv.After": {kind: "fun", f: "After", res: []string{"CE"}}}),
	}},
	{table: "TransCE", funcs: []transFunc{
		{file: "zapcore/entry.go", recv: "CheckedEntry", name: "Write", lean: "Write",
			fields: ceFields, recvNil: "isnil", recvAs: &fieldSpec{"self", "CE"},
			types: map[string]string{"Field": "Field"},
			calls: map[string]shim{
				// every call out of Write is an external intrinsic that is RECORDED: what is proved is their order and count
				"Core.Write":           {kind: "extstmt", f: "Core.Write", res: []string{"error"}, trace: "#ev"},
				"fmt.Fprintf":          {kind: "extstmt", f: "fmt.Fprintf", res: []string{"int", "error"}, trace: "#ev"},
				"opt:WriteSyncer.Sync": {kind: "extstmt", f: "ErrorOutput.Sync", res: []string{"error"}, trace: "#ev"},
				"opt:Hook.OnWrite":     {kind: "extstmt", f: "hook.OnWrite", trace: "#ev"},
				"putCheckedEntry":      {kind: "extstmt", f: "putCheckedEntry", trace: "#ev"},
				"multierr.Append":      {kind: "builtin", f: "append...", res: []string{"error"}},
			}},
	}},
	{table: "TransJsonSep", funcs: []transFunc{
		{file: "zapcore/json_encoder.go", recv: "jsonEncoder", name: "addElementSeparator", lean: "addElementSeparator",
			fields: jsonEncFields, calls: bufferCalls},
		{file: "zapcore/json_encoder.go", recv: "jsonEncoder", name: "addKey", lean: "addKey",
			fields: jsonEncFields,
			calls: merge(bufferCalls, map[string]shim{
				"recv.addElementSeparator": {kind: "fun", f: "addElementSeparator"},
				// safeAddString(s) appends the escaped form of s to enc.buf (Model/Esc.lean; tied separately)
				"recv.safeAddString": {kind: "extfld", f: "safeAddString", flds: []string{"buf"}},
			})},
		{file: "zapcore/json_encoder.go", recv: "jsonEncoder", name: "closeOpenNamespaces", lean: "closeOpenNamespaces",
			fields: jsonEncFields, calls: bufferCalls},
	}},
}
