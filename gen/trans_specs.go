package main

// trans_specs.go — the whitelist of the Go→GoMini translator: which functions are translated, how receiver fields
// map to GoMini fields, what named types and constants mean, and which calls each function may make.

func init() {
	for _, s := range transSpecs {
		tables = append(tables, table{s.table, genTrans(s)})
	}
}

// *buffer.Buffer is a byte string; its methods are the obvious list operations.
var bufferCalls = map[string]shim{
	"Buffer.Len":          {kind: "len"},
	"Buffer.Bytes":        {kind: "self", res: []string{"bytes"}},
	"Buffer.String":       {kind: "self", res: []string{"string"}},
	"Buffer.AppendByte":   {kind: "mut", f: "append"},
	"Buffer.AppendString": {kind: "mut", f: "append..."},
	"Buffer.AppendBytes":  {kind: "mut", f: "append..."},
	"Buffer.Write":        {kind: "mut", f: "append..."},
	"Buffer.Reset":        {kind: "set", f: ".bytes []"},
}

func merge(ms ...map[string]shim) map[string]shim {
	out := map[string]shim{}
	for _, m := range ms {
		for k, v := range m {
			out[k] = v
		}
	}
	return out
}

var jsonEncFields = map[string]fieldSpec{
	"buf":            {"buf", "Buffer"},
	"spaced":         {"spaced", "bool"},
	"openNamespaces": {"openNs", "int"},
}

var stdCalls = map[string]shim{
	"bytes.IndexByte":       {kind: "builtin", f: "bytes.IndexByte", res: []string{"int"}},
	"strings.IndexByte":     {kind: "builtin", f: "strings.IndexByte", res: []string{"int"}},
	"strings.LastIndexByte": {kind: "builtin", f: "strings.LastIndexByte", res: []string{"int"}},
}

func probeFuncs() []transFunc {
	var out []transFunc
	for _, n := range []string{"probeU32", "probeU8", "probeU64", "probeInt", "probeI64", "probeDiv", "probeDivU", "probeConv",
		"probeSlice", "probeSliceLo", "probeSliceHi", "probeIndex", "probeShort", "probeSwap", "probeLoop", "probeSwitch",
		"probeRange", "probeMinMax", "probeNamed", "probeAppend", "probeIndexByte", "probeShadow", "probeWhile"} {
		out = append(out, transFunc{file: "@verif/harness/cmd/zvh/trans_probe.go", name: n, lean: n, calls: stdCalls})
	}
	return out
}

var transSpecs = []transSpec{
	// the CTR self-test: probe functions of the harness, translated like any whitelisted function
	{table: "TransProbe", funcs: probeFuncs()},
	{table: "TransJsonSep", funcs: []transFunc{
		{file: "zapcore/json_encoder.go", recv: "jsonEncoder", name: "addElementSeparator", lean: "addElementSeparator",
			fields: jsonEncFields, calls: bufferCalls},
		{file: "zapcore/json_encoder.go", recv: "jsonEncoder", name: "addKey", lean: "addKey",
			fields: jsonEncFields,
			calls: merge(bufferCalls, map[string]shim{
				"recv.addElementSeparator": {kind: "fun", f: "addElementSeparator"},
				// safeAddString(s) appends the escaped form of s to enc.buf (Model/Esc.lean; tied separately)
				"recv.safeAddString": {kind: "extfld", f: "safeAddString", flds: []string{"buf"}},
			})},
		{file: "zapcore/json_encoder.go", recv: "jsonEncoder", name: "closeOpenNamespaces", lean: "closeOpenNamespaces",
			fields: jsonEncFields, calls: bufferCalls},
	}},
}
