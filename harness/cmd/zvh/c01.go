package main

import (
	"bytes"
	"encoding/json"
	"fmt"
)

// C01 — the JSON encoder always emits one well-formed object per entry, on one line.
// C02 — the JSON output decodes to exactly the logged values, in order, at the right nesting.
// (C10 and C16 reuse the op format; see c10.go / c16.go.)

func init() {
	props["C01"] = &Prop{Gen: c01Gen, Exec: c01Exec}
	props["C02"] = &Prop{Gen: c02Gen, Exec: c02Exec}
}

func c01Gen(r *Rand, tier string, emit func(op any)) {
	n := 2500
	if tier == "thorough" {
		n = 150000
	}
	genEncOps(r, n/2, false, 70, 40, 3, 8, emit) // hostile keys/strings, some failing marshalers
	genEncOps(r, n/4, false, 20, 0, 4, 12, emit) // deep, mostly valid
	genEncOps(r, n/4, false, 100, 150, 2, 6, emit)
	c01GenHuge(r, tier, emit)
}

func c02Gen(r *Rand, tier string, emit func(op any)) {
	n := 2500
	if tier == "thorough" {
		n = 150000
	}
	genEncOps(r, n*3/4, false, 15, 20, 3, 10, emit) // value-focused: boundary numerics, times, durations
	genEncOps(r, n/4, false, 60, 60, 3, 6, emit)
	c02GenNest(emit)
}

func encShape(op *encOp, extra string) string {
	nf := len(op.Fields)
	for _, c := range op.Ctx {
		nf += len(c)
	}
	return fmt.Sprintf("%s/ctx%d/f%d/lvl=%s/time=%s/faults=%d", extra, len(op.Ctx), bucket(nf), op.Cfg.LvlEnc, op.Cfg.TimeEnc, bucket(countFaults(op)))
}

func encImpl(line []byte, panicMsg string) map[string]any {
	if panicMsg != "" {
		return map[string]any{"panic": true}
	}
	return map[string]any{"line": hx(line)}
}

func c01Exec(raw json.RawMessage) Result {
	var kind struct {
		K string `json:"k"`
	}
	unmarshal(raw, &kind)
	if kind.K == "huge" {
		return c01ExecHuge(raw)
	}
	var op encOp
	unmarshal(raw, &op)
	line, nw, pmsg := encRun(&op)
	o := ok()
	switch {
	case pmsg != "":
		o = bad(c01PanicSig(&op), "the log call panicked: %s", pmsg)
	case nw != 1:
		o = bad("C01:sink-writes", "the sink received %d writes for one entry", nw)
	default:
		if _, err := wellFormedLine(line, op.Cfg); err != nil {
			o = bad(c01Sig(&op, line), "%v\nline: %q", err, trunc2(line))
		}
	}
	nf := len(op.Fields) + len(op.Ctx)
	return Result{Impl: encImpl(line, pmsg), Oracle: o, Nontrivial: nf >= 2, Shape: encShape(&op, "json")}
}

// failure signatures: narrow classes
func c01PanicSig(op *encOp) string {
	if op.Cfg.CallerEnc == "nil" && op.Cfg.CK != "" && op.Ent.Caller.Defined {
		return "C01:panic:nil-EncodeCaller"
	}
	return "C01:panic"
}

func c01Sig(op *encOp, line []byte) string {
	if op.Cfg.TimeEnc == "layout" {
		// does the layout text itself need escaping?
		for _, b := range unhx(op.Cfg.Layout) {
			if b < 0x20 || b == '"' || b == '\\' || b >= 0x80 {
				return "C01:malformed:time-layout-unescaped"
			}
		}
	}
	return "C01:malformed"
}

func trunc2(p []byte) []byte {
	if len(p) > 600 {
		return append(append([]byte(nil), p[:600]...), "…"...)
	}
	return p
}

func c02Exec(raw json.RawMessage) Result {
	var kind struct {
		K string `json:"k"`
	}
	unmarshal(raw, &kind)
	if kind.K == "nestfail" {
		return c02ExecNest(raw)
	}
	var op encOp
	unmarshal(raw, &op)
	line, _, pmsg := encRun(&op)
	o := ok()
	if pmsg != "" {
		o = bad(c01PanicSig(&op), "the log call panicked: %s", pmsg)
	} else {
		o = c02Oracle(&op, line)
	}
	nf := len(op.Fields) + len(op.Ctx)
	impl := encImpl(line, pmsg)
	impl["map"] = mapSkeleton(&op)
	return Result{Impl: impl, Oracle: o, Nontrivial: nf >= 2, Shape: encShape(&op, "json")}
}

func c02Oracle(op *encOp, line []byte) Oracle {
	end := resolvedEnding(op.Cfg)
	if !bytes.HasSuffix(line, end) {
		return bad("C02:ending", "line does not end with the configured line ending")
	}
	got, err := decodeTree(line[:len(line)-len(end)])
	if err != nil {
		return bad("C02:undecodable", "%v\nline: %q", err, trunc2(line))
	}
	want := expectedTree(op)
	if err := compareTree("$", want, got); err != nil {
		return bad("C02:value-mismatch", "%v\nline: %q", err, trunc2(line))
	}
	if err := mapEncoderAgrees(op, got); err != nil {
		return bad("C02:map-encoder-disagrees", "%v\nline: %q", err, trunc2(line))
	}
	return ok()
}
