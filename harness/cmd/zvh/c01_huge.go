package main

import (
	"bytes"
	"encoding/json"
	"fmt"
	"strings"

	"go.uber.org/zap"
	"go.uber.org/zap/zapcore"
)

// C01 op "huge" (oracle only — the model's byte lists are not made for tens of megabytes):
//   {"k":"huge","mib":N,"how":"string|reflect|context|nsctx|array"}
// one entry that carries N MiB (+ a little) in one place: a string field, a reflected value, the With-context of the
// logger (plain, or inside an open namespace with a further field at the call site), a string array. The sink must
// receive ONE write: one line, valid JSON, holding the payload in full — "for all inputs" has no size limit.

type c01HugeOp struct {
	K   string `json:"k"`
	MiB int    `json:"mib"`
	How string `json:"how"`
}

func c01GenHuge(r *Rand, tier string, emit func(op any)) {
	sizes := []int{1, 17}
	if tier == "thorough" {
		sizes = []int{1, 2, 5, 9, 17, 33, 65}
	}
	for _, how := range []string{"string", "reflect", "context", "nsctx", "array"} {
		for _, m := range sizes {
			emit(c01HugeOp{K: "huge", MiB: m, How: how})
		}
	}
}

func c01ExecHuge(raw json.RawMessage) Result {
	var op c01HugeOp
	unmarshal(raw, &op)
	n := op.MiB<<20 + 4097
	big := strings.Repeat("abcdefghijklmnopqrstuvwxyz012345", n/32+1)[:n]
	sink := &captureSink{}
	core := zapcore.NewCore(zapcore.NewJSONEncoder(zapcore.EncoderConfig{MessageKey: "msg", LevelKey: "level", EncodeLevel: zapcore.LowercaseLevelEncoder,
		LineEnding: "\n"}), sink, zapcore.DebugLevel)
	lg := zap.New(core)
	pmsg := ""
	func() {
		defer func() {
			if e := recover(); e != nil {
				pmsg = fmt.Sprint(e)
			}
		}()
		switch op.How {
		case "string":
			lg.Info("m", zap.String("a", "x"), zap.String("big", big), zap.Int("z", 1))
		case "reflect":
			lg.Info("m", zap.String("a", "x"), zap.Reflect("big", map[string]string{"v": big}), zap.Reflect("z", []int{1}))
		case "context":
			lg.With(zap.String("big", big)).With(zap.Int("c", 2)).Info("m", zap.Int("z", 1))
		case "nsctx":
			lg.With(zap.Namespace("ns"), zap.String("big", big)).With(zap.Int("c", 2)).Info("m", zap.Reflect("z", []int{1}))
		case "array":
			lg.Info("m", zap.Strings("big", []string{big[:n/2], big[n/2:]}), zap.Int("z", 1))
		default:
			panic("how " + op.How)
		}
	}()
	o := ok()
	var line []byte
	if len(sink.writes) > 0 {
		line = sink.writes[0]
	}
	switch {
	case pmsg != "":
		o = bad("C01:panic:huge", "the log call panicked: %s", trunc2([]byte(pmsg)))
	case len(sink.writes) != 1:
		o = bad("C01:sink-writes", "the sink received %d writes for one entry of %d MiB", len(sink.writes), op.MiB)
	case !bytes.HasSuffix(line, []byte("\n")) || bytes.Count(line, []byte("\n")) != 1:
		o = bad("C01:malformed:huge", "a %d MiB entry (%s) is not one line: %d line breaks", op.MiB, op.How, bytes.Count(line, []byte("\n")))
	case !json.Valid(line):
		o = bad("C01:malformed:huge", "a %d MiB entry (%s) is not valid JSON; head %q tail %q", op.MiB, op.How, trunc2(line), line[len(line)-minInt(len(line), 120):])
	case len(line) < n:
		o = bad("C01:malformed:huge", "a %d MiB entry (%s) came out as %d bytes: the payload is not all there", op.MiB, op.How, len(line))
	default:
		var top map[string]json.RawMessage
		if err := json.Unmarshal(line, &top); err != nil {
			o = bad("C01:malformed:huge", "a %d MiB entry (%s) does not decode to an object: %v", op.MiB, op.How, err)
		} else {
			in := top
			if op.How == "nsctx" {
				in = map[string]json.RawMessage{}
				_ = json.Unmarshal(top["ns"], &in)
			}
			if _, has := in["z"]; !has || len(in["big"]) < n {
				o = bad("C01:malformed:huge", "a %d MiB entry (%s): the payload or the field after it is missing (keys: %d, big: %d bytes)", op.MiB, op.How, len(in), len(in["big"]))
			}
		}
	}
	return Result{Impl: map[string]any{"nomodel": true}, Oracle: o, NoModel: true, Nontrivial: true, Shape: fmt.Sprintf("huge/%s/%dMiB", op.How, op.MiB)}
}
