package main

import (
	"bytes"
	"encoding/json"
	"errors"
	"fmt"

	"go.uber.org/zap"
	"go.uber.org/zap/zapcore"
)

// C02 op "nestfail" (oracle only): a marshaler NESTED inside another marshaler fails after emitting part of its content.
//   {"k":"nestfail","outer":"obj|arr","inner":"obj|arr","n":elements the inner one emits before it fails,
//    "prop":bool — the outer marshaler returns the inner error at once (true) or ignores it and goes on (false), "ns":bool}
// The property's own clause is the oracle: the nesting the JSON line decodes to is the nesting the in-memory map encoder
// records for the same fields — partial content of the failing marshaler included on both sides. (The model's scripted
// marshalers fail only at field level; nested failures are compared between the two real encoders.)

type c02NestOp struct {
	K     string `json:"k"`
	Outer string `json:"outer"`
	Inner string `json:"inner"`
	N     int    `json:"n"`
	Prop  bool   `json:"prop"`
	NS    bool   `json:"ns"`
}

type c02Inner struct {
	n   int
	arr bool
}

func (m c02Inner) MarshalLogObject(e zapcore.ObjectEncoder) error {
	for i := 0; i < m.n; i++ {
		e.AddInt(fmt.Sprintf("i%d", i), i)
	}
	return errors.New("inner failed")
}

func (m c02Inner) MarshalLogArray(e zapcore.ArrayEncoder) error {
	for i := 0; i < m.n; i++ {
		e.AppendInt(i)
	}
	return errors.New("inner failed")
}

type c02Outer struct {
	op *c02NestOp
}

func (m c02Outer) MarshalLogObject(e zapcore.ObjectEncoder) error {
	e.AddString("before", "b")
	var err error
	if m.op.Inner == "obj" {
		err = e.AddObject("in", c02Inner{n: m.op.N})
	} else {
		err = e.AddArray("in", c02Inner{n: m.op.N})
	}
	if err != nil && m.op.Prop {
		return err
	}
	e.AddString("after", "a")
	return nil
}

func (m c02Outer) MarshalLogArray(e zapcore.ArrayEncoder) error {
	e.AppendString("before")
	var err error
	if m.op.Inner == "obj" {
		err = e.AppendObject(c02Inner{n: m.op.N})
	} else {
		err = e.AppendArray(c02Inner{n: m.op.N})
	}
	if err != nil && m.op.Prop {
		return err
	}
	e.AppendString("after")
	return nil
}

func c02GenNest(emit func(op any)) {
	for _, outer := range []string{"obj", "arr"} {
		for _, inner := range []string{"obj", "arr"} {
			for _, n := range []int{0, 1, 2} {
				for _, prop := range []bool{true, false} {
					for _, ns := range []bool{false, true} {
						emit(c02NestOp{K: "nestfail", Outer: outer, Inner: inner, N: n, Prop: prop, NS: ns})
					}
				}
			}
		}
	}
}

func c02ExecNest(raw json.RawMessage) Result {
	var op c02NestOp
	unmarshal(raw, &op)
	fields := []zapcore.Field{zap.Int("first", 1)}
	if op.NS {
		fields = append(fields, zap.Namespace("ns"))
	}
	if op.Outer == "obj" {
		fields = append(fields, zap.Object("out", c02Outer{&op}))
	} else {
		fields = append(fields, zap.Array("out", c02Outer{&op}))
	}
	fields = append(fields, zap.Int("last", 9))
	enc := zapcore.NewJSONEncoder(zapcore.EncoderConfig{})
	buf, err := enc.EncodeEntry(zapcore.Entry{}, fields)
	o := ok()
	if err != nil {
		o = bad("C02:nested-failure", "EncodeEntry failed: %v", err)
	} else {
		line := bytes.TrimSuffix(buf.Bytes(), []byte("\n"))
		got, derr := decodeTree(line)
		m := zapcore.NewMapObjectEncoder()
		for _, f := range fields {
			f.AddTo(m)
		}
		switch {
		case derr != nil:
			o = bad("C02:undecodable", "%v\nline: %q", derr, trunc2(line))
		default:
			if serr := sameShape("$", got, m.Fields); serr != nil {
				o = bad("C02:map-encoder-disagrees", "a %s inside a %s that fails after %d elements (outer propagates: %v): %v\nline: %q\nmap:  %v",
					op.Inner, op.Outer, op.N, op.Prop, serr, trunc2(line), m.Fields)
			}
		}
		buf.Free()
	}
	return Result{Impl: map[string]any{"nomodel": true}, Oracle: o, NoModel: true, Nontrivial: true,
		Shape: fmt.Sprintf("nestfail/%s-in-%s/prop=%v", op.Inner, op.Outer, op.Prop)}
}
