package main

// C03 — Field constructors and zap.Any deliver exactly the value they were given.
//
// ops
//   {"k":"ctor","c":"zap.Int32","key":"<hex>","a":ARG}          f := C(key, a); f.AddTo(recorder)
//        → {"calls":[{"m","k","v"}…],"panic":false}
//   {"k":"any","t":"*int32","key":"<hex>","a":ARG}               zap.Any(key, v).AddTo(recorder), v of dynamic type t
//        → same
//   {"k":"eq","f":{"c","key","a"},"g":{"c","key","a"}}           → {"fg","gf","ff","gg"} ∈ tt|ff|panic
//
// ARG: {"n":"<decimal>"} integer or float bit pattern | {"b":bool} | {"s":"<hex>"} | {"t":{"ns":"<decimal>","loc":i}}
//      | {"x":{pool attributes}} an opaque pool value | {"nil":true} nil pointer / nil interface
//      | {"p":ARG} non-nil pointer | {"l":[ARG…],"lnil":bool} slice
//
// The oracle is type-directed and knows nothing about zap's FieldType packing: the call it expects is derived from the Go
// value that was passed in.

import (
	"encoding/json"
	"fmt"
	"math"
	"math/big"
	"reflect"
	"sort"
	"strings"
	"time"

	"go.uber.org/zap"
	"go.uber.org/zap/exp/zapfield"
	"go.uber.org/zap/zapcore"
)

type c03Arg struct {
	N    *string   `json:"n,omitempty"`
	B    *bool     `json:"b,omitempty"`
	S    *string   `json:"s,omitempty"`
	T    *c03Time  `json:"t,omitempty"`
	X    *c03Attr  `json:"x,omitempty"`
	Nil  bool      `json:"nil,omitempty"`
	P    *c03Arg   `json:"p,omitempty"`
	L    *[]c03Arg `json:"l,omitempty"`
	LNil bool      `json:"lnil,omitempty"`
}

type c03FSpec struct {
	C   string `json:"c"`
	Key string `json:"key"`
	A   c03Arg `json:"a"`
}

type c03Op struct {
	K   string    `json:"k"`
	C   string    `json:"c,omitempty"`
	T   string    `json:"t,omitempty"`
	Key string    `json:"key"`
	A   c03Arg    `json:"a"`
	F   *c03FSpec `json:"f,omitempty"`
	G   *c03FSpec `json:"g,omitempty"`
}

type c03Result struct {
	Calls []c03Call `json:"calls"`
	Panic bool      `json:"panic"`
}

type c03EqResult struct {
	FG string `json:"fg"`
	GF string `json:"gf"`
	FF string `json:"ff"`
	GG string `json:"gg"`
}

func init() {
	props["C03"] = &Prop{Gen: c03Gen, Exec: c03Exec}
	dumps["C03Ctors"] = func() {
		c03Init()
		var names []string
		for n := range c03Ctors {
			names = append(names, n)
		}
		sort.Strings(names)
		for _, n := range names {
			fmt.Fprintln(dumpOut, n)
		}
	}
}

// ---------------------------------------------------------------- decoding arguments into Go values

func c03Big(s string) *big.Int {
	b, ok := new(big.Int).SetString(s, 10)
	if !ok {
		panic("bad integer " + s)
	}
	return b
}

// c03Bits: the low 64 bits of a (possibly negative) integer, two's complement.
func c03Bits(s string) uint64 {
	b := c03Big(s)
	if b.Sign() < 0 {
		b = new(big.Int).Add(b, new(big.Int).Lsh(big.NewInt(1), 64))
	}
	return b.Uint64()
}

type c03Int interface {
	~int | ~int8 | ~int16 | ~int32 | ~int64 | ~uint | ~uint8 | ~uint16 | ~uint32 | ~uint64 | ~uintptr
}

func c03Time2(t *c03Time) time.Time {
	ns := c03Big(t.NS)
	sec, nsec := new(big.Int).DivMod(ns, big.NewInt(1e9), new(big.Int)) // Euclidean: 0 ≤ nsec
	return time.Unix(sec.Int64(), nsec.Int64()).In(c03Locs[t.Loc])
}

// scalar readers
func rdInt[T c03Int](a *c03Arg) T { return T(c03Bits(*a.N)) }
func rdF64(a *c03Arg) float64     { return math.Float64frombits(c03Bits(*a.N)) }
func rdF32(a *c03Arg) float32     { return math.Float32frombits(uint32(c03Bits(*a.N))) }
func rdBool(a *c03Arg) bool       { return *a.B }
func rdStr(a *c03Arg) string      { return string(unhx(*a.S)) }
func rdTime(a *c03Arg) time.Time  { return c03Time2(a.T) }
func rdPool[T any](a *c03Arg) T   { return c03Pool[a.X.I].v.(T) }
func rdIface[T any](a *c03Arg) (z T) { // interface-typed parameter: nil allowed
	if a.Nil {
		return z
	}
	return c03Pool[a.X.I].v.(T)
}

func rdPtr[T any](rd func(*c03Arg) T) func(*c03Arg) *T {
	return func(a *c03Arg) *T {
		if a.Nil {
			return nil
		}
		v := rd(a.P)
		return &v
	}
}

func rdSlice[T any](rd func(*c03Arg) T) func(*c03Arg) []T {
	return func(a *c03Arg) []T {
		if a.LNil {
			return nil
		}
		out := make([]T, 0, len(*a.L))
		for i := range *a.L {
			out = append(out, rd(&(*a.L)[i]))
		}
		return out
	}
}

// ---------------------------------------------------------------- constructor table

type c03Ctor struct {
	name  string                                    // "zap.Int32"
	gtype string                                    // Go type of the value parameter ("" none)
	kind  string                                    // generator class of the element: int8… float32 float64 duration bool string time c128 c64 bytes obj hobj hobjp hobjv arr str hstr err any fields none
	shape string                                    // k0 k1 v1 kv kp ks
	build func(key string, a *c03Arg) zapcore.Field // calls the real constructor
	value func(a *c03Arg) any                       // the Go value that is passed (for the oracle)
}

var c03Ctors map[string]*c03Ctor
var c03Order []string

func reg[T any](name, gtype, kind, shape string, f func(string, T) zapcore.Field, rd func(*c03Arg) T) {
	c03Ctors[name] = &c03Ctor{name: name, gtype: gtype, kind: kind, shape: shape,
		build: func(key string, a *c03Arg) zapcore.Field { return f(key, rd(a)) },
		value: func(a *c03Arg) any { return rd(a) }}
	c03Order = append(c03Order, name)
}

// regNum registers X, Xp and Xs for one numeric type.
func regNum[T any](base, gtype, kind string, rd func(*c03Arg) T, f func(string, T) zapcore.Field, fp func(string, *T) zapcore.Field, fs func(string, []T) zapcore.Field) {
	reg("zap."+base, gtype, kind, "kv", f, rd)
	if fp != nil {
		reg("zap."+base+"p", "*"+gtype, kind, "kp", fp, rdPtr(rd))
	}
	if fs != nil {
		reg("zap."+base+"s", "[]"+gtype, kind, "ks", fs, rdSlice(rd))
	}
}

type c03K string
type c03V string

func c03Init() {
	if c03Ctors != nil {
		return
	}
	c03InitPools()
	c03Ctors = map[string]*c03Ctor{}
	regNum("Int", "int", "int64", rdInt[int], zap.Int, zap.Intp, zap.Ints)
	regNum("Int64", "int64", "int64", rdInt[int64], zap.Int64, zap.Int64p, zap.Int64s)
	regNum("Int32", "int32", "int32", rdInt[int32], zap.Int32, zap.Int32p, zap.Int32s)
	regNum("Int16", "int16", "int16", rdInt[int16], zap.Int16, zap.Int16p, zap.Int16s)
	regNum("Int8", "int8", "int8", rdInt[int8], zap.Int8, zap.Int8p, zap.Int8s)
	regNum("Uint", "uint", "uint64", rdInt[uint], zap.Uint, zap.Uintp, zap.Uints)
	regNum("Uint64", "uint64", "uint64", rdInt[uint64], zap.Uint64, zap.Uint64p, zap.Uint64s)
	regNum("Uint32", "uint32", "uint32", rdInt[uint32], zap.Uint32, zap.Uint32p, zap.Uint32s)
	regNum("Uint16", "uint16", "uint16", rdInt[uint16], zap.Uint16, zap.Uint16p, zap.Uint16s)
	regNum("Uint8", "uint8", "uint8", rdInt[uint8], zap.Uint8, zap.Uint8p, zap.Uint8s)
	regNum("Uintptr", "uintptr", "uint64", rdInt[uintptr], zap.Uintptr, zap.Uintptrp, zap.Uintptrs)
	regNum("Float64", "float64", "float64", rdF64, zap.Float64, zap.Float64p, zap.Float64s)
	regNum("Float32", "float32", "float32", rdF32, zap.Float32, zap.Float32p, zap.Float32s)
	regNum("Duration", "time.Duration", "int64", rdInt[time.Duration], zap.Duration, zap.Durationp, zap.Durations)
	regNum("Bool", "bool", "bool", rdBool, zap.Bool, zap.Boolp, zap.Bools)
	regNum("String", "string", "string", rdStr, zap.String, zap.Stringp, zap.Strings)
	regNum("Time", "time.Time", "time", rdTime, zap.Time, zap.Timep, zap.Times)
	regNum("Complex128", "complex128", "c128", rdPool[complex128], zap.Complex128, zap.Complex128p, zap.Complex128s)
	regNum("Complex64", "complex64", "c64", rdPool[complex64], zap.Complex64, zap.Complex64p, zap.Complex64s)
	regNum("Binary", "[]byte", "bytes", rdPool[[]byte], zap.Binary, nil, nil)
	regNum("ByteString", "[]byte", "bytes", rdPool[[]byte], zap.ByteString, nil, zap.ByteStrings)
	reg("zap.Reflect", "any", "any", "kv", zap.Reflect, rdIface[any])
	reg("zap.Stringer", "fmt.Stringer", "str", "kv", zap.Stringer, rdIface[fmt.Stringer])
	reg("zap.Object", "zapcore.ObjectMarshaler", "obj", "kv", zap.Object, rdIface[zapcore.ObjectMarshaler])
	reg("zap.Array", "zapcore.ArrayMarshaler", "arr", "kv", zap.Array, rdIface[zapcore.ArrayMarshaler])
	reg("zap.NamedError", "error", "err", "kv", zap.NamedError, rdIface[error])
	reg("zap.Errors", "[]error", "err", "ks", zap.Errors, rdSlice(rdIface[error]))
	reg("zap.Dict", "...Field", "fields", "kv", func(k string, fs []zap.Field) zapcore.Field { return zap.Dict(k, fs...) }, rdPool[[]zap.Field])
	reg("zap.Objects", "[]T", "hobj", "ks", zap.Objects[c03Obj], rdSlice(rdPool[c03Obj]))
	reg("zap.Objects*", "[]T", "hobjp", "ks", zap.Objects[*c03ObjP], rdSlice(rdPool[*c03ObjP]))
	reg("zap.ObjectValues", "[]T", "hobjv", "ks", zap.ObjectValues[c03ObjV, *c03ObjV], rdSlice(rdPool[c03ObjV]))
	reg("zap.Stringers", "[]T", "hstr", "ks", zap.Stringers[c03Str], rdSlice(rdPool[c03Str]))
	reg("zapfield.Str", "string", "string", "kv", func(k string, v c03V) zapcore.Field { return zapfield.Str(c03K(k), v) },
		func(a *c03Arg) c03V { return c03V(rdStr(a)) })
	reg("zapfield.Strs", "[]string", "string", "ks", func(k string, v []c03V) zapcore.Field { return zapfield.Strs(c03K(k), v) },
		rdSlice(func(a *c03Arg) c03V { return c03V(rdStr(a)) }))
	// constructors without the (key, val) signature
	c03Ctors["zap.Skip"] = &c03Ctor{name: "zap.Skip", shape: "k0", kind: "none", build: func(string, *c03Arg) zapcore.Field { return zap.Skip() }}
	c03Ctors["zap.Namespace"] = &c03Ctor{name: "zap.Namespace", shape: "k1", kind: "none", build: func(k string, _ *c03Arg) zapcore.Field { return zap.Namespace(k) }}
	c03Ctors["zap.Inline"] = &c03Ctor{name: "zap.Inline", shape: "v1", kind: "obj", gtype: "zapcore.ObjectMarshaler",
		build: func(_ string, a *c03Arg) zapcore.Field { return zap.Inline(rdIface[zapcore.ObjectMarshaler](a)) },
		value: func(a *c03Arg) any { return rdIface[zapcore.ObjectMarshaler](a) }}
	c03Ctors["zap.Error"] = &c03Ctor{name: "zap.Error", shape: "v1", kind: "err", gtype: "error",
		build: func(_ string, a *c03Arg) zapcore.Field { return zap.Error(rdIface[error](a)) },
		value: func(a *c03Arg) any { return rdIface[error](a) }}
	c03Order = append(c03Order, "zap.Skip", "zap.Namespace", "zap.Inline", "zap.Error")
	// not exercised (the value is the runtime stack: property C15): zap.Stack, zap.StackSkip
}

// ---------------------------------------------------------------- generation

func dec(v any) *string { s := fmt.Sprint(v); return &s }

var c03IntRange = map[string][2]string{
	"int8": {"-128", "127"}, "int16": {"-32768", "32767"}, "int32": {"-2147483648", "2147483647"},
	"int64": {"-9223372036854775808", "9223372036854775807"},
	"uint8": {"0", "255"}, "uint16": {"0", "65535"}, "uint32": {"0", "4294967295"}, "uint64": {"0", "18446744073709551615"},
}

// c03Nums: boundary values first (deterministic), then random ones.
func c03Nums(r *Rand, kind string, n int) []string {
	var out []string
	switch kind {
	case "float64":
		for _, b := range []uint64{0, 1 << 63, 0x3ff0000000000000, 0x7ff0000000000000, 0xfff0000000000000, 0x7ff8000000000000, 0x7ff8000000000001,
			0x7ff0000000000001, 0xfff8000000000000, 0xffffffffffffffff, 1, 0x000fffffffffffff, 0x7fefffffffffffff, 0x8000000000000001, 0x400921fb54442d18} {
			out = append(out, fmt.Sprint(b))
		}
		for i := 0; i < n; i++ {
			out = append(out, fmt.Sprint(r.U64()))
		}
	case "float32":
		for _, b := range []uint32{0, 1 << 31, 0x3f800000, 0x7f800000, 0xff800000, 0x7fc00000, 0x7fc00001, 0x7f800001, 0xffc00000, 0xffffffff, 1,
			0x007fffff, 0x7f7fffff, 0x80000001, 0x40490fdb} {
			out = append(out, fmt.Sprint(b))
		}
		for i := 0; i < n; i++ {
			out = append(out, fmt.Sprint(uint32(r.U64())))
		}
	default:
		rg := c03IntRange[kind]
		lo, hi := c03Big(rg[0]), c03Big(rg[1])
		seen := map[string]bool{}
		addv := func(b *big.Int) {
			if b.Cmp(lo) >= 0 && b.Cmp(hi) <= 0 && !seen[b.String()] {
				seen[b.String()] = true
				out = append(out, b.String())
			}
		}
		for _, b := range []*big.Int{lo, hi, big.NewInt(0), big.NewInt(1), big.NewInt(-1), new(big.Int).Add(lo, big.NewInt(1)), new(big.Int).Sub(hi, big.NewInt(1))} {
			addv(b)
		}
		for _, e := range []uint{7, 8, 15, 16, 31, 32, 63} { // the limits of every narrower width, ±1
			p := new(big.Int).Lsh(big.NewInt(1), e)
			for _, d := range []int64{-1, 0, 1} {
				addv(new(big.Int).Add(p, big.NewInt(d)))
				addv(new(big.Int).Add(new(big.Int).Neg(p), big.NewInt(d)))
			}
		}
		span := new(big.Int).Add(new(big.Int).Sub(hi, lo), big.NewInt(1))
		for i := 0; i < n; i++ {
			v := new(big.Int).SetUint64(r.U64())
			v.Mod(v, span)
			out = append(out, v.Add(v, lo).String())
		}
	}
	return out
}

func c03Times(r *Rand, n int) []c03Time {
	var out []c03Time
	two63 := new(big.Int).Lsh(big.NewInt(1), 63)
	bounds := []*big.Int{big.NewInt(0), big.NewInt(1), big.NewInt(-1), big.NewInt(999999999), big.NewInt(-999999999), big.NewInt(1e9),
		new(big.Int).Sub(two63, big.NewInt(1)), new(big.Int).Set(two63), new(big.Int).Add(two63, big.NewInt(1)),
		new(big.Int).Neg(two63), new(big.Int).Sub(new(big.Int).Neg(two63), big.NewInt(1)), new(big.Int).Add(new(big.Int).Neg(two63), big.NewInt(1)),
		new(big.Int).Mul(big.NewInt(-62135596800), big.NewInt(1e9)),                           // the zero time.Time
		new(big.Int).Mul(big.NewInt(253402300799), big.NewInt(1e9)),                           // 9999-12-31T23:59:59Z
		new(big.Int).Mul(two63, big.NewInt(1000)), new(big.Int).Mul(two63, big.NewInt(-1000)), // far outside
		new(big.Int).Add(new(big.Int).Lsh(big.NewInt(1), 64), big.NewInt(5)), // ≡ 5 mod 2^64
		new(big.Int).Sub(big.NewInt(7), new(big.Int).Lsh(big.NewInt(1), 64)),
	}
	for i, b := range bounds {
		out = append(out, c03Time{NS: b.String(), Loc: i % len(c03Locs)})
		out = append(out, c03Time{NS: b.String(), Loc: (i + 3) % len(c03Locs)})
	}
	for i := 0; i < n; i++ {
		var v *big.Int
		switch r.Intn(3) {
		case 0: // inside the int64 range
			v = big.NewInt(int64(r.U64()))
		case 1: // around today
			v = big.NewInt(1700000000e9 + int64(r.U64()%uint64(1e18)) - 5e17)
		default: // outside: |sec| up to 2^55
			v = new(big.Int).Mul(big.NewInt(int64(r.U64()>>9)-(1<<54)), big.NewInt(1e9))
			v.Add(v, big.NewInt(int64(r.Intn(1e9))))
		}
		out = append(out, c03Time{NS: v.String(), Loc: r.Intn(len(c03Locs))})
	}
	return out
}

func c03Strings(r *Rand, n int) []string {
	out := []string{"", "a", "hello world", "\x00", "\xff\xfe", "\"quoted\"\\", "line\nbreak", "héllo ✓ 世界", strings.Repeat("x", 300), "  ", "<&>"}
	for i := 0; i < n; i++ {
		out = append(out, string(r.Bytes(24)))
	}
	return out
}

func c03Keys(r *Rand) string {
	return hx([]byte(Pick(r, []string{"k", "key", "", "a.b", "ключ", "k\"q", "error", "kError", "x\x00y", "\xff", "msg", "ts"})))
}

func poolArg(i int) c03Arg { a := c03Attrs[i]; return c03Arg{X: &a} }

// c03Elems: argument values for the element class of a constructor.
func c03Elems(r *Rand, kind string, n int) []c03Arg {
	var out []c03Arg
	switch kind {
	case "bool":
		t, f := true, false
		out = []c03Arg{{B: &t}, {B: &f}}
	case "string":
		for _, s := range c03Strings(r, n) {
			h := hx([]byte(s))
			out = append(out, c03Arg{S: &h})
		}
	case "time":
		for _, t := range c03Times(r, n) {
			t := t
			out = append(out, c03Arg{T: &t})
		}
	case "int8", "int16", "int32", "int64", "uint8", "uint16", "uint32", "uint64", "float32", "float64":
		for _, s := range c03Nums(r, kind, n) {
			s := s
			out = append(out, c03Arg{N: &s})
		}
	case "none":
		out = []c03Arg{{}}
	default: // pool groups
		groups := []string{kind}
		switch kind {
		case "obj":
			groups = []string{"obj", "hobj", "hobjp"}
		case "str":
			groups = []string{"str", "hstr"}
		case "any":
			groups = []string{"any", "obj", "hobj", "arr", "str", "hstr", "err", "c128", "bytes", "fields"}
		}
		for _, g := range groups {
			for _, i := range c03Group[g] {
				out = append(out, poolArg(i))
			}
		}
	}
	return out
}

func c03IsIface(kind string) bool {
	switch kind {
	case "obj", "arr", "str", "err", "any":
		return true
	}
	return false
}

func c03Gen(r *Rand, tier string, emit func(op any)) {
	c03Init()
	nRand, nSlices, nEq, nAny := 40, 12, 1500, 6
	if tier == "thorough" {
		nRand, nSlices, nEq, nAny = 4000, 400, 150000, 300
	}
	// 1. every constructor × boundary and random values
	for _, name := range c03Order {
		c := c03Ctors[name]
		elems := c03Elems(r, c.kind, nRand)
		switch c.shape {
		case "k0", "k1":
			for i := 0; i < 6; i++ {
				emit(c03Op{K: "ctor", C: name, Key: c03Keys(r)})
			}
		case "kv", "v1":
			for _, a := range elems {
				if c.kind == "obj" && c.shape == "v1" && a.X.Dyn == "zap.dictObject" {
					continue // Inline(dictObject) flattens into the fields: not one call
				}
				emit(c03Op{K: "ctor", C: name, Key: c03Keys(r), A: a})
			}
			if c03IsIface(c.kind) {
				emit(c03Op{K: "ctor", C: name, Key: c03Keys(r), A: c03Arg{Nil: true}})
			}
		case "kp":
			emit(c03Op{K: "ctor", C: name, Key: c03Keys(r), A: c03Arg{Nil: true}})
			for _, a := range elems {
				a := a
				emit(c03Op{K: "ctor", C: name, Key: c03Keys(r), A: c03Arg{P: &a}})
			}
		case "ks":
			emit(c03Op{K: "ctor", C: name, Key: c03Keys(r), A: c03Arg{L: &[]c03Arg{}, LNil: true}})
			emit(c03Op{K: "ctor", C: name, Key: c03Keys(r), A: c03Arg{L: &[]c03Arg{}}})
			if c.kind == "err" {
				elems = append(elems, c03Arg{Nil: true}, c03Arg{Nil: true})
			}
			for i := 0; i < nSlices; i++ {
				k := 1 + r.Intn(6)
				l := make([]c03Arg, k)
				for j := range l {
					l[j] = Pick(r, elems)
				}
				emit(c03Op{K: "ctor", C: name, Key: c03Keys(r), A: c03Arg{L: &l}})
			}
			// every boundary value once, in order, in one slice
			if len(elems) <= 80 {
				l := append([]c03Arg(nil), elems...)
				emit(c03Op{K: "ctor", C: name, Key: c03Keys(r), A: c03Arg{L: &l}})
			}
		}
	}
	// 2. zap.Any with every supported dynamic type (and unsupported ones → Reflect)
	for _, t := range c03AnyOrder {
		at := c03AnyTypes[t]
		c := c03Ctors[at.ctor]
		if c == nil {
			continue
		}
		elems := c03Elems(r, c.kind, nAny)
		switch c.shape {
		case "kv":
			for _, a := range elems {
				emit(c03Op{K: "any", T: t, Key: c03Keys(r), A: a})
			}
		case "kp":
			emit(c03Op{K: "any", T: t, Key: c03Keys(r), A: c03Arg{Nil: true}})
			for i, a := range elems {
				if i > 30+nAny {
					break
				}
				a := a
				emit(c03Op{K: "any", T: t, Key: c03Keys(r), A: c03Arg{P: &a}})
			}
		case "ks":
			emit(c03Op{K: "any", T: t, Key: c03Keys(r), A: c03Arg{L: &[]c03Arg{}, LNil: true}})
			for i := 0; i < 4+nAny/10; i++ {
				l := make([]c03Arg, 1+r.Intn(4))
				for j := range l {
					l[j] = Pick(r, elems)
				}
				emit(c03Op{K: "any", T: t, Key: c03Keys(r), A: c03Arg{L: &l}})
			}
		}
	}
	for i := range c03Pool { // every pool value by its dynamic type
		emit(c03Op{K: "any", T: "pool", Key: c03Keys(r), A: poolArg(i)})
	}
	emit(c03Op{K: "any", T: "pool", Key: c03Keys(r), A: c03Arg{Nil: true}})
	// 3. Equals on generated pairs: same constructor and key with equal / different values, different keys, different types
	var eqCtors []string
	for _, n := range c03Order {
		eqCtors = append(eqCtors, n)
	}
	mk := func(name string) c03FSpec {
		c := c03Ctors[name]
		elems := c03Elems(r, c.kind, 2)
		var keep []c03Arg
		for _, a := range elems {
			if a.X != nil && c03Pool[a.X.I].noeq {
				continue
			}
			if (c.kind == "float64" || c.kind == "float32") && c.shape == "ks" && (c03IsNaNBits(c.kind, *a.N) || c03IsNegZero(c.kind, *a.N)) {
				// reflect.DeepEqual compares float elements with ==: separately built slices holding NaN are never equal
				// (F3b) and +0/-0 are equal although they are different inputs; the model compares slice elements
				// bit-wise, so both are kept out of the Equals ops (they are exercised by the ctor ops)
				continue
			}
			if a.X != nil && !a.X.Refl && c.shape == "ks" {
				continue // same for NaN-carrying complex elements
			}
			keep = append(keep, a)
		}
		fs := c03FSpec{C: name, Key: hx([]byte(Pick(r, []string{"k", "k", "k", "j", ""})))}
		switch c.shape {
		case "kv", "v1":
			if c03IsIface(c.kind) && r.Chance(1, 12) {
				fs.A = c03Arg{Nil: true}
			} else {
				fs.A = Pick(r, keep)
			}
		case "kp":
			if r.Chance(1, 5) {
				fs.A = c03Arg{Nil: true}
			} else {
				a := Pick(r, keep)
				fs.A = c03Arg{P: &a}
			}
		case "ks":
			l := make([]c03Arg, r.Intn(3))
			for j := range l {
				l[j] = Pick(r, keep)
			}
			fs.A = c03Arg{L: &l, LNil: len(l) == 0 && r.Bool()}
		}
		return fs
	}
	// every constructor against itself with each of its pool values (equal inputs), exhaustively for the opaque classes
	for _, name := range eqCtors {
		c := c03Ctors[name]
		if c.shape != "kv" && c.shape != "v1" {
			continue
		}
		for _, a := range c03Elems(r, c.kind, 0) {
			if a.X == nil || c03Pool[a.X.I].noeq {
				continue
			}
			f := c03FSpec{C: name, Key: hx([]byte("k")), A: a}
			g := f
			emit(c03Op{K: "eq", F: &f, G: &g})
		}
	}
	for i := 0; i < nEq; i++ {
		f := mk(Pick(r, eqCtors))
		var g c03FSpec
		switch r.Intn(5) {
		case 0, 1: // equal inputs
			g = f
		case 2: // same constructor, (probably) another value
			g = mk(f.C)
			g.Key = f.Key
		case 3: // a constructor of the same family
			g = mk(Pick(r, eqCtors))
			g.Key = f.Key
		default:
			g = mk(Pick(r, eqCtors))
		}
		emit(c03Op{K: "eq", F: &f, G: &g})
	}
}

func c03IsNegZero(kind, s string) bool {
	if kind == "float64" {
		return c03Bits(s) == 1<<63
	}
	return uint32(c03Bits(s)) == 1<<31
}

func c03IsNaNBits(kind, s string) bool {
	if kind == "float64" {
		return math.IsNaN(math.Float64frombits(c03Bits(s)))
	}
	return math.IsNaN(float64(math.Float32frombits(uint32(c03Bits(s)))))
}

// ---------------------------------------------------------------- zap.Any: dynamic types

type c03AnyType struct {
	ctor string // the typed constructor Any must agree with (the harness's own table, from the documentation)
}

var c03AnyTypes = map[string]*c03AnyType{}
var c03AnyOrder []string

func anyT(t, ctor string) {
	c03AnyTypes[t] = &c03AnyType{ctor: ctor}
	c03AnyOrder = append(c03AnyOrder, t)
}

func init() {
	for _, b := range []struct{ t, c string }{{"int", "Int"}, {"int64", "Int64"}, {"int32", "Int32"}, {"int16", "Int16"}, {"int8", "Int8"},
		{"uint", "Uint"}, {"uint64", "Uint64"}, {"uint32", "Uint32"}, {"uint16", "Uint16"}, {"uint8", "Uint8"}, {"uintptr", "Uintptr"},
		{"float64", "Float64"}, {"float32", "Float32"}, {"time.Duration", "Duration"}, {"bool", "Bool"}, {"string", "String"},
		{"time.Time", "Time"}, {"complex128", "Complex128"}, {"complex64", "Complex64"}} {
		anyT(b.t, "zap."+b.c)
		anyT("*"+b.t, "zap."+b.c+"p")
		if b.t == "uint8" {
			continue // []uint8 is []byte → Binary (below)
		}
		anyT("[]"+b.t, "zap."+b.c+"s")
	}
	anyT("[]byte", "zap.Binary")
	anyT("[]error", "zap.Errors")
}

// c03PoolCtor: the typed constructor a pool value must go to — by the documented preference
// ObjectMarshaler, ArrayMarshaler, (concrete types), error, Stringer, else Reflect.
func c03PoolCtor(v any) string {
	switch v.(type) {
	case zapcore.ObjectMarshaler:
		return "zap.Object"
	case zapcore.ArrayMarshaler:
		return "zap.Array"
	case []zap.Field:
		return "zap.Dict"
	case complex128:
		return "zap.Complex128"
	case complex64:
		return "zap.Complex64"
	case []byte:
		return "zap.Binary"
	case time.Duration:
		return "zap.Duration"
	case error:
		return "zap.NamedError"
	case fmt.Stringer:
		return "zap.Stringer"
	}
	return "zap.Reflect"
}

// ---------------------------------------------------------------- execution

func c03Run(f func() zapcore.Field) (res c03Result, fld zapcore.Field) {
	rec := &c03Rec{}
	defer func() {
		if e := recover(); e != nil {
			res = c03Result{Calls: rec.calls, Panic: true}
			if res.Calls == nil {
				res.Calls = []c03Call{}
			}
		}
	}()
	fld = f()
	fld.AddTo(rec)
	if rec.calls == nil {
		rec.calls = []c03Call{}
	}
	return c03Result{Calls: rec.calls}, fld
}

func c03Eq(a, b zapcore.Field) (out string) {
	defer func() {
		if e := recover(); e != nil {
			out = "panic"
		}
	}()
	if a.Equals(b) {
		return "tt"
	}
	return "ff"
}

func c03Exec(raw json.RawMessage) Result {
	c03Init()
	var op c03Op
	unmarshal(raw, &op)
	switch op.K {
	case "ctor":
		c := c03Ctors[op.C]
		if c == nil {
			return Result{Impl: map[string]string{"error": "unknown constructor"}, Oracle: bad("C03:harness", "unknown constructor %s", op.C), Shape: "bad"}
		}
		key := string(unhx(op.Key))
		res, _ := c03Run(func() zapcore.Field { return c.build(key, &op.A) })
		var val any
		if c.value != nil {
			val = c.value(&op.A)
		}
		return Result{Impl: res, Oracle: c03OracleCtor(c, key, val, &op.A, res), Nontrivial: c.shape != "k0", Shape: "ctor/" + c.shape + "/" + c.kind}
	case "any":
		key := string(unhx(op.Key))
		var val any
		want := ""
		if op.T == "pool" {
			if !op.A.Nil {
				val = c03Pool[op.A.X.I].v
			}
			want = c03PoolCtor(val)
			if op.A.X != nil && op.A.X.Num != "" { // a numeric pool value goes to a numeric constructor
				op.A = c03Arg{N: &op.A.X.Num}
			}
		} else {
			at := c03AnyTypes[op.T]
			want = at.ctor
			val = c03Ctors[want].value(&op.A)
		}
		res, got := c03Run(func() zapcore.Field { return zap.Any(key, val) })
		o := c03OracleAny(want, key, val, &op.A, res, got)
		if o.OK && !res.Panic {
			// the same value through Config.InitialFields must reach the encoder as the very same call
			if via, built := c03ViaConfig(key, val); built && !c03SameCalls(via, res) {
				a, _ := json.Marshal(res.Calls)
				b, _ := json.Marshal(via.Calls)
				o = bad("C03:initial-field-differs:"+strings.TrimLeft(want, "zap."), "zap.Any(%q, v) reaches the encoder as %s, the same value as Config.InitialFields[%q] as %s", key, trunc(a), key, trunc(b))
			}
		}
		return Result{Impl: res, Oracle: o, Nontrivial: true, Shape: "any/" + strings.TrimLeft(want, "zap.")}
	case "eq":
		fc, gc := c03Ctors[op.F.C], c03Ctors[op.G.C]
		f := fc.build(string(unhx(op.F.Key)), &op.F.A)
		g := gc.build(string(unhx(op.G.Key)), &op.G.A)
		res := c03EqResult{FG: c03Eq(f, g), GF: c03Eq(g, f), FF: c03Eq(f, f), GG: c03Eq(g, g)}
		same := reflect.DeepEqual(op.F, op.G)
		return Result{Impl: res, Oracle: c03OracleEq(op, res, same), Nontrivial: op.F.C == op.G.C, Shape: "eq/" + map[bool]string{true: "equal-inputs", false: "other"}[same]}
	}
	return Result{Impl: map[string]string{"error": "unknown op"}, Oracle: bad("C03:harness", "unknown op kind %q", op.K), Shape: "bad"}
}

// ---------------------------------------------------------------- the oracle

// c03Expect: the single call that delivers the Go value `val` unchanged — derived from the *type of the value*.
// ok=false: the value has no single-call rendering the oracle knows (then nothing is asserted).
func c03Expect(val any) (methods []string, v c03Val, ok bool) {
	var r c03Rec
	switch x := val.(type) {
	case int:
		return []string{"AddInt", "AddInt64"}, c03N(fmt.Sprint(x)), true
	case int64:
		return []string{"AddInt64"}, c03N(fmt.Sprint(x)), true
	case int32:
		return []string{"AddInt32"}, c03N(fmt.Sprint(x)), true
	case int16:
		return []string{"AddInt16"}, c03N(fmt.Sprint(x)), true
	case int8:
		return []string{"AddInt8"}, c03N(fmt.Sprint(x)), true
	case uint:
		return []string{"AddUint", "AddUint64"}, c03N(fmt.Sprint(x)), true
	case uint64:
		return []string{"AddUint64"}, c03N(fmt.Sprint(x)), true
	case uint32:
		return []string{"AddUint32"}, c03N(fmt.Sprint(x)), true
	case uint16:
		return []string{"AddUint16"}, c03N(fmt.Sprint(x)), true
	case uint8:
		return []string{"AddUint8"}, c03N(fmt.Sprint(x)), true
	case uintptr:
		return []string{"AddUintptr"}, c03N(fmt.Sprint(uint64(x))), true
	case float64:
		return []string{"AddFloat64"}, c03N(fmt.Sprint(math.Float64bits(x))), true
	case float32:
		return []string{"AddFloat32"}, c03N(fmt.Sprint(math.Float32bits(x))), true
	case time.Duration:
		return []string{"AddDuration"}, c03N(fmt.Sprint(int64(x))), true
	case bool:
		return []string{"AddBool"}, c03Bv(x), true
	case string:
		return []string{"AddString"}, c03Sv(x), true
	case c03V:
		return []string{"AddString"}, c03Sv(string(x)), true
	case time.Time:
		return []string{"AddTime"}, c03TimeVal(x), true
	case complex128:
		return []string{"AddComplex128"}, r.payload(x), true
	case complex64:
		return []string{"AddComplex64"}, r.payload(x), true
	case []byte:
		return []string{"AddBinary", "AddByteString"}, r.payload(x), true
	}
	return nil, c03Val{}, false
}

func canonJ(v any) string { b, _ := json.Marshal(v); return string(b) }

func c03Has(ms []string, m string) bool {
	for _, x := range ms {
		if x == m {
			return true
		}
	}
	return false
}

// c03CheckDelivered: `res` is exactly one call under `key` carrying `val` (static type given by gtype for interface values).
func c03CheckDelivered(who, gtype, key string, val any, res c03Result) Oracle {
	if res.Panic {
		return bad("C03:addto-panics:"+who, "%s: AddTo panicked for value %#v", who, val)
	}
	var ms []string
	var want c03Val
	var r c03Rec
	switch gtype {
	case "zapcore.ObjectMarshaler":
		ms, want = []string{"AddObject", "InlineObject"}, r.payload(val)
	case "zapcore.ArrayMarshaler":
		ms, want = []string{"AddArray"}, r.payload(val)
	case "any":
		ms, want = []string{"AddReflected"}, r.payload(val)
	case "fmt.Stringer":
		ms, want = []string{"AddString"}, c03Sv(val.(fmt.Stringer).String())
	case "error":
		ms, want = []string{"AddString"}, c03Sv(val.(error).Error())
	case "...Field", "[]Field":
		ms, want = []string{"AddObject"}, r.payload(val)
		want.Dyn = "zap.dictObject"
	default:
		var ok bool
		ms, want, ok = c03Expect(val)
		if !ok {
			return ok2()
		}
	}
	if len(res.Calls) != 1 {
		return bad("C03:wrong-call-count:"+who, "%s(%q, %#v): encoder received %d calls %s, expected exactly 1", who, key, val, len(res.Calls), canonJ(res.Calls))
	}
	c := res.Calls[0]
	if !c03Has(ms, c.M) {
		return bad("C03:wrong-method:"+who, "%s(%q, %#v): encoder method %s, expected one of %v", who, key, val, c.M, ms)
	}
	wantKey := hx([]byte(key))
	if c.M == "InlineObject" {
		wantKey = ""
	}
	if c.K != wantKey {
		return bad("C03:wrong-key:"+who, "%s(%q, …): call key %q", who, key, c.K)
	}
	if canonJ(c.V) != canonJ(want) {
		return bad("C03:value-changed:"+who, "%s(%q, %#v): encoder received %s, the original value is %s", who, key, val, canonJ(c.V), canonJ(want))
	}
	return ok()
}

func ok2() Oracle { return ok() }

func c03IsNilIface(val any) bool { return val == nil }

func c03OracleCtor(c *c03Ctor, key string, val any, a *c03Arg, res c03Result) Oracle {
	who := c.name
	if res.Panic {
		return bad("C03:addto-panics:"+who, "%s: constructor or AddTo panicked (argument %s)", who, canonJ(a))
	}
	null := func() Oracle {
		if len(res.Calls) == 1 && res.Calls[0].M == "AddReflected" && res.Calls[0].K == hx([]byte(key)) && res.Calls[0].V.Nil {
			return ok()
		}
		return bad("C03:nil-not-null:"+who, "%s(%q, nil): expected one AddReflected(key, nil), got %s", who, key, canonJ(res.Calls))
	}
	switch c.shape {
	case "k0":
		if len(res.Calls) != 0 {
			return bad("C03:skip-adds:"+who, "Skip() added %s", canonJ(res.Calls))
		}
		return ok()
	case "k1":
		if len(res.Calls) != 1 || res.Calls[0].M != "OpenNamespace" || res.Calls[0].K != hx([]byte(key)) {
			return bad("C03:namespace:"+who, "Namespace(%q): %s", key, canonJ(res.Calls))
		}
		return ok()
	case "kp":
		if a.Nil {
			return null()
		}
		return c03CheckDelivered(who, strings.TrimPrefix(c.gtype, "*"), key, reflect.ValueOf(val).Elem().Interface(), res)
	case "kv", "v1":
		if c.shape == "v1" && c.name == "zap.Error" {
			key = "error"
		}
		if a.Nil { // nil interface value
			switch c.gtype {
			case "error":
				if len(res.Calls) != 0 {
					return bad("C03:nil-error-not-skipped:"+who, "%s(nil) added %s", who, canonJ(res.Calls))
				}
				return ok()
			case "any", "zapcore.ObjectMarshaler", "zapcore.ArrayMarshaler":
				if c.shape == "v1" { // Inline(nil): nothing to inline
					if len(res.Calls) != 0 {
						return bad("C03:nil-inline:"+who, "%s(nil) added %s", who, canonJ(res.Calls))
					}
					return ok()
				}
				return null()
			default:
				return ok() // a nil Stringer is reported through <key>Error (C10); it must not panic, which was checked above
			}
		}
		return c03CheckDelivered(who, c.gtype, key, val, res)
	case "ks":
		return c03OracleSlice(who, c, key, val, res)
	}
	return ok()
}

// c03OracleSlice: one AddArray whose elements are the slice's elements, in order (nil errors skipped).
func c03OracleSlice(who string, c *c03Ctor, key string, val any, res c03Result) Oracle {
	if len(res.Calls) != 1 || res.Calls[0].M != "AddArray" || res.Calls[0].K != hx([]byte(key)) || res.Calls[0].V.Arr == nil {
		return bad("C03:slice-not-array:"+who, "%s(%q, …): expected one AddArray with zap's own marshaler, got %s", who, key, canonJ(res.Calls))
	}
	got := *res.Calls[0].V.Arr
	rv := reflect.ValueOf(val)
	var want []c03Elem
	for i := 0; i < rv.Len(); i++ {
		e := rv.Index(i).Interface()
		switch c.kind {
		case "err":
			if e == nil {
				continue
			}
			j := c03Find(e)
			want = append(want, c03Elem{M: "AppendObject", V: c03Val{X: &j}})
		case "hobj", "hobjp":
			j := c03Find(e)
			want = append(want, c03Elem{M: "AppendObject", V: c03Val{X: &j}})
		case "hobjv":
			j := e.(c03ObjV).id
			want = append(want, c03Elem{M: "AppendObject", V: c03Val{X: &j}})
		case "hstr":
			want = append(want, c03Elem{M: "AppendString", V: c03Sv(e.(fmt.Stringer).String())})
		default:
			ms, v, okk := c03Expect(e)
			if !okk {
				return ok()
			}
			m := "Append" + strings.TrimPrefix(ms[0], "Add")
			if b, isB := e.([]byte); isB {
				_ = b
				m = "AppendByteString"
			}
			if v.X != nil {
				v = c03Val{X: v.X}
			}
			// int/uint may travel as AppendInt/AppendInt64
			if len(ms) == 2 && i < len(got) && got[i].M == "Append"+strings.TrimPrefix(ms[1], "Add") {
				m = got[i].M
			}
			want = append(want, c03Elem{M: m, V: v})
		}
	}
	if len(got) != len(want) {
		return bad("C03:slice-length:"+who, "%s: %d element calls for %d (non-skipped) elements", who, len(got), len(want))
	}
	for i := range want {
		if canonJ(got[i]) != canonJ(want[i]) {
			return bad("C03:slice-element:"+who, "%s: element %d arrived as %s, the original is %s", who, i, canonJ(got[i]), canonJ(want[i]))
		}
	}
	return ok()
}

// c03OracleAny: zap.Any(key, v) must behave exactly like the typed constructor for v's dynamic type.
func c03OracleAny(want, key string, val any, a *c03Arg, res c03Result, got zapcore.Field) Oracle {
	if res.Panic {
		return bad("C03:any-panics:"+want, "zap.Any(%q, %#v) panicked", key, val)
	}
	c := c03Ctors[want]
	var ref c03Result
	var wf zapcore.Field
	if a.Nil && want == "zap.Reflect" {
		ref, wf = c03Run(func() zapcore.Field { return zap.Reflect(key, nil) })
	} else {
		ref, wf = c03Run(func() zapcore.Field { return c.build(key, a) })
	}
	if got.Type != wf.Type {
		return bad("C03:any-disagrees:"+want, "zap.Any(%q, %T) built a field of type %d, %s builds type %d", key, val, got.Type, want, wf.Type)
	}
	if canonJ(ref) != canonJ(res) {
		return bad("C03:any-disagrees:"+want, "zap.Any(%q, %T) delivers %s, %s delivers %s", key, val, canonJ(res), want, canonJ(ref))
	}
	return ok()
}

func c03ArgRefl(a *c03Arg) bool {
	if a.X != nil && !a.X.Refl {
		return false
	}
	if a.P != nil {
		return c03ArgRefl(a.P)
	}
	if a.L != nil {
		for i := range *a.L {
			if !c03ArgRefl(&(*a.L)[i]) {
				return false
			}
		}
	}
	return true
}

func c03OracleEq(op c03Op, r c03EqResult, same bool) Oracle {
	for _, x := range []struct{ n, v string }{{"f.Equals(g)", r.FG}, {"g.Equals(f)", r.GF}, {"f.Equals(f)", r.FF}, {"g.Equals(g)", r.GG}} {
		if x.v == "panic" {
			return bad("C03:equals-panics", "%s panicked; f=%s g=%s", x.n, canonJ(op.F), canonJ(op.G))
		}
	}
	if r.FG != r.GF {
		return bad("C03:equals-asymmetric", "f.Equals(g)=%s but g.Equals(f)=%s; f=%s g=%s", r.FG, r.GF, canonJ(op.F), canonJ(op.G))
	}
	for _, x := range []struct {
		n, v string
		a    *c03Arg
	}{{"f", r.FF, &op.F.A}, {"g", r.GG, &op.G.A}} {
		if x.v != "tt" {
			if !c03ArgRefl(x.a) {
				return bad("C03:equals-irreflexive:nan-or-func-payload", "%s.Equals(%s) = false: the payload holds a NaN or a func; %s", x.n, x.n, canonJ(x.a))
			}
			return bad("C03:equals-irreflexive", "%s.Equals(%s) = false; %s=%s", x.n, x.n, x.n, canonJ(x.a))
		}
	}
	if same && r.FG != "tt" {
		if !c03ArgRefl(&op.F.A) {
			return bad("C03:equals-irreflexive:nan-or-func-payload", "fields built from equal inputs compare unequal: the payload holds a NaN or a func; %s", canonJ(op.F))
		}
		return bad("C03:equal-inputs-unequal", "fields built from equal inputs compare unequal: %s", canonJ(op.F))
	}
	return ok()
}
