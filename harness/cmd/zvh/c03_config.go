package main

import (
	"encoding/json"
	"sync"

	"go.uber.org/zap"
	"go.uber.org/zap/buffer"
	"go.uber.org/zap/zapcore"
)

// C03: the same value delivered through configuration plumbing — zap.Config.InitialFields (each entry becomes
// zap.Any(key, value) in Config.buildOptions and reaches the encoder through Logger/Core.With) — must arrive as the very
// same encoder call as zap.Any(key, value) made directly.

// c03CfgEnc is a zapcore.Encoder whose ObjectEncoder half records into a shared c03Rec (With-context goes to clones: all of
// them record into the same recorder).
type c03CfgEnc struct{ *c03Rec }

func (e c03CfgEnc) Clone() zapcore.Encoder { return e }
func (e c03CfgEnc) EncodeEntry(zapcore.Entry, []zapcore.Field) (*buffer.Buffer, error) {
	return buffer.NewPool().Get(), nil
}

var (
	c03CfgOnce sync.Once
	c03CfgMu   sync.Mutex
	c03CfgCur  *c03Rec
)

// c03ViaConfig builds a logger from a Config with InitialFields{key: val} over the recording encoder and returns the calls
// the encoder received for that field. ok=false: Build failed (nothing is asserted then).
func c03ViaConfig(key string, val any) (res c03Result, ok bool) {
	c03CfgOnce.Do(func() {
		must(zap.RegisterEncoder("zvrec-c03", func(zapcore.EncoderConfig) (zapcore.Encoder, error) {
			return c03CfgEnc{c03CfgCur}, nil
		}))
	})
	c03CfgMu.Lock()
	defer c03CfgMu.Unlock()
	rec := &c03Rec{}
	c03CfgCur = rec
	defer func() {
		if e := recover(); e != nil {
			res, ok = c03Result{Calls: rec.calls, Panic: true}, true
			if res.Calls == nil {
				res.Calls = []c03Call{}
			}
		}
	}()
	cfg := zap.Config{Level: zap.NewAtomicLevelAt(zapcore.DebugLevel), Encoding: "zvrec-c03", OutputPaths: []string{}, ErrorOutputPaths: []string{},
		InitialFields: map[string]interface{}{key: val}}
	if _, err := cfg.Build(); err != nil {
		return c03Result{}, false
	}
	if rec.calls == nil {
		rec.calls = []c03Call{}
	}
	return c03Result{Calls: rec.calls}, true
}

func c03SameCalls(a, b c03Result) bool {
	x, _ := json.Marshal(a)
	y, _ := json.Marshal(b)
	return string(x) == string(y)
}
