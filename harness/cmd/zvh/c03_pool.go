package main

// C03 — value pools: every opaque value the generated ops refer to (by index), with the attributes the Lean model
// needs (dynamic type, implemented interfaces, comparability, reflexivity, text), all computed with reflect / the
// standard library — never with zap.

import (
	"errors"
	"fmt"
	"math"
	"net"
	"reflect"
	"time"

	"go.uber.org/zap"
	"go.uber.org/zap/zapcore"
)

// ---- harness marshalers / stringers / errors (each carries its pool index so a recording encoder can name it)

type c03Obj struct{ id int } // comparable struct, value receiver

func (o c03Obj) MarshalLogObject(enc zapcore.ObjectEncoder) error { return c03Inline(enc, o) }

type c03ObjP struct{ id int } // used through *c03ObjP

func (o *c03ObjP) MarshalLogObject(enc zapcore.ObjectEncoder) error { return c03Inline(enc, o) }

type c03ObjMap map[string]int // uncomparable dynamic type

func (o c03ObjMap) MarshalLogObject(enc zapcore.ObjectEncoder) error { return c03Inline(enc, o) }

type c03ObjSlice []int // uncomparable dynamic type

func (o c03ObjSlice) MarshalLogObject(enc zapcore.ObjectEncoder) error { return c03Inline(enc, o) }

type c03ObjFunc struct { // uncomparable, and not DeepEqual to itself
	id int
	f  func()
}

func (o c03ObjFunc) MarshalLogObject(enc zapcore.ObjectEncoder) error { return c03Inline(enc, o) }

type c03ObjStr struct{ id int } // ObjectMarshaler that is also a Stringer and an error: Any must pick Object

func (o c03ObjStr) MarshalLogObject(enc zapcore.ObjectEncoder) error { return c03Inline(enc, o) }
func (o c03ObjStr) String() string                                   { return fmt.Sprintf("objstr%d", o.id) }
func (o c03ObjStr) Error() string                                    { return fmt.Sprintf("objerr%d", o.id) }

type c03ObjV struct{ id int } // for ObjectValues: pointer receiver on a value slice

func (o *c03ObjV) MarshalLogObject(enc zapcore.ObjectEncoder) error { return c03Inline(enc, o) }

type c03Arr struct{ id int }

func (a c03Arr) MarshalLogArray(enc zapcore.ArrayEncoder) error { return nil }

type c03ArrSlice []string // uncomparable

func (a c03ArrSlice) MarshalLogArray(enc zapcore.ArrayEncoder) error { return nil }

type c03ArrErr struct{ id int } // ArrayMarshaler that is also an error: Any must pick Array

func (a c03ArrErr) MarshalLogArray(enc zapcore.ArrayEncoder) error { return nil }
func (a c03ArrErr) Error() string                                  { return fmt.Sprintf("arrerr%d", a.id) }

type c03Str struct{ s string }

func (s c03Str) String() string { return s.s }

type c03StrP struct{ s string }

func (s *c03StrP) String() string { return s.s }

type c03StrNaN struct{ f float64 } // comparable type, value not equal to itself

func (s c03StrNaN) String() string { return "nan-stringer" }

type c03ErrStr struct{ s string } // error that is also a Stringer: Any must pick NamedError

func (e c03ErrStr) Error() string  { return "E:" + e.s }
func (e c03ErrStr) String() string { return "S:" + e.s }

type c03ErrSlice []string // uncomparable error

func (e c03ErrSlice) Error() string { return fmt.Sprint("errs", len(e)) }

type c03Plain struct { // none of the interfaces: Any must reflect
	A int
	B string
}

// c03Inline lets a recording encoder see `m.MarshalLogObject(enc)` invoked on itself (zap.Inline).
func c03Inline(enc zapcore.ObjectEncoder, m any) error {
	if r, ok := enc.(*c03Rec); ok {
		r.calls = append(r.calls, c03Call{M: "InlineObject", K: "", V: r.payload(m)})
	}
	return nil
}

// ---- the pool

type c03Item struct {
	v     any
	group string // typed sub-pool: c128 c64 bytes obj hobj hobjp hobjv arr str hstr err any fields
	noeq  bool   // not used in Equals ops (content-equal twin of another item, or deliberately excluded)
}

type c03Attr struct {
	I    int      `json:"i"`
	Dyn  string   `json:"dyn"`
	Impl []string `json:"impl"`
	Tok  int      `json:"tok"`
	Cmp  bool     `json:"cmp"`
	Refl bool     `json:"refl"`
	Text string   `json:"text"` // hex of String()/Error() (error wins when both exist and the value is used as an error)
	Etxt string   `json:"etxt"` // hex of Error()
	Num  string   `json:"num"`  // decimal value when the dynamic type is numeric (time.Duration among the Stringers)
}

var (
	c03Locs  []*time.Location
	c03Pool  []c03Item
	c03Attrs []c03Attr
	c03Group = map[string][]int{}
)

func c03TypeName(v any) string {
	if v == nil {
		return "nil"
	}
	s := reflect.TypeOf(v).String()
	switch s {
	case "[]uint8":
		return "[]byte"
	case "[]zapcore.Field":
		return "[]Field"
	}
	return s
}

func c03InitPools() {
	if c03Pool != nil {
		return
	}
	ny, err := time.LoadLocation("America/New_York")
	if err != nil {
		ny = time.FixedZone("EST", -5*3600)
	}
	kol, err := time.LoadLocation("Asia/Kolkata")
	if err != nil {
		kol = time.FixedZone("IST", 5*3600+1800)
	}
	c03Locs = []*time.Location{time.UTC, time.Local, time.FixedZone("E5", 5*3600), time.FixedZone("W0830", -(8*3600 + 1800)), ny,
		time.FixedZone("", 0), kol, time.FixedZone("UTC", 0)}

	add := func(group string, v any, noeq ...bool) {
		c03Pool = append(c03Pool, c03Item{v: v, group: group, noeq: len(noeq) > 0 && noeq[0]})
	}
	nan := math.NaN()
	// complex128
	for _, c := range []complex128{0, complex(1, 2), complex(nan, 0), complex(math.Copysign(0, -1), math.Inf(1)), complex(1e308, -1e-308),
		complex(math.Float64frombits(0x7ff0000000000001), 3)} {
		add("c128", c)
	}
	for _, c := range []complex64{0, complex(1, 2), complex(float32(nan), 0), complex(float32(math.Inf(-1)), 3.5)} {
		add("c64", c)
	}
	// []byte: nil, content, invalid UTF-8, large; empty-non-nil and an aliasing sub-slice are content twins (noeq)
	back := []byte("abcdef")
	big := make([]byte, 300)
	for i := range big {
		big[i] = byte(i)
	}
	add("bytes", []byte(nil))
	add("bytes", []byte("abc"))
	add("bytes", []byte{0xff, 0x00, '"', '\n'})
	add("bytes", big)
	add("bytes", []byte{}, true)
	add("bytes", back[1:4], true) // "bcd", shares its backing array
	add("bytes", back[:3:3], true)
	// ObjectMarshalers
	add("hobj", c03Obj{id: len(c03Pool)})
	add("hobj", c03Obj{id: len(c03Pool)})
	add("hobjp", &c03ObjP{id: len(c03Pool)})
	add("hobjp", &c03ObjP{id: len(c03Pool)})
	add("obj", c03ObjMap{"a": 1})
	add("obj", c03ObjMap{"b": 2})
	add("obj", c03ObjSlice{1, 2, 3})
	add("obj", c03ObjFunc{id: len(c03Pool), f: func() {}})
	add("obj", c03ObjStr{id: len(c03Pool)})
	add("obj", zap.DictObject(zap.Int("a", 1), zap.String("b", "x"))) // uncomparable zap.dictObject
	add("hobjv", c03ObjV{id: len(c03Pool)})
	add("hobjv", c03ObjV{id: len(c03Pool)})
	add("hobjv", c03ObjV{id: len(c03Pool)})
	// ArrayMarshalers
	add("arr", c03Arr{id: len(c03Pool)})
	add("arr", c03Arr{id: len(c03Pool)})
	add("arr", c03ArrSlice{"x", "y"})
	add("arr", c03ArrErr{id: len(c03Pool)})
	// Stringers
	add("hstr", c03Str{"alpha"})
	add("hstr", c03Str{"beta \"quoted\"\n"})
	add("hstr", c03Str{""})
	add("str", &c03StrP{"ptr-stringer"})
	add("str", net.IP{1, 2, 3, 4})
	add("str", net.IP{10, 0, 0, 1})
	add("str", c03StrNaN{nan})
	add("str", time.Duration(1500)) // a Stringer that Any must NOT treat as one
	// errors
	add("err", errors.New("boom"))
	add("err", errors.New("bang \xff"))
	add("err", c03ErrStr{"both"})
	add("err", c03ErrSlice{"a", "b"})
	// anything else → Reflect
	add("any", c03Plain{1, "x"})
	add("any", &c03Plain{2, "y"})
	add("any", map[string]int{"k": 1})
	add("any", []any{1, "x"})
	add("any", struct{ F float64 }{nan})
	add("any", func() {})
	add("any", struct{}{})
	add("any", [2]int8{1, 2})
	// []Field
	add("fields", []zap.Field{zap.Int("a", 1), zap.String("b", "c")})
	add("fields", []zap.Field{})
	add("fields", []zap.Field(nil), true)
	add("fields", []zap.Field{zap.Float64("f", nan)})

	for i, it := range c03Pool {
		a := c03Attr{I: i, Dyn: c03TypeName(it.v), Impl: []string{}}
		if _, ok := it.v.(zapcore.ObjectMarshaler); ok {
			a.Impl = append(a.Impl, "zapcore.ObjectMarshaler")
		}
		if _, ok := it.v.(zapcore.ArrayMarshaler); ok {
			a.Impl = append(a.Impl, "zapcore.ArrayMarshaler")
		}
		if e, ok := it.v.(error); ok {
			a.Impl = append(a.Impl, "error")
			a.Etxt = hx([]byte(e.Error()))
		}
		if s, ok := it.v.(fmt.Stringer); ok {
			a.Impl = append(a.Impl, "fmt.Stringer")
			a.Text = hx([]byte(s.String()))
		}
		if d, ok := it.v.(time.Duration); ok {
			a.Num = fmt.Sprint(int64(d))
		}
		a.Cmp = reflect.TypeOf(it.v).Comparable()
		a.Refl = reflect.DeepEqual(it.v, it.v)
		a.Tok = i
		for j := 0; j < i; j++ {
			if c03Attrs[j].Dyn == a.Dyn && c03Attrs[j].Refl && a.Refl && reflect.DeepEqual(c03Pool[j].v, it.v) {
				a.Tok = c03Attrs[j].Tok
				break
			}
		}
		c03Attrs = append(c03Attrs, a)
		c03Group[it.group] = append(c03Group[it.group], i)
	}
}

// c03Identical: the two values are the same Go value as far as an observer without mutation can tell — same dynamic
// type, same bits for numbers (NaN payloads included), same pointer/len for slices, same pointer for maps, pointers, funcs.
func c03Identical(a, b any) bool {
	if a == nil || b == nil {
		return a == nil && b == nil
	}
	va, vb := reflect.ValueOf(a), reflect.ValueOf(b)
	if va.Type() != vb.Type() {
		return false
	}
	return c03IdentV(va, vb)
}

func c03IdentV(a, b reflect.Value) bool {
	switch a.Kind() {
	case reflect.Float32, reflect.Float64:
		return math.Float64bits(a.Float()) == math.Float64bits(b.Float())
	case reflect.Complex64, reflect.Complex128:
		x, y := a.Complex(), b.Complex()
		return math.Float64bits(real(x)) == math.Float64bits(real(y)) && math.Float64bits(imag(x)) == math.Float64bits(imag(y))
	case reflect.Slice:
		if a.IsNil() || b.IsNil() {
			return a.IsNil() && b.IsNil()
		}
		return a.Pointer() == b.Pointer() && a.Len() == b.Len() && a.Cap() == b.Cap()
	case reflect.Map, reflect.Pointer, reflect.Func, reflect.Chan, reflect.UnsafePointer:
		return a.Pointer() == b.Pointer()
	case reflect.Struct:
		for i := 0; i < a.NumField(); i++ {
			if !c03IdentV(a.Field(i), b.Field(i)) {
				return false
			}
		}
		return true
	case reflect.Array:
		for i := 0; i < a.Len(); i++ {
			if !c03IdentV(a.Index(i), b.Index(i)) {
				return false
			}
		}
		return true
	case reflect.Interface:
		if a.IsNil() || b.IsNil() {
			return a.IsNil() && b.IsNil()
		}
		return a.Elem().Type() == b.Elem().Type() && c03IdentV(a.Elem(), b.Elem())
	case reflect.Bool:
		return a.Bool() == b.Bool()
	case reflect.String:
		return a.String() == b.String()
	case reflect.Int, reflect.Int8, reflect.Int16, reflect.Int32, reflect.Int64:
		return a.Int() == b.Int()
	case reflect.Uint, reflect.Uint8, reflect.Uint16, reflect.Uint32, reflect.Uint64, reflect.Uintptr:
		return a.Uint() == b.Uint()
	}
	return false
}

// c03Find returns the pool index of a value, or -1.
func c03Find(v any) int {
	for i, it := range c03Pool {
		if c03Identical(it.v, v) {
			return i
		}
	}
	return -1
}
