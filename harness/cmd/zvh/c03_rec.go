package main

// C03 — the recording ObjectEncoder / ArrayEncoder: every call is stored as (method, key, exact value): integers as
// decimal text, floats as their IEEE bit pattern, times as (ns since the epoch, index of the *time.Location pointer),
// opaque values as their pool index.

import (
	"fmt"
	"math"
	"math/big"
	"reflect"
	"strings"
	"time"

	"go.uber.org/zap/zapcore"
)

// c03Val is the canonical form of one value (exactly one member set; an absent value is the empty object).
type c03Val struct {
	N   *string    `json:"n,omitempty"`   // integer / float bits, decimal
	B   *bool      `json:"b,omitempty"`   // bool
	S   *string    `json:"s,omitempty"`   // string / bytes, hex
	T   *c03Time   `json:"t,omitempty"`   // time
	X   *int       `json:"x,omitempty"`   // pool index of an opaque value (-1: not a pool value)
	Dyn string     `json:"dyn,omitempty"` // dynamic type of an opaque value / array wrapper
	Arr *[]c03Elem `json:"arr,omitempty"` // the element calls of one of zap's own array wrappers
	Nil bool       `json:"nil,omitempty"` // nil interface
}

type c03Time struct {
	NS  string `json:"ns"`
	Loc int    `json:"loc"`
}

type c03Elem struct {
	M string `json:"m"`
	V c03Val `json:"v"`
}

type c03Call struct {
	M string `json:"m"`
	K string `json:"k"` // key, hex
	V c03Val `json:"v"`
}

func c03N(s string) c03Val  { return c03Val{N: &s} }
func c03Bv(b bool) c03Val   { return c03Val{B: &b} }
func c03Sv(s string) c03Val { h := hx([]byte(s)); return c03Val{S: &h} }

func c03TimeVal(t time.Time) c03Val {
	ns := new(big.Int).Mul(big.NewInt(t.Unix()), big.NewInt(1e9))
	ns.Add(ns, big.NewInt(int64(t.Nanosecond())))
	loc := -1
	for i, l := range c03Locs {
		if l == t.Location() {
			loc = i
			break
		}
	}
	return c03Val{T: &c03Time{NS: ns.String(), Loc: loc}}
}

type c03Rec struct {
	calls []c03Call
}

// payload canonicalises an opaque value handed to the encoder.
func (r *c03Rec) payload(v any) c03Val {
	if v == nil {
		return c03Val{Nil: true}
	}
	if p, ok := v.(*c03ObjV); ok && p != nil {
		i := p.id
		return c03Val{X: &i, Dyn: "main.c03ObjV"}
	}
	i := c03Find(v)
	dyn := c03TypeName(v)
	if i < 0 {
		// zap's dictObject is the []Field it was converted from
		rv := reflect.ValueOf(v)
		if dyn == "zap.dictObject" && rv.Kind() == reflect.Slice {
			for j, it := range c03Pool {
				if it.group != "fields" {
					continue
				}
				pv := reflect.ValueOf(it.v)
				if pv.IsNil() == rv.IsNil() && pv.Len() == rv.Len() && (rv.IsNil() || pv.Pointer() == rv.Pointer()) {
					i = j
					break
				}
			}
		}
	}
	return c03Val{X: &i, Dyn: dyn}
}

func (r *c03Rec) add(m, k string, v c03Val) {
	r.calls = append(r.calls, c03Call{M: m, K: hx([]byte(k)), V: v})
}

func (r *c03Rec) AddArray(k string, m zapcore.ArrayMarshaler) error {
	if m != nil && strings.HasPrefix(reflect.TypeOf(m).String(), "zap") {
		// one of zap's (or zapfield's) slice wrappers: what matters is what it emits
		ar := &c03ArrRec{}
		err := m.MarshalLogArray(ar)
		dyn := reflect.TypeOf(m).String()
		if i := strings.IndexByte(dyn, '['); i >= 0 {
			dyn = dyn[:i]
		}
		elems := ar.elems
		if elems == nil {
			elems = []c03Elem{}
		}
		r.add("AddArray", k, c03Val{Arr: &elems, Dyn: dyn})
		return err
	}
	r.add("AddArray", k, r.payload(m))
	return nil
}
func (r *c03Rec) AddObject(k string, m zapcore.ObjectMarshaler) error {
	r.add("AddObject", k, r.payload(m))
	return nil
}
func (r *c03Rec) AddBinary(k string, v []byte)     { r.add("AddBinary", k, r.payload(v)) }
func (r *c03Rec) AddByteString(k string, v []byte) { r.add("AddByteString", k, r.payload(v)) }
func (r *c03Rec) AddBool(k string, v bool)         { r.add("AddBool", k, c03Bv(v)) }
func (r *c03Rec) AddComplex128(k string, v complex128) {
	r.add("AddComplex128", k, r.payload(v))
}
func (r *c03Rec) AddComplex64(k string, v complex64) { r.add("AddComplex64", k, r.payload(v)) }
func (r *c03Rec) AddDuration(k string, v time.Duration) {
	r.add("AddDuration", k, c03N(fmt.Sprint(int64(v))))
}
func (r *c03Rec) AddFloat64(k string, v float64) {
	r.add("AddFloat64", k, c03N(fmt.Sprint(math.Float64bits(v))))
}
func (r *c03Rec) AddFloat32(k string, v float32) {
	r.add("AddFloat32", k, c03N(fmt.Sprint(math.Float32bits(v))))
}
func (r *c03Rec) AddInt(k string, v int)         { r.add("AddInt", k, c03N(fmt.Sprint(v))) }
func (r *c03Rec) AddInt64(k string, v int64)     { r.add("AddInt64", k, c03N(fmt.Sprint(v))) }
func (r *c03Rec) AddInt32(k string, v int32)     { r.add("AddInt32", k, c03N(fmt.Sprint(v))) }
func (r *c03Rec) AddInt16(k string, v int16)     { r.add("AddInt16", k, c03N(fmt.Sprint(v))) }
func (r *c03Rec) AddInt8(k string, v int8)       { r.add("AddInt8", k, c03N(fmt.Sprint(v))) }
func (r *c03Rec) AddString(k, v string)          { r.add("AddString", k, c03Sv(v)) }
func (r *c03Rec) AddTime(k string, v time.Time)  { r.add("AddTime", k, c03TimeVal(v)) }
func (r *c03Rec) AddUint(k string, v uint)       { r.add("AddUint", k, c03N(fmt.Sprint(v))) }
func (r *c03Rec) AddUint64(k string, v uint64)   { r.add("AddUint64", k, c03N(fmt.Sprint(v))) }
func (r *c03Rec) AddUint32(k string, v uint32)   { r.add("AddUint32", k, c03N(fmt.Sprint(v))) }
func (r *c03Rec) AddUint16(k string, v uint16)   { r.add("AddUint16", k, c03N(fmt.Sprint(v))) }
func (r *c03Rec) AddUint8(k string, v uint8)     { r.add("AddUint8", k, c03N(fmt.Sprint(v))) }
func (r *c03Rec) AddUintptr(k string, v uintptr) { r.add("AddUintptr", k, c03N(fmt.Sprint(uint64(v)))) }
func (r *c03Rec) AddReflected(k string, v interface{}) error {
	r.add("AddReflected", k, r.payload(v))
	return nil
}
func (r *c03Rec) OpenNamespace(k string) { r.add("OpenNamespace", k, c03Val{}) }

type c03ArrRec struct {
	elems []c03Elem
}

func (a *c03ArrRec) add(m string, v c03Val) { a.elems = append(a.elems, c03Elem{M: m, V: v}) }

func (a *c03ArrRec) tokOf(v any) c03Val {
	var r c03Rec
	p := r.payload(v)
	return c03Val{X: p.X}
}

func (a *c03ArrRec) AppendArray(m zapcore.ArrayMarshaler) error {
	a.add("AppendArray", a.tokOf(m))
	return nil
}
func (a *c03ArrRec) AppendObject(m zapcore.ObjectMarshaler) error {
	if m != nil && reflect.TypeOf(m).String() == "*zap.errArrayElem" {
		// the pooled element object of zap.Errors: identify the error it wraps by what it logs
		var sub c03Rec
		_ = m.MarshalLogObject(&sub)
		i := -1
		if len(sub.calls) == 1 && sub.calls[0].M == "AddString" && sub.calls[0].V.S != nil {
			for j, at := range c03Attrs {
				if c03Pool[j].group == "err" && at.Etxt == *sub.calls[0].V.S {
					i = j
				}
			}
		}
		a.add("AppendObject", c03Val{X: &i})
		return nil
	}
	a.add("AppendObject", a.tokOf(m))
	return nil
}
func (a *c03ArrRec) AppendReflected(v interface{}) error {
	a.add("AppendReflected", a.tokOf(v))
	return nil
}
func (a *c03ArrRec) AppendBool(v bool)             { a.add("AppendBool", c03Bv(v)) }
func (a *c03ArrRec) AppendByteString(v []byte)     { a.add("AppendByteString", a.tokOf(v)) }
func (a *c03ArrRec) AppendComplex128(v complex128) { a.add("AppendComplex128", a.tokOf(v)) }
func (a *c03ArrRec) AppendComplex64(v complex64)   { a.add("AppendComplex64", a.tokOf(v)) }
func (a *c03ArrRec) AppendDuration(v time.Duration) {
	a.add("AppendDuration", c03N(fmt.Sprint(int64(v))))
}
func (a *c03ArrRec) AppendFloat64(v float64) {
	a.add("AppendFloat64", c03N(fmt.Sprint(math.Float64bits(v))))
}
func (a *c03ArrRec) AppendFloat32(v float32) {
	a.add("AppendFloat32", c03N(fmt.Sprint(math.Float32bits(v))))
}
func (a *c03ArrRec) AppendInt(v int)         { a.add("AppendInt", c03N(fmt.Sprint(v))) }
func (a *c03ArrRec) AppendInt64(v int64)     { a.add("AppendInt64", c03N(fmt.Sprint(v))) }
func (a *c03ArrRec) AppendInt32(v int32)     { a.add("AppendInt32", c03N(fmt.Sprint(v))) }
func (a *c03ArrRec) AppendInt16(v int16)     { a.add("AppendInt16", c03N(fmt.Sprint(v))) }
func (a *c03ArrRec) AppendInt8(v int8)       { a.add("AppendInt8", c03N(fmt.Sprint(v))) }
func (a *c03ArrRec) AppendString(v string)   { a.add("AppendString", c03Sv(v)) }
func (a *c03ArrRec) AppendTime(v time.Time)  { a.add("AppendTime", c03TimeVal(v)) }
func (a *c03ArrRec) AppendUint(v uint)       { a.add("AppendUint", c03N(fmt.Sprint(v))) }
func (a *c03ArrRec) AppendUint64(v uint64)   { a.add("AppendUint64", c03N(fmt.Sprint(v))) }
func (a *c03ArrRec) AppendUint32(v uint32)   { a.add("AppendUint32", c03N(fmt.Sprint(v))) }
func (a *c03ArrRec) AppendUint16(v uint16)   { a.add("AppendUint16", c03N(fmt.Sprint(v))) }
func (a *c03ArrRec) AppendUint8(v uint8)     { a.add("AppendUint8", c03N(fmt.Sprint(v))) }
func (a *c03ArrRec) AppendUintptr(v uintptr) { a.add("AppendUintptr", c03N(fmt.Sprint(uint64(v)))) }
