package main

import (
	"bytes"
	"context"
	"encoding/json"
	"errors"
	"fmt"
	"log/slog"
	"net/url"
	"os"
	"path/filepath"
	"reflect"
	"runtime"
	"sort"
	"strings"
	"sync"
	"sync/atomic"
	"time"

	"go.uber.org/zap"
	"go.uber.org/zap/exp/zapslog"
	"go.uber.org/zap/zapcore"
	"go.uber.org/zap/zapgrpc"
	"go.uber.org/zap/zapio"
)

// C04 — concurrent logging delivers every entry exactly once as an intact line.
//
// op {"k":"prog","cfg":{…},"gs":[[act,…],…]}
//     a concurrent program: len(gs) goroutines log through loggers sharing one core = tee of cfg.br branches (each an
//     ioCore with its own encoder and minimum level over a sink: lock | open | openfile | open2 | combine | bws |
//     bwslock | bwsopen), optionally under a sampler. Acts: log (front end fe, level, message size, logger variant),
//     with / child (switch the goroutine's logger to a With-derived one), sync (Logger.Sync), bwssync, tick (one tick
//     of the BufferedWriteSyncer's clock), yield. After the join: Logger.Sync, Stop of every BufferedWriteSyncer,
//     files closed — only then the sinks are judged.
//   → impl {"panics":0,"timeout":false,"sinks":[{"b":branch,"j":sink,"n":lines,"ok":true,"lean":true},…]}
//     n = number of lines the sink received (-1 with a sampler: schedule dependent); ok = verdict of the Go merge
//     oracle; lean = verdict of the compiled Lean predicate (validMerge / validCalls / isMerge) on the SAME recorded
//     bytes and expected lines (the harness pipes them to zvdrv as "hist" ops).
// op {"k":"hist","mode":"stream"|"calls"|"lines","per":[[hex line,…],…],"calls":[hex,…]}
//     a stored or synthetic history, judged by the Go merge oracle → impl {"valid":bool}; the model side runs the Lean
//     predicate on it (this is where the rejecting side of the predicates is exercised: torn, lost, duplicated,
//     reordered, merged lines, lines split over two sink writes).
//
// Expected lines are computed independently: every goroutine's program is replayed alone, sequentially, on a fresh
// logger of the same configuration over private buffers (no sampler), one entry at a time. Which entries a sampler
// admitted is observed by an extra recording core inside the sampler. Recording sinks are deliberately
// unsynchronised (only zap's own locking protects them) and yield in the middle of a Write.
// The harness is built with -race: a race report kills the process; lib/zv.py reports it as C04:data-race.

type c04Branch struct {
	Sink string `json:"sink"`
	Size int    `json:"size"`
	Enc  string `json:"enc"`
	Min  int    `json:"min"`
}

type c04Cfg struct {
	Br       []c04Branch `json:"br"`
	Sampler  bool        `json:"sampler"`
	Children int         `json:"children"`
	Named    bool        `json:"named"`
	Caller   bool        `json:"caller"`
	Gomax    int         `json:"gomax"`
	Gosched  int         `json:"gosched"`
	SafeRec  bool        `json:"saferec"`
	// SyncErr: every recording sink's Sync reports an error after doing its work (a terminal or pipe answering EINVAL): the
	// error must not keep Logger.Sync from reaching the other branches
	SyncErr bool `json:"syncerr,omitempty"`
	// Tmpl: a shared logger that is only ever used as a template (never logged through): "" (the base logger) | with |
	// lazy (WithLazy with a field slice that has spare capacity) | sugarlazy (Sugar().WithLazy(…).Desugar()) | lazylazy
	Tmpl string `json:"tmpl,omitempty"`
	// Loggers > 1: that many loggers are built from this configuration; goroutine g logs through logger g % Loggers.
	//   Share=false: every logger has its own cores and sinks (sink kind "reopen": all of them open the SAME registered
	//                URL, whose factory returns a fresh recorder per call — each recorder must see its own logger only);
	//   Share=true:  the tees of all loggers are built from ONE caller-owned []zapcore.Core (same cores, same sinks).
	// Via="config": the loggers are built by zap.Config.Build (one output path: the reopened URL; branch 0 gives encoder
	//                and level).  Nops: positions at which zapcore.NewNopCore() is inserted into the core slice.
	Loggers int    `json:"loggers,omitempty"`
	Share   bool   `json:"share,omitempty"`
	Via     string `json:"via,omitempty"`
	Nops    []int  `json:"nops,omitempty"`
}

func (c *c04Cfg) nLoggers() int {
	if c.Loggers > 1 {
		return c.Loggers
	}
	return 1
}

func (c *c04Cfg) nBranches() int {
	if c.Via == "config" {
		return 1
	}
	return len(c.Br)
}

// effBranches: the number of distinct (logger, branch) destinations; destination index = k*branches + b, or b when the
// loggers share their cores.
func (c *c04Cfg) effBranches() int {
	if c.Share {
		return c.nBranches()
	}
	return c.nLoggers() * c.nBranches()
}

func (c *c04Cfg) branchOf(eb int) c04Branch {
	if len(c.Br) == 0 {
		return c04Branch{Sink: "lock", Enc: "json", Min: -1}
	}
	return c.Br[eb%c.nBranches()%len(c.Br)]
}

type c04Act struct {
	A     string `json:"a"`
	Fe    string `json:"fe"`
	Lvl   int    `json:"lvl"`
	Sz    int    `json:"sz"`
	Child int    `json:"child"`
	B     int    `json:"b"`
	// P: the entry carries an extra "poison" field whose encoding fails inside zap (front ends that take fields):
	// reflect | any | reflectnest | marshalerr | stringer | error
	P string `json:"p,omitempty"`
}

type c04Op struct {
	K     string     `json:"k"`
	Cfg   c04Cfg     `json:"cfg"`
	Gs    [][]c04Act `json:"gs"`
	Mode  string     `json:"mode"`
	Per   [][]string `json:"per"`
	Calls []string   `json:"calls"`
}

// c04Prog is the emitted form of a program op (c04Op is the union the executor parses).
type c04Prog struct {
	K   string     `json:"k"`
	Cfg c04Cfg     `json:"cfg"`
	Gs  [][]c04Act `json:"gs"`
}

func init() {
	props["C04"] = &Prop{Gen: c04Gen, Exec: c04Exec}
	_ = zap.RegisterSink("c04rec", func(u *url.URL) (zap.Sink, error) {
		c04RegMu.Lock()
		defer c04RegMu.Unlock()
		if fr := c04Fresh[u.Host]; fr != nil { // "reopen": a FRESH recorder for every call
			r := &c04Rec{gosched: fr.gosched, syncErr: fr.syncErr, atLogSync: -1}
			if fr.safe {
				r.safe = &sync.Mutex{}
			}
			fr.recs = append(fr.recs, r)
			return c04RecSink{r}, nil
		}
		if b := c04OBuf[u.Host]; b != nil { // reference world built through zap.Config
			return c04BufSink{b}, nil
		}
		r := c04Reg[u.Host]
		if r == nil {
			return nil, fmt.Errorf("no recorder %q", u.Host)
		}
		return c04RecSink{r}, nil
	})
}

type c04FreshSet struct {
	gosched int
	safe    bool
	syncErr bool
	recs    []*c04Rec
}

type c04BufSink struct{ b *bytes.Buffer }

func (s c04BufSink) Write(p []byte) (int, error) { return s.b.Write(p) }
func (c04BufSink) Sync() error                   { return nil }
func (c04BufSink) Close() error                  { return nil }

var (
	c04Fresh = map[string]*c04FreshSet{} // guarded by c04RegMu
	c04OBuf  = map[string]*bytes.Buffer{}
)

var (
	c04RegMu  sync.Mutex
	c04Reg    = map[string]*c04Rec{}
	c04RegSeq int
	c04Dir    string
)

// ---------------------------------------------------------------- recording sinks

// c04Rec records every Write call. NOT synchronised: a missing lock in zap is a race report on these fields.
// The stream is appended in two halves with a yield in between, and the call is copied before: a line changing under
// the sink's feet (buffer reused too early) or two unserialised writes show up as a torn stream.
type c04Rec struct {
	calls     [][]byte
	stream    []byte
	syncs     int
	atSync    int
	n         int
	gosched   int
	syncErr   bool
	atLogSync int         // len(stream) when the final Logger.Sync had returned (-1: not taken)
	safe      *sync.Mutex // non-nil: the recorder serialises its own field accesses (not the Write as a whole), so that
	// unserialised Writes are observed as a torn stream instead of ending the process with a race report
}

func (r *c04Rec) Write(p []byte) (int, error) {
	if r.safe != nil {
		r.safe.Lock()
		r.n++
		n := r.n
		r.calls = append(r.calls, append([]byte(nil), p...))
		h := len(p) / 2
		r.stream = append(r.stream, p[:h]...)
		r.safe.Unlock()
		if r.gosched > 0 && n%r.gosched == 0 {
			runtime.Gosched()
		}
		r.safe.Lock()
		r.stream = append(r.stream, p[h:]...)
		r.safe.Unlock()
		return len(p), nil
	}
	r.n++
	r.calls = append(r.calls, append([]byte(nil), p...))
	h := len(p) / 2
	r.stream = append(r.stream, p[:h]...)
	if r.gosched > 0 && r.n%r.gosched == 0 {
		runtime.Gosched()
	}
	r.stream = append(r.stream, p[h:]...)
	return len(p), nil
}

func (r *c04Rec) Sync() error {
	if r.safe != nil {
		r.safe.Lock()
		defer r.safe.Unlock()
	}
	r.syncs++
	r.atSync = r.n // an unserialised Sync next to a Write is a race on n
	if r.syncErr {
		return errors.New("sync: invalid argument")
	}
	return nil
}

type c04RecSink struct{ *c04Rec }

func (c04RecSink) Close() error { return nil }

// c04Clock: fixed time for the entries, hand-driven ticker for a BufferedWriteSyncer.
type c04Clock struct{ ch chan time.Time }

var c04Time = time.Date(2024, 3, 9, 11, 22, 33, 456789000, time.UTC)

func (c *c04Clock) Now() time.Time { return c04Time }
func (c *c04Clock) NewTicker(time.Duration) *time.Ticker {
	return &time.Ticker{C: c.ch}
}

// c04Seen is the recording core: enabled for everything, placed inside the sampler next to the ioCores; it notes
// which entries (by the id that starts the message) reached the cores at all.
type c04Seen struct {
	mu  *sync.Mutex
	ids map[string]int
}

func (c c04Seen) Enabled(zapcore.Level) bool        { return true }
func (c c04Seen) With([]zapcore.Field) zapcore.Core { return c }
func (c c04Seen) Sync() error                       { return nil }
func (c c04Seen) Check(e zapcore.Entry, ce *zapcore.CheckedEntry) *zapcore.CheckedEntry {
	return ce.AddCore(e, c)
}
func (c c04Seen) Write(e zapcore.Entry, _ []zapcore.Field) error {
	id := e.Message
	if i := strings.IndexByte(id, ' '); i >= 0 {
		id = id[:i]
	}
	c.mu.Lock()
	c.ids[id]++
	c.mu.Unlock()
	return nil
}

// ---------------------------------------------------------------- world

type c04SinkRef struct {
	b, j int
	rec  *c04Rec // nil for a file
	file string
	mode string // lines (Lock: one call per line) | calls (buffered: whole lines per call) | stream (file)
	twin int    // index of the sink that must have received the identical calls (-1: none)
}

type c04World struct {
	recNames  []string
	bases     []*zap.Logger   // one per logger of the configuration
	children  [][]*zap.Logger // per logger
	tmpls     []*zap.Logger   // per logger
	coreSlice []zapcore.Core  // Share: the caller-owned slice all tees were built from …
	coreWant  []zapcore.Core  // … and what it held before the first NewTee
	sinks     []*c04SinkRef
	bws       []*zapcore.BufferedWriteSyncer
	clocks    []*c04Clock
	closers   []func()
	seen      c04Seen
	errOut    *c04Rec
	panics    atomic.Int64
	firstP    atomic.Value
	oracleBuf []*bytes.Buffer // oracle world only: one private buffer per branch
}

func c04EncCfg(kind string) (zapcore.EncoderConfig, string) {
	cfg := zap.NewProductionEncoderConfig()
	switch kind {
	case "console":
		cfg.EncodeTime = zapcore.ISO8601TimeEncoder
		return cfg, "console"
	case "json2":
		cfg.TimeKey, cfg.MessageKey, cfg.LevelKey = "time", "message", "severity"
		cfg.EncodeTime = zapcore.RFC3339NanoTimeEncoder
		cfg.EncodeLevel = zapcore.CapitalLevelEncoder
	}
	return cfg, "json"
}

func c04Encoder(kind string) zapcore.Encoder {
	cfg, name := c04EncCfg(kind)
	if name == "console" {
		return zapcore.NewConsoleEncoder(cfg)
	}
	return zapcore.NewJSONEncoder(cfg)
}

func c04NewRec(gosched int, safe bool) (*c04Rec, string) {
	r := &c04Rec{gosched: gosched}
	if safe {
		r.safe = &sync.Mutex{}
	}
	c04RegMu.Lock()
	c04RegSeq++
	name := fmt.Sprintf("r%d", c04RegSeq)
	c04Reg[name] = r
	c04RegMu.Unlock()
	return r, name
}

func c04TempFile() string {
	c04RegMu.Lock()
	defer c04RegMu.Unlock()
	if c04Dir == "" {
		// a harness process killed by a race report cannot clean up: sweep what such processes left behind
		if old, err := filepath.Glob(filepath.Join(os.TempDir(), "zvh-c04-*")); err == nil {
			for _, o := range old {
				if st, err := os.Stat(o); err == nil && st.IsDir() && time.Since(st.ModTime()) > 15*time.Minute {
					_ = os.RemoveAll(o)
				}
			}
		}
		d, err := os.MkdirTemp("", "zvh-c04-")
		must(err)
		c04Dir = d
	}
	c04RegSeq++
	return filepath.Join(c04Dir, fmt.Sprintf("f%d.log", c04RegSeq))
}

// c04Build builds the real world (oracle=false) or the sequential reference world over private buffers.
func c04Build(cfg *c04Cfg, oracle bool) *c04World {
	w := &c04World{seen: c04Seen{mu: &sync.Mutex{}, ids: map[string]int{}}, errOut: &c04Rec{}}
	// the URL every "reopen" sink (and every zap.Config-built logger) of this world opens
	c04RegMu.Lock()
	c04RegSeq++
	freshHost := fmt.Sprintf("fresh%d", c04RegSeq)
	fresh := &c04FreshSet{gosched: cfg.Gosched, safe: cfg.SafeRec, syncErr: cfg.SyncErr}
	if !oracle {
		c04Fresh[freshHost] = fresh
		w.recNames = append(w.recNames, freshHost)
	}
	c04RegMu.Unlock()
	// reopen opens the shared URL once more and returns what zap hands out, plus the recorder the factory created for
	// this call (an unattached, forever empty recorder when the factory was not called again)
	reopen := func(do func(url string) zapcore.WriteSyncer) (zapcore.WriteSyncer, *c04Rec) {
		c04RegMu.Lock()
		before := len(fresh.recs)
		c04RegMu.Unlock()
		ws := do("c04rec://" + freshHost)
		c04RegMu.Lock()
		defer c04RegMu.Unlock()
		if len(fresh.recs) == before+1 {
			return ws, fresh.recs[before]
		}
		return ws, &c04Rec{atLogSync: -1}
	}
	nB := cfg.nBranches()
	buildCores := func(k int) []zapcore.Core {
		var cores []zapcore.Core
		for b, br := range cfg.Br {
			eb := b
			if !cfg.Share {
				eb = k*nB + b
			}
			enc := c04Encoder(br.Enc)
			var ws zapcore.WriteSyncer
			if oracle {
				buf := &bytes.Buffer{}
				w.oracleBuf = append(w.oracleBuf, buf)
				ws = zapcore.AddSync(buf)
			} else {
				newRec := func(gosched int) (*c04Rec, string) {
					rec, name := c04NewRec(gosched, cfg.SafeRec)
					rec.syncErr = cfg.SyncErr
					rec.atLogSync = -1
					w.recNames = append(w.recNames, name)
					return rec, name
				}
				add := func(rec *c04Rec, file, mode string, twin int) {
					w.sinks = append(w.sinks, &c04SinkRef{b: eb, j: len(w.sinks), rec: rec, file: file, mode: mode, twin: twin})
				}
				open := func(paths ...string) zapcore.WriteSyncer {
					o, closeAll, err := zap.Open(paths...)
					must(err)
					w.closers = append(w.closers, closeAll)
					return o
				}
				newBws := func(under zapcore.WriteSyncer) zapcore.WriteSyncer {
					clk := &c04Clock{ch: make(chan time.Time, 1)}
					s := &zapcore.BufferedWriteSyncer{WS: under, Size: br.Size, FlushInterval: time.Hour, Clock: clk}
					w.bws = append(w.bws, s)
					w.clocks = append(w.clocks, clk)
					return s
				}
				switch br.Sink {
				case "reopen":
					var rec *c04Rec
					ws, rec = reopen(func(url string) zapcore.WriteSyncer { return open(url) })
					add(rec, "", "lines", -1)
				case "open":
					rec, name := newRec(cfg.Gosched)
					add(rec, "", "lines", -1)
					ws = open("c04rec://" + name)
				case "openfile":
					f := c04TempFile()
					add(nil, f, "stream", -1)
					ws = open(f)
				case "open2":
					f := c04TempFile()
					rec, name := newRec(cfg.Gosched)
					add(nil, f, "stream", -1)
					add(rec, "", "lines", -1)
					ws = open(f, "c04rec://"+name)
				case "combine":
					r1, _ := newRec(cfg.Gosched)
					r2, _ := newRec(0)
					add(r1, "", "lines", -1)
					add(r2, "", "lines", len(w.sinks)-1)
					ws = zap.CombineWriteSyncers(r1, r2)
				case "bws":
					rec, _ := newRec(cfg.Gosched)
					add(rec, "", "calls", -1)
					ws = newBws(rec)
				case "bwslock":
					rec, _ := newRec(cfg.Gosched)
					add(rec, "", "calls", -1)
					ws = newBws(zapcore.Lock(rec))
				case "bwsopen":
					rec, name := newRec(cfg.Gosched)
					add(rec, "", "calls", -1)
					ws = newBws(open("c04rec://" + name))
				default: // "lock"
					rec, _ := newRec(cfg.Gosched)
					add(rec, "", "lines", -1)
					ws = zapcore.Lock(rec)
				}
			}
			cores = append(cores, zapcore.NewCore(enc, ws, zapcore.Level(br.Min)))
		}
		if !oracle {
			cores = append(cores, w.seen)
		}
		// optional outputs that are switched off
		for _, at := range cfg.Nops {
			if at < 0 {
				at = 0
			}
			if at > len(cores) {
				at = len(cores)
			}
			cores = append(cores[:at:at], append([]zapcore.Core{zapcore.NewNopCore()}, cores[at:]...)...)
		}
		return cores
	}
	wrap := func(core zapcore.Core) zapcore.Core {
		if cfg.Sampler && !oracle {
			core = zapcore.NewSamplerWithOptions(core, time.Hour, 1, 3)
		}
		return core
	}
	var shared []zapcore.Core
	for k := 0; k < cfg.nLoggers(); k++ {
		var base *zap.Logger
		if cfg.Via == "config" {
			base = c04ViaConfig(w, cfg, k, oracle, reopen, wrap)
		} else {
			var core zapcore.Core
			switch {
			case cfg.Share && oracle:
				// the reference world never reuses a slice: a fresh one per tee
				if shared == nil {
					shared = buildCores(0)
				}
				core = zapcore.NewTee(append([]zapcore.Core(nil), shared...)...)
			case cfg.Share:
				if shared == nil {
					shared = buildCores(0)
					w.coreSlice, w.coreWant = shared, append([]zapcore.Core(nil), shared...)
				}
				core = zapcore.NewTee(shared...) // the caller-owned slice, passed again for every logger
			default:
				core = zapcore.NewTee(buildCores(k)...)
			}
			opts := []zap.Option{zap.WithClock(&c04Clock{}), zap.ErrorOutput(zapcore.Lock(w.errOut))}
			if cfg.Caller {
				opts = append(opts, zap.AddCaller())
			}
			base = zap.New(wrap(core), opts...)
		}
		if cfg.Named {
			base = base.Named("svc")
		}
		if cfg.nLoggers() > 1 {
			base = base.With(zap.Int("comp", k))
		}
		var ch []*zap.Logger
		for c := 0; c < cfg.Children; c++ {
			ch = append(ch, base.With(zap.Int("child", c), zap.String("tag", strings.Repeat("c", c*7))))
		}
		w.bases = append(w.bases, base)
		w.children = append(w.children, ch)
		w.tmpls = append(w.tmpls, c04Template(base, cfg.Tmpl))
	}
	return w
}

// c04ViaConfig builds logger k the way applications do: zap.Config.Build with the shared URL as its only output path.
func c04ViaConfig(w *c04World, cfg *c04Cfg, k int, oracle bool,
	reopen func(func(string) zapcore.WriteSyncer) (zapcore.WriteSyncer, *c04Rec), wrap func(zapcore.Core) zapcore.Core) *zap.Logger {
	br := cfg.branchOf(0)
	ecfg, encName := c04EncCfg(br.Enc)
	zc := zap.Config{Level: zap.NewAtomicLevelAt(zapcore.Level(br.Min)), Encoding: encName, EncoderConfig: ecfg,
		ErrorOutputPaths: []string{}, DisableCaller: !cfg.Caller, DisableStacktrace: true}
	opts := []zap.Option{zap.WithClock(&c04Clock{})}
	var l *zap.Logger
	if oracle {
		buf := &bytes.Buffer{}
		w.oracleBuf = append(w.oracleBuf, buf)
		c04RegMu.Lock()
		c04RegSeq++
		host := fmt.Sprintf("obuf%d", c04RegSeq)
		c04OBuf[host] = buf
		c04RegMu.Unlock()
		zc.OutputPaths = []string{"c04rec://" + host}
		var err error
		l, err = zc.Build(opts...)
		must(err)
		c04RegMu.Lock()
		delete(c04OBuf, host)
		c04RegMu.Unlock()
		return l
	}
	opts = append(opts, zap.WrapCore(func(c zapcore.Core) zapcore.Core { return wrap(zapcore.NewTee(c, w.seen)) }))
	_, rec := reopen(func(url string) zapcore.WriteSyncer {
		zc.OutputPaths = []string{url}
		var err error
		l, err = zc.Build(opts...)
		must(err)
		return nil
	})
	w.sinks = append(w.sinks, &c04SinkRef{b: k, j: len(w.sinks), rec: rec, mode: "lines", twin: -1})
	return l
}

// c04Template derives the shared template logger; nobody ever logs through it, goroutines only derive from it.
func c04Template(base *zap.Logger, kind string) *zap.Logger {
	spare := func(fs ...zap.Field) []zap.Field { return append(make([]zap.Field, 0, len(fs)+6), fs...) }
	switch kind {
	case "with":
		return base.With(zap.String("tmpl", "with"), zap.Int("tk", 1))
	case "lazy":
		return base.WithLazy(spare(zap.String("tmpl", "lazy"), zap.Int("tk", 1))...)
	case "sugarlazy":
		return base.Sugar().WithLazy("tmpl", "sugarlazy", "tk", 1).Desugar()
	case "lazylazy":
		return base.WithLazy(spare(zap.String("tmpl", "lazy"))...).Sugar().WithLazy("tk", 1, "tv", "x").Desugar()
	}
	return base
}

// c04Derive builds a goroutine-local child of src in one of the derivation flavours of the API.
func c04Derive(src *zap.Logger, flavour string, g, seq int) *zap.Logger {
	id := c04ID(g, seq)
	switch flavour {
	case "withlazy": // literal variadic call: the field slice has no spare capacity
		return src.WithLazy(zap.Int("dl", seq), zap.String("dg", id))
	case "withlazycap": // caller-owned slice with spare capacity
		fs := append(make([]zap.Field, 0, 8), zap.Int("dl", seq), zap.String("dg", id))
		return src.WithLazy(fs...)
	case "sugarlazy":
		return src.Sugar().WithLazy("ds", seq, "dg", id).Desugar()
	case "sugarwith":
		return src.Sugar().With("ds", seq, "dg", id).Desugar()
	case "named":
		return src.Named(fmt.Sprintf("n%d", g))
	case "withopts":
		return src.WithOptions(zap.Fields(zap.Int("do", seq), zap.String("dg", id)))
	case "roundtrip":
		return src.Sugar().Desugar()
	}
	return src.With(zap.Int("dw", seq), zap.String("dg", id))
}

func (w *c04World) cleanup() {
	c04RegMu.Lock()
	defer c04RegMu.Unlock()
	for _, n := range w.recNames {
		delete(c04Reg, n)
		delete(c04Fresh, n)
	}
	for _, s := range w.sinks {
		if s.file != "" {
			_ = os.Remove(s.file)
		}
	}
	if c04Dir != "" && os.Remove(c04Dir) == nil { // succeeds only when empty
		c04Dir = ""
	}
}

func (w *c04World) notePanic(e any) {
	if w.panics.Add(1) == 1 {
		buf := make([]byte, 4096)
		buf = buf[:runtime.Stack(buf, false)]
		w.firstP.Store(fmt.Sprintf("%v\n%s", e, buf))
	}
}

func c04ID(g, seq int) string { return fmt.Sprintf("g%d-%d", g, seq) }

func c04Msg(g, seq, sz int) string {
	if sz <= 0 {
		return c04ID(g, seq)
	}
	return c04ID(g, seq) + " " + strings.Repeat(string(rune('a'+(g+seq)%26)), sz)
}

var c04SlogLevels = map[int]slog.Level{-1: slog.LevelDebug, 0: slog.LevelInfo, 1: slog.LevelWarn, 2: slog.LevelError}

// c04Emit performs one log call through front end fe. The real run and the reference replay both go through this
// function, so caller annotations agree.
type c04FailObj struct{}

func (c04FailObj) MarshalLogObject(enc zapcore.ObjectEncoder) error {
	enc.AddString("half", "written")
	return fmt.Errorf("marshaler boom")
}

type c04PanicStringer struct{}

func (c04PanicStringer) String() string { panic("stringer boom") }

type c04PanicErr struct{}

func (c04PanicErr) Error() string { panic("error boom") }

// c04Poison: a value whose encoding fails inside zap (zap reports `<key>Error` in the line and goes on).
func c04Poison(kind string) (any, zap.Field, bool) {
	switch kind {
	case "reflect":
		v := make(chan int)
		return v, zap.Reflect("bad", v), true
	case "any":
		v := func() {}
		return v, zap.Any("bad", v), true
	case "reflectnest":
		v := []any{1, "two", map[string]any{"c": make(chan int)}}
		return v, zap.Reflect("bad", v), true
	case "marshalerr":
		return c04FailObj{}, zap.Object("bad", c04FailObj{}), true
	case "stringer":
		return c04PanicStringer{}, zap.Stringer("bad", c04PanicStringer{}), true
	case "error":
		return c04PanicErr{}, zap.NamedError("bad", c04PanicErr{}), true
	}
	return nil, zap.Skip(), false
}

func c04Emit(l *zap.Logger, fe string, lvlI int, msg string, seq int, poison string) {
	lvl := zapcore.Level(lvlI)
	f := zap.Int("i", seq)
	pv, pf, poisoned := c04Poison(poison)
	if poisoned {
		switch fe {
		case "log":
			l.Log(lvl, msg, f, pf)
			return
		case "check":
			if ce := l.Check(lvl, msg); ce != nil {
				ce.Write(f, pf)
			}
			return
		case "sugarw":
			l.Sugar().Logw(lvl, msg, "i", seq, "bad", pv)
			return
		case "corewrite":
			_ = l.Core().Write(zapcore.Entry{Level: lvl, Time: c04Time, Message: msg}, []zapcore.Field{f, pf})
			return
		case "slog":
			h := zapslog.NewHandler(l.Core(), zapslog.AddStacktraceAt(slog.Level(100)))
			rec := slog.NewRecord(c04Time, c04SlogLevels[lvlI], msg, 0)
			rec.AddAttrs(slog.Int("i", seq), slog.Any("bad", pv))
			_ = h.Handle(context.Background(), rec)
			return
		case "plain", "":
			l.Log(lvl, msg, f, pf)
			return
		}
	}
	switch fe {
	case "log":
		l.Log(lvl, msg, f)
	case "check":
		if ce := l.Check(lvl, msg); ce != nil {
			ce.Write(f)
		}
	case "sugarw":
		l.Sugar().Logw(lvl, msg, "i", seq)
	case "sugarf":
		l.Sugar().Logf(lvl, "%s", msg)
	case "sugarln":
		l.Sugar().Logln(lvl, msg)
	case "std":
		sl, err := zap.NewStdLogAt(l, lvl)
		must(err)
		sl.Print(msg)
	case "grpc":
		gl := zapgrpc.NewLogger(l)
		switch lvl {
		case zapcore.InfoLevel:
			gl.Info(msg)
		case zapcore.WarnLevel:
			gl.Warningln(msg)
		default:
			gl.Errorf("%s", msg)
		}
	case "zapio":
		wr := &zapio.Writer{Log: l, Level: lvl}
		_, _ = wr.Write([]byte(msg + "\n"))
	case "zapiosync":
		wr := &zapio.Writer{Log: l, Level: lvl}
		_, _ = wr.Write([]byte(msg))
		_ = wr.Close()
	case "slog":
		h := zapslog.NewHandler(l.Core(), zapslog.AddStacktraceAt(slog.Level(100)))
		rec := slog.NewRecord(c04Time, c04SlogLevels[lvlI], msg, 0)
		rec.AddAttrs(slog.Int("i", seq))
		_ = h.Handle(context.Background(), rec)
	case "corewrite":
		// Core.Write contract: "if called, Write should always log the Entry" — no level check
		_ = l.Core().Write(zapcore.Entry{Level: lvl, Time: c04Time, Message: msg}, []zapcore.Field{f})
	default: // "plain"
		switch lvl {
		case zapcore.DebugLevel:
			l.Debug(msg, f)
		case zapcore.InfoLevel:
			l.Info(msg, f)
		case zapcore.WarnLevel:
			l.Warn(msg, f)
		case zapcore.ErrorLevel:
			l.Error(msg, f)
		default:
			l.DPanic(msg, f)
		}
	}
}

// runG executes one goroutine's program. after(seq) is called after every log action (reference replay only).
func (w *c04World) runG(g int, acts []c04Act, after func(seq int)) {
	k := g % len(w.bases)
	base, children, tmpl := w.bases[k], w.children[k], w.tmpls[k]
	local := base
	for seq, a := range acts {
		func() {
			defer func() {
				if e := recover(); e != nil {
					w.notePanic(e)
				}
			}()
			switch a.A {
			case "log":
				c04Emit(local, a.Fe, a.Lvl, c04Msg(g, seq, a.Sz), seq, a.P)
				if after != nil {
					after(seq)
				}
			case "with":
				local = local.With(zap.Int("w", seq), zap.String("g", c04ID(g, seq)))
			case "derive": // Fe = flavour; Child ≥ 1: from the shared template, else from the goroutine's current logger
				src := local
				if a.Child >= 1 {
					src = tmpl
				}
				local = c04Derive(src, a.Fe, g, seq)
			case "child":
				if len(children) > 0 && a.Child >= 0 {
					local = children[a.Child%len(children)]
				} else {
					local = base
				}
			case "sync":
				_ = local.Sync()
			case "bwssync":
				if len(w.bws) > 0 && a.B >= 0 {
					_ = w.bws[a.B%len(w.bws)].Sync()
				}
			case "tick":
				if len(w.clocks) > 0 && a.B >= 0 {
					select {
					case w.clocks[a.B%len(w.clocks)].ch <- c04Time:
					default:
					}
				}
			case "yield":
				runtime.Gosched()
			}
		}()
	}
}

// c04Expected replays every goroutine alone on a fresh reference logger: exp[g][b] = the lines (with their ids)
// goroutine g's entries produce on branch b, in program order.
type c04Line struct {
	id   string
	line []byte
}

func c04Expected(op *c04Op) [][][]c04Line {
	exp := make([][][]c04Line, len(op.Gs))
	for g := range op.Gs {
		w := c04Build(&op.Cfg, true)
		exp[g] = make([][]c04Line, len(w.oracleBuf))
		w.runG(g, op.Gs[g], func(seq int) {
			for b, buf := range w.oracleBuf {
				if buf.Len() > 0 {
					exp[g][b] = append(exp[g][b], c04Line{c04ID(g, seq), append([]byte(nil), buf.Bytes()...)})
					buf.Reset()
				}
			}
		})
	}
	return exp
}

// ---------------------------------------------------------------- the independent merge oracle

// c04Cut splits a stream after every '\n'; ok=false when the tail is not terminated.
func c04Cut(stream []byte) (lines [][]byte, ok bool) {
	for len(stream) > 0 {
		i := bytes.IndexByte(stream, '\n')
		if i < 0 {
			return lines, false
		}
		lines = append(lines, stream[:i+1])
		stream = stream[i+1:]
	}
	return lines, true
}

// c04IsMerge: is `lines` an interleaving of the lists in per that keeps every list's order and uses every element
// exactly once? Frontier of reachable index vectors (stays a single vector when all lines are distinct).
func c04IsMerge(per [][][]byte, lines [][]byte) bool {
	total := 0
	for _, p := range per {
		total += len(p)
	}
	if total != len(lines) {
		return false
	}
	type vec string
	enc := func(ix []int) vec {
		var sb strings.Builder
		for _, i := range ix {
			fmt.Fprintf(&sb, "%d,", i)
		}
		return vec(sb.String())
	}
	front := map[vec][]int{enc(make([]int, len(per))): make([]int, len(per))}
	for _, l := range lines {
		next := map[vec][]int{}
		for _, ix := range front {
			for g := range per {
				if ix[g] < len(per[g]) && bytes.Equal(per[g][ix[g]], l) {
					nx := append([]int(nil), ix...)
					nx[g]++
					next[enc(nx)] = nx
				}
			}
		}
		if len(next) == 0 {
			return false
		}
		front = next
	}
	return true
}

// c04Judge decides a history and classifies a failure. mode: stream (bytes only) | calls (every sink write must be whole
// lines) | lines (every sink write must be exactly one line).
func c04Judge(mode string, per [][][]byte, calls [][]byte) (valid bool, class, detail string) {
	stream := bytes.Join(calls, nil)
	lines, okCut := c04Cut(stream)
	merge := okCut && c04IsMerge(per, lines)
	callsOK := true
	callDetail := ""
	switch mode {
	case "calls":
		for i, c := range calls {
			if len(c) > 0 && c[len(c)-1] != '\n' {
				callsOK = false
				callDetail = fmt.Sprintf("sink write #%d (%d bytes) does not end at a line end: …%q", i, len(c), c04Tail(c, 40))
				break
			}
		}
	case "lines":
		for i, c := range calls {
			if len(c) == 0 || bytes.IndexByte(c, '\n') != len(c)-1 {
				callsOK = false
				callDetail = fmt.Sprintf("sink write #%d is not exactly one line: %q", i, c04Tail(c, 80))
				break
			}
		}
	}
	if merge && callsOK {
		return true, "", ""
	}
	if merge {
		return false, "split-sink-write", callDetail
	}
	// classification of a stream that is not a merge
	count := map[string]int{}
	owner := map[string][2]int{}
	for g, p := range per {
		for i, l := range p {
			owner[string(l)] = [2]int{g, i}
		}
	}
	if !okCut {
		return false, "torn-line", fmt.Sprintf("the stream does not end with a complete line: …%q", c04Tail(stream, 60))
	}
	for _, l := range lines {
		if _, known := owner[string(l)]; !known {
			return false, "torn-line", fmt.Sprintf("the sink holds a line nobody logged (torn, interleaved or merged): %q", c04Tail(l, 160))
		}
		count[string(l)]++
	}
	want := map[string]int{}
	for _, p := range per {
		for _, l := range p {
			want[string(l)]++
		}
	}
	var keys []string
	for k := range want {
		keys = append(keys, k)
	}
	sort.Strings(keys)
	for _, k := range keys {
		if count[k] > want[k] {
			return false, "duplicated", fmt.Sprintf("line delivered %d times, logged %d times: %q", count[k], want[k], c04Tail([]byte(k), 160))
		}
	}
	for _, k := range keys {
		if count[k] < want[k] {
			return false, "lost-entry", fmt.Sprintf("line logged %d times, delivered %d times: %q", want[k], count[k], c04Tail([]byte(k), 160))
		}
	}
	return false, "order", "every line was delivered exactly once but some goroutine's lines are not in the order it logged them"
}

func c04Tail(b []byte, n int) string {
	if len(b) > n {
		return "…" + string(b[len(b)-n:])
	}
	return string(b)
}

// ---------------------------------------------------------------- Lean side (zvdrv) on the recorded histories

type c04Hist struct {
	K     string     `json:"k"`
	Mode  string     `json:"mode"`
	Per   [][]string `json:"per"`
	Calls []string   `json:"calls"`
}

func c04MkHist(mode string, per [][][]byte, calls [][]byte) c04Hist {
	h := c04Hist{K: "hist", Mode: mode, Per: make([][]string, len(per)), Calls: make([]string, 0, len(calls))}
	for g, p := range per {
		h.Per[g] = make([]string, len(p))
		for i, l := range p {
			h.Per[g][i] = hx(l)
		}
	}
	for _, c := range calls {
		h.Calls = append(h.Calls, hx(c))
	}
	return h
}

func c04Zvdrv() string {
	if p := os.Getenv("ZVDRV"); p != "" {
		return p
	}
	exe, err := os.Executable()
	if err != nil {
		return ""
	}
	// <verif>/.work/bin/zvh[-race]  →  <verif>/lean/.lake/build/bin/zvdrv-C04 (one driver per property)
	return filepath.Join(filepath.Dir(filepath.Dir(filepath.Dir(exe))), "lean", ".lake", "build", "bin", "zvdrv-C04")
}

// c04Lean runs the compiled Lean predicates on the histories; one verdict per history.
func c04Lean(hs []c04Hist) ([]bool, error) {
	if len(hs) == 0 {
		return nil, nil
	}
	var in bytes.Buffer
	enc := json.NewEncoder(&in)
	for _, h := range hs {
		if err := enc.Encode(h); err != nil {
			return nil, err
		}
	}
	out, err := runCmd(c04Zvdrv(), nil, in.Bytes(), 120*time.Second)
	if err != nil {
		return nil, err
	}
	var res []bool
	for _, l := range bytes.Split(bytes.TrimSpace(out), []byte("\n")) {
		var r struct {
			Valid *bool  `json:"valid"`
			Bad   string `json:"bad_op"`
		}
		if err := json.Unmarshal(l, &r); err != nil || r.Valid == nil {
			return nil, fmt.Errorf("zvdrv answered %q", c04Tail(l, 200))
		}
		res = append(res, *r.Valid)
	}
	if len(res) != len(hs) {
		return nil, fmt.Errorf("zvdrv answered %d lines for %d histories", len(res), len(hs))
	}
	return res, nil
}

// ---------------------------------------------------------------- executing a program

type c04SinkRes struct {
	B    int  `json:"b"`
	J    int  `json:"j"`
	N    int  `json:"n"`
	OK   bool `json:"ok"`
	Lean bool `json:"lean"`
}

func c04RunOnce(op *c04Op) (w *c04World, timeout bool, dump string) {
	w = c04Build(&op.Cfg, false)
	prev := 0
	if op.Cfg.Gomax > 0 {
		prev = runtime.GOMAXPROCS(op.Cfg.Gomax)
	}
	timeout, dump = concWD.watched(func() {
		var wg sync.WaitGroup
		start := make(chan struct{})
		for g := range op.Gs {
			wg.Add(1)
			go func(g int) {
				defer wg.Done()
				<-start
				w.runG(g, op.Gs[g], nil)
			}(g)
		}
		close(start)
		wg.Wait()
		// BufferedWriteSyncer holds data until Sync/Stop: always drain before judging
		for _, l := range w.bases {
			_ = l.Sync()
		}
		// all goroutines are done and Logger.Sync has returned: every branch must hold everything already (the Stop below
		// would hide a branch that Sync never reached)
		for _, s := range w.sinks {
			if s.rec != nil {
				if s.rec.safe != nil {
					s.rec.safe.Lock()
				}
				s.rec.atLogSync = len(s.rec.stream)
				if s.rec.safe != nil {
					s.rec.safe.Unlock()
				}
			}
		}
		for _, s := range w.bws {
			_ = s.Stop()
		}
		for _, c := range w.closers {
			c()
		}
	})
	if prev > 0 {
		runtime.GOMAXPROCS(prev)
	}
	return w, timeout, dump
}

func c04Exec(raw json.RawMessage) Result {
	var op c04Op
	unmarshal(raw, &op)
	switch op.K {
	case "hist":
		return c04ExecHist(&op)
	case "prog":
	default:
		panic("unknown op kind " + op.K)
	}
	shape := c04Shape(&op)
	if concWD.exhausted() || c04RunBudget.exhausted() {
		return concSkipped(shape)
	}
	c04RunBudget.mark('S')
	w, timeout, dump := c04RunOnce(&op)
	if timeout {
		c04RunBudget.mark('T')
	}
	c04RunBudget.mark('D')
	defer w.cleanup()
	if timeout {
		if child, fine := concRerunAlone("C04", raw); fine {
			return Result{Impl: child, Oracle: ok(), Nontrivial: true, Shape: shape + "/rerun"}
		}
		return Result{Impl: map[string]any{"panics": 0, "timeout": true, "sinks": []c04SinkRes{}},
			Oracle:     bad("C04:deadlock", "program did not finish within %v (also when re-run alone); goroutines:\n%s", concWD.limit(), truncStr(dump, 6000)),
			Nontrivial: true, Shape: shape}
	}
	o := ok()
	fail := func(sig, format string, a ...any) {
		if o.OK {
			o = bad(sig, format, a...)
		}
	}
	if n := w.panics.Load(); n != 0 {
		fp, _ := w.firstP.Load().(string)
		fail("C04:panic", "%d unexpected panic(s); first: %s", n, truncStr(fp, 3000))
	}
	if len(w.errOut.stream) > 0 {
		fail("C04:error-output", "zap reported an internal error: %q", c04Tail(w.errOut.stream, 300))
	}

	exp := c04Expected(&op)
	// which entries reached the cores at all (a sampler legitimately drops some)
	passed := func(id string) bool { return true }
	if op.Cfg.Sampler {
		passed = func(id string) bool { return w.seen.ids[id] > 0 }
	}
	logged, delivering := 0, 0
	for g := range op.Gs {
		n := 0
		for _, a := range op.Gs[g] {
			if a.A == "log" {
				n++
			}
		}
		logged += n
		if n > 0 {
			delivering++
		}
	}
	if !op.Cfg.Sampler {
		// the recording core is a tee branch that accepts every level: it must have seen every entry exactly once
		seenTotal := 0
		for id, c := range w.seen.ids {
			seenTotal += c
			if c > 1 {
				fail("C04:duplicated", "the always-enabled tee branch received entry %s %d times", id, c)
			}
		}
		if seenTotal < logged {
			fail("C04:tee-branch-incomplete", "the always-enabled tee branch received %d of %d logged entries", seenTotal, logged)
		}
	}

	res := make([]c04SinkRes, 0, len(w.sinks))
	var hists []c04Hist
	var goOK []bool
	perBranchIDs := make([]map[string]bool, op.Cfg.effBranches()) // ids delivered per branch (for the tee classification)
	for _, s := range w.sinks {
		per := make([][][]byte, len(op.Gs))
		ids := map[string]string{}
		allIDs := map[string]string{}
		for g := range op.Gs {
			per[g] = [][]byte{}
			if s.b < len(exp[g]) {
				for _, l := range exp[g][s.b] {
					allIDs[string(l.line)] = l.id
					if passed(l.id) {
						per[g] = append(per[g], l.line)
						ids[string(l.line)] = l.id
					}
				}
			}
		}
		var calls [][]byte
		if s.rec != nil {
			if s.rec.atLogSync >= 0 && s.rec.atLogSync < len(s.rec.stream) {
				fail("C04:sync-left-branch-unflushed", "branch %d (%s) sink %d: %d of %d bytes reached the sink only after Logger.Sync had returned (all goroutines had finished): Sync did not flush this branch",
					s.b, op.Cfg.branchOf(s.b).Sink, s.j, len(s.rec.stream)-s.rec.atLogSync, len(s.rec.stream))
			}
			calls = s.rec.calls
			if !bytes.Equal(bytes.Join(calls, nil), s.rec.stream) {
				fail("C04:torn-line", "branch %d sink %d: the bytes that arrived differ from the bytes handed to Write at call time (a line changed or was interleaved while the sink was writing it)", s.b, s.j)
			}
		} else {
			data, err := os.ReadFile(s.file)
			must(err)
			for len(data) > 0 { // arbitrary chunking (keeps the hex strings short); judged in stream mode
				n := 4096
				if n > len(data) {
					n = len(data)
				}
				calls = append(calls, data[:n])
				data = data[n:]
			}
		}
		valid, class, detail := c04Judge(s.mode, per, calls)
		lines, _ := c04Cut(bytes.Join(calls, nil))
		if !valid && class == "torn-line" && op.Cfg.Sampler {
			// with a sampler the expected set is what the always-enabled recording branch saw: an intact line of an
			// entry that branch never saw means the tee delivered to one branch and not to the other
			for _, l := range lines {
				if id, isEntry := allIDs[string(l)]; isEntry && !passed(id) {
					class = "tee-branch-incomplete"
					detail = fmt.Sprintf("entry %s was delivered here but never reached the always-enabled branch of the same tee", id)
					break
				}
			}
		}
		if perBranchIDs[s.b] == nil {
			perBranchIDs[s.b] = map[string]bool{}
		}
		for _, l := range lines {
			if id, known := ids[string(l)]; known {
				perBranchIDs[s.b][id] = true
			}
		}
		if !valid {
			if class == "lost-entry" && op.Cfg.nBranches() > 1 {
				class = "tee-or-lost" // resolved below
			}
			fail("C04:"+class, "branch %d (%s, %s) sink %d: %s", s.b, op.Cfg.branchOf(s.b).Sink, s.mode, s.j, detail)
		}
		if s.twin >= 0 && s.rec != nil && w.sinks[s.twin].rec != nil {
			a, b2 := s.rec.calls, w.sinks[s.twin].rec.calls
			same := len(a) == len(b2)
			for i := 0; same && i < len(a); i++ {
				same = bytes.Equal(a[i], b2[i])
			}
			if !same {
				fail("C04:multi-sink-diverge", "branch %d: the sinks combined under one lock received different call sequences (%d vs %d calls)", s.b, len(a), len(b2))
			}
		}
		n := len(lines)
		if op.Cfg.Sampler {
			n = -1
		}
		res = append(res, c04SinkRes{B: s.b, J: s.j, N: n, OK: valid})
		hists = append(hists, c04MkHist(s.mode, per, calls))
		goOK = append(goOK, valid)
	}
	// a lost entry that another tee branch did receive is a tee defect
	if !o.OK && o.Sig == "C04:tee-or-lost" {
		o.Sig = "C04:lost-entry"
		for g := range op.Gs {
			for b := 0; b < op.Cfg.effBranches(); b++ {
				if b >= len(exp[g]) {
					continue
				}
				for _, l := range exp[g][b] {
					if !passed(l.id) || perBranchIDs[b] == nil || perBranchIDs[b][l.id] {
						continue
					}
					for b2 := 0; b2 < op.Cfg.effBranches(); b2++ { // the other branches of the same logger's tee
						if b2 != b && b2/op.Cfg.nBranches() == b/op.Cfg.nBranches() && perBranchIDs[b2] != nil && perBranchIDs[b2][l.id] {
							o.Sig = "C04:tee-branch-incomplete"
						}
					}
					if w.seen.ids[l.id] > 0 {
						o.Sig = "C04:tee-branch-incomplete"
					}
				}
			}
		}
	}
	// a core slice handed to NewTee belongs to the caller: it must read the same afterwards
	if w.coreSlice != nil {
		for i := range w.coreWant {
			if c04CoreID(w.coreSlice[i]) != c04CoreID(w.coreWant[i]) {
				fail("C04:tee-input-mutated", "NewTee changed the caller's core slice: element %d was %s, is %s", i, c04CoreID(w.coreWant[i]), c04CoreID(w.coreSlice[i]))
				break
			}
		}
	}
	lean, err := c04Lean(hists)
	if err != nil {
		fail("C04:lean-driver", "could not run the Lean predicates on the recorded histories: %v", err)
	}
	for i := range res {
		if err == nil {
			res[i].Lean = lean[i]
			if lean[i] != goOK[i] {
				fail("C04:lean-go-disagree", "branch %d sink %d: Go merge oracle says %v, Lean %s says %v on the same recorded history", res[i].B, res[i].J, goOK[i], w.sinks[i].mode, lean[i])
			}
		}
	}
	impl := map[string]any{"panics": int(w.panics.Load()), "timeout": false, "sinks": res}
	return Result{Impl: impl, Oracle: o, Nontrivial: len(op.Gs) >= 2 && delivering >= 2 && len(w.sinks) > 0, Shape: shape}
}

func c04CoreID(c zapcore.Core) string {
	if v := reflect.ValueOf(c); v.Kind() == reflect.Ptr {
		return fmt.Sprintf("%T@%x", c, v.Pointer())
	}
	return fmt.Sprintf("%T", c)
}

func c04Shape(op *c04Op) string {
	var ks []string
	for _, b := range op.Cfg.Br {
		ks = append(ks, b.Sink)
	}
	s := "prog/" + strings.Join(ks, "+")
	if op.Cfg.Sampler {
		s += "/sampler"
	}
	if op.Cfg.nLoggers() > 1 {
		s += fmt.Sprintf("/x%d", op.Cfg.nLoggers())
		if op.Cfg.Share {
			s += "shared"
		}
	}
	if op.Cfg.Via != "" {
		s += "/" + op.Cfg.Via
	}
	if len(op.Cfg.Nops) > 0 {
		s += "/nops"
	}
	return fmt.Sprintf("%s/g%d", s, len(op.Gs))
}

func c04ExecHist(op *c04Op) Result {
	per := make([][][]byte, len(op.Per))
	for g, p := range op.Per {
		per[g] = make([][]byte, len(p))
		for i, l := range p {
			per[g][i] = unhx(l)
		}
	}
	calls := make([][]byte, len(op.Calls))
	for i, c := range op.Calls {
		calls[i] = unhx(c)
	}
	valid, class, _ := c04Judge(op.Mode, per, calls)
	shape := "hist/" + op.Mode + "/valid"
	if !valid {
		shape = "hist/" + op.Mode + "/" + class
	}
	return Result{Impl: map[string]any{"valid": valid}, Oracle: ok(), Nontrivial: len(calls) > 0, Shape: shape}
}
