package main

import (
	"fmt"
	"os"
	"path/filepath"
	"time"
)

// Run-wide budget of C04 (DESIGN §7: a violating tree must not make the check crawl).
//
// conc_watchdog.go bounds the watchdog expiries of ONE harness process, but one `bin/check` run starts many harness
// processes (a restart after every race report, one per shrinking round, the widened search). All of them are children
// of the same checker process, so a small journal keyed by the parent pid carries the counts across them:
//
//	S  a program was started        D  it came back (finished or timed out)        T  its watchdog expired
//
// S without D = the process died inside the program (race report, fatal error). After 3 expiries or 25 deaths in one
// run the remaining programs are skipped (reported as skipped, not compared): the violation has been reported by then,
// every further instance only costs its timeout / a process restart. Worst case for hangs: 3 expiries (≤ 30 s each,
// typically < 10 s) + one re-run alone (≤ 30 s) ≈ 2 min. Not active in the re-run-alone child or with ZVH_C04_NOBUDGET.
type c04Budget struct {
	path   string
	inited bool
}

var c04RunBudget c04Budget

const (
	c04MaxExpiries = 3
	c04MaxDeaths   = 25
)

func (b *c04Budget) init() {
	if b.inited {
		return
	}
	b.inited = true
	if os.Getenv("ZVH_ALONE") != "" || os.Getenv("ZVH_C04_NOBUDGET") != "" {
		return
	}
	// journals of earlier runs
	if old, err := filepath.Glob(filepath.Join(os.TempDir(), "zvh-c04-run-*")); err == nil {
		for _, o := range old {
			if st, err := os.Stat(o); err == nil && time.Since(st.ModTime()) > 45*time.Minute {
				_ = os.Remove(o)
			}
		}
	}
	b.path = filepath.Join(os.TempDir(), fmt.Sprintf("zvh-c04-run-%d", os.Getppid()))
}

func (b *c04Budget) mark(c byte) {
	b.init()
	if b.path == "" {
		return
	}
	f, err := os.OpenFile(b.path, os.O_APPEND|os.O_CREATE|os.O_WRONLY, 0o644)
	if err != nil {
		return
	}
	_, _ = f.Write([]byte{c})
	_ = f.Close()
}

func (b *c04Budget) exhausted() bool {
	b.init()
	if b.path == "" {
		return false
	}
	data, err := os.ReadFile(b.path)
	if err != nil {
		return false
	}
	var s, d, t int
	for _, c := range data {
		switch c {
		case 'S':
			s++
		case 'D':
			d++
		case 'T':
			t++
		}
	}
	return t >= c04MaxExpiries || s-d >= c04MaxDeaths
}
