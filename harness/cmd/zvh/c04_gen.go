package main

import (
	"bytes"
	"context"
	"fmt"
	"os/exec"
	"strings"
	"time"
)

// Generators of C04: a fixed grid (every sink kind, every front end), random concurrent programs, a hostile stream
// (lines far above the buffer, Sync/tick storms, tiny and default buffers) and synthetic histories (valid merges and
// mutated ones) for the differential test of the two merge checkers.

var c04Sinks = []string{"lock", "lock", "open", "openfile", "open2", "combine", "bws", "bws", "bwslock", "bwsopen"}
var c04Encs = []string{"json", "json", "console", "json2"}
var c04Fes = []string{"plain", "plain", "log", "check", "sugarw", "sugarf", "sugarln", "std", "grpc", "zapio", "zapiosync", "slog", "corewrite"}
var c04Poisons = []string{"reflect", "any", "reflectnest", "marshalerr", "stringer", "error"}
var c04PoisonFes = []string{"plain", "log", "check", "sugarw", "corewrite", "slog"}
var c04Flavours = []string{"with", "withlazy", "withlazycap", "sugarlazy", "sugarwith", "named", "withopts", "roundtrip"}
var c04Tmpls = []string{"", "with", "lazy", "sugarlazy", "lazylazy"}
var c04BufSizes = []int{64, 128, 256, 512, 1024, 0}

// levels a front end can express (zap levels; 3 = DPanic, which only logs outside development mode)
func c04FeLevels(fe string) []int {
	switch fe {
	case "grpc":
		return []int{0, 1, 2}
	case "slog":
		return []int{-1, 0, 1, 2}
	}
	return []int{-1, 0, 0, 1, 2, 3}
}

func c04GenAct(r *Rand, cfg *c04Cfg, big bool) c04Act {
	x := r.Intn(100)
	switch {
	case x < 74:
		fe := Pick(r, c04Fes)
		a := c04Act{A: "log", Fe: fe, Lvl: Pick(r, c04FeLevels(fe))}
		if r.Chance(1, 25) { // an entry with a field whose encoding fails inside zap
			a.Fe = Pick(r, c04PoisonFes)
			a.Lvl = Pick(r, c04FeLevels(a.Fe))
			a.P = Pick(r, c04Poisons)
		}
		// message sizes around the buffer size of some buffered branch (a JSON line is ≈ 70 bytes + message)
		size := 256
		for _, b := range cfg.Br {
			if strings.HasPrefix(b.Sink, "bws") && b.Size > 0 {
				size = b.Size
			}
		}
		switch r.Intn(8) {
		case 0:
			a.Sz = 0
		case 1:
			a.Sz = r.Intn(12)
		case 2, 3:
			a.Sz = r.Intn(80)
		case 4:
			a.Sz = size/2 + r.Intn(size/2+1)
		case 5:
			d := size - 90 + r.Intn(60)
			if d < 0 {
				d = 0
			}
			a.Sz = d
		case 6:
			a.Sz = size + r.Intn(40)
		default:
			a.Sz = 2*size + r.Intn(64)
		}
		if big {
			a.Sz = 3*size + r.Intn(2*size+1)
		}
		if a.Sz > 1500 {
			a.Sz = 1500
		}
		return a
	case x < 75:
		return c04Act{A: "with"}
	case x < 77:
		return c04Act{A: "derive", Fe: Pick(r, c04Flavours), Child: r.Intn(3) - 1}
	case x < 81:
		return c04Act{A: "child", Child: r.Intn(4) - 1}
	case x < 86:
		return c04Act{A: "sync"}
	case x < 90:
		return c04Act{A: "bwssync", B: r.Intn(3)}
	case x < 97:
		return c04Act{A: "tick", B: r.Intn(3)}
	}
	return c04Act{A: "yield"}
}

func c04GenCfg(r *Rand) c04Cfg {
	cfg := c04Cfg{Br: []c04Branch{}, Children: r.Intn(4), Named: r.Chance(1, 4), Caller: r.Chance(1, 4),
		Gomax: Pick(r, []int{1, 2, 4, 8, 16}), Gosched: r.Intn(4), Sampler: r.Chance(1, 8), SafeRec: r.Chance(1, 3), SyncErr: r.Chance(1, 4)}
	if r.Chance(1, 2) {
		cfg.Tmpl = Pick(r, c04Tmpls)
	}
	nb := 1 + r.Intn(3)
	for i := 0; i < nb; i++ {
		cfg.Br = append(cfg.Br, c04Branch{Sink: Pick(r, c04Sinks), Size: Pick(r, c04BufSizes), Enc: Pick(r, c04Encs),
			Min: Pick(r, []int{-1, -1, -1, 0, 1})})
	}
	// several loggers from one configuration (own sinks / one shared core slice / zap.Config.Build), the same URL opened
	// more than once, switched-off outputs in the core list
	switch r.Intn(12) {
	case 0, 1:
		cfg.Loggers = 2 + r.Intn(2)
		cfg.Br[r.Intn(nb)].Sink = "reopen"
	case 2, 3:
		cfg.Loggers, cfg.Share = 2+r.Intn(2), true
	case 4:
		cfg.Loggers, cfg.Via = 2+r.Intn(2), "config"
	case 5:
		if nb >= 2 {
			cfg.Br[0].Sink, cfg.Br[1].Sink = "reopen", "reopen"
		}
	}
	if r.Chance(1, 4) {
		cfg.Nops = []int{}
		for n := 1 + r.Intn(2); n > 0; n-- {
			cfg.Nops = append(cfg.Nops, r.Intn(nb+2))
		}
	}
	return cfg
}

func c04GenProg(r *Rand, maxActs int, hostile bool) c04Prog {
	cfg := c04GenCfg(r)
	g := 2 + r.Intn(7)
	if r.Chance(1, 20) {
		g = 1
	}
	if hostile {
		// storms: every goroutine mostly syncs/ticks between few huge or tiny lines; tiny or default-size buffers
		for i := range cfg.Br {
			cfg.Br[i].Size = Pick(r, []int{64, 64, 0, 128})
			if r.Chance(1, 2) {
				cfg.Br[i].Sink = Pick(r, []string{"bws", "bwslock", "bwsopen"})
			}
		}
		cfg.Sampler = false
	}
	op := c04Prog{K: "prog", Cfg: cfg, Gs: make([][]c04Act, g)}
	for gi := range op.Gs {
		na := 3 + r.Intn(maxActs)
		if r.Chance(1, 12) {
			na = maxActs + r.Intn(3*maxActs+1)
		}
		op.Gs[gi] = make([]c04Act, 0, na)
		if !hostile && r.Chance(1, 3) {
			op.Gs[gi] = append(op.Gs[gi], c04Act{A: "derive", Fe: Pick(r, c04Flavours), Child: 1})
		}
		for k := 0; k < na; k++ {
			a := c04GenAct(r, &cfg, hostile && r.Chance(1, 3))
			if hostile && r.Chance(1, 2) {
				a = c04Act{A: Pick(r, []string{"sync", "bwssync", "tick", "tick"}), B: r.Intn(3)}
			}
			op.Gs[gi] = append(op.Gs[gi], a)
		}
	}
	return op
}

func c04Gen(r *Rand, tier string, emit func(op any)) {
	nprog, maxActs, nhost, nhist := 170, 40, 30, 1500
	if tier == "thorough" {
		nprog, maxActs, nhost, nhist = 900, 100, 150, 20000
	}
	// grid 1: every sink kind alone and in a tee with a Lock(sink) branch, 4 goroutines × every front end at every level
	for _, sink := range []string{"lock", "open", "openfile", "open2", "combine", "bws", "bwslock", "bwsopen"} {
		for _, tee := range []bool{false, true} {
			cfg := c04Cfg{Br: []c04Branch{{Sink: sink, Size: 256, Enc: "json", Min: -1}}, Children: 2, Gomax: 4, Gosched: 2, SafeRec: tee}
			if tee {
				cfg.Br = append(cfg.Br, c04Branch{Sink: "lock", Size: 0, Enc: "console", Min: 0})
			}
			op := c04Prog{K: "prog", Cfg: cfg, Gs: make([][]c04Act, 4)}
			for g := range op.Gs {
				op.Gs[g] = []c04Act{}
				for i, fe := range c04Fes {
					for _, lvl := range c04FeLevels(fe) {
						op.Gs[g] = append(op.Gs[g], c04Act{A: "log", Fe: fe, Lvl: lvl, Sz: (i*37 + g*11) % 300})
					}
					switch (i + g) % 4 {
					case 0:
						op.Gs[g] = append(op.Gs[g], c04Act{A: "tick", B: 0})
					case 1:
						op.Gs[g] = append(op.Gs[g], c04Act{A: "child", Child: g % 3})
					case 2:
						op.Gs[g] = append(op.Gs[g], c04Act{A: "sync"})
					}
				}
			}
			emit(op)
		}
	}
	// grid 2: identical programs on 2, 4, 8 goroutines hammering one line size at the buffer boundary
	for _, g := range []int{2, 4, 8} {
		for _, sz := range []int{0, 150, 186, 187, 400} {
			cfg := c04Cfg{Br: []c04Branch{{Sink: "bws", Size: 256, Enc: "json", Min: -1}, {Sink: "combine", Enc: "json2", Min: -1}}, Gomax: 8, Gosched: 1, SafeRec: g == 4}
			op := c04Prog{K: "prog", Cfg: cfg, Gs: make([][]c04Act, g)}
			for gi := range op.Gs {
				op.Gs[gi] = []c04Act{}
				for k := 0; k < 25; k++ {
					op.Gs[gi] = append(op.Gs[gi], c04Act{A: "log", Fe: "plain", Lvl: 0, Sz: sz + k%3})
					if k%7 == gi%7 {
						op.Gs[gi] = append(op.Gs[gi], c04Act{A: "tick"})
					}
				}
			}
			emit(op)
		}
	}
	// grid 3: goroutine-local children in every derivation flavour, derived concurrently from ONE shared template that
	// is never logged through (base, With, WithLazy with spare capacity, Sugar().WithLazy, lazy-on-lazy); siblings are
	// derived again between entries, and derived further from the goroutine's own child
	for ti, tmpl := range c04Tmpls {
		for fi, fl := range c04Flavours {
			g := []int{2, 4, 8}[(ti+fi)%3]
			cfg := c04Cfg{Br: []c04Branch{{Sink: "lock", Enc: "json", Min: -1}, {Sink: Pick(r, []string{"bws", "combine", "lock"}), Size: 256, Enc: Pick(r, []string{"console", "json2"}), Min: -1}},
				Gomax: 8, Gosched: 1 + (ti+fi)%3, SafeRec: (ti+fi)%2 == 0, Tmpl: tmpl}
			op := c04Prog{K: "prog", Cfg: cfg, Gs: make([][]c04Act, g)}
			for gi := range op.Gs {
				acts := []c04Act{{A: "derive", Fe: fl, Child: 1}}
				for k := 0; k < 4; k++ {
					acts = append(acts, c04Act{A: "log", Fe: Pick(r, []string{"plain", "sugarw", "check", "slog", "corewrite"}), Lvl: k % 3, Sz: 5 * k})
				}
				acts = append(acts, c04Act{A: "derive", Fe: c04Flavours[(fi+gi+1)%len(c04Flavours)], Child: 1})
				acts = append(acts, c04Act{A: "log", Fe: "plain", Lvl: 0, Sz: 3}, c04Act{A: "log", Fe: "sugarw", Lvl: 1, Sz: 9})
				acts = append(acts, c04Act{A: "derive", Fe: fl, Child: 0})
				acts = append(acts, c04Act{A: "log", Fe: "log", Lvl: 2, Sz: 1}, c04Act{A: "log", Fe: "std", Lvl: 0, Sz: 2})
				op.Gs[gi] = acts
			}
			emit(op)
		}
	}
	// grid 4: every goroutine first logs entries whose extra field fails to encode (failing reflection, failing
	// marshaler, panicking Stringer / error), then all of them encode at once for a while
	for pi, poison := range c04Poisons {
		for _, g := range []int{4, 8} {
			cfg := c04Cfg{Br: []c04Branch{{Sink: "lock", Enc: "json", Min: -1}, {Sink: []string{"combine", "bws", "lock"}[pi%3], Size: 512, Enc: []string{"json2", "console"}[pi%2], Min: -1}},
				Gomax: []int{8, 16}[pi%2], Gosched: 1 + pi%3, SafeRec: pi%2 == 0}
			op := c04Prog{K: "prog", Cfg: cfg, Gs: make([][]c04Act, g)}
			for gi := range op.Gs {
				acts := []c04Act{}
				for k := 0; k < 2; k++ {
					acts = append(acts, c04Act{A: "log", Fe: c04PoisonFes[(pi+gi+k)%len(c04PoisonFes)], Lvl: k, Sz: 4 * k, P: poison})
				}
				for k := 0; k < 30; k++ {
					acts = append(acts, c04Act{A: "log", Fe: []string{"plain", "sugarw", "check"}[k%3], Lvl: k % 3, Sz: (k * 13) % 120})
					if k == 12+gi {
						acts = append(acts, c04Act{A: "log", Fe: "log", Lvl: 1, Sz: 7, P: c04Poisons[(pi+1)%len(c04Poisons)]})
					}
				}
				op.Gs[gi] = acts
			}
			emit(op)
		}
	}
	// grid 5: one registered-scheme URL opened more than once (the factory returns a fresh recorder per call): two
	// branches of one tee; two / three separately built loggers (each alone, or next to a Lock(sink) branch); loggers
	// from zap.Config.Build — every recorder must hold exactly the lines of its own logger and branch
	for i, cfg := range []c04Cfg{
		{Br: []c04Branch{{Sink: "reopen", Enc: "json", Min: -1}, {Sink: "reopen", Enc: "json2", Min: 0}}},
		{Br: []c04Branch{{Sink: "reopen", Enc: "json", Min: -1}, {Sink: "reopen", Enc: "console", Min: -1}, {Sink: "lock", Enc: "json", Min: -1}}},
		{Br: []c04Branch{{Sink: "reopen", Enc: "json", Min: -1}}, Loggers: 2},
		{Br: []c04Branch{{Sink: "reopen", Enc: "json2", Min: 0}, {Sink: "lock", Enc: "json", Min: -1}}, Loggers: 2},
		{Br: []c04Branch{{Sink: "reopen", Enc: "console", Min: -1}}, Loggers: 3},
		{Br: []c04Branch{{Sink: "reopen", Enc: "json", Min: -1}}, Loggers: 2, Via: "config"},
		{Br: []c04Branch{{Sink: "reopen", Enc: "json2", Min: 0}}, Loggers: 3, Via: "config", Caller: true},
		{Br: []c04Branch{{Sink: "reopen", Enc: "console", Min: -1}}, Loggers: 2, Via: "config", Sampler: true},
	} {
		for _, safe := range []bool{false, true} {
			cfg.Gomax, cfg.Gosched, cfg.SafeRec, cfg.Children = 8, 1+i%2, safe, 1
			g := []int{4, 6, 8}[i%3]
			op := c04Prog{K: "prog", Cfg: cfg, Gs: make([][]c04Act, g)}
			for gi := range op.Gs {
				acts := []c04Act{}
				for k := 0; k < 24; k++ {
					acts = append(acts, c04Act{A: "log", Fe: []string{"plain", "sugarw", "check", "std"}[(k+gi)%4], Lvl: k % 3, Sz: (k * 17) % 200})
					if k == 8 {
						acts = append(acts, c04Act{A: "child", Child: 0})
					}
				}
				op.Gs[gi] = acts
			}
			emit(op)
		}
	}
	// grid 6: the tees of two / three loggers are built from ONE caller-owned core slice that contains switched-off
	// (no-op) cores at various positions
	for i, nops := range [][]int{{0}, {1}, {2}, {0, 2}, {1, 1}, {0, 1, 3}, {}} {
		for _, loggers := range []int{2, 3} {
			cfg := c04Cfg{Br: []c04Branch{{Sink: "lock", Enc: "json", Min: -1}, {Sink: []string{"bws", "combine", "open"}[i%3], Size: 256, Enc: "json2", Min: -1}},
				Gomax: 8, Gosched: 2, SafeRec: i%2 == 0, Loggers: loggers, Share: true, Nops: nops}
			op := c04Prog{K: "prog", Cfg: cfg, Gs: make([][]c04Act, 2*loggers)}
			for gi := range op.Gs {
				acts := []c04Act{}
				for k := 0; k < 12; k++ {
					acts = append(acts, c04Act{A: "log", Fe: []string{"plain", "sugarw", "check"}[(k+gi)%3], Lvl: k % 3, Sz: (k * 11) % 90})
				}
				op.Gs[gi] = acts
			}
			emit(op)
		}
	}
	for i := 0; i < nprog; i++ {
		emit(c04GenProg(r, maxActs, false))
	}
	for i := 0; i < nhost; i++ {
		emit(c04GenProg(r, maxActs, true))
	}
	for i := 0; i < nhist; i++ {
		emit(c04GenHist(r))
	}
}

// c04GenHist draws a synthetic history: per-goroutine line lists, a random merge, one of the three sink shapes, and
// (in half of the cases) a mutation that may or may not invalidate it.
func c04GenHist(r *Rand) c04Hist {
	g := 1 + r.Intn(4)
	small := r.Chance(1, 5) // tiny alphabet: equal lines within and across goroutines (bounded so that a search stays small)
	if small && g > 3 {
		g = 3
	}
	per := make([][][]byte, g)
	for gi := range per {
		n := r.Intn(6)
		if small {
			n = r.Intn(4)
		}
		per[gi] = [][]byte{}
		for i := 0; i < n; i++ {
			var l []byte
			switch {
			case small:
				l = []byte(Pick(r, []string{"a\n", "b\n", "\n", "ab\n"}))
			case r.Chance(1, 25):
				l = r.Bytes(12) // hostile: may contain '\n' inside or lack the final one
			default:
				l = []byte(fmt.Sprintf("{\"g\":%d,\"i\":%d,\"p\":\"%s\"}\n", gi, i, strings.Repeat("x", r.Intn(20))))
			}
			per[gi] = append(per[gi], l)
		}
	}
	// random merge
	ix := make([]int, g)
	var lines [][]byte
	for {
		var cand []int
		for gi := range per {
			if ix[gi] < len(per[gi]) {
				cand = append(cand, gi)
			}
		}
		if len(cand) == 0 {
			break
		}
		gi := Pick(r, cand)
		lines = append(lines, per[gi][ix[gi]])
		ix[gi]++
	}
	// line-level mutation
	if len(lines) > 0 {
		i := r.Intn(len(lines))
		switch r.Intn(12) {
		case 0: // lost
			lines = append(lines[:i:i], lines[i+1:]...)
		case 1: // duplicated
			lines = append(lines[:i+1:i+1], lines[i:]...)
		case 2: // two lines swapped (valid iff they belong to different goroutines or are equal)
			j := r.Intn(len(lines))
			lines[i], lines[j] = lines[j], lines[i]
		case 3: // torn: two neighbours interleaved byte-wise
			if i+1 < len(lines) {
				a, b := lines[i], lines[i+1]
				var t []byte
				for k := 0; k < len(a) || k < len(b); k++ {
					if k < len(a) {
						t = append(t, a[k])
					}
					if k < len(b) {
						t = append(t, b[k])
					}
				}
				lines = append(append(lines[:i:i], t), lines[i+2:]...)
			}
		case 4: // merged: a line loses its '\n'
			lines[i] = bytes.TrimSuffix(append([]byte(nil), lines[i]...), []byte("\n"))
		case 5: // a foreign byte
			l := append([]byte(nil), lines[i]...)
			if len(l) > 0 {
				l[r.Intn(len(l))] ^= 1
			}
			lines[i] = l
		}
	}
	mode := Pick(r, []string{"stream", "calls", "lines"})
	var calls [][]byte
	switch mode {
	case "lines":
		calls = lines
	case "calls":
		for i := 0; i < len(lines); {
			n := 1 + r.Intn(3)
			if i+n > len(lines) {
				n = len(lines) - i
			}
			calls = append(calls, bytes.Join(lines[i:i+n], nil))
			i += n
		}
	default:
		s := bytes.Join(lines, nil)
		for len(s) > 0 {
			n := 1 + r.Intn(16)
			if n > len(s) {
				n = len(s)
			}
			calls = append(calls, s[:n])
			s = s[n:]
		}
	}
	// call-level mutation: a write split in two / two writes joined / an empty write
	if len(calls) > 0 && r.Chance(1, 4) {
		i := r.Intn(len(calls))
		c := calls[i]
		switch r.Intn(3) {
		case 0:
			if len(c) > 1 {
				k := 1 + r.Intn(len(c)-1)
				calls = append(append(calls[:i:i], c[:k], c[k:]), calls[i+1:]...)
			}
		case 1:
			if i+1 < len(calls) {
				calls = append(append(calls[:i:i], append(append([]byte(nil), c...), calls[i+1]...)), calls[i+2:]...)
			}
		default:
			calls = append(append(calls[:i:i], []byte{}), calls[i:]...)
		}
	}
	if calls == nil {
		calls = [][]byte{}
	}
	return c04MkHist(mode, per, calls)
}

func runCmd(path string, args []string, stdin []byte, timeout time.Duration) ([]byte, error) {
	ctx, cancel := context.WithTimeout(context.Background(), timeout)
	defer cancel()
	cmd := exec.CommandContext(ctx, path, args...)
	cmd.Stdin = bytes.NewReader(stdin)
	var out, errb bytes.Buffer
	cmd.Stdout, cmd.Stderr = &out, &errb
	if err := cmd.Run(); err != nil {
		return nil, fmt.Errorf("%s: %v: %s", path, err, truncStr(errb.String(), 500))
	}
	return out.Bytes(), nil
}
