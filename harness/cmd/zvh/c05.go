package main

import (
	"bytes"
	"encoding/hex"
	"encoding/json"
	"fmt"
	"sort"
	"strconv"
	"strings"

	"go.uber.org/zap"
	"go.uber.org/zap/zapcore"
	"go.uber.org/zap/zapgrpc"
)

// C05 — an entry is written exactly where its level is enabled; reported levels agree.
//
// op {"k":"tree","tree":<node>,"atomics":[t…],"dev":bool,"calls":[call…]}
//   call {"c":"set","i":i,"t":t}                    AtomicLevel i := t
//        {"c":"q"}                                  → levelOf / Logger.Level / Sugar.Level / Enabled for all 256 levels / V
//        {"c":"log","fe":"Recv.Name","l":l,"fs":[…]} → en, seq (spy events in order), obs (observer leaves)
// impl {"build":[marshal events while building],"rej":[refused IncreaseLevel ids],"calls":[…]}

type c05Call struct {
	C  string `json:"c"`
	I  int    `json:"i,omitempty"`
	T  int    `json:"t,omitempty"`
	FE string `json:"fe,omitempty"`
	L  int    `json:"l,omitempty"`
	Fs []fldJ `json:"fs,omitempty"`
	// Flip (Logger.Check only, exec only): every AtomicLevel is raised above Fatal AFTER Check returned and restored after
	// the Write — Core.Write "should always log the Entry and Fields; it should not replicate the logic of Check"
	Flip bool `json:"flip,omitempty"`
}

type c05Op struct {
	K       string    `json:"k"`
	Tree    nodeJ     `json:"tree"`
	Atomics []int     `json:"atomics"`
	Dev     bool      `json:"dev,omitempty"`
	Calls   []c05Call `json:"calls"`
}

func init() {
	props["C05"] = &Prop{Gen: c05Gen, Exec: c05Exec}
}

// ---------------------------------------------------------------- generator

type treeGen struct {
	r        *Rand
	nextID   int
	nextKey  int
	nAtomics int
	atomics  []int
	hostile  bool
}

func (g *treeGen) id() int { g.nextID++; return g.nextID }

func (g *treeGen) keys(max int) []fldJ {
	n := g.r.Intn(max + 1)
	out := []fldJ{}
	for i := 0; i < n; i++ {
		g.nextKey++
		out = append(out, fldJ{Key: g.nextKey, Ref: -1})
	}
	return out
}

var thresholdMasks = []int{0x7f, 0x7e, 0x7c, 0x78, 0x70, 0x60, 0x40, 0x00}

func (g *treeGen) enab() *enabJ {
	switch x := g.r.Intn(10); {
	case x < 6:
		e := &enabJ{K: "fn"}
		if g.r.Chance(1, 2) {
			e.Mask = g.r.Intn(128) // arbitrary, also non-monotone
		} else {
			e.Mask = Pick(g.r, thresholdMasks)
		}
		p := 5
		if g.hostile {
			p = 2
		}
		e.Lo, e.Hi = g.r.Chance(1, p), g.r.Chance(1, p)
		return e
	case x < 8 || g.nAtomics == 0:
		return &enabJ{K: "lvl", T: g.r.Intn(12) - 3}
	default:
		return &enabJ{K: "atomic", I: g.r.Intn(g.nAtomics)}
	}
}

// codeEnabledMask: what `Enabled` of the built core answers on the valid levels (generator only: used to make most
// IncreaseLevel wrappers pass validation).
func (g *treeGen) codeEnabledMask(n *nodeJ) int {
	s := &specStore{atomics: g.atomics}
	m := 0
	for l := -1; l <= 5; l++ {
		if g.codeEnabled(s, n, l) {
			m |= 1 << uint(l+1)
		}
	}
	return m
}

func (g *treeGen) codeEnabled(s *specStore, n *nodeJ, l int) bool {
	switch n.T {
	case "leaf":
		return s.on(n.En, l)
	case "nop":
		return false
	case "tee":
		for i := range n.Cs {
			if g.codeEnabled(s, &n.Cs[i], l) {
				return true
			}
		}
		return false
	case "incr":
		ok := true
		for v := -1; v <= 5; v++ {
			if s.on(n.En, v) && !g.codeEnabled(s, n.C, v) {
				ok = false
			}
		}
		if ok {
			return s.on(n.En, l)
		}
	}
	return g.codeEnabled(s, n.C, l)
}

func (g *treeGen) node(depth int) nodeJ {
	x := g.r.Intn(100)
	if depth <= 0 {
		if x < 8 {
			return nodeJ{T: "nop"}
		}
		return nodeJ{T: "leaf", ID: g.id(), IO: g.r.Chance(1, 2), En: g.enab()}
	}
	switch {
	case x < 18:
		return nodeJ{T: "leaf", ID: g.id(), IO: g.r.Chance(1, 2), En: g.enab()}
	case x < 20:
		return nodeJ{T: "nop"}
	case x < 42:
		k := g.r.Intn(4)
		if g.r.Chance(2, 3) {
			k = 2 + g.r.Intn(2)
		}
		cs := []nodeJ{}
		for i := 0; i < k; i++ {
			cs = append(cs, g.node(depth-1))
		}
		return nodeJ{T: "tee", Cs: cs}
	case x < 58:
		c := g.node(depth - 1)
		en := g.enab()
		if en.K == "fn" && g.r.Chance(4, 5) {
			en.Mask &= g.codeEnabledMask(&c) // passes validation
		} else if en.K == "lvl" && g.r.Chance(2, 3) {
			// raise the threshold until it only enables what the core enables
			m := g.codeEnabledMask(&c)
			for en.T <= 5 {
				okk := true
				for v := -1; v <= 5; v++ {
					if v >= en.T && m>>(uint(v+1))&1 == 0 {
						okk = false
					}
				}
				if okk {
					break
				}
				en.T++
			}
		}
		return nodeJ{T: "incr", ID: g.id(), C: &c, En: en}
	case x < 72:
		c := g.node(depth - 1)
		return nodeJ{T: "hook", ID: g.id(), C: &c}
	case x < 82:
		c := g.node(depth - 1)
		return nodeJ{T: "samp", ID: g.id(), C: &c, Pass: g.r.Chance(3, 5)}
	case x < 93:
		c := g.node(depth - 1)
		return nodeJ{T: "lazy", ID: g.id(), C: &c, Fs: g.keys(2)}
	default:
		c := g.node(depth - 1)
		return nodeJ{T: "with", C: &c, Fs: g.keys(2)}
	}
}

var probeLevels = []int{-1, 0, 1, 2, 3, 4, 5, -128, -2, 6, 7, 127}

func (g *treeGen) logCalls(fes []feSpec, levels []int, viaRandomFE int) []c05Call {
	calls := []c05Call{}
	for _, l := range levels {
		calls = append(calls, c05Call{C: "log", FE: "Logger.Log", L: l, Fs: g.keys(1)})
	}
	for i := 0; i < viaRandomFE; i++ {
		fe := Pick(g.r, fes)
		l := fe.level
		if l == 99 {
			l = Pick(g.r, probeLevels)
			if g.r.Chance(1, 6) {
				l = g.r.Intn(256) - 128
			}
		}
		fs := []fldJ{}
		if fe.fields {
			fs = g.keys(2)
		}
		calls = append(calls, c05Call{C: "log", FE: fe.key(), L: l, Fs: fs, Flip: fe.key() == "Logger.Check" && len(calls)%2 == 0})
	}
	return calls
}

func c05Gen(r *Rand, tier string, emit func(op any)) {
	fes := allFrontEnds()
	thorough := tier == "thorough"
	// 1. exhaustive: all 2^7 enablers on the small shapes (depth ≤ 2), all valid levels
	for mask := 0; mask < 128; mask++ {
		full := &enabJ{K: "fn", Mask: 0x7f}
		e := &enabJ{K: "fn", Mask: mask, Hi: mask&1 == 1, Lo: mask&2 == 2}
		leaf := func(id int, en *enabJ, io bool) nodeJ { return nodeJ{T: "leaf", ID: id, IO: io, En: en} }
		l1, l2 := leaf(1, e, mask&4 == 4), leaf(2, full, true)
		shapes := []nodeJ{
			l1,
			{T: "incr", ID: 3, C: &l2, En: e},
			{T: "tee", Cs: []nodeJ{l1, {T: "hook", ID: 4, C: &nodeJ{T: "leaf", ID: 5, IO: false, En: &enabJ{K: "fn", Mask: mask ^ 0x55}}}}},
			{T: "lazy", ID: 6, C: &l1, Fs: kf(90)},
			{T: "samp", ID: 7, C: &l1, Pass: mask&8 == 8},
			{T: "tee", Cs: []nodeJ{{T: "nop"}, {T: "incr", ID: 8, C: &l1, En: &enabJ{K: "fn", Mask: mask & 0x3c}}}},
		}
		for _, s := range shapes {
			calls := []c05Call{{C: "q"}}
			if mask&1 == 1 {
				calls = append(calls, c05Call{C: "sync"})
			}
			for _, l := range []int{-1, 0, 1, 2, 3, 4, 5, 6, -2} {
				calls = append(calls, c05Call{C: "log", FE: "Logger.Log", L: l, Fs: kf(91)})
			}
			emit(c05Op{K: "tree", Tree: s, Atomics: []int{}, Dev: mask&16 == 16, Calls: calls})
		}
	}
	// 1b. siblings derived from ONE parent core: k rounds of hooks over a leaf (the parent, built once and shared), then two
	//     (or three) sibling wrappers each adding its own hook — each sibling must run the parent's hooks and its own, never
	//     a sibling's (append into a shared backing array with spare capacity would mix them up)
	for k := 0; k <= 8; k++ {
		for _, io := range []bool{false, true} {
			sub := nodeJ{T: "leaf", ID: 1, IO: io, En: &enabJ{K: "fn", Mask: 0x7f}}
			for j := 0; j < k; j++ {
				inner := sub
				sub = nodeJ{T: "hook", ID: 10 + j, C: &inner}
			}
			sub.Sh = 1
			nsib := 2 + k%2
			sibs := []nodeJ{}
			for j := 0; j < nsib; j++ {
				c := sub
				sibs = append(sibs, nodeJ{T: "hook", ID: 50 + j, C: &c})
			}
			calls := []c05Call{{C: "q"}}
			for _, l := range []int{0, 2, 4} {
				calls = append(calls, c05Call{C: "log", FE: "Logger.Log", L: l, Fs: kf(92)})
			}
			emit(c05Op{K: "tree", Tree: nodeJ{T: "tee", Cs: sibs}, Atomics: []int{}, Calls: calls})
		}
	}
	// 2. every front end over a fixed two-branch tree, enabled and disabled
	for _, fe := range fes {
		for _, thr := range []int{0x7f, 0x60, 0x00} {
			a := nodeJ{T: "leaf", ID: 1, IO: true, En: &enabJ{K: "fn", Mask: thr}}
			b := nodeJ{T: "leaf", ID: 2, IO: false, En: &enabJ{K: "fn", Mask: thr}}
			lz := nodeJ{T: "lazy", ID: 3, C: &a, Fs: kf(80)}
			tree := nodeJ{T: "tee", Cs: []nodeJ{lz, {T: "hook", ID: 4, C: &b}}}
			levels := []int{fe.level}
			if fe.level == 99 {
				levels = []int{-1, 1, 3, 4, 5, 7, -9}
			}
			calls := []c05Call{}
			for _, l := range levels {
				fs := []fldJ{}
				if fe.fields {
					fs = kf(81)
				}
				calls = append(calls, c05Call{C: "log", FE: fe.key(), L: l, Fs: fs})
			}
			emit(c05Op{K: "tree", Tree: tree, Atomics: []int{}, Dev: thr == 0x60, Calls: calls})
		}
	}
	// 3. random trees
	n, maxDepth := 2500, 6
	if thorough {
		n, maxDepth = 60000, 10
	}
	for i := 0; i < n; i++ {
		g := &treeGen{r: r, nAtomics: r.Intn(3), hostile: i%5 == 4}
		for j := 0; j < g.nAtomics; j++ {
			t := r.Intn(8) - 1
			if r.Chance(1, 8) {
				t = r.Intn(40) - 20
			}
			g.atomics = append(g.atomics, t)
		}
		if g.atomics == nil {
			g.atomics = []int{}
		}
		tree := g.node(1 + r.Intn(maxDepth))
		calls := []c05Call{{C: "q"}}
		if i%3 == 0 {
			calls = append(calls, c05Call{C: "sync"}) // before anything was logged: lazy cores are still unbuilt
		}
		if i%40 == 0 {
			all := make([]int, 0, 256)
			for l := -128; l <= 127; l++ {
				all = append(all, l)
			}
			calls = append(calls, g.logCalls(fes, all, 0)...)
		} else {
			calls = append(calls, g.logCalls(fes, probeLevels, 4)...)
		}
		// AtomicLevel changes interleaved with log calls
		for round := 0; round < 2 && g.nAtomics > 0; round++ {
			k := r.Intn(g.nAtomics)
			t := r.Intn(9) - 2
			calls = append(calls, c05Call{C: "set", I: k, T: t}, c05Call{C: "q"})
			calls = append(calls, g.logCalls(fes, []int{-1, 0, 1, 2, 3, 4, 5, Pick(r, []int{-7, 6, 9})}, 2)...)
		}
		if i%2 == 0 {
			calls = append(calls, c05Call{C: "sync"})
		}
		emit(c05Op{K: "tree", Tree: tree, Atomics: g.atomics, Dev: r.Bool(), Calls: calls})
	}
}

// ---------------------------------------------------------------- executor + oracle

func enabledBitmap(c zapcore.Core) []byte {
	bm := make([]byte, 32)
	for i := 0; i < 256; i++ {
		if c.Enabled(zapcore.Level(i - 128)) {
			bm[i/8] |= 1 << uint(i%8)
		}
	}
	return bm
}

func bit(bm []byte, l int) bool { i := l + 128; return bm[i/8]>>uint(i%8)&1 == 1 }

func c05Exec(raw json.RawMessage) Result {
	var op c05Op
	unmarshal(raw, &op)
	allFrontEnds()
	w := newWorld(op.Atomics, nil)
	// a level filter at the root of an odd-numbered tree is installed the way applications do it — the option
	// zap.IncreaseLevel on the logger — instead of zapcore.NewIncreaseLevelCore: same filter, same refusal rule
	viaOption := op.Tree.T == "incr" && op.Tree.C != nil && op.Tree.ID%2 == 1
	var core zapcore.Core
	if viaOption {
		core = w.build(op.Tree.C)
	} else {
		core = w.build(&op.Tree)
	}
	buildEvs := w.rec.take()
	opts := []zap.Option{zap.WithPanicHook(spyTerm{"panic", w.rec}), zap.WithFatalHook(spyTerm{"fatal", w.rec})}
	if op.Dev {
		opts = append(opts, zap.Development())
	}
	var optErr bytes.Buffer
	if viaOption {
		opts = append(opts, zap.ErrorOutput(zapcore.AddSync(&optErr)), zap.IncreaseLevel(w.enabler(op.Tree.En)))
	}
	lg := zap.New(core, opts...)
	if viaOption && optErr.Len() > 0 {
		w.rejected = append(w.rejected, op.Tree.ID) // the option refused (it would have lowered the level) and said so
	}

	rejected := map[int]bool{}
	for _, id := range w.rejected {
		rejected[id] = true
	}
	paths := specPaths(&op.Tree, rejected)
	spec := &specStore{atomics: append([]int{}, op.Atomics...)}
	changed := false
	hasIncr := false
	var walk func(n *nodeJ)
	walk = func(n *nodeJ) {
		if n.T == "incr" && !rejected[n.ID] {
			hasIncr = true
		}
		if n.C != nil {
			walk(n.C)
		}
		for i := range n.Cs {
			walk(&n.Cs[i])
		}
	}
	walk(&op.Tree)
	_, kinds := treeStats(&op.Tree)
	verdict := ok()
	fail := func(o Oracle) {
		if verdict.OK {
			verdict = o
		}
	}
	// classify "Enabled says yes, no level-open path": the IncreaseLevel family or a plain violation
	enabledNotDelivered := func(l int, where string) {
		switch {
		case hasIncr && (l < -1 || l > 5):
			fail(bad("C05:incr-enabled-oob:level∉[-1,5]", "%s: Enabled(%d) = true but no path to any leaf is open at that level", where, l))
		case hasIncr && changed:
			fail(bad("C05:incr-enabled-stale:atomic-changed-after-IncreaseLevel", "%s: Enabled(%d) = true but no path is open (an AtomicLevel was changed after the wrapper was validated)", where, l))
		default:
			fail(bad("C05:enabled-not-delivered", "%s: Enabled(%d) = true but no path to any leaf is open at that level", where, l))
		}
	}
	specEnabled := func(l int) bool {
		for i := range paths {
			if spec.levelOpen(&paths[i], l) {
				return true
			}
		}
		return false
	}

	results := []any{}
	delivered, undelivered := 0, 0
	for ci, call := range op.Calls {
		where := fmt.Sprintf("call %d", ci)
		switch call.C {
		case "set":
			// the level of an AtomicLevel that cores already use is changed either way: SetLevel, or (for the named levels) the
			// text path that flags, config reloads and the HTTP endpoint take
			if call.T >= -1 && call.T <= 5 && ci%2 == 1 {
				must(w.atomics[call.I].UnmarshalText([]byte(zapcore.Level(call.T).String())))
			} else {
				w.atomics[call.I].SetLevel(zapcore.Level(call.T))
			}
			spec.atomics[call.I] = call.T
			changed = true
			results = append(results, map[string]any{"c": "set"})
		case "sync":
			// Logger.Sync must reach the sink of every io leaf through every wrapper (a lazy core is initialised by it)
			_ = lg.Sync()
			seq := w.rec.take()
			_ = w.drainObs()
			var synced, want []int
			for _, e := range seq {
				if strings.HasPrefix(e, "y") {
					id, _ := strconv.Atoi(e[1:])
					synced = append(synced, id)
				}
			}
			for _, p := range paths {
				if p.io {
					want = append(want, p.leaf)
				}
			}
			if fmt.Sprint(synced) != fmt.Sprint(want) {
				fail(bad("C05:sync-skipped-leaf", "%s: Logger.Sync synced the sinks of io leaves %v, want %v", where, synced, want))
			}
			results = append(results, map[string]any{"c": "sync", "seq": seq})
		case "q":
			bm := enabledBitmap(lg.Core())
			lo := int(zapcore.LevelOf(lg.Core()))
			ll, sl := int(lg.Level()), int(lg.Sugar().Level())
			gl := zapgrpc.NewLogger(lg)
			vs := []bool{}
			for v := -1; v <= 4; v++ {
				vs = append(vs, gl.V(v))
			}
			results = append(results, map[string]any{"c": "q", "levelOf": lo, "level": ll, "slevel": sl, "enabled": hex.EncodeToString(bm), "V": vs})
			// oracle: Enabled agrees with the path product for all 256 levels
			any256 := false
			for l := -128; l <= 127; l++ {
				en, sp := bit(bm, l), specEnabled(l)
				any256 = any256 || en
				if en && !sp {
					enabledNotDelivered(l, where)
				} else if !en && sp {
					fail(bad("C05:enabled-false-but-open", "%s: Enabled(%d) = false although a path to a leaf is open", where, l))
				}
			}
			// reported minimum level agrees with Enabled
			min := 6
			for l := 5; l >= -1; l-- {
				if bit(bm, l) {
					min = l
				}
			}
			clamp := func(L int) int {
				if L > 5 {
					return 6
				}
				if L < -1 {
					return -1
				}
				return L
			}
			if clamp(lo) != min || (!any256 && lo != 6) {
				fail(bad("C05:levelof-inconsistent", "%s: LevelOf = %d but the least valid enabled level is %d (6 = none)", where, lo, min))
			}
			if ll != lo || sl != lo {
				fail(bad("C05:logger-level", "%s: Logger.Level %d / Sugar.Level %d differ from LevelOf(core) %d", where, ll, sl, lo))
			}
			for v, zl := range []int{0, 1, 2, 5} {
				if vs[v+1] != bit(bm, zl) {
					fail(bad("C05:grpc-V", "%s: V(%d) = %v but Enabled(%d) = %v", where, v, vs[v+1], zl, bit(bm, zl)))
				}
			}
		case "log":
			fe, okf := frontEndMap[call.FE]
			if !okf {
				panic("unknown front end " + call.FE)
			}
			l := call.L
			if fe.level != 99 {
				l = fe.level
			}
			en := lg.Core().Enabled(zapcore.Level(l))
			if call.Flip && call.FE == "Logger.Check" {
				saved := make([]zapcore.Level, len(w.atomics))
				ran := false
				betweenCheckAndWrite = func() {
					ran = true
					for i, a := range w.atomics {
						saved[i] = a.Level()
						a.SetLevel(zapcore.FatalLevel + 1)
					}
				}
				fe.call(lg, zapcore.Level(l), "m", w.fields(call.Fs))
				betweenCheckAndWrite = nil
				if ran {
					for i, a := range w.atomics {
						a.SetLevel(saved[i])
					}
				}
			} else {
				fe.call(lg, zapcore.Level(l), "m", w.fields(call.Fs))
			}
			seq := w.rec.take()
			obs := w.drainObs()
			results = append(results, map[string]any{"c": "log", "en": en, "seq": seq, "obs": obs})

			// ---- oracle: path products
			inRange := l >= -1 && l <= 5
			wantWrites := map[int]int{}
			wantHooks := map[int]int{} // per hook id: the number of hook NODES with that id whose wrapped core accepts the entry
			seenHookNode := map[*nodeJ]bool{}
			anyOpen := false
			for i := range paths {
				p := &paths[i]
				if !spec.levelOpen(p, l) {
					continue
				}
				anyOpen = true
				if p.drops && inRange {
					continue
				}
				wantWrites[p.leaf]++
				for k, h := range p.hooks {
					if !seenHookNode[p.hookNs[k]] {
						seenHookNode[p.hookNs[k]] = true
						wantHooks[h]++
					}
				}
			}
			gotWrites, gotHooks := map[int]int{}, map[int]int{}
			marshals, samps, sinkOps := 0, 0, 0
			for _, e := range seq {
				switch e[0] {
				case 'w':
					id, _ := strconv.Atoi(e[1:strings.IndexByte(e, ':')])
					gotWrites[id]++
					sinkOps++
				case 'y':
					sinkOps++
				case 'h':
					id, _ := strconv.Atoi(e[1:])
					gotHooks[id]++
				case 'm':
					marshals++
				case 's':
					samps++
				}
			}
			for _, o := range obs {
				id, _ := strconv.Atoi(o[0][1:])
				gotWrites[id]++
				sinkOps++
			}
			if !anyOpen {
				// a disabled entry: no field marshaling, no hook call, no sink activity
				switch {
				case sinkOps > 0:
					fail(bad("C05:delivered-where-disabled", "%s: level %d is disabled on every path but sinks saw %v %v", where, l, seq, obs))
				case len(gotHooks) > 0 || samps > 0:
					fail(bad("C05:disabled-hook-call", "%s: level %d is disabled on every path but a hook ran: %v", where, l, seq))
				case marshals > 0 && kinds["lazy"]:
					fail(bad("C05:disabled-marshals:lazy", "%s: level %d is disabled on every path but %d fields were marshaled (pending WithLazy fields): %v", where, l, marshals, seq))
				case marshals > 0:
					fail(bad("C05:disabled-marshals", "%s: level %d is disabled on every path but %d fields were marshaled: %v", where, l, marshals, seq))
				}
				if en {
					enabledNotDelivered(l, where)
				}
				undelivered++
			} else {
				if !en {
					fail(bad("C05:enabled-false-but-open", "%s: Enabled(%d) = false although a path to a leaf is open", where, l))
				}
				ids := map[int]bool{}
				for id := range wantWrites {
					ids[id] = true
				}
				for id := range gotWrites {
					ids[id] = true
				}
				for id := range ids {
					switch {
					case gotWrites[id] > wantWrites[id]:
						fail(bad("C05:delivered-where-disabled", "%s: leaf %d received %d writes at level %d, its path product allows %d", where, id, gotWrites[id], l, wantWrites[id]))
					case gotWrites[id] < wantWrites[id]:
						fail(bad("C05:not-delivered-where-enabled", "%s: leaf %d received %d writes at level %d, every filter on its path is open (%d expected)", where, id, gotWrites[id], l, wantWrites[id]))
					}
				}
				hs := map[int]bool{}
				for h := range wantHooks {
					hs[h] = true
				}
				for h := range gotHooks {
					hs[h] = true
				}
				for h := range hs {
					switch {
					case wantHooks[h] == 0:
						fail(bad("C05:hook-fired-without-accept", "%s: hook %d ran %d time(s) at level %d although its wrapped core accepted nothing", where, h, gotHooks[h], l))
					case gotHooks[h] < wantHooks[h]:
						fail(bad("C05:hook-missing", "%s: hook %d ran %d time(s), its wrapped core accepted the entry through %d wrapper(s)", where, h, gotHooks[h], wantHooks[h]))
					case gotHooks[h] > wantHooks[h]:
						fail(bad("C05:hook-twice", "%s: hook %d ran %d times for one entry (%d expected)", where, h, gotHooks[h], wantHooks[h]))
					}
				}
				if len(wantWrites) > 0 {
					delivered++
				} else {
					undelivered++
				}
			}
		default:
			panic("call kind " + call.C)
		}
	}
	depth, _ := treeStats(&op.Tree)
	sort.Ints(w.rejected)
	return Result{
		Impl:       map[string]any{"build": buildEvs, "rej": w.rejected, "calls": results},
		Oracle:     verdict,
		Nontrivial: depth >= 2 && delivered > 0 && undelivered > 0,
		Shape:      fmt.Sprintf("d%d/%s", bucket(depth), kindsString(kinds)),
	}
}
