package main

import (
	"bytes"
	"encoding/json"
	"flag"
	"fmt"
	"io"
	"os"
	"os/exec"
	"path/filepath"
	"sort"
	"strconv"
	"strings"
	"time"

	"go.uber.org/zap"
	"go.uber.org/zap/zapcore"
)

// C06 — Panic and Fatal always terminate, after the entry is written and flushed.
//
// op {"k":"fe","mode":"in"|"sub","tree":<node>,"atomics":[…],"dev":bool,"onPanic":H,"onFatal":H,"fe":"Recv.Name","l":l,"fs":[…]}
//    H ∈ unset | noop | goexit | panic | fatal | custom
//    mode "in":  the call runs in a goroutine of the harness; a panic is recovered, Goexit is detected
//    mode "sub": zvh re-executes itself (hidden child mode, see init below); io leaves write through a
//                BufferedWriteSyncer to a file; the parent observes the event stream, the exit status, stderr, the files
// impl {"seq":[spy events … "t:<action>"],"obs":[…],"exit":code (sub only),"files":[[leaf,lines]…] (sub only)}

type c06Op struct {
	K       string `json:"k"`
	Mode    string `json:"mode"`
	Tree    nodeJ  `json:"tree"`
	Atomics []int  `json:"atomics"`
	Dev     bool   `json:"dev,omitempty"`
	Via     string `json:"via,omitempty"` // "config": the logger (and its development mode) comes from zap.Config.Build
	OnPanic string `json:"onPanic"`
	OnFatal string `json:"onFatal"`
	FE      string `json:"fe"`
	L       int    `json:"l"`
	Fs      []fldJ `json:"fs"`
}

func init() {
	if os.Getenv("ZVH_C06_CHILD") != "" {
		c06Child()
		os.Exit(0)
	}
	props["C06"] = &Prop{Gen: c06Gen, Exec: c06Exec}
}

var c06Hooks = []string{"unset", "noop", "goexit", "panic", "fatal", "custom"}

// action that the configuration prescribes for a call at level l ("" = none)
func c06Expected(op *c06Op, l int) string {
	pick := func(dflt, h, name string) string {
		switch h {
		case "unset", "noop":
			return dflt
		case "goexit":
			return "GOEXIT"
		case "panic":
			return "PANIC"
		case "fatal":
			return "FATAL"
		}
		return name // custom spy
	}
	switch {
	case l == 4, l == 3 && op.Dev:
		return pick("PANIC", op.OnPanic, "panic")
	case l == 5:
		return pick("FATAL", op.OnFatal, "fatal")
	}
	return ""
}

func c06Level(op *c06Op) int {
	allFrontEnds()
	fe, okf := frontEndMap[op.FE]
	if !okf {
		panic("unknown front end " + op.FE)
	}
	if fe.level != 99 {
		return fe.level
	}
	return op.L
}

func c06Trees(r *Rand, l int, ioOnly bool) []nodeJ {
	at := func(mask int) *enabJ { return &enabJ{K: "fn", Mask: mask} }
	on, off := 0x7f, 0x7f&^(1<<uint(l+1))
	if l < -1 || l > 5 {
		off = 0x7f
	}
	leaf := func(id int, io bool, mask int) nodeJ { return nodeJ{T: "leaf", ID: id, IO: io || ioOnly, En: at(mask)} }
	a, b, c, d := leaf(1, true, on), leaf(2, false, on), leaf(3, true, off), leaf(4, false, off)
	e := leaf(5, true, on)
	return []nodeJ{
		{T: "nop"},
		a,
		c,
		{T: "samp", ID: 6, C: &a, Pass: false},
		{T: "tee", Cs: []nodeJ{a, b}},
		{T: "tee", Cs: []nodeJ{c, d, {T: "nop"}}},
		{T: "tee", Cs: []nodeJ{{T: "hook", ID: 7, C: &b}, {T: "lazy", ID: 8, C: &e, Fs: kf(70)}, c}},
		{T: "incr", ID: 9, C: &a, En: at(off)},
		{T: "hook", ID: 10, C: &nodeJ{T: "tee", Cs: []nodeJ{{T: "samp", ID: 11, C: &a, Pass: true}, d}}},
		{T: "lazy", ID: 12, C: &nodeJ{T: "with", C: &e, Fs: kf(71)}, Fs: kf(72)},
	}
}

func c06Gen(r *Rand, tier string, emit func(op any)) {
	c06GenFail(r, tier, emit)
	fes := allFrontEnds()
	thorough := tier == "thorough"
	subBudget := 140
	if thorough {
		subBudget = 2400
	}
	subs := 0
	for _, fe := range fes {
		levels := []int{fe.level}
		if fe.level == 99 {
			levels = []int{3, 4, 5, 2, 7}
		}
		for _, l := range levels {
			terminal := l >= 3 && l <= 5
			trees := c06Trees(r, l, false)
			// front end × core composition × hook × dev grid (sampled in the quick tier)
			for ti := range trees {
				for hi, h := range c06Hooks {
					for _, dev := range []bool{false, true} {
						if !terminal && (hi > 1 || ti%3 != 0) {
							continue // negative control: a few configurations suffice
						}
						if !thorough && terminal && (ti*7+hi*3+len(fe.name)+l)%3 != 0 {
							continue
						}
						op := c06Op{K: "fe", Mode: "in", Tree: trees[ti], Atomics: []int{}, Dev: dev, OnPanic: h, OnFatal: c06Hooks[(hi+ti)%len(c06Hooks)], FE: fe.key(), L: l, Fs: []fldJ{}}
						if l == 5 {
							op.OnFatal, op.OnPanic = h, c06Hooks[(hi+ti+1)%len(c06Hooks)]
						}
						if fe.fields {
							op.Fs = kf(60)
						}
						if l == 3 && (ti+hi)%2 == 0 {
							op.Via = "config" // DPanic: half of the grid takes its development mode from a Config
						}
						want := c06Expected(&op, l)
						if want == "FATAL" {
							// a real exit: only observable from outside
							if subs >= subBudget && !(ti <= 2 && !dev) {
								continue
							}
							op.Mode = "sub"
							op.Tree = c06Trees(r, l, true)[ti]
							subs++
						} else if want == "PANIC" && (ti+hi)%5 == 0 && subs < subBudget {
							op.Mode = "sub"
							op.Tree = c06Trees(r, l, true)[ti]
							subs++
						}
						emit(op)
					}
				}
			}
		}
	}
	// random core compositions (C05's generator) under terminal levels, in-process, custom or non-exiting hooks
	n := 1200
	if thorough {
		n = 20000
	}
	inHooks := []string{"unset", "noop", "goexit", "panic", "custom"}
	for i := 0; i < n; i++ {
		g := &treeGen{r: r, nAtomics: r.Intn(2), hostile: i%7 == 0}
		for j := 0; j < g.nAtomics; j++ {
			g.atomics = append(g.atomics, r.Intn(8)-1)
		}
		if g.atomics == nil {
			g.atomics = []int{}
		}
		tree := g.node(1 + r.Intn(5))
		fe := Pick(r, fes)
		l := fe.level
		if l == 99 {
			l = Pick(r, []int{3, 4, 5, 5, 4, 1, 9})
		}
		op := c06Op{K: "fe", Mode: "in", Tree: tree, Atomics: g.atomics, Dev: r.Bool(), OnPanic: Pick(r, inHooks), OnFatal: Pick(r, []string{"goexit", "panic", "custom"}), FE: fe.key(), L: l, Fs: []fldJ{}}
		if fe.fields {
			op.Fs = g.keys(2)
		}
		if i%3 == 1 {
			op.Via = "config"
		}
		emit(op)
	}
}

func hookOption(h string, rec *recorder, name string, panicHook bool) []zap.Option {
	var hook zapcore.CheckWriteHook
	switch h {
	case "unset":
		return nil
	case "noop":
		hook = zapcore.WriteThenNoop
	case "goexit":
		hook = zapcore.WriteThenGoexit
	case "panic":
		hook = zapcore.WriteThenPanic
	case "fatal":
		hook = zapcore.WriteThenFatal
	case "custom":
		hook = spyTerm{name, rec}
	default:
		panic("hook " + h)
	}
	if panicHook {
		return []zap.Option{zap.WithPanicHook(hook)}
	}
	return []zap.Option{zap.WithFatalHook(hook)}
}

func c06Logger(op *c06Op, w *world) *zap.Logger {
	core := w.build(&op.Tree)
	w.rec.take() // construction-time marshaling is not part of the call
	var opts []zap.Option
	opts = append(opts, hookOption(op.OnPanic, w.rec, "panic", true)...)
	opts = append(opts, hookOption(op.OnFatal, w.rec, "fatal", false)...)
	if op.Via == "config" {
		// the same logger built the way NewDevelopment / NewProduction build theirs: the mode is Config.Development and
		// reaches the logger through Config.buildOptions (mutants config.go#15/#16 broke exactly that plumbing)
		cfg := zap.Config{Level: zap.NewAtomicLevelAt(zapcore.DebugLevel), Development: op.Dev, Encoding: "json",
			DisableCaller: true, DisableStacktrace: true}
		opts = append(opts, zap.WrapCore(func(zapcore.Core) zapcore.Core { return core }))
		l, err := cfg.Build(opts...)
		must(err)
		return l
	}
	if op.Dev {
		opts = append(opts, zap.Development())
	}
	return zap.New(core, opts...)
}

// runGuarded runs f in its own goroutine and reports how it ended: "return", "panic:<value>", "goexit".
func runGuarded(f func()) string {
	done := make(chan string, 1)
	go func() {
		normal := false
		defer func() {
			if normal {
				done <- "return"
				return
			}
			if r := recover(); r != nil {
				done <- "panic:" + fmt.Sprint(r)
				return
			}
			done <- "goexit"
		}()
		f()
		normal = true
	}()
	return <-done
}

// c06Child is the hidden child mode: op on stdin, events on stdout as they happen, real default actions.
func c06Child() {
	raw, err := io.ReadAll(os.Stdin)
	must(err)
	var op c06Op
	unmarshal(raw, &op)
	allFrontEnds()
	dir := os.Getenv("ZVH_C06_DIR")
	if len(op.Fs)%2 == 1 || op.L%2 == 1 {
		// every other child looks like a `go test` binary (it has the testing flags): a Fatal there must end the process with
		// status 1 all the same — that is how tests observe a real exit
		flag.Bool("test.v", false, "")
		flag.String("test.run", "", "")
	}
	w := newWorld(op.Atomics, nil)
	w.sinkFor = func(id int) zapcore.WriteSyncer {
		f, err := os.OpenFile(filepath.Join(dir, fmt.Sprintf("leaf%d.log", id)), os.O_CREATE|os.O_WRONLY|os.O_APPEND, 0o644)
		must(err)
		b := &zapcore.BufferedWriteSyncer{WS: f, Size: 256 << 10, FlushInterval: time.Hour}
		if (id+len(op.Fs))%3 == 0 {
			// a buffered syncer that was used and STOPPED earlier (a deferred Stop that ran before the last message): the
			// final entry is still buffered by Write and must still be flushed by the core's Sync before control is lost
			_, err := b.Write([]byte("warmup\n"))
			must(err)
			must(b.Stop())
		}
		return b
	}
	lg := c06Logger(&op, w)
	w.rec.out = os.Stdout // from here on every event is written through as it happens
	fe := frontEndMap[op.FE]
	l := c06Level(&op)
	done := make(chan string, 1)
	go func() {
		normal := false
		defer func() {
			if normal {
				done <- "RET"
				return
			}
			if r := recover(); r != nil {
				panic(r) // not handled here: the panic kills the process (exit status 2, "panic: <value>" on stderr)
			}
			done <- "t:GOEXIT"
		}()
		fe.call(lg, zapcore.Level(l), "m", w.fields(op.Fs))
		normal = true
	}()
	fmt.Fprintln(os.Stdout, <-done)
}

func c06Exec(raw json.RawMessage) Result {
	var op c06Op
	unmarshal(raw, &op)
	if op.K == "failterm" {
		return c06ExecFail(raw)
	}
	l := c06Level(&op)
	impl := map[string]any{}
	var seq []string
	obs := [][]string{}
	exit := 0
	stderr := ""
	files := [][]int{}
	panicValue := ""
	if op.Mode == "sub" {
		dir, err := os.MkdirTemp("", "zvh-c06-")
		must(err)
		defer os.RemoveAll(dir)
		exe, err := os.Executable()
		must(err)
		cmd := exec.Command(exe)
		cmd.Env = append(os.Environ(), "ZVH_C06_CHILD=1", "ZVH_C06_DIR="+dir)
		cmd.Stdin = bytes.NewReader(raw)
		var so, se bytes.Buffer
		cmd.Stdout, cmd.Stderr = &so, &se
		err = cmd.Run()
		if ee, ok := err.(*exec.ExitError); ok {
			exit = ee.ExitCode()
		} else if err != nil {
			panic(err)
		}
		stderr = se.String()
		for _, ln := range strings.Split(strings.TrimSpace(so.String()), "\n") {
			if ln != "" && ln != "RET" {
				seq = append(seq, ln)
			}
		}
		switch {
		case exit == 1:
			seq = append(seq, "t:FATAL")
		case exit == 2 && strings.Contains(stderr, "panic: "):
			seq = append(seq, "t:PANIC")
			if i := strings.Index(stderr, "panic: "); i >= 0 {
				panicValue = strings.TrimSuffix(strings.SplitN(stderr[i+7:], "\n", 2)[0], " [recovered]")
			}
		}
		ents, _ := os.ReadDir(dir)
		for _, e := range ents {
			var id int
			if _, err := fmt.Sscanf(e.Name(), "leaf%d.log", &id); err != nil {
				continue
			}
			b, _ := os.ReadFile(filepath.Join(dir, e.Name()))
			if n := bytes.Count(b, []byte(`"msg":"m"`)); n > 0 {
				files = append(files, []int{id, n})
			}
		}
		sort.Slice(files, func(i, j int) bool { return files[i][0] < files[j][0] })
		impl["exit"] = exit
		impl["files"] = files
	} else {
		w := newWorld(op.Atomics, nil)
		w.bufferOdd = true
		lg := c06Logger(&op, w)
		fe := frontEndMap[op.FE]
		out := runGuarded(func() { fe.call(lg, zapcore.Level(l), "m", w.fields(op.Fs)) })
		seq = w.rec.take() // taken BEFORE the buffered syncers are stopped: only what reached the destination by now counts
		for _, b := range w.buffered {
			_ = b.Stop()
		}
		obs = w.drainObs()
		switch {
		case strings.HasPrefix(out, "panic:"):
			seq = append(seq, "t:PANIC")
			panicValue = out[6:]
		case out == "goexit":
			seq = append(seq, "t:GOEXIT")
		}
	}
	if seq == nil {
		seq = []string{}
	}
	impl["seq"] = seq
	impl["obs"] = obs

	// ---------------------------------------------------------------- oracle (event-order spy)
	verdict := ok()
	fail := func(o Oracle) {
		if verdict.OK {
			verdict = o
		}
	}
	want := c06Expected(&op, l)
	termAt := -1
	for i, e := range seq {
		if strings.HasPrefix(e, "t:") {
			if termAt >= 0 {
				fail(bad("C06:terminal-twice", "two terminal actions: %v", seq))
			}
			termAt = i
		}
	}
	rejected := map[int]bool{} // the fixed trees use valid wrappers; random trees may not
	{
		w2 := newWorld(op.Atomics, nil)
		w2.build(&op.Tree)
		for _, id := range w2.rejected {
			rejected[id] = true
		}
	}
	paths := specPaths(&op.Tree, rejected)
	spec := &specStore{atomics: op.Atomics}
	switch {
	case want == "" && termAt >= 0:
		fail(bad("C06:spurious-terminal", "%s at level %d (dev=%v) ran %s", op.FE, l, op.Dev, seq[termAt]))
	case want != "" && termAt < 0:
		anyOpen := false
		for i := range paths {
			anyOpen = anyOpen || spec.levelOpen(&paths[i], l)
		}
		state := "enabled"
		if !anyOpen {
			state = "disabled"
		}
		fail(bad("C06:not-terminated:"+op.FE+":"+state, "%s at level %d (dev=%v, onPanic=%s, onFatal=%s, level %s) returned without running the %s action; events %v, exit %d",
			op.FE, l, op.Dev, op.OnPanic, op.OnFatal, state, want, seq, exit))
	case want != "" && seq[termAt] != "t:"+want:
		fail(bad("C06:wrong-terminal", "%s at level %d: expected action %s, got %s (exit %d, stderr %q)", op.FE, l, want, seq[termAt], exit, trunc([]byte(stderr))))
	case want != "" && termAt != len(seq)-1:
		fail(bad("C06:events-after-terminal", "events after control was lost: %v", seq))
	}
	if want == "PANIC" && termAt >= 0 && panicValue != "m" {
		fail(bad("C06:panic-value", "default panic action must carry the message %q, carried %q", "m", panicValue))
	}
	if want != "" && termAt >= 0 {
		// every accepting core has been written (io: and synced) before control is lost
		inRange := l >= -1 && l <= 5
		for i := range paths {
			p := &paths[i]
			if !spec.levelOpen(p, l) || (p.drops && inRange) {
				continue
			}
			if !p.io {
				found := false
				for _, o := range obs {
					if o[0] == "o"+strconv.Itoa(p.leaf) {
						found = true
					}
				}
				if !found && op.Mode == "in" {
					fail(bad("C06:terminal-before-write", "observer leaf %d accepted the entry but holds nothing when control is lost", p.leaf))
				}
				continue
			}
			wAt, yAt := -1, -1
			for j, e := range seq[:termAt] {
				if strings.HasPrefix(e, fmt.Sprintf("w%d:", p.leaf)) {
					wAt = j
				}
				if e == "y"+strconv.Itoa(p.leaf) && wAt >= 0 && yAt < 0 {
					yAt = j
				}
			}
			switch {
			case wAt < 0:
				fail(bad("C06:terminal-before-write", "io leaf %d accepted the entry but was not written before the terminal action: %v", p.leaf, seq))
			case yAt < wAt:
				fail(bad("C06:no-sync-before-terminal", "io leaf %d was written but not synced before the terminal action: %v", p.leaf, seq))
			}
			if op.Mode == "sub" {
				n := 0
				for _, f := range files {
					if f[0] == p.leaf {
						n = f[1]
					}
				}
				if n != 1 {
					fail(bad("C06:buffer-not-flushed", "leaf %d: the file behind the BufferedWriteSyncer holds %d copies of the final entry after the process ended (want 1)", p.leaf, n))
				}
			}
		}
	}
	if op.Mode == "sub" {
		wantExit := map[string]int{"FATAL": 1, "PANIC": 2}[want]
		if exit != wantExit {
			fail(bad("C06:exit-status", "%s at level %d: process exit status %d, want %d (stderr %q)", op.FE, l, exit, wantExit, trunc([]byte(stderr))))
		}
	}
	depth, kinds := treeStats(&op.Tree)
	return Result{Impl: impl, Oracle: verdict, Nontrivial: want != "" && depth >= 1,
		Shape: fmt.Sprintf("%s/l%d/%s/%s", op.Mode, l, strings.SplitN(op.FE, ".", 2)[0], kindsString(kinds))}
}
