package main

import (
	"bytes"
	"encoding/json"
	"fmt"

	"go.uber.org/zap"
	"go.uber.org/zap/zapcore"
)

// C06 op "failterm": a DPanic/Panic/Fatal call over cores some of whose sinks FAIL to write (or to sync).
// The terminal action must still be taken, after every accepted sink received the entry and the failure was reported:
//   {"k":"failterm","core":C (as in C10's deliver op),"l":3|4|5,"dev":bool,"via":"check"|"logger"|"sugar"}
// impl {"delivered":[sink ids reached],"errorLines":n,"terminal":bool,"deliveredAtTerminal":[ids reached when control was lost]}
// Model: Deliver.ceWrite (Props/C06.lean terminal_despite_sink_failures).

type c06FailOp struct {
	K    string   `json:"k"`
	Core *c10Core `json:"core"`
	L    int      `json:"l"`
	Dev  bool     `json:"dev"`
	Via  string   `json:"via"`
}

// termProbe is the custom CheckWriteHook for both Panic and Fatal: it snapshots which sinks hold the entry at the moment
// the logger gives up control.
type termProbe struct {
	sinks  *[]*failSink
	ran    int
	at     []int
	synced []int // sinks whose Sync had been called when control was lost
}

func (t *termProbe) OnWrite(*zapcore.CheckedEntry, []zapcore.Field) {
	t.ran++
	t.at, t.synced = []int{}, []int{}
	for _, s := range *t.sinks {
		if len(s.writes) > 0 {
			t.at = append(t.at, s.id)
		}
		if s.syncs > 0 {
			t.synced = append(t.synced, s.id)
		}
	}
}

func c06GenFail(r *Rand, tier string, emit func(op any)) {
	vias := []string{"check", "logger", "sugar"}
	// exhaustive: every failing subset of ≤3 sinks, in a tee of single-sink cores and in one multi-syncer, × level × via
	for k := 1; k <= 3; k++ {
		for mask := 0; mask < 1<<k; mask++ {
			tee := c10Core{T: "tee", CS: []c10Core{}, Sinks: []c10Sink{}}
			multi := c10Core{T: "io", Enabled: true, Sinks: []c10Sink{}, CS: []c10Core{}}
			for i := 0; i < k; i++ {
				s := c10Sink{ID: i, WErr: mask&(1<<i) != 0, SErr: mask&(1<<((i+1)%k)) != 0 && k > 1}
				tee.CS = append(tee.CS, c10Core{T: "io", Enabled: true, Sinks: []c10Sink{s}, CS: []c10Core{}})
				multi.Sinks = append(multi.Sinks, s)
			}
			for _, l := range []int{3, 4, 5} {
				for _, dev := range []bool{false, true} {
					if l != 3 && dev {
						continue
					}
					for _, via := range vias {
						t, m := tee, multi
						emit(c06FailOp{K: "failterm", Core: &t, L: l, Dev: dev, Via: via})
						emit(c06FailOp{K: "failterm", Core: &m, L: l, Dev: dev, Via: via})
					}
				}
			}
		}
	}
	n := 150
	if tier == "thorough" {
		n = 6000
	}
	for i := 0; i < n; i++ {
		id := 0
		c := c10GenCore(r, 3, &id)
		emit(c06FailOp{K: "failterm", Core: &c, L: Pick(r, []int{3, 3, 4, 5}), Dev: r.Chance(1, 2), Via: Pick(r, vias)})
	}
}

func c06ExecFail(raw json.RawMessage) Result {
	var op c06FailOp
	unmarshal(raw, &op)
	var sinks []*failSink
	core := c10Build(op.Core, &sinks)
	errOut := &captureSink{}
	probe := &termProbe{sinks: &sinks}
	opts := []zap.Option{zap.ErrorOutput(errOut), zap.WithPanicHook(probe), zap.WithFatalHook(probe)}
	if op.Dev {
		opts = append(opts, zap.Development())
	}
	logger := zap.New(core, opts...)
	lvl := zapcore.Level(op.L)
	how := runGuarded(func() {
		switch op.Via {
		case "check":
			if ce := logger.Check(lvl, "m"); ce != nil {
				ce.Write(zap.Int("k", 1))
			}
		case "logger":
			logger.Log(lvl, "m", zap.Int("k", 1))
		case "sugar":
			logger.Sugar().Logw(lvl, "m", "k", 1)
		default:
			panic("via " + op.Via)
		}
	})
	delivered := []int{}
	for _, s := range sinks {
		if len(s.writes) > 0 {
			delivered = append(delivered, s.id)
		}
	}
	var all []byte
	for _, w := range errOut.writes {
		all = append(all, w...)
	}
	errLines := bytes.Count(all, []byte("\n"))
	at, syncedAt := probe.at, probe.synced
	if at == nil {
		at = []int{}
	}
	if syncedAt == nil {
		syncedAt = []int{}
	}
	wantSynced := c06SyncWant(op.Core, true)
	// independent oracle
	o := ok()
	wantTerm := op.L == 4 || op.L == 5 || (op.L == 3 && op.Dev)
	want := c10Reach(op.Core, true)
	anyErr := false
	for _, s := range sinks {
		for _, id := range want {
			if id == s.id && s.werr {
				anyErr = true
			}
		}
	}
	switch {
	case how != "return":
		o = bad("C06:failing-sink-call-aborted", "the call ended with %s before the (custom) terminal hook could decide", how)
	case wantTerm && probe.ran == 0:
		o = bad("C06:not-terminated:failing-sink", "level %d (dev=%v) via %s over sinks of which some fail: the terminal action never ran (sinks reached %v, error output %q)",
			op.L, op.Dev, op.Via, delivered, trunc2(all))
	case probe.ran > 1:
		o = bad("C06:terminal-twice", "terminal hook ran %d times", probe.ran)
	case !wantTerm && probe.ran != 0:
		o = bad("C06:spurious-terminal", "level %d (dev=%v): terminal hook ran", op.L, op.Dev)
	case wantTerm && fmt.Sprint(at) != fmt.Sprint(want):
		o = bad("C06:terminal-before-write", "when control was lost the entry had reached sinks %v, want %v", at, want)
	case fmt.Sprint(delivered) != fmt.Sprint(want):
		o = bad("C06:terminal-before-write", "sinks reached %v, want %v", delivered, want)
	case anyErr && errLines != 1:
		o = bad("C06:sink-failure-not-reported", "%d lines on the error output although a write failed", errLines)
	case !anyErr && errLines != 0:
		o = bad("C06:spurious-error-line", "%d lines on the error output although no write failed: %q", errLines, trunc2(all))
	case wantTerm && fmt.Sprint(syncedAt) != fmt.Sprint(wantSynced):
		o = bad("C06:terminal-before-sync", "when control was lost the sinks synced were %v, want %v (every io core whose write did not fail syncs its sinks)", syncedAt, wantSynced)
	}
	return Result{Impl: map[string]any{"delivered": delivered, "errorLines": errLines, "terminal": probe.ran > 0, "deliveredAtTerminal": at, "syncedAtTerminal": syncedAt},
		Oracle: o, Nontrivial: anyErr && wantTerm, Shape: fmt.Sprintf("failterm/l%d/%s/sinks%d/err%v", op.L, op.Via, bucket(len(want)), anyErr)}
}

// c06SyncWant: the sinks that must have been synced when the terminal hook runs — the sinks of every io core the entry
// was written through and none of whose sinks failed the write (ioCore.Write syncs after a successful write above Error).
func c06SyncWant(c *c10Core, check bool) []int {
	out := []int{}
	switch c.T {
	case "io":
		if !check || c.Enabled {
			for _, s := range c.Sinks {
				if s.WErr {
					return []int{}
				}
			}
			for _, s := range c.Sinks {
				out = append(out, s.ID)
			}
		}
	case "tee":
		for i := range c.CS {
			out = append(out, c06SyncWant(&c.CS[i], check)...)
		}
	case "wrap":
		if !check || c10Enabled(c.C) {
			out = append(out, c06SyncWant(c.C, false)...)
		}
	}
	return out
}
