package main

import (
	"context"
	"encoding/json"
	"fmt"
	"log/slog"
	"strconv"
	"strings"
	"time"

	"go.uber.org/zap"
	"go.uber.org/zap/exp/zapslog"
	"go.uber.org/zap/zapcore"
)

// C07 — logger context is exact and isolated across derived loggers.
//
// op {"k":"prog","tree":<root core>,"atomics":[…],"cells":[initial values of the mutable marshalers],"steps":[step…]}
//   step {"s":"with"|"fields"|"lazy","p":node,"fs":[…]}   Logger/SugaredLogger .With / WithOptions(Fields) / WithLazy → new node
//        {"s":"named","p":node,"n":"name"} · {"s":"sugar"|"desugar","p":node}                                → new node
//        {"s":"log","p":node,"l":level,"fs":[…]}          log through the node (Logger.Log / SugaredLogger.Logw)
//        {"s":"mut","key":cell,"val":v}                   a mutable marshaler changes
//        {"s":"shandler","p":node} · {"s":"sattrs","p":h,"fs":[int attrs]} · {"s":"sgroup","p":h,"g":key} → new node
//        {"s":"slog","p":h,"l":level,"fs":[…]}            zapslog.Handler.Handle
// node 0 is zap.New(root core). impl: per step {"seq":[…],"obs":[…]}.

type c07Step struct {
	S   string `json:"s"`
	P   int    `json:"p,omitempty"`
	Fs  []fldJ `json:"fs,omitempty"`
	N   string `json:"n,omitempty"`
	L   int    `json:"l,omitempty"`
	Key int    `json:"key,omitempty"`
	Val int    `json:"val,omitempty"`
	G   int    `json:"g,omitempty"`
	// Sk: bit i set = a no-op field (zap.Skip / zap.Error(nil)) is inserted before position i of the field slice handed to
	// zap (bit len = after the last). No-op fields carry no information: model and oracle do not see them.
	Sk int `json:"sk,omitempty"`
}

type c07Op struct {
	K       string    `json:"k"`
	Tree    nodeJ     `json:"tree"`
	Atomics []int     `json:"atomics"`
	Cells   []int     `json:"cells"`
	Steps   []c07Step `json:"steps"`
}

func init() {
	props["C07"] = &Prop{Gen: c07Gen, Exec: c07Exec}
}

// ---------------------------------------------------------------- generator

var c07Lens = []int{0, 1, 1, 2, 2, 3, 4, 5, 7, 8, 9}

type progGen struct {
	r      *Rand
	g      *treeGen
	nCells int
	kinds  []string // per node: "zap" | "sugar" | "slog"
	steps  []c07Step
}

func (p *progGen) fields(n int, intsOnly bool) []fldJ {
	out := []fldJ{}
	for i := 0; i < n; i++ {
		p.g.nextKey++
		f := fldJ{Key: p.g.nextKey, Ref: -1}
		x := p.r.Intn(100)
		switch {
		case intsOnly:
			f.Kind, f.Val = 2, p.r.Intn(50)
		case x < 55:
		case x < 78 && p.nCells > 0:
			f.Ref = p.r.Intn(p.nCells)
		case x < 86:
			f.Kind = 1
		case x < 93:
			f.Kind, f.Val = 2, p.r.Intn(50)
		default:
			f.Kind, f.Val = 3, p.r.Intn(50)
			if p.r.Chance(1, 3) {
				f.Val += 1000 // a long string: the accumulated context outgrows the pooled 1 KiB buffers
			}
		}
		out = append(out, f)
	}
	return out
}

func (p *progGen) add(s c07Step, kind string) {
	if len(s.Fs) > 0 && (s.S == "with" || s.S == "lazy" || s.S == "fields" || s.S == "log") && p.r.Chance(1, 2) {
		s.Sk = p.r.Intn(1 << uint(len(s.Fs)+1))
	}
	p.steps = append(p.steps, s)
	if kind != "" {
		p.kinds = append(p.kinds, kind)
	}
}

func (p *progGen) derive() {
	par := p.r.Intn(len(p.kinds))
	k := p.kinds[par]
	n := Pick(p.r, c07Lens)
	if k == "slog" {
		switch p.r.Intn(3) {
		case 0:
			p.g.nextKey++
			p.add(c07Step{S: "sgroup", P: par, G: p.g.nextKey}, "slog")
		default:
			p.add(c07Step{S: "sattrs", P: par, Fs: p.fields(n%4, true)}, "slog")
		}
		return
	}
	switch x := p.r.Intn(100); {
	case x < 30:
		p.add(c07Step{S: "with", P: par, Fs: p.fields(n, false)}, k)
	case x < 55:
		p.add(c07Step{S: "lazy", P: par, Fs: p.fields(n, false)}, k)
	case x < 67:
		p.add(c07Step{S: "fields", P: par, Fs: p.fields(n, false)}, k)
	case x < 82:
		p.add(c07Step{S: "named", P: par, N: Pick(p.r, []string{"", "a", "b", "svc", "x.y", "", ".svc", ".", "a.", ".."})}, k)
	case x < 94:
		if k == "zap" {
			p.add(c07Step{S: "sugar", P: par}, "sugar")
		} else {
			p.add(c07Step{S: "desugar", P: par}, "zap")
		}
	default:
		if k == "zap" {
			p.add(c07Step{S: "shandler", P: par}, "slog")
		} else {
			p.add(c07Step{S: "desugar", P: par}, "zap")
		}
	}
}

func (p *progGen) use(node int, levels []int) {
	l := Pick(p.r, levels)
	if p.kinds[node] == "slog" {
		if l > 2 {
			l = 2
		}
		p.add(c07Step{S: "slog", P: node, L: l, Fs: p.fields(p.r.Intn(3), true)}, "")
		return
	}
	p.add(c07Step{S: "log", P: node, L: l, Fs: p.fields(p.r.Intn(3), false)}, "")
}

func c07Roots(g *treeGen, r *Rand, i int) nodeJ {
	all := &enabJ{K: "fn", Mask: 0x7f}
	io := nodeJ{T: "leaf", ID: 1, IO: true, En: all}
	ob := nodeJ{T: "leaf", ID: 2, IO: false, En: &enabJ{K: "lvl", T: 0}}
	io2 := nodeJ{T: "leaf", ID: 3, IO: true, En: &enabJ{K: "fn", Mask: 0x7c}}
	ob2 := nodeJ{T: "leaf", ID: 4, IO: false, En: all}
	fixed := []nodeJ{
		io, ob,
		{T: "tee", Cs: []nodeJ{io, ob}},
		{T: "samp", ID: 5, C: &nodeJ{T: "tee", Cs: []nodeJ{ob, io2}}, Pass: true},
		{T: "hook", ID: 6, C: &ob2},
		{T: "incr", ID: 7, C: &nodeJ{T: "tee", Cs: []nodeJ{io, ob2}}, En: &enabJ{K: "lvl", T: 1}},
		{T: "lazy", ID: 8, C: &nodeJ{T: "tee", Cs: []nodeJ{ob2, io}}, Fs: kf(901)},
		{T: "tee", Cs: []nodeJ{{T: "with", C: &io2, Fs: kf(902)}, {T: "hook", ID: 9, C: &nodeJ{T: "samp", ID: 10, C: &ob, Pass: false}}, {T: "nop"}}},
	}
	if i%3 != 2 {
		return fixed[i%len(fixed)]
	}
	g.nextID = 20
	return g.node(1 + r.Intn(3))
}

func c07Gen(r *Rand, tier string, emit func(op any)) {
	thorough := tier == "thorough"
	valid := []int{-1, 0, 1, 2, 3, 4, 5}
	// 1. exhaustive: every derivation tree with ≤ 4 derived nodes over With/WithLazy, three use orders, one mutable field per step
	root := nodeJ{T: "tee", Cs: []nodeJ{{T: "leaf", ID: 1, IO: true, En: &enabJ{K: "fn", Mask: 0x7f}}, {T: "leaf", ID: 2, IO: false, En: &enabJ{K: "fn", Mask: 0x7f}}}}
	maxN := 3
	if thorough {
		maxN = 4
	}
	for n := 1; n <= maxN; n++ {
		shapes := 1
		for i := 1; i <= n; i++ {
			shapes *= i
		}
		for sh := 0; sh < shapes; sh++ {
			parents := make([]int, n)
			x := sh
			for i := 0; i < n; i++ {
				parents[i] = x % (i + 1)
				x /= i + 1
			}
			for kindMask := 0; kindMask < 1<<uint(n); kindMask++ {
				for order := 0; order < 3; order++ {
					steps := []c07Step{}
					key := 0
					for i := 0; i < n; i++ {
						if order == 2 { // derive-after-use: the parent is used (and a cell mutated) before each derivation
							steps = append(steps, c07Step{S: "log", P: parents[i], L: 1}, c07Step{S: "mut", Key: 0, Val: 10 + i})
						}
						key++
						s := "with"
						if kindMask>>uint(i)&1 == 1 {
							s = "lazy"
						}
						steps = append(steps, c07Step{S: s, P: parents[i], Fs: []fldJ{{Key: key, Ref: 0}, {Key: 100 + key, Ref: -1}}})
					}
					steps = append(steps, c07Step{S: "mut", Key: 0, Val: 77})
					for i := 0; i <= n; i++ {
						node := i
						if order == 1 {
							node = n - i // descendants first
						}
						steps = append(steps, c07Step{S: "log", P: node, L: 2, Fs: []fldJ{{Key: 200, Ref: 0}}})
						steps = append(steps, c07Step{S: "mut", Key: 0, Val: 80 + i})
					}
					emit(c07Op{K: "prog", Tree: root, Atomics: []int{}, Cells: []int{1}, Steps: steps})
				}
			}
		}
	}
	// 1a. a context that ENDS in an open namespace, over a JSON leaf, a console leaf (id 3) and an observer: entries
	//     without call-site fields, then with fields, then children derived before and after those entries
	nsRoot := nodeJ{T: "tee", Cs: []nodeJ{{T: "leaf", ID: 1, IO: true, En: &enabJ{K: "fn", Mask: 0x7f}}, {T: "leaf", ID: 3, IO: true, En: &enabJ{K: "fn", Mask: 0x7f}},
		{T: "leaf", ID: 2, IO: false, En: &enabJ{K: "fn", Mask: 0x7f}}}}
	for _, derive := range []string{"with", "lazy", "fields"} {
		for _, pre := range []int{0, 1, 2} {
			fs := []fldJ{}
			for i := 0; i < pre; i++ {
				fs = append(fs, fldJ{Key: 10 + i, Kind: 2, Val: i, Ref: -1})
			}
			fs = append(fs, fldJ{Key: 20, Kind: 1, Ref: -1}) // the namespace is the last field of the context
			for _, firstLen := range []int{0, 1} {
				steps := []c07Step{{S: derive, P: 0, Fs: fs}, // node 1
					{S: "with", P: 1, Fs: []fldJ{{Key: 30, Kind: 2, Val: 3, Ref: -1}}}} // node 2: derived before any entry
				first := []fldJ{}
				if firstLen == 1 {
					first = []fldJ{{Key: 40, Kind: 3, Val: 4, Ref: -1}}
				}
				steps = append(steps, c07Step{S: "log", P: 1, L: 1, Fs: first}, c07Step{S: "log", P: 1, L: 1, Fs: []fldJ{}},
					c07Step{S: "log", P: 1, L: 2, Fs: []fldJ{{Key: 41, Kind: 2, Val: 5, Ref: -1}}},
					c07Step{S: "with", P: 1, Fs: []fldJ{{Key: 31, Kind: 2, Val: 6, Ref: -1}}}, // node 3: derived after the field-less entry
					c07Step{S: "log", P: 3, L: 1, Fs: []fldJ{{Key: 42, Kind: 2, Val: 7, Ref: -1}}},
					c07Step{S: "log", P: 2, L: 1, Fs: []fldJ{}}, c07Step{S: "log", P: 2, L: 1, Fs: []fldJ{{Key: 43, Kind: 2, Val: 8, Ref: -1}}},
					c07Step{S: "log", P: 0, L: 1, Fs: []fldJ{{Key: 44, Kind: 2, Val: 9, Ref: -1}}})
				emit(c07Op{K: "prog", Tree: nsRoot, Atomics: []int{}, Cells: []int{}, Steps: steps})
			}
		}
	}
	// 1b. slog handlers: a chain of d pending groups, then two siblings derived from its end, used in both orders
	//     (slice capacities 0,1,2,4,8 are crossed by d = 0…9); the same for chains of With on loggers over observers
	for d := 0; d <= 9; d++ {
		for _, first := range []int{0, 1} {
			steps := []c07Step{{S: "shandler", P: 0}} // node 1
			for i := 0; i < d; i++ {
				steps = append(steps, c07Step{S: "sgroup", P: 1 + i, G: 300 + i})
			}
			par := 1 + d
			steps = append(steps, c07Step{S: "sgroup", P: par, G: 401}, c07Step{S: "sgroup", P: par, G: 402}) // nodes par+1, par+2
			a, b := par+1+first, par+2-first
			for _, node := range []int{a, b, a, par, b} {
				steps = append(steps, c07Step{S: "slog", P: node, L: 1, Fs: []fldJ{{Key: 500 + node, Kind: 2, Val: node, Ref: -1}}})
			}
			emit(c07Op{K: "prog", Tree: root, Atomics: []int{}, Cells: []int{}, Steps: steps})

			steps = []c07Step{}
			for i := 0; i < d; i++ {
				steps = append(steps, c07Step{S: "with", P: i, Fs: []fldJ{{Key: 600 + i, Ref: -1}}})
			}
			steps = append(steps, c07Step{S: "with", P: d, Fs: []fldJ{{Key: 701, Ref: -1}}}, c07Step{S: "with", P: d, Fs: []fldJ{{Key: 702, Ref: -1}}})
			a, b = d+1+first, d+2-first
			for _, node := range []int{a, b, a, d, b, a} { // repeated use with different call-site fields
				steps = append(steps, c07Step{S: "log", P: node, L: 2, Fs: []fldJ{{Key: 800 + len(steps), Ref: -1}, {Key: 850 + len(steps), Kind: 2, Val: len(steps), Ref: -1}}})
			}
			emit(c07Op{K: "prog", Tree: root, Atomics: []int{}, Cells: []int{}, Steps: steps})
		}
	}
	// 2. random derivation programs
	n, maxNodes := 1200, 40
	if thorough {
		n, maxNodes = 30000, 400
	}
	for i := 0; i < n; i++ {
		g := &treeGen{r: r, nAtomics: 0, atomics: []int{}}
		p := &progGen{r: r, g: g, nCells: r.Intn(4), kinds: []string{"zap"}}
		tree := c07Roots(g, r, i)
		g.nextKey = 1000
		cells := []int{}
		for j := 0; j < p.nCells; j++ {
			cells = append(cells, r.Intn(9))
		}
		nodes := 2 + r.Intn(maxNodes)
		if r.Chance(2, 3) {
			nodes = 2 + r.Intn(12)
		}
		for len(p.kinds) < nodes {
			switch x := r.Intn(10); {
			case x < 6:
				p.derive()
			case x < 9:
				p.use(r.Intn(len(p.kinds)), valid)
			default:
				if p.nCells > 0 {
					p.add(c07Step{S: "mut", Key: r.Intn(p.nCells), Val: r.Intn(99)}, "")
				}
			}
		}
		// every node re-logged at the end, in a random order, with the cells still changing
		order := make([]int, len(p.kinds))
		for j := range order {
			order[j] = j
		}
		for j := len(order) - 1; j > 0; j-- {
			k := r.Intn(j + 1)
			order[j], order[k] = order[k], order[j]
		}
		for _, node := range order {
			p.use(node, []int{2, 2, 1, 4})
			if p.nCells > 0 && r.Chance(1, 3) {
				p.add(c07Step{S: "mut", Key: r.Intn(p.nCells), Val: r.Intn(99)}, "")
			}
		}
		emit(c07Op{K: "prog", Tree: tree, Atomics: []int{}, Cells: cells, Steps: p.steps})
	}
}

// ---------------------------------------------------------------- executor + oracle

type c07Node struct {
	lg *zap.Logger
	sg *zap.SugaredLogger
	h  slog.Handler
}

func asArgs(fs []zap.Field) []interface{} {
	out := make([]interface{}, len(fs))
	for i, f := range fs {
		out[i] = f
	}
	return out
}

// oracle bookkeeping: one segment per context-adding step, shared by all descendants
type oSeg struct {
	fs     []fldJ
	forced bool
	vals   []int // cell values seen when the segment was evaluated (per field; -1 for constants)
}

type oNode struct {
	segs   []*oSeg
	names  []string
	groups []int
	slog   bool
}

func descrField(f fldJ, resolved bool, val int) string {
	switch f.Kind {
	case 1:
		return fmt.Sprintf("n%d{", f.Key)
	case 2:
		return fmt.Sprintf("i%d=%d", f.Key, f.Val)
	case 3:
		return fmt.Sprintf("s%d=v%d", f.Key, f.Val)
	}
	switch {
	case f.Ref < 0:
		return fmt.Sprintf("k%d", f.Key)
	case resolved:
		return fmt.Sprintf("k%d=%d", f.Key, val)
	}
	return fmt.Sprintf("k%d@%d", f.Key, f.Ref)
}

func c07Exec(raw json.RawMessage) Result {
	var op c07Op
	unmarshal(raw, &op)
	w := newWorld(op.Atomics, op.Cells)
	w.consoleMod4 = true
	core := w.build(&op.Tree)
	w.rec.take()
	root := zap.New(core, zap.WithPanicHook(spyTerm{"panic", w.rec}), zap.WithFatalHook(spyTerm{"fatal", w.rec}))
	nodes := []c07Node{{lg: root}}

	rejected := map[int]bool{}
	for _, id := range w.rejected {
		rejected[id] = true
	}
	paths := specPathsCtx(&op.Tree, rejected)
	spec := &specStore{atomics: op.Atomics}
	cells := append([]int{}, op.Cells...)
	onodes := []*oNode{{}}
	verdict := ok()
	fail := func(o Oracle) {
		if verdict.OK {
			verdict = o
		}
	}
	evalNow := func(fs []fldJ) []int {
		vs := make([]int, len(fs))
		for i, f := range fs {
			vs[i] = -1
			if f.Kind == 0 && f.Ref >= 0 {
				vs[i] = cells[f.Ref]
			}
		}
		return vs
	}
	force := func(n *oNode) {
		for _, s := range n.segs {
			if !s.forced {
				s.forced, s.vals = true, evalNow(s.fs)
			}
		}
	}
	anyOpen := func(l int) bool {
		for i := range paths {
			if spec.levelOpen(&paths[i].specPath, l) {
				return true
			}
		}
		return false
	}
	child := func(par *oNode, seg *oSeg) *oNode {
		c := &oNode{segs: append(append([]*oSeg{}, par.segs...)), names: append([]string{}, par.names...), groups: append([]int{}, par.groups...), slog: par.slog}
		if seg != nil {
			c.segs = append(c.segs, seg)
		}
		return c
	}
	// expected emissions of node n for a call with call-site fields fs at level l
	check := func(step int, n *oNode, l int, fs []fldJ, seq []string, obs [][]string) {
		name := ""
		for _, s := range n.names {
			if s == "" {
				continue
			}
			if name != "" {
				name += "."
			}
			name += s
		}
		nowVals := evalNow(fs)
		inRange := l >= -1 && l <= 5
		want := map[int][]string{}
		for i := range paths {
			p := &paths[i]
			if !spec.levelOpen(&p.specPath, l) || (p.drops && inRange) {
				continue
			}
			ds := []string{}
			for _, f := range p.ctx {
				ds = append(ds, descrField(f, p.io, 0))
			}
			for _, s := range n.segs {
				for j, f := range s.fs {
					v := 0
					if s.forced {
						v = s.vals[j]
					}
					ds = append(ds, descrField(f, p.io, v))
				}
			}
			for j, f := range fs {
				ds = append(ds, descrField(f, p.io, nowVals[j]))
			}
			want[p.leaf] = append(want[p.leaf], name+"|"+strings.Join(ds, ","))
		}
		got := map[int][]string{}
		for _, e := range seq {
			if e[0] == 'w' {
				c := strings.IndexByte(e, ':')
				id, _ := strconv.Atoi(e[1:c])
				got[id] = append(got[id], e[c+1:])
			}
		}
		for _, o := range obs {
			id, _ := strconv.Atoi(o[0][1:])
			got[id] = append(got[id], o[1])
		}
		ids := map[int]bool{}
		for id := range want {
			ids[id] = true
		}
		for id := range got {
			ids[id] = true
		}
		for id := range ids {
			if fmt.Sprint(want[id]) == fmt.Sprint(got[id]) {
				continue
			}
			sig := "C07:context-mismatch"
			if len(want[id]) == len(got[id]) && len(got[id]) == 1 {
				wn, gn := strings.SplitN(want[id][0], "|", 2), strings.SplitN(got[id][0], "|", 2)
				if wn[1] == gn[1] && wn[0] != gn[0] {
					sig = "C07:name-mismatch"
				} else if stripVals(wn[1]) == stripVals(gn[1]) {
					sig = "C07:evaluation-time"
				}
			} else if len(want[id]) != len(got[id]) {
				sig = "C07:delivery-mismatch"
			}
			fail(bad(sig, "step %d, leaf %d: emitted %q, its derivation path gives %q", step, id, got[id], want[id]))
		}
	}

	results := []any{}
	relogged := 0
	type callerSlice struct {
		step int
		kind string
		full []zapcore.Field
		mine []zapcore.Field
	}
	var callerSlices []callerSlice
	for si, st := range op.Steps {
		var par c07Node
		var opar *oNode
		if st.S != "mut" {
			par, opar = nodes[st.P], onodes[st.P]
		}
		var nn *c07Node
		var on *oNode
		fs := w.fields(st.Fs)
		// the slice handed to zap belongs to the caller: it carries the no-op fields of st.Sk, has spare capacity holding
		// sentinels, and must read the same after the call (C07:caller-slice-modified)
		var mine []zapcore.Field
		if len(st.Fs) > 0 && (st.S == "with" || st.S == "lazy" || st.S == "fields" || st.S == "log") {
			buf := make([]zapcore.Field, 0, len(fs)+len(fs)+4)
			for i, f := range fs {
				if st.Sk>>uint(i)&1 == 1 {
					if i%2 == 0 {
						buf = append(buf, zap.Skip())
					} else {
						buf = append(buf, zap.Error(nil))
					}
				}
				buf = append(buf, f)
			}
			if st.Sk>>uint(len(fs))&1 == 1 {
				buf = append(buf, zap.Skip())
			}
			fs = buf
			full := fs[:cap(fs)]
			for i := len(fs); i < len(full); i++ {
				full[i] = zap.Int("sentinel", i)
			}
			mine = append([]zapcore.Field(nil), full...)
		}
		switch st.S {
		case "with":
			switch {
			case par.sg != nil:
				nn = &c07Node{sg: par.sg.With(asArgs(fs)...)}
			default:
				nn = &c07Node{lg: par.lg.With(fs...)}
			}
			if len(st.Fs) == 0 {
				on = child(opar, nil)
			} else {
				force(opar)
				on = child(opar, &oSeg{fs: st.Fs, forced: true, vals: evalNow(st.Fs)})
			}
		case "fields":
			if par.sg != nil {
				nn = &c07Node{sg: par.sg.WithOptions(zap.Fields(fs...))}
			} else {
				nn = &c07Node{lg: par.lg.WithOptions(zap.Fields(fs...))}
			}
			force(opar)
			on = child(opar, &oSeg{fs: st.Fs, forced: true, vals: evalNow(st.Fs)})
		case "lazy":
			if par.sg != nil {
				nn = &c07Node{sg: par.sg.WithLazy(asArgs(fs)...)}
			} else {
				nn = &c07Node{lg: par.lg.WithLazy(fs...)}
			}
			if len(st.Fs) == 0 {
				on = child(opar, nil)
			} else {
				on = child(opar, &oSeg{fs: st.Fs})
			}
		case "named":
			if par.sg != nil {
				nn = &c07Node{sg: par.sg.Named(st.N)}
			} else {
				nn = &c07Node{lg: par.lg.Named(st.N)}
			}
			on = child(opar, nil)
			on.names = append(on.names, st.N)
		case "sugar":
			nn = &c07Node{sg: par.lg.Sugar()}
			on = child(opar, nil)
		case "desugar":
			nn = &c07Node{lg: par.sg.Desugar()}
			on = child(opar, nil)
		case "shandler":
			nn = &c07Node{h: zapslog.NewHandler(par.lg.Core())}
			on = child(opar, nil)
			on.names, on.slog = nil, true
		case "sattrs":
			attrs := []slog.Attr{}
			for _, f := range st.Fs {
				attrs = append(attrs, slog.Int("i"+strconv.Itoa(f.Key), f.Val))
			}
			nn = &c07Node{h: par.h.WithAttrs(attrs)}
			force(opar)
			on = child(opar, nil)
			if len(st.Fs) > 0 {
				seg := &oSeg{forced: true}
				for _, g := range opar.groups {
					seg.fs = append(seg.fs, fldJ{Kind: 1, Key: g, Ref: -1})
				}
				seg.fs = append(seg.fs, st.Fs...)
				seg.vals = evalNow(seg.fs)
				on.segs = append(on.segs, seg)
				on.groups = nil
			}
		case "sgroup":
			nn = &c07Node{h: par.h.WithGroup("n" + strconv.Itoa(st.G))}
			on = child(opar, nil)
			on.groups = append(on.groups, st.G)
		case "mut":
			*w.cells[st.Key] = st.Val
			cells[st.Key] = st.Val
		case "log":
			if par.sg != nil {
				par.sg.Logw(zapcore.Level(st.L), "m", asArgs(fs)...)
			} else {
				par.lg.Log(zapcore.Level(st.L), "m", fs...)
			}
		case "slog":
			rec := slog.NewRecord(time.Time{}, slog.Level(4*st.L), "m", 0)
			for _, f := range st.Fs {
				rec.AddAttrs(slog.Int("i"+strconv.Itoa(f.Key), f.Val))
			}
			must(par.h.Handle(context.Background(), rec))
		default:
			panic("step " + st.S)
		}
		if mine != nil && st.S != "lazy" && len(op.Steps)%2 == 0 {
			// the slice is the caller's again once the call returned: in every other program it is reused at once (overwritten
			// with unrelated fields), as a caller deriving siblings from one scratch slice does. (Not after WithLazy, which keeps
			// its arguments until first use by design.)
			full := fs[:cap(fs)]
			for i := range full {
				full[i] = zap.String("scribbled", "x")
			}
			mine = nil
		}
		if mine != nil {
			callerSlices = append(callerSlices, callerSlice{si, st.S, fs[:cap(fs)], mine})
			full := fs[:cap(fs)]
			for i := range full {
				if full[i].Type != mine[i].Type || full[i].Key != mine[i].Key || full[i].Integer != mine[i].Integer ||
					full[i].String != mine[i].String || full[i].Interface != mine[i].Interface {
					fail(bad("C07:caller-slice-modified", "step %d (%s): element %d of the field slice passed by the caller reads %s/%q after the call, was %s/%q",
						si, st.S, i, fmt.Sprint(full[i].Type), full[i].Key, fmt.Sprint(mine[i].Type), mine[i].Key))
					break
				}
			}
		}
		seq := w.rec.take()
		obs := w.drainObs()
		results = append(results, map[string]any{"seq": seq, "obs": obs})
		if nn != nil {
			nodes = append(nodes, *nn)
			onodes = append(onodes, on)
		}
		switch st.S {
		case "log":
			if anyOpen(st.L) {
				force(opar)
			}
			check(si, opar, st.L, st.Fs, seq, obs)
			relogged++
		case "slog":
			if anyOpen(st.L) {
				force(opar)
			}
			call := st.Fs
			if len(st.Fs) > 0 && len(opar.groups) > 0 {
				call = nil
				for _, g := range opar.groups {
					call = append(call, fldJ{Kind: 1, Key: g, Ref: -1})
				}
				call = append(call, st.Fs...)
			}
			check(si, opar, st.L, call, seq, obs)
			relogged++
		}
	}
	// the slices stay the caller's for good: a lazy logger's first use (or any later call) must not touch them either
	for _, cs := range callerSlices {
		for i := range cs.full {
			if cs.full[i].Type != cs.mine[i].Type || cs.full[i].Key != cs.mine[i].Key || cs.full[i].Integer != cs.mine[i].Integer ||
				cs.full[i].String != cs.mine[i].String || cs.full[i].Interface != cs.mine[i].Interface {
				fail(bad("C07:caller-slice-modified", "the field slice passed at step %d (%s) reads %s/%q at element %d after the later calls of the program, was %s/%q",
					cs.step, cs.kind, fmt.Sprint(cs.full[i].Type), cs.full[i].Key, i, fmt.Sprint(cs.mine[i].Type), cs.mine[i].Key))
				break
			}
		}
	}
	if leaf, was, now, same := w.recheckKept(); !same {
		fail(bad("C07:recorded-entry-changed", "an entry recorded by observer leaf %d read %q when it was logged and reads %q after later calls", leaf, was, now))
	}
	depth, kinds := treeStats(&op.Tree)
	_ = depth
	return Result{Impl: map[string]any{"steps": results}, Oracle: verdict,
		Nontrivial: len(nodes) >= 3 && relogged >= 2, Shape: fmt.Sprintf("n%d/%s", bucket(len(nodes)), kindsString(kinds))}
}

// stripVals removes the resolved values (k3=5 → k3) so that a pure evaluation-time difference can be recognised.
func stripVals(s string) string {
	parts := strings.Split(s, ",")
	for i, p := range parts {
		if strings.HasPrefix(p, "k") {
			if j := strings.IndexByte(p, '='); j >= 0 {
				parts[i] = p[:j]
			}
		}
	}
	return strings.Join(parts, ",")
}

type specPathCtx struct {
	specPath
	ctx []fldJ // context the root tree already gives the leaf (With / lazy nodes on the path, innermost first)
}

func specPathsCtx(n *nodeJ, rejected map[int]bool) []specPathCtx {
	switch n.T {
	case "leaf":
		return []specPathCtx{{specPath: specPath{leaf: n.ID, io: n.IO, levels: []*enabJ{n.En}}}}
	case "nop":
		return nil
	case "tee":
		var out []specPathCtx
		for i := range n.Cs {
			out = append(out, specPathsCtx(&n.Cs[i], rejected)...)
		}
		return out
	}
	ps := specPathsCtx(n.C, rejected)
	for i := range ps {
		switch n.T {
		case "incr":
			if !rejected[n.ID] {
				ps[i].levels = append([]*enabJ{n.En}, ps[i].levels...)
			}
		case "samp":
			if !n.Pass {
				ps[i].drops = true
			}
		case "lazy", "with":
			ps[i].ctx = append(ps[i].ctx, n.Fs...)
		}
	}
	return ps
}
