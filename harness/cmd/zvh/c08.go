package main

import (
	"bytes"
	"encoding/json"
	"errors"
	"fmt"
	"os"
	"os/exec"
	"runtime"
	"strings"
	"sync"
	"sync/atomic"
	"time"

	"go.uber.org/zap"
	"go.uber.org/zap/zapcore"
)

// C08 — output is independent of logging history and of pooled-object reuse.
//
// op  {"k":"hist","mode":"seq"|"conc","sub":b,"obs":O,"hist":[H…],"workers":n,"reps":n}
//
//	O = {"t":"enc","op":<encoder-family op>,"prebuilt":b}      core level: NewCore(enc, sink).With(ctx…).Write(entry, fields)
//	  | {"t":"log","lg":<logger spec>,"act":<action>}          logger level (caller, stack trace, hooks, Check/Write, error output)
//	H = {"h":"enc","op":…,"keep":b} | {"h":"relog","n":i} | {"h":"panicobj","console":b,"calls":[…]} | {"h":"huge","n":bytes,"console":b}
//	  | {"h":"gc"} | {"h":"gc1"} | {"h":"log","lg":…,"act":…}
//
// seq : one goroutine pinned to its OS thread with GOMAXPROCS(1) (sync.Pool then returns the last object put):
//
//	two GC cycles (every pool empty: the observed call runs exactly as the first call of a process would), observe → B0;
//	the history; observe → B1; observe → B2.  With "sub" the observed call is also made as the very first call of a fresh
//	harness process → Bs.
//
// conc: B0 as above, then `workers` goroutines replay the history on their own loggers in a loop while the observed call is
//
//	made `reps` times.
//
// Oracle (independent of the Lean model): every observation — bytes at the observed sink, bytes at the observed error output,
// number of writes, panic text — is identical to B0; nothing the observed call did reached a sink, an error output or a hook of
// the history.  Signature C08:history-dependent:<observed kind>:<phase>.
// Correspondence: impl = {"line": B0}; the Lean driver recomputes the line from the observed operation alone.

func init() {
	props["C08"] = &Prop{Gen: c08Gen, Exec: c08Exec}
}

type c08Logger struct {
	Console bool       `json:"console"`
	Caller  bool       `json:"caller"`
	Stack   int        `json:"stack"` // AddStacktrace(level); 99 = off
	Dev     bool       `json:"dev"`
	Hook    string     `json:"hook"`   // ""|"panic"|"fatal": a recording hook (c08Hook) that returns
	HookDo  int        `json:"hookdo"` // what the hook does before it reads its entry: 0 nothing, 1 logs, 2 logs and yields
	Fields  []encField `json:"fields"`
	Name    string     `json:"name"`
	Fail    bool       `json:"fail"` // the sink returns an error
}

type c08Act struct {
	A      string     `json:"a"` // log|dpanic|panic|fatal|checkdrop|checkwrite|sugar|deep|corecheck|with|stackfield
	Lvl    int        `json:"lvl"`
	Msg    string     `json:"msg"` // hex
	Fields []encField `json:"fields"`
	Depth  int        `json:"depth"`
}

type c08Obs struct {
	T        string     `json:"t"`
	Op       *encOp     `json:"op,omitempty"`
	Prebuilt bool       `json:"prebuilt"`
	Lg       *c08Logger `json:"lg,omitempty"`
	Act      *c08Act    `json:"act,omitempty"`
}

type c08Hist struct {
	H       string     `json:"h"`
	Op      *encOp     `json:"op,omitempty"`
	Keep    bool       `json:"keep"`
	Console bool       `json:"console"`
	Calls   []encCall  `json:"calls"`
	N       int        `json:"n"`
	Lg      *c08Logger `json:"lg,omitempty"`
	Act     *c08Act    `json:"act,omitempty"`
}

type c08Op struct {
	K       string     `json:"k"`
	Mode    string     `json:"mode"` // seq | conc | same
	Sub     bool       `json:"sub"`
	Obs     c08Obs     `json:"obs"`
	Hist    []c08Hist  `json:"hist"`
	Workers int        `json:"workers"`
	Reps    int        `json:"reps"`
	Self    []c08Self  `json:"self"`  // mode same: operations made through the OBSERVED core / logger itself
	Child   []encField `json:"child"` // mode same: the fields of the With-children derived before and after them
}

// c08Self is one operation through the observed core (enc) or logger (log) itself.
type c08Self struct {
	S      string     `json:"s"` // nofields | fields | obs | panicobj | checkdrop | sync | child | gc
	Fields []encField `json:"fields"`
	Calls  []encCall  `json:"calls"`
	Log    bool       `json:"log"` // child: also log through it
}

// ---- sinks, hooks, clock ---------------------------------------------------------------------------------------

type c08Sink struct {
	mu      sync.Mutex
	buf     []byte
	writes  int
	fail    bool
	foreign *int64 // counts writes to sinks of the history
	before  func() // runs on entry to Write, before p is looked at (a sink that logs itself)
}

func (s *c08Sink) Write(p []byte) (int, error) {
	if s.before != nil {
		s.before()
	}
	s.mu.Lock()
	defer s.mu.Unlock()
	s.writes++
	s.buf = append(s.buf, p...)
	if s.foreign != nil {
		atomic.AddInt64(s.foreign, 1)
	}
	if s.fail {
		return 0, errors.New("sink failed")
	}
	return len(p), nil
}
func (s *c08Sink) Sync() error { return nil }

func (s *c08Sink) take() ([]byte, int) {
	s.mu.Lock()
	defer s.mu.Unlock()
	b, n := s.buf, s.writes
	s.buf, s.writes = nil, 0
	return b, n
}

func (s *c08Sink) contains(marker []byte) bool {
	s.mu.Lock()
	defer s.mu.Unlock()
	return len(marker) > 0 && bytes.Contains(s.buf, marker)
}

// c08Hook is a CheckWriteHook (zap.WithPanicHook / WithFatalHook / CheckedEntry.After) that behaves like a crash reporter:
// it first does other work — logs through an unrelated logger (which takes a CheckedEntry from the pool and puts it back)
// and, when asked to, yields so that other goroutines log — and only THEN reads the *CheckedEntry it was handed and the
// fields, and records what it saw.  What it records must describe the entry of its own log call.
type c08Hook struct {
	calls  *int64
	before func()
	rec    *c08Sink // nil: the reading is made but not recorded (hooks of the history)
}

func (h c08Hook) OnWrite(ce *zapcore.CheckedEntry, fields []zapcore.Field) {
	atomic.AddInt64(h.calls, 1)
	if h.before != nil {
		h.before()
	}
	var b bytes.Buffer
	fmt.Fprintf(&b, "%d|%s|%s|%d|%d|%v|%s:%d|%s|%q", int(ce.Level), ce.LoggerName, ce.Message, len(fields), ce.Time.UnixNano(),
		ce.Caller.Defined, ce.Caller.File, ce.Caller.Line, ce.Caller.Function, ce.Stack)
	for _, f := range fields {
		fmt.Fprintf(&b, "|%s:%d", f.Key, f.Type)
	}
	b.WriteByte('\n')
	if h.rec != nil {
		_, _ = h.rec.Write(b.Bytes())
	}
}

// c08HookBefore: what a hook does before it looks at its entry (mode 0: nothing; 1: logs; 2: logs and yields).
func c08HookBefore(mode int, auxSink zapcore.WriteSyncer) func() {
	if mode == 0 {
		return nil
	}
	aux := zap.New(zapcore.NewCore(zapcore.NewJSONEncoder(zap.NewProductionEncoderConfig()), auxSink, zapcore.DebugLevel),
		zap.WithClock(c08Clock{})).Named("audit")
	return func() {
		aux.Info("hook invoked, flushing", zap.Int("pending", 3))
		if mode >= 2 {
			for i := 0; i < 4; i++ {
				runtime.Gosched()
			}
			aux.Warn("still flushing")
		}
	}
}

type c08Clock struct{}

func (c08Clock) Now() time.Time                         { return time.Unix(1700000000, 123456789).UTC() }
func (c08Clock) NewTicker(d time.Duration) *time.Ticker { return time.NewTicker(d) }

// c08World is what one goroutine of a case owns: the sinks and hooks of its history.
type c08World struct {
	foreign   int64 // writes to any sink or error output of the history
	hookCalls int64 // calls of any hook of the history
	sinks     []*c08Sink
	kept      []c08Kept
}

type c08Kept struct {
	core zapcore.Core
	op   *encOp
}

func (w *c08World) sink(fail bool) *c08Sink {
	s := &c08Sink{fail: fail, foreign: &w.foreign}
	w.sinks = append(w.sinks, s)
	return s
}

// ---- scripted marshaler that panics --------------------------------------------------------------------------

type c08PanicObj struct{ calls []encCall }

func (o c08PanicObj) MarshalLogObject(enc zapcore.ObjectEncoder) error {
	_ = scriptObj{calls: o.calls}.MarshalLogObject(enc)
	panic("c08: marshaler panics with namespaces open and a reflection buffer in use")
}

// ---- logger level -------------------------------------------------------------------------------------------------

func c08EncoderConfig() zapcore.EncoderConfig {
	c := zap.NewProductionEncoderConfig()
	c.FunctionKey = "func"
	return c
}

func c08BuildLogger(l *c08Logger, sink, errOut zapcore.WriteSyncer, hk c08Hook) *zap.Logger {
	var enc zapcore.Encoder
	if l.Console {
		enc = zapcore.NewConsoleEncoder(c08EncoderConfig())
	} else {
		enc = zapcore.NewJSONEncoder(c08EncoderConfig())
	}
	opts := []zap.Option{zap.WithClock(c08Clock{}), zap.ErrorOutput(errOut)}
	if l.Caller {
		opts = append(opts, zap.AddCaller())
	}
	if l.Stack < 99 {
		opts = append(opts, zap.AddStacktrace(zapcore.Level(l.Stack)))
	}
	if l.Dev {
		opts = append(opts, zap.Development())
	}
	switch l.Hook {
	case "panic":
		opts = append(opts, zap.WithPanicHook(hk))
	case "fatal":
		opts = append(opts, zap.WithFatalHook(hk))
	}
	if len(l.Fields) > 0 {
		opts = append(opts, zap.Fields(buildFields(l.Fields)...))
	}
	lg := zap.New(zapcore.NewCore(enc, sink, zapcore.DebugLevel), opts...)
	if l.Name != "" {
		lg = lg.Named(string(unhx(l.Name)))
	}
	return lg
}

//go:noinline
func c08Recurse(n int, f func()) {
	if n <= 0 {
		f()
		return
	}
	c08Recurse(n-1, f)
}

// c08DoAct performs one logging action; a panic leaving the call is returned as text.
func c08DoAct(lg *zap.Logger, l *c08Logger, a *c08Act, hk c08Hook) (panicMsg string) {
	defer func() {
		if e := recover(); e != nil {
			panicMsg = "panic: " + fmt.Sprint(e)
		}
	}()
	msg := string(unhx(a.Msg))
	fs := buildFields(a.Fields)
	lvl := zapcore.Level(a.Lvl)
	switch a.A {
	case "log":
		lg.Log(lvl, msg, fs...)
	case "dpanic":
		lg.DPanic(msg, fs...)
	case "panic":
		lg.Panic(msg, fs...)
	case "fatal":
		if l.Hook == "fatal" {
			lg.Fatal(msg, fs...)
		} else {
			lg.Error(msg, fs...)
		}
	case "checkdrop":
		_ = lg.Check(lvl, msg) // a CheckedEntry that is never written never returns to the pool
	case "checkwrite":
		if ce := lg.Check(lvl, msg); ce != nil {
			ce.Write(fs...)
		}
	case "checkafter":
		// a hook installed on the CheckedEntry itself
		if ce := lg.Check(lvl, msg); ce != nil {
			ce = ce.After(ce.Entry, hk)
			ce.Write(fs...)
		}
	case "sugar":
		lg.Sugar().Infow(msg, "k", 1, "s", "v")
	case "deep":
		c08Recurse(a.Depth, func() { lg.Log(lvl, msg, fs...) })
	case "corecheck":
		// a CheckedEntry obtained from the core directly: Logger.check never sets its ErrorOutput
		ent := zapcore.Entry{Level: lvl, Time: c08Clock{}.Now(), Message: msg}
		if ce := lg.Core().Check(ent, nil); ce != nil {
			ce.Write(fs...)
		}
	case "with":
		lg.With(fs...).Log(lvl, msg)
	case "stackfield":
		lg.Log(lvl, msg, zap.Stack("st"), zap.StackSkip("st2", 1))
	default:
		panic("bad act " + a.A)
	}
	return ""
}

// ---- history ---------------------------------------------------------------------------------------------------------

func c08EncCore(op *encOp, sink zapcore.WriteSyncer) zapcore.Core {
	cfg := buildConfig(op.Cfg)
	var enc zapcore.Encoder
	if op.Console {
		enc = zapcore.NewConsoleEncoder(cfg)
	} else {
		enc = zapcore.NewJSONEncoder(cfg)
	}
	core := zapcore.NewCore(enc, sink, zapcore.Level(-128))
	for _, c := range op.Ctx {
		core = core.With(buildFields(c))
	}
	return core
}

func (w *c08World) runHist(h *c08Hist) {
	defer func() { _ = recover() }() // a panic leaving a history call is part of the history
	switch h.H {
	case "enc":
		if h.Op == nil {
			return
		}
		core := c08EncCore(h.Op, w.sink(false))
		_ = core.Write(buildEntry(h.Op.Ent), buildFields(h.Op.Fields))
		if h.Keep {
			w.kept = append(w.kept, c08Kept{core, h.Op})
		}
	case "relog":
		if len(w.kept) > 0 {
			k := w.kept[h.N%len(w.kept)]
			_ = k.core.Write(buildEntry(k.op.Ent), buildFields(k.op.Fields))
		}
	case "panicobj":
		cfg := zap.NewProductionEncoderConfig()
		var enc zapcore.Encoder
		if h.Console {
			enc = zapcore.NewConsoleEncoder(cfg)
		} else {
			enc = zapcore.NewJSONEncoder(cfg)
		}
		core := zapcore.NewCore(enc, w.sink(false), zapcore.DebugLevel)
		_ = core.Write(zapcore.Entry{Message: "m", Time: c08Clock{}.Now()},
			[]zapcore.Field{zap.Namespace("open"), zap.Reflect("r", map[string]int{"a": 1}), zap.Object("o", c08PanicObj{h.Calls})})
	case "huge":
		cfg := zap.NewProductionEncoderConfig()
		var enc zapcore.Encoder
		if h.Console {
			enc = zapcore.NewConsoleEncoder(cfg)
		} else {
			enc = zapcore.NewJSONEncoder(cfg)
		}
		n := h.N
		if n > 1<<20 {
			n = 1 << 20
		}
		big := strings.Repeat("x\"\n", n/3+1)
		core := zapcore.NewCore(enc, w.sink(false), zapcore.DebugLevel).With([]zapcore.Field{zap.String("ctx", big[:n/2])})
		_ = core.Write(zapcore.Entry{Message: big, Time: c08Clock{}.Now(), Stack: big[:n/4]},
			[]zapcore.Field{zap.String("big", big), zap.Reflect("r", []string{big[:n/2]}), zap.Namespace("dangling"), zap.ByteString("b", []byte(big))})
	case "gc":
		runtime.GC()
		runtime.GC()
	case "gc1":
		runtime.GC()
	case "log":
		if h.Lg == nil || h.Act == nil {
			return
		}
		hk := c08Hook{calls: &w.hookCalls, before: c08HookBefore(h.Lg.HookDo, w.sink(false))}
		lg := c08BuildLogger(h.Lg, w.sink(h.Lg.Fail), w.sink(false), hk)
		_ = c08DoAct(lg, h.Lg, h.Act, hk)
	}
}

// ---- the observed call ---------------------------------------------------------------------------------------------

type c08Observation struct {
	Line    []byte
	Writes  int
	ErrOut  []byte
	Panic   string `json:"-"`
	PanicB  []byte // Panic for the trip through JSON (a panic text need not be valid UTF-8)
	Hooks   int64  // calls of the observed logger's own hook
	HookRec []byte // what that hook read from the *CheckedEntry and the fields it was handed
	Foreign int64  // writes to sinks of the history while the call ran (seq only)
	FHooks  int64  // calls of hooks of the history while the call ran (seq only)
}

func (o *c08Observation) text() string {
	return fmt.Sprintf("line=%q writes=%d errout=%q panic=%q ownHooks=%d hookRead=%q foreignWrites=%d foreignHooks=%d",
		trunc2(o.Line), o.Writes, trunc2(o.ErrOut), o.Panic, o.Hooks, trunc2(o.HookRec), o.Foreign, o.FHooks)
}

func (o *c08Observation) same(b *c08Observation) bool {
	return bytes.Equal(o.Line, b.Line) && o.Writes == b.Writes && bytes.Equal(o.ErrOut, b.ErrOut) && o.Panic == b.Panic &&
		o.Hooks == b.Hooks && bytes.Equal(o.HookRec, b.HookRec) && o.Foreign == b.Foreign && o.FHooks == b.FHooks
}

type c08Observer struct {
	obs     *c08Obs
	w       *c08World
	sink    *c08Sink
	errOut  *c08Sink
	hooks   int64
	hookRec *c08Sink
	hk      *c08Hook
	core    zapcore.Core // prebuilt
	lg      *zap.Logger  // prebuilt
	onCore  zapcore.Core // mode same: the core / logger the next observation goes through
	onLg    *zap.Logger
	seq     bool
}

func c08NewObserver(obs *c08Obs, w *c08World, seq bool) *c08Observer {
	o := &c08Observer{obs: obs, w: w, sink: &c08Sink{}, errOut: &c08Sink{}, hookRec: &c08Sink{}, seq: seq}
	if obs.T == "log" && obs.Lg != nil {
		o.sink.fail = obs.Lg.Fail
	}
	if obs.T == "enc" && obs.Op != nil && obs.Op.Reentrant {
		// a sink that itself logs (through a core sharing every pool) before it consumes its argument: the buffer handed to
		// the sink is still in flight while those entries take buffers and encoders from the pools and put them back
		inner := zapcore.NewCore(zapcore.NewJSONEncoder(zap.NewProductionEncoderConfig()), &c08Sink{}, zapcore.Level(-128))
		o.sink.before = func() {
			for i := 0; i < 3; i++ {
				_ = inner.Write(zapcore.Entry{Message: "diagnostic from inside the sink ...................................................."},
					[]zapcore.Field{zap.String("k", strings.Repeat("v", 90)), zap.Int("n", i), zap.Reflect("r", []int{i})})
			}
		}
	}
	if obs.Prebuilt {
		// built before the history: its With-clones own buffers that every later operation must leave alone
		switch obs.T {
		case "enc":
			o.core = c08EncCore(obs.Op, o.sink)
		case "log":
			o.lg = c08BuildLogger(obs.Lg, o.sink, o.errOut, o.hook())
		}
	}
	return o
}

// hook is the observed logger's own hook: its "other work" goes through a logger of its own (not a sink of the history).
func (o *c08Observer) hook() c08Hook {
	if o.hk == nil {
		do := 0
		if o.obs.Lg != nil {
			do = o.obs.Lg.HookDo
		}
		o.hk = &c08Hook{calls: &o.hooks, before: c08HookBefore(do, &c08Sink{}), rec: o.hookRec}
	}
	return *o.hk
}

// run makes the observed call once.  Every phase of a case calls it from the same statement, so caller annotations and
// stack traces of logger-level observations are the same text in every phase (and in a fresh process).
func (o *c08Observer) run() *c08Observation {
	f0, h0 := atomic.LoadInt64(&o.w.foreign), atomic.LoadInt64(&o.w.hookCalls)
	own0 := atomic.LoadInt64(&o.hooks)
	res := &c08Observation{}
	switch o.obs.T {
	case "enc":
		op := o.obs.Op
		func() {
			defer func() {
				if e := recover(); e != nil {
					res.Panic = "panic: " + fmt.Sprint(e)
				}
			}()
			core := o.core
			if o.onCore != nil {
				core = o.onCore
			}
			if core == nil {
				core = c08EncCore(op, o.sink)
			}
			_ = core.Write(buildEntry(op.Ent), buildFields(op.Fields))
		}()
	case "log":
		lg := o.lg
		if o.onLg != nil {
			lg = o.onLg
		}
		if lg == nil {
			lg = c08BuildLogger(o.obs.Lg, o.sink, o.errOut, o.hook())
		}
		res.Panic = c08DoAct(lg, o.obs.Lg, o.obs.Act, o.hook())
	}
	res.Line, res.Writes = o.sink.take()
	res.ErrOut, _ = o.errOut.take()
	res.Hooks = atomic.LoadInt64(&o.hooks) - own0
	res.HookRec, _ = o.hookRec.take()
	if o.seq {
		res.Foreign = atomic.LoadInt64(&o.w.foreign) - f0
		res.FHooks = atomic.LoadInt64(&o.w.hookCalls) - h0
	}
	return res
}

// ---- history through the observed core / logger itself (mode same) ------------------------------------------------

// c08Target is the observed core (enc) or logger (log), built exactly as a fresh one is built for the baseline.
type c08Target struct {
	core zapcore.Core
	lg   *zap.Logger
}

func (o *c08Observer) newTarget() c08Target {
	if o.obs.T == "enc" {
		return c08Target{core: c08EncCore(o.obs.Op, o.sink)}
	}
	return c08Target{lg: c08BuildLogger(o.obs.Lg, o.sink, o.errOut, o.hook())}
}

func (t c08Target) child(fs []encField) c08Target {
	if t.core != nil {
		return c08Target{core: t.core.With(buildFields(fs))}
	}
	return c08Target{lg: t.lg.With(buildFields(fs)...)}
}

// selfOp runs one operation through the target itself; panics leaving the call are part of the history.
func (o *c08Observer) selfOp(t c08Target, s *c08Self) {
	defer func() { _ = recover() }()
	ent := zapcore.Entry{Level: zapcore.InfoLevel, Time: c08Clock{}.Now(), Message: "earlier entry on the same logger"}
	if o.obs.T == "enc" {
		ent = buildEntry(o.obs.Op.Ent)
	}
	panicFields := func() []zapcore.Field {
		return []zapcore.Field{zap.Namespace("open"), zap.Reflect("r", map[string]int{"a": 1}), zap.Object("o", c08PanicObj{s.Calls})}
	}
	switch s.S {
	case "gc":
		runtime.GC()
		runtime.GC()
		return
	case "child":
		c := t.child(s.Fields)
		if s.Log {
			o.selfOp(c, &c08Self{S: "nofields"})
		}
		return
	}
	if t.core != nil {
		switch s.S {
		case "nofields":
			_ = t.core.Write(ent, nil)
		case "fields":
			_ = t.core.Write(ent, buildFields(s.Fields))
		case "obs":
			_ = t.core.Write(ent, buildFields(o.obs.Op.Fields))
		case "panicobj":
			_ = t.core.Write(ent, panicFields())
		case "checkdrop":
			_ = t.core.Check(ent, nil)
		case "sync":
			_ = t.core.Sync()
		}
		return
	}
	switch s.S {
	case "nofields":
		t.lg.Info(ent.Message)
	case "fields":
		t.lg.Info(ent.Message, buildFields(s.Fields)...)
	case "obs":
		_ = c08DoAct(t.lg, o.obs.Lg, o.obs.Act, o.hook())
	case "panicobj":
		t.lg.Info(ent.Message, panicFields()...)
	case "checkdrop":
		_ = t.lg.Check(zapcore.WarnLevel, ent.Message)
	case "sync":
		_ = t.lg.Sync()
	}
}

// ---- exec ------------------------------------------------------------------------------------------------------------

func c08Marker(obs *c08Obs) []byte {
	var m []byte
	switch obs.T {
	case "enc":
		if obs.Op != nil {
			m = unhx(obs.Op.Ent.Msg)
		}
	case "log":
		if obs.Act != nil {
			m = unhx(obs.Act.Msg)
		}
	}
	if bytes.Contains(m, []byte("zvOBS")) {
		return []byte("zvOBS")
	}
	return nil
}

type c08Outcome struct {
	want    *c08Observation // what out.bad is compared with when that is not base
	base    *c08Observation
	bad     *c08Observation
	phase   string
	detail  string
	timeout bool
}

func c08RunCase(op *c08Op) (out c08Outcome) {
	seq := op.Mode != "conc"
	same := op.Mode == "same" && op.K != "first"
	runtime.LockOSThread()
	defer runtime.UnlockOSThread()
	if seq {
		prev := runtime.GOMAXPROCS(1)
		defer runtime.GOMAXPROCS(prev)
	}
	w := &c08World{}
	first := op.K == "first"
	if !first {
		runtime.GC()
		runtime.GC()
	}
	o := c08NewObserver(&op.Obs, w, seq)
	phases := 3
	if first {
		phases = 1
	}
	if same {
		// 0: a fresh core/logger (B0)   1: a With-child of a fresh one (Bc)   2: the SAME core/logger after the history made
		// through it   3: its child derived before that history   4: its child derived after it
		phases = 5
	}
	var tgt, childBefore, childAfter c08Target
	var baseChild *c08Observation
	reps := op.Reps
	if !seq {
		if reps < 1 {
			reps = 20
		}
		phases = 1 + reps
	}
	var stop int32
	var wg sync.WaitGroup
	var worlds []*c08World
	defer func() {
		atomic.StoreInt32(&stop, 1)
		wg.Wait()
	}()
	for phase := 0; phase < phases; phase++ {
		if same {
			switch phase {
			case 1:
				c := o.newTarget().child(op.Child)
				o.onCore, o.onLg = c.core, c.lg
			case 2:
				tgt = o.newTarget()
				childBefore = tgt.child(op.Child)
				for i := range op.Hist {
					w.runHist(&op.Hist[i])
				}
				for i := range op.Self {
					o.selfOp(tgt, &op.Self[i])
				}
				childAfter = tgt.child(op.Child)
				o.onCore, o.onLg = tgt.core, tgt.lg
			case 3:
				o.onCore, o.onLg = childBefore.core, childBefore.lg
			case 4:
				o.onCore, o.onLg = childAfter.core, childAfter.lg
			}
			// what the history wrote to the shared sinks is not part of the observation
			o.sink.take()
			o.errOut.take()
			o.hookRec.take()
		} else if phase == 1 {
			if seq {
				for i := range op.Hist {
					w.runHist(&op.Hist[i])
				}
			} else {
				nw := op.Workers
				if nw < 1 {
					nw = 2
				}
				for g := 0; g < nw; g++ {
					wg.Add(1)
					ww := &c08World{}
					worlds = append(worlds, ww)
					go func(g int, ww *c08World) {
						defer wg.Done()
						for atomic.LoadInt32(&stop) == 0 {
							for i := range op.Hist {
								if atomic.LoadInt32(&stop) != 0 {
									return
								}
								if (i+g)%nw == 0 || len(op.Hist) < nw {
									ww.runHist(&op.Hist[i])
								}
							}
							ww.sinks, ww.kept = nil, nil
							runtime.Gosched()
						}
					}(g, ww)
				}
			}
		}
		res := o.run() // the one call site of every observation
		if phase == 0 {
			out.base = res
			continue
		}
		if same {
			want, ph := out.base, "same-logger"
			switch phase {
			case 1:
				baseChild = res
				continue
			case 3:
				want, ph = baseChild, "same-logger:child-before"
			case 4:
				want, ph = baseChild, "same-logger:child-after"
			}
			if !res.same(want) && out.bad == nil {
				out.bad, out.phase, out.want = res, ph, want
			}
			continue
		}
		if !res.same(out.base) && out.bad == nil {
			out.bad = res
			switch {
			case !seq:
				out.phase = "concurrent"
			case phase == 1:
				out.phase = "after-history"
			default:
				out.phase = "repeat"
			}
		}
		if !seq {
			runtime.Gosched()
		}
	}
	atomic.StoreInt32(&stop, 1)
	wg.Wait()
	// nothing of the observed call may have reached a sink of the history (concurrent mode: by content)
	if out.bad == nil {
		if m := c08Marker(&op.Obs); m != nil {
			for _, ww := range append(worlds, w) {
				for _, s := range ww.sinks {
					if s.contains(m) {
						out.bad, out.phase = out.base, "foreign-sink"
						out.detail = "the observed entry was written to a sink of the history"
					}
				}
			}
		}
	}
	return out
}

// c08HookExpect: does the observed call run the recording hook, and what must the hook read (as far as the inputs say)?
func c08HookExpect(obs *c08Obs) (prefix []byte, fires bool) {
	if obs.T != "log" || obs.Lg == nil || obs.Act == nil {
		return nil, false
	}
	l, a := obs.Lg, obs.Act
	level := 0
	switch {
	case a.A == "panic" && l.Hook == "panic":
		level = int(zapcore.PanicLevel)
	case a.A == "fatal" && l.Hook == "fatal":
		level = int(zapcore.FatalLevel)
	case a.A == "dpanic" && l.Dev && l.Hook == "panic":
		level = int(zapcore.DPanicLevel)
	case a.A == "checkafter":
		level = a.Lvl
	default:
		return nil, false
	}
	return []byte(fmt.Sprintf("%d|%s|%s|%d|", level, unhx(l.Name), unhx(a.Msg), len(a.Fields))), true
}

// c08PanicExpect: the built-in WriteThenPanic hook does panic(ce.Message)
func c08PanicExpect(obs *c08Obs) (string, bool) {
	if obs.T != "log" || obs.Lg == nil || obs.Act == nil {
		return "", false
	}
	l, a := obs.Lg, obs.Act
	if (a.A == "panic" || (a.A == "dpanic" && l.Dev)) && l.Hook != "panic" {
		return "panic: " + string(unhx(a.Msg)), true
	}
	return "", false
}

func c08ObsKind(obs *c08Obs) string {
	switch obs.T {
	case "enc":
		if obs.Op != nil && obs.Op.Console {
			return "console-line"
		}
		return "json-line"
	}
	return "logger-output"
}

func c08FirstInProcess(raw json.RawMessage, op *c08Op) (*c08Observation, error) {
	child := *op
	child.K, child.Hist, child.Sub = "first", []c08Hist{}, false
	line, err := json.Marshal(child)
	if err != nil {
		return nil, err
	}
	cmd := exec.Command(os.Args[0], "exec", "C08")
	// the race runtime sleeps one second at exit by default (atexit_sleep_ms); the child has a single goroutine
	cmd.Env = append(os.Environ(), "GORACE=halt_on_error=1 atexit_sleep_ms=0")
	cmd.Stdin = bytes.NewReader(append(line, '\n'))
	var outb bytes.Buffer
	cmd.Stdout = &outb
	if err := cmd.Start(); err != nil {
		return nil, err
	}
	t := time.AfterFunc(60*time.Second, func() { _ = cmd.Process.Kill() })
	err = cmd.Wait()
	t.Stop()
	if err != nil {
		return nil, err
	}
	var res struct {
		Impl struct {
			Obsv string `json:"obsv"`
		} `json:"impl"`
	}
	if err := json.Unmarshal(bytes.TrimSpace(outb.Bytes()), &res); err != nil {
		return nil, err
	}
	var ob c08Observation
	if err := json.Unmarshal(unhx(res.Impl.Obsv), &ob); err != nil {
		return nil, err
	}
	ob.Panic, ob.PanicB = string(ob.PanicB), nil
	return &ob, nil
}

func c08Exec(raw json.RawMessage) Result {
	var op c08Op
	unmarshal(raw, &op)
	if (op.Obs.T == "enc" && op.Obs.Op == nil) || (op.Obs.T == "log" && (op.Obs.Lg == nil || op.Obs.Act == nil)) || (op.Obs.T != "enc" && op.Obs.T != "log") {
		return Result{Impl: map[string]any{"skip": true}, Oracle: ok(), NoModel: true, Shape: "malformed"}
	}
	kind := c08ObsKind(&op.Obs)
	var out c08Outcome
	if op.Mode == "conc" {
		if concWD.exhausted() {
			return concSkipped("conc")
		}
		timedOut, dump := concWD.watched(func() { out = c08RunCase(&op) })
		if timedOut {
			if _, fine := concRerunAlone("C08", raw); fine {
				return Result{Impl: map[string]any{"skip": true}, Oracle: ok(), NoModel: true, Shape: "conc/slow"}
			}
			return Result{Impl: map[string]any{"timeout": true}, Oracle: bad("C08:hang", "the case did not finish\n%s", dump), NoModel: true, Shape: "conc/timeout"}
		}
	} else {
		out = c08RunCase(&op)
	}
	if op.K == "first" {
		out.base.PanicB = []byte(out.base.Panic)
		j, _ := json.Marshal(out.base)
		return Result{Impl: map[string]any{"line": hx(out.base.Line), "obsv": hx(j), "timeout": false}, Oracle: ok(), NoModel: true, Shape: "first"}
	}
	o := ok()
	if out.bad != nil {
		if out.want == nil && !bytes.Equal(out.bad.HookRec, out.base.HookRec) {
			kind = "hook-entry" // the hook of the observed call read something else from its *CheckedEntry
		}
		ref := out.base
		if out.want != nil {
			ref = out.want
		}
		o = bad(fmt.Sprintf("C08:history-dependent:%s:%s", kind, out.phase),
			"the observed call produced different results %s\n  fresh logger, every pool empty: %s\n  %-22s %s\n%s", out.phase, ref.text(), out.phase+":", out.bad.text(), out.detail)
	} else if out.base.Foreign != 0 || out.base.FHooks != 0 {
		o = bad("C08:history-dependent:"+kind+":foreign-sink", "the observed call reached a sink or hook of another logger: %s", out.base.text())
	}
	if o.OK {
		// the entry a hook (custom or built-in) reads is the entry of its own log call, whatever the hook did before reading it
		if prefix, fires := c08HookExpect(&op.Obs); fires && (out.base.Hooks != 1 || !bytes.HasPrefix(out.base.HookRec, prefix)) {
			o = bad("C08:history-dependent:hook-entry:inputs", "the hook of the observed call was handed a CheckedEntry that does not describe that call\n"+
				"  expected to read (level|logger|message|#fields|…): %q\n  observation: %s", trunc2(prefix), out.base.text())
		} else if want, applies := c08PanicExpect(&op.Obs); applies && out.base.Panic != want {
			o = bad("C08:history-dependent:hook-entry:inputs", "the built-in panic hook read another message from its CheckedEntry: want %q\n  observation: %s",
				want, out.base.text())
		}
	}
	if o.OK && op.Sub {
		fs, err := c08FirstInProcess(raw, &op)
		switch {
		case err != nil:
			o = bad("C08:harness:subprocess", "first-in-process run failed: %v", err)
		case !fs.same(out.base):
			o = bad("C08:history-dependent:"+kind+":first-in-process",
				"the observed call produced different results as the first call of a fresh process\n  fresh process: %s\n  this process, pools emptied: %s", fs.text(), out.base.text())
		}
	}
	impl := map[string]any{"line": hx(out.base.Line)}
	if os.Getenv("ZVH_ALONE") != "" {
		impl["timeout"] = false // re-run alone after a watchdog timeout (conc_watchdog.go): finished in time
	}
	noModel := op.Obs.T != "enc" || out.base.Panic != ""
	nf := len(op.Hist) + len(op.Self)
	shape := fmt.Sprintf("%s/%s/hist%d", op.Mode, kind, bucket(nf))
	if op.Obs.Prebuilt {
		shape += "/prebuilt"
	}
	if op.Sub {
		shape += "/sub"
	}
	return Result{Impl: impl, Oracle: o, Nontrivial: nf >= 1, Shape: shape, NoModel: noModel}
}

// ---- generator -------------------------------------------------------------------------------------------------------

func c08OneEncOp(r *Rand, console bool, hostilePct, faults, depth, maxFields int) *encOp {
	var got *encOp
	genEncOps(r, 1, console, hostilePct, faults, depth, maxFields, func(op any) {
		o := op.(encOp)
		got = &o
	})
	return got
}

func c08GenLogger(r *Rand, g *encGen) *c08Logger {
	l := &c08Logger{Console: r.Chance(2, 5), Caller: r.Chance(1, 2), Stack: Pick(r, []int{99, 99, -1, 0, 2, 2}), Dev: r.Chance(1, 4),
		Hook: Pick(r, []string{"", "", "panic", "fatal"}), HookDo: Pick(r, []int{0, 1, 1, 2}), Fields: []encField{}, Fail: r.Chance(1, 6)}
	if r.Chance(1, 3) {
		l.Fields = g.fields(3)
	}
	if r.Chance(1, 3) {
		l.Name = hx([]byte("svc"))
	}
	return l
}

func c08GenAct(r *Rand, g *encGen, marker bool) *c08Act {
	a := &c08Act{A: Pick(r, []string{"log", "log", "log", "dpanic", "panic", "fatal", "checkdrop", "checkwrite", "checkwrite", "checkafter", "sugar", "deep",
		"corecheck", "with", "stackfield"}), Lvl: Pick(r, []int{-1, 0, 1, 2, 2}), Fields: g.fields(4), Depth: Pick(r, []int{1, 10, 70, 150, 300})}
	msg := g.str()
	if marker {
		msg = append([]byte("zvOBS "), msg...)
	}
	a.Msg = hx(msg)
	return a
}

func c08GenHist(r *Rand, n int) []c08Hist {
	hs := []c08Hist{}
	for i := 0; i < n; i++ {
		switch k := r.Intn(20); {
		case k < 8:
			// faulty, hostile, deep encoder ops: dangling namespaces, reflected values, erroring marshalers, error groups
			op := c08OneEncOp(r, r.Chance(2, 5), Pick(r, []int{10, 60}), Pick(r, []int{0, 150, 400}), 3, 8)
			hs = append(hs, c08Hist{H: "enc", Op: op, Keep: r.Chance(1, 4), Calls: []encCall{}})
		case k == 8:
			hs = append(hs, c08Hist{H: "relog", N: r.Intn(8), Calls: []encCall{}})
		case k == 9 || k == 10:
			g := &encGen{r: r, hostile: r.Bool(), faults: 200, depth: 2}
			g.config(false)
			hs = append(hs, c08Hist{H: "panicobj", Console: r.Bool(), Calls: g.ocalls(2)})
		case k == 11:
			hs = append(hs, c08Hist{H: "huge", N: Pick(r, []int{1500, 5000, 70000, 300000}), Console: r.Bool(), Calls: []encCall{}})
		case k == 12:
			hs = append(hs, c08Hist{H: Pick(r, []string{"gc", "gc1"}), Calls: []encCall{}})
		default:
			g := &encGen{r: r, hostile: r.Chance(1, 3), faults: Pick(r, []int{0, 200}), depth: 2}
			g.config(false)
			hs = append(hs, c08Hist{H: "log", Lg: c08GenLogger(r, g), Act: c08GenAct(r, g, false), Calls: []encCall{}})
		}
	}
	return hs
}

func c08GenObs(r *Rand) c08Obs {
	if r.Chance(7, 10) {
		op := c08OneEncOp(r, r.Chance(2, 5), Pick(r, []int{10, 40}), Pick(r, []int{0, 0, 100}), 3, 6)
		op.Ent.Msg = hx(append([]byte("zvOBS "), unhx(op.Ent.Msg)...))
		return c08Obs{T: "enc", Op: op, Prebuilt: r.Chance(1, 3)}
	}
	g := &encGen{r: r, hostile: r.Chance(1, 4), faults: Pick(r, []int{0, 100}), depth: 2}
	g.config(false)
	return c08Obs{T: "log", Lg: c08GenLogger(r, g), Act: c08GenAct(r, g, true), Prebuilt: r.Chance(1, 3)}
}

// targeted histories (always emitted first): every kind of operation that leaves a particular pooled object behind —
// as the LAST object put, so that a pinned goroutine gets exactly it back — followed directly by every kind of observed
// call.
func c08Targeted(r *Rand, emit func(op any)) {
	g := &encGen{r: r, depth: 2}
	g.config(false)
	str := func(s string) string { return hx([]byte(s)) }
	lgr := func(console bool) *c08Logger { return &c08Logger{Console: console, Stack: 99, Fields: []encField{}} }
	act := func(a string, lvl int, msg string, fs ...encField) *c08Act {
		if fs == nil {
			fs = []encField{}
		}
		return &c08Act{A: a, Lvl: lvl, Msg: str(msg), Fields: fs, Depth: 1}
	}
	jr := hx([]byte(`{"a":[1,2,3]}`))
	reflField := encField{F: "refl", Key: str("r"), Calls: []encCall{}, J: &jr}
	nsField := encField{F: "ns", Key: str("ns"), Calls: []encCall{}}
	e := g.errv(2)
	e.Group = true
	e.Causes = []encErrV{g.errv(1), g.errv(1)}
	ok1 := str("e1")
	errsField := encField{F: "errors", Key: str("errs"), Calls: []encCall{}, Errs: []encErrV{e, {O: encOutcome{OK: &ok1}, Causes: []encErrV{}}}}
	errField := encField{F: "error", Key: str("err"), Calls: []encCall{}, E: &e}
	openCalls := []encCall{{M: "ns", Key: str("x"), Calls: []encCall{}}, {M: "refl", Key: str("y"), J: &jr, Calls: []encCall{}}, {M: "ns", Key: str("z"), Calls: []encCall{}}}
	hookLg := &c08Logger{Stack: 0, Caller: true, Hook: "panic", HookDo: 1, Fields: []encField{}, Fail: true, Name: str("hist")}
	allCols := &c08Logger{Console: true, Stack: 0, Caller: true, Fields: []encField{nsField}, Name: str("cols")}
	lg := func(l *c08Logger, a *c08Act) c08Hist { return c08Hist{H: "log", Lg: l, Act: a, Calls: []encCall{}} }
	dirtiers := [][]c08Hist{
		{{H: "panicobj", Console: true, Calls: openCalls}},
		{{H: "panicobj", Console: false, Calls: openCalls}},
		{lg(lgr(false), act("log", 0, "h", reflField, nsField, reflField))},
		{lg(lgr(true), act("log", 0, "h", reflField, nsField, reflField))},
		{{H: "huge", N: 70000, Console: false, Calls: []encCall{}}},
		{{H: "huge", N: 70000, Console: true, Calls: []encCall{}}},
		{lg(hookLg, act("panic", 0, "a hook that returns"))},
		{lg(hookLg, act("checkwrite", 2, "written, sink fails"))},
		{lg(hookLg, act("checkdrop", 2, "dropped")), lg(hookLg, act("log", 2, "then written"))},
		{lg(&c08Logger{Stack: -1, Caller: true, Fields: []encField{}}, &c08Act{A: "deep", Lvl: 0, Msg: str("deep"), Fields: []encField{}, Depth: 300})},
		{lg(lgr(false), act("log", 2, "h", errField, errsField)), lg(lgr(true), act("log", 2, "h", errsField, errField))},
		{lg(allCols, act("log", 2, "every column"))},
	}
	observers := []c08Obs{
		{T: "log", Lg: lgr(false), Act: act("log", 0, "zvOBS json", reflField, errsField)},
		{T: "log", Lg: lgr(true), Act: act("log", 0, "zvOBS console", reflField, errField)},
		{T: "log", Lg: &c08Logger{Stack: 99, Fields: []encField{}, Fail: true}, Act: act("corecheck", 0, "zvOBS core-level, sink fails")},
		{T: "log", Lg: &c08Logger{Console: true, Stack: -1, Caller: true, Fields: []encField{}, Name: str("obs")}, Act: act("stackfield", 0, "zvOBS stacks")},
		{T: "log", Lg: &c08Logger{Caller: true, Stack: 99, Fields: []encField{}}, Act: act("with", 1, "zvOBS with", nsField, reflField)},
		// hooks that do other work before they read the CheckedEntry they were handed
		{T: "log", Lg: &c08Logger{Stack: 99, Hook: "fatal", HookDo: 1, Fields: []encField{}, Name: str("app")}, Act: act("fatal", 0, "zvOBS disk full", reflField)},
		{T: "log", Lg: &c08Logger{Console: true, Stack: 0, Caller: true, Hook: "panic", HookDo: 2, Fields: []encField{nsField}, Name: str("app")},
			Act: act("panic", 0, "zvOBS invariant broken", errField, reflField)},
		{T: "log", Lg: &c08Logger{Stack: 99, Dev: true, Hook: "panic", HookDo: 1, Fields: []encField{}}, Act: act("dpanic", 0, "zvOBS dpanic in development")},
		{T: "log", Lg: &c08Logger{Stack: 99, HookDo: 1, Fields: []encField{}, Name: str("chk")}, Act: act("checkafter", 1, "zvOBS After hook", reflField)},
		{T: "log", Lg: &c08Logger{Stack: 99, Hook: "fatal", Fields: []encField{}}, Act: act("panic", 0, "zvOBS built-in panic hook")},
	}
	for di, d := range dirtiers {
		for oi, o := range observers {
			o.Prebuilt = (di+oi)%3 == 0
			emit(c08Op{K: "hist", Mode: "seq", Sub: (di+oi)%2 == 0, Obs: o, Hist: d})
		}
		for k := 0; k < 4; k++ {
			op := c08OneEncOp(r, k%2 == 1, 20, 0, 3, 6)
			op.Ent.Msg = hx(append([]byte("zvOBS "), unhx(op.Ent.Msg)...))
			op.Reentrant = k >= 2
			emit(c08Op{K: "hist", Mode: "seq", Obs: c08Obs{T: "enc", Op: op, Prebuilt: k == 3 && di%2 == 0}, Hist: append(append([]c08Hist{}, d...), d...)})
		}
	}
}

// ---- histories through the observed core / logger itself ---------------------------------------------------------------

func c08GenSelf(r *Rand, g *encGen, n int) []c08Self {
	out := []c08Self{}
	for i := 0; i < n; i++ {
		s := c08Self{S: Pick(r, []string{"nofields", "nofields", "fields", "fields", "obs", "panicobj", "checkdrop", "sync", "child", "child", "gc"}),
			Fields: []encField{}, Calls: []encCall{}}
		switch s.S {
		case "fields":
			s.Fields = g.fields(4)
		case "panicobj":
			s.Calls = g.ocalls(2)
		case "child":
			s.Fields, s.Log = g.fields(3), r.Bool()
		}
		out = append(out, s)
	}
	return out
}

// c08OpenNs makes the observed core's / logger's context leave a namespace open (With(zap.Namespace(…), …)).
func c08OpenNs(r *Rand, g *encGen, obs *c08Obs) {
	ns := []encField{{F: "ns", Key: hx([]byte(Pick(r, []string{"req", "ns", ""}))), Calls: []encCall{}},
		{F: "prim", Key: hx([]byte("id")), P: mkStr([]byte("42")), Calls: []encCall{}}}
	if r.Chance(1, 3) {
		ns = append(ns, encField{F: "ns", Key: hx([]byte("inner")), Calls: []encCall{}})
	}
	switch obs.T {
	case "enc":
		obs.Op.Ctx = append(obs.Op.Ctx, ns)
	case "log":
		obs.Lg.Fields = append(obs.Lg.Fields, ns...)
	}
}

func c08SameCase(r *Rand, sub bool) c08Op {
	g := &encGen{r: r, hostile: r.Chance(1, 4), faults: Pick(r, []int{0, 150}), depth: 2}
	g.config(false)
	obs := c08GenObs(r)
	obs.Prebuilt = false
	if r.Chance(2, 3) {
		c08OpenNs(r, g, &obs)
	}
	hist := []c08Hist{}
	if r.Chance(1, 3) {
		hist = c08GenHist(r, 1+r.Intn(3))
	}
	return c08Op{K: "hist", Mode: "same", Sub: sub, Obs: obs, Hist: hist, Self: c08GenSelf(r, g, 1+r.Intn(8)), Child: g.fields(3)}
}

// the same-logger histories that matter most, one operation each: JSON and console, core level and logger level, a context
// that leaves a namespace open, an observed entry WITH fields
func c08SameTargeted(r *Rand, emit func(op any)) {
	str := func(s string) string { return hx([]byte(s)) }
	ctx := []encField{{F: "ns", Key: str("req"), Calls: []encCall{}}, {F: "prim", Key: str("id"), P: mkStr([]byte("42")), Calls: []encCall{}}}
	status := encField{F: "prim", Key: str("status"), P: mkInt(200), Calls: []encCall{}}
	selfs := [][]c08Self{
		{{S: "nofields"}}, {{S: "fields", Fields: []encField{status}}}, {{S: "obs"}}, {{S: "checkdrop"}}, {{S: "sync"}}, {{S: "panicobj"}},
		{{S: "child", Fields: []encField{status}, Log: true}}, {{S: "child", Fields: []encField{}, Log: true}}, {{S: "nofields"}, {S: "gc"}, {S: "nofields"}},
	}
	for _, console := range []bool{false, true} {
		for si, self := range selfs {
			for i := range self {
				if self[i].Fields == nil {
					self[i].Fields = []encField{}
				}
				self[i].Calls = []encCall{}
			}
			op := c08OneEncOp(r, console, 0, 0, 1, 0)
			op.Ctx, op.Fields, op.Reentrant = [][]encField{ctx}, []encField{status}, false
			op.Ent.Msg = str("zvOBS done")
			emit(c08Op{K: "hist", Mode: "same", Sub: si == 0, Obs: c08Obs{T: "enc", Op: op}, Hist: []c08Hist{}, Self: self, Child: []encField{status}})
			lg := &c08Logger{Console: console, Stack: 99, Fields: ctx}
			emit(c08Op{K: "hist", Mode: "same", Sub: si == 0, Obs: c08Obs{T: "log", Lg: lg, Act: &c08Act{A: "log", Lvl: 0, Msg: str("zvOBS done"), Fields: []encField{status}, Depth: 1}},
				Hist: []c08Hist{}, Self: self, Child: []encField{status}})
		}
	}
}

func c08Gen(r *Rand, tier string, emit func(op any)) {
	nSeq, nConc, nSame, subEvery := 600, 60, 200, 3
	if tier == "thorough" {
		nSeq, nConc, nSame, subEvery = 10000, 800, 3000, 4
	}
	c08Targeted(r, emit)
	c08SameTargeted(r, emit)
	for i := 0; i < nSame; i++ {
		emit(c08SameCase(r, i%(2*subEvery) == 0))
	}
	for i := 0; i < nSeq; i++ {
		emit(c08Op{K: "hist", Mode: "seq", Sub: i%subEvery == 0, Obs: c08GenObs(r), Hist: c08GenHist(r, 1+r.Intn(12))})
	}
	for i := 0; i < nConc; i++ {
		emit(c08Op{K: "hist", Mode: "conc", Obs: c08GenObs(r), Hist: c08GenHist(r, 2+r.Intn(8)), Workers: 2 + r.Intn(3), Reps: Pick(r, []int{10, 30, 80})})
	}
}
