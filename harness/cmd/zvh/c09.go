package main

import (
	"context"
	"encoding/json"
	"errors"
	"fmt"
	"log/slog"
	"runtime"
	"strings"
	"sync"
	"sync/atomic"
	"time"

	"go.uber.org/zap"
	"go.uber.org/zap/exp/zapslog"
	"go.uber.org/zap/zapcore"
	"go.uber.org/zap/zaptest/observer"
)

// C09 — the documented concurrent API is free of data races, deadlocks and panics.
//
// op  {"k":"prog","cfg":{…},"warm":bool,"gs":[[{"a":…,"lvl":…,"fe":…},…],…]}
//     a generated multi-goroutine program over the concurrent API surface, run on a world built from cfg:
//       base     "obs" | "io" (tee of a JSON ioCore over Lock(sink) and the observer) | "bws" (same, ioCore over a
//                BufferedWriteSyncer over Lock(sink))
//       wrap     list applied in order to the shared logger: lazy | with | hooked | incr | sampler | named | caller | stack
//       warm     the shared logger is used once by the main goroutine before the workers start
//     → impl {"panics":0,"timeout":false,"delivered":N}   (N = -1 when a sampler makes the count schedule dependent)
// The harness is built with -race: a race report kills the process (GORACE=halt_on_error=1) and lib/zv.py turns that
// into the oracle failure `C09:data-race` for the op that was running.
//
// The model side (Drv/C09.lean) computes the same triple from the op: a concurrent program over the disciplined API
// neither panics nor blocks and delivers every accepted entry exactly once.

type c09Act struct {
	A   string `json:"a"`
	Lvl int    `json:"lvl"`
	Fe  string `json:"fe"`
}

type c09Cfg struct {
	Base string   `json:"base"`
	Wrap []string `json:"wrap"`
	Incr int      `json:"incr"` // level of the IncreaseLevel wrapper (only when "incr" ∈ wrap)
	// SlogDepth: number of groups already pending on the SHARED slog handler (0, 3, 5, 6, 7): goroutines derive sibling
	// handlers from it concurrently, which must not touch shared state (a pending-group slice with spare capacity)
	SlogDepth int `json:"slogdepth,omitempty"`
	// Bare: the encoder configuration leaves every encoder function nil (the encoders then fall back to their defaults at
	// the moment of use — which must not be recorded in the configuration shared by all clones)
	Bare bool `json:"bare,omitempty"`
	// Console: the io core encodes with the console encoder (its own pooled column encoder, context clone per entry)
	Console bool `json:"console,omitempty"`
}

type c09Op struct {
	K    string     `json:"k"`
	Cfg  c09Cfg     `json:"cfg"`
	Warm bool       `json:"warm"`
	Gs   [][]c09Act `json:"gs"`
}

func init() {
	props["C09"] = &Prop{Gen: c09Gen, Exec: c09Exec}
}

var c09Wraps = []string{"lazy", "with", "hooked", "incr", "named", "caller", "stack", "sampler"}

var c09Acts = []string{"log", "log", "log", "log", "log", "with", "withlazy", "named", "sugar", "withopts", "level", "sync",
	"setlevel", "getlevel", "leveltext", "replace", "global", "obslen", "obsall", "obstake", "obsfilter", "bwssync",
	"slog", "slogwith", "sloggroup", "sloggroup", "share", "adopt", "checkonly", "core", "logbad", "logrich", "logrich", "logskip"}

var c09Fes = []string{"plain", "log", "check", "sugarw", "sugarf", "sugar", "sugarln"}

func c09Gen(r *Rand, tier string, emit func(op any)) {
	n, maxActs := 600, 40
	if tier == "thorough" {
		n, maxActs = 12000, 120
	}
	// the F8 shape and its neighbours first: a fresh (never used) lazily-derived logger shared by workers that log at once
	for _, g := range []int{2, 4, 8} {
		for _, warm := range []bool{false, true} {
			for _, wrap := range [][]string{{"lazy"}, {"with", "lazy"}, {"lazy", "hooked"}, {"lazy", "lazy"}} {
				gs := make([][]c09Act, g)
				for i := range gs {
					gs[i] = []c09Act{{A: "log", Lvl: 0, Fe: "plain"}, {A: "log", Lvl: 2, Fe: "sugarw"}, {A: "sync"}}
				}
				emit(c09Op{K: "prog", Cfg: c09Cfg{Base: "io", Wrap: wrap}, Warm: warm, Gs: gs})
			}
		}
	}
	// cold loggers over a BARE encoder configuration: the first typed fields are encoded by several goroutines at once
	for _, base := range []string{"io", "bws", "combine1"} {
		for _, wrap := range [][]string{{}, {"with"}, {"named", "lazy"}} {
			gs := make([][]c09Act, 4)
			for i := range gs {
				gs[i] = []c09Act{{A: "logrich"}, {A: "log", Lvl: 1, Fe: "plain"}, {A: "logrich"}}
			}
			emit(c09Op{K: "prog", Cfg: c09Cfg{Base: base, Wrap: wrap, Bare: true}, Warm: false, Gs: gs})
		}
	}
	{
		gs := make([][]c09Act, 8)
		for i := range gs {
			gs[i] = []c09Act{{A: "logskip"}, {A: "log", Lvl: 2, Fe: "plain"}, {A: "log", Lvl: 2, Fe: "sugarw"}, {A: "logskip"}, {A: "log", Lvl: 2, Fe: "plain"}, {A: "log", Lvl: 0, Fe: "plain"},
				{A: "log", Lvl: 2, Fe: "check"}, {A: "log", Lvl: 2, Fe: "plain"}}
		}
		emit(c09Op{K: "prog", Cfg: c09Cfg{Base: "io", Wrap: []string{"caller", "stack"}}, Warm: true, Gs: gs})
	}
	for _, console := range []bool{true, false} {
		// the console encoder under overlapping entries; a locked sink shared by a buffered and a direct core
		gs := make([][]c09Act, 6)
		for i := range gs {
			gs[i] = []c09Act{{A: "log", Lvl: 2, Fe: "plain"}, {A: "logrich"}, {A: "log", Lvl: 0, Fe: "sugarw"}, {A: "sync"}, {A: "log", Lvl: 1, Fe: "plain"}, {A: "logrich"}}
		}
		emit(c09Op{K: "prog", Cfg: c09Cfg{Base: "io", Wrap: []string{"named"}, Console: console}, Warm: true, Gs: gs})
		emit(c09Op{K: "prog", Cfg: c09Cfg{Base: "bwsshared", Wrap: []string{}, Console: console}, Warm: true, Gs: gs})
	}
	for _, base := range []string{"combine1", "combine2", "bwsraw"} {
		gs := make([][]c09Act, 4)
		for i := range gs {
			gs[i] = []c09Act{{A: "log", Lvl: 0, Fe: "plain"}, {A: "log", Lvl: 2, Fe: "sugarw"}, {A: "sync"}, {A: "log", Lvl: 1, Fe: "plain"}}
		}
		emit(c09Op{K: "prog", Cfg: c09Cfg{Base: base, Wrap: []string{}}, Warm: true, Gs: gs})
	}
	for i := 0; i < n; i++ {
		cfg := c09Cfg{Base: Pick(r, []string{"obs", "io", "io", "bws", "bwsraw", "combine1", "combine2", "bwsshared"}), SlogDepth: Pick(r, []int{0, 0, 3, 5, 6, 7}), Wrap: []string{}}
		nw := r.Intn(5)
		for j := 0; j < nw; j++ {
			w := Pick(r, c09Wraps)
			if w == "sampler" && !r.Chance(1, 3) {
				w = "lazy"
			}
			cfg.Wrap = append(cfg.Wrap, w)
			if w == "incr" {
				cfg.Incr = Pick(r, []int{0, 1, 2})
			}
		}
		g := 2 + r.Intn(7)
		gs := make([][]c09Act, g)
		for gi := range gs {
			na := 3 + r.Intn(maxActs)
			gs[gi] = make([]c09Act, na)
			for k := range gs[gi] {
				a := c09Act{A: Pick(r, c09Acts), Lvl: r.Intn(6) - 1, Fe: Pick(r, c09Fes)}
				gs[gi][k] = a
			}
		}
		cfg.Bare = i%3 == 1
		cfg.Console = i%4 == 2
		emit(c09Op{K: "prog", Cfg: cfg, Warm: r.Chance(1, 2), Gs: gs})
	}
}

// c09World is everything the goroutines of one program share.
type c09World struct {
	shared  *zap.Logger
	al      zap.AtomicLevel
	logs    *observer.ObservedLogs
	bws     *zapcore.BufferedWriteSyncer
	sink    *c09Sink
	handler slog.Handler
	slot    atomic.Pointer[zap.Logger]
	taken   atomic.Int64 // counted entries removed from the observer by TakeAll
	hooks   atomic.Int64
	sampler bool
	min     int
	panics  atomic.Int64
	firstP  atomic.Value
}

// c09Sink is deliberately NOT synchronised: only zap's own locking (zapcore.Lock, BufferedWriteSyncer.mu) protects it,
// so a missing lock in zap shows up as a race report on these fields.
type c09Sink struct {
	n     int
	syncs int
}

// Write and Sync touch the same words, so a Sync that overlaps a Write (or another Sync) is a race report as well.
func (s *c09Sink) Write(p []byte) (int, error) { s.n += len(p); s.syncs += 0; return len(p), nil }
func (s *c09Sink) Sync() error                 { s.syncs++; s.n += 0; return nil }

func c09Build(op *c09Op) *c09World {
	w := &c09World{al: zap.NewAtomicLevelAt(zapcore.DebugLevel), sink: &c09Sink{}, min: -1}
	obsCore, logs := observer.New(zapcore.DebugLevel)
	w.logs = logs
	encCfg := zap.NewProductionEncoderConfig()
	if op.Cfg.Bare {
		encCfg = zapcore.EncoderConfig{MessageKey: "msg", LevelKey: "level", TimeKey: "ts", NameKey: "logger", CallerKey: "caller", StacktraceKey: "stacktrace"}
	}
	var core zapcore.Core = obsCore
	newEnc := func() zapcore.Encoder {
		if op.Cfg.Console {
			return zapcore.NewConsoleEncoder(encCfg)
		}
		return zapcore.NewJSONEncoder(encCfg)
	}
	switch op.Cfg.Base {
	case "io":
		core = zapcore.NewTee(zapcore.NewCore(newEnc(), zapcore.Lock(w.sink), w.al), obsCore)
	case "bwsraw":
		// BufferedWriteSyncer directly over the unsynchronised sink: its own mutex is all that serialises the destination
		// ("You don't need to use zapcore.Lock for WriteSyncers with BufferedWriteSyncer"); a small buffer and a short
		// flush interval make Write-overflow flushes, ticks and explicit Syncs all reach the sink
		w.bws = &zapcore.BufferedWriteSyncer{WS: w.sink, Size: 256, FlushInterval: 200 * time.Microsecond}
		core = zapcore.NewTee(zapcore.NewCore(newEnc(), w.bws, w.al), obsCore)
	case "combine1":
		// zap.CombineWriteSyncers is documented to return a LOCKED WriteSyncer — of one writer as well as of several (it is
		// what zap.Open and Config.Build put in front of the sinks they open); the sink itself is not synchronised
		core = zapcore.NewTee(zapcore.NewCore(newEnc(), zap.CombineWriteSyncers(w.sink), w.al), obsCore)
	case "combine2":
		core = zapcore.NewTee(zapcore.NewCore(newEnc(), zap.CombineWriteSyncers(w.sink, &c09Sink{}), w.al), obsCore)
	case "bwsshared":
		// ONE locked sink shared by a buffered core and a direct core (and the error output): every access to the sink,
		// the buffered syncer's flushes included, must go through that lock
		locked := zapcore.Lock(w.sink)
		w.bws = &zapcore.BufferedWriteSyncer{WS: locked, Size: 256, FlushInterval: 300 * time.Microsecond}
		core = zapcore.NewTee(zapcore.NewCore(newEnc(), w.bws, w.al), zapcore.NewCore(newEnc(), locked, zapcore.WarnLevel), obsCore)
	case "bws":
		w.bws = &zapcore.BufferedWriteSyncer{WS: zapcore.Lock(w.sink), Size: 512, FlushInterval: time.Millisecond}
		core = zapcore.NewTee(zapcore.NewCore(newEnc(), w.bws, w.al), obsCore)
	}
	l := zap.New(core, zap.ErrorOutput(zapcore.Lock(zapcore.AddSync(&c09Sink{}))))
	for i, wr := range op.Cfg.Wrap {
		switch wr {
		case "lazy":
			l = l.WithLazy(zap.Int("lazy", i), zap.String("s", "v"))
		case "with":
			l = l.With(zap.Int("with", i))
		case "hooked":
			l = l.WithOptions(zap.Hooks(func(zapcore.Entry) error { w.hooks.Add(1); return nil }))
		case "incr":
			l = l.WithOptions(zap.IncreaseLevel(zapcore.Level(op.Cfg.Incr)))
			if op.Cfg.Incr > w.min {
				w.min = op.Cfg.Incr
			}
		case "named":
			l = l.Named(fmt.Sprintf("n%d", i))
		case "caller":
			l = l.WithOptions(zap.AddCaller())
		case "stack":
			l = l.WithOptions(zap.AddStacktrace(zapcore.ErrorLevel))
		case "sampler":
			w.sampler = true
			l = l.WithOptions(zap.WrapCore(func(c zapcore.Core) zapcore.Core {
				return zapcore.NewSamplerWithOptions(c, time.Millisecond, 2, 3, zapcore.SamplerHook(func(zapcore.Entry, zapcore.SamplingDecision) { w.hooks.Add(1) }))
			}))
		}
	}
	w.shared = l
	w.handler = zapslog.NewHandler(l.Core())
	for i := 0; i < op.Cfg.SlogDepth; i++ {
		w.handler = w.handler.WithGroup(fmt.Sprintf("p%d", i))
	}
	return w
}

const c09Counted = "m-counted"

func (w *c09World) logAt(l *zap.Logger, a c09Act, msg string) {
	lvl := zapcore.Level(a.Lvl)
	defer func() {
		if e := recover(); e != nil {
			// the only legitimate panic: a Panic-level entry (the message is the panic value)
			if !(lvl == zapcore.PanicLevel && strings.HasPrefix(fmt.Sprint(e), msg)) {
				w.notePanic(e)
			}
		}
	}()
	f := zap.Int("i", a.Lvl)
	switch a.Fe {
	case "log":
		l.Log(lvl, msg, f)
	case "check":
		if ce := l.Check(lvl, msg); ce != nil {
			ce.Write(f)
		}
	case "sugarw":
		l.Sugar().Logw(lvl, msg, "i", a.Lvl)
	case "sugarf":
		l.Sugar().Logf(lvl, "%s", msg)
	case "sugar":
		l.Sugar().Log(lvl, msg)
	case "sugarln":
		l.Sugar().Logln(lvl, msg) // Logln appends nothing to a single argument
	default:
		switch lvl {
		case zapcore.DebugLevel:
			l.Debug(msg, f)
		case zapcore.InfoLevel:
			l.Info(msg, f)
		case zapcore.WarnLevel:
			l.Warn(msg, f)
		case zapcore.ErrorLevel:
			l.Error(msg, f)
		case zapcore.DPanicLevel:
			l.DPanic(msg, f)
		case zapcore.PanicLevel:
			l.Panic(msg, f)
		}
	}
}

func (w *c09World) notePanic(e any) {
	if w.panics.Add(1) == 1 {
		buf := make([]byte, 4096)
		buf = buf[:runtime.Stack(buf, false)]
		w.firstP.Store(fmt.Sprintf("%v\n%s", e, buf))
	}
}

func (w *c09World) countTaken(es []observer.LoggedEntry) {
	n := 0
	for _, e := range es {
		if e.Message == c09Counted {
			n++
		}
	}
	w.taken.Add(int64(n))
}

// run executes one goroutine's action list; `local` is the goroutine's own current logger (starts as the shared one).
func (w *c09World) run(g int, acts []c09Act) {
	local := w.shared
	h := w.handler
	for i, a := range acts {
		func() {
			defer func() {
				if e := recover(); e != nil {
					w.notePanic(e)
				}
			}()
			switch a.A {
			case "log":
				w.logAt(local, a, c09Counted)
			case "logbad":
				// fields whose encoding FAILS (reflection error, failing marshaler): the error paths of the encoders run under
				// the same concurrency as everything else (message differs from the counted one)
				local.Info("m-bad", zap.Reflect("ch", make(chan int)), zap.Int("i", i),
					zap.Object("o", zapcore.ObjectMarshalerFunc(func(e zapcore.ObjectEncoder) error { e.AddInt("k", i); return errors.New("no") })))
			case "logrich":
				// the typed fields whose encoding goes through the configurable sub-encoders and the reflection / error paths
				local.Info("m-rich", zap.Duration("d", time.Duration(i)), zap.Time("t", time.Unix(int64(i), 0)), zap.Stringer("s", zapcore.Level(i%5)),
					zap.Error(errors.New("e")), zap.Strings("ss", []string{"a", "b"}), zap.Binary("b", []byte{1, 2, 3}), zap.Reflect("r", map[string]int{"k": i}),
					zap.Durations("ds", []time.Duration{1, 2}), zap.Times("ts", []time.Time{time.Unix(1, 0)}), zap.Complex128("c", complex(1, 2)),
					zap.Stack("st"), zap.Float64("f", 1.5), zap.Any("any", []any{1, "x"}))
			case "logskip":
				// a caller skip beyond the stack: the "failed to get caller" path (its pooled stack object must be released
				// exactly once — entries logged concurrently afterwards capture callers and stacks from the same pool)
				local.WithOptions(zap.AddCaller(), zap.AddCallerSkip(100000)).Info("m-skip")
			case "checkonly":
				_ = local.Check(zapcore.Level(a.Lvl), "x") // an unwritten CheckedEntry is simply dropped
			case "with":
				local = local.With(zap.Int("g", g), zap.Int("k", i))
			case "withlazy":
				k := i // the marshaler may run later, on another goroutine (the logger can be handed over)
				local = local.WithLazy(zap.Int("lg", g), zap.Object("o", zapcore.ObjectMarshalerFunc(func(e zapcore.ObjectEncoder) error { e.AddInt("k", k); return nil })))
			case "named":
				local = local.Named("g")
			case "sugar":
				local = local.Sugar().With("sg", g).Desugar()
			case "withopts":
				local = local.WithOptions(zap.AddCallerSkip(0), zap.Fields(zap.Int("wo", i)))
			case "level":
				_ = local.Level()
				_ = local.Sugar().Level()
			case "core":
				c := local.Core()
				_ = c.Enabled(zapcore.Level(a.Lvl))
				_ = zapcore.LevelOf(c)
			case "sync":
				_ = local.Sync()
			case "setlevel":
				// only levels ≤ the observer's: the io branch may drop entries, the observer branch never does
				w.al.SetLevel(zapcore.Level(a.Lvl))
			case "getlevel":
				_ = w.al.Level()
				_ = w.al.Enabled(zapcore.Level(a.Lvl))
			case "leveltext":
				b, _ := w.al.MarshalText()
				_ = w.al.UnmarshalText(b)
				_ = w.al.String()
			case "replace":
				undo := zap.ReplaceGlobals(local)
				if a.Lvl%2 == 0 {
					undo()
				}
			case "global":
				zap.L().Info("g-global")
				zap.S().Infow("g-global", "g", g)
			case "obslen":
				_ = w.logs.Len()
			case "obsall":
				_ = w.logs.All()
				_ = w.logs.AllUntimed()
			case "obstake":
				w.countTaken(w.logs.TakeAll())
			case "obsfilter":
				_ = w.logs.FilterMessage(c09Counted).Len()
				_ = w.logs.FilterLevelExact(zapcore.Level(a.Lvl)).FilterFieldKey("i").All()
			case "bwssync":
				if w.bws != nil {
					if a.Lvl == 4 {
						_ = w.bws.Stop()
					} else {
						_ = w.bws.Sync()
					}
				}
			case "slog":
				lv := []slog.Level{slog.LevelDebug, slog.LevelInfo, slog.LevelWarn, slog.LevelError}[(a.Lvl+1)%4]
				if h.Enabled(context.Background(), lv) {
					rec := slog.NewRecord(time.Unix(0, 0), lv, "s-slog", 0)
					rec.AddAttrs(slog.Int("i", i))
					_ = h.Handle(context.Background(), rec)
				}
			case "slogwith":
				h = h.WithAttrs([]slog.Attr{slog.Int("g", g)})
			case "sloggroup":
				h = h.WithGroup("grp")
			case "share":
				w.slot.Store(local)
			case "adopt":
				if l := w.slot.Load(); l != nil {
					local = l
				}
			default:
				panic("unknown action " + a.A)
			}
		}()
	}
}

// c09Expected is the oracle's own count: every "log" action at a level the observer branch accepts is delivered once.
func c09Expected(op *c09Op, w *c09World) int {
	if w.sampler {
		return -1
	}
	n := 0
	for _, g := range op.Gs {
		for _, a := range g {
			if a.A == "log" && a.Lvl >= w.min {
				n++
			}
		}
	}
	return n
}

func c09RunOnce(op *c09Op) (impl map[string]any, w *c09World, dump string) {
	prevL := zap.L()
	defer zap.ReplaceGlobals(prevL)
	w = c09Build(op)
	if op.Warm {
		w.shared.Info("w-warm")
		_ = w.shared.Sync()
	}
	timeout, dump := concWD.watched(func() {
		var wg sync.WaitGroup
		start := make(chan struct{})
		for g := range op.Gs {
			wg.Add(1)
			go func(g int) {
				defer wg.Done()
				<-start
				w.run(g, op.Gs[g])
			}(g)
		}
		close(start)
		wg.Wait()
		if w.bws != nil {
			_ = w.bws.Stop()
		}
	})
	delivered := -1
	if !w.sampler && !timeout {
		delivered = int(w.taken.Load())
		for _, e := range w.logs.All() {
			if e.Message == c09Counted {
				delivered++
			}
		}
	}
	return map[string]any{"panics": int(w.panics.Load()), "timeout": timeout, "delivered": delivered}, w, dump
}

func c09Exec(raw json.RawMessage) Result {
	var op c09Op
	unmarshal(raw, &op)
	if op.K != "prog" {
		panic("unknown op kind " + op.K)
	}
	if concWD.exhausted() {
		return concSkipped("prog")
	}
	impl, w, dump := c09RunOnce(&op)
	o := ok()
	switch {
	case impl["timeout"].(bool):
		// re-run alone in a fresh process before reporting (DESIGN §7)
		if child, fine := concRerunAlone("C09", raw); fine {
			impl = child // slow machine, not a deadlock: report the clean re-run
			break
		}
		o = bad("C09:deadlock", "program did not finish within %v (also when re-run alone); goroutines:\n%s", concWD.limit(), truncStr(dump, 6000))
	case impl["panics"].(int) != 0:
		fp, _ := w.firstP.Load().(string)
		o = bad("C09:panic", "%d unexpected panic(s); first: %s", impl["panics"], truncStr(fp, 3000))
	case impl["delivered"].(int) != c09Expected(&op, w):
		o = bad("C09:lost-or-duplicated-entry", "observer received %d counted entries, %d were logged at an enabled level", impl["delivered"], c09Expected(&op, w))
	}
	logging := 0
	for _, g := range op.Gs {
		for _, a := range g {
			if a.A == "log" {
				logging++
				break
			}
		}
	}
	warm := "fresh"
	if op.Warm {
		warm = "warm"
	}
	return Result{Impl: impl, Oracle: o, Nontrivial: len(op.Gs) >= 2 && logging >= 2,
		Shape: fmt.Sprintf("prog/%s/%s/w%d/g%d", op.Cfg.Base, warm, len(op.Cfg.Wrap), len(op.Gs))}
}

func truncStr(s string, n int) string {
	if len(s) > n {
		return s[:n] + "…"
	}
	return s
}
