package main

import (
	"bytes"
	"encoding/json"
	"fmt"
	"strings"

	"go.uber.org/zap"
	"go.uber.org/zap/zapcore"
)

// C10 — field and sink failures are contained and reported; the entry is never lost.
//
// ops
//   {"k":"entry", …}       the encoder-family op with failures injected at many positions (see enc_types.go)
//   {"k":"deliver","core":C,"level":L}  C = {"t":"io","enabled":b,"sinks":[{"id","werr","serr"}]} | {"t":"tee","cs":[C…]} | {"t":"wrap","c":C}
//        → {"delivered":[sink ids that received the line], "reported":[ids whose error is on the error output], "errorLines":n}
//   {"k":"stringers","key":hex,"elems":[outcome…]}   zap.Stringers with nil / panicking elements → {"line":hex}

type c10Sink struct {
	ID   int  `json:"id"`
	WErr bool `json:"werr"`
	SErr bool `json:"serr"`
	// WN: the count a FAILING write reports (0 none, 1 half, 2 all but one byte) — failing sinks of one multi-syncer then differ
	// in their counts; Under: a SUCCESSFUL write reports one byte less than it was given, without an error. Neither is an
	// error or changes which failures must be reported (the model ignores both).
	WN    int  `json:"wn,omitempty"`
	Under bool `json:"under,omitempty"`
}

type c10Core struct {
	T       string    `json:"t"`
	Enabled bool      `json:"enabled"`
	Sinks   []c10Sink `json:"sinks"`
	CS      []c10Core `json:"cs"`
	C       *c10Core  `json:"c,omitempty"`
}

type c10Op struct {
	K     string       `json:"k"`
	Core  *c10Core     `json:"core,omitempty"`
	Level int          `json:"level"`
	Key   string       `json:"key"`
	Elems []encOutcome `json:"elems"`
}

func init() {
	props["C10"] = &Prop{Gen: c10Gen, Exec: c10Exec}
}

func c10GenCore(r *Rand, d int, nextID *int) c10Core {
	k := r.Intn(10)
	switch {
	case d > 0 && k < 3:
		n := r.Intn(4)
		c := c10Core{T: "tee", CS: []c10Core{}, Sinks: []c10Sink{}}
		for i := 0; i < n; i++ {
			c.CS = append(c.CS, c10GenCore(r, d-1, nextID))
		}
		return c
	case d > 0 && k == 3:
		in := c10GenCore(r, d-1, nextID)
		return c10Core{T: "wrap", C: &in, CS: []c10Core{}, Sinks: []c10Sink{}}
	default:
		n := 1 + r.Intn(3)
		c := c10Core{T: "io", Enabled: r.Chance(3, 4), Sinks: []c10Sink{}, CS: []c10Core{}}
		for i := 0; i < n; i++ {
			c.Sinks = append(c.Sinks, c10Sink{ID: *nextID, WErr: r.Chance(1, 3), SErr: r.Chance(1, 4), WN: Pick(r, []int{0, 0, 1, 2}), Under: r.Chance(1, 5)})
			*nextID++
		}
		return c
	}
}

func c10Gen(r *Rand, tier string, emit func(op any)) {
	nEnt, nDel, nStr := 1500, 1200, 300
	if tier == "thorough" {
		nEnt, nDel, nStr = 100000, 60000, 10000
	}
	genEncOps(r, nEnt/2, false, 30, 250, 3, 8, emit) // heavy fault injection
	genEncOps(r, nEnt/2, false, 60, 500, 2, 6, emit)
	// exhaustive: every failing subset of ≤4 sinks in a flat tee of single-sink cores and in one multi-syncer
	for k := 1; k <= 4; k++ {
		for mask := 0; mask < 1<<k; mask++ {
			tee := c10Core{T: "tee", CS: []c10Core{}, Sinks: []c10Sink{}}
			multi := c10Core{T: "io", Enabled: true, Sinks: []c10Sink{}, CS: []c10Core{}}
			for i := 0; i < k; i++ {
				s := c10Sink{ID: i, WErr: mask&(1<<i) != 0}
				tee.CS = append(tee.CS, c10Core{T: "io", Enabled: true, Sinks: []c10Sink{s}, CS: []c10Core{}})
				multi.Sinks = append(multi.Sinks, s)
			}
			for _, lvl := range []int{0, 2, 3} {
				t, m := tee, multi
				emit(c10Op{K: "deliver", Core: &t, Level: lvl, Elems: []encOutcome{}})
				emit(c10Op{K: "deliver", Core: &m, Level: lvl, Elems: []encOutcome{}})
				if k >= 2 && lvl == 0 {
					// the same multi-syncer with failing sinks that report DIFFERENT counts, and working sinks that under-report
					for rot := 0; rot < 3; rot++ {
						m2 := c10Core{T: "io", Enabled: true, Sinks: []c10Sink{}, CS: []c10Core{}}
						for i, s := range multi.Sinks {
							s.WN, s.Under = (i+rot)%3, (i+rot)%2 == 1
							m2.Sinks = append(m2.Sinks, s)
						}
						emit(c10Op{K: "deliver", Core: &m2, Level: lvl, Elems: []encOutcome{}})
					}
				}
			}
		}
	}
	for i := 0; i < nDel; i++ {
		id := 0
		c := c10GenCore(r, 3, &id)
		emit(c10Op{K: "deliver", Core: &c, Level: Pick(r, []int{-1, 0, 1, 2, 3}), Elems: []encOutcome{}})
	}
	g := &encGen{r: r, hostile: true}
	for i := 0; i < nStr; i++ {
		n := r.Intn(5)
		es := []encOutcome{}
		for j := 0; j < n; j++ {
			switch r.Intn(6) {
			case 0:
				es = append(es, encOutcome{Nil: true})
			case 1:
				s := hx(g.str())
				es = append(es, encOutcome{Panic: &s})
			default:
				s := hx(g.str())
				es = append(es, encOutcome{OK: &s})
			}
		}
		emit(c10Op{K: "stringers", Key: g.key(), Elems: es})
	}
}

type failSink struct {
	id     int
	werr   bool
	serr   bool
	wn     int
	under  bool
	writes [][]byte
	syncs  int
}

func (s *failSink) Write(p []byte) (int, error) {
	s.writes = append(s.writes, append([]byte(nil), p...))
	if s.werr {
		n := 0
		switch s.wn {
		case 1:
			n = len(p) / 2
		case 2:
			n = len(p) - 1
		}
		return n, fmt.Errorf("sink-%d-write-failed", s.id)
	}
	if s.under && len(p) > 0 {
		return len(p) - 1, nil
	}
	return len(p), nil
}

func (s *failSink) Sync() error {
	s.syncs++
	if s.serr {
		return fmt.Errorf("sink-%d-sync-failed", s.id)
	}
	return nil
}

// wrapCore adds ITSELF to the checked entry and delegates Write, so that multiCore.Write is reached directly.
type wrapCore struct{ zapcore.Core }

func (w wrapCore) Check(e zapcore.Entry, ce *zapcore.CheckedEntry) *zapcore.CheckedEntry {
	if w.Enabled(e.Level) {
		return ce.AddCore(e, w)
	}
	return ce
}
func (w wrapCore) With(fs []zapcore.Field) zapcore.Core { return wrapCore{w.Core.With(fs)} }

func c10Build(c *c10Core, sinks *[]*failSink) zapcore.Core {
	switch c.T {
	case "io":
		var ws []zapcore.WriteSyncer
		for _, s := range c.Sinks {
			fs := &failSink{id: s.ID, werr: s.WErr, serr: s.SErr, wn: s.WN, under: s.Under}
			*sinks = append(*sinks, fs)
			ws = append(ws, fs)
		}
		lvl := zapcore.Level(-128)
		if !c.Enabled {
			lvl = zapcore.Level(127)
		}
		return zapcore.NewCore(zapcore.NewJSONEncoder(zap.NewProductionEncoderConfig()), zapcore.NewMultiWriteSyncer(ws...), zap.LevelEnablerFunc(func(l zapcore.Level) bool { return l >= lvl }))
	case "tee":
		var cs []zapcore.Core
		for i := range c.CS {
			cs = append(cs, c10Build(&c.CS[i], sinks))
		}
		return zapcore.NewTee(cs...)
	case "wrap":
		return wrapCore{c10Build(c.C, sinks)}
	}
	panic("bad core")
}

func c10Exec(raw json.RawMessage) Result {
	var op c10Op
	unmarshal(raw, &op)
	switch op.K {
	case "entry":
		var eop encOp
		unmarshal(raw, &eop)
		line, nw, pmsg := encRun(&eop)
		o := ok()
		switch {
		case pmsg != "":
			o = bad("C10:panic-escaped", "a field failure panicked out of the log call: %s", pmsg)
		case nw != 1:
			o = bad("C10:entry-lost", "the sink received %d writes", nw)
		default:
			if _, err := wellFormedLine(line, eop.Cfg); err != nil {
				o = bad("C10:malformed", "%v\nline: %q", err, trunc2(line))
			} else if got, err := decodeTree(bytes.TrimSuffix(line, resolvedEnding(eop.Cfg))); err != nil {
				o = bad("C10:malformed", "%v", err)
			} else if err := compareTree("$", expectedTree(&eop), got); err != nil {
				// the expected tree has every intact sibling and, for each failing field, the <key>Error member
				o = bad("C10:field-not-contained", "%v\nline: %q", err, trunc2(line))
			}
		}
		return Result{Impl: encImpl(line, pmsg), Oracle: o, Nontrivial: countFaults(&eop) >= 1, Shape: encShape(&eop, "faults")}
	case "deliver":
		var sinks []*failSink
		core := c10Build(op.Core, &sinks)
		errOut := &captureSink{}
		logger := zap.New(core, zap.ErrorOutput(errOut))
		returned, pmsg := false, ""
		func() {
			defer func() {
				if e := recover(); e != nil {
					pmsg = "panic: " + fmt.Sprint(e)
				}
			}()
			if ce := logger.Check(zapcore.Level(op.Level), "m"); ce != nil {
				ce.Write(zap.Int("k", 1))
			}
			returned = true
		}()
		delivered, reported := []int{}, []int{}
		var all []byte
		for _, w := range errOut.writes {
			all = append(all, w...)
		}
		for _, s := range sinks {
			if len(s.writes) > 0 {
				delivered = append(delivered, s.id)
			}
			if strings.Contains(string(all), fmt.Sprintf("sink-%d-write-failed", s.id)) {
				reported = append(reported, s.id)
			}
		}
		errLines := bytes.Count(all, []byte("\n"))
		// independent oracle: which sinks must have been reached (walk the tree with the enabling rule)
		o := ok()
		want := c10Reach(op.Core, true)
		var wantErr []int
		for _, s := range sinks {
			for _, id := range want {
				if id == s.id && s.werr {
					wantErr = append(wantErr, id)
				}
			}
		}
		switch {
		case !returned:
			o = bad("C10:call-did-not-return", "the logging call panicked: %s", pmsg)
		case fmt.Sprint(delivered) != fmt.Sprint(want):
			o = bad("C10:core-skipped", "sinks reached %v, want %v", delivered, want)
		case fmt.Sprint(reported) != fmt.Sprint(append([]int{}, wantErr...)):
			o = bad("C10:error-not-reported", "write errors reported on the error output for %v, want %v\nerror output: %q", reported, wantErr, trunc2(all))
		case len(wantErr) > 0 && errLines != 1, len(wantErr) == 0 && errLines != 0:
			o = bad("C10:error-lines", "%d lines on the error output for %d failing sinks", errLines, len(wantErr))
		}
		for _, s := range sinks {
			if len(s.writes) > 1 {
				o = bad("C10:duplicate", "sink %d received the entry %d times", s.id, len(s.writes))
			}
		}
		return Result{Impl: map[string]any{"delivered": delivered, "reported": reported, "errorLines": errLines}, Oracle: o,
			Nontrivial: len(wantErr) >= 1 && len(want) >= 2, Shape: fmt.Sprintf("deliver/sinks%d/errs%d", bucket(len(want)), bucket(len(wantErr)))}
	case "stringers":
		key := string(unhx(op.Key))
		vals := make([]fmt.Stringer, len(op.Elems))
		faults := 0
		for i, e := range op.Elems {
			vals[i] = buildStringer(e)
			if e.Nil || e.Panic != nil {
				faults++
			}
		}
		cfg := zapcore.EncoderConfig{}
		sink := &captureSink{}
		core := zapcore.NewCore(zapcore.NewJSONEncoder(cfg), sink, zapcore.Level(-128))
		pmsg := ""
		func() {
			defer func() {
				if e := recover(); e != nil {
					pmsg = "panic: " + fmt.Sprint(e)
				}
			}()
			_ = core.Write(zapcore.Entry{}, []zapcore.Field{zap.Stringers(key, vals)})
		}()
		var line []byte
		for _, w := range sink.writes {
			line = append(line, w...)
		}
		o := ok()
		if pmsg != "" {
			o = bad("C10:panic-escaped:stringers", "zap.Stringers: a nil or panicking element panicked out of the log call: %s", pmsg)
		} else if !json.Valid(bytes.TrimSuffix(line, []byte("\n"))) {
			o = bad("C10:malformed", "zap.Stringers produced %q", trunc2(line))
		} else {
			// every element before the first panic is present; a panic is reported under <key>Error
			var v map[string]json.RawMessage
			_ = json.Unmarshal(line, &v)
			for _, e := range op.Elems {
				if e.Panic != nil {
					if _, okk := v[sanitize([]byte(key))+"Error"]; !okk {
						o = bad("C10:field-not-contained:stringers", "no %sError member for a panicking element: %q", key, trunc2(line))
					}
					break
				}
			}
		}
		return Result{Impl: encImpl(line, pmsg), Oracle: o, Nontrivial: faults >= 1, Shape: fmt.Sprintf("stringers/n%d/faults%d", len(op.Elems), faults)}
	}
	panic("unknown op kind " + op.K)
}

// c10Reach: ids of the sinks a log call must reach. `check` = we are still in the Check phase (enabling matters);
// below a wrapper the Write is unconditional.
func c10Reach(c *c10Core, check bool) []int {
	out := []int{}
	switch c.T {
	case "io":
		if !check || c.Enabled {
			for _, s := range c.Sinks {
				out = append(out, s.ID)
			}
		}
	case "tee":
		for i := range c.CS {
			out = append(out, c10Reach(&c.CS[i], check)...)
		}
	case "wrap":
		if !check || c10Enabled(c.C) {
			out = append(out, c10Reach(c.C, false)...)
		}
	}
	return out
}

func c10Enabled(c *c10Core) bool {
	switch c.T {
	case "io":
		return c.Enabled
	case "tee":
		for i := range c.CS {
			if c10Enabled(&c.CS[i]) {
				return true
			}
		}
		return false
	}
	return c10Enabled(c.C)
}
