package main

import (
	"encoding/json"
	"fmt"
	"hash/fnv"
	"net/url"
	"sync"
	"sync/atomic"
	"time"

	"go.uber.org/zap"
	"go.uber.org/zap/zapcore"
)

// C11 — the sampler admits the first N then every Mth entry per level and message per tick.
//
// ops
//   {"k":"seq","N":…,"M":…,"tick":ns,"en":[levels…],"hook":bool,"with":[-1,p1,…],"es":[{"l":lvl,"m":"<hex>","t":ns,"c":core}…]}
//        cores[i] = a new root sampler when with[i] = -1, else cores[with[i]].With(id=i); every root uses the same
//        configuration and its own counters.  Each entry is Checked (and written) through cores[c].
//        → {"out":[{"h":["S"|"D"…],"f":null|[with-ids…]}…]}      h = hook calls, f = context the wrapped core logged it with
//   {"k":"cfg","N":…,"M":…,"sampling":bool,"hook":bool,"lvl":L,"with":[…],"es":[…]}   the same through zap.Config.Build,
//        a Logger with a harness Clock, and Logger.With (tick is the fixed second of config.go)
//        → {"out":[{"h":[…],"f":bool}…]}
//   {"k":"collide","a":"<hex>","b":"<hex>","la":L,"lb":L}  do (la,a) and (lb,b) share a counter in the REAL sampler?
//        → {"same":bool,"ha":fnv32a(a),"hb":fnv32a(b)}   (ha/hb: hash/fnv of the standard library on the Go side)
//   {"k":"conc","N":…,"M":…,"tick":ns,"t0":ns,"pre":p,"g":G,"per":P,"l":L,"msgs":["<hex>"…]}   p+1 sequential entries open
//        the window at t0, then G goroutines × P Checks of messages of ONE bucket, stamped inside [t0,t0+tick)
//        → {"kept":…,"dropped":…,"bad":…}   bad = entries whose accounting is not (one hook call, forwarded iff sampled)

type c11Entry struct {
	L int    `json:"l"`
	M string `json:"m"`
	T int64  `json:"t"`
	C int    `json:"c"`
}

type c11Op struct {
	K        string     `json:"k"`
	N        int        `json:"N"`
	M        int        `json:"M"`
	Tick     int64      `json:"tick"`
	En       []int      `json:"en"`
	Hook     bool       `json:"hook"`
	With     []int      `json:"with"`
	Es       []c11Entry `json:"es"`
	A        string     `json:"a"`
	B        string     `json:"b"`
	LA       int        `json:"la"`
	LB       int        `json:"lb"`
	Sampling bool       `json:"sampling"`
	Lvl      int        `json:"lvl"`
	T0       int64      `json:"t0"`
	Pre      int        `json:"pre"`
	G        int        `json:"g"`
	Per      int        `json:"per"`
	L        int        `json:"l"`
	Msgs     []string   `json:"msgs"`
}

func init() {
	props["C11"] = &Prop{Gen: c11Gen, Exec: c11Exec}
}

const c11Lim = int64(1) << 61 // generators keep |t|, |tick| ≤ 2^61 so that t+tick never leaves int64

// the standard library's FNV-1a: the generator's and the oracle's notion of "colliding messages"
func c11StdHash(b []byte) uint32 {
	h := fnv.New32a()
	_, _ = h.Write(b)
	return h.Sum32()
}

func c11StdBucket(b []byte) int { return int(c11StdHash(b) % 4096) }

var c11Pairs [][2][]byte // precomputed pairs of distinct messages in the same bucket
var c11PairsOnce sync.Once

func c11CollidingPairs() [][2][]byte {
	c11PairsOnce.Do(func() {
		// well-known full 32-bit FNV-1a collisions
		for _, p := range [][2]string{{"costarring", "liquid"}, {"declinate", "macallums"}, {"altarage", "zinke"}} {
			if c11StdHash([]byte(p[0])) == c11StdHash([]byte(p[1])) {
				c11Pairs = append(c11Pairs, [2][]byte{[]byte(p[0]), []byte(p[1])})
			}
		}
		first := map[int][]byte{}
		for i := 0; len(c11Pairs) < 40; i++ {
			s := []byte(fmt.Sprintf("request %d failed", i))
			b := c11StdBucket(s)
			if f, okf := first[b]; okf {
				c11Pairs = append(c11Pairs, [2][]byte{f, s})
			} else {
				first[b] = s
			}
		}
	})
	return c11Pairs
}

// a partner of msg in the same bucket (found by search)
func c11Partner(msg []byte) []byte {
	want := c11StdBucket(msg)
	for i := 0; ; i++ {
		s := []byte(fmt.Sprintf("p%d", i))
		if c11StdBucket(s) == want && string(s) != string(msg) {
			return s
		}
	}
}

func c11Clamp(t int64) int64 {
	if t > c11Lim {
		return c11Lim
	}
	if t < -c11Lim {
		return -c11Lim
	}
	return t
}

// wire is the op as it is written on the line: only the fields of its kind
func (op c11Op) wire() any {
	switch op.K {
	case "seq":
		return struct {
			K    string     `json:"k"`
			N    int        `json:"N"`
			M    int        `json:"M"`
			Tick int64      `json:"tick"`
			En   []int      `json:"en"`
			Hook bool       `json:"hook"`
			With []int      `json:"with"`
			Es   []c11Entry `json:"es"`
		}{op.K, op.N, op.M, op.Tick, op.En, op.Hook, op.With, op.Es}
	case "cfg":
		return struct {
			K        string     `json:"k"`
			N        int        `json:"N"`
			M        int        `json:"M"`
			Sampling bool       `json:"sampling"`
			Hook     bool       `json:"hook"`
			Lvl      int        `json:"lvl"`
			With     []int      `json:"with"`
			Es       []c11Entry `json:"es"`
		}{op.K, op.N, op.M, op.Sampling, op.Hook, op.Lvl, op.With, op.Es}
	case "collide":
		return struct {
			K  string `json:"k"`
			A  string `json:"a"`
			B  string `json:"b"`
			LA int    `json:"la"`
			LB int    `json:"lb"`
		}{op.K, op.A, op.B, op.LA, op.LB}
	case "conc":
		return struct {
			K    string   `json:"k"`
			N    int      `json:"N"`
			M    int      `json:"M"`
			Tick int64    `json:"tick"`
			T0   int64    `json:"t0"`
			Pre  int      `json:"pre"`
			G    int      `json:"g"`
			Per  int      `json:"per"`
			L    int      `json:"l"`
			Msgs []string `json:"msgs"`
		}{op.K, op.N, op.M, op.Tick, op.T0, op.Pre, op.G, op.Per, op.L, op.Msgs}
	}
	panic("wire: unknown kind " + op.K)
}

func c11Gen(r *Rand, tier string, emit func(op any)) {
	thorough := tier == "thorough"
	emitOp := func(op c11Op) { emit(op.wire()) }
	pairs := c11CollidingPairs()
	allEn := []int{-1, 0, 1, 2, 3, 4, 5}

	// 1. exhaustive: small N, M × every sequence of arrival classes on one key (tick 10):
	//    equal timestamp, next ns, last ns of the window, exactly the window end, after the end
	maxNM, seqLen := 2, 5
	if thorough {
		maxNM, seqLen = 4, 7
	}
	classes := []int64{0, 1, 9, 10, 11}
	total := 1
	for i := 1; i < seqLen; i++ {
		total *= len(classes)
	}
	for n := 0; n <= maxNM; n++ {
		for m := 0; m <= maxNM; m++ {
			for code := 0; code < total; code++ {
				es := []c11Entry{{L: 0, M: hx([]byte("x")), T: 1000}}
				c := code
				t := int64(1000)
				for i := 1; i < seqLen; i++ {
					t += classes[c%len(classes)]
					c /= len(classes)
					es = append(es, c11Entry{L: 0, M: hx([]byte("x")), T: t})
				}
				emitOp(c11Op{K: "seq", N: n, M: m, Tick: 10, En: allEn, Hook: true, With: []int{-1}, Es: es})
			}
		}
	}

	// 2. random structured sequences
	nSeq := 1500
	if thorough {
		nSeq = 60000
	}
	pool := [][]byte{[]byte("m0"), []byte("m1"), []byte(""), []byte("a"), []byte("failed to fetch"), {0xff, 0xfe, 0}, make([]byte, 300)}
	for i := 0; i < nSeq; i++ {
		op := c11Op{K: "seq", Hook: !r.Chance(1, 8), En: []int{}, With: []int{-1}, Es: []c11Entry{}}
		op.N = Pick(r, []int{0, 1, 1, 2, 2, 3, 5, 10, 100, 1 << 20})
		op.M = Pick(r, []int{0, 0, 1, 2, 2, 3, 7, 100, 1 << 20})
		op.Tick = Pick(r, []int64{1, 10, 10, 1000, 1e9, 1e9, 3600e9, c11Lim, 0, -5})
		// enabled levels
		switch r.Intn(4) {
		case 0:
			op.En = append(op.En, allEn...)
		case 1:
			for l := r.Intn(3) - 1; l <= 5; l++ {
				op.En = append(op.En, l)
			}
		default:
			for _, l := range allEn {
				if r.Chance(3, 4) {
					op.En = append(op.En, l)
				}
			}
		}
		for _, l := range []int{6, 7, -2, 100, -128, 127} {
			if r.Chance(1, 3) {
				op.En = append(op.En, l)
			}
		}
		// derived cores
		nw := Pick(r, []int{0, 0, 1, 2, 4})
		for j := 0; j < nw; j++ {
			if r.Chance(1, 6) {
				op.With = append(op.With, -1)
			} else {
				op.With = append(op.With, r.Intn(len(op.With)))
			}
		}
		// messages of this op: a main one, a colliding partner, an unrelated one
		var main, partner, other []byte
		if r.Chance(1, 2) {
			p := Pick(r, pairs)
			main, partner = p[0], p[1]
		} else {
			main = Pick(r, pool)
			partner = c11Partner(main)
		}
		other = Pick(r, pool)
		lvlMain := Pick(r, []int{-1, 0, 0, 1, 2, 5})
		base := Pick(r, []int64{0, 1, 1000, 1700000000e9, 1700000000e9})
		preEpoch := r.Chance(1, 12)
		if preEpoch {
			base = Pick(r, []int64{-1, -100e9, -3 * op.Tick, time.Time{}.UnixNano(), -c11Lim})
		}
		t := c11Clamp(base)
		n := 1 + r.Intn(40)
		if thorough && r.Chance(1, 10) {
			n = 1 + r.Intn(250)
		}
		tk := op.Tick
		for j := 0; j < n; j++ {
			if j > 0 {
				d := Pick(r, []int64{0, 0, 1, 1, tk / 2, tk - 1, tk, tk + 1, 2 * tk, -1, -tk})
				if tk >= c11Lim && d != 0 && d != 1 && d != -1 {
					d = Pick(r, []int64{tk / 4, -tk / 4})
				}
				t = c11Clamp(t + d)
			}
			e := c11Entry{L: lvlMain, M: hx(main), T: t, C: r.Intn(len(op.With))}
			switch r.Intn(10) {
			case 0:
				e.M = hx(partner)
			case 1:
				e.M = hx(other)
			case 2:
				e.L = Pick(r, []int{-1, 0, 1, 2, 3, 4, 5})
			case 3:
				e.L = Pick(r, []int{6, 7, -2, 100, -128, 127})
			}
			op.Es = append(op.Es, e)
		}
		emitOp(op)
	}

	// 3. bucket selection: colliding pairs, near misses, level in the key; hashes on both sides
	for _, p := range pairs {
		emitOp(c11Op{K: "collide", A: hx(p[0]), B: hx(p[1]), LA: 0, LB: 0})
		emitOp(c11Op{K: "collide", A: hx(p[0]), B: hx(p[1]), LA: 0, LB: 1})
		emitOp(c11Op{K: "collide", A: hx(p[0]), B: hx(append(append([]byte{}, p[1]...), '!')), LA: 2, LB: 2})
	}
	nCol := 150
	if thorough {
		nCol = 5000
	}
	for i := 0; i < nCol; i++ {
		a := r.Bytes(24)
		var b []byte
		switch r.Intn(3) {
		case 0:
			b = c11Partner(a)
		case 1:
			b = r.Bytes(24)
		default:
			b = append([]byte{}, a...)
		}
		la := r.Intn(7) - 1
		lb := la
		if r.Chance(1, 5) {
			lb = r.Intn(7) - 1
		}
		emitOp(c11Op{K: "collide", A: hx(a), B: hx(b), LA: la, LB: lb})
	}

	// 4. the zap.Config path (tick = 1 s, first = Initial, thereafter = Thereafter, hook)
	nCfg := 150
	if thorough {
		nCfg = 4000
	}
	for i := 0; i < nCfg; i++ {
		op := c11Op{K: "cfg", Sampling: !r.Chance(1, 8), Hook: r.Chance(3, 4), Lvl: r.Intn(3) - 1, With: []int{-1}, Es: []c11Entry{}}
		op.N = Pick(r, []int{0, 1, 2, 3, 10})
		op.M = Pick(r, []int{0, 1, 2, 3, 10})
		for j, nw := 0, r.Intn(3); j < nw; j++ {
			op.With = append(op.With, r.Intn(len(op.With)))
		}
		t := int64(1700000000e9)
		p := Pick(r, pairs)
		for j, n := 0, 1+r.Intn(30); j < n; j++ {
			if j > 0 {
				t += Pick(r, []int64{0, 1, 1e8, 5e8, 1e9 - 1, 1e9, 1e9 + 1, 3e9})
			}
			e := c11Entry{L: Pick(r, []int{0, 0, 0, 1, -1, 2}), M: hx(p[0]), T: t, C: r.Intn(len(op.With))}
			if i%3 == 0 {
				e.L = Pick(r, []int{0, 4, 4, 5, 3, 2}) // a third of the programs also log Panic / Fatal / DPanic entries
			}
			if r.Chance(1, 5) {
				e.M = hx(p[1])
			}
			if r.Chance(1, 10) {
				e.M = hx([]byte("other"))
			}
			op.Es = append(op.Es, e)
		}
		emitOp(op)
	}

	// 5. concurrent programs inside one open window
	nConc := 100
	if thorough {
		nConc = 3000
	}
	for i := 0; i < nConc; i++ {
		p := Pick(r, pairs)
		op := c11Op{K: "conc", N: Pick(r, []int{0, 1, 3, 10, 100, 1000}), M: Pick(r, []int{0, 1, 2, 3, 7, 100}),
			Tick: Pick(r, []int64{1000, 1e9, 3600e9}), T0: Pick(r, []int64{0, 5, 1700000000e9}), Pre: r.Intn(5),
			G: 2 + r.Intn(7), Per: 1 + r.Intn(3000), L: r.Intn(7) - 1, Msgs: []string{hx(p[0])}}
		if r.Chance(1, 2) {
			op.Msgs = append(op.Msgs, hx(p[1]))
		}
		emitOp(op)
	}
}

// ---------------------------------------------------------------- executor

// c11Core is the wrapped core: enabled for an arbitrary set of levels, records what reaches it and with which context
type c11Core struct {
	en  map[int]bool
	ctx []int
	log *[]c11Logged
	mu  *sync.Mutex
}

type c11Logged struct {
	ctx []int
	ent zapcore.Entry
}

func (c *c11Core) Enabled(l zapcore.Level) bool { return c.en[int(l)] }
func (c *c11Core) With(fs []zapcore.Field) zapcore.Core {
	ctx := append([]int{}, c.ctx...)
	for _, f := range fs {
		ctx = append(ctx, int(f.Integer))
	}
	return &c11Core{en: c.en, ctx: ctx, log: c.log, mu: c.mu}
}
func (c *c11Core) Check(e zapcore.Entry, ce *zapcore.CheckedEntry) *zapcore.CheckedEntry {
	if c.Enabled(e.Level) {
		return ce.AddCore(e, c)
	}
	return ce
}
func (c *c11Core) Write(e zapcore.Entry, _ []zapcore.Field) error {
	c.mu.Lock()
	*c.log = append(*c.log, c11Logged{ctx: c.ctx, ent: e})
	c.mu.Unlock()
	return nil
}
func (c *c11Core) Sync() error { return nil }

type c11HookCall struct {
	msg string
	dec zapcore.SamplingDecision
}

func c11Dec(d zapcore.SamplingDecision) string {
	switch d {
	case zapcore.LogSampled:
		return "S"
	case zapcore.LogDropped:
		return "D"
	}
	return fmt.Sprintf("?%d", uint32(d))
}

// ---- the independent specification used by the oracle: windows judged by entry timestamps

type c11Win struct {
	has bool
	end int64
	k   uint64
}

func (w *c11Win) step(t, tick int64) uint64 {
	if w.has && t < w.end {
		w.k++
	} else {
		w.has, w.end, w.k = true, t+tick, 1
	}
	return w.k
}

func c11Keep(n uint64, first, thereafter int) bool {
	N, M := uint64(first), uint64(thereafter)
	if n <= N {
		return true
	}
	return M != 0 && (n-N)%M == 0
}

type c11Key struct {
	root, lvl, bucket int
}

type c11Spec struct {
	tick     int64
	n, m     int
	spec     map[c11Key]*c11Win
	defect   map[c11Key]*c11Win // the F10 reading: the zero counter is a window that ends at the epoch
	preEpoch map[c11Key]bool
}

func newC11Spec(n, m int, tick int64) *c11Spec {
	return &c11Spec{tick: tick, n: n, m: m, spec: map[c11Key]*c11Win{}, defect: map[c11Key]*c11Win{}, preEpoch: map[c11Key]bool{}}
}

// decide returns what the property demands for this counted entry and what the F10 reading predicts
func (s *c11Spec) decide(k c11Key, t int64) (want, defect bool) {
	if s.spec[k] == nil {
		s.spec[k] = &c11Win{}
		s.defect[k] = &c11Win{has: true, end: 0, k: 0}
	}
	if t < 0 {
		s.preEpoch[k] = true
	}
	return c11Keep(s.spec[k].step(t, s.tick), s.n, s.m), c11Keep(s.defect[k].step(t, s.tick), s.n, s.m)
}

func c11Overflows(t, tick int64) bool {
	s := t + tick
	return (tick > 0 && s < t) || (tick < 0 && s > t)
}

func c11InRange(l int) bool { return l >= -1 && l <= 5 }

func c11Exec(raw json.RawMessage) Result {
	var op c11Op
	unmarshal(raw, &op)
	switch op.K {
	case "seq":
		return c11Seq(op)
	case "cfg":
		return c11Cfg(op)
	case "collide":
		return c11Collide(op)
	case "conc":
		return c11Conc(op)
	}
	panic("unknown op kind " + op.K)
}

func c11Seq(op c11Op) Result {
	for _, e := range op.Es {
		if c11Overflows(e.T, op.Tick) || e.L < -128 || e.L > 127 || e.C < 0 || e.C >= len(op.With) {
			return Result{Impl: map[string]any{"out_of_scope": true}, Oracle: ok(), NoModel: true, Shape: "seq/out-of-scope"}
		}
	}
	en := map[int]bool{}
	for _, l := range op.En {
		en[l] = true
	}
	var mu sync.Mutex
	var logged []c11Logged
	var hooks []c11HookCall
	cores := make([]zapcore.Core, len(op.With))
	rootOf := make([]int, len(op.With))
	chain := make([][]int, len(op.With))
	for i, p := range op.With {
		if p < 0 || p >= i {
			inner := &c11Core{en: en, ctx: []int{}, log: &logged, mu: &mu}
			opts := []zapcore.SamplerOption{}
			if op.Hook {
				opts = append(opts, zapcore.SamplerHook(func(e zapcore.Entry, d zapcore.SamplingDecision) {
					hooks = append(hooks, c11HookCall{e.Message, d})
				}))
			}
			cores[i] = zapcore.NewSamplerWithOptions(inner, time.Duration(op.Tick), op.N, op.M, opts...)
			rootOf[i] = i
			chain[i] = []int{}
		} else {
			cores[i] = cores[p].With([]zapcore.Field{{Key: "w", Type: zapcore.Int64Type, Integer: int64(i)}})
			rootOf[i] = rootOf[p]
			chain[i] = append(append([]int{}, chain[p]...), i)
		}
	}
	spec := newC11Spec(op.N, op.M, op.Tick)
	out := []map[string]any{}
	o := ok()
	fail := func(or Oracle) {
		if o.OK {
			o = or
		}
	}
	kept, dropped, windows, preEpoch, oob := 0, 0, 0, false, 0
	lastEnd := map[c11Key]int64{}
	for i, e := range op.Es {
		msg := unhx(e.M)
		ent := zapcore.Entry{Level: zapcore.Level(int8(e.L)), Message: string(msg), Time: time.Unix(0, e.T)}
		logged, hooks = logged[:0], hooks[:0]
		if ce := cores[e.C].Check(ent, nil); ce != nil {
			ce.Write()
		}
		hs := []string{}
		for _, h := range hooks {
			hs = append(hs, c11Dec(h.dec))
		}
		var f any
		fwd := len(logged) > 0
		if fwd {
			f = append([]int{}, logged[0].ctx...)
		}
		out = append(out, map[string]any{"h": hs, "f": f})

		// ---- oracle (independent of the model)
		if len(logged) > 1 {
			fail(bad("C11:forwarded-twice", "entry %d reached the wrapped core %d times", i, len(logged)))
		}
		if fwd && (logged[0].ent.Message != string(msg) || fmt.Sprint(logged[0].ctx) != fmt.Sprint(chain[e.C])) {
			fail(bad("C11:with-context", "entry %d through core %d was logged as %q with context %v, want %v", i, e.C, logged[0].ent.Message, logged[0].ctx, chain[e.C]))
		}
		switch {
		case !en[e.L]:
			if fwd || len(hs) != 0 {
				fail(bad("C11:disabled-level", "entry %d at disabled level %d: forwarded=%v hook=%v", i, e.L, fwd, hs))
			}
		case !c11InRange(e.L):
			oob++
			if !fwd || len(hs) != 0 {
				fail(bad("C11:oob-level", "entry %d at out-of-range level %d must pass unsampled: forwarded=%v hook=%v", i, e.L, fwd, hs))
			}
		default:
			k := c11Key{rootOf[e.C], e.L, c11StdBucket(msg)}
			if e.T < 0 {
				preEpoch = true
			}
			if end, okk := lastEnd[k]; !okk || e.T >= end {
				windows++
				lastEnd[k] = e.T + op.Tick
			}
			want, defect := spec.decide(k, e.T)
			if fwd {
				kept++
			} else {
				dropped++
			}
			if op.Hook {
				if len(hs) != 1 {
					fail(bad("C11:hook-count", "entry %d: hook called %d times (%v)", i, len(hs), hs))
				} else if (hs[0] == "S") != fwd || (hs[0] != "S" && hs[0] != "D") {
					fail(bad("C11:hook-decision", "entry %d: hook saw %s but forwarded=%v", i, hs[0], fwd))
				}
			}
			if fwd != want {
				if spec.preEpoch[k] && fwd == defect {
					fail(bad("C11:pre-epoch-window:t<0", "entry %d (level %d, t=%d): forwarded=%v but its window position demands %v; "+
						"this key has pre-epoch timestamps, which the zero counter treats as one window ending at the epoch (N=%d M=%d tick=%d)",
						i, e.L, e.T, fwd, want, op.N, op.M, op.Tick))
				} else {
					fail(bad("C11:decision-mismatch", "entry %d (level %d, t=%d): forwarded=%v, first-N-then-every-Mth per window demands %v (N=%d M=%d tick=%d)",
						i, e.L, e.T, fwd, want, op.N, op.M, op.Tick))
				}
			}
		}
	}
	return Result{Impl: map[string]any{"out": out}, Oracle: o, Nontrivial: kept > 0 && dropped > 0,
		Shape: fmt.Sprintf("seq/N%d/M%d/win%d/with%d/pre=%v/oob=%v", bucket(op.N), bucket(op.M), bucket(windows), bucket(len(op.With)-1), preEpoch, oob > 0)}
}

// ---- zap.Config path

type c11Clock struct{ now int64 }

func (c *c11Clock) Now() time.Time                         { return time.Unix(0, c.now) }
func (c *c11Clock) NewTicker(d time.Duration) *time.Ticker { return time.NewTicker(d) }

type c11CountSink struct{ n int }

func (s *c11CountSink) Write(p []byte) (int, error) { s.n++; return len(p), nil }
func (s *c11CountSink) Sync() error                 { return nil }
func (s *c11CountSink) Close() error                { return nil }

type c11TermHook struct{ n *int }

func (h c11TermHook) OnWrite(*zapcore.CheckedEntry, []zapcore.Field) { *h.n++ }

var (
	c11SinkOnce sync.Once
	c11SinkCur  *c11CountSink
)

func c11Cfg(op c11Op) Result {
	var hooks []c11HookCall
	cfg := zap.Config{
		Level:             zap.NewAtomicLevelAt(zapcore.Level(int8(op.Lvl))),
		Encoding:          "json",
		EncoderConfig:     zapcore.EncoderConfig{MessageKey: "m"},
		DisableCaller:     true,
		DisableStacktrace: true,
	}
	if op.Sampling {
		cfg.Sampling = &zap.SamplingConfig{Initial: op.N, Thereafter: op.M}
		if op.Hook {
			cfg.Sampling.Hook = func(e zapcore.Entry, d zapcore.SamplingDecision) { hooks = append(hooks, c11HookCall{e.Message, d}) }
		}
	}
	clk := &c11Clock{}
	// "forwarded" is judged at the destination: a counting sink registered under its own scheme. Panic and Fatal entries are
	// in scope too (custom hooks that return): the sampling decision applies to them like to any other entry.
	c11SinkOnce.Do(func() {
		must(zap.RegisterSink("zvc11", func(*url.URL) (zap.Sink, error) { return c11SinkCur, nil }))
	})
	sink := &c11CountSink{}
	c11SinkCur = sink
	cfg.OutputPaths = []string{"zvc11://count"}
	cfg.ErrorOutputPaths = []string{}
	term := 0
	root, err := cfg.Build(zap.WithClock(clk), zap.WithPanicHook(c11TermHook{&term}), zap.WithFatalHook(c11TermHook{&term}))
	must(err)
	loggers := make([]*zap.Logger, len(op.With))
	for i, p := range op.With {
		if p < 0 || p >= i {
			loggers[i] = root
		} else {
			loggers[i] = loggers[p].With(zap.Int("w", i))
		}
	}
	spec := newC11Spec(op.N, op.M, int64(time.Second))
	out := []map[string]any{}
	o := ok()
	fail := func(or Oracle) {
		if o.OK {
			o = or
		}
	}
	kept, dropped := 0, 0
	for i, e := range op.Es {
		if e.L < -1 || e.L > 5 || e.C < 0 || e.C >= len(loggers) || c11Overflows(e.T, int64(time.Second)) {
			return Result{Impl: map[string]any{"out_of_scope": true}, Oracle: ok(), NoModel: true, Shape: "cfg/out-of-scope"}
		}
		msg := unhx(e.M)
		clk.now = e.T
		hooks = hooks[:0]
		before, termBefore := sink.n, term
		ce := loggers[e.C].Check(zapcore.Level(int8(e.L)), string(msg))
		if ce != nil {
			ce.Write()
		}
		fwd := sink.n > before
		if sink.n > before+1 {
			fail(bad("C11:forwarded-twice", "config path: entry %d reached the sink %d times", i, sink.n-before))
		}
		if e.L >= 4 && term != termBefore+1 {
			fail(bad("C11:terminal-hook", "config path: entry %d at level %d ran the terminal hook %d times", i, e.L, term-termBefore))
		}
		hs := []string{}
		for _, h := range hooks {
			hs = append(hs, c11Dec(h.dec))
		}
		out = append(out, map[string]any{"h": hs, "f": fwd})
		enabled := e.L >= op.Lvl
		switch {
		case !enabled:
			if fwd || len(hs) != 0 {
				fail(bad("C11:disabled-level", "config path: entry %d at disabled level %d: forwarded=%v hook=%v", i, e.L, fwd, hs))
			}
		case !op.Sampling:
			if !fwd || len(hs) != 0 {
				fail(bad("C11:config-nil-sampling", "config path without Sampling: entry %d forwarded=%v hook=%v", i, fwd, hs))
			}
		default:
			want, _ := spec.decide(c11Key{0, e.L, c11StdBucket(msg)}, e.T)
			if fwd {
				kept++
			} else {
				dropped++
			}
			if op.Hook && (len(hs) != 1 || (hs[0] == "S") != fwd) {
				fail(bad("C11:hook-decision", "config path: entry %d hook calls %v, forwarded=%v", i, hs, fwd))
			}
			if !op.Hook && len(hs) != 0 {
				fail(bad("C11:hook-count", "config path: hook calls without a hook?"))
			}
			if fwd != want {
				fail(bad("C11:config-decision-mismatch", "config path: entry %d (level %d, t=%d): forwarded=%v, Initial=%d Thereafter=%d per second demands %v",
					i, e.L, e.T, fwd, op.N, op.M, want))
			}
		}
	}
	return Result{Impl: map[string]any{"out": out}, Oracle: o, Nontrivial: kept > 0 && dropped > 0,
		Shape: fmt.Sprintf("cfg/sampling=%v/N%d/M%d/with%d", op.Sampling, bucket(op.N), bucket(op.M), bucket(len(op.With)-1))}
}

// ---- bucket selection

func c11Collide(op c11Op) Result {
	a, b := unhx(op.A), unhx(op.B)
	en := map[int]bool{-1: true, 0: true, 1: true, 2: true, 3: true, 4: true, 5: true}
	var mu sync.Mutex
	var logged []c11Logged
	inner := &c11Core{en: en, ctx: []int{}, log: &logged, mu: &mu}
	s := zapcore.NewSamplerWithOptions(inner, time.Hour, 1, 0)
	t := time.Unix(1700000000, 0)
	for _, x := range []struct {
		l int
		m []byte
	}{{op.LA, a}, {op.LB, b}} {
		if ce := s.Check(zapcore.Entry{Level: zapcore.Level(int8(x.l)), Message: string(x.m), Time: t}, nil); ce != nil {
			ce.Write()
		}
	}
	same := len(logged) == 1 // the second one was dropped: it found the first one's counter at 1
	ha, hb := c11StdHash(a), c11StdHash(b)
	want := op.LA == op.LB && ha%4096 == hb%4096
	o := ok()
	if same != want {
		o = bad("C11:bucket-selection", "(%d,%q) and (%d,%q): share a budget=%v, fixed hash says %v (fnv32a %d / %d)", op.LA, trunc(a), op.LB, trunc(b), same, want, ha, hb)
	}
	return Result{Impl: map[string]any{"same": same, "ha": ha, "hb": hb}, Oracle: o, Nontrivial: string(a) != string(b),
		Shape: fmt.Sprintf("collide/same=%v/lvl=%v/eq=%v", same, op.LA == op.LB, string(a) == string(b))}
}

// ---- concurrent programs inside one open window

// c11CountCore is the wrapped core of the concurrent programs: lock-free, so that the callers really overlap
type c11CountCore struct {
	lvl  zapcore.Level
	seen *atomic.Int64
}

func (c *c11CountCore) Enabled(l zapcore.Level) bool      { return l == c.lvl }
func (c *c11CountCore) With([]zapcore.Field) zapcore.Core { return &c11CountCore{c.lvl, c.seen} }
func (c *c11CountCore) Sync() error                       { return nil }
func (c *c11CountCore) Write(zapcore.Entry, []zapcore.Field) error {
	c.seen.Add(1)
	return nil
}
func (c *c11CountCore) Check(e zapcore.Entry, ce *zapcore.CheckedEntry) *zapcore.CheckedEntry {
	if c.Enabled(e.Level) {
		return ce.AddCore(e, c)
	}
	return ce
}

func c11Conc(op c11Op) Result {
	if op.Tick < 2 || c11Overflows(op.T0, op.Tick) || len(op.Msgs) == 0 || !c11InRange(op.L) || op.G < 1 || op.Per < 1 || op.Pre < 0 {
		return Result{Impl: map[string]any{"out_of_scope": true}, Oracle: ok(), NoModel: true, Shape: "conc/out-of-scope"}
	}
	msgs := make([]string, len(op.Msgs))
	for i, m := range op.Msgs {
		msgs[i] = string(unhx(m))
		if c11StdBucket([]byte(msgs[i])) != c11StdBucket([]byte(msgs[0])) {
			return Result{Impl: map[string]any{"out_of_scope": true}, Oracle: ok(), NoModel: true, Shape: "conc/out-of-scope"}
		}
	}
	lvl := zapcore.Level(int8(op.L))
	var seen atomic.Int64
	inner := &c11CountCore{lvl, &seen}
	// per-call accounting without locks: the call's index travels in Entry.Caller.Line
	k := op.G * op.Per
	hookCalls := make([]atomic.Int32, k+op.Pre+1)
	hookDec := make([]atomic.Uint32, k+op.Pre+1)
	s := zapcore.NewSamplerWithOptions(inner, time.Duration(op.Tick), op.N, op.M, zapcore.SamplerHook(func(e zapcore.Entry, d zapcore.SamplingDecision) {
		hookCalls[e.Caller.Line].Add(1)
		hookDec[e.Caller.Line].Store(uint32(d))
	}))
	for i := 0; i <= op.Pre; i++ {
		ent := zapcore.Entry{Level: lvl, Message: msgs[0], Time: time.Unix(0, op.T0), Caller: zapcore.EntryCaller{Line: k + i}}
		if ce := s.Check(ent, nil); ce != nil {
			ce.Write()
		}
	}
	preKept := seen.Load()
	derived := s.With([]zapcore.Field{{Key: "w", Type: zapcore.Int64Type, Integer: 1}})
	fwd := make([]bool, k)
	span := int(minI64(op.Tick, 1<<30))
	var wg sync.WaitGroup
	start := make(chan struct{})
	for g := 0; g < op.G; g++ {
		wg.Add(1)
		go func(g int) {
			defer wg.Done()
			core := s
			if g%2 == 1 {
				core = derived // derived cores share the counters
			}
			<-start
			for i := 0; i < op.Per; i++ {
				t := op.T0 + int64((g*7919+i*104729)%span) // anywhere in [t0, t0+tick)
				idx := g*op.Per + i
				ent := zapcore.Entry{Level: lvl, Message: msgs[(g+i)%len(msgs)], Time: time.Unix(0, t), Caller: zapcore.EntryCaller{Line: idx}}
				if ce := core.Check(ent, nil); ce != nil {
					ce.Write()
					fwd[idx] = true
				}
			}
		}(g)
	}
	close(start)
	wg.Wait()
	kept, dropped, badAcct := 0, 0, 0
	for idx := 0; idx < k; idx++ {
		d := zapcore.SamplingDecision(hookDec[idx].Load())
		if hookCalls[idx].Load() != 1 || (d == zapcore.LogSampled) != fwd[idx] || (d != zapcore.LogSampled && d != zapcore.LogDropped) {
			badAcct++
		}
		if fwd[idx] {
			kept++
		} else {
			dropped++
		}
	}
	// oracle: positions pre+2 … pre+1+k of the open window, first N then every Mth
	want := 0
	for n := uint64(op.Pre) + 2; n <= uint64(op.Pre)+1+uint64(k); n++ {
		if c11Keep(n, op.N, op.M) {
			want++
		}
	}
	o := ok()
	switch {
	case badAcct != 0:
		o = bad("C11:concurrent-accounting", "%d of %d concurrent entries without exactly one hook call matching the forwarding", badAcct, k)
	case int(seen.Load()-preKept) != kept:
		o = bad("C11:concurrent-forwarding", "wrapped core saw %d entries, callers saw %d accepted", seen.Load()-preKept, kept)
	case kept != want:
		o = bad("C11:concurrent-open-window-count", "%d goroutines × %d entries inside the open window after %d: %d let through, exact count is %d (N=%d M=%d)",
			op.G, op.Per, op.Pre+1, kept, want, op.N, op.M)
	}
	return Result{Impl: map[string]any{"kept": kept, "dropped": dropped, "bad": badAcct}, Oracle: o, Nontrivial: kept > 0 && dropped > 0,
		Shape: fmt.Sprintf("conc/g%d/N%d/M%d", bucket(op.G), bucket(op.N), bucket(op.M))}
}

func minI64(a, b int64) int64 {
	if a < b {
		return a
	}
	return b
}
