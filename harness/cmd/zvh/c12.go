package main

import (
	"bufio"
	"bytes"
	"encoding/json"
	"errors"
	"fmt"
	"io"
	"os"
	"os/exec"
	"path/filepath"
	"reflect"
	"runtime"
	"strconv"
	"strings"
	"sync"
	"sync/atomic"
	"syscall"
	"time"
	"unsafe"

	"go.uber.org/multierr"
	"go.uber.org/zap/zapcore"
)

// C12 — BufferedWriteSyncer delivers every byte once, in order, in whole writes.
//
// ops
//   {"k":"seq","size":S,"ops":[{"w":"<hex>"}|{"o":"s"|"t"|"x"}…],"wo":[[n,e]…],"so":[0|1…]}
//        a history of Write / Sync / tick / Stop on one BufferedWriteSyncer{Size:S} whose sink is scripted per call
//        (wo: the k-th WS.Write takes min(n,len) bytes and fails iff e; so: the k-th WS.Sync fails iff 1; exhausted = fine).
//        Both sides append a final Stop and Sync.   → {"steps":[{"r":…,"ev":["w:<hex>:<took>"|"s"…]}…]}
//        r = {"n":…,"e":"…"} for a Write, {"e":[…]} for Sync/Stop, {} for a tick
//   {"k":"bufio","size":S,"ops":[{"w":"<hex>"}|{"o":"f"}…],"wo":[…]}   the same sink under a bare bufio.Writer
//        → {"steps":[{"r":…,"ev":[…],"buf":Buffered()}…]}
//   {"k":"conc","size":S,"slow":µs,"progs":[["w<len>"|"s"|"x"…]…],"ticks":T,"stoppers":K,"rep":R}
//        phase 1: one goroutine per program plus a ticker goroutine; phase 2: K goroutines call Stop at once.
//        The whole program is run R times (≥1) on fresh syncers — schedules differ — and the first failing run is reported.
//        → {"bytes":…,"records":…}       (what reached the sink after the final Stop+Sync)
//   {"k":"tickrace","size":S,"slow":µs,"pre":n,"big":m}   a tick that arrives while a writer holds the mutex inside a
//        slow sink write (a Write of m > S bytes after n buffered ones): the tick must still be processed — queued
//        behind the writer — i.e. the sink is synced after that write and nothing stays buffered   (oracle only)
//   {"k":"crash","size":S,"seed":…,"interval_us":…,"kill_us":…}   child process writing records through a
//        BufferedWriteSyncer over a file, Sync acknowledgements on its stdout, SIGKILL after kill_us   (oracle only)

type c12Step struct {
	W *string `json:"w,omitempty"`
	O string  `json:"o,omitempty"`
}

type c12Op struct {
	K        string     `json:"k"`
	Size     int        `json:"size"`
	Ops      []c12Step  `json:"ops"`
	WO       [][]int    `json:"wo"`
	SO       []int      `json:"so"`
	Slow     int        `json:"slow"`
	Progs    [][]string `json:"progs"`
	Ticks    int        `json:"ticks"`
	Stoppers int        `json:"stoppers"`
	Rep      int        `json:"rep"`
	Pre      int        `json:"pre"`
	Big      int        `json:"big"`
	Seed     uint64     `json:"seed"`
	Interval int        `json:"interval_us"`
	Kill     int        `json:"kill_us"`
}

func (op c12Op) wire() any {
	switch op.K {
	case "seq":
		return struct {
			K    string    `json:"k"`
			Size int       `json:"size"`
			Ops  []c12Step `json:"ops"`
			WO   [][]int   `json:"wo"`
			SO   []int     `json:"so"`
		}{op.K, op.Size, op.Ops, op.WO, op.SO}
	case "bufio":
		return struct {
			K    string    `json:"k"`
			Size int       `json:"size"`
			Ops  []c12Step `json:"ops"`
			WO   [][]int   `json:"wo"`
		}{op.K, op.Size, op.Ops, op.WO}
	case "conc":
		return struct {
			K        string     `json:"k"`
			Size     int        `json:"size"`
			Slow     int        `json:"slow"`
			Progs    [][]string `json:"progs"`
			Ticks    int        `json:"ticks"`
			Stoppers int        `json:"stoppers"`
			Rep      int        `json:"rep"`
		}{op.K, op.Size, op.Slow, op.Progs, op.Ticks, op.Stoppers, op.Rep}
	case "tickrace":
		return struct {
			K    string `json:"k"`
			Size int    `json:"size"`
			Slow int    `json:"slow"`
			Pre  int    `json:"pre"`
			Big  int    `json:"big"`
		}{op.K, op.Size, op.Slow, op.Pre, op.Big}
	case "crash":
		return struct {
			K        string `json:"k"`
			Size     int    `json:"size"`
			Seed     uint64 `json:"seed"`
			Interval int    `json:"interval_us"`
			Kill     int    `json:"kill_us"`
		}{op.K, op.Size, op.Seed, op.Interval, op.Kill}
	}
	panic("wire: unknown kind " + op.K)
}

func init() {
	// hidden sub-command: the child process of the crash test (re-exec of this binary)
	if len(os.Args) > 1 && os.Args[1] == "c12-child" {
		c12Child(os.Args[2:])
		os.Exit(0)
	}
	props["C12"] = &Prop{Gen: c12Gen, Exec: c12Exec}
}

func c12EffSize(size int) int {
	switch {
	case size == 0:
		return 256 * 1024
	case size < 0:
		return 4096
	}
	return size
}

func c12Payload(r *Rand, n int) []byte {
	b := make([]byte, n)
	base := byte('a' + r.Intn(26))
	for i := range b {
		b[i] = base + byte(i%7)
	}
	if n > 0 {
		b[n-1] = '\n'
	}
	return b
}

func c12W(b []byte) c12Step { h := hx(b); return c12Step{W: &h} }

// ---------------------------------------------------------------- generator

func c12Gen(r *Rand, tier string, emit func(op any)) {
	thorough := tier == "thorough"
	emitOp := func(op c12Op) {
		if op.WO == nil {
			op.WO = [][]int{}
		}
		if op.SO == nil {
			op.SO = []int{}
		}
		if op.Ops == nil {
			op.Ops = []c12Step{}
		}
		emit(op.wire())
	}

	// 1. exhaustive: small sizes × every history up to a length over
	//    {empty write, 1 byte, 2 bytes, exactly the size, size+1, Sync, tick, Stop}, reliable sink
	//    (quick: sizes 1..3, length ≤ 4; thorough: sizes 1..3 length ≤ 5, sizes 5 and 8 length ≤ 4)
	sizes, maxLen := []int{1, 2, 3}, 4
	if thorough {
		sizes = []int{1, 2, 3, 5, 8}
	}
	for _, size := range sizes {
		if thorough {
			maxLen = 4
			if size <= 3 {
				maxLen = 5
			}
		}
		letters := []c12Step{c12W(nil), c12W([]byte("a")), c12W([]byte("bc")), c12W(bytes.Repeat([]byte("s"), size)),
			c12W(bytes.Repeat([]byte("L"), size+1)), {O: "s"}, {O: "t"}, {O: "x"}}
		for n := 0; n <= maxLen; n++ {
			total := 1
			for i := 0; i < n; i++ {
				total *= len(letters)
			}
			for code := 0; code < total; code++ {
				ops := make([]c12Step, n)
				c := code
				for i := range ops {
					ops[i] = letters[c%len(letters)]
					c /= len(letters)
				}
				emitOp(c12Op{K: "seq", Size: size, Ops: ops})
			}
		}
	}

	// 2. random histories: sizes 1…4 KiB (and the defaults), write lengths around the free space, failing sinks
	nSeq := 1500
	if thorough {
		nSeq = 60000
	}
	for i := 0; i < nSeq; i++ {
		op := c12Op{K: "seq", Size: Pick(r, []int{1, 2, 3, 4, 5, 7, 8, 16, 16, 64, 64, 100, 1024, 4096, 4097, 5000, 6000, -1})}
		eff := c12EffSize(op.Size)
		held := 0 // generator's guess of the buffered amount (only steers the length classes)
		n := 1 + r.Intn(14)
		if r.Chance(1, 10) {
			n = 1 + r.Intn(60)
		}
		for j := 0; j < n; j++ {
			switch r.Intn(12) {
			case 0:
				op.Ops = append(op.Ops, c12Step{O: "s"})
				held = 0
			case 1:
				op.Ops = append(op.Ops, c12Step{O: "t"})
				held = 0
			case 2:
				if r.Chance(1, 2) {
					op.Ops = append(op.Ops, c12Step{O: "x"})
					held = 0
				}
			default:
				free := eff - held
				l := Pick(r, []int{0, 1, 1, 2, free, free, free + 1, free - 1, eff, eff + 1, 2*eff + 3, r.Intn(eff + 2), r.Intn(2*eff + 2)})
				if l < 0 {
					l = 0
				}
				if l > 14000 {
					l = 14000
				}
				op.Ops = append(op.Ops, c12W(c12Payload(r, l)))
				switch {
				case l <= free:
					held += l
				case l <= eff:
					held = l
				default:
					held = 0
				}
			}
		}
		if r.Chance(1, 4) { // failing sink
			for j, k := 0, 1+r.Intn(6); j < k; j++ {
				switch r.Intn(5) {
				case 0:
					op.WO = append(op.WO, []int{r.Intn(eff + 2), 0}) // short (or full), nil error
				case 1:
					op.WO = append(op.WO, []int{r.Intn(eff + 2), 1}) // short with an error
				case 2:
					op.WO = append(op.WO, []int{0, 1})
				default:
					op.WO = append(op.WO, []int{1 << 30, 0}) // fine
				}
			}
			for j, k := 0, r.Intn(4); j < k; j++ {
				op.SO = append(op.SO, r.Intn(2))
			}
		}
		emitOp(op)
	}
	// the default size: a write that fits, one larger than 256 kB, flush-before-write on the real default
	big := c12Payload(r, 256*1024+5)
	emitOp(c12Op{K: "seq", Size: 0, Ops: []c12Step{c12W([]byte("hello\n")), c12W(big), c12W([]byte("tail\n")), {O: "t"}, c12W(big[:256*1024-2]), c12W([]byte("xyz\n"))}})

	// 3. the bufio.Writer model against the real one (incl. the buffered branch of its loop, which zap's pre-flush avoids)
	nBuf := 600
	if thorough {
		nBuf = 15000
	}
	for i := 0; i < nBuf; i++ {
		op := c12Op{K: "bufio", Size: Pick(r, []int{1, 2, 3, 4, 5, 8, 16, 64})}
		for j, n := 0, 1+r.Intn(10); j < n; j++ {
			if r.Chance(1, 5) {
				op.Ops = append(op.Ops, c12Step{O: "f"})
			} else {
				op.Ops = append(op.Ops, c12W(c12Payload(r, Pick(r, []int{0, 1, 2, 3, op.Size - 1, op.Size, op.Size + 1, 2 * op.Size, 3*op.Size + 1, r.Intn(3*op.Size + 2)}))))
			}
		}
		if r.Chance(1, 2) {
			for j, k := 0, 1+r.Intn(5); j < k; j++ {
				op.WO = append(op.WO, []int{Pick(r, []int{0, 1, 2, op.Size, 1 << 30, r.Intn(2*op.Size + 1)}), Pick(r, []int{0, 0, 1})})
			}
		}
		emitOp(op)
	}

	// 4. concurrent programs
	nConc := 80
	if thorough {
		nConc = 1500
	}
	for i := 0; i < nConc; i++ {
		op := c12Op{K: "conc", Size: Pick(r, []int{8, 16, 64, 256, 4096}), Ticks: r.Intn(20), Stoppers: Pick(r, []int{0, 1, 2, 2, 2, 3, 5}), Rep: 1}
		if r.Chance(1, 2) {
			op.Slow = Pick(r, []int{1, 20, 100})
		}
		mixed := r.Chance(1, 3) // Stop calls also inside phase 1
		for g, ng := 0, 1+r.Intn(5); g < ng; g++ {
			prog := []string{}
			for j, n := 0, r.Intn(40); j < n; j++ {
				switch {
				case r.Chance(1, 8):
					prog = append(prog, "s")
				case mixed && r.Chance(1, 15):
					prog = append(prog, "x")
				default:
					prog = append(prog, "w"+strconv.Itoa(Pick(r, []int{0, 6, 6, 7, 10, op.Size, op.Size + 1, 6 + r.Intn(2*op.Size)})))
				}
			}
			op.Progs = append(op.Progs, prog)
		}
		// the F11 shape: one buffered write, then several Stops at once
		if r.Chance(1, 4) {
			op.Size = Pick(r, []int{16, 64, 4096})
			op.Progs = [][]string{{"w10"}}
			op.Ticks = 0
			op.Stoppers = 2 + r.Intn(3)
			op.Slow = Pick(r, []int{20, 100, 300})
			op.Rep = 20
		}
		emitOp(op)
	}

	// 4b. a tick arriving while a writer is inside a slow sink write
	nRace := 12
	if thorough {
		nRace = 200
	}
	for i := 0; i < nRace; i++ {
		size := Pick(r, []int{8, 16, 64, 256})
		emitOp(c12Op{K: "tickrace", Size: size, Slow: Pick(r, []int{500, 1000, 3000}), Pre: 1 + r.Intn(size), Big: size + 1 + r.Intn(2*size)})
	}

	// 5. kill -9 of a writing process
	nCrash := 6
	if thorough {
		nCrash = 120
	}
	for i := 0; i < nCrash; i++ {
		emitOp(c12Op{K: "crash", Size: Pick(r, []int{64, 256, 4096, 0}), Seed: r.U64() % 1000000, Interval: Pick(r, []int{100, 500, 2000, 1000000}), Kill: 500 + r.Intn(40000)})
	}
}

// ---------------------------------------------------------------- scripted sink, clock

var errC12Sink = errors.New("c12: sink write failed")
var errC12Sync = errors.New("c12: sink sync failed")

type c12Ev struct {
	sync   bool
	p      []byte
	took   int
	failed bool // the call returned an error
}

func (e c12Ev) String() string {
	if e.sync {
		return "s"
	}
	return fmt.Sprintf("w:%s:%d", hx(e.p), e.took)
}

type c12Sink struct {
	mu      sync.Mutex
	wo      [][]int
	so      []int
	evs     []c12Ev
	syncSig chan struct{}
	inCall  atomic.Int32
	overlap atomic.Bool
	slow    time.Duration
	taken   atomic.Int64
	hookLen int // a Write of exactly this length announces itself on `entered` before it sleeps
	entered chan struct{}
}

func newC12Sink(wo [][]int, so []int) *c12Sink {
	return &c12Sink{wo: wo, so: so, syncSig: make(chan struct{}, 1<<16)}
}

func (s *c12Sink) Write(p []byte) (int, error) {
	if s.inCall.Add(1) != 1 {
		s.overlap.Store(true)
	}
	defer s.inCall.Add(-1)
	if s.hookLen > 0 && len(p) == s.hookLen && s.entered != nil {
		select {
		case s.entered <- struct{}{}:
		default:
		}
	}
	if s.slow > 0 {
		time.Sleep(s.slow)
	}
	s.mu.Lock()
	defer s.mu.Unlock()
	took, fail := len(p), false
	if len(s.wo) > 0 {
		o := s.wo[0]
		s.wo = s.wo[1:]
		if o[0] < took {
			took = o[0]
		}
		if took < 0 {
			took = 0
		}
		fail = o[1] != 0
	}
	if took == 0 && len(p) > 0 {
		fail = true // io.Writer contract: never (0, nil) for a non-empty slice
	}
	s.evs = append(s.evs, c12Ev{p: append([]byte(nil), p...), took: took, failed: fail})
	s.taken.Add(int64(took))
	if fail {
		return took, errC12Sink
	}
	return took, nil
}

func (s *c12Sink) Sync() error {
	if s.inCall.Add(1) != 1 {
		s.overlap.Store(true)
	}
	defer s.inCall.Add(-1)
	s.mu.Lock()
	fail := false
	if len(s.so) > 0 {
		fail = s.so[0] != 0
		s.so = s.so[1:]
	}
	s.evs = append(s.evs, c12Ev{sync: true, failed: fail})
	s.mu.Unlock()
	select {
	case s.syncSig <- struct{}{}:
	default:
	}
	if fail {
		return errC12Sync
	}
	return nil
}

func (s *c12Sink) mark() int {
	s.mu.Lock()
	defer s.mu.Unlock()
	return len(s.evs)
}

func (s *c12Sink) since(m int) []c12Ev {
	s.mu.Lock()
	defer s.mu.Unlock()
	return append([]c12Ev(nil), s.evs[m:]...)
}

func (s *c12Sink) drainSig() {
	for {
		select {
		case <-s.syncSig:
		default:
			return
		}
	}
}

// c12Clock hands the flush loop a ticker the harness fires by hand
type c12Clock struct {
	ch   chan time.Time
	made atomic.Int32
}

func (c *c12Clock) Now() time.Time { return time.Unix(0, 0) }
func (c *c12Clock) NewTicker(time.Duration) *time.Ticker {
	c.made.Add(1)
	return &time.Ticker{C: c.ch}
}

func c12ErrKind(err error) string {
	switch {
	case err == nil:
		return ""
	case errors.Is(err, errC12Sink):
		return "sink"
	case errors.Is(err, errC12Sync):
		return "sync"
	case errors.Is(err, io.ErrShortWrite):
		return "short"
	}
	return "other:" + err.Error()
}

func c12ErrKinds(err error) []string {
	ks := []string{}
	for _, e := range multierr.Errors(err) {
		ks = append(ks, c12ErrKind(e))
	}
	return ks
}

const c12WatchdogFull = 20 * time.Second

// c12Hung is set once a watchdog has expired in this process: the implementation under test blocks, and every
// further op would wait the full period again — later ops use a short period so that the run still ends
var c12Hung atomic.Bool

// c12Leaked is set once a flushLoop goroutine was found alive after Stop
var c12Leaked atomic.Bool

// c12Hangs counts the expired watchdogs
var c12Hangs atomic.Int32

func c12Watchdog() time.Duration {
	switch n := c12Hangs.Load(); {
	case n == 0 && !c12Hung.Load():
		return c12WatchdogFull
	case n <= 20:
		return 300 * time.Millisecond
	}
	return 20 * time.Millisecond // the implementation blocks again and again: just get through the remaining ops
}

func c12NoteHang() {
	c12Hung.Store(true)
	c12Hangs.Add(1)
	c12Why.Store("the watchdog expired")
}

func c12NoteParked() {
	c12Hung.Store(true)
	c12Hangs.Add(1)
	c12Why.Store("every goroutine of the process is parked on a channel or mutex (deadlock)")
}

// c12Base is the number of goroutines when the current op started
var c12Base atomic.Int64

var c12Why atomic.Value

func c12HangWhy() string {
	if w, ok := c12Why.Load().(string); ok {
		return w
	}
	return "?"
}

// c12Dead is the result of a sequential history in which a call blocked; the flush goroutine of the syncer is ended
// (best effort) so that it does not stay behind
func c12Dead(b *zapcore.BufferedWriteSyncer, i int, what, how string) Result {
	c12Reap(b)
	return Result{Impl: map[string]any{"deadlock": i}, Oracle: bad("C12:deadlock", "%s (op %d) %s: %s", what, i, how, c12HangWhy()), Nontrivial: true, Shape: "seq/deadlock"}
}

// c12Call runs f under a watchdog; false = it did not return.
//
// Waiting out the full watchdog for every blocked call makes a run over a deadlocking implementation take hours, so the
// wait also ends as soon as a deadlock is certain: an atomic snapshot of all goroutines (runtime.Stack stops the
// world) in which every goroutine except this one is parked on a channel, a select without timer, a mutex or a
// WaitGroup. Nothing in an op can wake such a process up again — the harness uses no timers inside an op except
// time.Sleep in slow sinks (state "sleep", not parked) and the watchdog below (this goroutine) — so this is the
// runtime's "all goroutines are asleep" made tolerant of the watchdog. Two consecutive snapshots are required.
func c12Call(f func()) bool {
	done := make(chan struct{})
	c12Work(func() { defer close(done); f() })
	deadline := time.NewTimer(c12Watchdog())
	defer deadline.Stop()
	poll := 2 * time.Millisecond
	parked := 0
	for {
		select {
		case <-done:
			return true
		case <-deadline.C:
			c12NoteHang()
			return false
		case <-time.After(poll):
		}
		if poll < 20*time.Millisecond {
			poll *= 2 // a call that returns at once is never delayed; a long one is sampled every 20 ms
		}
		if c12AllParked() {
			parked++
			if parked >= 2 {
				select {
				case <-done: // it returned between the snapshot and now
					return true
				default:
				}
				c12NoteParked()
				return false
			}
		} else {
			parked = 0
		}
	}
}

// c12Work runs g on a long-lived worker goroutine (a worker stuck in a blocked call is replaced by a new one), so that
// sequential histories create no short-lived goroutines: the count-based fast path of c12LoopAlive stays exact
var c12Jobs = make(chan func())
var c12Workers atomic.Int32

func c12Work(g func()) {
	for {
		select {
		case c12Jobs <- g:
			return
		default:
		}
		if c12Workers.Load() > 0 {
			select { // an idle worker may be a few instructions short of its receive
			case c12Jobs <- g:
				return
			case <-time.After(500 * time.Microsecond):
			}
		}
		// no idle worker: start one (the first call, or all workers are stuck in blocked calls)
		c12Workers.Add(1)
		go func() {
			for job := range c12Jobs {
				job()
			}
		}()
	}
}

// c12AllParked: every goroutine but the caller is parked for good (see c12Call)
func c12AllParked() bool {
	c12StackMu.Lock()
	defer c12StackMu.Unlock()
	n := c12Snapshot()
	gs := bytes.Split(c12StackBuf[:n], []byte("\n\n"))
	if len(gs) < 2 {
		return false
	}
	for i, g := range gs {
		if i == 0 {
			continue // the first block is the calling goroutine
		}
		hdr := g
		if j := bytes.IndexByte(g, '\n'); j >= 0 {
			hdr = g[:j]
		}
		a, b := bytes.IndexByte(hdr, '['), bytes.IndexByte(hdr, ']')
		if a < 0 || b < a {
			return false // truncated or unreadable: no verdict
		}
		st := string(hdr[a+1 : b])
		if k := strings.IndexByte(st, ','); k >= 0 {
			st = st[:k]
		}
		switch st {
		case "chan receive", "chan send", "select", "sync.Mutex.Lock", "sync.RWMutex.Lock", "sync.RWMutex.RLock",
			"semacquire", "sync.WaitGroup.Wait", "sync.Cond.Wait", "chan receive (nil chan)", "chan send (nil chan)", "select (no cases)":
			// a select may contain a timer case only in harness code that runs on the calling goroutine
		default:
			return false // running, runnable, sleep, IO wait, syscall, …: somebody can still move
		}
	}
	return true
}

// c12Snapshot dumps all goroutines into c12StackBuf (grown until the dump fits); c12StackMu must be held
func c12Snapshot() int {
	for {
		n := runtime.Stack(c12StackBuf, true)
		if n < len(c12StackBuf) || len(c12StackBuf) >= 1<<26 {
			return n
		}
		c12StackBuf = make([]byte, 2*len(c12StackBuf))
	}
}

// c12LoopState returns the scheduler state of the flushLoop goroutine of syncer b ("select", "running",
// "sync.Mutex.Lock", …) or "" when it has none. The goroutine is recognised by the receiver pointer the traceback
// prints in its flushLoop frame, so that goroutines left behind by earlier ops on other syncers (a blocked Stop keeps
// its loop) are not mistaken for this one; only when the traceback shows no pointers at all does every flushLoop
// goroutine count (then the first one not in "select" wins).
var (
	c12StackMu  sync.Mutex
	c12StackBuf = make([]byte, 1<<18)
)

func c12LoopState(b *zapcore.BufferedWriteSyncer) string {
	c12StackMu.Lock()
	defer c12StackMu.Unlock()
	n := c12Snapshot()
	buf := c12StackBuf
	state := ""
	mine := []byte(fmt.Sprintf("BufferedWriteSyncer).flushLoop(%p", b))
	byPtr := bytes.Contains(buf[:n], []byte("BufferedWriteSyncer).flushLoop(0x"))
	for _, g := range bytes.Split(buf[:n], []byte("\n\n")) {
		if !bytes.Contains(g, []byte("BufferedWriteSyncer).flushLoop")) {
			continue
		}
		if byPtr {
			i := bytes.Index(g, mine)
			if i < 0 {
				continue
			}
			if rest := g[i+len(mine):]; len(rest) > 0 && (rest[0] >= '0' && rest[0] <= '9' || rest[0] >= 'a' && rest[0] <= 'f') {
				continue // a longer address that merely starts with ours
			}
		}
		hdr := g
		if i := bytes.IndexByte(g, '\n'); i >= 0 {
			hdr = g[:i]
		}
		st := "?"
		if i, j := bytes.IndexByte(hdr, '['), bytes.IndexByte(hdr, ']'); i >= 0 && j > i {
			st = string(hdr[i+1 : j])
			if k := strings.IndexByte(st, ','); k >= 0 {
				st = st[:k]
			}
		}
		// the select is only "at rest" when the goroutine is parked in flushLoop itself, not in a select of a callee
		if st == "select" {
			for _, ln := range bytes.Split(g[len(hdr):], []byte("\n")) {
				if len(ln) == 0 || ln[0] == '\t' || bytes.HasPrefix(ln, []byte("runtime.")) {
					continue // blank, file:line of the previous frame, or a runtime frame (GOTRACEBACK=system)
				}
				if !bytes.Contains(ln, []byte("BufferedWriteSyncer).flushLoop")) {
					st = "select-in-callee"
				}
				break
			}
		}
		if st != "select" {
			return st
		}
		state = st
	}
	return state
}

// c12SendTick hands the flush goroutine of b one tick; false = it never takes it (watchdog, or it is not in its select
// and every other goroutine is parked for good)
func c12SendTick(clk *c12Clock, b *zapcore.BufferedWriteSyncer) bool {
	deadline := time.Now().Add(c12Watchdog())
	poll := 2 * time.Millisecond
	parked := 0
	for {
		select {
		case clk.ch <- time.Unix(0, 0):
			return true
		case <-time.After(poll):
		}
		if poll < 20*time.Millisecond {
			poll *= 2
		}
		if st := c12LoopState(b); st != "select" && c12AllParked() {
			parked++
			if parked >= 2 {
				c12NoteParked()
				return false
			}
		} else {
			parked = 0
		}
		if time.Now().After(deadline) {
			c12NoteHang()
			return false
		}
	}
}

// c12AwaitLoopIdle waits until the flush goroutine is parked in its select again (the tick it took has been processed);
// false = it never got there (watchdog, or every goroutine is parked for good while the loop is not in its select)
func c12AwaitLoopIdle(b *zapcore.BufferedWriteSyncer) bool {
	deadline := time.Now().Add(c12Watchdog())
	parked := 0
	for {
		if st := c12LoopState(b); st == "select" || st == "" {
			return true
		}
		if c12AllParked() {
			parked++
			if parked >= 2 {
				c12NoteParked()
				return false
			}
		} else {
			parked = 0
		}
		if time.Now().After(deadline) {
			c12NoteHang()
			return false
		}
		time.Sleep(20 * time.Microsecond)
	}
}

// c12LoopAlive reports whether a flushLoop goroutine is still there after Stop has returned. In the code as written Stop
// returns only after `done` was closed, i.e. when the goroutine is past its select and about to exit: a goroutine found
// parked in the select of flushLoop after Stop is leaked for certain (verdict at once); one that is still running or
// runnable gets up to 2 s to exit (more than enough on a loaded machine).
func c12LoopAlive(b *zapcore.BufferedWriteSyncer) bool {
	// fast path without a snapshot: no more goroutines than before this syncer existed (c12Base is taken when an op
	// starts; helper goroutines of c12Call need a moment to exit)
	for i := 0; i < 50; i++ {
		if int64(runtime.NumGoroutine()) <= c12Base.Load() {
			return false
		}
		runtime.Gosched()
	}
	deadline := time.Now().Add(2 * time.Second)
	for {
		switch st := c12LoopState(b); {
		case st == "":
			return false
		case st == "select":
			c12Leaked.Store(true)
			return true
		}
		if time.Now().After(deadline) {
			c12Leaked.Store(true)
			return true
		}
		time.Sleep(50 * time.Microsecond)
	}
}

// c12Reap ends a flush goroutine the implementation left behind, after the verdict: it closes the syncer's unexported
// `stop` channel (the only way to reach it), so that leaked goroutines do not pile up over thousands of ops and slow
// every later goroutine snapshot down. Best effort: another field layout, or a channel that is already closed, is
// simply left alone.
func c12Reap(b *zapcore.BufferedWriteSyncer) {
	defer func() { _ = recover() }()
	f := reflect.ValueOf(b).Elem().FieldByName("stop")
	if !f.IsValid() || f.Type() != reflect.TypeOf((chan struct{})(nil)) {
		return
	}
	ch := *(*chan struct{})(unsafe.Pointer(f.UnsafeAddr()))
	if ch == nil {
		return
	}
	close(ch)
	// let it exit before the next op counts its goroutines (c12Base)
	for deadline := time.Now().Add(100 * time.Millisecond); time.Now().Before(deadline); {
		if c12LoopState(b) == "" {
			return
		}
		time.Sleep(50 * time.Microsecond)
	}
}

// c12SettledGoroutines: the number of goroutines once helper goroutines of the previous op (a c12Call worker, the
// goroutines of a concurrent program after wg.Wait) have finished exiting: yield until twenty consecutive readings
// agree. An over-estimate could hide a goroutine leaked by the op that starts now from the count-based fast path
// of c12LoopAlive.
func c12SettledGoroutines() int64 {
	n, same := runtime.NumGoroutine(), 0
	for i := 0; i < 2000 && same < 20; i++ {
		runtime.Gosched() // exiting goroutines are runnable: let them finish
		if m := runtime.NumGoroutine(); m == n {
			same++
		} else {
			n, same = m, 0
		}
	}
	return int64(n)
}

func c12EvStrings(evs []c12Ev) []string {
	out := []string{}
	for _, e := range evs {
		out = append(out, e.String())
	}
	return out
}

func c12Exec(raw json.RawMessage) Result {
	var op c12Op
	unmarshal(raw, &op)
	c12Base.Store(c12SettledGoroutines())
	switch op.K {
	case "seq":
		return c12Seq(op)
	case "bufio":
		return c12Bufio(op)
	case "conc":
		return c12Conc(op)
	case "tickrace":
		return c12TickRace(op)
	case "crash":
		return c12Crash(op)
	}
	panic("unknown op kind " + op.K)
}

// ---------------------------------------------------------------- sequential histories

func c12Seq(op c12Op) Result {
	sink := newC12Sink(op.WO, op.SO)
	clk := &c12Clock{ch: make(chan time.Time)}
	b := &zapcore.BufferedWriteSyncer{WS: sink, Size: op.Size, FlushInterval: time.Hour, Clock: clk}
	eff := c12EffSize(op.Size)
	ops := append(append([]c12Step{}, op.Ops...), c12Step{O: "x"}, c12Step{O: "s"})

	steps := []map[string]any{}
	o := ok()
	fail := func(or Oracle) {
		if o.OK {
			o = or
		}
	}
	// oracle state (independent of the model)
	var accepted, sunk []byte
	bounds := map[int]bool{0: true} // offsets in `accepted` where a caller write starts or ends
	clean := true                   // no sink call has failed or come up short so far
	everWrote := false              // Write was called: the syncer is initialised
	stoppedOnce := false            // a Stop of the initialised syncer has completed
	nW, nFlushOps := 0, 0

	for i, st := range ops {
		m := sink.mark()
		sink.drainSig()
		r := map[string]any{}
		kind := st.O
		tickProcessed := false
		switch {
		case st.W != nil:
			kind = "w"
			p := unhx(*st.W)
			caller := append([]byte(nil), p...)
			var n int
			var err error
			if !c12Call(func() { n, err = b.Write(caller) }) {
				return c12Dead(b, i, "Write", "did not return")
			}
			for j := range caller {
				caller[j] = 0xEE // the caller may reuse its slice after Write returns
			}
			everWrote = true
			nW++
			r["n"], r["e"] = n, c12ErrKind(err)
			if n < 0 || n > len(p) {
				fail(bad("C12:count-out-of-range", "op %d: Write of %d bytes returned n=%d", i, len(p), n))
				n = 0
			}
			if n < len(p) && err == nil {
				fail(bad("C12:short-count-nil-error", "op %d: Write of %d bytes returned (%d, nil)", i, len(p), n))
			}
			accepted = append(accepted, p[:n]...)
			bounds[len(accepted)] = true
		case st.O == "s":
			var err error
			if !c12Call(func() { err = b.Sync() }) {
				return c12Dead(b, i, "Sync", "did not return")
			}
			r["e"] = c12ErrKinds(err)
		case st.O == "x":
			var err error
			if !c12Call(func() { err = b.Stop() }) {
				return c12Dead(b, i, "Stop", "did not return")
			}
			r["e"] = c12ErrKinds(err)
		case st.O == "t":
			if clk.made.Load() == 0 {
				break // no ticker exists before the first Write
			}
			if stoppedOnce {
				// the loop must be gone: nobody may receive the tick
				select {
				case clk.ch <- time.Unix(0, 0):
					fail(bad("C12:loop-alive-after-stop", "op %d: a tick was received after Stop had returned", i))
					c12AwaitLoopIdle(b)
				case <-time.After(200 * time.Microsecond):
				}
				break
			}
			if !c12SendTick(clk, b) {
				return c12Dead(b, i, "the flush loop", "did not take a tick")
			}
			// processed: normally the sink sees the loop's Sync within microseconds (the events are recorded by then and
			// the next operation serialises behind the mutex the loop still holds for an instant); if it does not —
			// an implementation whose tick does not sync the sink — the goroutine is watched until it is parked in its
			// select again, which needs a snapshot of all goroutines
			signalled := false
			select {
			case <-sink.syncSig:
				signalled = true
			case <-time.After(2 * time.Millisecond):
			}
			if !signalled && !c12AwaitLoopIdle(b) {
				return c12Dead(b, i, "the flush loop", "did not finish processing a tick")
			}
			tickProcessed = true
		default:
			panic("unknown step " + st.O)
		}
		evs := sink.since(m)
		steps = append(steps, map[string]any{"r": r, "ev": c12EvStrings(evs)})

		// ---- oracle
		syncs := 0
		for _, e := range evs {
			if e.sync {
				syncs++
				continue
			}
			start := len(sunk)
			if e.failed || e.took < len(e.p) {
				clean = false // from here on the remainder of a write is, by necessity, a partial write
			}
			if clean && (!bounds[start] || !bounds[start+len(e.p)]) {
				fail(bad("C12:split-write", "op %d: the sink write at stream offset %d, length %d does not consist of whole caller writes", i, start, len(e.p)))
			}
			sunk = append(sunk, e.p[:e.took]...)
		}
		if len(sunk) > len(accepted) || !bytes.Equal(sunk, accepted[:len(sunk)]) {
			fail(bad("C12:stream-mismatch", "op %d: the sink content is not a prefix of the accepted bytes (lost, duplicated or reordered)", i))
			return Result{Impl: map[string]any{"steps": steps}, Oracle: o, Nontrivial: true, Shape: "seq/stream-mismatch"}
		}
		held := len(accepted) - len(sunk)
		if held > eff {
			fail(bad("C12:held-exceeds-size", "op %d: %d bytes held back with Size %d", i, held, eff))
		}
		lastIsSync := len(evs) > 0 && evs[len(evs)-1].sync
		switch kind {
		case "w":
			if clean && (r["n"].(int) != len(unhx(*st.W)) || r["e"].(string) != "") {
				fail(bad("C12:write-failed-on-good-sink", "op %d: Write returned (%v, %q) although the sink never failed", i, r["n"], r["e"]))
			}
		case "s":
			nFlushOps++
			if syncs != 1 || !lastIsSync {
				fail(bad("C12:sync-not-synced", "op %d: Sync made %d WS.Sync calls (last event a sync: %v)", i, syncs, lastIsSync))
			} else if clean && held != 0 {
				fail(bad("C12:sync-not-flushed", "op %d: %d accepted bytes not in the sink after Sync returned", i, held))
			}
			c12CheckErrs(fail, i, "Sync", evs, r["e"].([]string))
		case "t":
			if tickProcessed {
				nFlushOps++
				if syncs != 1 || !lastIsSync {
					fail(bad("C12:tick-not-synced", "op %d: the tick made %d WS.Sync calls", i, syncs))
				} else if clean && held != 0 {
					fail(bad("C12:tick-not-flushed", "op %d: %d accepted bytes not in the sink after the tick was processed", i, held))
				}
			}
		case "x":
			if everWrote {
				nFlushOps++
				// Only the Stop that shuts the syncer down is held to the flush clause: Stop "closes the buffer", a
				// repeated Stop is a no-op by design (zap's own test "stop twice" requires it to return nil even when
				// the first one failed to flush), and bytes written after the shutdown were not accepted before it.
				// They stay subject to stream-mismatch / held-exceeds-size and to the Sync clause (F21: not a violation).
				switch {
				case stoppedOnce:
				case clean && held != 0:
					fail(bad("C12:stop-not-flushed", "op %d: %d accepted bytes not in the sink after Stop returned", i, held))
				case syncs != 1 || !lastIsSync:
					fail(bad("C12:stop-not-synced", "op %d: Stop made %d WS.Sync calls", i, syncs))
				}
				if !stoppedOnce {
					c12CheckErrs(fail, i, "Stop", evs, r["e"].([]string))
				}
				stoppedOnce = true
				if c12LoopAlive(b) {
					fail(bad("C12:loop-alive-after-stop", "op %d: a flushLoop goroutine is still running after Stop returned", i))
				}
			}
		}
	}
	if sink.overlap.Load() {
		fail(bad("C12:sink-overlap", "two calls were inside the sink at once"))
	}
	if !o.OK && clk.made.Load() > 0 {
		c12Reap(b) // whatever went wrong, do not leave the flush goroutine of this syncer behind
	}
	return Result{Impl: map[string]any{"steps": steps}, Oracle: o, Nontrivial: nW >= 2 && len(sunk) > 0 && nFlushOps > 0,
		Shape: fmt.Sprintf("seq/size%d/w%d/fail=%v/stops=%v", bucket(eff), bucket(nW), !clean, stoppedOnce && len(op.Ops) > 0 && c12HasStop(op.Ops))}
}

func c12HasStop(ops []c12Step) bool {
	for _, s := range ops {
		if s.O == "x" {
			return true
		}
	}
	return false
}

// errors of the sink must reach the caller of Sync / the first Stop
func c12CheckErrs(fail func(Oracle), i int, what string, evs []c12Ev, got []string) {
	has := func(k string) bool {
		for _, g := range got {
			if g == k {
				return true
			}
		}
		return false
	}
	for _, e := range evs {
		switch {
		case e.sync && e.failed && !has("sync"):
			fail(bad("C12:sync-error-lost", "op %d: %s returned %v although WS.Sync failed", i, what, got))
		case !e.sync && (e.failed || e.took < len(e.p)) && len(got) == 0:
			fail(bad("C12:flush-error-lost", "op %d: %s returned nil although the sink write came up short or failed", i, what))
		}
	}
}

// ---------------------------------------------------------------- bare bufio.Writer (validates the bufio part of the model)

type c12PlainWriter struct{ s *c12Sink }

func (w c12PlainWriter) Write(p []byte) (int, error) { return w.s.Write(p) }

func c12Bufio(op c12Op) Result {
	if op.Size <= 0 {
		return Result{Impl: map[string]any{"out_of_scope": true}, Oracle: ok(), NoModel: true, Shape: "bufio/out-of-scope"}
	}
	sink := newC12Sink(op.WO, nil)
	w := bufio.NewWriterSize(c12PlainWriter{sink}, op.Size)
	steps := []map[string]any{}
	o := ok()
	nW := 0
	for i, st := range op.Ops {
		m := sink.mark()
		r := map[string]any{}
		if st.W != nil {
			p := unhx(*st.W)
			n, err := w.Write(p)
			r["n"], r["e"] = n, c12ErrKind(err)
			nW++
			if n < len(p) && err == nil && o.OK {
				o = bad("C12:bufio-short-count-nil-error", "op %d: bufio.Writer.Write of %d bytes returned (%d, nil)", i, len(p), n)
			}
		} else {
			r["e"] = c12ErrKind(w.Flush())
		}
		steps = append(steps, map[string]any{"r": r, "ev": c12EvStrings(sink.since(m)), "buf": w.Buffered()})
	}
	return Result{Impl: map[string]any{"steps": steps}, Oracle: o, Nontrivial: nW >= 2, Shape: fmt.Sprintf("bufio/size%d/fail=%v", bucket(op.Size), len(op.WO) > 0)}
}

// ---------------------------------------------------------------- concurrent programs

// record written by goroutine g: [0xA5, g, seq hi, seq lo, len hi, len lo] ++ payload (len-6 bytes); len ≥ 6
func c12Record(g, seq, length int) []byte {
	if length < 6 {
		length = 6
	}
	b := make([]byte, length)
	b[0], b[1], b[2], b[3], b[4], b[5] = 0xA5, byte(g), byte(seq>>8), byte(seq), byte(length>>8), byte(length)
	for i := 6; i < length; i++ {
		b[i] = byte(g*31 + seq + i)
	}
	return b
}

func c12ProgLen(s string) (int, bool) {
	if !strings.HasPrefix(s, "w") {
		return 0, false
	}
	n, err := strconv.Atoi(s[1:])
	if err != nil || n < 0 || n > 1<<16-1 {
		return 0, false
	}
	if n > 0 && n < 6 {
		n = 6
	}
	return n, true
}

func c12Conc(op c12Op) Result {
	if len(op.Progs) > 200 || op.Stoppers > 64 || op.Ticks > 10000 || op.Rep > 10000 {
		return Result{Impl: map[string]any{"out_of_scope": true}, Oracle: ok(), NoModel: true, Shape: "conc/out-of-scope"}
	}
	// a tiny program is over in microseconds and sees one schedule per run: run it at least 20 times, so that a
	// shrunk replay of a schedule-dependent failure (F11: one write, several Stops) reproduces dependably
	steps := 0
	for _, p := range op.Progs {
		steps += len(p)
	}
	if steps <= 4 && op.Rep < 20 {
		op.Rep = 20
	}
	var r Result
	for i := 0; i < op.Rep || i == 0; i++ {
		r = c12ConcOnce(op)
		if !r.Oracle.OK {
			break
		}
	}
	return r
}

func c12ConcOnce(op c12Op) Result {
	sink := newC12Sink(nil, nil)
	sink.slow = time.Duration(op.Slow) * time.Microsecond
	clk := &c12Clock{ch: make(chan time.Time)}
	b := &zapcore.BufferedWriteSyncer{WS: sink, Size: op.Size, FlushInterval: time.Hour, Clock: clk}
	var completed atomic.Int64 // bytes of Writes that have returned
	var problems sync.Map
	note := func(sig, msg string) { problems.LoadOrStore(sig, msg) }
	stopInPhase1 := false
	wantBytes, wantRecords := 0, 0
	for _, prog := range op.Progs {
		for _, s := range prog {
			if s == "x" {
				stopInPhase1 = true
			}
			if n, isW := c12ProgLen(s); isW && n > 0 {
				wantBytes += n
				wantRecords++
			}
		}
	}

	body := func() {
		var wg sync.WaitGroup
		stopTicks := make(chan struct{})
		var tg sync.WaitGroup
		tg.Add(1)
		go func() { // the ticker: fires whenever the loop listens, up to Ticks times
			defer tg.Done()
			for i := 0; i < op.Ticks; i++ {
				select {
				case clk.ch <- time.Unix(0, 0):
				case <-stopTicks:
					return
				}
			}
		}()
		for g, prog := range op.Progs {
			wg.Add(1)
			go func(g int, prog []string) {
				defer wg.Done()
				seq := 0
				for _, s := range prog {
					switch {
					case s == "s":
						if err := b.Sync(); err != nil {
							note("C12:conc-error", "Sync failed on a good sink: "+err.Error())
						}
					case s == "x":
						if err := b.Stop(); err != nil {
							note("C12:conc-error", "Stop failed on a good sink: "+err.Error())
						}
					default:
						n, isW := c12ProgLen(s)
						if !isW {
							panic("bad conc step " + s)
						}
						var rec []byte
						if n > 0 {
							rec = c12Record(g, seq, n)
							seq++
						}
						got, err := b.Write(rec)
						if got != len(rec) || err != nil {
							note("C12:conc-error", fmt.Sprintf("Write of %d bytes returned (%d, %v) on a good sink", len(rec), got, err))
						}
						completed.Add(int64(got))
					}
				}
			}(g, prog)
		}
		wg.Wait()
		close(stopTicks)
		tg.Wait()
		// phase 2: K goroutines call Stop at once; every one of them must find the data in the sink when it returns
		all := completed.Load()
		var sg sync.WaitGroup
		gate := make(chan struct{})
		for k := 0; k < op.Stoppers; k++ {
			sg.Add(1)
			go func(k int) {
				defer sg.Done()
				<-gate
				if err := b.Stop(); err != nil {
					note("C12:conc-error", "Stop failed on a good sink: "+err.Error())
				}
				if got := sink.taken.Load(); !stopInPhase1 && got < all {
					note("C12:stop-returned-before-flush", fmt.Sprintf("a concurrent Stop returned while only %d of the %d bytes accepted before it were in the sink", got, all))
				}
			}(k)
		}
		close(gate)
		sg.Wait()
		_ = b.Stop()
		_ = b.Sync()
	}
	if !c12Call(body) {
		c12Reap(b)
		return Result{Impl: map[string]any{"deadlock": true}, Oracle: bad("C12:deadlock", "the concurrent program did not finish: %s", c12HangWhy()), Nontrivial: true, Shape: "conc/deadlock"}
	}
	evs := sink.since(0)
	// the sink stream must parse into whole records, each exactly once, per goroutine in order; every sink write is whole records
	var stream []byte
	starts := map[int]bool{}
	for _, e := range evs {
		if e.sync {
			continue
		}
		starts[len(stream)] = true
		stream = append(stream, e.p...)
		starts[len(stream)] = true
	}
	nextSeq := map[int]int{}
	records, pos := 0, 0
	recBounds := map[int]bool{0: true}
	for pos < len(stream) {
		if len(stream)-pos < 6 || stream[pos] != 0xA5 {
			note("C12:stream-corrupt", fmt.Sprintf("sink stream does not parse as records at offset %d", pos))
			break
		}
		g, seq, l := int(stream[pos+1]), int(stream[pos+2])<<8|int(stream[pos+3]), int(stream[pos+4])<<8|int(stream[pos+5])
		if l < 6 || pos+l > len(stream) || !bytes.Equal(stream[pos:pos+l], c12Record(g, seq, l)) {
			note("C12:stream-corrupt", fmt.Sprintf("damaged record at offset %d", pos))
			break
		}
		if seq != nextSeq[g] {
			note("C12:stream-order", fmt.Sprintf("goroutine %d: record %d arrived where %d was due (lost, duplicated or reordered)", g, seq, nextSeq[g]))
			break
		}
		nextSeq[g]++
		records++
		pos += l
		recBounds[pos] = true
	}
	for off := range starts {
		if !recBounds[off] {
			note("C12:split-write", fmt.Sprintf("a sink write starts or ends inside a record (stream offset %d)", off))
			break
		}
	}
	if len(stream) != wantBytes || records != wantRecords {
		note("C12:stream-incomplete", fmt.Sprintf("after the final Stop and Sync the sink holds %d bytes / %d records, %d / %d were accepted", len(stream), records, wantBytes, wantRecords))
	}
	if sink.overlap.Load() {
		note("C12:sink-overlap", "two calls were inside the sink at once")
	}
	if clk.made.Load() > 0 && c12LoopAlive(b) {
		note("C12:loop-alive-after-stop", "a flushLoop goroutine is still running after Stop returned")
		c12Reap(b)
	}
	o := ok()
	for _, sig := range []string{"C12:stop-returned-before-flush", "C12:stream-corrupt", "C12:stream-order", "C12:split-write", "C12:stream-incomplete", "C12:sink-overlap", "C12:loop-alive-after-stop", "C12:conc-error"} {
		if v, okv := problems.Load(sig); okv && o.OK {
			o = bad(sig, "%s", v.(string))
		}
	}
	return Result{Impl: map[string]any{"bytes": len(stream), "records": records}, Oracle: o, Nontrivial: len(op.Progs) >= 2 && records >= 2,
		Shape: fmt.Sprintf("conc/g%d/stoppers%d/mixed=%v/slow=%v", bucket(len(op.Progs)), bucket(op.Stoppers), stopInPhase1, op.Slow > 0)}
}

// ---------------------------------------------------------------- a tick under contention

func c12TickRace(op c12Op) Result {
	if op.Size <= 0 || op.Pre <= 0 || op.Pre > op.Size || op.Big <= op.Size || op.Big > 1<<20 || op.Slow < 0 || op.Slow > 100000 {
		return Result{Impl: map[string]any{"out_of_scope": true}, Oracle: ok(), NoModel: true, Shape: "tickrace/out-of-scope"}
	}
	sink := newC12Sink(nil, nil)
	sink.slow = time.Duration(op.Slow) * time.Microsecond
	sink.hookLen = op.Big
	sink.entered = make(chan struct{}, 1)
	clk := &c12Clock{ch: make(chan time.Time)}
	b := &zapcore.BufferedWriteSyncer{WS: sink, Size: op.Size, FlushInterval: time.Hour, Clock: clk}
	o := ok()
	fail := func(or Oracle) {
		if o.OK {
			o = or
		}
	}
	dead := func(what string) Result {
		c12Reap(b)
		return Result{Impl: map[string]any{"deadlock": true}, Oracle: bad("C12:deadlock", "%s: %s", what, c12HangWhy()), NoModel: true, Nontrivial: true, Shape: "tickrace/deadlock"}
	}
	pre, big := c12Record(0, 0, op.Pre), c12Record(1, 0, op.Big)
	pre, big = pre[:op.Pre], big[:op.Big]
	if !c12Call(func() { _, _ = b.Write(pre) }) {
		return dead("the first Write did not return")
	}
	writerDone := make(chan struct{})
	c12Work(func() { defer close(writerDone); _, _ = b.Write(big) })
	select {
	case <-sink.entered: // the writer is inside the sink, holding the syncer's mutex, for op.Slow µs
	case <-time.After(c12Watchdog()):
		c12NoteHang()
		return dead("the big Write never reached the sink")
	}
	m := sink.mark()
	if !c12SendTick(clk, b) {
		return dead("the flush loop did not take the tick")
	}
	select {
	case <-writerDone:
	case <-time.After(c12Watchdog()):
		c12NoteHang()
		return dead("the big Write did not return")
	}
	if !c12AwaitLoopIdle(b) {
		return dead("the flush loop did not finish processing the tick")
	}
	// the tick has been processed: its Sync must have reached the sink (after the write it queued behind) and all
	// bytes accepted before the tick was taken — the first write — must be in the sink
	evs := sink.since(m)
	synced := false
	for _, e := range evs {
		if e.sync {
			synced = true
		}
	}
	if !synced {
		fail(bad("C12:tick-not-synced", "a tick taken while a writer held the mutex (inside a %d µs sink write) was dropped: no WS.Sync followed", op.Slow))
	}
	if got := sink.taken.Load(); got < int64(op.Pre) {
		fail(bad("C12:tick-not-flushed", "after a tick under contention only %d of the %d bytes accepted before it are in the sink", got, op.Pre))
	}
	if !c12Call(func() { _ = b.Stop() }) {
		return dead("Stop did not return")
	}
	if c12LoopAlive(b) {
		fail(bad("C12:loop-alive-after-stop", "a flushLoop goroutine is still running after Stop returned"))
		c12Reap(b)
	}
	if got := sink.taken.Load(); got != int64(op.Pre+op.Big) {
		fail(bad("C12:stream-incomplete", "after Stop the sink holds %d bytes, %d were accepted", got, op.Pre+op.Big))
	}
	return Result{Impl: map[string]any{"ok": o.OK}, Oracle: o, NoModel: true, Nontrivial: true, Shape: fmt.Sprintf("tickrace/size%d", bucket(op.Size))}
}

// ---------------------------------------------------------------- kill -9

// record k of the crash stream: "%08d|" ++ payload ++ "\n", length from the seed
func c12CrashRecord(seed uint64, k int, size int) []byte {
	r := NewRand(seed*1000003 + uint64(k))
	maxLen := 2 * c12EffSize(size)
	if maxLen > 3000 {
		maxLen = 3000
	}
	l := r.Intn(maxLen)
	if r.Chance(1, 3) {
		l = r.Intn(40)
	}
	b := []byte(fmt.Sprintf("%08d|", k))
	for i := 0; i < l; i++ {
		b = append(b, byte('a'+(k+i)%26))
	}
	return append(b, '\n')
}

// c12Child: zvh c12-child <file> <size> <seed> <interval_us>
func c12Child(args []string) {
	size, _ := strconv.Atoi(args[1])
	seed, _ := strconv.ParseUint(args[2], 10, 64)
	iv, _ := strconv.Atoi(args[3])
	f, err := os.OpenFile(args[0], os.O_WRONLY|os.O_CREATE|os.O_APPEND, 0o644)
	must(err)
	b := &zapcore.BufferedWriteSyncer{WS: f, Size: size, FlushInterval: time.Duration(iv) * time.Microsecond}
	r := NewRand(seed)
	os.Stdout.WriteString("R\n") // ready
	for k := 0; k < 2000000; k++ {
		rec := c12CrashRecord(seed, k, size)
		if n, err := b.Write(rec); n != len(rec) || err != nil {
			os.Exit(3)
		}
		if r.Chance(1, 50) {
			if err := b.Sync(); err != nil {
				os.Exit(3)
			}
			os.Stdout.WriteString(fmt.Sprintf("A %d\n", k)) // acknowledged: records 0…k are synced
		}
	}
	_ = b.Stop()
}

func c12Crash(op c12Op) Result {
	exe, err := os.Executable()
	must(err)
	dir, err := os.MkdirTemp("", "zv-c12-")
	must(err)
	defer os.RemoveAll(dir)
	path := filepath.Join(dir, "log")
	cmd := exec.Command(exe, "c12-child", path, strconv.Itoa(op.Size), strconv.FormatUint(op.Seed, 10), strconv.Itoa(op.Interval))
	stdout, err := cmd.StdoutPipe()
	must(err)
	must(cmd.Start())
	acked := -1
	readDone := make(chan struct{})
	ready := make(chan struct{})
	go func() {
		defer close(readDone)
		sc := bufio.NewScanner(stdout)
		for sc.Scan() {
			var k int
			if sc.Text() == "R" {
				close(ready)
			} else if _, err := fmt.Sscanf(sc.Text(), "A %d", &k); err == nil {
				acked = k
			}
		}
	}()
	select {
	case <-ready:
	case <-readDone:
	case <-time.After(c12Watchdog()):
	}
	time.Sleep(time.Duration(op.Kill) * time.Microsecond)
	_ = cmd.Process.Signal(syscall.SIGKILL)
	<-readDone
	werr := cmd.Wait()
	if ee, isExit := werr.(*exec.ExitError); !isExit || ee.ExitCode() != -1 {
		return Result{Impl: map[string]any{"ok": false}, Oracle: bad("C12:crash-child-error", "the writing child did not run until it was killed: %v", werr), NoModel: true, Shape: "crash/child-error"}
	}
	data, err := os.ReadFile(path)
	if err != nil {
		data = nil
	}
	// oracle: the file is a prefix of the record stream, cut at a record boundary, containing every acknowledged record
	o := ok()
	pos, k, osCut := 0, 0, false
	for pos < len(data) {
		rec := c12CrashRecord(op.Seed, k, op.Size)
		if len(data)-pos < len(rec) {
			if bytes.Equal(data[pos:], rec[:len(data)-pos]) && len(data)%4096 == 0 {
				osCut = true // the kernel may cut one write(2) at a page boundary when SIGKILL arrives: outside the model
				break
			}
			o = bad("C12:crash-partial-write", "after kill -9 the file ends inside record %d (%d of %d bytes, file size %d)", k, len(data)-pos, len(rec), len(data))
			break
		}
		if !bytes.Equal(data[pos:pos+len(rec)], rec) {
			o = bad("C12:crash-stream-mismatch", "after kill -9 the file differs from the written stream at record %d (offset %d)", k, pos)
			break
		}
		pos += len(rec)
		k++
	}
	if o.OK && k <= acked {
		o = bad("C12:crash-lost-acked", "after kill -9 the file holds records 0…%d but Sync had acknowledged record %d", k-1, acked)
	}
	return Result{Impl: map[string]any{"ok": o.OK}, Oracle: o, NoModel: true, Nontrivial: k > 0,
		Shape: fmt.Sprintf("crash/size%d/records%d/acked=%v/oscut=%v", bucket(c12EffSize(op.Size)), bucket(k), acked >= 0, osCut)}
}
