package main

import (
	"bytes"
	"encoding/json"
	"errors"
	"fmt"
	"io"
	"sync"
	"sync/atomic"
	"time"

	"go.uber.org/multierr"
	"go.uber.org/zap"
	"go.uber.org/zap/zapcore"
	"go.uber.org/zap/zapio"
	"go.uber.org/zap/zaptest"
	"go.uber.org/zap/zaptest/observer"
)

// C13 — writers and WriteSyncer combinators honour the io.Writer contract.
//
// ops
//   {"k":"multi","len":L,"outs":[[n,e],…]}   multi-WriteSyncer over scripted sinks (n ≤ L, e∈{0,1})
//        → {"n":…, "errs":[sink indices…], "allsame":bool}
//   {"k":"msync","errs":[0|1…]}              → {"errs":[indices], "called":[bool…]}
//   {"k":"addsync","ws":bool,"n":…,"e":0|1,"len":L} → {"n":…,"err":bool,"sync_reached":bool}
//   {"k":"lock","double":bool,"n":…,"e":0|1,"se":0|1,"len":L} → {"n","err","serr","same":bool}
//   {"k":"writer","w":"zapio|stdlog|testing|bws","p":"<hex>"} → {"n":…,"err":bool}
//   {"k":"lockconc","g":G,"calls":C}         → {"overlap":false,"writes":G*C}

type scriptSink struct {
	n       int
	err     error
	serr    error
	got     [][]byte
	synced  int
	inCall  atomic.Int32
	overlap atomic.Bool
}

func (s *scriptSink) Write(p []byte) (int, error) {
	if s.inCall.Add(1) != 1 {
		s.overlap.Store(true)
	}
	s.got = append(s.got, append([]byte(nil), p...))
	s.inCall.Add(-1)
	if s.n < 0 {
		return len(p), s.err
	}
	return s.n, s.err
}

func (s *scriptSink) Sync() error {
	if s.inCall.Add(1) != 1 {
		s.overlap.Store(true)
	}
	s.synced++
	s.inCall.Add(-1)
	return s.serr
}

// gateSink announces every entry and then blocks until released.
type gateSink struct {
	entered chan string
	release chan struct{}
}

func (g *gateSink) Write(p []byte) (int, error) {
	g.entered <- "write"
	<-g.release
	return len(p), nil
}
func (g *gateSink) Sync() error { g.entered <- "sync"; <-g.release; return nil }

type plainWriter struct{ s *scriptSink }

func (p plainWriter) Write(b []byte) (int, error) { return p.s.Write(b) }

type c13Op struct {
	K      string  `json:"k"`
	Len    int     `json:"len,omitempty"`
	Outs   [][]int `json:"outs,omitempty"`
	Errs   []int   `json:"errs,omitempty"`
	WS     bool    `json:"ws,omitempty"`
	N      int     `json:"n,omitempty"`
	E      int     `json:"e,omitempty"`
	SE     int     `json:"se,omitempty"`
	Double bool    `json:"double,omitempty"`
	W      string  `json:"w,omitempty"`
	P      string  `json:"p,omitempty"`
	Size   int     `json:"size,omitempty"`
	Pre    int     `json:"pre,omitempty"`
	First  string  `json:"first,omitempty"`
	Second string  `json:"second,omitempty"`
	G      int     `json:"g,omitempty"`
	Calls  int     `json:"calls,omitempty"`
}

func init() {
	props["C13"] = &Prop{Gen: c13Gen, Exec: c13Exec}
}

func c13Gen(r *Rand, tier string, emit func(op any)) {
	c13GenNest(emit)
	maxSinks := 3
	if tier == "thorough" {
		maxSinks = 4
	}
	// exhaustive outcome vectors: per sink {full, short, zero} × {err, nil}, payload length 5
	const L = 5
	outcomes := [][]int{{L, 0}, {L, 1}, {2, 0}, {2, 1}, {0, 0}, {0, 1}}
	for k := 1; k <= maxSinks; k++ {
		total := 1
		for i := 0; i < k; i++ {
			total *= len(outcomes)
		}
		for code := 0; code < total; code++ {
			outs := make([][]int, k)
			c := code
			for i := range outs {
				outs[i] = outcomes[c%len(outcomes)]
				c /= len(outcomes)
			}
			emit(c13Op{K: "multi", Len: L, Outs: outs})
		}
	}
	// random vectors with varied lengths and counts (incl. empty payload, zero sinks)
	nr := 400
	if tier == "thorough" {
		nr = 20000
	}
	for i := 0; i < nr; i++ {
		k := r.Intn(7)
		l := Pick(r, []int{0, 1, 5, 64, 4096})
		outs := make([][]int, k)
		for j := range outs {
			outs[j] = []int{r.Intn(l + 1), r.Intn(2)}
			if r.Chance(1, 2) {
				outs[j][0] = l
			}
		}
		emit(c13Op{K: "multi", Len: l, Outs: outs})
	}
	// Sync vectors: all subsets up to 5 sinks
	for k := 0; k <= 5; k++ {
		for mask := 0; mask < 1<<k; mask++ {
			es := make([]int, k)
			for i := range es {
				es[i] = (mask >> i) & 1
			}
			emit(c13Op{K: "msync", Errs: es})
		}
	}
	for _, ws := range []bool{false, true} {
		for _, n := range []int{0, 3, 7} {
			for e := 0; e < 2; e++ {
				emit(c13Op{K: "addsync", WS: ws, N: n, E: e, Len: 7})
				for se := 0; se < 2; se++ {
					emit(c13Op{K: "lock", Double: ws, N: n, E: e, SE: se, Len: 7})
				}
			}
		}
	}
	payloads := [][]byte{{}, []byte(" "), []byte("\n"), []byte("\n\n"), []byte(" \t\r\n "), []byte("hello"), []byte("hello\n"),
		[]byte("hello\n\n"), []byte("  hello  "), []byte("a\nb"), []byte("a\nb\n"), bytes.Repeat([]byte("x"), 5000),
		append(bytes.Repeat([]byte("y"), 5000), '\n'), {0xff, 0xfe, '\n'}, []byte("\x00"), []byte(" x "), []byte(" ")}
	np := 40
	if tier == "thorough" {
		np = 3000
	}
	for i := 0; i < np; i++ {
		b := r.Bytes(20)
		if r.Chance(1, 3) {
			b = append(b, '\n')
		}
		if r.Chance(1, 4) {
			b = append([]byte("  "), b...)
		}
		payloads = append(payloads, b)
	}
	for _, w := range []string{"zapio", "stdlog", "testing", "bws", "zapio-off", "stdlog-off", "stdlogat-off", "stdlog-nop"} {
		for _, p := range payloads {
			emit(c13Op{K: "writer", W: w, P: hx(p)})
		}
	}
	// BufferedWriteSyncer over a sink that reports short counts / errors, payloads below, at and above the buffer size
	for _, size := range []int{8, 64} {
		for _, plen := range []int{0, 1, size - 1, size, size + 1, 3 * size} {
			for _, pre := range []int{0, 3} { // bytes already buffered
				for _, so := range [][]int{{-1, 0}, {1, 0}, {0, 1}, {1, 1}, {-1, 1}} {
					emit(c13Op{K: "bwsw", Size: size, Len: plen, Pre: pre, N: so[0], E: so[1]})
				}
			}
		}
	}
	for _, a := range []string{"write", "sync"} {
		for _, b := range []string{"write", "sync"} {
			emit(c13Op{K: "lockgate", First: a, Second: b})
		}
	}
	nc := 4
	if tier == "thorough" {
		nc = 60
	}
	for i := 0; i < nc; i++ {
		emit(c13Op{K: "lockconc", G: 2 + r.Intn(7), Calls: 50 + r.Intn(300)})
	}
}

type nopTB struct{ n int }

func (t *nopTB) Logf(string, ...interface{})   { t.n++ }
func (t *nopTB) Errorf(string, ...interface{}) {}
func (t *nopTB) Fail()                         {}
func (t *nopTB) Failed() bool                  { return false }
func (t *nopTB) Name() string                  { return "zvh" }
func (t *nopTB) FailNow()                      {}

func c13Exec(raw json.RawMessage) Result {
	var op c13Op
	unmarshal(raw, &op)
	switch op.K {
	case "nest":
		return c13ExecNest(&op)
	case "multi":
		p := make([]byte, op.Len)
		for i := range p {
			p[i] = byte('a' + i%26)
		}
		sinks := make([]*scriptSink, len(op.Outs))
		wss := make([]zapcore.WriteSyncer, len(op.Outs))
		for i, o := range op.Outs {
			sinks[i] = &scriptSink{n: o[0]}
			if o[1] != 0 {
				sinks[i].err = fmt.Errorf("sink %d", i)
			}
			wss[i] = sinks[i]
		}
		n, err := zapcore.NewMultiWriteSyncer(wss...).Write(p)
		errIdx := errIndices(err)
		allsame := true
		for _, s := range sinks {
			if len(s.got) != 1 || !bytes.Equal(s.got[0], p) {
				allsame = false
			}
		}
		// oracle: smallest count any sink reported, all errors, identical bytes everywhere
		o := ok()
		min := 0
		distinct := map[int]bool{}
		for i, oc := range op.Outs {
			if i == 0 || oc[0] < min {
				min = oc[0]
			}
			distinct[oc[0]] = true
		}
		wantErr := []int{}
		for i, oc := range op.Outs {
			if oc[1] != 0 {
				wantErr = append(wantErr, i)
			}
		}
		switch {
		case !allsame:
			o = bad("C13:multi-bytes", "not every sink received exactly p once")
		case len(op.Outs) > 0 && n != min:
			o = bad("C13:multi-count-not-min", "counts %v: returned %d, smallest is %d", op.Outs, n, min)
		case fmt.Sprint(errIdx) != fmt.Sprint(wantErr):
			o = bad("C13:multi-errors", "errors reported %v, want %v", errIdx, wantErr)
		}
		return Result{Impl: map[string]any{"n": n, "errs": errIdx, "allsame": allsame}, Oracle: o,
			Nontrivial: len(op.Outs) >= 2 && len(distinct) >= 2, Shape: fmt.Sprintf("multi/k%d/d%d/e%d", len(op.Outs), len(distinct), len(wantErr))}
	case "msync":
		sinks := make([]*scriptSink, len(op.Errs))
		wss := make([]zapcore.WriteSyncer, len(op.Errs))
		want := []int{}
		for i, e := range op.Errs {
			sinks[i] = &scriptSink{}
			if e != 0 {
				sinks[i].serr = fmt.Errorf("sink %d", i)
				want = append(want, i)
			}
			wss[i] = sinks[i]
		}
		err := zapcore.NewMultiWriteSyncer(wss...).Sync()
		idx := errIndices(err)
		called := []bool{}
		all := true
		for _, s := range sinks {
			called = append(called, s.synced == 1)
			all = all && s.synced == 1
		}
		o := ok()
		if !all {
			o = bad("C13:multi-sync-reach", "Sync did not reach every sink exactly once: %v", called)
		} else if fmt.Sprint(idx) != fmt.Sprint(want) {
			o = bad("C13:multi-sync-errors", "sync errors %v want %v", idx, want)
		}
		return Result{Impl: map[string]any{"errs": idx, "called": called}, Oracle: o,
			Nontrivial: len(op.Errs) >= 2 && len(want) >= 1, Shape: fmt.Sprintf("msync/k%d/e%d", len(op.Errs), len(want))}
	case "addsync":
		s := &scriptSink{n: op.N, serr: errors.New("sync")}
		if op.E != 0 {
			s.err = errors.New("w")
		}
		var w io.Writer = plainWriter{s}
		if op.WS {
			w = s
		}
		ws := zapcore.AddSync(w)
		n, err := ws.Write(make([]byte, op.Len))
		serr := ws.Sync()
		reached := s.synced == 1
		o := ok()
		if n != op.N || (err != nil) != (op.E != 0) {
			o = bad("C13:addsync-relay", "AddSync changed the write result: got (%d,%v) want (%d,err=%v)", n, err, op.N, op.E != 0)
		} else if op.WS && (!reached || serr == nil) {
			o = bad("C13:addsync-keeps", "AddSync dropped an existing Sync")
		} else if !op.WS && (reached || serr != nil) {
			o = bad("C13:addsync-nop", "AddSync on a plain writer must add a no-op Sync")
		}
		return Result{Impl: map[string]any{"n": n, "err": err != nil, "sync_reached": reached, "serr": serr != nil}, Oracle: o,
			Nontrivial: true, Shape: fmt.Sprintf("addsync/ws=%v", op.WS)}
	case "lock":
		s := &scriptSink{n: op.N}
		if op.E != 0 {
			s.err = errors.New("w")
		}
		if op.SE != 0 {
			s.serr = errors.New("s")
		}
		l1 := zapcore.Lock(s)
		l := l1
		same := true
		if op.Double {
			l = zapcore.Lock(l1)
			same = l == l1
		}
		n, err := l.Write(make([]byte, op.Len))
		serr := l.Sync()
		o := ok()
		if n != op.N || (err != nil) != (op.E != 0) || (serr != nil) != (op.SE != 0) || s.synced != 1 || len(s.got) != 1 {
			o = bad("C13:lock-relay", "Lock changed a result: (%d,%v,%v)", n, err, serr)
		} else if !same {
			o = bad("C13:lock-double", "Lock(Lock(x)) layered a second lock")
		}
		return Result{Impl: map[string]any{"n": n, "err": err != nil, "serr": serr != nil, "same": same}, Oracle: o,
			Nontrivial: true, Shape: fmt.Sprintf("lock/double=%v", op.Double)}
	case "writer":
		p := unhx(op.P)
		var w io.Writer
		var cleanup func()
		switch op.W {
		case "zapio":
			core, _ := observer.New(zapcore.DebugLevel)
			zw := &zapio.Writer{Log: zap.New(core)}
			w, cleanup = zw, func() { _ = zw.Close() }
		case "stdlog":
			core, _ := observer.New(zapcore.DebugLevel)
			w = zap.NewStdLog(zap.New(core)).Writer()
		case "zapio-off", "stdlog-off", "stdlogat-off", "stdlog-nop":
			// the same front ends over a logger that DISABLES the level they log at (or discards everything): the bytes
			// are still consumed in full — a writer never reports a short count without an error
			core, _ := observer.New(zapcore.ErrorLevel)
			lg := zap.New(core)
			switch op.W {
			case "zapio-off":
				zw := &zapio.Writer{Log: lg, Level: zapcore.DebugLevel}
				w, cleanup = zw, func() { _ = zw.Close() }
			case "stdlog-off":
				w = zap.NewStdLog(lg).Writer()
			case "stdlogat-off":
				std, err := zap.NewStdLogAt(lg, zapcore.WarnLevel)
				must(err)
				w = std.Writer()
			default:
				w = zap.NewStdLog(zap.NewNop()).Writer()
			}
		case "testing":
			w = zaptest.NewTestingWriter(&nopTB{})
		case "bws":
			sink := &scriptSink{n: -1}
			b := &zapcore.BufferedWriteSyncer{WS: sink, Size: 64}
			w, cleanup = b, func() { _ = b.Stop() }
		default:
			panic("unknown writer " + op.W)
		}
		n, err := w.Write(append([]byte(nil), p...))
		if cleanup != nil {
			cleanup()
		}
		o := ok()
		if err == nil && n != len(p) {
			o = bad("C13:short-count-nil-error:"+op.W, "%s writer returned (%d, nil) for %d bytes %q", op.W, n, len(p), trunc(p))
		} else if err != nil {
			o = bad("C13:writer-error:"+op.W, "%s writer failed on an accepting destination: %v", op.W, err)
		}
		trimmed := len(bytes.TrimSpace(p)) != len(p)
		return Result{Impl: map[string]any{"n": n, "err": err != nil}, Oracle: o,
			Nontrivial: len(p) > 0, Shape: fmt.Sprintf("writer/%s/ws=%v/len%d", op.W, trimmed, bucket(len(p)))}
	case "bwsw":
		// oracle-only (the buffering machine itself is modelled under C12): whatever the sink does, the
		// BufferedWriteSyncer must not report a short count together with a nil error.
		sink := &scriptSink{n: op.N}
		if op.E != 0 {
			sink.err = errors.New("sink")
		}
		b := &zapcore.BufferedWriteSyncer{WS: sink, Size: op.Size}
		if op.Pre > 0 {
			_, _ = b.Write(make([]byte, op.Pre))
		}
		n, err := b.Write(make([]byte, op.Len))
		_ = b.Stop()
		o := ok()
		if err == nil && n != op.Len {
			o = bad("C13:short-count-nil-error:bws", "BufferedWriteSyncer(size %d, %d buffered) over a sink returning (%d, err=%v) reported (%d, nil) for %d bytes", op.Size, op.Pre, op.N, op.E != 0, n, op.Len)
		}
		return Result{Impl: map[string]any{"n": n, "err": err != nil}, Oracle: o, NoModel: true, Nontrivial: op.Len > 0,
			Shape: fmt.Sprintf("bwsw/size%d/len%d/sink(%d,%d)", op.Size, bucket(op.Len), op.N, op.E)}
	case "lockgate":
		// deterministic mutual-exclusion probe: park the first operation INSIDE the sink, start the second one,
		// and see whether it gets in while the first is still there.
		g := &gateSink{entered: make(chan string, 4), release: make(chan struct{})}
		l := zapcore.Lock(g)
		call := func(kind string) {
			if kind == "write" {
				_, _ = l.Write([]byte("x"))
			} else {
				_ = l.Sync()
			}
		}
		done := make(chan struct{}, 2)
		go func() { call(op.First); done <- struct{}{} }()
		select {
		case <-g.entered: // the first operation is inside the sink
		case <-done:
			// the call returned without ever reaching the wrapped sink: Lock must relay every Write and every Sync
			return Result{Impl: map[string]any{"intruded": false}, Oracle: bad("C13:lock-relay", "a %s on a fresh Lock(sink) returned without reaching the sink", op.First),
				Nontrivial: true, Shape: "lockgate/" + op.Second + "-during-" + op.First}
		case <-time.After(5 * time.Second):
			return Result{Impl: map[string]any{"intruded": false}, Oracle: bad("C13:lock-relay", "a %s on a fresh Lock(sink) neither reached the sink nor returned within 5 s", op.First),
				Nontrivial: true, Shape: "lockgate/" + op.Second + "-during-" + op.First}
		}
		go func() { call(op.Second); done <- struct{}{} }()
		intruded := false
		select {
		case <-g.entered:
			intruded = true
		case <-time.After(30 * time.Millisecond):
		}
		close(g.release)
		stuck := false
		for i := 0; i < 2 && !stuck; i++ {
			select {
			case <-done:
			case <-time.After(5 * time.Second):
				stuck = true
			}
		}
		o := ok()
		if stuck {
			o = bad("C13:lock-stuck", "after the sink let the %s go, the %s / %s pair did not both return within 5 s (a lock left held?)", op.First, op.First, op.Second)
		} else if intruded {
			o = bad("C13:lock-overlap:"+op.Second+"-during-"+op.First, "a %s entered the locked sink while a %s was still inside it", op.Second, op.First)
		}
		return Result{Impl: map[string]any{"intruded": intruded}, Oracle: o, Nontrivial: true, Shape: "lockgate/" + op.Second + "-during-" + op.First}
	case "lockconc":
		s := &scriptSink{n: -1}
		l := zapcore.Lock(s)
		var wg sync.WaitGroup
		for g := 0; g < op.G; g++ {
			wg.Add(1)
			go func(g int) {
				defer wg.Done()
				for i := 0; i < op.Calls; i++ {
					if i%7 == 3 {
						_ = l.Sync()
					} else {
						_, _ = l.Write([]byte{byte(g), byte(i)})
					}
				}
			}(g)
		}
		wg.Wait()
		o := ok()
		if s.overlap.Load() {
			o = bad("C13:lock-overlap", "two calls were inside the locked sink at once")
		}
		total := len(s.got) + s.synced
		if total != op.G*op.Calls {
			o = bad("C13:lock-lost", "sink saw %d calls, want %d", total, op.G*op.Calls)
		}
		return Result{Impl: map[string]any{"overlap": s.overlap.Load(), "calls": total}, Oracle: o, Nontrivial: true, Shape: "lockconc"}
	}
	panic("unknown op kind " + op.K)
}

func errIndices(err error) []int {
	idx := []int{}
	for _, e := range multierr.Errors(err) {
		var i int
		if _, serr := fmt.Sscanf(e.Error(), "sink %d", &i); serr == nil {
			idx = append(idx, i)
		} else {
			idx = append(idx, -1)
		}
	}
	return idx
}

func trunc(p []byte) []byte {
	if len(p) > 40 {
		return append(append([]byte(nil), p[:40]...), "…"...)
	}
	return p
}
