package main

import (
	"fmt"

	"go.uber.org/zap"
	"go.uber.org/zap/zapcore"
)

// C13 op "nest": multi-WriteSyncers built FROM multi-WriteSyncers and from caller slices that are reused — every combination
// delivers the bytes to exactly its own members (each once), whatever else was built from the same base or slice:
//   {"k":"nest","n":base size 1..5,"e":spare capacity of the caller's slice 0..4,"g":number of extensions 2..3,"ws":via CombineWriteSyncers}
// Oracle only (the delivery rule itself is C13's multi_same_bytes_all).

type c13Tally struct {
	id     int
	writes int
	syncs  int
}

func (t *c13Tally) Write(p []byte) (int, error) { t.writes++; return len(p), nil }
func (t *c13Tally) Sync() error                 { t.syncs++; return nil }

func c13GenNest(emit func(op any)) {
	for n := 1; n <= 5; n++ {
		for spare := 0; spare <= 4; spare += 2 {
			for g := 2; g <= 3; g++ {
				for _, via := range []bool{false, true} {
					emit(c13Op{K: "nest", N: n, E: spare, G: g, WS: via})
				}
			}
		}
	}
}

func c13ExecNest(op *c13Op) Result {
	mk := func(ws ...zapcore.WriteSyncer) zapcore.WriteSyncer {
		if op.WS {
			return zap.CombineWriteSyncers(ws...)
		}
		return zapcore.NewMultiWriteSyncer(ws...)
	}
	id := 0
	newTally := func() *c13Tally { id++; return &c13Tally{id: id} }
	// the caller's slice, with spare capacity, reused for every combination
	slice := make([]zapcore.WriteSyncer, 0, op.N+op.E)
	var base []*c13Tally
	for i := 0; i < op.N; i++ {
		t := newTally()
		base = append(base, t)
		slice = append(slice, t)
	}
	shared := mk(slice...) // a combination others are built from
	type combo struct {
		ws      zapcore.WriteSyncer
		members []*c13Tally
		what    string
	}
	var combos []combo
	for j := 0; j < op.G; j++ {
		x := newTally()
		combos = append(combos, combo{mk(shared, x), append(append([]*c13Tally{}, base...), x), fmt.Sprintf("multi(shared, x%d)", j)})
	}
	// (the caller's slice itself is not touched again: NewMultiWriteSyncer may keep it)
	combos = append(combos, combo{shared, base, "shared"})
	all := []*c13Tally{}
	for _, c := range combos {
		all = append(all, c.members...)
	}
	o := ok()
	for ci, c := range combos { // used only after ALL of them were built
		before := map[*c13Tally][2]int{}
		for _, t := range all {
			before[t] = [2]int{t.writes, t.syncs}
		}
		n, err := c.ws.Write([]byte("line\n"))
		serr := c.ws.Sync()
		if n != 5 || err != nil || serr != nil {
			o = bad("C13:nest-result", "combination %d %s: Write = (%d, %v), Sync = %v", ci, c.what, n, err, serr)
		}
		member := map[*c13Tally]bool{}
		for _, t := range c.members {
			member[t] = true
		}
		seen := map[*c13Tally]bool{}
		for _, t := range all {
			if seen[t] {
				continue
			}
			seen[t] = true
			dw, ds := t.writes-before[t][0], t.syncs-before[t][1]
			want := 0
			if member[t] {
				want = 1
			}
			if dw != want || ds != want {
				o = bad("C13:nest-wrong-members", "combination %d %s (built with %d others from one base of %d sinks, caller slice with %d spare): sink #%d received %d writes and %d syncs, want %d of each",
					ci, c.what, len(combos)-1, op.N, op.E, t.id, dw, ds, want)
			}
		}
	}
	return Result{Impl: map[string]any{"nomodel": true}, Oracle: o, NoModel: true, Nontrivial: op.E > 0 || op.G > 2,
		Shape: fmt.Sprintf("nest/n%d/spare%d/g%d/via%v", op.N, op.E, op.G, op.WS)}
}
