package main

import (
	"encoding/json"
	"errors"
	"fmt"
	"io"
	"math"
	"reflect"
	"runtime"
	"sort"
	"strconv"
	"strings"
	"sync"
	"time"

	"go.uber.org/zap"
	"go.uber.org/zap/zapcore"
	"go.uber.org/zap/zapgrpc"
	"go.uber.org/zap/zaptest/observer"
)

// C14 — SugaredLogger never drops or misattributes loosely-typed arguments.
//
// ops (keys, tokens, messages are hex)
//   {"k":"sw","m":"With|WithLazy|Debugw|…|Fatalw|Logw","lvl":L,"min":M,"dev":b,"ctx":n,"msg":hex,"args":[ARG…]}
//        ARG = {"t":"f|e|s|i|z|v","vk":variant,"ty":field type name (t=f),"key":hex (t=f),"tok":hex}
//        → {"panic":b,"entries":[{"l":L,"m":hex,"f":[FIELD…]}],"child":[FIELD…]}
//        FIELD = [ty,keyhex,tokhex]  |  [ty,keyhex,[[pos,ktokhex,vtokhex]…]]  (the array of invalid pairs)
//   {"k":"swx","shapes":["FESNZV…",…]}   every shape through With, WithLazy and one *w method (rotating), Debug-enabled core
//        → {"r":["compact result",…]}
//   {"k":"msg","m":"Info|Infof|Infoln|Log|Logf|Logln|…","lvl":L,"min":M,"dev":b,"tpl":hex,"args":[ARG…],
//              "sprint":hex,"sprintf":hex,"sprintln":hex}   (fmt results computed by the generator with package fmt)
//        → {"panic":b,"entries":[…],"child":[]}

type c14Arg struct {
	T   string `json:"t"`
	VK  string `json:"vk"`
	Ty  string `json:"ty"`
	Key string `json:"key"`
	Tok string `json:"tok"`
}

type c14Op struct {
	K        string   `json:"k"`
	M        string   `json:"m"`
	Lvl      int      `json:"lvl"`
	Min      int      `json:"min"`
	Dev      bool     `json:"dev"`
	Ctx      int      `json:"ctx"`
	Msg      string   `json:"msg"`
	Tpl      string   `json:"tpl"`
	Args     []c14Arg `json:"args"`
	Shapes   []string `json:"shapes"`
	Sprint   string   `json:"sprint"`
	Sprintf  string   `json:"sprintf"`
	Sprintln string   `json:"sprintln"`
}

func init() {
	props["C14"] = &Prop{Gen: c14Gen, Exec: c14Exec}
}

// ---- value vocabulary

type c14Err struct{ msg string }

func (e c14Err) Error() string { return e.msg }

// errors on which fmt.Sprint and a direct Error() call differ: a fmt.Formatter, and an Error method that panics
// (fmt contains the panic; a shortcut around fmt would not)
type c14ErrFmt struct{ msg string }

func (e c14ErrFmt) Error() string { return e.msg }
func (e c14ErrFmt) Format(f fmt.State, c rune) {
	_, _ = io.WriteString(f, "E042: "+e.msg)
}

type c14ErrPanic struct{ msg string }

func (e c14ErrPanic) Error() string { panic("boom " + e.msg) }

type c14PErr struct{ msg string }

func (e *c14PErr) Error() string {
	if e == nil {
		return "tnil"
	}
	return e.msg
}

// values that implement error AND another interface zap.Any knows: Any must test the marshalers before error, and
// error before fmt.Stringer. Their Error() text carries the marker the model keys on ("EO:", "EA:", "ES:").
type c14ErrObj struct{ msg string }

func (e c14ErrObj) Error() string { return e.msg }
func (e c14ErrObj) MarshalLogObject(enc zapcore.ObjectEncoder) error {
	enc.AddString("id", e.msg)
	return nil
}

type c14ErrArr struct{ msg string }

func (e c14ErrArr) Error() string { return e.msg }
func (e c14ErrArr) MarshalLogArray(enc zapcore.ArrayEncoder) error {
	enc.AppendString(e.msg)
	return nil
}

type c14ErrStr struct{ msg string }

func (e c14ErrStr) Error() string  { return e.msg }
func (e c14ErrStr) String() string { return "stringer:" + e.msg }

type c14Struct struct{ ID int }

type c14Stringer struct{ ID int }

func (s c14Stringer) String() string { return strconv.Itoa(s.ID) }

type c14Obj struct{ ID int }

func (o c14Obj) MarshalLogObject(enc zapcore.ObjectEncoder) error {
	enc.AddInt("id", o.ID)
	return nil
}

var c14TypeNames = map[zapcore.FieldType]string{
	zapcore.UnknownType: "Unknown", zapcore.ArrayMarshalerType: "ArrayMarshaler", zapcore.ObjectMarshalerType: "ObjectMarshaler",
	zapcore.BinaryType: "Binary", zapcore.BoolType: "Bool", zapcore.ByteStringType: "ByteString",
	zapcore.Complex128Type: "Complex128", zapcore.Complex64Type: "Complex64", zapcore.DurationType: "Duration",
	zapcore.Float64Type: "Float64", zapcore.Float32Type: "Float32", zapcore.Int64Type: "Int64", zapcore.Int32Type: "Int32",
	zapcore.Int16Type: "Int16", zapcore.Int8Type: "Int8", zapcore.StringType: "String", zapcore.TimeType: "Time",
	zapcore.TimeFullType: "TimeFull", zapcore.Uint64Type: "Uint64", zapcore.Uint32Type: "Uint32", zapcore.Uint16Type: "Uint16",
	zapcore.Uint8Type: "Uint8", zapcore.UintptrType: "Uintptr", zapcore.ReflectType: "Reflect",
	zapcore.NamespaceType: "Namespace", zapcore.StringerType: "Stringer", zapcore.ErrorType: "Error", zapcore.SkipType: "Skip",
	zapcore.InlineMarshalerType: "InlineMarshaler",
}

func c14TypeName(t zapcore.FieldType) string {
	if n, ok := c14TypeNames[t]; ok {
		return n
	}
	return fmt.Sprintf("Type%d", t)
}

func c14Atoi(s string) int {
	n, err := strconv.Atoi(s)
	if err != nil {
		panic("c14: bad numeric token " + s)
	}
	return n
}

// c14Build turns an argument spec into the Go value handed to zap.
func c14Build(a c14Arg) any {
	tok := string(unhx(a.Tok))
	switch a.T {
	case "f":
		key := string(unhx(a.Key))
		switch a.VK {
		case "int":
			return zap.Int(key, c14Atoi(tok))
		case "str":
			return zap.String(key, tok)
		case "bool":
			return zap.Bool(key, tok == "1")
		case "skip":
			return zap.Skip()
		case "ns":
			return zap.Namespace(key)
		case "err":
			return zap.NamedError(key, c14Err{tok})
		case "zero":
			return zap.Field{}
		}
	case "e":
		switch a.VK {
		case "tnil":
			return (*c14PErr)(nil)
		case "perr":
			return &c14PErr{tok}
		case "errobj":
			return c14ErrObj{tok}
		case "errarr":
			return c14ErrArr{tok}
		case "errstr":
			return c14ErrStr{tok}
		case "errfmt":
			return c14ErrFmt{tok}
		case "errpanic":
			return c14ErrPanic{tok}
		default:
			return c14Err{tok}
		}
	case "s":
		return tok
	case "i":
		return c14Atoi(tok)
	case "z":
		return nil
	case "v":
		switch a.VK {
		case "bool":
			return tok == "1"
		case "f64":
			f, err := strconv.ParseFloat(tok, 64)
			must(err)
			return f
		case "dur":
			return time.Duration(c14Atoi(tok))
		case "strs":
			return strings.Split(tok, ",")
		case "stringer":
			return c14Stringer{c14Atoi(tok)}
		case "obj":
			return c14Obj{c14Atoi(tok)}
		case "pint":
			n := c14Atoi(tok)
			return &n
		case "pnil":
			return (*int)(nil)
		case "bytes":
			return []byte(tok)
		case "time":
			return time.Unix(0, int64(c14Atoi(tok))).UTC()
		case "strukt":
			return c14Struct{c14Atoi(tok)}
		case "u8":
			return uint8(c14Atoi(tok))
		}
	}
	panic(fmt.Sprintf("c14: unknown arg spec %+v", a))
}

// c14TokOfValue: identity token of a Go value (as handed to zap, or as stored by the map encoder).
func c14TokOfValue(v any) string {
	switch x := v.(type) {
	case nil:
		return "nil"
	case string:
		return x
	case int:
		return strconv.Itoa(x)
	case int64:
		return strconv.FormatInt(x, 10)
	case uint8:
		return strconv.Itoa(int(x))
	case bool:
		if x {
			return "1"
		}
		return "0"
	case float64:
		return strconv.FormatFloat(x, 'g', -1, 64)
	case time.Duration:
		return strconv.FormatInt(int64(x), 10)
	case time.Time:
		return strconv.FormatInt(x.UnixNano(), 10)
	case []byte:
		return string(x)
	case c14Struct:
		return strconv.Itoa(x.ID)
	case c14Stringer:
		return strconv.Itoa(x.ID)
	case c14Obj:
		return strconv.Itoa(x.ID)
	case *int:
		if x == nil {
			return "nil"
		}
		return strconv.Itoa(*x)
	case error:
		return x.Error()
	case zap.Field:
		return c14TokOfField(x)
	case map[string]interface{}:
		if id, ok := x["id"]; ok {
			return c14TokOfValue(id)
		}
	case []interface{}:
		parts := make([]string, len(x))
		for i, e := range x {
			parts[i] = c14TokOfValue(e)
		}
		return strings.Join(parts, ",")
	}
	rv := reflect.ValueOf(v)
	if rv.Kind() == reflect.Ptr && rv.IsNil() {
		return "nil"
	}
	if rv.Kind() == reflect.Slice && rv.Type().Elem().Kind() == reflect.String {
		parts := make([]string, rv.Len())
		for i := range parts {
			parts[i] = rv.Index(i).String()
		}
		return strings.Join(parts, ",")
	}
	return fmt.Sprint(v)
}

// c14TokOfField: identity token of the payload a Field carries.
func c14TokOfField(f zap.Field) string {
	switch f.Type {
	case zapcore.StringType:
		return f.String
	case zapcore.Int64Type, zapcore.Int32Type, zapcore.Int16Type, zapcore.Int8Type, zapcore.DurationType, zapcore.BoolType,
		zapcore.Uint64Type, zapcore.Uint32Type, zapcore.Uint16Type, zapcore.Uint8Type, zapcore.UintptrType, zapcore.TimeType:
		return strconv.FormatInt(f.Integer, 10)
	case zapcore.Float64Type:
		return strconv.FormatFloat(math.Float64frombits(uint64(f.Integer)), 'g', -1, 64)
	case zapcore.SkipType, zapcore.NamespaceType, zapcore.UnknownType:
		return ""
	case zapcore.ArrayMarshalerType, zapcore.ObjectMarshalerType:
		enc := zapcore.NewMapObjectEncoder()
		f.AddTo(enc)
		return c14TokOfValue(enc.Fields[f.Key])
	}
	return c14TokOfValue(f.Interface)
}

// c14InvalidPairs recognises the array field that carries the invalid pairs: elements {position,key,value}.
func c14InvalidPairs(f zap.Field) ([][]any, bool) {
	if f.Type != zapcore.ArrayMarshalerType {
		return nil, false
	}
	enc := zapcore.NewMapObjectEncoder()
	f.AddTo(enc)
	els, ok := enc.Fields[f.Key].([]interface{})
	if !ok || len(els) == 0 {
		return nil, false
	}
	out := [][]any{}
	for _, e := range els {
		m, ok := e.(map[string]interface{})
		if !ok || len(m) != 3 {
			return nil, false
		}
		pos, ok1 := m["position"].(int64)
		k, ok2 := m["key"]
		v, ok3 := m["value"]
		if !ok1 || !ok2 || !ok3 {
			return nil, false
		}
		out = append(out, []any{int(pos), hx([]byte(c14TokOfValue(k))), hx([]byte(c14TokOfValue(v)))})
	}
	return out, true
}

func c14DescField(f zap.Field) []any {
	if ps, ok := c14InvalidPairs(f); ok {
		return []any{c14TypeName(f.Type), hx([]byte(f.Key)), ps}
	}
	return []any{c14TypeName(f.Type), hx([]byte(f.Key)), hx([]byte(c14TokOfField(f)))}
}

func c14DescFields(fs []zap.Field) []any {
	out := []any{}
	for _, f := range fs {
		out = append(out, c14DescField(f))
	}
	return out
}

// ---- running one call on the real zap

type c14Obs struct {
	panicked bool
	panicVal any
	entries  []observer.LoggedEntry
	child    []zap.Field // With / WithLazy: the context of the child logger
	isWith   bool
}

func c14CtxFields(n int) []zap.Field {
	fs := make([]zap.Field, n)
	for i := range fs {
		fs[i] = zap.Int(fmt.Sprintf("c%d", i), 900+i)
	}
	return fs
}

func c14Logger(min int, dev bool, nctx int) (*zap.SugaredLogger, *observer.ObservedLogs) {
	core, logs := observer.New(zap.LevelEnablerFunc(func(l zapcore.Level) bool { return int(l) >= min }))
	opts := []zap.Option{zap.WithFatalHook(zapcore.WriteThenPanic)}
	if dev {
		opts = append(opts, zap.Development())
	}
	base := zap.New(core, opts...)
	if nctx > 0 {
		base = base.With(c14CtxFields(nctx)...)
	}
	return base.Sugar(), logs
}

// c14GrpcAlias: the println-style methods of the zapgrpc front end format their arguments themselves (fmt.Sprintln minus the
// one newline Sprintln adds) and hand the text to the SugaredLogger: the message must be the one SugaredLogger.Xln logs
var c14GrpcAlias = map[string]string{"grpc.Infoln": "Infoln", "grpc.Warningln": "Warnln", "grpc.Errorln": "Errorln"}

func c14Call(s *zap.SugaredLogger, m string, lvl int, msg string, args []any) (child *zap.SugaredLogger) {
	l := zapcore.Level(lvl)
	switch m {
	case "grpc.Infoln":
		zapgrpc.NewLogger(s.Desugar()).Infoln(args...)
		return nil
	case "grpc.Warningln":
		zapgrpc.NewLogger(s.Desugar()).Warningln(args...)
		return nil
	case "grpc.Errorln":
		zapgrpc.NewLogger(s.Desugar()).Errorln(args...)
		return nil
	}
	switch m {
	case "With":
		return s.With(args...)
	case "WithLazy":
		return s.WithLazy(args...)
	case "Debugw":
		s.Debugw(msg, args...)
	case "Infow":
		s.Infow(msg, args...)
	case "Warnw":
		s.Warnw(msg, args...)
	case "Errorw":
		s.Errorw(msg, args...)
	case "DPanicw":
		s.DPanicw(msg, args...)
	case "Panicw":
		s.Panicw(msg, args...)
	case "Fatalw":
		s.Fatalw(msg, args...)
	case "Logw":
		s.Logw(l, msg, args...)
	case "Debug":
		s.Debug(args...)
	case "Info":
		s.Info(args...)
	case "Warn":
		s.Warn(args...)
	case "Error":
		s.Error(args...)
	case "DPanic":
		s.DPanic(args...)
	case "Panic":
		s.Panic(args...)
	case "Fatal":
		s.Fatal(args...)
	case "Log":
		s.Log(l, args...)
	case "Debugf":
		s.Debugf(msg, args...)
	case "Infof":
		s.Infof(msg, args...)
	case "Warnf":
		s.Warnf(msg, args...)
	case "Errorf":
		s.Errorf(msg, args...)
	case "DPanicf":
		s.DPanicf(msg, args...)
	case "Panicf":
		s.Panicf(msg, args...)
	case "Fatalf":
		s.Fatalf(msg, args...)
	case "Logf":
		s.Logf(l, msg, args...)
	case "Debugln":
		s.Debugln(args...)
	case "Infoln":
		s.Infoln(args...)
	case "Warnln":
		s.Warnln(args...)
	case "Errorln":
		s.Errorln(args...)
	case "DPanicln":
		s.DPanicln(args...)
	case "Panicln":
		s.Panicln(args...)
	case "Fatalln":
		s.Fatalln(args...)
	case "Logln":
		s.Logln(l, args...)
	default:
		panic("c14: unknown method " + m)
	}
	return nil
}

var c14NamedLevel = map[string]int{"Debug": -1, "Info": 0, "Warn": 1, "Error": 2, "DPanic": 3, "Panic": 4, "Fatal": 5}

// c14MethodLevel: the level a method logs at (lvl for the Log* family).
func c14MethodLevel(m string, lvl int) int {
	if a, ok := c14GrpcAlias[m]; ok {
		m = a
	}
	for _, suf := range []string{"", "ln", "w", "f"} {
		if strings.HasSuffix(m, suf) {
			if l, ok := c14NamedLevel[strings.TrimSuffix(m, suf)]; ok {
				return l
			}
		}
	}
	return lvl
}

const c14ProbeLevel = 100

func c14Observe(m string, lvl, min int, dev bool, nctx int, msg string, args []any) c14Obs {
	s, logs := c14Logger(min, dev, nctx)
	var o c14Obs
	o.isWith = m == "With" || m == "WithLazy"
	func() {
		defer func() {
			if e := recover(); e != nil {
				o.panicked, o.panicVal = true, e
			}
		}()
		child := c14Call(s, m, lvl, msg, args)
		if child != nil {
			// reads the child's context: one entry straight through the child's core (Check, so that a lazy core
			// materialises its fields), at a level every generated core enables
			ent := zapcore.Entry{Level: zapcore.Level(c14ProbeLevel), Message: "probe"}
			if ce := child.Desugar().Core().Check(ent, nil); ce != nil {
				ce.Write()
			}
		}
	}()
	all := logs.All()
	if o.isWith && !o.panicked && len(all) > 0 && all[len(all)-1].Message == "probe" {
		o.child = all[len(all)-1].Context
		all = all[:len(all)-1]
	}
	o.entries = all
	return o
}

func c14Impl(o c14Obs) map[string]any {
	ents := []any{}
	for _, e := range o.entries {
		ents = append(ents, map[string]any{"l": int(e.Level), "m": hx([]byte(e.Message)), "f": c14DescFields(e.Context)})
	}
	return map[string]any{"panic": o.panicked, "entries": ents, "child": c14DescFields(o.child)}
}

// ---- the oracle: an independent reading of the property

type c14Bad struct {
	kind string // "dangling" | "invalid" | "multierr"
	pos  int
	vals []any
}

// c14Spec partitions the argument list the way the property describes it.
func c14Spec(args []any) (fields []zap.Field, bad []c14Bad) {
	haveErr := false
	rest := args
	pos := 0
	for len(rest) > 0 {
		head := rest[0]
		if f, isField := head.(zap.Field); isField {
			fields = append(fields, f)
			rest, pos = rest[1:], pos+1
			continue
		}
		if e, isErr := head.(error); isErr {
			if haveErr {
				bad = append(bad, c14Bad{"multierr", pos, []any{e}})
			} else {
				haveErr = true
				fields = append(fields, zap.Error(e))
			}
			rest, pos = rest[1:], pos+1
			continue
		}
		if len(rest) == 1 {
			bad = append(bad, c14Bad{"dangling", pos, []any{head}})
			break
		}
		if k, isStr := head.(string); isStr {
			fields = append(fields, zap.Any(k, rest[1]))
		} else {
			bad = append(bad, c14Bad{"invalid", pos, []any{head, rest[1]}})
		}
		rest, pos = rest[2:], pos+2
	}
	return fields, bad
}

// c14Leaves flattens the encoded form of fields into identity tokens (and numbers).
func c14Leaves(fs []zap.Field) (leaves map[string]bool, pairs [][3]string) {
	leaves = map[string]bool{}
	var walk func(v any)
	walk = func(v any) {
		switch x := v.(type) {
		case map[string]interface{}:
			if p, ok := x["position"]; ok && len(x) == 3 {
				pairs = append(pairs, [3]string{c14TokOfValue(p), c14TokOfValue(x["key"]), c14TokOfValue(x["value"])})
			}
			keys := make([]string, 0, len(x))
			for k := range x {
				keys = append(keys, k)
			}
			sort.Strings(keys)
			for _, k := range keys {
				walk(x[k])
			}
		case []interface{}:
			for _, e := range x {
				walk(e)
			}
		}
		leaves[c14TokOfValue(v)] = true
	}
	for _, f := range fs {
		if f.Type == zapcore.UnknownType {
			continue
		}
		enc := zapcore.NewMapObjectEncoder()
		func() {
			defer func() { _ = recover() }()
			f.AddTo(enc)
		}()
		for _, v := range enc.Fields {
			walk(v)
		}
		leaves[c14TokOfField(f)] = true
	}
	return leaves, pairs
}

func c14FieldsEqual(got, want []zap.Field) (int, bool) {
	if len(got) != len(want) {
		n := len(got)
		if len(want) < n {
			n = len(want)
		}
		for i := 0; i < n; i++ {
			if !got[i].Equals(want[i]) {
				return i, false
			}
		}
		return n, false
	}
	for i := range got {
		if !got[i].Equals(want[i]) {
			return i, false
		}
	}
	return 0, true
}

// c14Judge checks one observed call against the property. family: "with" | "w" | "fmt".
func c14Judge(o c14Obs, m string, lvl, min int, dev bool, nctx int, msg string, args []any, wantMsg string, family string) Oracle {
	mlvl := c14MethodLevel(m, lvl)
	terminal := mlvl == 4 || mlvl == 5 || (mlvl == 3 && dev)
	if family == "with" {
		terminal = false
	}
	if o.panicked && !terminal {
		return bad("C14:panic", "%s(%v) panicked: %v", m, args, o.panicVal)
	}
	if !o.panicked && terminal {
		return bad("C14:no-terminate", "%s at level %d returned normally", m, mlvl)
	}
	ctx := c14CtxFields(nctx)
	var ctxArgs []any
	if family != "fmt" {
		ctxArgs = args
	}
	wantFields, wantBad := c14Spec(ctxArgs)
	wantAll := append(append([]zap.Field{}, ctx...), wantFields...)
	errorOn := 2 >= min
	methodOn := mlvl >= min

	// the entry carrying the well-formed arguments
	diag := o.entries
	switch family {
	case "with":
		if o.child == nil && len(wantAll) > 0 {
			return bad("C14:main-missing", "%s: could not read the child's context", m)
		}
		if i, eq := c14FieldsEqual(o.child, wantAll); !eq {
			return bad("C14:field-mismatch", "%s(%v): child context differs from the well-formed arguments at field %d: got %v want %v", m, args, i, o.child, wantAll)
		}
	default:
		if methodOn {
			if len(o.entries) == 0 {
				return bad("C14:main-missing", "%s(%v) at enabled level %d recorded nothing", m, args, mlvl)
			}
			main := o.entries[len(o.entries)-1]
			diag = o.entries[:len(o.entries)-1]
			if int(main.Level) != mlvl {
				return bad("C14:main-missing", "%s: last entry has level %d, want %d (entries %d)", m, main.Level, mlvl, len(o.entries))
			}
			if main.Message != wantMsg {
				return bad("C14:message", "%s: message %q, want %q", m, main.Message, wantMsg)
			}
			if i, eq := c14FieldsEqual(main.Context, wantAll); !eq {
				return bad("C14:field-mismatch", "%s(%v): entry fields differ from the well-formed arguments at field %d: got %v want %v", m, args, i, main.Context, wantAll)
			}
		}
	}
	// diagnostics: separate error-level entries identifying every ill-formed argument
	for _, d := range diag {
		if d.Level != zapcore.ErrorLevel {
			return bad("C14:diag-level", "%s(%v): extra entry %q at level %d (diagnostics are error-level entries)", m, args, d.Message, d.Level)
		}
	}
	if len(wantBad) == 0 && len(diag) > 0 {
		return bad("C14:diag-extra", "%s(%v): well-formed arguments but %d extra entries, first %q", m, args, len(diag), diag[0].Message)
	}
	if len(diag) > len(wantBad) {
		return bad("C14:diag-extra", "%s(%v): %d ill-formed items but %d diagnostic entries", m, args, len(wantBad), len(diag))
	}
	needDiag := errorOn && (family == "with" || methodOn)
	if needDiag {
		type flat struct {
			leaves map[string]bool
			pairs  [][3]string
		}
		fl := make([]flat, len(diag))
		for i, d := range diag {
			own := d.Context
			if len(own) >= len(ctx) {
				own = own[len(ctx):]
			}
			l, p := c14Leaves(own)
			fl[i] = flat{l, p}
		}
		for _, b := range wantBad {
			found := false
			for _, f := range fl {
				switch b.kind {
				case "invalid":
					for _, p := range f.pairs {
						if p[0] == strconv.Itoa(b.pos) && p[1] == c14TokOfValue(b.vals[0]) && p[2] == c14TokOfValue(b.vals[1]) {
							found = true
						}
					}
				default:
					if f.leaves[c14TokOfValue(b.vals[0])] {
						found = true
					}
				}
			}
			if !found {
				return bad("C14:diag-missing:"+b.kind, "%s(%v): %s argument at position %d (%v) is not identified by any error-level entry (%d diagnostic entries)",
					m, args, b.kind, b.pos, b.vals, len(diag))
			}
		}
	}
	return ok()
}

// ---- compact rendering for the exhaustive batches

func c14CompactFields(fs []zap.Field) string {
	parts := make([]string, len(fs))
	for i, f := range fs {
		if ps, ok := c14InvalidPairs(f); ok {
			el := make([]string, len(ps))
			for j, p := range ps {
				el[j] = fmt.Sprintf("%d:%s:%s", p[0], unhx(p[1].(string)), unhx(p[2].(string)))
			}
			parts[i] = c14TypeName(f.Type) + ":" + f.Key + "=[" + strings.Join(el, " ") + "]"
		} else {
			parts[i] = c14TypeName(f.Type) + ":" + f.Key + "=" + c14TokOfField(f)
		}
	}
	return strings.Join(parts, ",")
}

var c14MsgClass = map[string]string{
	"Multiple errors without a key.":                "M",
	"Ignored key without a value.":                  "D",
	"Ignored key-value pairs with non-string keys.": "I",
}

func c14Compact(fields []zap.Field, diags []observer.LoggedEntry) string {
	ds := make([]string, len(diags))
	for i, d := range diags {
		c, ok := c14MsgClass[d.Message]
		if !ok {
			c = "?" + hx([]byte(d.Message))
		}
		ds[i] = fmt.Sprintf("%s%d(%s)", c, d.Level, c14CompactFields(d.Context))
	}
	return c14CompactFields(fields) + "|" + strings.Join(ds, ";")
}

var c14WMethods = []string{"Debugw", "Infow", "Warnw", "Errorw", "DPanicw", "Panicw", "Fatalw", "Logw"}

func c14ShapeArgs(shape string) []any {
	args := make([]any, len(shape))
	for i, c := range shape {
		switch c {
		case 'F':
			args[i] = zap.Int(fmt.Sprintf("f%d", i), 300+i)
		case 'E':
			args[i] = c14Err{fmt.Sprintf("e%d", i)}
		case 'S':
			args[i] = fmt.Sprintf("k%d", i)
		case 'N':
			args[i] = 100 + i
		case 'Z':
			args[i] = nil
		case 'V':
			args[i] = c14Struct{200 + i}
		default:
			panic("c14: bad shape letter")
		}
	}
	return args
}

func c14ShapeOne(shape string, idx int) (string, Oracle) {
	args := c14ShapeArgs(shape)
	wm := c14WMethods[(idx+len(shape))%len(c14WMethods)]
	lvl := []int{-1, 0, 1, 2, 3, 6, 7, -1}[idx%8]
	ow := c14Observe("With", 0, -128, false, 0, "", args)
	ol := c14Observe("WithLazy", 0, -128, false, 0, "", args)
	ox := c14Observe(wm, lvl, -128, false, 0, "m", args)
	var worst Oracle = ok()
	for _, j := range []struct {
		o   c14Obs
		m   string
		fam string
	}{{ow, "With", "with"}, {ol, "WithLazy", "with"}, {ox, wm, "w"}} {
		if v := c14Judge(j.o, j.m, lvl, -128, false, 0, "m", args, "m", j.fam); !v.OK && worst.OK {
			worst = v
			worst.Detail = "shape " + shape + ": " + worst.Detail
		}
	}
	cw := c14Compact(ow.child, ow.entries)
	cl := c14Compact(ol.child, ol.entries)
	var cx string
	if n := len(ox.entries); n > 0 {
		cx = c14Compact(ox.entries[n-1].Context, ox.entries[:n-1])
	} else {
		cx = "<no entry>"
	}
	if cw == cl && cw == cx {
		return cw, worst
	}
	if worst.OK {
		worst = bad("C14:method-disagree", "shape %s: With, WithLazy and %s treat the same arguments differently", shape, wm)
	}
	return "With=" + cw + " # WithLazy=" + cl + " # " + wm + "=" + cx, worst
}

// ---- exec

func c14Exec(raw json.RawMessage) Result {
	var op c14Op
	unmarshal(raw, &op)
	switch op.K {
	case "sw":
		args := make([]any, len(op.Args))
		for i, a := range op.Args {
			args[i] = c14Build(a)
		}
		msg := string(unhx(op.Msg))
		o := c14Observe(op.M, op.Lvl, op.Min, op.Dev, op.Ctx, msg, args)
		fam := "w"
		if o.isWith {
			fam = "with"
		}
		v := c14Judge(o, op.M, op.Lvl, op.Min, op.Dev, op.Ctx, msg, args, msg, fam)
		_, wb := c14Spec(args)
		kinds := map[string]int{}
		for _, b := range wb {
			kinds[b.kind]++
		}
		mix := map[string]bool{}
		for _, a := range op.Args {
			mix[a.T] = true
		}
		return Result{Impl: c14Impl(o), Oracle: v, Nontrivial: len(args) >= 2 && len(mix) >= 2,
			Shape: fmt.Sprintf("sw/%s/n%d/d%d-i%d-m%d", fam, bucket(len(args)), kinds["dangling"], minInt(kinds["invalid"], 2), minInt(kinds["multierr"], 2))}
	case "swx":
		res := make([]string, len(op.Shapes))
		verd := make([]Oracle, len(op.Shapes))
		var wg sync.WaitGroup
		nw := runtime.NumCPU()
		if nw > 8 {
			nw = 8
		}
		for w := 0; w < nw; w++ {
			wg.Add(1)
			go func(w int) {
				defer wg.Done()
				for i := w; i < len(op.Shapes); i += nw {
					func() {
						defer func() {
							if e := recover(); e != nil {
								res[i] = fmt.Sprintf("<panic %v>", e)
								verd[i] = bad("C14:panic", "shape %s: panic %v", op.Shapes[i], e)
							}
						}()
						res[i], verd[i] = c14ShapeOne(op.Shapes[i], i)
					}()
				}
			}(w)
		}
		wg.Wait()
		v := ok()
		for _, x := range verd {
			if !x.OK {
				v = x
				break
			}
		}
		maxLen := 0
		for _, s := range op.Shapes {
			if len(s) > maxLen {
				maxLen = len(s)
			}
		}
		return Result{Impl: map[string]any{"r": res}, Oracle: v, Nontrivial: maxLen >= 2, Shape: fmt.Sprintf("swx/len%d", maxLen)}
	case "msg":
		args := make([]any, len(op.Args))
		for i, a := range op.Args {
			args[i] = c14Build(a)
		}
		tpl := string(unhx(op.Tpl))
		o := c14Observe(op.M, op.Lvl, op.Min, op.Dev, op.Ctx, tpl, args)
		// what the property says the message is — computed here with package fmt, independently of zap
		var want, fam string
		switch {
		case strings.HasSuffix(op.M, "ln"):
			s := fmt.Sprintln(args...)
			want, fam = strings.TrimSuffix(s, "\n"), "ln"
		case strings.HasSuffix(op.M, "f"):
			fam = "f"
			switch {
			case len(args) == 0:
				want = tpl // the template verbatim
			case tpl == "":
				// zap's documented fallback ("if the user fails to pass a template, degrade to fmt.Sprint"), pinned by
				// TestSugarTemplatedLogging; accepted (see lib/props/C14.py)
				want = fmt.Sprint(args...)
			default:
				want = fmt.Sprintf(tpl, args...)
			}
		default:
			want, fam = fmt.Sprint(args...), "print"
		}
		v := c14Judge(o, op.M, op.Lvl, op.Min, op.Dev, op.Ctx, tpl, args, want, "fmt")
		if v.OK && (hx([]byte(fmt.Sprint(args...))) != op.Sprint || hx([]byte(fmt.Sprintf(tpl, args...))) != op.Sprintf ||
			hx([]byte(fmt.Sprintln(args...))) != op.Sprintln) {
			v = bad("harness-fmt-unstable", "fmt results differ between generation and execution for %v", args)
		}
		return Result{Impl: c14Impl(o), Oracle: v, Nontrivial: len(args) >= 1,
			Shape: fmt.Sprintf("msg/%s/tpl=%v/n%d", fam, tpl != "", bucket(len(args)))}
	}
	panic("unknown op kind " + op.K)
}

func minInt(a, b int) int {
	if a < b {
		return a
	}
	return b
}

// ---- generation

func c14H(s string) string { return hx([]byte(s)) }

var c14HostileKeys = []string{"", "error", "ignored", "invalid", "k", "k", "\xff\xfe", "a\nb", "position", "café", "\x00", "x\n", " ", "\n", "t \t"}

func c14GenArg(r *Rand, id int, hostile bool, forFmt bool) c14Arg {
	n := strconv.Itoa(id)
	kind := r.Intn(100)
	switch {
	case kind < 30: // string
		s := "k" + n
		if hostile && r.Chance(1, 2) {
			s = Pick(r, c14HostileKeys)
		}
		return c14Arg{T: "s", Tok: c14H(s)}
	case kind < 42:
		return c14Arg{T: "i", Tok: c14H(strconv.Itoa(1000 + id))}
	case kind < 50:
		return c14Arg{T: "z", Tok: c14H("nil")}
	case kind < 62:
		vk := ""
		tok := "e" + n
		if hostile {
			switch r.Intn(3) {
			case 0:
				vk, tok = "tnil", "tnil"
			case 1:
				vk = "perr"
			}
		}
		return c14Arg{T: "e", VK: vk, Tok: c14H(tok)}
	case kind < 80:
		fk := Pick(r, []string{"int", "int", "str", "bool", "err", "ns", "skip"})
		if hostile && r.Chance(1, 4) {
			fk = "zero"
		}
		a := c14Arg{T: "f", VK: fk, Key: c14H("f" + n)}
		if hostile && r.Chance(1, 3) {
			a.Key = c14H(Pick(r, c14HostileKeys))
		}
		switch fk {
		case "int":
			a.Ty, a.Tok = "Int64", c14H(strconv.Itoa(3000+id))
		case "str":
			a.Ty, a.Tok = "String", c14H("fs"+n)
		case "bool":
			a.Ty, a.Tok = "Bool", c14H("1")
		case "err":
			a.Ty, a.Tok = "Error", c14H("fe"+n)
		case "ns":
			a.Ty, a.Tok = "Namespace", ""
		case "skip":
			a.Ty, a.Key, a.Tok = "Skip", "", ""
		case "zero":
			a.Ty, a.Key, a.Tok = "Unknown", "", ""
		}
		return a
	default:
		vks := []string{"bool", "f64", "dur", "strs", "stringer", "obj", "pint", "pnil", "bytes", "time", "strukt", "strukt", "u8"}
		vk := Pick(r, vks)
		for forFmt && vk == "pint" { // fmt prints a pointer's address: not reproducible
			vk = Pick(r, vks)
		}
		a := c14Arg{T: "v", VK: vk}
		switch vk {
		case "bool":
			a.Tok = c14H(Pick(r, []string{"0", "1"}))
		case "f64":
			a.Tok = c14H(Pick(r, []string{"1.5", "-0.25", "1e+100", "NaN", "+Inf"}))
		case "dur", "stringer", "obj", "pint", "strukt":
			a.Tok = c14H(strconv.Itoa(2000 + id))
		case "strs":
			a.Tok = c14H("x" + n + ",y" + n)
		case "pnil":
			a.Tok = c14H("nil")
		case "bytes":
			a.Tok = c14H("b" + n)
		case "time":
			a.Tok = c14H(strconv.Itoa(1700000000000000000 + id))
		case "u8":
			a.Tok = c14H(strconv.Itoa(id % 256))
		}
		return a
	}
}

// c14GenArgs: structured (mostly well-formed pairs with typed fields and an error sprinkled in) or hostile (any order).
func c14GenArgs(r *Rand, maxLen int, hostile, forFmt bool) []c14Arg {
	n := r.Intn(maxLen + 1)
	args := []c14Arg{}
	for len(args) < n {
		id := len(args)
		if hostile || r.Chance(1, 5) {
			args = append(args, c14GenArg(r, id, hostile, forFmt))
			continue
		}
		switch r.Intn(10) {
		case 0:
			a := c14GenArg(r, id, false, forFmt)
			for a.T != "f" {
				a = c14GenArg(r, id, false, forFmt)
			}
			args = append(args, a)
		case 1:
			args = append(args, c14Arg{T: "e", Tok: c14H("e" + strconv.Itoa(id))})
		default:
			args = append(args, c14Arg{T: "s", Tok: c14H("k" + strconv.Itoa(id))})
			if len(args) < n {
				v := c14GenArg(r, id+1, false, forFmt)
				if r.Chance(1, 5) { // an error that is also a marshaler / a Stringer, as a pair value
					kind := Pick(r, []string{"errobj", "errarr", "errstr"})
					mark := map[string]string{"errobj": "EO:", "errarr": "EA:", "errstr": "ES:"}[kind]
					v = c14Arg{T: "e", VK: kind, Tok: c14H(mark + strconv.Itoa(id+1))}
				}
				args = append(args, v)
			}
		}
	}
	return args
}

func c14EmitShapes(emit func(op any), maxLen, batch int) {
	letters := "FESNZV"
	var cur []string
	flush := func() {
		if len(cur) > 0 {
			emit(map[string]any{"k": "swx", "shapes": cur})
			cur = nil
		}
	}
	for n := 0; n <= maxLen; n++ {
		total := 1
		for i := 0; i < n; i++ {
			total *= len(letters)
		}
		for code := 0; code < total; code++ {
			b := make([]byte, n)
			c := code
			for i := range b {
				b[i] = letters[c%len(letters)]
				c /= len(letters)
			}
			cur = append(cur, string(b))
			if len(cur) == batch || n <= 3 { // short shapes one per op: a failing one is then its own minimal replay
				flush()
			}
		}
		flush()
	}
}

func c14Gen(r *Rand, tier string, emit func(op any)) {
	nSw, nMsg, exLen, maxLen := 3000, 1200, 5, 12
	if tier == "thorough" {
		nSw, nMsg, exLen = 40000, 20000, 8
	}
	c14EmitShapes(emit, exLen, 2048)
	swMethods := []string{"With", "WithLazy", "Debugw", "Infow", "Warnw", "Errorw", "DPanicw", "Panicw", "Fatalw", "Logw"}
	mins := []int{-1, -1, -1, -1, 0, 1, 2, 2, 3, 4, 5, 6, -128}
	lvls := []int{-1, 0, 1, 2, 3, 4, 5, -2, 6, 7, -128, 127}
	for i := 0; i < nSw; i++ {
		hostile := i%4 == 3
		op := c14Op{K: "sw", M: swMethods[i%len(swMethods)], Lvl: Pick(r, lvls), Min: Pick(r, mins), Dev: r.Chance(1, 4),
			Ctx: Pick(r, []int{0, 0, 1, 3}), Msg: c14H(Pick(r, []string{"m", "", "msg with spaces", "\xff"})),
			Args: c14GenArgs(r, maxLen, hostile, false)}
		if i%len(swMethods) == 9 && (op.Lvl == 4 || op.Lvl == 5) && r.Bool() {
			op.Lvl = 2
		}
		emit(op)
	}
	templates := []string{"", "", "%d %s", "100%", "%v%v", "%", "no verbs", "%[2]v %[1]v", "%!", "%s", "%d", "%+v|%#v", "%5.2f", "\xff%v", "%%", "%v %v %v %v"}
	bases := []string{"Debug", "Info", "Warn", "Error", "DPanic", "Panic", "Fatal", "Log"}
	emitMsg := func(m string, tpl string, args []c14Arg) {
		vals := make([]any, len(args))
		for j, a := range args {
			vals[j] = c14Build(a)
		}
		op := c14Op{K: "msg", M: m, Lvl: Pick(r, lvls), Min: Pick(r, mins), Dev: r.Chance(1, 4), Ctx: Pick(r, []int{0, 0, 2}),
			Tpl: c14H(tpl), Args: args, Sprint: c14H(fmt.Sprint(vals...)), Sprintf: c14H(fmt.Sprintf(tpl, vals...)),
			Sprintln: c14H(fmt.Sprintln(vals...))}
		if strings.HasPrefix(m, "Log") && (op.Lvl == 4 || op.Lvl == 5) && r.Bool() {
			op.Lvl = 0
		}
		emit(op)
	}
	// boundary grid: argument lists on which Sprint / Sprintln / the single-string shortcut / trailing newlines differ
	sArg := func(x string) c14Arg { return c14Arg{T: "s", Tok: c14H(x)} }
	iArg := func(n int) c14Arg { return c14Arg{T: "i", Tok: c14H(strconv.Itoa(n))} }
	special := [][]c14Arg{{}, {sArg("")}, {sArg("\n")}, {sArg("x\n")}, {sArg("x\n\n")}, {sArg("x ")}, {sArg("a"), sArg("b")}, {iArg(1), iArg(2)},
		{sArg("a"), iArg(1)}, {iArg(1), sArg("a")}, {{T: "z", Tok: c14H("nil")}}, {sArg("%d")}, {iArg(7), sArg("\n")},
		{{T: "e", Tok: c14H("boom\n")}}, {sArg(""), sArg("")},
		// a lone error of every kind (the message is what fmt makes of it, not what Error() returns)
		{{T: "e", Tok: c14H("plain")}}, {{T: "e", VK: "tnil", Tok: c14H("x")}}, {{T: "e", VK: "perr", Tok: c14H("p")}},
		{{T: "e", VK: "errstr", Tok: c14H("ES:s")}}, {{T: "e", VK: "errfmt", Tok: c14H("formatted")}},
		{{T: "e", VK: "errpanic", Tok: c14H("err")}}, {{T: "e", VK: "errfmt", Tok: c14H("f")}, sArg("tail")},
		{sArg("head"), {T: "e", VK: "errpanic", Tok: c14H("q")}}}
	gi := 0
	for i, args := range special {
		emitMsg([]string{"grpc.Infoln", "grpc.Warningln", "grpc.Errorln"}[i%3], "", args)
	}
	for _, args := range special {
		for _, fam := range []string{"", "ln", "f"} {
			tpls := []string{""}
			if fam == "f" {
				tpls = templates
			}
			for _, tpl := range tpls {
				emitMsg(bases[gi%len(bases)]+fam, tpl, args)
				gi++
			}
		}
	}
	for i := 0; i < nMsg; i++ {
		m := bases[i%len(bases)] + []string{"", "f", "ln"}[(i/len(bases))%3]
		args := c14GenArgs(r, 5, i%3 == 2, true)
		if r.Chance(1, 6) {
			args = []c14Arg{{T: "s", Tok: c14H(Pick(r, []string{"only", "", "%d", "a b"}))}}
		}
		if r.Chance(1, 8) {
			args = []c14Arg{}
		}
		if r.Chance(1, 5) {
			args = append(args, sArg(Pick(r, []string{"x\n", "\n", " ", "", "a\n\n", "t\t"})))
		}
		tpl := ""
		if strings.HasSuffix(m, "f") {
			tpl = Pick(r, templates)
		}
		emitMsg(m, tpl, args)
	}
}

var _ = errors.New
