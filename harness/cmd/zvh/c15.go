package main

import (
	"context"
	"encoding/json"
	"fmt"
	"io"
	"log"
	"log/slog"
	"runtime"
	"sort"
	"strconv"
	"strings"

	"go.uber.org/zap"
	"go.uber.org/zap/exp/zapslog"
	"go.uber.org/zap/zapcore"
	"go.uber.org/zap/zaptest/observer"
)

// C15 — caller and stack annotations identify the user's call site.
//
// ops
//   {"k":"site","fe":"L.Info|S.Infow|L.Check|std.Print|stdat.Print|redir.Print|redirat.Print|…","chain":[{"d":"sugar|desugar|with|withlazy|
//        named|opts","ks":[…]}…],"skip":Σ AddCallerSkip,"depth":wrapper frames,"lvl":L,"min":M,"stack":[levels with a stack],"nocaller":b}
//   {"k":"diag", … same, "fe":"S.With|S.WithLazy|S.Infow|…","bad":"dangling|invalid|multi|all"}   entries = the diagnostics, then the entry
//   {"k":"slog","fe":"slog.Info|…","derive":"|with|group","skip":n,"depth":d,"slvl":slog level,"lvl":its zap level,"sth":AddStacktraceAt,"min":M,"nocaller":b}
//        → {"panic":b,"entries":[{"l":level,"caller":index|-1|null,"stack":{"start":index|-1,"dropped":n}|null}…]}
//          (indices count frames outward from the call site: 0 = the function that called the front end)
//   {"k":"trim","file":hex,"line":n,"defined":b}  → {"trimmed":hex,"full":hex}

type c15D struct {
	D  string `json:"d"`
	Ks []int  `json:"ks"`
}

type c15Op struct {
	K        string `json:"k"`
	FE       string `json:"fe"`
	Chain    []c15D `json:"chain"`
	Skip     int    `json:"skip"`
	Depth    int    `json:"depth"`
	Lvl      int    `json:"lvl"`
	Min      int    `json:"min"`
	Stack    []int  `json:"stack"`
	NoCaller bool   `json:"nocaller"`
	Bad      string `json:"bad"`
	Derive   string `json:"derive"`
	SLvl     int    `json:"slvl"`
	STh      int    `json:"sth"`
	File     string `json:"file"`
	Line     int    `json:"line"`
	Defined  bool   `json:"defined"`
	// GoEntry: the wrapper chain is the ENTRY of a fresh goroutine (`go wrapper(…)`), so that a caller skip can land on the
	// last frames of the goroutine's stack (the entry function, runtime.goexit)
	GoEntry bool `json:"goentry,omitempty"`
	// Ctor "nop": the logger is zap.NewNop().WithOptions(WrapCore(→ the recording core), …) instead of zap.New(core, …), and
	// with an empty "stack" set no AddStacktrace option is given at all: the constructor's own default must attach no stack
	Ctor string `json:"ctor,omitempty"`
	// Var: a call-site variant the model does not distinguish (c15_var.go): "noargs", "inl", "split"
	Var string `json:"var,omitempty"`
}

func init() {
	props["C15"] = &Prop{Gen: c15Gen, Exec: c15Exec}
}

// ---- the user side: a call site inside a closure, reached through distinguishable noinline wrappers

type c15Frame struct {
	File string
	Line int
	Func string
}

type c15Ctx struct {
	l       *zap.Logger
	s       *zap.SugaredLogger
	std     *log.Logger
	sl      *slog.Logger
	lvl     zapcore.Level
	slvl    slog.Level
	args    []any
	frames  []c15Frame // the goroutine's frames at the mark, innermost (the closure) first
	inlined bool       // "inl" variants: the call-site frame really is an inlined one
}

// mark records the stack of its caller; the front-end call is on the NEXT line of that caller.
//
//go:noinline
func (c *c15Ctx) mark() {
	pcs := make([]uintptr, 16384)
	n := runtime.Callers(2, pcs)
	fr := runtime.CallersFrames(pcs[:n])
	c.frames = c.frames[:0]
	for {
		f, more := fr.Next()
		c.frames = append(c.frames, c15Frame{f.File, f.Line, f.Function})
		if !more {
			break
		}
	}
	if len(c.frames) > 0 {
		c.frames[0].Line++ // the call site is the line after the mark
	}
}

var c15Wrappers [8]func(d int, fe func(*c15Ctx), c *c15Ctx)

func init() {
	c15Wrappers = [8]func(int, func(*c15Ctx), *c15Ctx){c15W0, c15W1, c15W2, c15W3, c15W4, c15W5, c15W6, c15W7}
}

// Eight distinct wrapper functions, so that adjacent wrapper frames always differ in function and line.
// Each calls the next link directly (the call below is the frame's call site).

//go:noinline
func c15W0(d int, fe func(*c15Ctx), c *c15Ctx) {
	if d <= 0 {
		fe(c)
		return
	}
	c15Wrappers[d%8](d-1, fe, c)
}

//go:noinline
func c15W1(d int, fe func(*c15Ctx), c *c15Ctx) {
	if d <= 0 {
		fe(c)
		return
	}
	c15Wrappers[d%8](d-1, fe, c)
}

//go:noinline
func c15W2(d int, fe func(*c15Ctx), c *c15Ctx) {
	if d <= 0 {
		fe(c)
		return
	}
	c15Wrappers[d%8](d-1, fe, c)
}

//go:noinline
func c15W3(d int, fe func(*c15Ctx), c *c15Ctx) {
	if d <= 0 {
		fe(c)
		return
	}
	c15Wrappers[d%8](d-1, fe, c)
}

//go:noinline
func c15W4(d int, fe func(*c15Ctx), c *c15Ctx) {
	if d <= 0 {
		fe(c)
		return
	}
	c15Wrappers[d%8](d-1, fe, c)
}

//go:noinline
func c15W5(d int, fe func(*c15Ctx), c *c15Ctx) {
	if d <= 0 {
		fe(c)
		return
	}
	c15Wrappers[d%8](d-1, fe, c)
}

//go:noinline
func c15W6(d int, fe func(*c15Ctx), c *c15Ctx) {
	if d <= 0 {
		fe(c)
		return
	}
	c15Wrappers[d%8](d-1, fe, c)
}

//go:noinline
func c15W7(d int, fe func(*c15Ctx), c *c15Ctx) {
	if d <= 0 {
		fe(c)
		return
	}
	c15Wrappers[d%8](d-1, fe, c)
}

// c15Start runs fe under exactly `depth` wrapper frames.
//
//go:noinline
func c15Start(depth int, fe func(*c15Ctx), c *c15Ctx) {
	if depth <= 0 {
		fe(c)
		return
	}
	c15Wrappers[depth%8](depth-1, fe, c)
}

// c15GoEntry is started with `go`: it is the bottom user frame of its goroutine.
//
//go:noinline
func c15GoEntry(depth int, fe func(*c15Ctx), c *c15Ctx, done chan bool) {
	defer func() { done <- recover() != nil }()
	if depth <= 0 {
		fe(c)
		return
	}
	c15Wrappers[depth%8](depth-1, fe, c)
}

var c15Bg = context.Background()

// Every front end: the mark, then the call on the very next line.
var c15FrontEnds = map[string]func(c *c15Ctx){
	"L.Debug": func(c *c15Ctx) {
		c.mark()
		c.l.Debug("m")
	},
	"L.Info": func(c *c15Ctx) {
		c.mark()
		c.l.Info("m")
	},
	"L.Warn": func(c *c15Ctx) {
		c.mark()
		c.l.Warn("m")
	},
	"L.Error": func(c *c15Ctx) {
		c.mark()
		c.l.Error("m")
	},
	"L.DPanic": func(c *c15Ctx) {
		c.mark()
		c.l.DPanic("m")
	},
	"L.Panic": func(c *c15Ctx) {
		c.mark()
		c.l.Panic("m")
	},
	"L.Fatal": func(c *c15Ctx) {
		c.mark()
		c.l.Fatal("m")
	},
	"L.Log": func(c *c15Ctx) {
		c.mark()
		c.l.Log(c.lvl, "m")
	},
	"L.Check": func(c *c15Ctx) {
		c.mark()
		ce := c.l.Check(c.lvl, "m")
		if ce != nil {
			ce.Write()
		}
	},
	"S.Debug": func(c *c15Ctx) {
		c.mark()
		c.s.Debug("m")
	},
	"S.Info": func(c *c15Ctx) {
		c.mark()
		c.s.Info("m")
	},
	"S.Warn": func(c *c15Ctx) {
		c.mark()
		c.s.Warn("m")
	},
	"S.Error": func(c *c15Ctx) {
		c.mark()
		c.s.Error("m")
	},
	"S.DPanic": func(c *c15Ctx) {
		c.mark()
		c.s.DPanic("m")
	},
	"S.Panic": func(c *c15Ctx) {
		c.mark()
		c.s.Panic("m")
	},
	"S.Fatal": func(c *c15Ctx) {
		c.mark()
		c.s.Fatal("m")
	},
	"S.Log": func(c *c15Ctx) {
		c.mark()
		c.s.Log(c.lvl, "m")
	},
	"S.Debugf": func(c *c15Ctx) {
		c.mark()
		c.s.Debugf("m %d", 1)
	},
	"S.Infof": func(c *c15Ctx) {
		c.mark()
		c.s.Infof("m %d", 1)
	},
	"S.Warnf": func(c *c15Ctx) {
		c.mark()
		c.s.Warnf("m %d", 1)
	},
	"S.Errorf": func(c *c15Ctx) {
		c.mark()
		c.s.Errorf("m %d", 1)
	},
	"S.DPanicf": func(c *c15Ctx) {
		c.mark()
		c.s.DPanicf("m %d", 1)
	},
	"S.Panicf": func(c *c15Ctx) {
		c.mark()
		c.s.Panicf("m %d", 1)
	},
	"S.Fatalf": func(c *c15Ctx) {
		c.mark()
		c.s.Fatalf("m %d", 1)
	},
	"S.Logf": func(c *c15Ctx) {
		c.mark()
		c.s.Logf(c.lvl, "m %d", 1)
	},
	"S.Debugln": func(c *c15Ctx) {
		c.mark()
		c.s.Debugln("m", 1)
	},
	"S.Infoln": func(c *c15Ctx) {
		c.mark()
		c.s.Infoln("m", 1)
	},
	"S.Warnln": func(c *c15Ctx) {
		c.mark()
		c.s.Warnln("m", 1)
	},
	"S.Errorln": func(c *c15Ctx) {
		c.mark()
		c.s.Errorln("m", 1)
	},
	"S.DPanicln": func(c *c15Ctx) {
		c.mark()
		c.s.DPanicln("m", 1)
	},
	"S.Panicln": func(c *c15Ctx) {
		c.mark()
		c.s.Panicln("m", 1)
	},
	"S.Fatalln": func(c *c15Ctx) {
		c.mark()
		c.s.Fatalln("m", 1)
	},
	"S.Logln": func(c *c15Ctx) {
		c.mark()
		c.s.Logln(c.lvl, "m", 1)
	},
	"S.Debugw": func(c *c15Ctx) {
		c.mark()
		c.s.Debugw("m", c.args...)
	},
	"S.Infow": func(c *c15Ctx) {
		c.mark()
		c.s.Infow("m", c.args...)
	},
	"S.Warnw": func(c *c15Ctx) {
		c.mark()
		c.s.Warnw("m", c.args...)
	},
	"S.Errorw": func(c *c15Ctx) {
		c.mark()
		c.s.Errorw("m", c.args...)
	},
	"S.DPanicw": func(c *c15Ctx) {
		c.mark()
		c.s.DPanicw("m", c.args...)
	},
	"S.Panicw": func(c *c15Ctx) {
		c.mark()
		c.s.Panicw("m", c.args...)
	},
	"S.Fatalw": func(c *c15Ctx) {
		c.mark()
		c.s.Fatalw("m", c.args...)
	},
	"S.Logw": func(c *c15Ctx) {
		c.mark()
		c.s.Logw(c.lvl, "m", c.args...)
	},
	"S.With": func(c *c15Ctx) {
		c.mark()
		c.s.With(c.args...)
	},
	"S.WithLazy": func(c *c15Ctx) {
		c.mark()
		c.s.WithLazy(c.args...)
	},
	"std.Print": func(c *c15Ctx) {
		c.mark()
		c.std.Print("m")
	},
	"std.Printf": func(c *c15Ctx) {
		c.mark()
		c.std.Printf("m %d", 1)
	},
	"std.Println": func(c *c15Ctx) {
		c.mark()
		c.std.Println("m")
	},
	"std.Output": func(c *c15Ctx) {
		c.mark()
		_ = c.std.Output(2, "m")
	},
	"std.Panic": func(c *c15Ctx) {
		c.mark()
		c.std.Panic("m")
	},
	"std.Panicf": func(c *c15Ctx) {
		c.mark()
		c.std.Panicf("m %d", 1)
	},
	"redir.Panic": func(c *c15Ctx) {
		c.mark()
		log.Panic("m")
	},
	"redir.Print": func(c *c15Ctx) {
		c.mark()
		log.Print("m")
	},
	"redir.Printf": func(c *c15Ctx) {
		c.mark()
		log.Printf("m %d", 1)
	},
	"redir.Println": func(c *c15Ctx) {
		c.mark()
		log.Println("m")
	},
	"redir.Output": func(c *c15Ctx) {
		c.mark()
		_ = log.Output(2, "m")
	},
	"slog.Debug": func(c *c15Ctx) {
		c.mark()
		c.sl.Debug("m")
	},
	"slog.Info": func(c *c15Ctx) {
		c.mark()
		c.sl.Info("m", "a", 1)
	},
	"slog.Warn": func(c *c15Ctx) {
		c.mark()
		c.sl.Warn("m")
	},
	"slog.Error": func(c *c15Ctx) {
		c.mark()
		c.sl.Error("m")
	},
	"slog.InfoContext": func(c *c15Ctx) {
		c.mark()
		c.sl.InfoContext(c15Bg, "m")
	},
	"slog.Log": func(c *c15Ctx) {
		c.mark()
		c.sl.Log(c15Bg, c.slvl, "m")
	},
	"slog.LogAttrs": func(c *c15Ctx) {
		c.mark()
		c.sl.LogAttrs(c15Bg, c.slvl, "m", slog.Int("a", 1))
	},
}

var c15FixedLevel = map[string]int{"Debug": -1, "Info": 0, "Warn": 1, "Error": 2, "DPanic": 3, "Panic": 4, "Fatal": 5}
var c15SlogFixed = map[string]int{"slog.Debug": -4, "slog.Info": 0, "slog.InfoContext": 0, "slog.Warn": 4, "slog.Error": 8}

// c15FELevel: the zap level a front end logs at (op.Lvl for Log/Check/std-at families).
func c15FELevel(fe string, lvl int) int {
	name := fe[strings.IndexByte(fe, '.')+1:]
	switch {
	case strings.HasPrefix(fe, "std.") || strings.HasPrefix(fe, "redir."):
		return 0 // NewStdLog / RedirectStdLog log at InfoLevel
	case strings.HasPrefix(fe, "stdat.") || strings.HasPrefix(fe, "redirat."):
		return lvl
	}
	for _, suf := range []string{"", "ln", "w", "f"} {
		if strings.HasSuffix(name, suf) {
			if l, ok := c15FixedLevel[strings.TrimSuffix(name, suf)]; ok {
				return l
			}
		}
	}
	return lvl
}

// c15StdDeep: since Go 1.21 these reach the io.Writer through one more frame of package log than Print* does
// (Panic*/Fatal* call (*Logger).Output, the package-level Output calls std.Output).
var c15StdDeep = map[string]bool{"std.Panic": true, "std.Panicf": true, "redir.Panic": true, "redir.Output": true}

func c15Family(fe string) string {
	switch {
	case c15StdDeep[fe]:
		return "stdlog-deep"
	case fe == "L.Check":
		return "check"
	case strings.HasPrefix(fe, "L."):
		return "logger"
	case strings.HasPrefix(fe, "S."):
		return "sugar"
	case strings.HasPrefix(fe, "slog."):
		return "slog"
	case strings.HasPrefix(fe, "redir"):
		return "redirect"
	}
	return "stdlog"
}

func c15BadArgs(kind string) ([]any, int) {
	switch kind {
	case "dangling":
		return []any{"k", 1, "dangling"}, 1
	case "invalid":
		return []any{"k", 1, 2, 3}, 1
	case "multi":
		return []any{fmt.Errorf("e1"), "k", 1, fmt.Errorf("e2")}, 1
	case "all":
		return []any{fmt.Errorf("e1"), fmt.Errorf("e2"), 7, 8, fmt.Errorf("e3"), "dangling"}, 4
	}
	return []any{"k", 1}, 0
}

type c15Entry struct {
	lvl    int
	caller zapcore.EntryCaller
	stack  string
}

type c15Obs struct {
	panicked bool
	entries  []c15Entry
	frames   []c15Frame
	setupErr string
	inlined  bool
}

func c15InSet(xs []int, l int) bool {
	for _, x := range xs {
		if x == l {
			return true
		}
	}
	return false
}

// c15Observe builds the logger the op describes, runs the front end under the wrappers, and collects the entries.
func c15Observe(op c15Op) (o c15Obs) {
	enab := zap.LevelEnablerFunc(func(l zapcore.Level) bool { return int(l) >= op.Min })
	core, logs := observer.New(enab)
	if len(op.Chain)%2 == 0 || op.Depth > 40 {
		// the observer is teed with an encoding core (output discarded): the entry the observer keeps — its stack-trace text
		// in particular — must stay what it was while the encoder recycles pooled buffers right after it
		core = zapcore.NewTee(core, zapcore.NewCore(zapcore.NewJSONEncoder(zap.NewProductionEncoderConfig()), zapcore.AddSync(io.Discard), enab))
	}
	c := &c15Ctx{lvl: zapcore.Level(op.Lvl), slvl: slog.Level(op.SLvl)}
	feName := op.FE
	var cleanup func()
	if op.K == "slog" {
		hopts := []zapslog.HandlerOption{zapslog.WithCaller(!op.NoCaller), zapslog.AddStacktraceAt(slog.Level(op.STh))}
		if op.Var == "split" {
			// the same total skip given in pieces (wrapper layers each adding their own): +1 per frame, then +2 −2
			for i := 0; i < op.Skip; i++ {
				hopts = append(hopts, zapslog.WithCallerSkip(1))
			}
			hopts = append(hopts, zapslog.WithCallerSkip(2), zapslog.WithCallerSkip(-2))
		} else {
			hopts = append(hopts, zapslog.WithCallerSkip(op.Skip))
		}
		h := zapslog.NewHandler(core, hopts...)
		c.sl = slog.New(h)
		switch op.Derive {
		case "with":
			c.sl = c.sl.With("ctx", 1)
		case "group":
			c.sl = c.sl.WithGroup("g")
		case "both":
			c.sl = c.sl.WithGroup("g").With("ctx", 1)
		}
	} else {
		opts := []zap.Option{zap.WithFatalHook(zapcore.WriteThenPanic), zap.ErrorOutput(zapcore.AddSync(io.Discard)),
			zap.AddStacktrace(zap.LevelEnablerFunc(func(l zapcore.Level) bool { return c15InSet(op.Stack, int(l)) }))}
		if !op.NoCaller {
			opts = append(opts, zap.AddCaller())
		}
		if op.Var == "flip" {
			// a stack-trace enabler whose answer CHANGES between two consecutive questions (a threshold lowered by another
			// goroutine at that moment): "no" to the first question about an entry, "yes" to a second one. The logger must take
			// ONE decision per entry — no trace here (the op's "stack" set is empty); a trace that is not the full chain is the
			// symptom of a decision taken twice
			asked := 0
			opts[2] = zap.AddStacktrace(zap.LevelEnablerFunc(func(zapcore.Level) bool { asked++; return asked%2 == 0 }))
		}
		var lg *zap.Logger
		if op.Ctor == "nop" {
			// drop AddStacktrace: "no level configured" is the default. Named levels only: the default threshold is the Level
			// FatalLevel+1 used as an enabler, so an entry at the out-of-range level 6 or above does get a stack from an
			// unconfigured logger (observed on the unchanged tree, deliberately not flagged)
			if len(op.Stack) == 0 && c15FELevel(op.FE, op.Lvl) <= 5 {
				opts = append(opts[:2:2], opts[3:]...)
			}
			lg = zap.NewNop().WithOptions(append([]zap.Option{zap.WrapCore(func(zapcore.Core) zapcore.Core { return core })}, opts...)...)
		} else if op.Ctor == "config" {
			// built by Config.Build (development and production flavours by turns; never development for a DPanic entry, which
			// would panic there) with the SAME options: what the caller
			// passes to Build must win over what the Config itself derives (its own AddCaller / AddStacktrace / ErrorOutput)
			cfg := zap.Config{Level: zap.NewAtomicLevelAt(zapcore.Level(-128)), Development: op.Depth%2 == 1 && c15FELevel(op.FE, op.Lvl) != 3, Encoding: "json",
				EncoderConfig: zap.NewProductionEncoderConfig(), DisableCaller: op.NoCaller, OutputPaths: []string{}, ErrorOutputPaths: []string{}}
			if len(op.Stack) == 0 && c15FELevel(op.FE, op.Lvl) <= 5 {
				// "no level configured" said the Config's way: DisableStacktrace, and no AddStacktrace option at all
				cfg.DisableStacktrace = true
				opts = append(opts[:2:2], opts[3:]...)
			}
			var err error
			lg, err = cfg.Build(append([]zap.Option{zap.WrapCore(func(zapcore.Core) zapcore.Core { return core })}, opts...)...)
			if err != nil {
				o.setupErr = err.Error()
				return
			}
		} else {
			lg = zap.New(core, opts...)
		}
		var sg *zap.SugaredLogger
		for _, d := range op.Chain {
			switch d.D {
			case "sugar":
				if lg == nil {
					o.setupErr = "sugar on a SugaredLogger"
					return
				}
				sg, lg = lg.Sugar(), nil
			case "desugar":
				if sg == nil {
					o.setupErr = "desugar on a Logger"
					return
				}
				lg, sg = sg.Desugar(), nil
			case "with":
				if lg != nil {
					lg = lg.With(zap.Int("w", 1))
				} else {
					sg = sg.With("w", 1)
				}
			case "withlazy":
				if lg != nil {
					lg = lg.WithLazy(zap.Int("wl", 1))
				} else {
					sg = sg.WithLazy("wl", 1)
				}
			case "named":
				if lg != nil {
					lg = lg.Named("n")
				} else {
					sg = sg.Named("n")
				}
			case "opts":
				var os []zap.Option
				for _, k := range d.Ks {
					os = append(os, zap.AddCallerSkip(k))
				}
				if lg != nil {
					lg = lg.WithOptions(os...)
				} else {
					sg = sg.WithOptions(os...)
				}
			default:
				o.setupErr = "unknown derivation " + d.D
				return
			}
		}
		c.l, c.s = lg, sg
		fam := feName[:strings.IndexByte(feName, '.')]
		needSugar := fam == "S"
		if needSugar != (sg != nil) {
			o.setupErr = "front end " + feName + " does not exist on the derived logger"
			return
		}
		switch fam {
		case "std":
			c.std = zap.NewStdLog(lg)
		case "stdat":
			std, err := zap.NewStdLogAt(lg, zapcore.Level(op.Lvl))
			if err != nil {
				o.setupErr = err.Error()
				return
			}
			c.std = std
			feName = "std." + feName[len("stdat."):]
		case "redir":
			cleanup = zap.RedirectStdLog(lg)
		case "redirat":
			undo, err := zap.RedirectStdLogAt(lg, zapcore.Level(op.Lvl))
			if err != nil {
				o.setupErr = err.Error()
				return
			}
			cleanup = undo
			feName = "redir." + feName[len("redirat."):]
		}
		c.args, _ = c15BadArgs(op.Bad)
	}
	fe, okfe := c15FrontEnds[feName]
	if vs, isVar := c15Variants[op.Var]; isVar {
		fe, okfe = vs[feName]
	}
	if !okfe {
		o.setupErr = "unknown front end " + feName
		return
	}
	func() {
		defer func() {
			if e := recover(); e != nil {
				o.panicked = true
			}
			if cleanup != nil {
				cleanup()
			}
		}()
		if op.GoEntry {
			done := make(chan bool)
			go c15GoEntry(op.Depth, fe, c, done)
			if <-done {
				panic("front end panicked")
			}
			return
		}
		c15Start(op.Depth, fe, c)
	}()
	o.frames = c.frames
	o.inlined = c.inlined
	for _, e := range logs.All() {
		o.entries = append(o.entries, c15Entry{int(e.Level), e.Caller, e.Stack})
	}
	return o
}

// c15ParseStack splits zap's stack text ("function\n\tfile:line" per frame) back into frames.
func c15ParseStack(s string) ([]c15Frame, bool) {
	if s == "" {
		return nil, true
	}
	lines := strings.Split(s, "\n")
	if len(lines)%2 != 0 {
		return nil, false
	}
	var out []c15Frame
	for i := 0; i < len(lines); i += 2 {
		loc := lines[i+1]
		j := strings.LastIndexByte(loc, ':')
		if !strings.HasPrefix(loc, "\t") || j < 0 {
			return nil, false
		}
		n, err := strconv.Atoi(loc[j+1:])
		if err != nil {
			return nil, false
		}
		out = append(out, c15Frame{loc[1:j], n, lines[i]})
	}
	return out, true
}

func c15CallerFrame(ec zapcore.EntryCaller) c15Frame { return c15Frame{ec.File, ec.Line, ec.Function} }

// c15Index: position of frame f in the user's stack — the match closest to `hint` (wrapper frames repeat every 8
// levels); -1 when it is not one of the user's frames.
func c15Index(frames []c15Frame, f c15Frame, hint int) int {
	best := -1
	for i, x := range frames {
		if x != f {
			continue
		}
		if best < 0 || c15Abs(i-hint) < c15Abs(best-hint) {
			best = i
		}
	}
	return best
}

func c15Abs(x int) int {
	if x < 0 {
		return -x
	}
	return x
}

func c15MatchAt(frames, sub []c15Frame, at int) bool {
	if at < 0 || at+len(sub) > len(frames) {
		return false
	}
	for i := range sub {
		if frames[at+i] != sub[i] {
			return false
		}
	}
	return true
}

func c15Impl(o c15Obs, hint func(i int) int) map[string]any {
	ents := []any{}
	for i, e := range o.entries {
		m := map[string]any{"l": e.lvl, "caller": nil, "stack": nil}
		if e.caller.Defined {
			m["caller"] = c15Index(o.frames, c15CallerFrame(e.caller), hint(i))
		}
		if e.stack != "" {
			fs, okp := c15ParseStack(e.stack)
			start := -1
			if okp && len(fs) > 0 {
				for at := 0; at+len(fs) <= len(o.frames); at++ {
					if c15MatchAt(o.frames, fs, at) && (start < 0 || c15Abs(at-hint(i)) < c15Abs(start-hint(i))) {
						start = at
					}
				}
			}
			dropped := -1
			if start >= 0 {
				dropped = len(o.frames) - start - len(fs)
			}
			m["stack"] = map[string]any{"start": start, "dropped": dropped}
		}
		ents = append(ents, m)
	}
	return map[string]any{"panic": o.panicked, "entries": ents}
}

// c15JudgeEntry: the property for one recorded entry. callerAt / stackAt: the user-side frame the caller annotation
// and the stack must name.
func c15JudgeEntry(o c15Obs, e c15Entry, fam string, callerAt, stackAt int, wantCaller, wantStack bool) Oracle {
	if callerAt >= len(o.frames) || stackAt >= len(o.frames) {
		if e.caller.Defined || e.stack != "" {
			return bad("C15:beyond-stack:"+fam, "skip %d is beyond the %d-frame stack but the entry has caller %v / stack %q", callerAt, len(o.frames), e.caller, e.stack)
		}
		return ok()
	}
	if !wantCaller && e.caller.Defined {
		return bad("C15:caller-unexpected:"+fam, "caller annotation is off but the entry carries %v", e.caller)
	}
	if wantCaller {
		want := o.frames[callerAt]
		if !e.caller.Defined {
			return bad("C15:caller-missing:"+fam, "no caller; the call site is %s:%d %s", want.File, want.Line, want.Func)
		}
		if got := c15CallerFrame(e.caller); got != want {
			return bad("C15:caller-mismatch:"+fam, "caller %s:%d %s, but the call site %d frames out is %s:%d %s",
				got.File, got.Line, got.Func, callerAt, want.File, want.Line, want.Func)
		}
		if tp, wantTP := e.caller.TrimmedPath(), c15Trim(want.File, want.Line); tp != wantTP {
			return bad("C15:trimmed-path", "TrimmedPath %q, want %q", tp, wantTP)
		}
	}
	if !wantStack {
		if e.stack != "" {
			return bad("C15:stack-unexpected:"+fam, "level %d is not configured for stack traces but the entry has one", e.lvl)
		}
		return ok()
	}
	if e.stack == "" {
		return bad("C15:stack-missing:"+fam, "level %d is configured for stack traces but the entry has none", e.lvl)
	}
	fs, okp := c15ParseStack(e.stack)
	if !okp || len(fs) == 0 {
		return bad("C15:stack-format:"+fam, "stack text is not function/file:line pairs: %q", e.stack)
	}
	if fs[0] != o.frames[stackAt] {
		return bad("C15:stack-first-frame:"+fam, "stack starts at %s:%d %s, but the call site %d frames out is %s:%d %s",
			fs[0].File, fs[0].Line, fs[0].Func, stackAt, o.frames[stackAt].File, o.frames[stackAt].Line, o.frames[stackAt].Func)
	}
	// complete chain: the recorded frames are a prefix of the real chain, and only runtime frames may be cut at the end
	rest := o.frames[stackAt:]
	if len(fs) > len(rest) || !c15MatchAt(rest, fs, 0) {
		i := 0
		for i < len(fs) && i < len(rest) && fs[i] == rest[i] {
			i++
		}
		return bad("C15:stack-incomplete:"+fam, "stack (%d frames) departs from the real call chain (%d frames) at frame %d", len(fs), len(rest), i)
	}
	for _, f := range rest[len(fs):] {
		if !strings.HasPrefix(f.Func, "runtime.") {
			return bad("C15:stack-incomplete:"+fam, "stack has %d frames but the call chain has %d; first missing: %s", len(fs), len(rest), f.Func)
		}
	}
	return ok()
}

// c15Trim: "dir/file:line" keeping the last two path elements — computed without zap.
func c15Trim(file string, line int) string {
	parts := strings.Split(file, "/")
	if len(parts) >= 3 {
		file = parts[len(parts)-2] + "/" + parts[len(parts)-1]
	}
	return file + ":" + strconv.Itoa(line)
}

func c15Exec(raw json.RawMessage) Result {
	var op c15Op
	unmarshal(raw, &op)
	if op.K == "site" || op.K == "diag" {
		// the AddCallerSkip total is what the chain applies (keeps shrunk cases self-consistent)
		op.Skip = 0
		for _, d := range op.Chain {
			if d.D == "opts" {
				for _, k := range d.Ks {
					op.Skip += k
				}
			}
		}
	}
	switch op.K {
	case "trim":
		file := string(unhx(op.File))
		ec := zapcore.EntryCaller{Defined: op.Defined, File: file, Line: op.Line}
		tp, fp := ec.TrimmedPath(), ec.FullPath()
		v := ok()
		wantT, wantF := c15Trim(file, op.Line), file+":"+strconv.Itoa(op.Line)
		if !op.Defined {
			wantT, wantF = "undefined", "undefined"
		}
		// the two caller encoders of zapcore/encoder.go
		viaEnc := func(ce zapcore.CallerEncoder) string {
			enc := zapcore.NewMapObjectEncoder()
			_ = enc.AddArray("c", zapcore.ArrayMarshalerFunc(func(ae zapcore.ArrayEncoder) error { ce(ec, ae); return nil }))
			els, _ := enc.Fields["c"].([]interface{})
			if len(els) != 1 {
				return fmt.Sprintf("<%d elements>", len(els))
			}
			return fmt.Sprint(els[0])
		}
		es, ef := viaEnc(zapcore.ShortCallerEncoder), viaEnc(zapcore.FullCallerEncoder)
		if tp != wantT || fp != wantF || ec.String() != wantF {
			v = bad("C15:trimmed-path", "file %q line %d: TrimmedPath %q (want %q), FullPath %q (want %q)", file, op.Line, tp, wantT, fp, wantF)
		} else if es != wantT || ef != wantF {
			v = bad("C15:caller-encoder", "file %q line %d: ShortCallerEncoder %q (want %q), FullCallerEncoder %q (want %q)", file, op.Line, es, wantT, ef, wantF)
		}
		return Result{Impl: map[string]any{"trimmed": hx([]byte(tp)), "full": hx([]byte(fp)), "enc_short": hx([]byte(es)), "enc_full": hx([]byte(ef))}, Oracle: v,
			Nontrivial: strings.Count(file, "/") >= 2, Shape: fmt.Sprintf("trim/slashes%d", minInt(strings.Count(file, "/"), 3))}
	case "site", "diag", "slog":
		o := c15Observe(op)
		if o.setupErr != "" {
			return Result{Impl: map[string]any{"setup": o.setupErr}, Oracle: bad("harness-c15-setup", "%s", o.setupErr), Shape: "setup-error"}
		}
		fam := c15Family(op.FE)
		lvl := c15FELevel(op.FE, op.Lvl)
		_, ndiag := c15BadArgs(op.Bad)
		if op.K != "diag" {
			ndiag = 0
		}
		isWith := op.FE == "S.With" || op.FE == "S.WithLazy"
		written := lvl >= op.Min
		reached := written
		if op.K == "diag" && isWith {
			written, reached = false, true
		}
		errOn := 2 >= op.Min
		wantEntries := 0
		if reached && errOn {
			wantEntries += ndiag
		}
		if written {
			wantEntries++
		}
		callerAt, stackAt := op.Skip, op.Skip
		if op.K == "slog" {
			callerAt = 0 // the handler uses the call site slog recorded
		}
		v := ok()
		terminal := (lvl == 4 || lvl == 5) && !isWith && op.K != "slog"
		if strings.Contains(op.FE, ".Panic") && !strings.HasPrefix(op.FE, "S.") && !strings.HasPrefix(op.FE, "L.") {
			terminal = true // log.Panic* panics after the write
		}
		switch {
		case o.panicked != terminal:
			v = bad("C15:terminate:"+fam, "%s at level %d: panicked=%v, expected %v", op.FE, lvl, o.panicked, terminal)
		case len(o.entries) != wantEntries:
			v = bad("C15:entries:"+fam, "%s recorded %d entries, expected %d", op.FE, len(o.entries), wantEntries)
		default:
			for i, e := range o.entries {
				isDiag := i < len(o.entries)-1 || (op.K == "diag" && isWith)
				f := fam
				if isDiag {
					f = "diag-with"
					if !isWith {
						f = "diag-w-method"
					}
				}
				var wantStack bool
				if op.K == "slog" {
					wantStack = op.SLvl >= op.STh
				} else {
					wantStack = c15InSet(op.Stack, e.lvl)
				}
				if x := c15JudgeEntry(o, e, f, callerAt, stackAt, !op.NoCaller, wantStack); !x.OK {
					v = x
					if fam == "stdlog-deep" {
						// the known shape: everything is attributed one frame too far in (a frame of package log when skip = 0)
						inner := strings.HasPrefix(e.caller.Function, "log.") || strings.HasPrefix(e.stack, "log.")
						if op.Skip >= 1 {
							inner = c15JudgeEntry(o, e, f, callerAt-1, stackAt-1, !op.NoCaller, wantStack).OK
						}
						if inner {
							v.Sig = "C15:stdlog-extra-frame"
						}
					}
					v.Detail = fmt.Sprintf("%s (skip %d, %d wrappers), entry %d at level %d: %s", op.FE, op.Skip, op.Depth, i, e.lvl, x.Detail)
					break
				}
			}
		}
		hint := func(i int) int { return op.Skip }
		impl := c15Impl(o, hint)
		deep := "shallow"
		if len(o.frames) > 55 {
			deep = "deep"
		}
		variant := ""
		if op.Var != "" {
			variant = "/" + op.Var
			if op.Var == "inl" {
				variant += fmt.Sprintf("(inlined=%v)", o.inlined)
			}
		}
		return Result{Impl: impl, Oracle: v, Nontrivial: len(o.entries) > 0 && (op.Depth > 0 || len(op.Chain) > 0 || op.Var != ""),
			Shape: fmt.Sprintf("%s/%s/chain%d/%s/stack=%v%s", op.K, fam, minInt(len(op.Chain), 4), deep, len(o.entries) > 0 && o.entries[len(o.entries)-1].stack != "", variant)}
	}
	panic("unknown op kind " + op.K)
}

// ---- generation

var c15LoggerFEs = []string{"L.Debug", "L.Info", "L.Warn", "L.Error", "L.DPanic", "L.Panic", "L.Fatal", "L.Log", "L.Check",
	"std.Print", "std.Printf", "std.Println", "std.Output", "std.Panic", "std.Panicf", "stdat.Print", "stdat.Println",
	"redir.Print", "redir.Printf", "redir.Println", "redir.Output", "redir.Panic", "redirat.Print"}

var c15SugarFEs = func() []string {
	var out []string
	for _, b := range []string{"Debug", "Info", "Warn", "Error", "DPanic", "Panic", "Fatal", "Log"} {
		for _, s := range []string{"", "f", "ln", "w"} {
			out = append(out, "S."+b+s)
		}
	}
	return out
}()

var c15SlogFEs = []string{"slog.Debug", "slog.Info", "slog.Warn", "slog.Error", "slog.InfoContext", "slog.Log", "slog.LogAttrs"}

// c15SplitSkip distributes `total` over n AddCallerSkip options (partial sums may be negative).
func c15SplitSkip(r *Rand, total, n int) []int {
	if n <= 0 {
		return nil
	}
	ks := make([]int, n)
	rest := total
	for i := 0; i < n-1; i++ {
		ks[i] = r.Intn(total+4) - 2
		rest -= ks[i]
	}
	ks[n-1] = rest
	return ks
}

// c15Chain draws a well-typed derivation chain of the given length ending on the requested logger type, carrying skip.
func c15Chain(r *Rand, length int, endSugared bool, skip int) []c15D {
	{
		var ch []c15D
		sugared := false
		nopts := 0
		for i := 0; i < length; i++ {
			switch r.Intn(5) {
			case 0:
				if sugared {
					ch = append(ch, c15D{D: "desugar"})
				} else {
					ch = append(ch, c15D{D: "sugar"})
				}
				sugared = !sugared
			case 1:
				ch = append(ch, c15D{D: "with"})
			case 2:
				ch = append(ch, c15D{D: "withlazy"})
			case 3:
				ch = append(ch, c15D{D: "named"})
			case 4:
				ch = append(ch, c15D{D: "opts"})
				nopts++
			}
		}
		if sugared != endSugared {
			if sugared {
				ch = append(ch, c15D{D: "desugar"})
			} else {
				ch = append(ch, c15D{D: "sugar"})
			}
		}
		if nopts == 0 {
			ch = append(ch, c15D{D: "opts"})
			nopts = 1
		}
		// spread the skip over the opts steps, each of which applies 1–2 AddCallerSkip options
		per := c15SplitSkip(r, skip, nopts)
		j := 0
		for i := range ch {
			if ch[i].D == "opts" {
				if r.Bool() {
					ch[i].Ks = c15SplitSkip(r, per[j], 2)
					ch[i].Ks[1] = per[j] - ch[i].Ks[0]
				} else {
					ch[i].Ks = []int{per[j]}
				}
				j++
			} else {
				ch[i].Ks = []int{}
			}
		}
		return ch
	}
}

func c15AllChains(maxLen int, emit func(ch []string)) {
	alpha := []string{"toggle", "with", "withlazy", "named", "opts"}
	var rec func(cur []string)
	rec = func(cur []string) {
		emit(append([]string(nil), cur...))
		if len(cur) == maxLen {
			return
		}
		for _, a := range alpha {
			rec(append(cur, a))
		}
	}
	rec(nil)
}

func c15Gen(r *Rand, tier string, emit func(op any)) {
	thorough := tier == "thorough"
	stackSets := [][]int{{}, {2, 3, 4, 5}, {-1, 0, 1, 2, 3, 4, 5}, {1}, {0, 4}, {3, 4, 5}, {-1}}
	mins := []int{-1, -1, -1, 0, 1, 2, 3}
	lvls := []int{-1, 0, 1, 2, 3, 6, -2}
	depths := []int{0, 1, 2, 3, 4, 5, 6}
	deepDepths := []int{44, 50, 56, 60, 63, 64, 70, 130}
	if thorough {
		for d := 7; d <= 300; d++ {
			deepDepths = append(deepDepths, d)
		}
	}
	pickDepth := func(i int) int {
		if i%9 == 8 {
			return Pick(r, deepDepths)
		}
		return Pick(r, depths)
	}
	pickSkip := func(depth int) int {
		switch r.Intn(10) {
		case 0:
			return r.Intn(depth + 2)
		case 1:
			return depth + 1
		default:
			return depth // the matching AddCallerSkip
		}
	}
	mkN := 0
	mk := func(k, fe string, ch []c15D, skip, depth int) c15Op {
		op := c15Op{K: k, FE: fe, Chain: ch, Skip: skip, Depth: depth, Lvl: Pick(r, lvls), Min: Pick(r, mins),
			Stack: Pick(r, stackSets), NoCaller: r.Chance(1, 12)}
		if mkN%5 == 3 {
			op.Ctor = "config"
		}
		if mkN++; mkN%5 == 0 { // no PRNG draw: the other ops stay what they were
			op.Ctor = "nop"
			if mkN%10 == 0 {
				op.Stack = []int{} // no AddStacktrace at all (mutants logger.go#5/#6: NewNop started with stacks from Panic / Fatal on)
			}
		}
		if strings.HasPrefix(fe, "stdat.") || strings.HasPrefix(fe, "redirat.") {
			op.Lvl = Pick(r, []int{-1, 0, 1, 2, 3, 4, 5}) // NewStdLogAt accepts the seven named levels only
		}
		if op.Chain == nil {
			op.Chain = []c15D{}
		}
		return op
	}
	// 1. every conversion chain up to a length, front ends rotating
	maxLen := 3
	if thorough {
		maxLen = 5
	}
	gi := 0
	c15AllChains(maxLen, func(names []string) {
		sugared := false
		var ch []c15D
		nopts := 0
		for _, n := range names {
			switch n {
			case "toggle":
				if sugared {
					ch = append(ch, c15D{D: "desugar", Ks: []int{}})
				} else {
					ch = append(ch, c15D{D: "sugar", Ks: []int{}})
				}
				sugared = !sugared
			case "opts":
				nopts++
				ch = append(ch, c15D{D: "opts"})
			default:
				ch = append(ch, c15D{D: n, Ks: []int{}})
			}
		}
		depth := gi % 5
		skip := depth
		if nopts == 0 {
			skip, depth = 0, 0
		}
		per := c15SplitSkip(r, skip, nopts)
		j := 0
		for i := range ch {
			if ch[i].D == "opts" {
				ch[i].Ks = []int{per[j]}
				j++
			}
		}
		fe := c15LoggerFEs[gi%len(c15LoggerFEs)]
		if sugared {
			fe = c15SugarFEs[gi%len(c15SugarFEs)]
		}
		gi++
		emit(mk("site", fe, ch, skip, depth))
	})
	// 2. every front end × wrapper depths 0–6 with the matching skip, stack on and off
	for _, fes := range [][]string{c15LoggerFEs, c15SugarFEs} {
		for _, fe := range fes {
			for _, d := range depths {
				op := mk("site", fe, c15Chain(r, r.Intn(3), strings.HasPrefix(fe, "S."), d), d, d)
				op.NoCaller = false
				op.Min = -1
				emit(op)
			}
		}
	}
	// 3. random call paths, including deep stacks that cross the pooled slab
	n := 700
	if thorough {
		n = 100000
	}
	for i := 0; i < n; i++ {
		depth := pickDepth(i)
		skip := pickSkip(depth)
		goEntry := i%6 == 5
		if goEntry {
			// the chain is a goroutine's entry: skips that land on the entry function, on runtime.goexit and beyond
			depth = Pick(r, []int{0, 0, 1, 2, 5})
			skip = depth + r.Intn(3) // the closure, the wrappers, the entry function (depth+1), runtime.goexit (depth+2)
		}
		sug := r.Bool()
		fe := Pick(r, c15LoggerFEs)
		if sug {
			fe = Pick(r, c15SugarFEs)
		}
		op := mk("site", fe, c15Chain(r, r.Intn(5), sug, skip), skip, depth)
		if depth > 40 && r.Chance(2, 3) {
			op.Stack = []int{-1, 0, 1, 2, 3, 4, 5}
			op.Min = -1
		}
		if goEntry {
			op.GoEntry = true
			op.Stack = []int{-1, 0, 1, 2, 3, 4, 5}
			op.Min = -1
			op.NoCaller = false
		}
		emit(op)
	}
	// 3b. call-site variants (c15_var.go): no arguments; an inlined helper as the call site
	for _, vn := range []string{"noargs", "inl"} {
		var fes []string
		for fe := range c15Variants[vn] {
			fes = append(fes, fe)
		}
		sort.Strings(fes)
		for _, fe := range fes {
			for d := 0; d <= 2; d++ {
				skips := []int{d}
				if vn == "inl" {
					skips = []int{0, 1, d + 1}
				}
				for _, skip := range skips {
					sug := strings.HasPrefix(fe, "S.")
					op := mk("site", fe, c15Chain(r, r.Intn(3), sug, skip), skip, d)
					op.Var, op.Ctor = vn, ""
					op.NoCaller, op.Min = false, -1
					if op.Lvl == 6 || op.Lvl == -2 {
						op.Lvl = 1
					}
					if skip%2 == 0 {
						op.Stack = []int{-1, 0, 1, 2, 3, 4, 5}
					}
					emit(op)
				}
			}
		}
	}
	// 3d. long stack-trace TEXTS (well beyond 8 KiB): deep wrapper chains with a small caller skip, so that the trace holds
	//     all the wrapper frames
	for _, fe := range []string{"L.Info", "L.Error", "S.Infow", "L.Check"} {
		for _, d := range []int{130, 200, 300} {
			for _, skip := range []int{0, 1} {
				op := mk("site", fe, c15Chain(r, 0, strings.HasPrefix(fe, "S."), skip), skip, d)
				op.Ctor, op.Var, op.Stack, op.NoCaller, op.Min = "", "", []int{-1, 0, 1, 2, 3, 4, 5}, false, -1
				if op.Lvl > 2 || op.Lvl < -1 {
					op.Lvl = 1
				}
				emit(op)
			}
		}
	}
	// 3c. the stack-trace enabler changes its answer between two questions about one entry
	for _, fe := range []string{"L.Info", "L.Error", "L.Check", "S.Infow", "S.Errorf", "std.Print"} {
		for d := 0; d <= 3; d++ {
			op := mk("site", fe, c15Chain(r, r.Intn(2), strings.HasPrefix(fe, "S."), d), d, d)
			op.Var, op.Ctor, op.Stack, op.NoCaller, op.Min = "flip", "", []int{}, d == 3, -1
			if op.Lvl == 6 || op.Lvl == -2 || op.Lvl > 2 {
				op.Lvl = 1
			}
			emit(op)
		}
	}
	// beyond the stack
	for i := 0; i < 6; i++ {
		op := mk("site", Pick(r, []string{"L.Info", "S.Infow", "std.Print"}), nil, 1000000, i)
		op.Chain = []c15D{{D: "opts", Ks: []int{1000000}}}
		if strings.HasPrefix(op.FE, "S.") {
			op.Chain = append(op.Chain, c15D{D: "sugar", Ks: []int{}})
		}
		emit(op)
	}
	// 4. diagnostics of sweetenFields
	nd := 160
	if thorough {
		nd = 12000
	}
	diagFEs := []string{"S.With", "S.WithLazy", "S.Debugw", "S.Infow", "S.Warnw", "S.Errorw", "S.DPanicw", "S.Panicw", "S.Fatalw", "S.Logw"}
	for i := 0; i < nd; i++ {
		depth := pickDepth(i)
		op := mk("diag", diagFEs[i%len(diagFEs)], c15Chain(r, r.Intn(4), true, depth), depth, depth)
		op.Bad = []string{"dangling", "invalid", "multi", "all"}[(i/len(diagFEs))%4]
		if op.Lvl == 6 || op.Lvl == -2 {
			op.Lvl = 1
		}
		emit(op)
	}
	// 5. slog handler
	ns := 200
	if thorough {
		ns = 20000
	}
	slvls := []int{-8, -4, -1, 0, 2, 4, 7, 8, 12}
	for i := 0; i < ns; i++ {
		depth := pickDepth(i)
		skip := pickSkip(depth)
		fe := c15SlogFEs[i%len(c15SlogFEs)]
		sl := Pick(r, slvls)
		if fixed, okf := c15SlogFixed[fe]; okf {
			sl = fixed
		}
		zl := -1
		switch {
		case sl >= 8:
			zl = 2
		case sl >= 4:
			zl = 1
		case sl >= 0:
			zl = 0
		}
		sop := c15Op{K: "slog", FE: fe, Derive: Pick(r, []string{"", "", "with", "group", "both"}), Skip: skip, Depth: depth,
			SLvl: sl, Lvl: zl, STh: Pick(r, slvls), Min: Pick(r, []int{-1, -1, 0, 1, 2}), NoCaller: r.Chance(1, 8), Chain: []c15D{}, Stack: []int{}}
		if i%3 == 2 && skip <= 8 {
			sop.Var = "split"
		}
		emit(sop)
	}
	// 6. path trimming
	files := []string{"", "f.go", "d/f.go", "a/d/f.go", "/a/b/c/d/f.go", "/f.go", "//f.go", "a//f.go", "/a/b/", "C:/x/y/z.go", "a/b/c/", "/", "//", "\xff/\xfe/x.go"}
	for _, f := range files {
		for _, def := range []bool{true, false} {
			emit(c15Op{K: "trim", File: hx([]byte(f)), Line: Pick(r, []int{0, 1, 42, 99999}), Defined: def, Chain: []c15D{}, Stack: []int{}})
		}
	}
	nt := 60
	if thorough {
		nt = 3000
	}
	for i := 0; i < nt; i++ {
		var sb strings.Builder
		for j, k := 0, r.Intn(6); j < k; j++ {
			if r.Chance(1, 6) {
				sb.WriteString("/")
			}
			sb.WriteString(Pick(r, []string{"a", "pkg", "x.go", "", "é", "."}))
			if r.Chance(3, 4) {
				sb.WriteString("/")
			}
		}
		emit(c15Op{K: "trim", File: hx([]byte(sb.String())), Line: r.Intn(5000), Defined: true, Chain: []c15D{}, Stack: []int{}})
	}
}
