package main

import (
	"runtime"

	"go.uber.org/zap"
)

// C15 call-site VARIANTS (op field "var"): the same front end reached in a way the model does not distinguish — the
// expected annotations are those of the plain op, so the Lean driver ignores the field.
//
//	"noargs"  the print-style / ln-style sugar methods called WITHOUT arguments (s.Infoln(), s.Info())
//	"inl"     the front-end call sits in a small helper that the compiler INLINES into the closure: the call site is an
//	          inlined frame (runtime.Frame.Func == nil), frames = [helper, closure, wrappers…]
//	"split"   (slog ops) the caller skip is given as several WithCallerSkip options that add up to "skip"

var c15NoArgs = map[string]func(c *c15Ctx){
	"S.Debug": func(c *c15Ctx) {
		c.mark()
		c.s.Debug()
	},
	"S.Info": func(c *c15Ctx) {
		c.mark()
		c.s.Info()
	},
	"S.Warn": func(c *c15Ctx) {
		c.mark()
		c.s.Warn()
	},
	"S.Error": func(c *c15Ctx) {
		c.mark()
		c.s.Error()
	},
	"S.DPanic": func(c *c15Ctx) {
		c.mark()
		c.s.DPanic()
	},
	"S.Panic": func(c *c15Ctx) {
		c.mark()
		c.s.Panic()
	},
	"S.Fatal": func(c *c15Ctx) {
		c.mark()
		c.s.Fatal()
	},
	"S.Log": func(c *c15Ctx) {
		c.mark()
		c.s.Log(c.lvl)
	},
	"S.Debugln": func(c *c15Ctx) {
		c.mark()
		c.s.Debugln()
	},
	"S.Infoln": func(c *c15Ctx) {
		c.mark()
		c.s.Infoln()
	},
	"S.Warnln": func(c *c15Ctx) {
		c.mark()
		c.s.Warnln()
	},
	"S.Errorln": func(c *c15Ctx) {
		c.mark()
		c.s.Errorln()
	},
	"S.DPanicln": func(c *c15Ctx) {
		c.mark()
		c.s.DPanicln()
	},
	"S.Panicln": func(c *c15Ctx) {
		c.mark()
		c.s.Panicln()
	},
	"S.Fatalln": func(c *c15Ctx) {
		c.mark()
		c.s.Fatalln()
	},
	"S.Logln": func(c *c15Ctx) {
		c.mark()
		c.s.Logln(c.lvl)
	},
	"S.Debugw": func(c *c15Ctx) {
		c.mark()
		c.s.Debugw("m")
	},
	"S.Infow": func(c *c15Ctx) {
		c.mark()
		c.s.Infow("m")
	},
	"S.Errorw": func(c *c15Ctx) {
		c.mark()
		c.s.Errorw("m")
	},
	"S.Infof": func(c *c15Ctx) {
		c.mark()
		c.s.Infof("")
	},
	"S.Errorf": func(c *c15Ctx) {
		c.mark()
		c.s.Errorf("")
	},
	"std.Print": func(c *c15Ctx) {
		c.mark()
		c.std.Print()
	},
	"std.Println": func(c *c15Ctx) {
		c.mark()
		c.std.Println()
	},
}

// ---- inlined call sites. The helper holds exactly one call — through an interface, so that the SAME call site is run
// twice: first with a marker that records the goroutine's frames (the inlined helper frame included, as the runtime
// expands it), then with the real logger.

type c15InfoL interface {
	Info(string, ...zap.Field)
}
type c15ErrorL interface {
	Error(string, ...zap.Field)
}
type c15InfoS interface{ Info(...any) }
type c15InfowS interface{ Infow(string, ...any) }
type c15InfolnS interface{ Infoln(...any) }
type c15InfofS interface{ Infof(string, ...any) }

type c15Marker struct{ c *c15Ctx }

// record: the frames of the caller of the marker method (skip: Callers, record, the marker method)
//
//go:noinline
func (m c15Marker) record() {
	pcs := make([]uintptr, 16384)
	n := runtime.Callers(3, pcs)
	fr := runtime.CallersFrames(pcs[:n])
	m.c.frames = m.c.frames[:0]
	first := true
	for {
		f, more := fr.Next()
		if first {
			m.c.inlined = f.Func == nil
			first = false
		}
		m.c.frames = append(m.c.frames, c15Frame{f.File, f.Line, f.Function})
		if !more {
			break
		}
	}
}

//go:noinline
func (m c15Marker) Info(string, ...zap.Field) { m.record() }

//go:noinline
func (m c15Marker) Error(string, ...zap.Field) { m.record() }

type c15MarkerS struct{ c15Marker }

//go:noinline
func (m c15MarkerS) Info(...any) { m.record() }

//go:noinline
func (m c15MarkerS) Infow(string, ...any) { m.record() }

//go:noinline
func (m c15MarkerS) Infoln(...any) { m.record() }

//go:noinline
func (m c15MarkerS) Infof(string, ...any) { m.record() }

// the helpers: small enough to be inlined (checked at run time: c15Ctx.inlined, reported in the op's shape)
func c15InlLInfo(l c15InfoL)     { l.Info("m") }
func c15InlLError(l c15ErrorL)   { l.Error("m") }
func c15InlSInfo(s c15InfoS)     { s.Info("m") }
func c15InlSInfow(s c15InfowS)   { s.Infow("m") }
func c15InlSInfoln(s c15InfolnS) { s.Infoln("m") }
func c15InlSInfof(s c15InfofS)   { s.Infof("m") }

var c15Inl = map[string]func(c *c15Ctx){
	"L.Info": func(c *c15Ctx) {
		for _, l := range []c15InfoL{c15Marker{c}, c.l} {
			c15InlLInfo(l)
		}
	},
	"L.Error": func(c *c15Ctx) {
		for _, l := range []c15ErrorL{c15Marker{c}, c.l} {
			c15InlLError(l)
		}
	},
	"S.Info": func(c *c15Ctx) {
		for _, s := range []c15InfoS{c15MarkerS{c15Marker{c}}, c.s} {
			c15InlSInfo(s)
		}
	},
	"S.Infow": func(c *c15Ctx) {
		for _, s := range []c15InfowS{c15MarkerS{c15Marker{c}}, c.s} {
			c15InlSInfow(s)
		}
	},
	"S.Infoln": func(c *c15Ctx) {
		for _, s := range []c15InfolnS{c15MarkerS{c15Marker{c}}, c.s} {
			c15InlSInfoln(s)
		}
	},
	"S.Infof": func(c *c15Ctx) {
		for _, s := range []c15InfofS{c15MarkerS{c15Marker{c}}, c.s} {
			c15InlSInfof(s)
		}
	},
}

var c15Variants = map[string]map[string]func(c *c15Ctx){"noargs": c15NoArgs, "inl": c15Inl}
