package main

import (
	"bytes"
	"encoding/json"
	"fmt"
)

// C16 — console encoder lines have the documented shape with a valid JSON context.
// Same op format as C01 with "console": true.

func init() {
	props["C16"] = &Prop{Gen: c16Gen, Exec: c16Exec}
}

func c16Gen(r *Rand, tier string, emit func(op any)) {
	n := 2400
	if tier == "thorough" {
		n = 120000
	}
	genEncOps(r, n/2, true, 15, 20, 3, 6, emit)
	genEncOps(r, n/4, true, 70, 60, 2, 4, emit)
	genEncOps(r, n/4, true, 0, 0, 1, 2, emit) // few or no fields: exercises the metadata presence patterns
	c16GenCfg(r, tier, emit)
}

func c16Exec(raw json.RawMessage) Result {
	var kind struct {
		K string `json:"k"`
	}
	unmarshal(raw, &kind)
	if kind.K == "cfgpath" {
		return c16ExecCfg(raw)
	}
	var op encOp
	unmarshal(raw, &op)
	line, _, pmsg := encRun(&op)
	o := ok()
	if pmsg != "" {
		o = bad("C16:panic", "the log call panicked: %s", pmsg)
	} else {
		o = c16Oracle(&op, line)
	}
	c, e := op.Cfg, op.Ent
	pattern := 0
	for i, present := range []bool{c.TK != "" && c.TimeEnc != "nil" && !e.Time.Zero, c.LK != "" && c.LvlEnc != "nil", e.Name != "" && c.NK != "",
		e.Caller.Defined && c.CK != "" && c.CallerEnc != "nil", e.Caller.Defined && c.FK != "", c.MK != "", e.Stack != "" && c.SK != ""} {
		if present {
			pattern |= 1 << i
		}
	}
	nf := len(op.Fields) + len(op.Ctx)
	return Result{Impl: encImpl(line, pmsg), Oracle: o, Nontrivial: nf >= 1 || pattern != 0,
		Shape: fmt.Sprintf("console/pattern%03d/ctx%d/f%d", pattern, len(op.Ctx), bucket(len(op.Fields)))}
}

// c16Oracle rebuilds the documented line from its parts (never splitting on the separator, which may occur in
// messages) and checks the context is one valid JSON object holding the fields the JSON encoder would emit.
func c16Oracle(op *encOp, line []byte) Oracle {
	c, e := op.Cfg, op.Ent
	e = refCols(c, e) // built-in exact sub-encoders: the column texts of the independent reference (enc_oracle.go), not the observed ones
	sep := unhx(c.Sep)
	if len(sep) == 0 {
		sep = []byte("\t")
	}
	var cols [][]byte
	add := func(h *string) {
		if h != nil {
			cols = append(cols, unhx(*h))
		}
	}
	if c.TK != "" && c.TimeEnc != "nil" && !e.Time.Zero {
		add(e.TimeC)
	}
	if c.LK != "" && c.LvlEnc != "nil" {
		add(e.LvlC)
	}
	if e.Name != "" && c.NK != "" {
		add(e.NameC)
	}
	if e.Caller.Defined {
		if c.CK != "" && c.CallerEnc != "nil" {
			add(e.CallerC)
		}
		if c.FK != "" {
			cols = append(cols, unhx(e.Caller.Fn))
		}
	}
	prefix := bytes.Join(cols, sep)
	if c.MK != "" {
		if len(prefix) > 0 {
			prefix = append(prefix, sep...)
		}
		prefix = append(prefix, unhx(e.Msg)...)
	}
	var suffix []byte
	if e.Stack != "" && c.SK != "" {
		suffix = append([]byte("\n"), unhx(e.Stack)...)
	}
	suffix = append(suffix, resolvedEnding(c)...)
	if !bytes.HasPrefix(line, prefix) {
		return bad("C16:columns", "line does not start with the columns and message %q\nline: %q", trunc2(prefix), trunc2(line))
	}
	rest := line[len(prefix):]
	if !bytes.HasSuffix(rest, suffix) {
		return bad("C16:tail", "line does not end with stack trace and line ending %q\nline: %q", trunc2(suffix), trunc2(line))
	}
	mid := rest[:len(rest)-len(suffix)]
	want := fieldsTree(op)
	if len(mid) == 0 {
		if len(want.keys) != 0 {
			return bad("C16:context-missing", "fields exist but no context object was written\nline: %q", trunc2(line))
		}
		return ok()
	}
	if len(prefix) > 0 {
		if !bytes.HasPrefix(mid, sep) {
			return bad("C16:context-separator", "context is not preceded by the separator\nline: %q", trunc2(line))
		}
		mid = mid[len(sep):]
	}
	if !json.Valid(mid) || len(mid) == 0 || mid[0] != '{' {
		return bad("C16:context-invalid", "context is not one valid JSON object: %q", trunc2(mid))
	}
	for _, b := range mid {
		if b < 0x20 {
			return bad("C16:context-invalid", "raw control byte %#x in the context object: %q", b, trunc2(mid))
		}
	}
	got, err := decodeTree(mid)
	if err != nil {
		return bad("C16:context-invalid", "%v: %q", err, trunc2(mid))
	}
	if err := compareTree("$", want, got); err != nil {
		return bad("C16:context-fields", "%v\ncontext: %q", err, trunc2(mid))
	}
	// the same fields through the real JSON encoder (no metadata) must decode to the same tree
	jop := *op
	jop.Console = false
	jop.Cfg.MK, jop.Cfg.LK, jop.Cfg.TK, jop.Cfg.NK, jop.Cfg.CK, jop.Cfg.FK, jop.Cfg.SK = "", "", "", "", "", "", ""
	jline, _, jp := encRun(&jop)
	if jp == "" {
		jend := resolvedEnding(jop.Cfg)
		jt, jerr := decodeTree(bytes.TrimSuffix(jline, jend))
		if jerr != nil {
			return bad("C16:json-encoder-undecodable", "%v", jerr)
		}
		if err := compareTree("$", stripMatchers(jt), got); err != nil {
			return bad("C16:differs-from-json-encoder", "%v\ncontext: %q\njson: %q", err, trunc2(mid), trunc2(jline))
		}
	}
	return ok()
}

func stripMatchers(n node) node { return n }
