package main

import (
	"bytes"
	"encoding/json"
	"fmt"
	"net/url"
	"sort"
	"sync"
	"time"

	"go.uber.org/zap"
	"go.uber.org/zap/zapcore"
)

// C16/C01 op "cfgpath": a logger built by zap.Config.Build must write the very line a logger assembled by hand from the same
// EncoderConfig writes — Config's flags (Development, DisableCaller, DisableStacktrace, InitialFields) only decide which OPTIONS
// Build adds itself; they must not reach into the encoder configuration. Oracle only (no model).
//   {"k":"cfgpath","enc":"console"|"json","dev":b,"discaller":b,"disstack":b,"addcaller":b,"stackat":L|99,"withcaller":b,"lvl":L,"init":n}

type c16CfgOp struct {
	K          string `json:"k"`
	Enc        string `json:"enc"`
	Dev        bool   `json:"dev"`
	DisCaller  bool   `json:"discaller"`
	DisStack   bool   `json:"disstack"`
	AddCaller  bool   `json:"addcaller"`
	StackAt    int    `json:"stackat"`
	WithCaller bool   `json:"withcaller"`
	Lvl        int    `json:"lvl"`
	Init       int    `json:"init"`
}

type c16MemSink struct{ bytes.Buffer }

func (*c16MemSink) Sync() error  { return nil }
func (*c16MemSink) Close() error { return nil }

var (
	c16SinkOnce sync.Once
	c16SinkCur  *c16MemSink
)

type c16Clock struct{}

func (c16Clock) Now() time.Time                       { return time.Unix(1700000000, 123456789).UTC() }
func (c16Clock) NewTicker(time.Duration) *time.Ticker { return time.NewTicker(time.Hour) }

func c16GenCfg(r *Rand, tier string, emit func(op any)) {
	n := 160
	if tier == "thorough" {
		n = 4000
	}
	for i := 0; i < n; i++ {
		emit(c16CfgOp{K: "cfgpath", Enc: Pick(r, []string{"console", "console", "json"}), Dev: r.Bool(), DisCaller: r.Bool(), DisStack: r.Bool(),
			AddCaller: r.Bool(), StackAt: Pick(r, []int{99, 0, 1, 2}), WithCaller: r.Chance(1, 3), Lvl: Pick(r, []int{0, 1, 2, 2}), Init: r.Intn(3)})
	}
}

func c16ExecCfg(raw json.RawMessage) Result {
	var op c16CfgOp
	unmarshal(raw, &op)
	c16SinkOnce.Do(func() {
		must(zap.RegisterSink("zvc16", func(*url.URL) (zap.Sink, error) { return c16SinkCur, nil }))
	})
	ec := zapcore.EncoderConfig{TimeKey: "ts", LevelKey: "level", NameKey: "logger", CallerKey: "caller", FunctionKey: "func", MessageKey: "msg",
		StacktraceKey: "stacktrace", LineEnding: "\n", EncodeLevel: zapcore.CapitalLevelEncoder, EncodeTime: zapcore.ISO8601TimeEncoder,
		EncodeDuration: zapcore.StringDurationEncoder, EncodeCaller: zapcore.ShortCallerEncoder, EncodeName: zapcore.FullNameEncoder}
	initial := map[string]interface{}{}
	for i := 0; i < op.Init; i++ {
		initial[fmt.Sprintf("i%d", i)] = i
	}
	user := []zap.Option{zap.WithClock(c16Clock{})}
	if op.AddCaller {
		user = append(user, zap.AddCaller())
	}
	if op.StackAt != 99 {
		user = append(user, zap.AddStacktrace(zapcore.Level(op.StackAt)))
	}
	// A: Config.Build
	sinkA := &c16MemSink{}
	c16SinkCur = sinkA
	cfg := zap.Config{Level: zap.NewAtomicLevelAt(zapcore.DebugLevel), Development: op.Dev, DisableCaller: op.DisCaller, DisableStacktrace: op.DisStack,
		Encoding: op.Enc, EncoderConfig: ec, OutputPaths: []string{"zvc16://a"}, ErrorOutputPaths: []string{}, InitialFields: initial}
	lgA, err := cfg.Build(user...)
	must(err)
	// B: the same logger assembled by hand, following the documentation of Config
	sinkB := &c16MemSink{}
	var enc zapcore.Encoder
	if op.Enc == "console" {
		enc = zapcore.NewConsoleEncoder(ec)
	} else {
		enc = zapcore.NewJSONEncoder(ec)
	}
	opts := []zap.Option{}
	if op.Dev {
		opts = append(opts, zap.Development())
	}
	if !op.DisCaller {
		opts = append(opts, zap.AddCaller())
	}
	stackLevel := zapcore.ErrorLevel
	if op.Dev {
		stackLevel = zapcore.WarnLevel
	}
	if !op.DisStack {
		opts = append(opts, zap.AddStacktrace(stackLevel))
	}
	if len(initial) > 0 {
		keys := make([]string, 0, len(initial))
		for k := range initial {
			keys = append(keys, k)
		}
		sort.Strings(keys)
		fs := make([]zap.Field, 0, len(keys))
		for _, k := range keys {
			fs = append(fs, zap.Any(k, initial[k]))
		}
		opts = append(opts, zap.Fields(fs...))
	}
	lgB := zap.New(zapcore.NewCore(enc, zapcore.Lock(sinkB), zap.NewAtomicLevelAt(zapcore.DebugLevel)), append(opts, user...)...)
	loggers := []*zap.Logger{lgA.Named("svc"), lgB.Named("svc")}
	if op.WithCaller {
		loggers[0], loggers[1] = loggers[0].WithOptions(zap.WithCaller(true)), loggers[1].WithOptions(zap.WithCaller(true))
	}
	for _, l := range loggers { // one call site for both: identical caller and stack
		l.Log(zapcore.Level(op.Lvl), "boom", zap.Int("k", 1))
	}
	o := ok()
	if !bytes.Equal(sinkA.Bytes(), sinkB.Bytes()) {
		o = bad("C16:config-built-line-differs:"+op.Enc, "zap.Config{Development:%v DisableCaller:%v DisableStacktrace:%v}.Build(…) wrote\n%q\nthe same logger assembled from the same EncoderConfig wrote\n%q",
			op.Dev, op.DisCaller, op.DisStack, trunc2(sinkA.Bytes()), trunc2(sinkB.Bytes()))
	}
	return Result{Impl: map[string]any{"nomodel": true}, Oracle: o, NoModel: true, Nontrivial: op.DisCaller || op.DisStack,
		Shape: fmt.Sprintf("cfgpath/%s/dc%v/ds%v", op.Enc, op.DisCaller, op.DisStack)}
}
