package main

import (
	"encoding/json"
	"errors"
	"fmt"
	"io"

	"go.uber.org/zap"
	"go.uber.org/zap/zapcore"
	"go.uber.org/zap/zapio"
	"go.uber.org/zap/zaptest/observer"
)

// C17 — zapio.Writer logs exactly the lines of the byte stream, however it is chunked.
//
// op: {"k":"session","steps":[{"w":"<hex>"} | {"s":1} | {"e":true|false}]}   (a Close is appended)
// impl/model output: {"rets":[n…], "errs":[bool…], "msgs":["<hex>"…]}

type c17Step struct {
	W *string `json:"w,omitempty"`
	S int     `json:"s,omitempty"`
	E *bool   `json:"e,omitempty"`
}

type c17Op struct {
	K     string    `json:"k"`
	Steps []c17Step `json:"steps"`
}

func init() {
	props["C17"] = &Prop{Gen: c17Gen, Exec: c17Exec}
}

func c17Partitions(stream []byte, emit func(op any)) {
	n := len(stream)
	if n == 0 {
		emit(c17Op{K: "session", Steps: []c17Step{}})
		return
	}
	for mask := 0; mask < 1<<(n-1); mask++ {
		steps := []c17Step{}
		start := 0
		for i := 1; i <= n; i++ {
			if i == n || mask&(1<<(i-1)) != 0 {
				h := hx(stream[start:i])
				steps = append(steps, c17Step{W: &h})
				start = i
			}
		}
		emit(c17Op{K: "session", Steps: steps})
	}
}

func c17Gen(r *Rand, tier string, emit func(op any)) {
	alpha := []byte{'\n', 'a', 0xff}
	maxN, nStreams, nRandom := 8, 24, 1500
	if tier == "thorough" {
		maxN, nStreams, nRandom = 12, 60, 60000
	}
	// exhaustive: every partition of structured streams over {\n, a, 0xff}
	for n := 0; n <= 4; n++ { // all streams up to length 4, all partitions
		total := 1
		for i := 0; i < n; i++ {
			total *= 3
		}
		for code := 0; code < total; code++ {
			s := make([]byte, n)
			c := code
			for i := range s {
				s[i] = alpha[c%3]
				c /= 3
			}
			c17Partitions(s, emit)
		}
	}
	for i := 0; i < nStreams; i++ {
		n := 5 + r.Intn(maxN-4)
		s := make([]byte, n)
		for j := range s {
			s[j] = alpha[r.Intn(3)]
		}
		c17Partitions(s, emit)
	}
	// very long lines (around and beyond 64 KiB, 1 MiB in the thorough tier) delivered in chunks of several sizes
	longLens := []int{65535, 65536, 65537, 70000}
	if tier == "thorough" {
		longLens = append(longLens, 131072, 200000, 1<<20+3)
	}
	for _, ll := range longLens {
		for _, chunk := range []int{4096, 1000, 65536, ll + 1} {
			line := make([]byte, ll)
			for q := range line {
				line[q] = byte('a' + (q*7+ll)%26)
			}
			stream := append(append([]byte("x\n"), line...), []byte("\ntail")...)
			steps := []c17Step{}
			for off := 0; off < len(stream); off += chunk {
				end := off + chunk
				if end > len(stream) {
					end = len(stream)
				}
				h := hx(stream[off:end])
				steps = append(steps, c17Step{W: &h})
			}
			emit(c17Op{K: "session", Steps: steps})
		}
	}
	// random sessions with empty writes, syncs, level toggles, long lines, arbitrary bytes
	for i := 0; i < nRandom; i++ {
		steps := []c17Step{}
		k := r.Intn(10)
		for j := 0; j < k; j++ {
			switch r.Intn(12) {
			case 0:
				steps = append(steps, c17Step{S: 1})
			case 1:
				if r.Chance(1, 3) {
					e := r.Bool()
					steps = append(steps, c17Step{E: &e})
				} else {
					steps = append(steps, c17Step{S: 1})
				}
			case 2:
				h := ""
				steps = append(steps, c17Step{W: &h})
			case 3:
				b := make([]byte, 200+r.Intn(3000))
				for q := range b {
					b[q] = byte('a' + r.Intn(26))
					if r.Chance(1, 400) {
						b[q] = '\n'
					}
				}
				h := hx(b)
				steps = append(steps, c17Step{W: &h})
			default:
				h := hx(r.Bytes(12))
				steps = append(steps, c17Step{W: &h})
			}
		}
		emit(c17Op{K: "session", Steps: steps})
	}
}

type c17FailSink struct{}

func (c17FailSink) Write([]byte) (int, error) { return 0, errors.New("disk full") }
func (c17FailSink) Sync() error               { return errors.New("sync failed") }

func c17Exec(raw json.RawMessage) Result {
	var op c17Op
	unmarshal(raw, &op)
	lvl := zap.NewAtomicLevelAt(zapcore.InfoLevel)
	core, logs := observer.New(lvl)
	var logger *zap.Logger
	if len(op.Steps)%2 == 1 {
		// the logger behind the writer has a second destination whose every write FAILS, registered first: the lines must
		// reach the healthy core all the same and Write keeps reporting all bytes consumed
		broken := zapcore.NewCore(zapcore.NewJSONEncoder(zapcore.EncoderConfig{MessageKey: "m"}), c17FailSink{}, lvl)
		logger = zap.New(zapcore.NewTee(broken, core), zap.ErrorOutput(zapcore.AddSync(io.Discard)))
	} else {
		logger = zap.New(core)
	}
	w := &zapio.Writer{Log: logger, Level: zapcore.InfoLevel}

	rets := []int{}
	errs := []bool{}
	// independent oracle: the stream of bytes accepted while enabled; a message ends at each newline and,
	// when non-empty, at each Sync/Close; a message is observable iff the level is enabled at that moment.
	var want [][]byte
	cur := []byte{}
	enabled := true
	retOK := true
	nWrites, nSync, nToggle, nl := 0, 0, 0, 0
	flushOracle := func() {
		if len(cur) > 0 {
			if enabled {
				want = append(want, cur)
			}
			cur = []byte{}
		}
	}
	var scratch []byte
	for _, st := range op.Steps {
		switch {
		case st.W != nil:
			p := unhx(*st.W)
			// the caller owns p again as soon as Write returns (io.Writer: "Write must not retain p"): every chunk is handed
			// over in ONE reused scratch slice which is scribbled over afterwards, as io.Copy and friends do
			if cap(scratch) < len(p) {
				scratch = make([]byte, 0, 2*len(p)+16)
			}
			chunk := append(scratch[:0], p...)
			n, err := w.Write(chunk)
			for i := range chunk {
				chunk[i] = '#'
			}
			rets = append(rets, n)
			errs = append(errs, err != nil)
			if n != len(p) || err != nil {
				retOK = false
			}
			nWrites++
			if enabled {
				for _, b := range p {
					if b == '\n' {
						nl++
						want = append(want, cur)
						cur = []byte{}
					} else {
						cur = append(cur, b)
					}
				}
			}
		case st.E != nil:
			nToggle++
			enabled = *st.E
			if enabled {
				lvl.SetLevel(zapcore.InfoLevel)
			} else {
				lvl.SetLevel(zapcore.ErrorLevel)
			}
		default:
			nSync++
			if err := w.Sync(); err != nil {
				retOK = false
			}
			flushOracle()
		}
	}
	if err := w.Close(); err != nil {
		retOK = false
	}
	flushOracle()

	msgs := []string{}
	for _, e := range logs.All() {
		msgs = append(msgs, hx([]byte(e.Message)))
	}
	impl := map[string]any{"rets": rets, "errs": errs, "msgs": msgs}

	o := ok()
	if !retOK {
		o = bad("C17:write-count", "a Write/Sync/Close did not report all bytes consumed with nil error: rets=%v errs=%v", rets, errs)
	} else if len(want) != len(msgs) {
		o = bad("C17:lines", "logged %d messages, stream has %d lines", len(msgs), len(want))
	} else {
		for i := range want {
			if hx(want[i]) != msgs[i] {
				o = bad("C17:lines", "message %d = %q, stream line = %q", i, unhx(msgs[i]), want[i])
				break
			}
		}
	}
	return Result{
		Impl:       impl,
		Oracle:     o,
		Nontrivial: nWrites >= 2 && nl >= 1,
		Shape:      fmt.Sprintf("w%d/s%d/e%d/nl%d", bucket(nWrites), bucket(nSync), bucket(nToggle), bucket(nl)),
	}
}

func bucket(n int) int {
	switch {
	case n <= 3:
		return n
	case n <= 7:
		return 4
	case n <= 15:
		return 8
	default:
		return 16
	}
}
