package main

import (
	"bytes"
	"context"
	"encoding/json"
	"errors"
	"fmt"
	"log/slog"
	"math"
	"strconv"
	"strings"
	"time"

	"go.uber.org/zap"
	"go.uber.org/zap/exp/zapslog"
	"go.uber.org/zap/zapcore"
)

// C18 — the slog handler reproduces slog's attribute and group semantics.
//
// ops
//   {"k":"prog","enab":[zap levels the core enables],"name":…,"stack_at":…,"steps":[STEP…]}
//     STEP  {"t":"g","on":i,"name":s}         handler #(next) = handler #i .WithGroup(s)
//           {"t":"a","on":i,"attrs":[ATTR…]}  handler #(next) = handler #i .WithAttrs(attrs)
//           {"t":"h","on":i,"lvl":l,"attrs":[ATTR…]}   handler #i handles a record (handler #0 is the root; a step
//                                              whose `on` does not exist yet is ignored)
//     ATTR  {"a":"leaf","k":key,"lv":n,"ty":kind,"v":text} | {"a":"nil","k":key,"lv":n} | {"a":"group","k":key,"lv":n,"m":[ATTR…]}
//           lv = number of LogValuer wrappers around the value; "nil" is the zero Value (key "" ⇒ the empty Attr)
//     → {"out":[{"enabled":b,"written":b,"level":z|null,"tree":[NODE…]|null} per "h" step]}
//     NODE  {"k","ty","v"} leaf (recorded ObjectEncoder method tag, canonical text) | {"k","c":[NODE…]} group
//   {"k":"levels"} → {"table":[[slogLevel, zapLevel]…]} for −12…12 (the same dump feeds Gen/SlogLevels.lean)

type c18Attr struct {
	A  string    `json:"a"`
	K  string    `json:"k"`
	LV int       `json:"lv"`
	Ty string    `json:"ty,omitempty"`
	V  string    `json:"v,omitempty"`
	M  []c18Attr `json:"m,omitempty"`
}

type c18Step struct {
	T     string    `json:"t"`
	On    int       `json:"on"`
	Name  string    `json:"name,omitempty"`
	Lvl   int       `json:"lvl,omitempty"`
	Attrs []c18Attr `json:"attrs,omitempty"`
}

type c18Op struct {
	K       string    `json:"k"`
	Enab    []int     `json:"enab,omitempty"`
	Name    string    `json:"name,omitempty"`
	StackAt int       `json:"stack_at,omitempty"`
	Steps   []c18Step `json:"steps,omitempty"`
}

func init() {
	props["C18"] = &Prop{Gen: c18Gen, Exec: c18Exec}
	dumps["SlogLevels"] = c18DumpLevels
}

// ---------------------------------------------------------------- building slog values

type c18LV struct{ v slog.Value }

func (l c18LV) LogValue() slog.Value { return l.v }

type c18Struct struct{ A int }

// recorded ObjectEncoder tag expected for a slog kind (only used to print the tables in the evidence; the
// oracle compares typed kinds exactly and any-kinds by text)
var c18Kinds = []string{"bool", "dur", "f64", "i64", "str", "time", "u64", "any:strs", "any:struct", "any:err", "any:lvpanic"}

// c18PanicLV is a LogValuer whose LogValue panics: slog's Value.Resolve contains the panic and yields an error value whose
// text starts with "LogValue panicked" (followed by a stack, cut off by the recording encoder)
type c18PanicLV struct{}

func (c18PanicLV) LogValue() slog.Value { panic("boom") }

func c18LeafValue(ty, v string) slog.Value {
	switch ty {
	case "bool":
		return slog.BoolValue(v == "true")
	case "dur":
		n, err := strconv.ParseInt(v, 10, 64)
		must(err)
		return slog.DurationValue(time.Duration(n))
	case "f64":
		n, err := strconv.ParseUint(v, 16, 64)
		must(err)
		return slog.Float64Value(math.Float64frombits(n))
	case "i64":
		n, err := strconv.ParseInt(v, 10, 64)
		must(err)
		return slog.Int64Value(n)
	case "str":
		return slog.StringValue(v)
	case "time":
		t, err := time.Parse(time.RFC3339Nano, v)
		must(err)
		return slog.TimeValue(t)
	case "u64":
		n, err := strconv.ParseUint(v, 10, 64)
		must(err)
		return slog.Uint64Value(n)
	case "any:strs":
		return slog.AnyValue(strings.Fields(strings.Trim(v, "[]")))
	case "any:struct":
		n, err := strconv.Atoi(strings.Trim(v, "{}"))
		must(err)
		return slog.AnyValue(c18Struct{n})
	case "any:err":
		return slog.AnyValue(errors.New(v))
	case "any:lvpanic":
		return slog.AnyValue(c18PanicLV{})
	}
	panic("unknown leaf kind " + ty)
}

func c18Build(a c18Attr) slog.Attr {
	var v slog.Value
	switch a.A {
	case "leaf":
		v = c18LeafValue(a.Ty, a.V)
	case "nil":
		v = slog.Value{}
	case "group":
		v = slog.GroupValue(c18BuildAll(a.M)...)
	default:
		panic("unknown attr form " + a.A)
	}
	for i := 0; i < a.LV; i++ {
		v = slog.AnyValue(c18LV{v})
	}
	return slog.Attr{Key: a.K, Value: v}
}

// c18AttrShape describes attributes WITHOUT resolving anything: kinds, keys and nesting exactly as the caller built them. The
// attributes (and the member slices behind group values, which slog hands out without copying) belong to the caller: a
// handler must leave them as they are, so that the same attributes can be logged again and LogValuers are asked again.
func c18AttrShape(as []slog.Attr) string {
	var b strings.Builder
	var walk func(v slog.Value)
	walk = func(v slog.Value) {
		switch v.Kind() {
		case slog.KindGroup:
			b.WriteString("G(")
			for _, m := range v.Group() {
				b.WriteString(m.Key + ":")
				walk(m.Value)
				b.WriteString(",")
			}
			b.WriteString(")")
		case slog.KindLogValuer:
			b.WriteString("LV")
		default:
			b.WriteString(v.Kind().String() + "=" + v.String())
		}
	}
	for _, a := range as {
		b.WriteString(a.Key + ":")
		walk(a.Value)
		b.WriteString(";")
	}
	return b.String()
}

func c18BuildAll(as []c18Attr) []slog.Attr {
	out := make([]slog.Attr, 0, len(as))
	for _, a := range as {
		out = append(out, c18Build(a))
	}
	return out
}

// ---------------------------------------------------------------- level table (dynamic dump)

// c18Mapped observes convertSlogLevel through a handler over a core that enables everything.
func c18Mapped(l int) int {
	var buf bytes.Buffer
	core := zapcore.NewCore(newRecEnc(), zapcore.AddSync(&buf), zap.LevelEnablerFunc(func(zapcore.Level) bool { return true }))
	h := zapslog.NewHandler(core, zapslog.AddStacktraceAt(slog.Level(1000)))
	must(h.Handle(context.Background(), slog.NewRecord(time.Time{}, slog.Level(l), "m", 0)))
	var line recLine
	must(json.Unmarshal(buf.Bytes(), &line))
	return line.Level
}

var c18LevelCache = map[int]int{}

func c18Level(l int) int {
	if z, ok := c18LevelCache[l]; ok {
		return z
	}
	z := c18Mapped(l)
	c18LevelCache[l] = z
	return z
}

// c18LevelPoints: every slog level in −12…12 plus far-out values on both sides (width boundaries of every integer
// type a conversion could pass through), ascending.
func c18LevelPoints() []int {
	pts := []int{math.MinInt64, math.MinInt32 - 1, math.MinInt32, -65537, -65536, -32769, -32768, -1025, -1024, -517, -516, -513, -512, -257, -256, -129, -128, -100, -20, -13}
	for l := -12; l <= 12; l++ {
		pts = append(pts, l)
	}
	return append(pts, 13, 20, 100, 127, 128, 255, 256, 511, 512, 513, 1023, 1024, 32767, 32768, 65535, 65536, math.MaxInt32, math.MaxInt32+1, math.MaxInt64)
}

func c18DumpLevels() {
	for _, l := range c18LevelPoints() {
		fmt.Fprintf(dumpOut, "%d %d\n", l, c18Mapped(l))
	}
}

// ---------------------------------------------------------------- executor

type c18Out struct {
	Enabled bool     `json:"enabled"`
	Written bool     `json:"written"`
	Level   *int     `json:"level"`
	Tree    []*tnode `json:"tree"`
}

func c18Exec(raw json.RawMessage) Result {
	var op c18Op
	unmarshal(raw, &op)
	switch op.K {
	case "levels":
		tab := [][]int{}
		o := ok()
		for i, l := range c18LevelPoints() {
			z := c18Mapped(l)
			tab = append(tab, []int{l, z})
			if z < int(zapcore.DebugLevel) || z > int(zapcore.FatalLevel) {
				o = bad("C18:level-not-a-zap-level", "slog level %d maps to %d, which is not a zap level", l, z)
			}
			if i > 0 && z < tab[len(tab)-2][1] {
				o = bad("C18:level-map-not-monotone", "slog %d ↦ %d but slog %d ↦ %d", tab[len(tab)-2][0], tab[len(tab)-2][1], l, z)
			}
		}
		return Result{Impl: map[string]any{"table": tab}, Oracle: o, Nontrivial: true, Shape: "levels"}
	case "prog":
		return c18Prog(op)
	}
	panic("unknown op kind " + op.K)
}

func c18Prog(op c18Op) Result {
	enabSet := map[int]bool{}
	for _, z := range op.Enab {
		enabSet[z] = true
	}
	enab := zap.LevelEnablerFunc(func(l zapcore.Level) bool { return enabSet[int(l)] })
	var recBuf, jsonBuf bytes.Buffer
	core := zapcore.NewTee(
		zapcore.NewCore(newRecEnc(), zapcore.AddSync(&recBuf), enab),
		zapcore.NewCore(zapcore.NewJSONEncoder(zapcore.EncoderConfig{}), zapcore.AddSync(&jsonBuf), enab),
	)
	root := zapslog.NewHandler(core, zapslog.WithName(op.Name), zapslog.AddStacktraceAt(slog.Level(op.StackAt)))
	handlers := []slog.Handler{root}
	paths := [][]c18Step{nil}
	derivedFrom := map[int]int{} // handler index → number of children
	ctx := context.Background()
	outs := []c18Out{}
	attrsModified := ""
	o := ok()
	// one verdict per op: keep the rarest class, so that a frequent finding does not hide another one
	rank := func(sig string) int {
		switch sig {
		case "C18:empty-group-emitted":
			return 1
		case "C18:empty-group-name-opens-group":
			return 2
		}
		return 3
	}
	fail := func(v Oracle) {
		if o.OK || rank(v.Sig) > rank(o.Sig) {
			o = v
		}
	}
	feat := map[string]bool{}
	nontrivial := false
	for _, st := range op.Steps {
		if st.On < 0 || st.On >= len(handlers) {
			continue
		}
		switch st.T {
		case "g", "a":
			var nh slog.Handler
			if st.T == "g" {
				nh = handlers[st.On].WithGroup(st.Name)
				if st.Name == "" {
					feat["g0"] = true
				}
			} else {
				mine := c18BuildAll(st.Attrs)
				shape := c18AttrShape(mine)
				nh = handlers[st.On].WithAttrs(mine)
				if now := c18AttrShape(mine); now != shape {
					attrsModified = fmt.Sprintf("WithAttrs changed the caller's attributes: %q → %q", shape, now)
				}
				c18Features(st.Attrs, feat)
			}
			handlers = append(handlers, nh)
			paths = append(paths, append(append([]c18Step(nil), paths[st.On]...), st))
			derivedFrom[st.On]++
			if derivedFrom[st.On] >= 2 {
				feat["branch"] = true
			}
		case "h":
			h := handlers[st.On]
			if derivedFrom[st.On] > 0 {
				feat["reuse"] = true
			}
			c18Features(st.Attrs, feat)
			recBuf.Reset()
			jsonBuf.Reset()
			// the context must not matter (slog: "canceling the context should not affect record processing"): every third
			// record is handled under an already cancelled context, every third under an expired one
			hctx := ctx
			switch len(outs) % 3 {
			case 1:
				c, cancel := context.WithCancel(ctx)
				cancel()
				hctx = c
			case 2:
				c, cancel := context.WithDeadline(ctx, time.Unix(0, 0))
				defer cancel()
				hctx = c
			}
			en := h.Enabled(hctx, slog.Level(st.Lvl))
			r := slog.NewRecord(time.Time{}, slog.Level(st.Lvl), "m", 0)
			mine := c18BuildAll(st.Attrs)
			shape := c18AttrShape(mine)
			r.AddAttrs(mine...)
			herr := h.Handle(hctx, r)
			if now := c18AttrShape(mine); now != shape {
				attrsModified = fmt.Sprintf("Handle changed the caller's attributes: %q → %q", shape, now)
			}
			out := c18Out{Enabled: en}
			lines := bytes.Count(recBuf.Bytes(), []byte("\n"))
			var line recLine
			if lines == 1 {
				must(json.Unmarshal(recBuf.Bytes(), &line))
				out.Written = true
				lv := line.Level
				out.Level = &lv
				out.Tree = line.Fields
			}
			outs = append(outs, out)
			// ---- oracle (independent of the Lean model)
			mapped := c18Level(st.Lvl)
			want := enabSet[mapped]
			switch {
			case herr != nil:
				fail(bad("C18:handle-error", "Handle returned %v", herr))
			case lines > 1:
				fail(bad("C18:written-twice", "one record produced %d entries", lines))
			case en != want || out.Written != want:
				fail(bad("C18:handled-iff-enabled", "slog level %d maps to zap %d, core enables it: %v; Enabled()=%v, entry written=%v", st.Lvl, mapped, want, en, out.Written))
			case out.Written && line.Level != mapped:
				fail(bad("C18:level-differs", "entry carries level %d, an all-enabled core sees %d for slog level %d", line.Level, mapped, st.Lvl))
			case out.Written && line.Name != op.Name:
				fail(bad("C18:logger-name", "entry carries logger name %q, want %q", line.Name, op.Name))
			}
			if out.Written {
				exp := c18RefTree(paths[st.On], st.Attrs)
				if len(exp) > 0 && len(paths[st.On]) > 0 {
					nontrivial = true
				}
				v := c18Judge(op, paths[st.On], st, exp, line.Fields, jsonBuf.Bytes())
				if !v.OK {
					fail(v)
				}
			}
		default:
			panic("unknown step " + st.T)
		}
	}
	if attrsModified != "" && o.OK {
		o = bad("C18:caller-attrs-modified", "%s", attrsModified)
	}
	return Result{Impl: map[string]any{"out": outs}, Oracle: o, Nontrivial: nontrivial, Shape: c18Shape(op, feat)}
}

func c18Features(as []c18Attr, feat map[string]bool) {
	for _, a := range as {
		if a.LV > 0 {
			feat["lv"] = true
		}
		switch a.A {
		case "nil":
			if a.K == "" {
				feat["empty"] = true
			}
		case "group":
			if a.K == "" {
				feat["inline"] = true
			}
			if len(c18RefTree(nil, a.M)) == 0 {
				feat["egroup"] = true
			}
			c18Features(a.M, feat)
		}
	}
}

func c18Shape(op c18Op, feat map[string]bool) string {
	nd := 0
	for _, s := range op.Steps {
		if s.T != "h" {
			nd++
		}
	}
	s := fmt.Sprintf("prog/d%d", bucket(nd))
	for _, k := range []string{"branch", "reuse", "g0", "lv", "empty", "egroup", "inline"} {
		if feat[k] {
			s += "+" + k
		}
	}
	return s
}

// ---------------------------------------------------------------- generator

var c18Keys = []string{"a", "b", "c", "k", "g", "x.y", "msg", "level", "ü", "\"q\"", "a b", "A"}

func c18GenLeaf(r *Rand) c18Attr {
	a := c18Attr{A: "leaf", K: Pick(r, c18Keys), Ty: Pick(r, c18Kinds)}
	if r.Chance(1, 12) {
		a.K = ""
	}
	switch a.Ty {
	case "bool":
		a.V = strconv.FormatBool(r.Bool())
	case "dur":
		a.V = strconv.FormatInt(Pick(r, []int64{0, 1, -1, 1500, 3600e9, -1 << 63, 1<<63 - 1}), 10)
	case "f64":
		a.V = f64text(Pick(r, []float64{0, 1, -2.5, 1e300, 5e-324, math.NaN(), math.Inf(1), math.Inf(-1)}))
	case "i64":
		a.V = strconv.FormatInt(Pick(r, []int64{0, 1, -1, 42, -1 << 63, 1<<63 - 1}), 10)
	case "str":
		a.V = Pick(r, []string{"", "s", "hello world", "\"quoted\"\\", "línea\n2", "{}", "null"})
	case "time":
		a.V = Pick(r, []string{"0001-01-01T00:00:00Z", "1970-01-01T00:00:00Z", "2024-02-29T12:34:56.789012345Z", "3000-01-01T00:00:00Z", "1677-09-21T00:12:43.145224192Z"})
	case "u64":
		a.V = strconv.FormatUint(Pick(r, []uint64{0, 1, 1 << 63, 1<<64 - 1}), 10)
	case "any:strs":
		a.V = Pick(r, []string{"[]", "[x]", "[x y]"})
	case "any:struct":
		a.V = Pick(r, []string{"{7}", "{0}", "{-3}"})
	case "any:err":
		a.V = Pick(r, []string{"boom", "e"})
	case "any:lvpanic":
		a.V = "LogValue panicked"
	}
	if r.Chance(1, 6) {
		a.LV = 1 + r.Intn(2)
	}
	return a
}

// c18GenAttr draws an attribute tree; `depth` bounds group nesting.
func c18GenAttr(r *Rand, depth int) c18Attr {
	lv := 0
	if r.Chance(1, 4) {
		lv = 1 + r.Intn(2)
	}
	x := r.Intn(20)
	switch {
	case x < 9 || depth <= 0 && x < 15:
		return c18GenLeaf(r)
	case x < 11: // the empty Attr, possibly behind LogValuers
		return c18Attr{A: "nil", K: "", LV: lv}
	case x < 12: // a nil value under a key: a real attribute
		return c18Attr{A: "nil", K: Pick(r, c18Keys), LV: lv}
	case x < 15 || depth <= 0: // empty group, named or inline
		k := Pick(r, c18Keys)
		if r.Chance(1, 3) {
			k = ""
		}
		return c18Attr{A: "group", K: k, LV: lv, M: []c18Attr{}}
	default:
		k := Pick(r, c18Keys)
		if r.Chance(1, 3) {
			k = ""
		}
		n := 1 + r.Intn(3)
		ms := make([]c18Attr, 0, n)
		for i := 0; i < n; i++ {
			ms = append(ms, c18GenAttr(r, depth-1))
		}
		return c18Attr{A: "group", K: k, LV: lv, M: ms}
	}
}

func c18GenAttrs(r *Rand, max int) []c18Attr {
	n := r.Intn(max + 1)
	as := make([]c18Attr, 0, n)
	for i := 0; i < n; i++ {
		as = append(as, c18GenAttr(r, 3))
	}
	return as
}

func c18GenEnab(r *Rand) []int {
	switch r.Intn(4) {
	case 0: // everything
		return []int{-1, 0, 1, 2, 3, 4, 5}
	case 1: // threshold
		t := -1 + r.Intn(5)
		e := []int{}
		for z := t; z <= 5; z++ {
			e = append(e, z)
		}
		return e
	default: // arbitrary subset (LevelEnablerFunc need not be monotone)
		e := []int{}
		for z := -1; z <= 5; z++ {
			if r.Chance(2, 3) {
				e = append(e, z)
			}
		}
		return e
	}
}

func c18GenLevel(r *Rand) int {
	if r.Chance(1, 2) {
		return Pick(r, []int{-4, 0, 4, 8})
	}
	if r.Chance(1, 6) {
		return Pick(r, c18LevelPoints())
	}
	return -12 + r.Intn(25)
}

func c18GenProg(r *Rand) c18Op {
	op := c18Op{K: "prog", Enab: c18GenEnab(r), Name: Pick(r, []string{"", "n", "a.b"}), StackAt: Pick(r, []int{8, 8, -100, 100})}
	nh := 1
	nsteps := 2 + r.Intn(10)
	deepChain := r.Chance(1, 4) // a run of WithGroups then siblings: exposes shared backing arrays
	for i := 0; i < nsteps; i++ {
		on := r.Intn(nh)
		if r.Chance(1, 2) {
			on = nh - 1 // mostly extend the newest handler, sometimes branch off an older one
		}
		switch x := r.Intn(10); {
		case deepChain && i < 4:
			op.Steps = append(op.Steps, c18Step{T: "g", On: nh - 1, Name: Pick(r, c18Keys)})
			nh++
		case deepChain && i < 7:
			op.Steps = append(op.Steps, c18Step{T: "g", On: 4, Name: Pick(r, c18Keys)})
			nh++
		case x < 3:
			name := Pick(r, c18Keys)
			if r.Chance(1, 6) {
				name = ""
			}
			op.Steps = append(op.Steps, c18Step{T: "g", On: on, Name: name})
			nh++
		case x < 6:
			op.Steps = append(op.Steps, c18Step{T: "a", On: on, Attrs: c18GenAttrs(r, 3)})
			nh++
		default:
			op.Steps = append(op.Steps, c18Step{T: "h", On: on, Lvl: c18GenLevel(r), Attrs: c18GenAttrs(r, 3)})
		}
	}
	// finally every handler (parents and siblings included) handles a record
	for i := 0; i < nh; i++ {
		as := c18GenAttrs(r, 2)
		if r.Chance(1, 2) {
			as = append(as, c18GenLeaf(r))
		}
		op.Steps = append(op.Steps, c18Step{T: "h", On: i, Lvl: c18GenLevel(r), Attrs: as})
	}
	return op
}

// small attribute forests over a tiny alphabet, exhaustively: every ordered forest with exactly n nodes
func c18Forests(n int) [][]c18Attr {
	if n == 0 {
		return [][]c18Attr{{}}
	}
	var out [][]c18Attr
	// first tree has s nodes (1 ≤ s ≤ n), the rest is a forest of n−s nodes
	for s := 1; s <= n; s++ {
		for _, first := range c18Trees(s) {
			for _, rest := range c18Forests(n - s) {
				out = append(out, append([]c18Attr{first}, rest...))
			}
		}
	}
	return out
}

func c18Trees(n int) []c18Attr {
	var out []c18Attr
	if n == 1 {
		out = append(out,
			c18Attr{A: "leaf", K: "a", Ty: "i64", V: "1"},
			c18Attr{A: "nil", K: ""},
			c18Attr{A: "nil", K: "", LV: 1},
			c18Attr{A: "nil", K: "n"})
	}
	for _, ms := range c18Forests(n - 1) {
		for _, k := range []string{"g", ""} {
			for lv := 0; lv <= 1; lv++ {
				out = append(out, c18Attr{A: "group", K: k, LV: lv, M: ms})
			}
		}
	}
	return out
}

func c18Gen(r *Rand, tier string, emit func(op any)) {
	emit(c18Op{K: "levels"})
	all := []int{-1, 0, 1, 2, 3, 4, 5}
	// every slog level in [−12,12] against every threshold and a few odd enablers
	enabs := [][]int{all, {}, {0}, {-1, 1}, {2, 3, 4, 5}, {-1, 0, 1}, {1, 2}}
	for _, e := range enabs {
		op := c18Op{K: "prog", Enab: e, StackAt: 8}
		op.Steps = append(op.Steps, c18Step{T: "g", On: 0, Name: "g"})
		for _, l := range c18LevelPoints() {
			op.Steps = append(op.Steps, c18Step{T: "h", On: 1, Lvl: l, Attrs: []c18Attr{{A: "leaf", K: "a", Ty: "i64", V: strconv.Itoa(l)}}})
		}
		emit(op)
	}
	// exhaustive: derivation sequences over a small step alphabet × all attribute forests up to a node bound
	//   quick:    derivations ≤ 2 steps × forests ≤ 3 nodes
	//   thorough: derivations ≤ 3 steps × forests ≤ 3 nodes, and derivations ≤ 1 step × forests ≤ 4 nodes
	stepAlpha := []c18Step{
		{T: "g", Name: "p"},
		{T: "g", Name: ""},
		{T: "a", Attrs: []c18Attr{}},
		{T: "a", Attrs: []c18Attr{{A: "leaf", K: "w", Ty: "str", V: "s"}}},
		{T: "a", Attrs: []c18Attr{{A: "group", K: "e", M: []c18Attr{}}}},
		{T: "a", Attrs: []c18Attr{{A: "nil", K: ""}, {A: "group", K: "", LV: 1, M: []c18Attr{{A: "nil", K: "", LV: 1}}}}},
		{T: "a", Attrs: []c18Attr{{A: "group", K: "", M: []c18Attr{{A: "leaf", K: "i", Ty: "bool", V: "true"}}}}},
	}
	exhaustive := func(maxDer, minNodes, maxNodes int) {
		var forests [][]c18Attr
		for n := minNodes; n <= maxNodes; n++ {
			forests = append(forests, c18Forests(n)...)
		}
		var ders [][]c18Step
		var rec func(prefix []c18Step, d int)
		rec = func(prefix []c18Step, d int) {
			ders = append(ders, append([]c18Step(nil), prefix...))
			if d == 0 {
				return
			}
			for _, s := range stepAlpha {
				s.On = len(prefix)
				rec(append(prefix, s), d-1)
			}
		}
		rec(nil, maxDer)
		const chunk = 40
		for _, d := range ders {
			for lo := 0; lo < len(forests); lo += chunk {
				hi := lo + chunk
				if hi > len(forests) {
					hi = len(forests)
				}
				op := c18Op{K: "prog", Enab: all, StackAt: 8}
				op.Steps = append(op.Steps, d...)
				for _, f := range forests[lo:hi] {
					op.Steps = append(op.Steps, c18Step{T: "h", On: len(d), Lvl: 0, Attrs: f})
				}
				emit(op)
			}
		}
	}
	if tier == "thorough" {
		exhaustive(3, 0, 3)
		exhaustive(1, 4, 4)
	} else {
		exhaustive(2, 0, 3)
	}
	n := 6000
	if tier == "thorough" {
		n = 60000
	}
	for i := 0; i < n; i++ {
		emit(c18GenProg(r))
	}
}
